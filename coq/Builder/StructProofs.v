(* C15, builder / build layer: STRUCTURAL theorems about the executable models
   Builder.v (CircuitBuilder) and Build.v (remove_unused_gates + build).

   Part A  every request changes the gate store by at most a few "primitive steps"
           (final_xor, the double push of the (a&b)^(a&c) rewrite, push_gate(And));
   Part B  the structural invariant [sinv] (no constant / repeated AND operand, XOR shape,
           cache keys, AND uniqueness with dedup, symmetry of [negated]) is preserved by
           every primitive step, hence holds for every reachable builder;
   Part C  [build]: shape of the result, converse of the marking pass (a gate is kept only
           if it reaches a root), transport of [sinv] through the injective renumbering;
   Part D  the theorems pinned in Props/C15.v;
   Part E  AND-gate counting and the folding facts at request level. *)
From GV Require Import Base.Util Base.NMap Circuit.Ssa Circuit.SsaProofs
  Builder.Builder Builder.Build Builder.BuilderSem Builder.BuilderSpec Builder.BuilderProofs
  Builder.BuildProofs Builder.Requests Builder.StructSpec.

Local Notation gops := BuilderProofs.gops.

(* ================================================================== Part A: steps *)

(* what [push_xor] can do to the builder *)
Inductive xstep (b : builder) : builder -> Prop :=
| xs_final x y :
    optimize_xor b x y = None -> valid b x -> valid b y ->
    xstep b (snd (final_xor b x y))
| xs_andand x y x1 x2 y1 y2 a1 a2 b2 :
    x <> y -> valid b x -> valid b y ->
    lookup b x = Ok (Some (BAnd x1 x2)) -> lookup b y = Ok (Some (BAnd y1 y2)) ->
    find_common (arrangements x1 x2 y1 y2) = Some (a1, a2, b2) ->
    xstep b (snd (push_gate (snd (push_gate b (BXor a2 b2))) (BAnd a1 (counter b)))).

(* what [push_and] can do *)
Inductive astep (b : builder) : builder -> Prop :=
| as_push x y :
    optimize_and b x y = None -> valid b x -> valid b y ->
    astep b (snd (push_gate b (BAnd x y)))
| as_xor b' : xstep b b' -> astep b b'.

Lemma push_xor_step fuel : forall b x y r b',
  inv b -> valid b x -> valid b y -> push_xor fuel b x y = Ok (r, b') -> b' = b \/ xstep b b'.
Proof.
  induction fuel as [|fuel IH]; intros b x y r b' I Hx Hy; cbn [push_xor]; [discriminate|].
  destruct (optimize_xor b x y) as [w|] eqn:Eo; [intros [= _ <-]; now left|].
  destruct (optimize_xor_none _ _ _ Eo) as (_ & _ & Hxy).
  destruct (lookup b x) as [gx| |] eqn:Lx; cbn [bind]; try discriminate.
  destruct (lookup b y) as [gy| |] eqn:Ly; cbn [bind]; try discriminate.
  destruct (valid_consts b I) as [V0 V1].
  assert (Hfin : Ok (final_xor b x y) = Ok (r, b') -> b' = b \/ xstep b b').
  { intro E0. assert (E : final_xor b x y = (r, b')) by congruence. right.
    replace b' with (snd (final_xor b x y)) by now rewrite E.
    now constructor. }
  assert (Hret : forall w, Ok (w, b) = Ok (r, b') -> b' = b \/ xstep b b')
    by (intros w [= _ <-]; now left).
  assert (Hrec : forall x' y', valid b x' -> valid b y' ->
            push_xor fuel b x' y' = Ok (r, b') -> b' = b \/ xstep b b')
    by (intros x' y' Hx' Hy' E; exact (IH b x' y' r b' I Hx' Hy' E)).
  assert (H3 : xstage3 (push_xor fuel) b x y gy = Ok (r, b') -> b' = b \/ xstep b b').
  { unfold xstage3. destruct gy as [[y1 y2|y1 y2]|]; try exact Hfin.
    pose proof (gate_facts b y _ I Hy Ly) as F. cbn [BuilderProofs.gops gfun] in F.
    destruct F as (_ & _ & Vy1 & Vy2 & _).
    destruct (x =? y1); [apply Hret|]. destruct (x =? y2); [apply Hret|].
    destruct (nfind x (b_neg b)) as [xn|]; [|exact Hfin].
    destruct (xn =? y1); [apply Hrec; auto|]. destruct (xn =? y2); [apply Hrec; auto|exact Hfin]. }
  assert (H2 : xstage2 (push_xor fuel) b x y gx gy = Ok (r, b') -> b' = b \/ xstep b b').
  { unfold xstage2. destruct gx as [[x1 x2|x1 x2]|]; try exact H3.
    pose proof (gate_facts b x _ I Hx Lx) as F. cbn [BuilderProofs.gops gfun] in F.
    destruct F as (_ & _ & Vx1 & Vx2 & _).
    destruct (x1 =? y); [apply Hret|]. destruct (x2 =? y); [apply Hret|].
    destruct (nfind y (b_neg b)) as [yn|]; [|exact H3].
    destruct (x1 =? yn); [apply Hrec; auto|]. destruct (x2 =? yn); [apply Hrec; auto|exact H3]. }
  unfold xstage1.
  destruct gx as [[x1 x2|x1 x2]|]; try exact H2.
  - destruct gy as [[y1 y2|y1 y2]|]; try exact H2.
    pose proof (gate_facts b x _ I Hx Lx) as F. cbn [BuilderProofs.gops gfun] in F.
    destruct F as (_ & _ & Vx1 & Vx2 & _).
    pose proof (gate_facts b y _ I Hy Ly) as F. cbn [BuilderProofs.gops gfun] in F.
    destruct F as (_ & _ & Vy1 & Vy2 & _).
    destruct (x1 =? y1); [apply Hrec; auto|]. destruct (x1 =? y2); [apply Hrec; auto|].
    destruct (x2 =? y1); [apply Hrec; auto|]. destruct (x2 =? y2); [apply Hrec; auto|exact H2].
  - destruct gy as [[y1 y2|y1 y2]|]; try exact H2.
    destruct (find_cached_and_xor b (arrangements x1 x2 y1 y2)) as [w|]; [apply Hret|].
    destruct (find_common (arrangements x1 x2 y1 y2)) as [[[a1 a2] b2]|] eqn:Ef; [|exact H2].
    destruct (push_gate b (BXor a2 b2)) as [t b1] eqn:P1.
    assert (Et : t = counter b) by (unfold push_gate in P1; now injection P1 as <- _).
    assert (Eb1 : b1 = snd (push_gate b (BXor a2 b2))) by now rewrite P1.
    intro E0. assert (E : push_gate b1 (BAnd a1 t) = (r, b')) by congruence. clear E0. right.
    assert (Eb : b' = snd (push_gate (snd (push_gate b (BXor a2 b2))) (BAnd a1 (counter b))))
      by (rewrite <- Eb1, <- Et, E; reflexivity).
    rewrite Eb. eapply xs_andand; eauto.
Qed.

Lemma push_xor_top_step b x y r b' :
  inv b -> valid b x -> valid b y -> push_xor_top b x y = Ok (r, b') -> b' = b \/ xstep b b'.
Proof.
  intros I Hx Hy. unfold push_xor_top.
  destruct (push_xor small_fuel b x y) as [[r1 b1]| |] eqn:E1.
  - intros [= <- <-]. exact (push_xor_step _ _ _ _ _ _ I Hx Hy E1).
  - discriminate.
  - intro E2. exact (push_xor_step _ _ _ _ _ _ I Hx Hy E2).
Qed.

(* with a constant-true operand (push_not) only the plain path is possible *)
Lemma push_xor_one_step fuel : forall b x y r b',
  inv b -> valid b x -> valid b y -> x = 1 \/ y = 1 -> push_xor fuel b x y = Ok (r, b') ->
  b' = b \/ exists x' y', optimize_xor b x' y' = None /\ valid b x' /\ valid b y' /\
                          (x' = 1 \/ y' = 1) /\ b' = snd (final_xor b x' y').
Proof.
  induction fuel as [|fuel IH]; intros b x y r b' I Hx Hy H1; cbn [push_xor]; [discriminate|].
  destruct (optimize_xor b x y) as [w|] eqn:Eo; [intros [= _ <-]; now left|].
  destruct (lookup b x) as [gx| |] eqn:Lx; cbn [bind]; try discriminate.
  destruct (lookup b y) as [gy| |] eqn:Ly; cbn [bind]; try discriminate.
  destruct (valid_consts b I) as [V0 V1].
  pose proof (inv_shift b I) as Hs.
  set (G := b' = b \/ exists x' y', optimize_xor b x' y' = None /\ valid b x' /\ valid b y' /\
                          (x' = 1 \/ y' = 1) /\ b' = snd (final_xor b x' y')).
  assert (Hfin : Ok (final_xor b x y) = Ok (r, b') -> G).
  { intro E0. assert (E : final_xor b x y = (r, b')) by congruence. right.
    exists x, y. repeat (split; [assumption|]). now rewrite E. }
  assert (Hret : forall w, Ok (w, b) = Ok (r, b') -> G) by (intros w [= _ <-]; now left).
  assert (Hrec : forall x' y', valid b x' -> valid b y' -> x' = 1 \/ y' = 1 ->
            push_xor fuel b x' y' = Ok (r, b') -> G)
    by (intros x' y' Hx' Hy' H1' E; exact (IH b x' y' r b' I Hx' Hy' H1' E)).
  assert (H3 : xstage3 (push_xor fuel) b x y gy = Ok (r, b') -> G).
  { unfold xstage3. destruct gy as [[y1 y2|y1 y2]|]; try exact Hfin.
    pose proof (gate_facts b y _ I Hy Ly) as F. cbn [BuilderProofs.gops gfun] in F.
    destruct F as (_ & _ & Vy1 & Vy2 & _).
    destruct (x =? y1); [apply Hret|]. destruct (x =? y2); [apply Hret|].
    destruct (nfind x (b_neg b)) as [xn|]; [|exact Hfin].
    destruct (xn =? y1); [apply Hrec; auto|]. destruct (xn =? y2); [apply Hrec; auto|exact Hfin]. }
  assert (H2 : xstage2 (push_xor fuel) b x y gx gy = Ok (r, b') -> G).
  { unfold xstage2. destruct gx as [[x1 x2|x1 x2]|]; try exact H3.
    pose proof (gate_facts b x _ I Hx Lx) as F. cbn [BuilderProofs.gops gfun] in F.
    destruct F as (_ & _ & Vx1 & Vx2 & _).
    destruct (x1 =? y); [apply Hret|]. destruct (x2 =? y); [apply Hret|].
    destruct (nfind y (b_neg b)) as [yn|]; [|exact H3].
    destruct (x1 =? yn); [apply Hrec; auto|]. destruct (x2 =? yn); [apply Hrec; auto|exact H3]. }
  (* one operand is the constant 1, hence not a gate *)
  assert (Hng : gx = None \/ gy = None).
  { destruct H1 as [->| ->]; [left|right].
    - unfold lookup in Lx. destruct (N.ltb_spec 1 (b_shift b)); [congruence|lia].
    - unfold lookup in Ly. destruct (N.ltb_spec 1 (b_shift b)); [congruence|lia]. }
  unfold xstage1. destruct Hng as [->| ->]; [exact H2|].
  destruct gx as [[x1 x2|x1 x2]|]; exact H2.
Qed.

Lemma push_not_step b x r b' :
  inv b -> valid b x -> push_not b x = Ok (r, b') ->
  b' = b \/ exists x' y', optimize_xor b x' y' = None /\ valid b x' /\ valid b y' /\
                          (x' = 1 \/ y' = 1) /\ b' = snd (final_xor b x' y').
Proof.
  intros I Hx. unfold push_not, push_xor_top. destruct (valid_consts b I) as [_ V1].
  destruct (push_xor small_fuel b x 1) as [[r1 b1]| |] eqn:E1.
  - intros [= <- <-]. exact (push_xor_one_step _ _ _ _ _ _ I Hx V1 (or_intror eq_refl) E1).
  - discriminate.
  - intro E2. exact (push_xor_one_step _ _ _ _ _ _ I Hx V1 (or_intror eq_refl) E2).
Qed.

Lemma push_and_step fuel : forall b x y r b',
  inv b -> valid b x -> valid b y -> push_and fuel b x y = Ok (r, b') -> b' = b \/ astep b b'.
Proof.
  induction fuel as [|fuel IH]; intros b x y r b' I Hx Hy; cbn [push_and]; [discriminate|].
  destruct (optimize_and b x y) as [w|] eqn:Eo; [intros [= _ <-]; now left|].
  destruct (lookup b x) as [gx| |] eqn:Lx; cbn [bind]; try discriminate.
  destruct (lookup b y) as [gy| |] eqn:Ly; cbn [bind]; try discriminate.
  destruct (valid_consts b I) as [V0 V1].
  assert (Hpush : Ok (push_gate b (BAnd x y)) = Ok (r, b') -> b' = b \/ astep b b').
  { intro E0. assert (E : push_gate b (BAnd x y) = (r, b')) by congruence. right.
    replace b' with (snd (push_gate b (BAnd x y))) by now rewrite E. now constructor. }
  assert (Hret : forall w, Ok (w, b) = Ok (r, b') -> b' = b \/ astep b b')
    by (intros w [= _ <-]; now left).
  assert (Hrec : forall y', valid b y' ->
            push_and fuel b x y' = Ok (r, b') -> b' = b \/ astep b b')
    by (intros y' Hy' E; exact (IH b x y' r b' I Hx Hy' E)).
  assert (Hxor : forall w1 w2, valid b w1 -> valid b w2 ->
            push_xor_top b w1 w2 = Ok (r, b') -> b' = b \/ astep b b').
  { intros w1 w2 Vw1 Vw2 HE.
    destruct (push_xor_top_step _ _ _ _ _ I Vw1 Vw2 HE) as [->|S];
      [now left|right; now apply as_xor]. }
  assert (H3 : astage3 b x y gy = Ok (r, b') -> b' = b \/ astep b b').
  { unfold astage3. destruct gy as [[y1 y2|y1 y2]|]; [| |exact Hpush].
    - destruct (get_cached b (BAnd x y1)) as [w1|] eqn:E1; [|exact Hpush].
      destruct (get_cached b (BAnd x y2)) as [w2|] eqn:E2; [|exact Hpush].
      destruct (get_cached_and_sound _ _ _ _ I E1) as [Vw1 _].
      destruct (get_cached_and_sound _ _ _ _ I E2) as [Vw2 _].
      now apply Hxor.
    - destruct ((x =? y1) || (x =? y2)); [apply Hret|].
      destruct (nfind x (b_neg b)) as [xn|]; [|exact Hpush].
      destruct ((xn =? y1) || (xn =? y2)); [apply Hret|exact Hpush]. }
  assert (H2 : astage2 b x y gx gy = Ok (r, b') -> b' = b \/ astep b b').
  { unfold astage2. destruct gx as [[x1 x2|x1 x2]|]; [| |exact H3].
    - destruct (get_cached b (BAnd x1 y)) as [w1|] eqn:E1; [|exact H3].
      destruct (get_cached b (BAnd x2 y)) as [w2|] eqn:E2; [|exact H3].
      destruct (get_cached_and_sound _ _ _ _ I E1) as [Vw1 _].
      destruct (get_cached_and_sound _ _ _ _ I E2) as [Vw2 _].
      now apply Hxor.
    - destruct ((x1 =? y) || (x2 =? y)); [apply Hret|].
      destruct (nfind y (b_neg b)) as [yn|]; [|exact H3].
      destruct ((x1 =? yn) || (x2 =? yn)); [apply Hret|exact H3]. }
  unfold astage1.
  destruct gx as [[x1 x2|x1 x2]|]; try exact H2.
  destruct gy as [[y1 y2|y1 y2]|]; try exact H2.
  pose proof (gate_facts b y _ I Hy Ly) as F. cbn [BuilderProofs.gops gfun] in F.
  destruct F as (_ & _ & Vy1 & Vy2 & _).
  destruct ((x1 =? y1) || (x2 =? y1)); [apply Hrec; auto|].
  destruct ((x1 =? y2) || (x2 =? y2)); [apply Hrec; auto|exact H2].
Qed.

Lemma push_and_top_step b x y r b' :
  inv b -> valid b x -> valid b y -> push_and_top b x y = Ok (r, b') -> b' = b \/ astep b b'.
Proof.
  intros I Hx Hy. unfold push_and_top.
  destruct (push_and small_fuel b x y) as [[r1 b1]| |] eqn:E1.
  - intros [= <- <-]. exact (push_and_step _ _ _ _ _ _ I Hx Hy E1).
  - discriminate.
  - intro E2. exact (push_and_step _ _ _ _ _ _ I Hx Hy E2).
Qed.

(* ================================================================== Part B: the invariant *)


(* what is true of every gate the builder ever stores *)
Record sinv (b : builder) : Prop := {
  (* an AND never has a constant operand nor the same wire twice *)
  s_and : forall i x y, nthN (glist b) i = Some (BAnd x y) -> 2 <= x /\ 2 <= y /\ x <> y;
  (* an XOR never has the constant 0 as operand; the constant 1 only as "NOT" (the other
     operand is then a proper wire); the same wire twice only without de-duplication *)
  s_xor : forall i x y, nthN (glist b) i = Some (BXor x y) ->
          x <> 0 /\ y <> 0 /\ (x = y -> b_dedup b = false /\ 2 <= x);
  (* with de-duplication every stored AND is a key of the cache *)
  s_key : b_dedup b = true -> forall i x y, nthN (glist b) i = Some (BAnd x y) ->
          exists w, cache_get (b_cand b) x y = Some w;
  (* with de-duplication no two ANDs have the same unordered operand pair *)
  s_uniq : b_dedup b = true -> forall i j x y x' y',
          nthN (glist b) i = Some (BAnd x y) -> nthN (glist b) j = Some (BAnd x' y') ->
          same_pair x y x' y' -> i = j
}.

Lemma nthN_snoc {A} (l : list A) g i g' :
  nthN (l ++ [g]) i = Some g' -> nthN l i = Some g' \/ (i = lenN l /\ g' = g).
Proof.
  intro H. destruct (N.lt_ge_cases i (lenN l)) as [Hlt|Hge].
  - left. now rewrite nthN_app_l in H.
  - right. assert (i = lenN l).
    { apply nthN_lt in H. rewrite lenN_app, lenN_cons, lenN_nil in H. lia. }
    subst i. rewrite nthN_app_here in H. now injection H as <-.
Qed.

Lemma push_gate_glist b g : glist (snd (push_gate b g)) = glist b ++ [g].
Proof. reflexivity. Qed.

Lemma push_gate_dedup b g : b_dedup (snd (push_gate b g)) = b_dedup b.
Proof. reflexivity. Qed.

Lemma push_gate_shift b g : b_shift (snd (push_gate b g)) = b_shift b.
Proof. reflexivity. Qed.

Lemma push_gate_neg b g : b_neg (snd (push_gate b g)) = b_neg b.
Proof. reflexivity. Qed.

Lemma push_gate_cand b g :
  b_cand (snd (push_gate b g)) =
  if b_dedup b then match g with BAnd x y => cache_put (b_cand b) x y (counter b) | _ => b_cand b end
  else b_cand b.
Proof. reflexivity. Qed.

Lemma push_gate_cxor b g :
  b_cxor (snd (push_gate b g)) =
  if b_dedup b then match g with BXor x y => cache_put (b_cxor b) x y (counter b) | _ => b_cxor b end
  else b_cxor b.
Proof. reflexivity. Qed.

Lemma push_gate_counter b g : counter (snd (push_gate b g)) = counter b + 1.
Proof. unfold counter, push_gate. cbn [snd b_shift b_ngates]. lia. Qed.

Lemma sinv_fields b b' :
  glist b' = glist b -> b_dedup b' = b_dedup b -> b_cand b' = b_cand b -> sinv b -> sinv b'.
Proof.
  intros Eg Ed Ec [A X K U]. constructor; rewrite ?Eg, ?Ed, ?Ec; assumption.
Qed.

Definition new_gate_ok (b : builder) (g : bgate) : Prop :=
  match g with
  | BAnd x y => 2 <= x /\ 2 <= y /\ x <> y /\
      (b_dedup b = true -> forall i x' y', nthN (glist b) i = Some (BAnd x' y') -> ~ same_pair x y x' y')
  | BXor x y => x <> 0 /\ y <> 0 /\ (x = y -> b_dedup b = false /\ 2 <= x)
  end.

Lemma sinv_push b g : sinv b -> new_gate_ok b g -> sinv (snd (push_gate b g)).
Proof.
  intros [A X K U] Hg. constructor; rewrite ?push_gate_glist, ?push_gate_dedup, ?push_gate_cand.
  - intros i x y H. destruct (nthN_snoc _ _ _ _ H) as [H0|[_ Eg]]; [eauto|].
    subst g. cbn [new_gate_ok] in Hg. tauto.
  - intros i x y H. destruct (nthN_snoc _ _ _ _ H) as [H0|[_ Eg]]; [eauto|].
    subst g. cbn [new_gate_ok] in Hg. tauto.
  - intros Hd i x y H. rewrite Hd. destruct (nthN_snoc _ _ _ _ H) as [H0|[_ Eg]]; [|subst g].
    + destruct (K Hd _ _ _ H0) as [w Hw]. destruct g as [p q|p q]; [eauto|].
      rewrite cache_get_put. destruct ((p =? x) && (q =? y)); eauto.
    + rewrite cache_get_put, !N.eqb_refl. cbn [andb]. eauto.
  - intros Hd i j x y x' y' Hi Hj Hs.
    destruct (nthN_snoc _ _ _ _ Hi) as [Hi0|[Ei Eg]]; destruct (nthN_snoc _ _ _ _ Hj) as [Hj0|[Ej Eg']].
    + eauto.
    + subst g. cbn [new_gate_ok] in Hg. destruct Hg as (_ & _ & _ & Hn). exfalso.
      apply (Hn Hd _ _ _ Hi0). unfold same_pair in *. intuition congruence.
    + subst g. cbn [new_gate_ok] in Hg. destruct Hg as (_ & _ & _ & Hn). exfalso.
      apply (Hn Hd _ _ _ Hj0). exact Hs.
    + congruence.
Qed.

Lemma final_xor_fields b x y :
  let b' := snd (final_xor b x y) in
  glist b' = glist b ++ [BXor x y] /\ b_dedup b' = b_dedup b /\
  b_cand b' = b_cand (snd (push_gate b (BXor x y))) /\
  b_cxor b' = b_cxor (snd (push_gate b (BXor x y))) /\
  b_shift b' = b_shift b /\ counter b' = counter b + 1.
Proof.
  cbn zeta. unfold final_xor.
  destruct (push_gate b (BXor x y)) as [gi b1] eqn:P.
  assert (E1 : b1 = snd (push_gate b (BXor x y))) by now rewrite P.
  assert (Ec : counter b1 = counter b + 1) by (rewrite E1; apply push_gate_counter).
  destruct (x =? 1); destruct (y =? 1); cbn [snd]; rewrite E1 at 1; repeat split; try (rewrite E1; reflexivity);
    exact Ec.
Qed.

Lemma sinv_final_xor b x y :
  sinv b -> optimize_xor b x y = None -> sinv (snd (final_xor b x y)).
Proof.
  intros S Eo. destruct (optimize_xor_none _ _ _ Eo) as (Hx0 & Hy0 & Hxy).
  destruct (final_xor_fields b x y) as (Eg & Ed & Ec & _).
  apply (sinv_fields (snd (push_gate b (BXor x y)))); [exact Eg|exact Ed|exact Ec|].
  apply sinv_push; [exact S|]. cbn [new_gate_ok]. repeat split; auto; contradiction.
Qed.

Lemma optimize_and_none b x y :
  optimize_and b x y = None -> 2 <= x /\ 2 <= y /\ x <> y /\ get_cached b (BAnd x y) = None.
Proof.
  unfold optimize_and.
  destruct (N.eqb_spec x 0); cbn [orb]; [discriminate|].
  destruct (N.eqb_spec y 0); cbn [orb]; [discriminate|].
  destruct (N.eqb_spec x 1); [discriminate|].
  destruct (N.eqb_spec y 1); cbn [orb]; [discriminate|].
  destruct (N.eqb_spec x y); [discriminate|].
  intro H. assert (Hc : get_cached b (BAnd x y) = None).
  { destruct (nfind x (b_neg b)) as [xn|].
    - destruct (xn =? y); [discriminate|exact H].
    - destruct (nfind y (b_neg b)) as [yn|]; [|exact H].
      destruct (yn =? x); [discriminate|exact H]. }
  repeat split; auto; lia.
Qed.

Lemma find_common_cases x1 x2 y1 y2 a1 a2 b2 :
  find_common (arrangements x1 x2 y1 y2) = Some (a1, a2, b2) ->
  (a1 = x1 /\ a2 = x2 /\ x1 = y1 /\ b2 = y2) \/ (a1 = x1 /\ a2 = x2 /\ x1 = y2 /\ b2 = y1) \/
  (a1 = x2 /\ a2 = x1 /\ x2 = y1 /\ b2 = y2) \/ (a1 = x2 /\ a2 = x1 /\ x2 = y2 /\ b2 = y1).
Proof.
  unfold arrangements. cbn [find_common].
  destruct (N.eqb_spec x1 y1); [intros [= <- <- <-]; tauto|].
  destruct (N.eqb_spec x1 y2); [intros [= <- <- <-]; tauto|].
  destruct (N.eqb_spec x2 y1); [intros [= <- <- <-]; tauto|].
  destruct (N.eqb_spec x2 y2); [intros [= <- <- <-]; tauto|discriminate].
Qed.

Lemma sinv_xstep b b' : inv b -> sinv b -> xstep b b' -> sinv b'.
Proof.
  intros I S [x y Eo Hx Hy|x y x1 x2 y1 y2 a1 a2 b2 Hxy Hx Hy Lx Ly Ef].
  - now apply sinv_final_xor.
  - destruct (lookup_gate _ _ _ I Lx) as [Sx Gx]. destruct (lookup_gate _ _ _ I Ly) as [Sy Gy].
    destruct (s_and b S _ _ _ Gx) as (X1 & X2 & X12). destruct (s_and b S _ _ _ Gy) as (Y1 & Y2 & Y12).
    pose proof (gate_operands b x _ I Sx Gx) as Ox. cbn [BuilderProofs.gops] in Ox.
    assert (Ha : 2 <= a1 /\ 2 <= a2 /\ 2 <= b2 /\ a1 < x /\
                 (a2 = b2 -> same_pair x1 x2 y1 y2)).
    { destruct (find_common_cases _ _ _ _ _ _ _ Ef) as [H|[H|[H|H]]];
        destruct H as (-> & -> & E & ->); unfold same_pair; repeat split; try lia; intro; subst; tauto. }
    destruct Ha as (A1 & A2 & B2 & A1x & Hsame).
    assert (S1 : sinv (snd (push_gate b (BXor a2 b2)))).
    { apply sinv_push; [exact S|]. cbn [new_gate_ok]. split; [lia|]. split; [lia|].
      intro E. split; [|lia]. destruct (b_dedup b) eqn:Hd; [exfalso|reflexivity].
      pose proof (s_uniq b S Hd _ _ _ _ _ _ Gx Gy (Hsame E)) as Epos. apply Hxy. lia. }
    apply sinv_push; [exact S1|]. cbn [new_gate_ok].
    pose proof (inv_shift b I) as Hs.
    assert (Hxc : x < counter b) by exact Hx.
    split; [lia|]. split; [unfold counter; lia|]. split; [lia|].
    intros _ i x' y' Hi. rewrite push_gate_glist in Hi.
    destruct (nthN_snoc _ _ _ _ Hi) as [Hi0|[_ Hg]]; [|discriminate].
    pose proof (inv_wf b I _ _ Hi0) as W. cbn [BuilderProofs.gops] in W.
    pose proof (nthN_lt _ _ _ Hi0) as Hlt. rewrite (glist_len b I) in Hlt.
    unfold same_pair, counter. lia.
Qed.

Lemma sinv_astep b b' : inv b -> sinv b -> astep b b' -> sinv b'.
Proof.
  intros I S [x y Eo Hx Hy|b'' Hs]; [|now apply (sinv_xstep b)].
  destruct (optimize_and_none _ _ _ Eo) as (X2 & Y2 & Hxy & Hc).
  apply sinv_push; [exact S|]. cbn [new_gate_ok]. repeat split; auto.
  intros Hd i x' y' Hi Hs. destruct (s_key b S Hd _ _ _ Hi) as [w Hw].
  unfold get_cached in Hc. rewrite Hd in Hc. cbn [negb] in Hc.
  destruct Hs as [[-> ->]|[-> ->]].
  - rewrite Hw in Hc. discriminate.
  - destruct (cache_get (b_cand b) y' x'); [discriminate|]. rewrite Hw in Hc. discriminate.
Qed.

Lemma sinv_new dedup inputs : sinv (new_builder dedup inputs).
Proof.
  constructor; unfold glist, new_builder; cbn [b_gates_rev rev]; intros;
    match goal with H : nthN [] _ = Some _ |- _ => apply nthN_lt in H; rewrite lenN_nil in H; lia end.
Qed.

(* ---------------------------------------------------------------- requests as step sequences *)

(* the plain path of push_xor: one XOR gate (possibly a NOT), never an AND *)
Definition free_step (b b' : builder) : Prop :=
  exists x y, optimize_xor b x y = None /\ valid b x /\ valid b y /\ b' = snd (final_xor b x y).

Lemma free_step_astep b b' : free_step b b' -> astep b b'.
Proof. intros (x & y & Eo & Hx & Hy & ->). apply as_xor. now apply xs_final. Qed.

(* [asteps n b b']: b' is reached from b by primitive steps, at most n of which are not
   known to be free of AND gates *)
Inductive asteps : nat -> builder -> builder -> Prop :=
| ast_refl n b : asteps n b b
| ast_free n b b1 b2 : inv b -> free_step b b1 -> asteps n b1 b2 -> asteps n b b2
| ast_cost n b b1 b2 : inv b -> astep b b1 -> asteps n b1 b2 -> asteps (S n) b b2.

Lemma asteps_le n b b' : asteps n b b' -> forall m, (n <= m)%nat -> asteps m b b'.
Proof.
  induction 1 as [n b|n b b1 b2 I F _ IH|n b b1 b2 I A _ IH]; intros m Hm.
  - apply ast_refl.
  - eapply ast_free; eauto.
  - destruct m as [|m]; [lia|]. eapply ast_cost; eauto. apply IH. lia.
Qed.

Lemma asteps_trans n b b1 : asteps n b b1 -> forall m b2, asteps m b1 b2 -> asteps (n + m) b b2.
Proof.
  induction 1 as [n b|n b b1 b2 I F _ IH|n b b1 b2 I A _ IH]; intros m b3 H2.
  - eapply asteps_le; [exact H2|lia].
  - eapply ast_free; eauto.
  - cbn [Nat.add]. eapply ast_cost; eauto.
Qed.

Definition apres (J : builder -> Prop) : Prop := forall b b', inv b -> J b -> astep b b' -> J b'.

Lemma asteps_pres J n b b' : apres J -> asteps n b b' -> J b -> J b'.
Proof.
  intros HJ. induction 1 as [n b|n b b1 b2 I F _ IH|n b b1 b2 I A _ IH]; intro Jb; auto.
  - apply IH. eapply HJ; eauto. now apply free_step_astep.
  - apply IH. eapply HJ; eauto.
Qed.

Definition req_post (n : nat) (b : builder) (p : N * builder) : Prop :=
  let '(w, b') := p in asteps n b b' /\ inv b' /\ ext b b' /\ valid b' w.

Lemma xor_req_post b x y r b' :
  inv b -> valid b x -> valid b y -> push_xor_top b x y = Ok (r, b') -> req_post 1 b (r, b').
Proof.
  intros I Hx Hy E. destruct (push_xor_top_sound b x y I Hx Hy) as (r0 & b0 & E0 & I' & Ex & Vr & _).
  rewrite E in E0. injection E0 as <- <-. cbn [req_post]. split; [|auto].
  destruct (push_xor_top_step _ _ _ _ _ I Hx Hy E) as [->|S]; [apply ast_refl|].
  eapply ast_cost; [exact I|apply as_xor; exact S|apply ast_refl].
Qed.

Lemma not_req_post b x r b' :
  inv b -> valid b x -> push_not b x = Ok (r, b') -> req_post 0 b (r, b').
Proof.
  intros I Hx E. destruct (push_not_sound b x I Hx) as (r0 & b0 & E0 & I' & Ex & Vr & _).
  rewrite E in E0. injection E0 as <- <-. cbn [req_post]. split; [|auto].
  destruct (push_not_step _ _ _ _ I Hx E) as [->|(x' & y' & Eo & Hx' & Hy' & _ & ->)]; [apply ast_refl|].
  eapply ast_free; [exact I| |apply ast_refl]. exists x', y'. auto.
Qed.

Lemma and_req_post b x y r b' :
  inv b -> valid b x -> valid b y -> push_and_top b x y = Ok (r, b') -> req_post 1 b (r, b').
Proof.
  intros I Hx Hy E. destruct (push_and_top_sound b x y I Hx Hy) as (r0 & b0 & E0 & I' & Ex & Vr & _).
  rewrite E in E0. injection E0 as <- <-. cbn [req_post]. split; [|auto].
  destruct (push_and_top_step _ _ _ _ _ I Hx Hy E) as [->|S]; [apply ast_refl|].
  eapply ast_cost; [exact I|exact S|apply ast_refl].
Qed.

Lemma or_req_post b x y r b' :
  inv b -> valid b x -> valid b y -> push_or b x y = Ok (r, b') -> req_post 3 b (r, b').
Proof.
  intros I Hx Hy. unfold push_or.
  destruct (push_xor_top b x y) as [[xo b1]| |] eqn:E1; cbn [bind]; try discriminate.
  destruct (xor_req_post _ _ _ _ _ I Hx Hy E1) as (S1 & I1 & X1 & V1).
  destruct (push_and_top b1 x y) as [[an b2]| |] eqn:E2; cbn [bind]; try discriminate.
  destruct (and_req_post _ _ _ _ _ I1 (ext_valid _ _ _ X1 Hx) (ext_valid _ _ _ X1 Hy) E2) as (S2 & I2 & X2 & V2).
  intro E3.
  destruct (xor_req_post _ _ _ _ _ I2 (ext_valid _ _ _ X2 V1) V2 E3) as (S3 & I3 & X3 & V3).
  cbn [req_post]. split; [|split; [exact I3|split; [eapply ext_trans; [eapply ext_trans|]; eauto|exact V3]]].
  change 3%nat with (1 + (1 + 1))%nat. eapply asteps_trans; [exact S1|]. eapply asteps_trans; eauto.
Qed.

Lemma eq_req_post b x y r b' :
  inv b -> valid b x -> valid b y -> push_eq b x y = Ok (r, b') -> req_post 1 b (r, b').
Proof.
  intros I Hx Hy. unfold push_eq.
  destruct (push_xor_top b x y) as [[xo b1]| |] eqn:E1; cbn [bind]; try discriminate.
  destruct (xor_req_post _ _ _ _ _ I Hx Hy E1) as (S1 & I1 & X1 & V1).
  intro E2. destruct (not_req_post _ _ _ _ I1 V1 E2) as (S2 & I2 & X2 & V2).
  cbn [req_post]. split; [|split; [exact I2|split; [eapply ext_trans; eauto|exact V2]]].
  change 1%nat with (1 + 0)%nat. eapply asteps_trans; eauto.
Qed.

Lemma mux_req_post b s x0 x1 r b' :
  inv b -> valid b s -> valid b x0 -> valid b x1 -> push_mux b s x0 x1 = Ok (r, b') -> req_post 3 b (r, b').
Proof.
  intros I Hs H0 H1. unfold push_mux.
  destruct (x0 =? x1).
  { intros [= <- <-]. cbn [req_post]. split; [apply ast_refl|]. split; [exact I|]. split; [apply ext_refl|exact H0]. }
  destruct (push_xor_top b x0 x1) as [[d b1]| |] eqn:E1; cbn [bind]; try discriminate.
  destruct (xor_req_post _ _ _ _ _ I H0 H1 E1) as (S1 & I1 & X1 & V1).
  destruct (push_not b1 s) as [[ns b2]| |] eqn:E2; cbn [bind]; try discriminate.
  destruct (not_req_post _ _ _ _ I1 (ext_valid _ _ _ X1 Hs) E2) as (S2 & I2 & X2 & V2).
  destruct (push_and_top b2 d ns) as [[sw b3]| |] eqn:E3; cbn [bind]; try discriminate.
  destruct (and_req_post _ _ _ _ _ I2 (ext_valid _ _ _ X2 V1) V2 E3) as (S3 & I3 & X3 & V3).
  intro E4. assert (X13 : ext b b3) by (eapply ext_trans; [eapply ext_trans|]; eauto).
  destruct (xor_req_post _ _ _ _ _ I3 (ext_valid _ _ _ X13 H0) V3 E4) as (S4 & I4 & X4 & V4).
  cbn [req_post]. split; [|split; [exact I4|split; [eapply ext_trans; eauto|exact V4]]].
  change 3%nat with (1 + (0 + (1 + 1)))%nat.
  eapply asteps_trans; [exact S1|]. eapply asteps_trans; [exact S2|]. eapply asteps_trans; eauto.
Qed.

(* ---- request sequences (the language of Requests.v) ---- *)





Lemma resolve_valid b hs o w :
  valids b hs -> opnd_ok (b_shift b) o -> resolve hs o = Some w -> valid b w.
Proof.
  intros Hh Ho. destruct o as [w0|k]; cbn [resolve opnd_ok] in *.
  - intros [= <-]. unfold valid, counter. lia.
  - intro Hk. apply nth_error_In in Hk. unfold valids in Hh. rewrite Forall_forall in Hh. auto.
Qed.

Lemma run_req_post b hs r w b' :
  inv b -> valids b hs -> req_ok (b_shift b) r -> run_req b hs r = Ok (w, b') ->
  req_post (req_cost r) b (w, b').
Proof.
  intros I Hh Hr. pose proof (resolve_valid b hs) as RV.
  destruct r as [x y|x y|x y|x y|x|s x y]; cbn [run_req req_ok req_cost] in *.
  - destruct Hr as [Ha Hc].
    destruct (resolve hs x) as [a|] eqn:Ea; cbn [of_option bind]; [|discriminate].
    destruct (resolve hs y) as [c|] eqn:Ec; cbn [of_option bind]; [|discriminate].
    apply xor_req_post; eauto.
  - destruct Hr as [Ha Hc].
    destruct (resolve hs x) as [a|] eqn:Ea; cbn [of_option bind]; [|discriminate].
    destruct (resolve hs y) as [c|] eqn:Ec; cbn [of_option bind]; [|discriminate].
    apply and_req_post; eauto.
  - destruct Hr as [Ha Hc].
    destruct (resolve hs x) as [a|] eqn:Ea; cbn [of_option bind]; [|discriminate].
    destruct (resolve hs y) as [c|] eqn:Ec; cbn [of_option bind]; [|discriminate].
    apply or_req_post; eauto.
  - destruct Hr as [Ha Hc].
    destruct (resolve hs x) as [a|] eqn:Ea; cbn [of_option bind]; [|discriminate].
    destruct (resolve hs y) as [c|] eqn:Ec; cbn [of_option bind]; [|discriminate].
    apply eq_req_post; eauto.
  - destruct (resolve hs x) as [a|] eqn:Ea; cbn [of_option bind]; [|discriminate].
    apply not_req_post; eauto.
  - destruct Hr as (Hs & Ha & Hc).
    destruct (resolve hs s) as [ws|] eqn:Es; cbn [of_option bind]; [|discriminate].
    destruct (resolve hs x) as [a|] eqn:Ea; cbn [of_option bind]; [|discriminate].
    destruct (resolve hs y) as [c|] eqn:Ec; cbn [of_option bind]; [|discriminate].
    apply mux_req_post; eauto.
Qed.

Lemma run_reqs_post rs : forall b hs b' hs',
  inv b -> valids b hs -> Forall (req_ok (b_shift b)) rs -> run_reqs b hs rs = Ok (b', hs') ->
  asteps (reqs_cost rs) b b' /\ inv b' /\ ext b b' /\ valids b' hs'.
Proof.
  induction rs as [|r rest IH]; intros b hs b' hs' I Hh Hr; cbn [run_reqs reqs_cost].
  - intros [= <- <-]. split; [apply ast_refl|]. split; [exact I|]. split; [apply ext_refl|exact Hh].
  - inversion Hr as [|r0 l0 Hr1 Hr2]; subst.
    destruct (run_req b hs r) as [[w b1]| |] eqn:E1; cbn [bind]; try discriminate.
    destruct (run_req_post _ _ _ _ _ I Hh Hr1 E1) as (S1 & I1 & X1 & V1).
    intro E2.
    assert (Hh1 : valids b1 (hs ++ [w])).
    { apply Forall_app. split; [eapply ext_valids; eauto|]. constructor; [exact V1|constructor]. }
    assert (Hs1 : b_shift b1 = b_shift b) by apply X1.
    rewrite <- Hs1 in Hr2.
    destruct (IH _ _ _ _ I1 Hh1 Hr2 E2) as (S2 & I2 & X2 & V2).
    split; [eapply asteps_trans; eauto|]. split; [exact I2|]. split; [eapply ext_trans; eauto|exact V2].
Qed.


Lemma reachable_pres J b hs :
  apres J -> (forall dedup inputs, J (new_builder dedup inputs)) -> reachable b hs -> J b.
Proof.
  intros HJ Hnew (dedup & inputs & rs & Hr & E).
  destruct (run_reqs_post rs _ _ _ _ (inv_new dedup inputs) (Forall_nil _) Hr E) as (S & _).
  eapply asteps_pres; eauto.
Qed.

Lemma reachable_inv b hs : reachable b hs -> inv b /\ valids b hs.
Proof.
  intros (dedup & inputs & rs & Hr & E).
  destruct (run_reqs_post rs _ _ _ _ (inv_new dedup inputs) (Forall_nil _) Hr E) as (_ & I & _ & V). auto.
Qed.

Theorem reachable_sinv b hs : reachable b hs -> sinv b.
Proof. apply reachable_pres; [exact sinv_astep|exact sinv_new]. Qed.

(* ================================================================== Part C: build *)

(* the marking computed by remove_unused_gates *)
Definition used_of (b : builder) (pw outs : list N) : nmap unit :=
  mark_pass (b_shift b) (b_gates_rev b) (b_ngates b)
    (fold_left (mark (b_shift b)) (outs ++ pw) nempty).

Definition survives_in (b : builder) (used : nmap unit) (w : N) : Prop :=
  w < counter b /\ (b_shift b <= w -> isused used (w - b_shift b) = true).

(* [build] never fails on a reachable builder and valid roots, and this is its result *)
Lemma build_shape b pw outs :
  inv b -> valids b pw -> valids b outs ->
  let shift := b_shift b in
  let used := used_of b pw outs in
  let n_in := shift - 2 in
  build b pw outs =
    Ok (mkCircuit (b_inputs b)
          (GXor 0 0 :: GNot n_in :: map (final_gate n_in) (compact shift used (glist b) 0))
          (map (final_idx n_in) (map (renum shift used) (pw ++ outs)))) /\
  gates_wf shift (glist b) /\
  (forall j g, nthN (glist b) j = Some g -> isused used j = true -> ops_marked shift used g) /\
  (forall w, In w (pw ++ outs) -> survives_in b used w).
Proof.
  intros I Hpw Houts. cbn zeta.
  set (shift := b_shift b). set (gs := glist b).
  assert (Hrev : b_gates_rev b = rev gs) by (unfold gs, glist; now rewrite rev_involutive).
  assert (Hn : b_ngates b = lenN gs) by (symmetry; apply glist_len; exact I).
  assert (Hwf : gates_wf shift gs).
  { intros i g Hi. exact (inv_wf b I i g Hi). }
  set (used0 := fold_left (mark shift) (outs ++ pw) nempty).
  assert (Eu : used_of b pw outs = mark_pass shift (rev gs) (lenN gs) used0).
  { unfold used_of. fold shift. now rewrite Hrev, Hn. }
  rewrite Eu. set (used := mark_pass shift (rev gs) (lenN gs) used0).
  destruct (mark_pass_spec shift gs used0 Hwf) as (Hsub & _ & Hclos). fold used in Hsub, Hclos.
  assert (Hroot : forall w, In w (pw ++ outs) -> survives_in b used w).
  { intros w Hin. split.
    - apply in_app_or in Hin. destruct Hin as [Hin|Hin];
        [eapply (proj1 (Forall_forall _ _) Hpw); eauto|eapply (proj1 (Forall_forall _ _) Houts); eauto].
    - intro Hs. apply Hsub. apply fold_mark_roots; [|exact Hs].
      apply in_or_app. apply in_app_or in Hin. tauto. }
  split; [|split; [exact Hwf|split; [exact Hclos|exact Hroot]]].
  destruct (count_unused gs 0 0 used nempty) as [tbl c0] eqn:Htbl.
  pose proof (keep_used_spec shift used gs tbl c0 Htbl Hwf Hclos gs [] eq_refl) as Hkeep.
  rewrite lenN_nil in Hkeep.
  assert (Hidx : forall l, (forall w, In w l -> In w (pw ++ outs)) ->
            mapM_res (shift_idx shift tbl) l = Ok (map (renum shift used) l)).
  { intros l Hl. apply mapM_res_map. intros w Hin. destruct (Hroot w (Hl w Hin)) as [H1 H2].
    eapply shift_idx_spec; eauto. unfold counter in H1. fold shift in H1. now rewrite Hn in H1. }
  unfold build, remove_unused_gates. fold shift. rewrite frev_rev, Hrev, Hn. fold used0 used.
  rewrite rev_involutive. fold gs. rewrite Htbl, Hkeep. cbn [bind].
  rewrite (Hidx pw) by (intros; apply in_or_app; now left).
  rewrite (Hidx outs) by (intros; apply in_or_app; now right). cbn [bind].
  now rewrite (map_app (renum shift used)).
Qed.

(* ---- the marking pass marks ONLY what reaches a root ---- *)

Lemma fold_mark_only shift roots : forall u j,
  isused (fold_left (mark shift) roots u) j = true -> isused u j = true \/ In (shift + j) roots.
Proof.
  induction roots as [|r rs IH]; intros u j H; cbn [fold_left] in H; [now left|].
  destruct (IH _ _ H) as [H1|H1]; [|right; now right].
  rewrite isused_mark in H1. apply orb_true_iff in H1. destruct H1 as [H1|H1]; [now left|].
  apply andb_true_iff in H1. destruct H1 as [Hle Heq]. apply N.leb_le in Hle. apply N.eqb_eq in Heq.
  right. left. lia.
Qed.

Lemma mark_pass_only shift gs (P : N -> Prop) : forall u,
  gates_wf shift gs ->
  let u' := mark_pass shift (rev gs) (lenN gs) u in
  (forall j, isused u j = true -> P j) ->
  (forall k g w, nthN gs k = Some g -> isused u' k = true -> P k ->
     (w = fst (Build.gops g) \/ w = snd (Build.gops g)) -> shift <= w -> P (w - shift)) ->
  forall j, isused u' j = true -> P j.
Proof.
  induction gs as [|g gs0 IH] using rev_ind; intros u Hwf; cbn zeta.
  - cbn [rev mark_pass]. auto.
  - pose proof (mark_pass_spec shift (gs0 ++ [g]) u Hwf) as Hspec. cbn zeta in Hspec.
    destruct Hspec as (Hsub & _ & _). revert Hsub.
    rewrite rev_app_distr. cbn [rev app mark_pass].
    rewrite lenN_app, lenN_cons, lenN_nil.
    replace (lenN gs0 + (1 + 0) - 1) with (lenN gs0) by lia.
    set (p := lenN gs0).
    set (u1 := match nfind p u with
               | Some _ => let '(x, y) := Build.gops g in mark shift (mark shift u x) y
               | None => u end).
    set (u' := mark_pass shift (rev gs0) p u1).
    intros Hsub Hinit Hclos.
    pose proof (gates_wf_app_l _ _ _ Hwf) as Hwf0.
    apply (IH u1 Hwf0).
    + intros j Hj. unfold u1 in Hj. destruct (nfind p u) eqn:Ep; [|now apply Hinit].
      assert (Hup : isused u p = true) by (unfold isused; now rewrite Ep).
      assert (Hg : nthN (gs0 ++ [g]) p = Some g) by (unfold p; apply nthN_app_here).
      destruct (Build.gops g) as [x y] eqn:Eg. rewrite !isused_mark in Hj.
      apply orb_true_iff in Hj. destruct Hj as [Hj|Hj].
      * apply orb_true_iff in Hj. destruct Hj as [Hj|Hj]; [now apply Hinit|].
        apply andb_true_iff in Hj. destruct Hj as [Hle Heq]. apply N.leb_le in Hle. apply N.eqb_eq in Heq.
        subst j. apply (Hclos p g x Hg); [now apply Hsub|now apply Hinit|rewrite Eg; now left|exact Hle].
      * apply andb_true_iff in Hj. destruct Hj as [Hle Heq]. apply N.leb_le in Hle. apply N.eqb_eq in Heq.
        subst j. apply (Hclos p g y Hg); [now apply Hsub|now apply Hinit|rewrite Eg; now right|exact Hle].
    + intros k g0 w Hk. apply Hclos. rewrite nthN_app_l; [exact Hk|]. now apply nthN_lt in Hk.
Qed.

(* ---- positions in the compacted list ---- *)

Section Compact.
  Variable shift : N.
  Variable used : nmap unit.

  Local Notation pos j := (cnt (isused used) 0 (N.to_nat j)).

  Lemma compact_nth gs : forall j g,
    nthN gs j = Some g -> isused used j = true ->
    nthN (compact shift used gs 0) (pos j) = Some (regate shift used g).
  Proof.
    induction gs as [|g0 gs0 IH] using rev_ind; intros j g Hj Hu.
    - apply nthN_lt in Hj. rewrite lenN_nil in Hj. lia.
    - rewrite compact_app, N.add_0_l. cbn [compact]. rewrite app_nil_r.
      destruct (nthN_snoc _ _ _ _ Hj) as [Hj0|[-> ->]].
      + rewrite nthN_app_l; [now apply IH|]. rewrite compact_len.
        pose proof (nthN_lt _ _ _ Hj0) as Hlt. unfold lenN in Hlt.
        apply cnt_lt_used; [lia|]. now rewrite N2Nat.id.
      + rewrite Hu. replace (pos (lenN gs0)) with (lenN (compact shift used gs0 0)).
        * apply nthN_app_here.
        * rewrite compact_len. unfold lenN. now rewrite Nat2N.id.
  Qed.

  Lemma compact_inv gs : forall i g',
    nthN (compact shift used gs 0) i = Some g' ->
    exists j g, nthN gs j = Some g /\ isused used j = true /\ i = pos j /\ g' = regate shift used g.
  Proof.
    induction gs as [|g0 gs0 IH] using rev_ind; intros i g' Hi.
    - cbn [compact] in Hi. apply nthN_lt in Hi. rewrite lenN_nil in Hi. lia.
    - rewrite compact_app, N.add_0_l in Hi. cbn [compact] in Hi. rewrite app_nil_r in Hi.
      assert (Hold : nthN (compact shift used gs0 0) i = Some g' ->
                exists j g, nthN (gs0 ++ [g0]) j = Some g /\ isused used j = true /\ i = pos j /\
                            g' = regate shift used g).
      { intro H. destruct (IH _ _ H) as (j & g & Hj & Hu & Ei & Eg). exists j, g.
        split; [|auto]. rewrite nthN_app_l; [exact Hj|]. now apply nthN_lt in Hj. }
      destruct (isused used (lenN gs0)) eqn:Up.
      + destruct (nthN_snoc _ _ _ _ Hi) as [H0|[Ei Eg]]; [now apply Hold|].
        exists (lenN gs0), g0. split; [apply nthN_app_here|]. split; [exact Up|]. split; [|exact Eg].
        rewrite Ei, compact_len. unfold lenN. now rewrite Nat2N.id.
      + rewrite app_nil_r in Hi. now apply Hold.
  Qed.

  (* renumbering is strictly increasing on the wires that survive *)
  Lemma renum_mono w1 w2 :
    (shift <= w1 -> isused used (w1 - shift) = true) -> w1 < w2 ->
    renum shift used w1 < renum shift used w2.
  Proof.
    intros H1 Hlt. unfold renum.
    destruct (N.ltb_spec w1 shift); destruct (N.ltb_spec w2 shift); try lia.
    apply N.add_lt_mono_l. apply cnt_lt_used; [lia|]. rewrite N2Nat.id. apply H1. lia.
  Qed.

  Lemma renum_inj w1 w2 :
    (shift <= w1 -> isused used (w1 - shift) = true) ->
    (shift <= w2 -> isused used (w2 - shift) = true) ->
    renum shift used w1 = renum shift used w2 -> w1 = w2.
  Proof.
    intros H1 H2 E. destruct (N.lt_trichotomy w1 w2) as [Hlt|[->|Hgt]]; [|reflexivity|].
    - pose proof (renum_mono _ _ H1 Hlt). lia.
    - pose proof (renum_mono _ _ H2 Hgt). lia.
  Qed.

  Lemma renum_ge w : shift <= w -> shift <= renum shift used w.
  Proof. intro H. unfold renum. destruct (N.ltb_spec w shift); lia. Qed.

  Lemma renum_small w : w < shift -> renum shift used w = w.
  Proof. apply renum_lt. Qed.
End Compact.

Lemma final_idx_inj n a c : final_idx n a = final_idx n c -> a = c.
Proof.
  unfold final_idx.
  destruct (N.leb_spec a 1); destruct (N.leb_spec c 1);
    destruct (N.ltb_spec a (n + 2)); destruct (N.ltb_spec c (n + 2)); lia.
Qed.

Lemma final_idx_const n a : 2 <= a -> final_idx n a <> n /\ final_idx n a <> n + 1.
Proof.
  unfold final_idx. destruct (N.leb_spec a 1); destruct (N.ltb_spec a (n + 2)); lia.
Qed.

Lemma final_idx_big n a : n + 2 <= a -> final_idx n a = a.
Proof.
  unfold final_idx. destruct (N.leb_spec a 1); destruct (N.ltb_spec a (n + 2)); lia.
Qed.

(* ================================================================== Part D: the built circuit *)

Lemma nthN_cons2 {A} (a c : A) l k : 2 <= k -> nthN (a :: c :: l) k = nthN l (k - 2).
Proof.
  intro H. rewrite !nthN_spec. replace (N.to_nat k) with (S (S (N.to_nat (k - 2)))) by lia. reflexivity.
Qed.

Lemma nthN_map {A B} (f : A -> B) l i : nthN (map f l) i = option_map f (nthN l i).
Proof. rewrite !nthN_spec. apply nth_error_map. Qed.

Section Built.
  Variable b : builder.
  Variables pw outs : list N.
  Hypothesis I : inv b.
  Hypothesis Hpw : valids b pw.
  Hypothesis Houts : valids b outs.

  Local Notation shift := (b_shift b).
  Local Notation used := (used_of b pw outs).
  Local Notation n_in := (b_shift b - 2).
  Local Notation pos j := (cnt (isused used) 0 (N.to_nat j)).
  Local Notation phi w := (final_idx n_in (renum shift used w)).

  Definition cbuilt : circuit :=
    mkCircuit (b_inputs b)
      (GXor 0 0 :: GNot n_in :: map (final_gate n_in) (compact shift used (glist b) 0))
      (map (final_idx n_in) (map (renum shift used) (pw ++ outs))).

  Definition surv (w : N) : Prop := shift <= w -> isused used (w - shift) = true.

  Lemma build_is_cbuilt : build b pw outs = Ok cbuilt.
  Proof. exact (proj1 (build_shape b pw outs I Hpw Houts)). Qed.

  Lemma built_num_inputs : num_inputs cbuilt = n_in.
  Proof. unfold num_inputs, cbuilt. cbn [input_gates]. pose proof (inv_inputs b I). lia. Qed.

  Lemma shift_ge2 : 2 <= shift.
  Proof. exact (inv_shift b I). Qed.

  Lemma used_ops j g :
    nthN (glist b) j = Some g -> isused used j = true ->
    let '(x, y) := Build.gops g in surv x /\ surv y.
  Proof.
    intros Hj Hu. destruct (build_shape b pw outs I Hpw Houts) as (_ & _ & Hclos & _).
    exact (Hclos j g Hj Hu).
  Qed.

  Lemma root_surv w : In w (pw ++ outs) -> surv w.
  Proof.
    intros Hin. destruct (build_shape b pw outs I Hpw Houts) as (_ & _ & _ & Hroot).
    exact (proj2 (Hroot w Hin)).
  Qed.

  (* every gate after the two constant gates is the image of a used gate of the store *)
  Lemma built_gate k fg :
    2 <= k -> nthN (gates cbuilt) k = Some fg ->
    exists j g, nthN (glist b) j = Some g /\ isused used j = true /\ k = 2 + pos j /\
                fg = final_gate n_in (regate shift used g).
  Proof.
    intros Hk. unfold cbuilt. cbn [gates]. rewrite nthN_cons2 by exact Hk. rewrite nthN_map.
    destruct (nthN (compact shift used (glist b) 0) (k - 2)) as [g'|] eqn:E; [|discriminate].
    cbn [option_map]. intros [= <-].
    destruct (compact_inv shift used _ _ _ E) as (j & g & Hj & Hu & Ei & ->).
    exists j, g. repeat split; auto. lia.
  Qed.

  Lemma built_gate_of j g :
    nthN (glist b) j = Some g -> isused used j = true ->
    nthN (gates cbuilt) (2 + pos j) = Some (final_gate n_in (regate shift used g)).
  Proof.
    intros Hj Hu. unfold cbuilt. cbn [gates]. rewrite nthN_cons2 by lia. rewrite nthN_map.
    replace (2 + pos j - 2) with (pos j) by lia.
    now rewrite (compact_nth shift used _ _ _ Hj Hu).
  Qed.

  Lemma phi_gate j : phi (shift + j) = n_in + 2 + pos j.
  Proof.
    rewrite renum_gate. pose proof shift_ge2. rewrite final_idx_big by lia. lia.
  Qed.

  Lemma phi_inj w1 w2 : surv w1 -> surv w2 -> phi w1 = phi w2 -> w1 = w2.
  Proof. intros S1 S2 E. apply final_idx_inj in E. eapply renum_inj; eauto. Qed.

  Lemma renum_eq1 w : renum shift used w = 1 <-> w = 1.
  Proof.
    pose proof shift_ge2 as Hs. destruct (N.lt_ge_cases w shift) as [Hl|Hg].
    - now rewrite renum_lt.
    - pose proof (renum_ge shift used w Hg). lia.
  Qed.

  Lemma renum_eq1_l w : renum shift used w = 1 -> w = 1.
  Proof. apply renum_eq1. Qed.

  Lemma renum_neq1 w : renum shift used w <> 1 -> w <> 1.
  Proof. intros H E. apply H. now apply renum_eq1. Qed.

  Lemma renum_ge2 w : 2 <= w -> 2 <= renum shift used w.
  Proof.
    pose proof shift_ge2 as Hs. intro H. destruct (N.lt_ge_cases w shift) as [Hl|Hg].
    - now rewrite renum_lt.
    - pose proof (renum_ge shift used w Hg). lia.
  Qed.

  (* the final gate in terms of the store gate *)
  Lemma final_and x y :
    final_gate n_in (regate shift used (BAnd x y)) = GAnd (phi x) (phi y).
  Proof. reflexivity. Qed.

  Lemma final_xor_cases x y :
    x <> 0 -> y <> 0 -> ~ (x = 1 /\ y = 1) ->
    let fg := final_gate n_in (regate shift used (BXor x y)) in
    (x = 1 /\ 2 <= y /\ fg = GNot (phi y)) \/ (y = 1 /\ 2 <= x /\ fg = GNot (phi x)) \/
    (2 <= x /\ 2 <= y /\ fg = GXor (phi x) (phi y)).
  Proof.
    intros Hx Hy Hn. cbn zeta. cbn [regate final_gate].
    destruct (N.eqb_spec (renum shift used x) 1) as [E1|N1].
    { apply renum_eq1_l in E1. left. split; [exact E1|]. split; [lia|reflexivity]. }
    destruct (N.eqb_spec (renum shift used y) 1) as [E2|N2].
    { apply renum_eq1_l in E2. right. left. split; [exact E2|]. apply renum_neq1 in N1. split; [lia|reflexivity]. }
    right. right. apply renum_neq1 in N1. apply renum_neq1 in N2. split; [lia|]. split; [lia|reflexivity].
  Qed.

  Lemma final_ops_in g w :
    (w = fst (Build.gops g) \/ w = snd (Build.gops g)) -> shift <= w ->
    In (phi w) (g_ops (final_gate n_in (regate shift used g))).
  Proof.
    pose proof shift_ge2 as Hs. intros Hw Hge.
    destruct g as [x y|x y]; cbn [Build.gops fst snd regate final_gate] in *.
    - destruct (N.eqb_spec (renum shift used x) 1) as [E1|N1].
      { apply renum_eq1_l in E1. destruct Hw as [->| ->]; [lia|]. cbn [g_ops In]. now left. }
      destruct (N.eqb_spec (renum shift used y) 1) as [E2|N2].
      { apply renum_eq1_l in E2. destruct Hw as [->| ->]; [|lia]. cbn [g_ops In]. now left. }
      cbn [g_ops In]. destruct Hw as [->| ->]; auto.
    - cbn [g_ops In]. destruct Hw as [->| ->]; auto.
  Qed.

  (* 1. no dead gate survives *)
  Lemma built_all_used k :
    2 <= k < lenN (gates cbuilt) -> reaches cbuilt (num_inputs cbuilt + k).
  Proof.
    intros [Hk Hlt]. destruct (nthN_Some _ _ Hlt) as [fg Hfg].
    destruct (built_gate k fg Hk Hfg) as (j & g & Hj & Hu & -> & _).
    rewrite built_num_inputs. clear Hfg Hk Hlt fg Hj g.
    destruct (build_shape b pw outs I Hpw Houts) as (_ & Hwf & _ & _).
    set (P := fun j => reaches cbuilt (n_in + (2 + pos j))).
    revert j Hu. change (forall j, isused used j = true -> P j).
    assert (Hrev : b_gates_rev b = rev (glist b)) by (unfold glist; now rewrite rev_involutive).
    assert (Hn : b_ngates b = lenN (glist b)) by (symmetry; apply glist_len; exact I).
    assert (Eu : used = mark_pass shift (rev (glist b)) (lenN (glist b))
                          (fold_left (mark shift) (outs ++ pw) nempty)).
    { unfold used_of. now rewrite Hrev, Hn. }
    pose proof (mark_pass_only shift (glist b) P (fold_left (mark shift) (outs ++ pw) nempty) Hwf) as M.
    cbn zeta in M. rewrite <- Eu in M. apply M; clear M.
    - (* roots *)
      intros j Hj. destruct (fold_mark_only _ _ _ _ Hj) as [Hj0|Hin].
      { unfold isused in Hj0. rewrite nfind_empty in Hj0. discriminate. }
      unfold P. apply reach_out. unfold cbuilt. cbn [output_gates].
      replace (n_in + (2 + pos j)) with (phi (shift + j)) by (rewrite phi_gate; lia).
      rewrite map_map. apply (in_map (fun w => phi w)).
      apply in_or_app. apply in_app_or in Hin. tauto.
    - (* operands of a used gate *)
      intros k g w Hk Hu Pk Hw Hge. unfold P.
      apply (reach_op cbuilt _ (2 + pos k) (final_gate n_in (regate shift used g))).
      + now apply built_gate_of.
      + rewrite built_num_inputs. exact Pk.
      + replace (n_in + (2 + pos (w - shift))) with (phi (shift + (w - shift))) by (rewrite phi_gate; lia).
        replace (shift + (w - shift)) with w by lia. now apply final_ops_in.
  Qed.
  (* ---- transport of the store invariant ---- *)
  Hypothesis S : sinv b.

  Lemma nthN_01 {A} (a c : A) l k x :
    k < 2 -> nthN (a :: c :: l) k = Some x -> x = a \/ x = c.
  Proof.
    intros Hk H. assert (Hc : k = 0 \/ k = 1) by lia. rewrite nthN_spec in H.
    destruct Hc as [-> | ->]; cbn in H; injection H as <-; auto.
  Qed.

  Lemma xor_not_both_one j x y : nthN (glist b) j = Some (BXor x y) -> x <> 0 /\ y <> 0 /\ ~ (x = 1 /\ y = 1).
  Proof.
    intro Hj. destruct (s_xor b S _ _ _ Hj) as (Hx & Hy & Hxy). split; [exact Hx|]. split; [exact Hy|].
    intros [-> ->]. destruct (Hxy eq_refl) as [_ H]. lia.
  Qed.

  Lemma built_and_gate k x y :
    nthN (gates cbuilt) k = Some (GAnd x y) ->
    exists j x0 y0, nthN (glist b) j = Some (BAnd x0 y0) /\ isused used j = true /\ k = 2 + pos j /\
                    x = phi x0 /\ y = phi y0 /\ surv x0 /\ surv y0.
  Proof.
    intro H. destruct (N.lt_ge_cases k 2) as [Hlt|Hge].
    { unfold cbuilt in H. cbn [gates] in H. destruct (nthN_01 _ _ _ _ _ Hlt H); discriminate. }
    destruct (built_gate k _ Hge H) as (j & g & Hj & Hu & Ek & Eg).
    pose proof (used_ops j g Hj Hu) as Hs.
    destruct g as [x0 y0|x0 y0].
    - destruct (xor_not_both_one _ _ _ Hj) as (Hx & Hy & Hn).
      destruct (final_xor_cases x0 y0 Hx Hy Hn) as [(_ & _ & E)|[(_ & _ & E)|(_ & _ & E)]];
        rewrite E in Eg; discriminate.
    - rewrite final_and in Eg. injection Eg as -> ->. cbn [Build.gops] in Hs.
      exists j, x0, y0. tauto.
  Qed.

  (* 2. no gate after the two constant gates has a constant operand *)
  Lemma built_no_const k fg w :
    2 <= k -> nthN (gates cbuilt) k = Some fg -> In w (g_ops fg) -> w <> n_in /\ w <> n_in + 1.
  Proof.
    intros Hk H Hw. destruct (built_gate k _ Hk H) as (j & g & Hj & Hu & Ek & ->).
    destruct g as [x y|x y].
    - destruct (xor_not_both_one _ _ _ Hj) as (Hx & Hy & Hn).
      destruct (final_xor_cases x y Hx Hy Hn) as [(_ & G & E)|[(_ & G & E)|(Gx & Gy & E)]];
        rewrite E in Hw; cbn [g_ops In] in Hw.
      + destruct Hw as [<-|[]]. apply final_idx_const. now apply renum_ge2.
      + destruct Hw as [<-|[]]. apply final_idx_const. now apply renum_ge2.
      + destruct Hw as [<-|[<-|[]]]; apply final_idx_const; now apply renum_ge2.
    - destruct (s_and b S _ _ _ Hj) as (Gx & Gy & _). rewrite final_and in Hw. cbn [g_ops In] in Hw.
      destruct Hw as [<-|[<-|[]]]; apply final_idx_const; now apply renum_ge2.
  Qed.

  (* 4. no AND has the same wire twice; no XOR either with de-duplication *)
  Lemma built_and_distinct k x y : nthN (gates cbuilt) k = Some (GAnd x y) -> x <> y.
  Proof.
    intro H. destruct (built_and_gate _ _ _ H) as (j & x0 & y0 & Hj & _ & _ & -> & -> & Sx & Sy).
    destruct (s_and b S _ _ _ Hj) as (_ & _ & Hne). intro E. apply Hne. now apply phi_inj.
  Qed.

  Lemma built_xor_distinct k x y :
    b_dedup b = true -> 2 <= k -> nthN (gates cbuilt) k = Some (GXor x y) -> x <> y.
  Proof.
    intros Hd Hk H. destruct (built_gate k _ Hk H) as (j & g & Hj & Hu & Ek & Eg).
    pose proof (used_ops j g Hj Hu) as Hs.
    destruct g as [x0 y0|x0 y0]; [|rewrite final_and in Eg; discriminate].
    destruct (xor_not_both_one _ _ _ Hj) as (Hx & Hy & Hn).
    destruct (s_xor b S _ _ _ Hj) as (_ & _ & Hxy). cbn [Build.gops] in Hs. destruct Hs as [Sx Sy].
    destruct (final_xor_cases x0 y0 Hx Hy Hn) as [(_ & _ & E)|[(_ & _ & E)|(_ & _ & E)]];
      rewrite E in Eg; try discriminate.
    injection Eg as -> ->. intro E2. apply phi_inj in E2; auto.
    destruct (Hxy E2) as [Hf _]. congruence.
  Qed.

  (* 3. with de-duplication no two ANDs have the same unordered operand pair *)
  Lemma built_and_unique k1 k2 x y x' y' :
    b_dedup b = true ->
    nthN (gates cbuilt) k1 = Some (GAnd x y) -> nthN (gates cbuilt) k2 = Some (GAnd x' y') ->
    same_pair x y x' y' -> k1 = k2.
  Proof.
    intros Hd H1 H2 Hs.
    destruct (built_and_gate _ _ _ H1) as (j1 & x1 & y1 & Hj1 & _ & -> & -> & -> & Sx1 & Sy1).
    destruct (built_and_gate _ _ _ H2) as (j2 & x2 & y2 & Hj2 & _ & -> & -> & -> & Sx2 & Sy2).
    assert (Hs0 : same_pair x1 y1 x2 y2).
    { destruct Hs as [[E1 E2]|[E1 E2]]; [left|right]; split; apply phi_inj; auto. }
    now rewrite (s_uniq b S Hd _ _ _ _ _ _ Hj1 Hj2 Hs0).
  Qed.
End Built.

(* ---------------------------------------------------------------- the theorems, for every reachable builder *)

Lemma built_circuit b hs pw outs c :
  reachable b hs -> valids b pw -> valids b outs -> build b pw outs = Ok c ->
  inv b /\ sinv b /\ c = cbuilt b pw outs.
Proof.
  intros R Hpw Houts E. destruct (reachable_inv _ _ R) as [I _].
  split; [exact I|]. split; [eapply reachable_sinv; eauto|].
  rewrite (build_is_cbuilt b pw outs I Hpw Houts) in E. now injection E as <-.
Qed.

Theorem build_total b hs pw outs :
  reachable b hs -> valids b pw -> valids b outs -> exists c, build b pw outs = Ok c.
Proof.
  intros R Hpw Houts. destruct (reachable_inv _ _ R) as [I _].
  eexists. now apply build_is_cbuilt.
Qed.

(* handles and raw inputs/constants are valid roots *)
Lemma resolve_valids b hs outs ows :
  reachable b hs -> Forall (opnd_ok (b_shift b)) outs -> mapM (resolve hs) outs = Some ows ->
  valids b ows.
Proof.
  intros R. destruct (reachable_inv _ _ R) as [I Hh]. revert ows.
  induction outs as [|o r IH]; intros ows Ho; cbn [mapM].
  - intros [= <-]. constructor.
  - inversion Ho as [|o0 l0 Ho1 Ho2]; subst.
    destruct (resolve hs o) as [w|] eqn:Ew; [|discriminate].
    destruct (mapM (resolve hs) r) as [ws|] eqn:Er; [|discriminate]. intros [= <-].
    constructor; [eapply resolve_valid; eauto|now apply IH].
Qed.

Lemma panic_ok_wires_valid b : inv b -> valids b panic_ok_wires.
Proof.
  intro I. destruct (valid_consts b I) as [V0 V1]. unfold panic_ok_wires, valids.
  constructor; [exact V0|]. apply Forall_app. split.
  - apply Forall_app. split; [apply Forall_forall; intros x Hx; apply repeat_spec in Hx; now subst|].
    constructor; [exact V1|constructor].
  - apply Forall_forall. intros x Hx. apply repeat_spec in Hx. now subst.
Qed.

(* the two gates that define the constants are always emitted *)
Theorem build_const_gates b hs pw outs c :
  reachable b hs -> valids b pw -> valids b outs -> build b pw outs = Ok c ->
  nthN (gates c) 0 = Some (GXor 0 0) /\ nthN (gates c) 1 = Some (GNot (num_inputs c)).
Proof.
  intros R Hpw Houts E. destruct (built_circuit _ _ _ _ _ R Hpw Houts E) as (I & S & ->).
  rewrite built_num_inputs by exact I. rewrite !nthN_spec. split; reflexivity.
Qed.

(* 1 *)
Theorem build_all_used b hs pw outs c :
  reachable b hs -> valids b pw -> valids b outs -> build b pw outs = Ok c ->
  forall k, 2 <= k < lenN (gates c) -> reaches c (num_inputs c + k).
Proof.
  intros R Hpw Houts E. destruct (built_circuit _ _ _ _ _ R Hpw Houts E) as (I & S & ->).
  now apply built_all_used.
Qed.

(* 2 *)
Theorem build_no_constant_operand b hs pw outs c :
  reachable b hs -> valids b pw -> valids b outs -> build b pw outs = Ok c ->
  forall k g w, 2 <= k -> nthN (gates c) k = Some g -> In w (g_ops g) ->
    w <> num_inputs c /\ w <> num_inputs c + 1.
Proof.
  intros R Hpw Houts E. destruct (built_circuit _ _ _ _ _ R Hpw Houts E) as (I & S & ->).
  rewrite built_num_inputs by exact I. now apply built_no_const.
Qed.

(* 4 *)
Theorem build_no_self_operand b hs pw outs c :
  reachable b hs -> valids b pw -> valids b outs -> build b pw outs = Ok c ->
  (forall k x y, nthN (gates c) k = Some (GAnd x y) -> x <> y) /\
  (b_dedup b = true -> forall k x y, 2 <= k -> nthN (gates c) k = Some (GXor x y) -> x <> y).
Proof.
  intros R Hpw Houts E. destruct (built_circuit _ _ _ _ _ R Hpw Houts E) as (I & S & ->). split.
  - now apply built_and_distinct.
  - intros Hd k x y. now apply built_xor_distinct.
Qed.

(* 3 *)
Theorem build_and_unique b hs pw outs c :
  reachable b hs -> valids b pw -> valids b outs -> build b pw outs = Ok c ->
  b_dedup b = true ->
  forall k1 k2 x y x' y',
    nthN (gates c) k1 = Some (GAnd x y) -> nthN (gates c) k2 = Some (GAnd x' y') ->
    same_pair x y x' y' -> k1 = k2.
Proof.
  intros R Hpw Houts E Hd. destruct (built_circuit _ _ _ _ _ R Hpw Houts E) as (I & S & ->).
  intros k1 k2 x y x' y'. now apply built_and_unique.
Qed.

(* 4, at the level of the gate store: what is NEVER stored, whether or not it is pruned later *)
Theorem store_gate_shape b hs :
  reachable b hs ->
  forall i g, nthN (rev (b_gates_rev b)) i = Some g ->
    match g with
    | BAnd x y => 2 <= x /\ 2 <= y /\ x <> y
    | BXor x y => x <> 0 /\ y <> 0 /\ (x = y -> b_dedup b = false /\ 2 <= x)
    end.
Proof.
  intros R i g Hg. pose proof (reachable_sinv _ _ R) as S. destruct g as [x y|x y].
  - exact (s_xor b S _ _ _ Hg).
  - exact (s_and b S _ _ _ Hg).
Qed.

Theorem store_and_unique b hs :
  reachable b hs -> b_dedup b = true ->
  forall i j x y x' y',
    nthN (rev (b_gates_rev b)) i = Some (BAnd x y) -> nthN (rev (b_gates_rev b)) j = Some (BAnd x' y') ->
    same_pair x y x' y' -> i = j.
Proof. intros R Hd. exact (s_uniq b (reachable_sinv _ _ R) Hd). Qed.

(* ================================================================== Part E: counting AND gates *)

Lemma band_count_glist b : band_count b = lenN (filter is_band (glist b)).
Proof. reflexivity. Qed.

Lemma band_count_snoc l g :
  lenN (filter is_band (l ++ [g])) = lenN (filter is_band l) + (if is_band g then 1 else 0).
Proof.
  rewrite filter_app, lenN_app. cbn [filter]. destruct (is_band g); rewrite ?lenN_cons, lenN_nil; lia.
Qed.

Lemma band_count_push b g :
  band_count (snd (push_gate b g)) = band_count b + (if is_band g then 1 else 0).
Proof. rewrite !band_count_glist, push_gate_glist. apply band_count_snoc. Qed.

Lemma band_count_final_xor b x y : band_count (snd (final_xor b x y)) = band_count b.
Proof.
  destruct (final_xor_fields b x y) as (Eg & _). rewrite !band_count_glist, Eg, band_count_snoc.
  cbn [is_band]. lia.
Qed.

Lemma band_count_pos b i x y : nthN (glist b) i = Some (BAnd x y) -> 0 < band_count b.
Proof.
  intro H. rewrite band_count_glist. rewrite nthN_spec in H. apply nth_error_In in H.
  assert (Hin : In (BAnd x y) (filter is_band (glist b))) by (apply filter_In; auto).
  destruct (filter is_band (glist b)); [destruct Hin|]. rewrite lenN_cons. lia.
Qed.

Lemma band_free_step b b' : free_step b b' -> band_count b' = band_count b.
Proof. intros (x & y & _ & _ & _ & ->). apply band_count_final_xor. Qed.

Lemma band_xstep b b' : xstep b b' -> band_count b' <= band_count b + 1.
Proof.
  intros [x y _ _ _|x y x1 x2 y1 y2 a1 a2 b2 _ _ _ _ _ _].
  - rewrite band_count_final_xor. lia.
  - rewrite !band_count_push. cbn [is_band]. lia.
Qed.

(* an XOR adds an AND only when two AND gates are already there *)
Lemma band_xstep_zero b b' : inv b -> band_count b = 0 -> xstep b b' -> band_count b' = 0.
Proof.
  intros I Hz [x y _ _ _|x y x1 x2 y1 y2 a1 a2 b2 _ _ _ Lx _ _].
  - now rewrite band_count_final_xor.
  - destruct (lookup_gate _ _ _ I Lx) as [_ Gx]. pose proof (band_count_pos _ _ _ _ Gx). lia.
Qed.

Lemma band_astep b b' : astep b b' -> band_count b' <= band_count b + 1.
Proof.
  intros [x y _ _ _|b'' Hs]; [|now apply band_xstep].
  rewrite band_count_push. cbn [is_band]. lia.
Qed.

Lemma band_asteps n b b' : asteps n b b' -> band_count b' <= band_count b + N.of_nat n.
Proof.
  induction 1 as [n b|n b b1 b2 I F _ IH|n b b1 b2 I A _ IH]; [lia| |].
  - rewrite (band_free_step _ _ F) in IH. exact IH.
  - pose proof (band_astep _ _ A). lia.
Qed.

(* pruning and renumbering never add an AND *)
Lemma and_gates_compact n shift used gs : forall i,
  lenN (filter is_and (map (final_gate n) (compact shift used gs i))) <= lenN (filter is_band gs).
Proof.
  induction gs as [|g r IH]; intro i; cbn [compact map filter]; [rewrite !lenN_nil; lia|].
  rewrite map_app, filter_app, lenN_app. specialize (IH (i + 1)).
  assert (Hg : lenN (filter is_and (map (final_gate n) (if isused used i then [regate shift used g] else [])))
               <= if is_band g then 1 else 0).
  { destruct (isused used i); cbn [map filter]; [|destruct (is_band g); rewrite lenN_nil; lia].
    destruct g as [x y|x y]; cbn [regate final_gate is_band].
    - destruct (renum shift used x =? 1); [|destruct (renum shift used y =? 1)]; cbn [is_and]; rewrite lenN_nil; lia.
    - cbn [is_and]. rewrite lenN_cons, lenN_nil. lia. }
  destruct (is_band g); rewrite ?lenN_cons; lia.
Qed.

Lemma and_gates_cbuilt b pw outs : and_gates (cbuilt b pw outs) <= band_count b.
Proof.
  unfold and_gates, cbuilt. cbn [gates filter is_and]. rewrite band_count_glist. apply and_gates_compact.
Qed.

(* 6a. the per-request bound: xor 1, and 1, eq 1, not 0, or 3, mux 3 *)
Theorem build_and_count_le dedup inputs rs b hs pw outs c :
  Forall (req_ok (2 + sumN inputs)) rs ->
  run_reqs (new_builder dedup inputs) [] rs = Ok (b, hs) ->
  valids b pw -> valids b outs -> build b pw outs = Ok c ->
  and_gates c <= N.of_nat (reqs_cost rs).
Proof.
  intros Hr E Hpw Houts Eb.
  assert (R : reachable b hs) by (exists dedup, inputs, rs; auto).
  destruct (built_circuit _ _ _ _ _ R Hpw Houts Eb) as (I & S & ->).
  destruct (run_reqs_post rs _ _ _ _ (inv_new dedup inputs) (Forall_nil _) Hr E) as (St & _).
  pose proof (band_asteps _ _ _ St) as Hb. pose proof (and_gates_cbuilt b pw outs) as Hc.
  assert (H0 : band_count (new_builder dedup inputs) = 0) by reflexivity. lia.
Qed.

(* ---- requests that add no AND at all ---- *)

Lemma xor_top_zero b x y r b' :
  inv b -> valid b x -> valid b y -> band_count b = 0 -> push_xor_top b x y = Ok (r, b') ->
  band_count b' = 0.
Proof.
  intros I Hx Hy Hz E. destruct (push_xor_top_step _ _ _ _ _ I Hx Hy E) as [->|S]; [exact Hz|].
  eapply band_xstep_zero; eauto.
Qed.

Lemma push_and_top_const b x y :
  (x <=? 1) || (y <=? 1) = true -> exists w, push_and_top b x y = Ok (w, b) /\ (w = 0 \/ w = x \/ w = y).
Proof.
  intro H. unfold push_and_top, small_fuel. cbn [push_and]. unfold optimize_and.
  destruct (N.eqb_spec x 0); cbn [orb]; [exists 0; auto|].
  destruct (N.eqb_spec y 0); cbn [orb]; [exists 0; auto|].
  destruct (N.eqb_spec x 1); [exists y; auto|].
  destruct (N.eqb_spec y 1); cbn [orb]; [exists x; auto|].
  apply orb_true_iff in H. destruct H as [H|H]; apply N.leb_le in H; lia.
Qed.

Lemma push_not_const b s :
  s <= 1 -> exists w, push_not b s = Ok (w, b) /\ w <= 1.
Proof.
  intro H. unfold push_not, push_xor_top, small_fuel. cbn [push_xor]. unfold optimize_xor.
  destruct (N.eqb_spec s 0); [exists 1; split; [reflexivity|lia]|].
  assert (s = 1) by lia. subst s. cbn. exists 0. split; [reflexivity|lia].
Qed.

Lemma resolve_const_valid hs o w : const_opnd hs o = true -> resolve hs o = Some w -> w <= 1.
Proof. unfold const_opnd. intros H E. rewrite E in H. now apply N.leb_le. Qed.

Lemma run_req_zero b hs r w b' :
  inv b -> valids b hs -> req_ok (b_shift b) r -> band_count b = 0 -> and_free_req hs r = true ->
  run_req b hs r = Ok (w, b') -> band_count b' = 0.
Proof.
  intros I Hh Hr Hz Hf. pose proof (resolve_valid b hs) as RV.
  destruct r as [x y|x y|x y|x y|x|s x y]; cbn [run_req req_ok and_free_req] in *.
  - destruct Hr as [Ha Hc].
    destruct (resolve hs x) as [a|] eqn:Ea; cbn [of_option bind]; [|discriminate].
    destruct (resolve hs y) as [c|] eqn:Ec; cbn [of_option bind]; [|discriminate].
    assert (Va : valid b a) by eauto. assert (Vc : valid b c) by eauto.
    intro E. exact (xor_top_zero _ _ _ _ _ I Va Vc Hz E).
  - destruct Hr as [Ha Hc].
    destruct (resolve hs x) as [a|] eqn:Ea; cbn [of_option bind]; [|discriminate].
    destruct (resolve hs y) as [c|] eqn:Ec; cbn [of_option bind]; [|discriminate].
    destruct (push_and_top_const b a c) as (w0 & -> & _).
    { unfold const_opnd in Hf. now rewrite Ea, Ec in Hf. }
    intros [= _ <-]. exact Hz.
  - destruct Hr as [Ha Hc].
    destruct (resolve hs x) as [a|] eqn:Ea; cbn [of_option bind]; [|discriminate].
    destruct (resolve hs y) as [c|] eqn:Ec; cbn [of_option bind]; [|discriminate].
    assert (Va : valid b a) by eauto. assert (Vc : valid b c) by eauto.
    unfold push_or.
    destruct (push_xor_top b a c) as [[xo b1]| |] eqn:E1; cbn [bind]; try discriminate.
    destruct (xor_req_post _ _ _ _ _ I Va Vc E1) as (_ & I1 & X1 & V1).
    pose proof (xor_top_zero _ _ _ _ _ I Va Vc Hz E1) as Hz1.
    destruct (push_and_top_const b1 a c) as (an & -> & Han).
    { unfold const_opnd in Hf. now rewrite Ea, Ec in Hf. }
    cbn [bind]. intro E3.
    assert (Van : valid b1 an).
    { destruct (valid_consts b1 I1) as [V0 _].
      destruct Han as [->|[->| ->]]; [exact V0|eapply ext_valid; eauto|eapply ext_valid; eauto]. }
    exact (xor_top_zero _ _ _ _ _ I1 V1 Van Hz1 E3).
  - destruct Hr as [Ha Hc].
    destruct (resolve hs x) as [a|] eqn:Ea; cbn [of_option bind]; [|discriminate].
    destruct (resolve hs y) as [c|] eqn:Ec; cbn [of_option bind]; [|discriminate].
    assert (Va : valid b a) by eauto. assert (Vc : valid b c) by eauto.
    unfold push_eq.
    destruct (push_xor_top b a c) as [[xo b1]| |] eqn:E1; cbn [bind]; try discriminate.
    destruct (xor_req_post _ _ _ _ _ I Va Vc E1) as (_ & I1 & X1 & V1).
    pose proof (xor_top_zero _ _ _ _ _ I Va Vc Hz E1) as Hz1.
    destruct (valid_consts b1 I1) as [_ V1c].
    intro E2. exact (xor_top_zero _ _ _ _ _ I1 V1 V1c Hz1 E2).
  - destruct (resolve hs x) as [a|] eqn:Ea; cbn [of_option bind]; [|discriminate].
    assert (Va : valid b a) by eauto. destruct (valid_consts b I) as [_ V1c].
    unfold push_not. intro E. exact (xor_top_zero _ _ _ _ _ I Va V1c Hz E).
  - destruct Hr as (Hs & Ha & Hc).
    destruct (resolve hs s) as [ws|] eqn:Es; cbn [of_option bind]; [|discriminate].
    destruct (resolve hs x) as [a|] eqn:Ea; cbn [of_option bind]; [|discriminate].
    destruct (resolve hs y) as [c|] eqn:Ec; cbn [of_option bind]; [|discriminate].
    assert (Vs : valid b ws) by eauto. assert (Va : valid b a) by eauto. assert (Vc : valid b c) by eauto.
    unfold push_mux. destruct (N.eqb_spec a c) as [->|Hac]; [intros [= _ <-]; exact Hz|].
    assert (Hcs : ws <= 1).
    { apply orb_true_iff in Hf. destruct Hf as [Hf|Hf]; [eapply resolve_const_valid; eauto|].
      unfold same_opnd in Hf. rewrite Ea, Ec in Hf. apply N.eqb_eq in Hf. contradiction. }
    destruct (push_xor_top b a c) as [[d b1]| |] eqn:E1; cbn [bind]; try discriminate.
    destruct (xor_req_post _ _ _ _ _ I Va Vc E1) as (_ & I1 & X1 & V1).
    pose proof (xor_top_zero _ _ _ _ _ I Va Vc Hz E1) as Hz1.
    destruct (push_not_const b1 ws Hcs) as (ns & -> & Hns). cbn [bind].
    destruct (push_and_top_const b1 d ns) as (sw & -> & Hsw).
    { apply orb_true_iff. right. now apply N.leb_le. }
    cbn [bind]. intro E4.
    assert (Vsw : valid b1 sw).
    { destruct (valid_consts b1 I1) as [V0 V1c].
      destruct Hsw as [->|[->| ->]]; [exact V0|exact V1|].
      assert (Hc01 : ns = 0 \/ ns = 1) by lia. destruct Hc01 as [-> | ->]; assumption. }
    exact (xor_top_zero _ _ _ _ _ I1 (ext_valid _ _ _ X1 Va) Vsw Hz1 E4).
Qed.

Lemma run_reqs_zero rs : forall b hs b' hs',
  inv b -> valids b hs -> Forall (req_ok (b_shift b)) rs -> band_count b = 0 -> and_free b hs rs ->
  run_reqs b hs rs = Ok (b', hs') -> band_count b' = 0.
Proof.
  induction rs as [|r rest IH]; intros b hs b' hs' I Hh Hr Hz Hf; cbn [run_reqs and_free] in *.
  - now intros [= <- _].
  - inversion Hr as [|r0 l0 Hr1 Hr2]; subst. destruct Hf as [Hf1 Hf2].
    destruct (run_req b hs r) as [[w b1]| |] eqn:E1; cbn [bind]; try discriminate.
    destruct (run_req_post _ _ _ _ _ I Hh Hr1 E1) as (_ & I1 & X1 & V1).
    pose proof (run_req_zero _ _ _ _ _ I Hh Hr1 Hz Hf1 E1) as Hz1.
    assert (Hh1 : valids b1 (hs ++ [w])).
    { apply Forall_app. split; [eapply ext_valids; eauto|]. constructor; [exact V1|constructor]. }
    assert (Hs1 : b_shift b1 = b_shift b) by apply X1. rewrite <- Hs1 in Hr2.
    eapply IH; eauto.
Qed.

(* 6b. "data movement costs zero AND gates" at builder level: a request sequence made of
   XOR / NOT / EQ requests, ANDs and ORs with a constant operand, and MUXes with a constant
   selector (or twice the same data wire) builds a circuit without any AND gate *)
Theorem and_free_requests_zero_and dedup inputs rs b hs pw outs c :
  Forall (req_ok (2 + sumN inputs)) rs ->
  and_free (new_builder dedup inputs) [] rs ->
  run_reqs (new_builder dedup inputs) [] rs = Ok (b, hs) ->
  valids b pw -> valids b outs -> build b pw outs = Ok c ->
  and_gates c = 0.
Proof.
  intros Hr Hf E Hpw Houts Eb.
  assert (R : reachable b hs) by (exists dedup, inputs, rs; auto).
  destruct (built_circuit _ _ _ _ _ R Hpw Houts Eb) as (I & S & ->).
  pose proof (run_reqs_zero rs _ _ _ _ (inv_new dedup inputs) (Forall_nil _) Hr eq_refl Hf E) as Hz.
  pose proof (and_gates_cbuilt b pw outs). lia.
Qed.

(* ================================================================== Part F: folding at request level *)

(* 5a. operations on constants never create a gate (no invariant needed: pure computation) *)
Lemma push_xor_top_const b x y :
  x <= 1 -> y <= 1 -> exists w, push_xor_top b x y = Ok (w, b) /\ w <= 1.
Proof.
  intros Hx Hy. unfold push_xor_top, small_fuel. cbn [push_xor]. unfold optimize_xor.
  destruct (N.eqb_spec x 0); [exists y; auto|].
  destruct (N.eqb_spec y 0); [exists x; auto|].
  assert (x = 1) by lia. assert (y = 1) by lia. subst. cbn. exists 0. split; [reflexivity|lia].
Qed.

Lemma push_or_const b x y : x <= 1 -> y <= 1 -> exists w, push_or b x y = Ok (w, b) /\ w <= 1.
Proof.
  intros Hx Hy. unfold push_or.
  destruct (push_xor_top_const b x y Hx Hy) as (xo & -> & Hxo). cbn [bind].
  destruct (push_and_top_const b x y) as (an & -> & Han).
  { apply orb_true_iff. left. now apply N.leb_le. }
  cbn [bind]. apply push_xor_top_const; [exact Hxo|]. destruct Han as [->|[->| ->]]; lia.
Qed.

Lemma push_eq_const b x y : x <= 1 -> y <= 1 -> exists w, push_eq b x y = Ok (w, b) /\ w <= 1.
Proof.
  intros Hx Hy. unfold push_eq.
  destruct (push_xor_top_const b x y Hx Hy) as (xo & -> & Hxo). cbn [bind].
  apply push_xor_top_const; [exact Hxo|lia].
Qed.

Lemma push_mux_const b s x y :
  s <= 1 -> x <= 1 -> y <= 1 -> exists w, push_mux b s x y = Ok (w, b) /\ w <= 1.
Proof.
  intros Hs Hx Hy. unfold push_mux. destruct (x =? y); [exists x; auto|].
  destruct (push_xor_top_const b x y Hx Hy) as (d & -> & Hd). cbn [bind].
  destruct (push_not_const b s Hs) as (ns & -> & Hns). cbn [bind].
  destruct (push_and_top_const b d ns) as (sw & -> & Hsw).
  { apply orb_true_iff. left. now apply N.leb_le. }
  cbn [bind]. apply push_xor_top_const; [exact Hx|]. destruct Hsw as [->|[->| ->]]; lia.
Qed.

Lemma resolve_const hs o w :
  Forall (fun v => v <= 1) hs -> raw_const o -> resolve hs o = Some w -> w <= 1.
Proof.
  intros Hh Ho. destruct o as [v|k]; cbn [resolve raw_const] in *.
  - now intros [= <-].
  - intro Hk. apply nth_error_In in Hk. rewrite Forall_forall in Hh. auto.
Qed.

Lemma run_req_const b hs r w b' :
  Forall (fun v => v <= 1) hs -> req_raw_const r -> run_req b hs r = Ok (w, b') -> b' = b /\ w <= 1.
Proof.
  intros Hh Hr. pose proof (resolve_const hs) as RC.
  destruct r as [x y|x y|x y|x y|x|s x y]; cbn [run_req req_raw_const] in *.
  - destruct Hr as [Ha Hc].
    destruct (resolve hs x) as [a|] eqn:Ea; cbn [of_option bind]; [|discriminate].
    destruct (resolve hs y) as [c|] eqn:Ec; cbn [of_option bind]; [|discriminate].
    destruct (push_xor_top_const b a c) as (w0 & -> & Hw); eauto. intros [= <- <-]. auto.
  - destruct Hr as [Ha Hc].
    destruct (resolve hs x) as [a|] eqn:Ea; cbn [of_option bind]; [|discriminate].
    destruct (resolve hs y) as [c|] eqn:Ec; cbn [of_option bind]; [|discriminate].
    assert (Ha1 : a <= 1) by eauto. assert (Hc1 : c <= 1) by eauto.
    destruct (push_and_top_const b a c) as (w0 & -> & Hw).
    { apply orb_true_iff. left. now apply N.leb_le. }
    intros [= <- <-]. split; [reflexivity|]. destruct Hw as [->|[->| ->]]; lia.
  - destruct Hr as [Ha Hc].
    destruct (resolve hs x) as [a|] eqn:Ea; cbn [of_option bind]; [|discriminate].
    destruct (resolve hs y) as [c|] eqn:Ec; cbn [of_option bind]; [|discriminate].
    destruct (push_or_const b a c) as (w0 & -> & Hw); eauto. intros [= <- <-]. auto.
  - destruct Hr as [Ha Hc].
    destruct (resolve hs x) as [a|] eqn:Ea; cbn [of_option bind]; [|discriminate].
    destruct (resolve hs y) as [c|] eqn:Ec; cbn [of_option bind]; [|discriminate].
    destruct (push_eq_const b a c) as (w0 & -> & Hw); eauto. intros [= <- <-]. auto.
  - destruct (resolve hs x) as [a|] eqn:Ea; cbn [of_option bind]; [|discriminate].
    destruct (push_not_const b a) as (w0 & -> & Hw); eauto. intros [= <- <-]. auto.
  - destruct Hr as (Hs & Ha & Hc).
    destruct (resolve hs s) as [ws|] eqn:Es; cbn [of_option bind]; [|discriminate].
    destruct (resolve hs x) as [a|] eqn:Ea; cbn [of_option bind]; [|discriminate].
    destruct (resolve hs y) as [c|] eqn:Ec; cbn [of_option bind]; [|discriminate].
    destruct (push_mux_const b ws a c) as (w0 & -> & Hw); eauto. intros [= <- <-]. auto.
Qed.

Theorem const_requests_no_gate rs : forall b hs b' hs',
  Forall (fun v => v <= 1) hs -> Forall req_raw_const rs -> run_reqs b hs rs = Ok (b', hs') ->
  b' = b /\ Forall (fun v => v <= 1) hs'.
Proof.
  induction rs as [|r rest IH]; intros b hs b' hs' Hh Hr; cbn [run_reqs].
  - intros [= <- <-]. auto.
  - inversion Hr as [|r0 l0 Hr1 Hr2]; subst.
    destruct (run_req b hs r) as [[w b1]| |] eqn:E1; cbn [bind]; try discriminate.
    destruct (run_req_const _ _ _ _ _ Hh Hr1 E1) as [-> Hw]. apply IH; [|exact Hr2].
    apply Forall_app. split; [exact Hh|]. constructor; [exact Hw|constructor].
Qed.

(* 5c. other folds the property text relies on, for every builder state *)
Lemma push_xor_top_self b x : push_xor_top b x x = Ok (0, b).
Proof.
  unfold push_xor_top, small_fuel. cbn [push_xor]. unfold optimize_xor.
  destruct (N.eqb_spec x 0) as [->|H0]; [reflexivity|]. now rewrite N.eqb_refl.
Qed.

Lemma push_and_top_self b x : push_and_top b x x = Ok (x, b).
Proof.
  unfold push_and_top, small_fuel. cbn [push_and]. unfold optimize_and.
  destruct (N.eqb_spec x 0) as [->|H0]; cbn [orb]; [reflexivity|].
  destruct (N.eqb_spec x 1) as [->|H1]; [reflexivity|]. now rewrite N.eqb_refl.
Qed.

Lemma push_xor_top_zero_l b x : push_xor_top b 0 x = Ok (x, b).
Proof. reflexivity. Qed.

Lemma push_xor_top_zero_r b x : push_xor_top b x 0 = Ok (x, b).
Proof.
  unfold push_xor_top, small_fuel. cbn [push_xor]. unfold optimize_xor.
  destruct (N.eqb_spec x 0) as [->|H0]; reflexivity.
Qed.

Lemma push_or_self b x : push_or b x x = Ok (x, b).
Proof.
  unfold push_or. rewrite push_xor_top_self. cbn [bind]. rewrite push_and_top_self. cbn [bind].
  apply push_xor_top_zero_l.
Qed.

Lemma push_eq_self b x : push_eq b x x = Ok (1, b).
Proof. unfold push_eq. rewrite push_xor_top_self. cbn [bind]. reflexivity. Qed.

Lemma push_mux_same b s x : push_mux b s x x = Ok (x, b).
Proof. unfold push_mux. now rewrite N.eqb_refl. Qed.

Theorem folding_facts b x s :
  push_xor_top b x x = Ok (0, b) /\ push_and_top b x x = Ok (x, b) /\
  push_xor_top b 0 x = Ok (x, b) /\ push_xor_top b x 0 = Ok (x, b) /\
  push_and_top b 0 x = Ok (0, b) /\ push_and_top b x 0 = Ok (0, b) /\
  push_and_top b 1 x = Ok (x, b) /\ push_and_top b x 1 = Ok (x, b) /\
  push_or b x x = Ok (x, b) /\ push_eq b x x = Ok (1, b) /\ push_mux b s x x = Ok (x, b).
Proof.
  split; [apply push_xor_top_self|]. split; [apply push_and_top_self|].
  split; [apply push_xor_top_zero_l|]. split; [apply push_xor_top_zero_r|].
  split; [reflexivity|].
  split. { unfold push_and_top, small_fuel. cbn [push_and]. unfold optimize_and.
           rewrite N.eqb_refl, orb_true_r. reflexivity. }
  split. { unfold push_and_top, small_fuel. cbn [push_and]. unfold optimize_and.
           destruct (N.eqb_spec x 0) as [->|H0]; reflexivity. }
  split. { unfold push_and_top, small_fuel. cbn [push_and]. unfold optimize_and.
           destruct (N.eqb_spec x 0) as [->|H0]; cbn [orb]; [reflexivity|].
           destruct (N.eqb_spec x 1) as [->|H1]; reflexivity. }
  split; [apply push_or_self|]. split; [apply push_eq_self|apply push_mux_same].
Qed.

(* ---------------------------------------------------------------- 5b. the [negated] map *)

(* [negated] is a symmetric relation between wires; every stored NOT gate and every cached
   NOT key is recorded in it *)
Record ninv (b : builder) : Prop := {
  n_sym : forall a n, nfind a (b_neg b) = Some n -> nfind n (b_neg b) = Some a;
  n_cache : forall x y w, cache_get (b_cxor b) x y = Some w ->
            (x = 1 -> nfind y (b_neg b) <> None) /\ (y = 1 -> nfind x (b_neg b) <> None);
  n_gate : forall i x y, nthN (glist b) i = Some (BXor x y) ->
            (x = 1 -> nfind (b_shift b + i) (b_neg b) = Some y) /\
            (y = 1 -> nfind (b_shift b + i) (b_neg b) = Some x)
}.

Lemma ninv_new dedup inputs : ninv (new_builder dedup inputs).
Proof.
  constructor; unfold new_builder; cbn [b_neg b_cxor b_gates_rev glist rev].
  - intros a n. rewrite nfind_empty. discriminate.
  - intros x y w. unfold cache_get. rewrite nfind_empty. discriminate.
  - intros i x y H. unfold glist in H. cbn [b_gates_rev rev] in H. apply nthN_lt in H. rewrite lenN_nil in H. lia.
Qed.

Lemma ninv_push_and b x y : ninv b -> ninv (snd (push_gate b (BAnd x y))).
Proof.
  intros [Sy Ca Ga]. constructor; rewrite ?push_gate_neg, ?push_gate_cxor, ?push_gate_glist, ?push_gate_shift.
  - exact Sy.
  - destruct (b_dedup b); exact Ca.
  - intros i p q H. destruct (nthN_snoc _ _ _ _ H) as [H0|[_ Eg]]; [eauto|discriminate].
Qed.

Lemma ninv_push_xor_plain b x y : ninv b -> x <> 1 -> y <> 1 -> ninv (snd (push_gate b (BXor x y))).
Proof.
  intros [Sy Ca Ga] Hx Hy.
  constructor; rewrite ?push_gate_neg, ?push_gate_cxor, ?push_gate_glist, ?push_gate_shift.
  - exact Sy.
  - destruct (b_dedup b); [|exact Ca]. intros p q w. rewrite cache_get_put.
    destruct (N.eqb_spec x p) as [<-|Np]; destruct (N.eqb_spec y q) as [<-|Nq]; cbn [andb]; try apply Ca.
    intros _. split; intro; contradiction.
  - intros i p q H. destruct (nthN_snoc _ _ _ _ H) as [H0|[_ Eg]]; [eauto|].
    injection Eg as -> ->. split; intro; contradiction.
Qed.

Lemma optimize_xor_none_neg b x y :
  inv b -> optimize_xor b x y = None ->
  (x = 1 -> nfind y (b_neg b) = None) /\ (y = 1 -> nfind x (b_neg b) = None).
Proof.
  intros I. unfold optimize_xor.
  destruct (x =? 0); [discriminate|]. destruct (y =? 0); [discriminate|].
  destruct (N.eqb_spec x y) as [|Hxy]; [discriminate|].
  assert (H1 : nfind 1 (b_neg b) = None).
  { destruct (nfind 1 (b_neg b)) as [n|] eqn:E; [|reflexivity]. destruct (inv_neg b I _ _ E) as (H & _). lia. }
  destruct (nfind x (b_neg b)) as [xn|] eqn:Ex.
  - destruct (xn =? y); [discriminate|]. destruct (N.eqb_spec y 1) as [->|Hy1]; [discriminate|].
    intros _. split; [intros ->; congruence|contradiction].
  - destruct (nfind y (b_neg b)) as [yn|] eqn:Ey.
    + destruct (yn =? x); [discriminate|]. destruct (N.eqb_spec x 1) as [->|Hx1]; [discriminate|].
      intros _. split; [contradiction|intros ->; congruence].
    + intros _. split; auto.
Qed.

Lemma final_xor_snd b x y :
  snd (final_xor b x y) =
  let b1 := snd (push_gate b (BXor x y)) in
  let gi := counter b in
  let b2 := if x =? 1 then set_negated (set_negated b1 y gi) gi y else b1 in
  if y =? 1 then set_negated (set_negated b2 x gi) gi x else b2.
Proof. reflexivity. Qed.

(* recording a fresh NOT gate gi = !k *)
Lemma ninv_record_not b k xk yk :
  inv b -> ninv b -> 2 <= k -> valid b k -> nfind k (b_neg b) = None ->
  (xk = 1 /\ yk = k) \/ (yk = 1 /\ xk = k) ->
  ninv (set_negated (set_negated (snd (push_gate b (BXor xk yk))) k (counter b)) (counter b) k).
Proof.
  intros I [Sy Ca Ga] Hk Vk Nk Hg. set (gi := counter b).
  assert (Hkg : k < gi) by exact Vk.
  assert (Ngi : nfind gi (b_neg b) = None).
  { destruct (nfind gi (b_neg b)) as [n|] eqn:E; [|reflexivity].
    destruct (inv_neg b I _ _ E) as (_ & V & _). unfold valid in V. fold gi in V. lia. }
  assert (Hold : forall a n, nfind a (b_neg b) = Some n -> a <> gi /\ a <> k /\ n <> gi /\ n <> k).
  { intros a n E. destruct (inv_neg b I _ _ E) as (_ & Va & Vn & _). unfold valid in Va, Vn. fold gi in Va, Vn.
    repeat split; try lia; try congruence. intros ->. rewrite (Sy _ _ E) in Nk. discriminate. }
  assert (Hnew : forall a, nfind a (nadd gi k (nadd k gi (b_neg b))) =
                   if gi =? a then Some k else if k =? a then Some gi else nfind a (b_neg b)).
  { intro a. now rewrite !nfind_add. }
  set (b' := set_negated (set_negated (snd (push_gate b (BXor xk yk))) k gi) gi k).
  assert (Eg : glist b' = glist b ++ [BXor xk yk]) by reflexivity.
  assert (En : b_neg b' = nadd gi k (nadd k gi (b_neg b))) by reflexivity.
  assert (Ec : b_cxor b' = if b_dedup b then cache_put (b_cxor b) xk yk gi else b_cxor b) by reflexivity.
  assert (Es : b_shift b' = b_shift b) by reflexivity.
  clearbody b'. constructor; rewrite ?Eg, ?En, ?Ec, ?Es.
  - intros a n. rewrite !Hnew.
    destruct (N.eqb_spec gi a) as [<-|Na].
    { intros [= <-]. destruct (N.eqb_spec gi k); [lia|]. now rewrite N.eqb_refl. }
    destruct (N.eqb_spec k a) as [<-|Nka].
    { intros [= <-]. now rewrite N.eqb_refl. }
    intro E. destruct (Hold _ _ E) as (_ & _ & H1 & H2).
    destruct (N.eqb_spec gi n); [congruence|]. destruct (N.eqb_spec k n); [congruence|]. now apply Sy.
  - assert (Hmono : forall v, nfind v (b_neg b) <> None -> nfind v (nadd gi k (nadd k gi (b_neg b))) <> None).
    { intros v Hv. rewrite Hnew. destruct (gi =? v); [discriminate|]. destruct (k =? v); [discriminate|exact Hv]. }
    intros p q w.
    assert (Hca : cache_get (b_cxor b) p q = Some w ->
              (p = 1 -> nfind q (nadd gi k (nadd k gi (b_neg b))) <> None) /\
              (q = 1 -> nfind p (nadd gi k (nadd k gi (b_neg b))) <> None)).
    { intro E. destruct (Ca _ _ _ E) as [C1 C2]. split; intro; apply Hmono; auto. }
    destruct (b_dedup b); [|exact Hca]. rewrite cache_get_put.
    destruct (N.eqb_spec xk p) as [<-|Np]; destruct (N.eqb_spec yk q) as [<-|Nq]; cbn [andb]; try exact Hca.
    intros _. destruct Hg as [[-> ->]|[-> ->]].
    + split; [intros _|intros ->; lia]. rewrite Hnew. destruct (gi =? k); [discriminate|]. now rewrite N.eqb_refl.
    + split; [intros ->; lia|intros _]. rewrite Hnew. destruct (gi =? k); [discriminate|]. now rewrite N.eqb_refl.
  - intros i p q H.
    rewrite !Hnew. destruct (nthN_snoc _ _ _ _ H) as [H0|[Ei Eg']].
    + pose proof (nthN_lt _ _ _ H0) as Hlt. rewrite (glist_len b I) in Hlt.
      assert (N1 : gi <> b_shift b + i) by (unfold gi, counter; lia).
      destruct (Ga _ _ _ H0) as [G1 G2].
      destruct (N.eqb_spec gi (b_shift b + i)); [contradiction|].
      destruct (N.eqb_spec k (b_shift b + i)) as [Ek|_]; [|exact (conj G1 G2)].
      split; intro E1; [specialize (G1 E1)|specialize (G2 E1)]; rewrite <- Ek in *; congruence.
    + injection Eg' as -> ->. rewrite Ei, (glist_len b I).
      change (b_shift b + b_ngates b) with gi. rewrite N.eqb_refl.
      destruct Hg as [[-> ->]|[-> ->]]; split; auto; intros ->; lia.
Qed.

Lemma ninv_final_xor b x y :
  inv b -> ninv b -> valid b x -> valid b y -> optimize_xor b x y = None -> ninv (snd (final_xor b x y)).
Proof.
  intros I Nv Hx Hy Eo. destruct (optimize_xor_none _ _ _ Eo) as (Hx0 & Hy0 & Hxy).
  destruct (optimize_xor_none_neg _ _ _ I Eo) as [N1 N2].
  rewrite final_xor_snd. cbn zeta.
  destruct (N.eqb_spec x 1) as [->|Hx1].
  - destruct (N.eqb_spec y 1) as [->|Hy1]; [contradiction|].
    apply ninv_record_not; auto; lia.
  - destruct (N.eqb_spec y 1) as [->|Hy1].
    + apply ninv_record_not; auto; lia.
    + now apply ninv_push_xor_plain.
Qed.

Lemma ninv_astep b b' : inv b -> sinv b /\ ninv b -> astep b b' -> sinv b' /\ ninv b'.
Proof.
  intros I [S Nv] A. split; [eapply sinv_astep; eauto|].
  destruct A as [x y Eo Hx Hy|b'' [x y Eo Hx Hy|x y x1 x2 y1 y2 a1 a2 b2 Hxy Hx Hy Lx Ly Ef]].
  - now apply ninv_push_and.
  - now apply ninv_final_xor.
  - apply ninv_push_and.
    destruct (lookup_gate _ _ _ I Lx) as [_ Gx]. destruct (lookup_gate _ _ _ I Ly) as [_ Gy].
    destruct (s_and b S _ _ _ Gx) as (X1 & X2 & _). destruct (s_and b S _ _ _ Gy) as (Y1 & Y2 & _).
    apply ninv_push_xor_plain; [exact Nv| |];
      destruct (find_common_cases _ _ _ _ _ _ _ Ef) as [H|[H|[H|H]]]; destruct H as (-> & -> & _ & ->); lia.
Qed.

Theorem reachable_ninv b hs : reachable b hs -> ninv b.
Proof.
  intro R. apply (reachable_pres (fun b => sinv b /\ ninv b) b hs); [| |exact R].
  - intros b0 b1. apply ninv_astep.
  - intros. split; [apply sinv_new|apply ninv_new].
Qed.

(* negation of a wire that has a recorded negation: no gate *)
Lemma push_not_neg b a n :
  2 <= a -> 2 <= n -> nfind a (b_neg b) = Some n -> push_not b a = Ok (n, b).
Proof.
  intros Ha Hn E. unfold push_not, push_xor_top, small_fuel. cbn [push_xor]. unfold optimize_xor.
  destruct (N.eqb_spec a 0); [lia|]. destruct (N.eqb_spec 1 0); [lia|].
  destruct (N.eqb_spec a 1); [lia|]. rewrite E.
  destruct (N.eqb_spec n 1); [lia|]. reflexivity.
Qed.

Lemma push_xor_one_result f b x :
  inv b -> ninv b -> valid b x ->
  exists r b', push_xor (S f) b x 1 = Ok (r, b') /\ push_not b' r = Ok (x, b').
Proof.
  intros I Nv Hx. cbn [push_xor]. pose proof (inv_shift b I) as Hs.
  assert (H1 : nfind 1 (b_neg b) = None).
  { destruct (nfind 1 (b_neg b)) as [n|] eqn:E; [|reflexivity]. destruct (inv_neg b I _ _ E) as (H & _). lia. }
  destruct (optimize_xor b x 1) as [w|] eqn:Eo.
  - exists w, b. split; [reflexivity|]. unfold optimize_xor in Eo.
    destruct (N.eqb_spec x 0) as [->|Hx0]; [injection Eo as <-; apply push_xor_top_self|].
    destruct (N.eqb_spec 1 0); [lia|].
    destruct (N.eqb_spec x 1) as [->|Hx1]; [injection Eo as <-; reflexivity|].
    destruct (nfind x (b_neg b)) as [xn|] eqn:Ex.
    + pose proof (n_sym b Nv _ _ Ex) as Exn.
      destruct (inv_neg b I _ _ Ex) as (X2 & _). destruct (inv_neg b I _ _ Exn) as (Xn2 & _).
      destruct (N.eqb_spec xn 1); [lia|]. rewrite N.eqb_refl in Eo. injection Eo as <-.
      now apply push_not_neg.
    + rewrite H1 in Eo. exfalso. unfold get_cached in Eo. destruct (negb (b_dedup b)); [discriminate|].
      destruct (cache_get (b_cxor b) x 1) as [w1|] eqn:E1.
      * destruct (n_cache b Nv _ _ _ E1) as [_ C]. now apply C.
      * destruct (n_cache b Nv _ _ _ Eo) as [C _]. now apply C.
  - destruct (optimize_xor_none _ _ _ Eo) as (Hx0 & _ & Hx1).
    destruct (optimize_xor_none_neg _ _ _ I Eo) as [_ Nx]. specialize (Nx eq_refl).
    destruct (lookup_ok b x I Hx) as [gx Lx]. rewrite Lx. cbn [bind].
    assert (L1 : lookup b 1 = Ok None).
    { unfold lookup. destruct (N.ltb_spec 1 (b_shift b)); [reflexivity|lia]. }
    rewrite L1. cbn [bind].
    assert (Hres : exists r b', Ok (final_xor b x 1) = Ok (r, b') /\ push_not b' r = Ok (x, b')).
    { exists (counter b), (snd (final_xor b x 1)). split; [reflexivity|].
      apply push_not_neg; [unfold counter; lia|lia|].
      rewrite final_xor_snd. cbn zeta. destruct (N.eqb_spec x 1); [contradiction|].
      rewrite N.eqb_refl. unfold set_negated. cbn [b_neg]. apply nfind_add_eq. }
    assert (Hx2 : exists r b', xstage2 (push_xor f) b x 1 gx None = Ok (r, b') /\
                               push_not b' r = Ok (x, b')).
    { unfold xstage2. destruct gx as [[x1 x2|x1 x2]|]; try exact Hres.
      destruct (lookup_gate _ _ _ I Lx) as [Sx Gx].
      destruct (n_gate b Nv _ _ _ Gx) as [G1 G2].
      replace (b_shift b + (x - b_shift b)) with x in G1, G2 by lia.
      destruct (N.eqb_spec x1 1) as [E1|_]; [specialize (G1 E1); congruence|].
      destruct (N.eqb_spec x2 1) as [E2|_]; [specialize (G2 E2); congruence|].
      rewrite H1. exact Hres. }
    unfold xstage1. destruct gx as [[x1 x2|x1 x2]|]; exact Hx2.
Qed.

(* double negation returns the wire itself and stores nothing the second time *)
Theorem push_not_involutive b hs x r b' :
  reachable b hs -> valid b x -> push_not b x = Ok (r, b') -> push_not b' r = Ok (x, b').
Proof.
  intros R Hx. destruct (reachable_inv _ _ R) as [I _]. pose proof (reachable_ninv _ _ R) as Nv.
  unfold push_not at 1. unfold push_xor_top, small_fuel.
  destruct (push_xor_one_result 63 b x I Nv Hx) as (r0 & b0 & -> & H). now intros [= <- <-].
Qed.

(* ---------------------------------------------------------------- headline: requests, then build *)

(* the setting of Requests.requests_then_build (C04): any request sequence, outputs chosen
   among the constants, the inputs and the results, the panic record of PanicResult::ok() *)
Theorem requests_build_structure dedup inputs rs outs b hs ows :
  Forall (req_ok (2 + sumN inputs)) rs -> Forall (opnd_ok (2 + sumN inputs)) outs ->
  run_reqs (new_builder dedup inputs) [] rs = Ok (b, hs) ->
  mapM (resolve hs) outs = Some ows ->
  exists c, build b panic_ok_wires ows = Ok c /\
    (forall k, 2 <= k < lenN (gates c) -> reaches c (num_inputs c + k)) /\
    (forall k g w, 2 <= k -> nthN (gates c) k = Some g -> In w (g_ops g) ->
       w <> num_inputs c /\ w <> num_inputs c + 1) /\
    (forall k x y, nthN (gates c) k = Some (GAnd x y) -> x <> y) /\
    (dedup = true -> forall k1 k2 x y x' y',
       nthN (gates c) k1 = Some (GAnd x y) -> nthN (gates c) k2 = Some (GAnd x' y') ->
       same_pair x y x' y' -> k1 = k2) /\
    and_gates c <= N.of_nat (reqs_cost rs).
Proof.
  intros Hr Ho E Eo.
  assert (R : reachable b hs) by (exists dedup, inputs, rs; auto).
  destruct (reachable_inv _ _ R) as [I Hh].
  destruct (run_reqs_post rs _ _ _ _ (inv_new dedup inputs) (Forall_nil _) Hr E) as (_ & _ & X & _).
  destruct X as (Es & _ & Ed & _). cbn [new_builder b_shift b_dedup] in Es, Ed.
  assert (Hpw : valids b panic_ok_wires) by now apply panic_ok_wires_valid.
  assert (Hov : valids b ows).
  { apply (resolve_valids b hs outs ows R); [rewrite Es; exact Ho|exact Eo]. }
  destruct (build_total _ _ _ _ R Hpw Hov) as [c Ec]. exists c. split; [exact Ec|].
  split; [exact (build_all_used _ _ _ _ _ R Hpw Hov Ec)|].
  split; [exact (build_no_constant_operand _ _ _ _ _ R Hpw Hov Ec)|].
  split; [exact (proj1 (build_no_self_operand _ _ _ _ _ R Hpw Hov Ec))|].
  split; [|exact (build_and_count_le _ _ _ _ _ _ _ _ Hr E Hpw Hov Ec)].
  intro Hd. apply (build_and_unique _ _ _ _ _ R Hpw Hov Ec). congruence.
Qed.
