(* C15, builder / build layer: the vocabulary of the structural theorems (definitions only;
   proofs in StructProofs.v, pinned statements in Props/C15.v). *)
From GV Require Import Base.Util Base.NMap Circuit.Ssa
  Builder.Builder Builder.Build Builder.BuilderSem Builder.Requests.

(* ---- request sequences (the language of Requests.v) ---- *)

(* a raw operand must be a wire that exists from the start: a constant or an input *)
Definition opnd_ok (shift : N) (o : opnd) : Prop :=
  match o with Raw w => w < shift | Hnd _ => True end.

Definition req_ok (shift : N) (r : request) : Prop :=
  match r with
  | RXor a c | RAnd a c | ROr a c | REq a c => opnd_ok shift a /\ opnd_ok shift c
  | RNot a => opnd_ok shift a
  | RMux s a c => opnd_ok shift s /\ opnd_ok shift a /\ opnd_ok shift c
  end.

(* every builder any well-formed request sequence can produce *)
Definition reachable (b : builder) (hs : list N) : Prop :=
  exists dedup inputs rs,
    Forall (req_ok (2 + sumN inputs)) rs /\ run_reqs (new_builder dedup inputs) [] rs = Ok (b, hs).

(* upper bound on the AND gates one request can add to the gate store *)
Definition req_cost (r : request) : nat :=
  match r with
  | RXor _ _ => 1 | RAnd _ _ => 1 | ROr _ _ => 3 | REq _ _ => 1 | RNot _ => 0 | RMux _ _ _ => 3
  end.

Fixpoint reqs_cost (rs : list request) : nat :=
  match rs with [] => 0 | r :: rest => req_cost r + reqs_cost rest end.

(* ---- built circuits ---- *)

Definition same_pair (x y x' y' : N) : Prop := (x = x' /\ y = y') \/ (x = y' /\ y = x').

Definition g_ops (g : gate) : list N :=
  match g with GXor x y | GAnd x y => [x; y] | GNot x => [x] end.

(* wire w contributes to an output: it is an output, or an operand of a gate whose wire
   contributes to an output (gate k drives wire num_inputs + k) *)
Inductive reaches (c : circuit) : N -> Prop :=
| reach_out w : In w (output_gates c) -> reaches c w
| reach_op w k g :
    nthN (gates c) k = Some g -> reaches c (num_inputs c + k) -> In w (g_ops g) -> reaches c w.

(* AND gates in the builder's store *)
Definition is_band (g : bgate) : bool := match g with BAnd _ _ => true | BXor _ _ => false end.
Definition band_count (b : builder) : N := lenN (filter is_band (rev (b_gates_rev b))).

(* ---- requests that cannot create an AND gate ---- *)

Definition const_opnd (hs : list N) (o : opnd) : bool :=
  match resolve hs o with Some w => w <=? 1 | None => false end.

Definition same_opnd (hs : list N) (o1 o2 : opnd) : bool :=
  match resolve hs o1, resolve hs o2 with Some a, Some c => a =? c | _, _ => false end.

(* XOR / NOT / EQ always; AND and OR with a constant operand; MUX with a constant selector
   or twice the same data wire *)
Definition and_free_req (hs : list N) (r : request) : bool :=
  match r with
  | RXor _ _ | RNot _ | REq _ _ => true
  | RAnd a c | ROr a c => const_opnd hs a || const_opnd hs c
  | RMux s a c => const_opnd hs s || same_opnd hs a c
  end.

(* every request of the sequence is of that kind when it is executed *)
Fixpoint and_free (b : builder) (hs : list N) (rs : list request) : Prop :=
  match rs with
  | [] => True
  | r :: rest =>
      and_free_req hs r = true /\
      match run_req b hs r with
      | Ok (w, b') => and_free b' (hs ++ [w]) rest
      | _ => True
      end
  end.

(* ---- requests on constants ---- *)

Definition raw_const (o : opnd) : Prop := match o with Raw w => w <= 1 | Hnd _ => True end.

(* every raw operand of the request is one of the two constants *)
Definition req_raw_const (r : request) : Prop :=
  match r with
  | RXor a c | RAnd a c | ROr a c | REq a c => raw_const a /\ raw_const c
  | RNot a => raw_const a
  | RMux s a c => raw_const s /\ raw_const a /\ raw_const c
  end.

(* ---- helper for the closed examples of Props/C15.v: store, built gates, outputs, AND count ---- *)

Definition c15_run (dedup : bool) (inputs : list N) (rs : list request) (outs : list opnd)
  : option (list bgate * list gate * list N * N) :=
  match run_reqs (new_builder dedup inputs) [] rs with
  | Ok (b, hs) =>
      match mapM (resolve hs) outs with
      | Some ows =>
          match build b [] ows with
          | Ok c => Some (rev (b_gates_rev b), gates c, output_gates c, and_gates c)
          | _ => None
          end
      | None => None
      end
  | _ => None
  end.
