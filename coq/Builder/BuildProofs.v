(* Soundness of CircuitBuilder::build (pruning + final numbering): the built circuit passes
   its own validation and, on every input, outputs the denotations of the requested wires
   (the 161 panic-record wires first).  With BuilderProofs.v this gives the headline of C04:
   whatever simplifications fired, the circuit computes what the requests denote. *)
From GV Require Import Base.Util Base.NMap Circuit.Ssa Circuit.SsaProofs
  Builder.Builder Builder.Build Builder.BuilderSem Builder.BuilderSpec Builder.BuilderProofs.

Definition isused (used : nmap unit) (i : N) : bool :=
  match nfind i used with Some _ => true | None => false end.

Definition subset (u u' : nmap unit) : Prop := forall i, isused u i = true -> isused u' i = true.

Lemma subset_refl u : subset u u.
Proof. intros i H. exact H. Qed.

Lemma subset_trans a b c : subset a b -> subset b c -> subset a c.
Proof. intros H1 H2 i H. auto. Qed.

Lemma isused_mark shift u w i :
  isused (mark shift u w) i = isused u i || ((shift <=? w) && (w - shift =? i)).
Proof.
  unfold mark, isused. destruct (shift <=? w); cbn [andb].
  - rewrite nfind_add. destruct (w - shift =? i); [now rewrite orb_true_r|now rewrite orb_false_r].
  - now rewrite orb_false_r.
Qed.

Lemma mark_subset shift u w : subset u (mark shift u w).
Proof. intros i H. rewrite isused_mark, H. reflexivity. Qed.

(* operands of a used gate are marked (those that are gates) *)
Definition ops_marked (shift : N) (u : nmap unit) (g : bgate) : Prop :=
  let '(x, y) := Build.gops g in
  (shift <= x -> isused u (x - shift) = true) /\ (shift <= y -> isused u (y - shift) = true).

Definition gates_wf (shift : N) (gs : list bgate) : Prop :=
  forall i g, nthN gs i = Some g ->
    let '(x, y) := Build.gops g in x < shift + i /\ y < shift + i.

Lemma gates_wf_app_l shift gs0 g : gates_wf shift (gs0 ++ [g]) -> gates_wf shift gs0.
Proof.
  intros H i g0 Hi. apply H. rewrite nthN_app_l; [exact Hi|]. now apply nthN_lt in Hi.
Qed.

Lemma mark_pass_spec shift gs : forall u,
  gates_wf shift gs ->
  let u' := mark_pass shift (rev gs) (lenN gs) u in
  subset u u' /\
  (forall j, lenN gs <= j -> isused u' j = isused u j) /\
  (forall j g, nthN gs j = Some g -> isused u' j = true -> ops_marked shift u' g).
Proof.
  induction gs as [|g gs0 IH] using rev_ind; intros u Hwf; cbn zeta.
  - cbn [rev mark_pass]. split; [apply subset_refl|]. split; [reflexivity|].
    intros j g Hj. apply nthN_lt in Hj. rewrite lenN_nil in Hj. lia.
  - rewrite rev_app_distr. cbn [rev app mark_pass].
    rewrite lenN_app, lenN_cons, lenN_nil.
    replace (lenN gs0 + (1 + 0) - 1) with (lenN gs0) by lia.
    set (p := lenN gs0).
    set (u1 := match nfind p u with
               | Some _ => let '(x, y) := Build.gops g in mark shift (mark shift u x) y
               | None => u end).
    pose proof (gates_wf_app_l _ _ _ Hwf) as Hwf0.
    destruct (IH u1 Hwf0) as (Hsub & Hhigh & Hclos). fold p in Hsub, Hhigh, Hclos.
    assert (Hg : let '(x, y) := Build.gops g in x < shift + p /\ y < shift + p).
    { apply (Hwf p g). unfold p. apply nthN_app_here. }
    assert (Hu1 : subset u u1).
    { unfold u1. destruct (nfind p u); [|apply subset_refl].
      destruct (Build.gops g) as [x y]. eapply subset_trans; apply mark_subset. }
    assert (Hu1high : forall j, p <= j -> isused u1 j = isused u j).
    { intros j Hj. unfold u1. destruct (nfind p u); [|reflexivity].
      destruct (Build.gops g) as [x y]. destruct Hg as [Hx Hy]. rewrite !isused_mark.
      assert (E1 : (shift <=? x) && (x - shift =? j) = false).
      { destruct (N.leb_spec shift x); cbn [andb]; [|reflexivity]. apply N.eqb_neq. lia. }
      assert (E2 : (shift <=? y) && (y - shift =? j) = false).
      { destruct (N.leb_spec shift y); cbn [andb]; [|reflexivity]. apply N.eqb_neq. lia. }
      rewrite E1, E2. now rewrite !orb_false_r. }
    split; [eapply subset_trans; eauto|]. split.
    + intros j Hj. rewrite Hhigh by lia. apply Hu1high. lia.
    + intros j g0 Hj Hused.
      destruct (N.lt_ge_cases j p) as [Hlt|Hge].
      * rewrite nthN_app_l in Hj by exact Hlt. eapply Hclos; eauto.
      * assert (j = p).
        { apply nthN_lt in Hj. rewrite lenN_app, lenN_cons, lenN_nil in Hj. unfold p in *. lia. }
        subst j. unfold p in Hj. rewrite nthN_app_here in Hj. injection Hj as <-.
        rewrite Hhigh in Hused by lia.
        assert (Hup : isused u p = true) by (rewrite <- Hu1high; [exact Hused|lia]).
        unfold ops_marked. unfold u1 in Hsub. unfold isused in Hup.
        destruct (nfind p u) eqn:Ep; [|discriminate].
        destruct (Build.gops g) as [x y]. split; intro Hs; apply Hsub; rewrite !isused_mark.
        -- assert (E : (shift <=? x) && (x - shift =? x - shift) = true).
           { rewrite N.eqb_refl, andb_true_r. now apply N.leb_le. }
           rewrite E. now rewrite orb_true_r.
        -- assert (E : (shift <=? y) && (y - shift =? y - shift) = true).
           { rewrite N.eqb_refl, andb_true_r. now apply N.leb_le. }
           rewrite E. now rewrite orb_true_r.
Qed.

Lemma fold_mark_roots shift roots : forall u w,
  In w roots -> shift <= w -> isused (fold_left (mark shift) roots u) (w - shift) = true.
Proof.
  induction roots as [|r rs IH]; intros u w Hin Hs; [destruct Hin|]. cbn [fold_left].
  destruct Hin as [->|Hin]; [|now apply IH].
  assert (Hm : isused (mark shift u w) (w - shift) = true).
  { rewrite isused_mark. assert (E : (shift <=? w) = true) by now apply N.leb_le.
    rewrite E, N.eqb_refl. now rewrite orb_true_r. }
  clear IH. revert Hm. generalize (mark shift u w). induction rs as [|r rs IH]; intros u0 H; cbn [fold_left]; [exact H|].
  apply IH. now apply mark_subset.
Qed.

(* ---------------------------------------------------------------- counting and renumbering *)

Fixpoint cnt (P : N -> bool) (i0 : N) (m : nat) : N :=
  match m with
  | O => 0
  | S m' => (if P i0 then 1 else 0) + cnt P (i0 + 1) m'
  end.

Lemma cnt_snoc P : forall m i0,
  cnt P i0 (S m) = cnt P i0 m + (if P (i0 + N.of_nat m) then 1 else 0).
Proof.
  induction m as [|m IH]; intro i0.
  - cbn [cnt]. replace (i0 + N.of_nat 0) with i0 by (cbn [N.of_nat]; lia). lia.
  - change (cnt P i0 (S (S m))) with ((if P i0 then 1 else 0) + cnt P (i0 + 1) (S m)).
    rewrite IH. cbn [cnt]. replace (i0 + 1 + N.of_nat m) with (i0 + N.of_nat (S m)) by lia. lia.
Qed.

Lemma cnt_split P : forall m i0, cnt P i0 m + cnt (fun i => negb (P i)) i0 m = N.of_nat m.
Proof.
  induction m as [|m IH]; intro i0; cbn [cnt]; [reflexivity|].
  specialize (IH (i0 + 1)). destruct (P i0); cbn [negb]; lia.
Qed.

Lemma cnt_le P m i0 : cnt P i0 m <= N.of_nat m.
Proof. pose proof (cnt_split P m i0). lia. Qed.

Lemma count_unused_spec used gs : forall i0 c tbl,
  let '(tbl', _) := count_unused gs i0 c used tbl in
  (forall j, (j < length gs)%nat ->
     nfind (i0 + N.of_nat j) tbl' = Some (c + cnt (fun i => negb (isused used i)) i0 (S j))) /\
  (forall k, k < i0 -> nfind k tbl' = nfind k tbl).
Proof.
  induction gs as [|g r IH]; intros i0 c tbl; cbn [count_unused].
  - split; [intros j Hj; cbn [length] in Hj; lia|reflexivity].
  - set (c' := match nfind i0 used with Some _ => c | None => c + 1 end).
    specialize (IH (i0 + 1) c' (nadd i0 c' tbl)).
    destruct (count_unused r (i0 + 1) c' used (nadd i0 c' tbl)) as [tbl' c2].
    destruct IH as [IH1 IH2]. split.
    + intros j Hj. destruct j as [|j].
      * cbn [N.of_nat]. rewrite N.add_0_r, IH2 by lia. rewrite nfind_add_eq.
        cbn [cnt]. unfold c', isused. destruct (nfind i0 used); cbn [negb]; f_equal; lia.
      * cbn [length] in Hj. replace (i0 + N.of_nat (S j)) with (i0 + 1 + N.of_nat j) by lia.
        rewrite IH1 by lia. f_equal.
        change (cnt (fun i => negb (isused used i)) i0 (S (S j)))
          with ((if negb (isused used i0) then 1 else 0) + cnt (fun i => negb (isused used i)) (i0 + 1) (S j)).
        unfold c', isused. destruct (nfind i0 used); cbn [negb]; lia.
    + intros k Hk. rewrite IH2 by lia. apply nfind_add_neq. lia.
Qed.

(* the new index of a builder wire *)
Definition renum (shift : N) (used : nmap unit) (w : N) : N :=
  if w <? shift then w
  else shift + cnt (isused used) 0 (N.to_nat (w - shift)).

Lemma shift_idx_spec shift used gs tbl c w :
  count_unused gs 0 0 used nempty = (tbl, c) ->
  w < shift + lenN gs ->
  (shift <= w -> isused used (w - shift) = true) ->
  shift_idx shift tbl w = Ok (renum shift used w).
Proof.
  intros Hc Hw Hu. unfold shift_idx, renum.
  pose proof (count_unused_spec used gs 0 0 nempty) as Hs. rewrite Hc in Hs. destruct Hs as [Hs _].
  destruct (N.ltb_spec shift w) as [Hlt|Hge].
  - destruct (N.ltb_spec w shift); [lia|].
    set (i := w - shift) in *.
    specialize (Hs (N.to_nat i)). rewrite N.add_0_l, N2Nat.id in Hs.
    rewrite Hs by (unfold lenN in Hw; lia). f_equal. rewrite N.add_0_l.
    rewrite cnt_snoc. rewrite N.add_0_l, N2Nat.id. rewrite Hu by lia. cbn [negb].
    pose proof (cnt_split (isused used) (N.to_nat i) 0) as Hsp. lia.
  - destruct (N.ltb_spec w shift) as [|Hge2]; [reflexivity|].
    assert (w = shift) by lia. subst w. rewrite N.sub_diag. cbn [N.to_nat cnt]. f_equal. lia.
Qed.

Lemma renum_lt shift used w : w < shift -> renum shift used w = w.
Proof. intro H. unfold renum. destruct (N.ltb_spec w shift); [reflexivity|lia]. Qed.

Lemma renum_gate shift used i :
  renum shift used (shift + i) = shift + cnt (isused used) 0 (N.to_nat i).
Proof.
  unfold renum. destruct (N.ltb_spec (shift + i) shift); [lia|].
  replace (shift + i - shift) with i by lia. reflexivity.
Qed.

(* ---------------------------------------------------------------- compaction *)

Definition regate (shift : N) (used : nmap unit) (g : bgate) : bgate :=
  match g with
  | BXor x y => BXor (renum shift used x) (renum shift used y)
  | BAnd x y => BAnd (renum shift used x) (renum shift used y)
  end.

Fixpoint compact (shift : N) (used : nmap unit) (gs : list bgate) (i : N) : list bgate :=
  match gs with
  | [] => []
  | g :: r =>
      (if isused used i then [regate shift used g] else []) ++ compact shift used r (i + 1)
  end.

Lemma compact_app shift used l1 : forall l2 i,
  compact shift used (l1 ++ l2) i = compact shift used l1 i ++ compact shift used l2 (i + lenN l1).
Proof.
  induction l1 as [|g r IH]; intros l2 i; cbn [app compact].
  - now rewrite lenN_nil, N.add_0_r.
  - rewrite IH, lenN_cons, <- app_assoc. replace (i + 1 + lenN r) with (i + (1 + lenN r)) by lia. reflexivity.
Qed.

Lemma compact_len shift used gs : forall i,
  lenN (compact shift used gs i) = cnt (isused used) i (length gs).
Proof.
  induction gs as [|g r IH]; intro i; cbn [compact cnt length]; [reflexivity|].
  rewrite lenN_app, IH. destruct (isused used i); [rewrite lenN_cons, lenN_nil|rewrite lenN_nil]; lia.
Qed.

Section Compaction.
  Variable shift : N.
  Variable used : nmap unit.
  Variable gs : list bgate.
  Variable tbl : nmap N.
  Variable c : N.
  Hypothesis Htbl : count_unused gs 0 0 used nempty = (tbl, c).
  Hypothesis Hwf : gates_wf shift gs.
  Hypothesis Hclos : forall j g, nthN gs j = Some g -> isused used j = true -> ops_marked shift used g.

  Lemma shift_idx_ok w : w < shift + lenN gs -> exists r, shift_idx shift tbl w = Ok r.
  Proof.
    intro Hw. unfold shift_idx. destruct (shift <? w) eqn:E; [|eauto].
    apply N.ltb_lt in E.
    pose proof (count_unused_spec used gs 0 0 nempty) as Hs. rewrite Htbl in Hs. destruct Hs as [Hs _].
    specialize (Hs (N.to_nat (w - shift))). rewrite N.add_0_l, N2Nat.id in Hs.
    rewrite Hs by (unfold lenN in Hw; lia). eauto.
  Qed.

  Lemma shift_gate_spec j g :
    nthN gs j = Some g ->
    exists g', shift_gate shift tbl g = Ok g' /\ (isused used j = true -> g' = regate shift used g).
  Proof.
    intro Hj. pose proof (Hwf j g Hj) as Hops. pose proof (nthN_lt _ _ _ Hj) as Hlt.
    destruct g as [x y|x y]; cbn [Build.gops shift_gate regate] in *; destruct Hops as [Hx Hy];
      (destruct (shift_idx_ok x) as [rx Ex]; [lia|]; destruct (shift_idx_ok y) as [ry Ey]; [lia|];
       rewrite Ex, Ey; cbn [bind]; eexists; split; [reflexivity|]; intro Hu;
       destruct (Hclos j _ Hj Hu) as [Cx Cy]; cbn [Build.gops] in Cx, Cy;
       rewrite (shift_idx_spec shift used gs tbl c x Htbl) in Ex by (auto; lia);
       rewrite (shift_idx_spec shift used gs tbl c y Htbl) in Ey by (auto; lia);
       injection Ex as <-; injection Ey as <-; reflexivity).
  Qed.

  Lemma keep_used_spec suf : forall pre,
    gs = pre ++ suf ->
    keep_used shift tbl used suf (lenN pre) = Ok (compact shift used suf (lenN pre)).
  Proof.
    induction suf as [|g r IH]; intros pre Hgs; cbn [keep_used compact]; [reflexivity|].
    assert (Hj : nthN gs (lenN pre) = Some g) by (rewrite Hgs; apply nthN_app_here).
    destruct (shift_gate_spec _ _ Hj) as (g' & -> & Hg'). cbn [bind].
    specialize (IH (pre ++ [g])). rewrite lenN_app, lenN_cons, lenN_nil in IH.
    replace (lenN pre + (1 + 0)) with (lenN pre + 1) in IH by lia.
    rewrite IH by (rewrite Hgs, <- app_assoc; reflexivity). cbn [bind].
    unfold isused in *. destruct (nfind (lenN pre) used); [|reflexivity].
    rewrite (Hg' eq_refl). reflexivity.
  Qed.

  Lemma cnt_lt_used i p : (i < p)%nat -> isused used (N.of_nat i) = true ->
    cnt (isused used) 0 i < cnt (isused used) 0 p.
  Proof.
    intros Hlt Hu. induction p as [|p IH]; [lia|].
    rewrite cnt_snoc, N.add_0_l. destruct (Nat.eq_dec i p) as [->|Hne].
    - rewrite Hu. lia.
    - assert (cnt (isused used) 0 i < cnt (isused used) 0 p) by (apply IH; lia).
      destruct (isused used (N.of_nat p)); lia.
  Qed.

  (* values: the compacted list computes, at the renumbered position, what the original
     computes, for every wire that survives *)
  Definition survives (w : N) : Prop := w < shift \/ isused used (w - shift) = true.

  Lemma compact_vals init :
    lenN init = shift ->
    let a := run_gates init gs in
    let a' := run_gates init (compact shift used gs 0) in
    lenN a' = shift + cnt (isused used) 0 (length gs) /\
    forall w, w < shift + lenN gs -> survives w -> nthd a' (renum shift used w) = nthd a w.
  Proof.
    intro Hinit. revert Hwf Hclos. clear Htbl. 
    induction gs as [|g gs0 IH] using rev_ind; intros Hwf' Hclos'; cbn zeta.
    - cbn [compact run_gates length cnt]. split; [lia|]. intros w Hw _.
      rewrite lenN_nil in Hw. now rewrite renum_lt by lia.
    - rewrite compact_app, !run_gates_app, N.add_0_l. cbn [compact run_gates].
      set (p := lenN gs0).
      assert (Hwf0 : gates_wf shift gs0) by (eapply gates_wf_app_l; eauto).
      assert (Hclos0 : forall j g0, nthN gs0 j = Some g0 -> isused used j = true -> ops_marked shift used g0).
      { intros j g0 Hj. apply Hclos'. rewrite nthN_app_l; [exact Hj|]. now apply nthN_lt in Hj. }
      destruct (IH Hwf0 Hclos0) as [Hlen Hval]. clear IH.
      set (a0 := run_gates init gs0) in *. set (a0' := run_gates init (compact shift used gs0 0)) in *.
      assert (Hla0 : lenN a0 = shift + p) by (unfold a0; rewrite run_gates_len; lia).
      assert (Hp : length gs0 = N.to_nat p) by (unfold p, lenN; lia).
      assert (Hg : let '(x, y) := Build.gops g in x < shift + p /\ y < shift + p).
      { apply (Hwf' p g). unfold p. apply nthN_app_here. }
      rewrite app_length. cbn [length]. rewrite Nat.add_1_r, cnt_snoc, N.add_0_l.
      replace (N.of_nat (length gs0)) with p by (unfold p, lenN; reflexivity).
      (* old wires *)
      assert (Hold : forall w, w < shift + p -> survives w ->
                renum shift used w < lenN a0' /\ nthd a0' (renum shift used w) = nthd a0 w).
      { intros w Hw Hs. split; [|apply Hval; [unfold p in Hw; exact Hw|exact Hs]].
        rewrite Hlen. destruct (N.lt_ge_cases w shift) as [Hl|Hge]; [rewrite renum_lt by exact Hl; lia|].
        replace w with (shift + (w - shift)) by lia. rewrite renum_gate.
        destruct Hs as [Hs|Hs]; [lia|]. rewrite Hp.
        apply N.add_lt_mono_l. apply cnt_lt_used; [lia|]. now rewrite N2Nat.id. }
      destruct (isused used p) eqn:Up.
      + cbn [app run_gates]. split.
        * rewrite lenN_app, lenN_cons, lenN_nil, Hlen. lia.
        * intros w Hw Hs. rewrite lenN_app, lenN_cons, lenN_nil in Hw.
          destruct (N.lt_ge_cases w (shift + p)) as [Hlt|Hge].
          -- destruct (Hold w Hlt Hs) as [H1 H2].
             rewrite nthd_app_l by exact H1. rewrite nthd_app_l by lia. exact H2.
          -- assert (w = shift + p) by (unfold p in *; lia). subst w.
             rewrite renum_gate, <- Hp, <- Hlen, nthd_app_here, <- Hla0, nthd_app_here.
             assert (Hcl : ops_marked shift used g).
             { apply (Hclos' p g); [unfold p; apply nthN_app_here|exact Up]. }
             destruct g as [x y|x y]; cbn [Build.gops regate gval ops_marked] in *;
               destruct Hg as [Hx Hy]; destruct Hcl as [Cx Cy];
               (assert (Sx : survives x) by (destruct (N.lt_ge_cases x shift); [now left|right; auto]);
                assert (Sy : survives y) by (destruct (N.lt_ge_cases y shift); [now left|right; auto]);
                destruct (Hold x Hx Sx) as [_ ->]; destruct (Hold y Hy Sy) as [_ ->]; reflexivity).
      + cbn [app run_gates]. split; [rewrite Hlen; lia|].
        intros w Hw Hs. rewrite lenN_app, lenN_cons, lenN_nil in Hw.
        destruct (N.lt_ge_cases w (shift + p)) as [Hlt|Hge].
        * destruct (Hold w Hlt Hs) as [H1 H2]. rewrite nthd_app_l by lia. exact H2.
        * assert (w = shift + p) by (unfold p in *; lia). subst w.
          destruct Hs as [Hs|Hs]; [lia|]. replace (shift + p - shift) with p in Hs by lia. congruence.
  Qed.
End Compaction.

(* ---------------------------------------------------------------- final numbering *)

Lemma leb_false_lt a b : b < a -> (a <=? b) = false.
Proof. intro. now apply N.leb_gt. Qed.

Section Final.
  Variable inp : list bool.              (* flat inputs, at least one bit *)
  Hypothesis Hinp : 1 <= lenN inp.
  Let n_in := lenN inp.

  (* builder-style values (false :: true :: inp ++ vs) against final-style (inp ++ false :: true :: vs) *)
  Definition rel (ab af : list bool) : Prop :=
    lenN ab = lenN af /\ 2 + n_in <= lenN ab /\
    nthd ab 0 = false /\ nthd ab 1 = true /\
    forall w, w < lenN ab -> nthN af (final_idx n_in w) = Some (nthd ab w).

  Lemma final_idx_lt w len : 2 + n_in <= len -> w < len -> final_idx n_in w < len.
  Proof.
    intros Hl Hw. unfold final_idx. destruct (N.leb_spec w 1); [lia|].
    destruct (N.ltb_spec w (n_in + 2)); lia.
  Qed.

  Lemma final_idx_high w : 2 + n_in <= w -> final_idx n_in w = w.
  Proof.
    intro H. unfold final_idx. destruct (N.leb_spec w 1); [lia|].
    destruct (N.ltb_spec w (n_in + 2)); lia.
  Qed.

  Lemma rel_step ab af g :
    rel ab af ->
    (let '(x, y) := Build.gops g in x < lenN ab /\ y < lenN ab) ->
    eval_gate af (final_gate n_in g) = Some (gval ab g) /\
    gate_ok (lenN af) (final_gate n_in g) = true /\
    rel (ab ++ [gval ab g]) (af ++ [gval ab g]).
  Proof.
    intros (Hl & Hmin & H0 & H1 & Hv) Hops.
    assert (Hrel' : forall v, rel (ab ++ [v]) (af ++ [v])).
    { intro v. unfold rel. rewrite !lenN_app, !lenN_cons, !lenN_nil. repeat split; try lia.
      - rewrite nthd_app_l by lia. exact H0.
      - rewrite nthd_app_l by lia. exact H1.
      - intros w Hw. destruct (N.lt_ge_cases w (lenN ab)) as [Hlt|Hge].
        + rewrite nthd_app_l by exact Hlt. rewrite nthN_app_l; [now apply Hv|].
          rewrite <- Hl. now apply final_idx_lt.
        + assert (w = lenN ab) by lia. subst w. rewrite nthd_app_here.
          rewrite final_idx_high by lia. rewrite Hl. apply nthN_app_here. }
    assert (Hlt : forall w, w < lenN ab -> (lenN af <=? final_idx n_in w) = false).
    { intros w Hw. apply N.leb_gt. rewrite <- Hl. now apply final_idx_lt. }
    split; [|split; [|apply Hrel']].
    - destruct g as [x y|x y]; cbn [Build.gops final_gate gval] in *; destruct Hops as [Hx Hy].
      + destruct (N.eqb_spec x 1) as [->|Nx].
        { cbn [eval_gate]. rewrite (Hv y Hy), H1. now destruct (nthd ab y). }
        destruct (N.eqb_spec y 1) as [->|Ny].
        { cbn [eval_gate]. rewrite (Hv x Hx), H1. now destruct (nthd ab x). }
        cbn [eval_gate]. now rewrite (Hv x Hx), (Hv y Hy).
      + cbn [eval_gate]. now rewrite (Hv x Hx), (Hv y Hy).
    - destruct g as [x y|x y]; cbn [Build.gops final_gate] in *; destruct Hops as [Hx Hy].
      + destruct (x =? 1); [|destruct (y =? 1)]; cbn [gate_ok]; rewrite ?Hlt by assumption; reflexivity.
      + cbn [gate_ok]. rewrite !Hlt by assumption. reflexivity.
  Qed.

  Lemma rel_run cg : forall ab af,
    rel ab af ->
    (forall i g, nthN cg i = Some g -> let '(x, y) := Build.gops g in x < lenN ab + i /\ y < lenN ab + i) ->
    exists af', eval_gates af (map (final_gate n_in) cg) = Some af' /\
      validate_gates (lenN af) (map (final_gate n_in) cg) = None /\
      rel (run_gates ab cg) af'.
  Proof.
    induction cg as [|g r IH]; intros ab af Hrel Hwf; cbn [map eval_gates validate_gates run_gates].
    - exists af. auto.
    - assert (Hg : let '(x, y) := Build.gops g in x < lenN ab /\ y < lenN ab).
      { specialize (Hwf 0 g eq_refl). destruct (Build.gops g). lia. }
      destruct (rel_step ab af g Hrel Hg) as (Ev & Ok1 & Hrel1). rewrite Ev, Ok1.
      destruct (IH _ _ Hrel1) as (af' & E & V & R).
      { intros i g0 Hi. specialize (Hwf (i + 1) g0).
        assert (Hn : nthN (g :: r) (i + 1) = Some g0).
        { rewrite nthN_spec in *. replace (N.to_nat (i + 1)) with (S (N.to_nat i)) by lia. exact Hi. }
        specialize (Hwf Hn). destruct (Build.gops g0). rewrite lenN_app, lenN_cons, lenN_nil. lia. }
      exists af'. split; [exact E|]. split; [|exact R].
      rewrite lenN_app, lenN_cons, lenN_nil in V. replace (lenN af + (1 + 0)) with (lenN af + 1) in V by lia.
      exact V.
  Qed.

  Lemma rel_init : exists b0,
    eval_gates inp [GXor 0 0; GNot n_in] = Some (inp ++ [false; true]) /\
    validate_gates n_in [GXor 0 0; GNot n_in] = None /\
    rel (false :: true :: inp) (inp ++ [false; true]) /\ nthN inp 0 = Some b0.
  Proof.
    destruct (nthN_Some inp 0) as [b0 Hb0]; [unfold n_in in *; lia|]. exists b0.
    split.
    - cbn [eval_gates eval_gate]. rewrite Hb0, xorb_nilpotent.
      fold n_in. unfold n_in at 1. rewrite nthN_app_here. cbn [negb]. now rewrite <- app_assoc.
    - split.
      + cbn [validate_gates gate_ok]. rewrite (leb_false_lt n_in 0), (leb_false_lt (n_in + 1) n_in); [reflexivity|lia|unfold n_in; lia].
      + split; [|exact Hb0]. unfold rel. rewrite lenN_app, !lenN_cons, lenN_nil. fold n_in.
        split; [lia|]. split; [lia|]. split; [reflexivity|].
        split; [exact (nthd_app_here [false] inp true)|].
        intros w Hw. unfold final_idx.
        destruct (N.leb_spec w 1) as [Hw1|Hw1].
        * assert (Hw01 : w = 0 \/ w = 1) by lia. destruct Hw01 as [E|E]; subst w.
          -- rewrite N.add_0_l. unfold n_in. now rewrite nthN_app_here.
          -- change (inp ++ [false; true]) with (inp ++ [false] ++ [true]). rewrite app_assoc.
             replace (1 + n_in) with (lenN (inp ++ [false])) by (rewrite lenN_app, lenN_cons, lenN_nil; unfold n_in; lia).
             rewrite nthN_app_here. f_equal. symmetry. exact (nthd_app_here [false] inp true).
        * destruct (N.ltb_spec w (n_in + 2)); [|lia].
          rewrite nthN_app_l by (unfold n_in in *; lia).
          unfold nthd. rewrite !nthN_spec. replace (N.to_nat w) with (S (S (N.to_nat (w - 2)))) by lia.
          cbn [nth_error]. destruct (nth_error inp (N.to_nat (w - 2))) eqn:E; [reflexivity|].
          apply nth_error_None in E. unfold n_in, lenN in *. lia.
  Qed.
End Final.

(* ---------------------------------------------------------------- assembly *)

Lemma eval_gates_app l1 : forall v l2,
  eval_gates v (l1 ++ l2) = match eval_gates v l1 with Some v1 => eval_gates v1 l2 | None => None end.
Proof.
  induction l1 as [|g r IH]; intros v l2; cbn [app eval_gates]; [reflexivity|].
  destruct (eval_gate v g); [apply IH|reflexivity].
Qed.

Lemma validate_gates_app l1 : forall i l2,
  validate_gates i (l1 ++ l2) =
  match validate_gates i l1 with Some e => Some e | None => validate_gates (i + lenN l1) l2 end.
Proof.
  induction l1 as [|g r IH]; intros i l2; cbn [app validate_gates].
  - now rewrite lenN_nil, N.add_0_r.
  - destruct (gate_ok i g); [|reflexivity]. rewrite IH, lenN_cons.
    replace (i + 1 + lenN r) with (i + (1 + lenN r)) by lia. reflexivity.
Qed.

Lemma mapM_res_map {A B} (f : A -> res B) (g : A -> B) l :
  (forall a, In a l -> f a = Ok (g a)) -> mapM_res f l = Ok (map g l).
Proof.
  induction l as [|a r IH]; intro H; cbn [mapM_res map]; [reflexivity|].
  rewrite (H a (or_introl eq_refl)). cbn [bind]. rewrite IH by (intros; apply H; now right). reflexivity.
Qed.

Lemma mapM_map_some {A B} (f : A -> option B) (g : A -> B) l :
  (forall a, In a l -> f a = Some (g a)) -> mapM f l = Some (map g l).
Proof.
  induction l as [|a r IH]; intro H; cbn [mapM map]; [reflexivity|].
  rewrite (H a (or_introl eq_refl)), IH by (intros; apply H; now right). reflexivity.
Qed.

Lemma mapM_map {A B C} (f : B -> option C) (h : A -> B) l :
  mapM f (map h l) = mapM (fun a => f (h a)) l.
Proof.
  induction l as [|a r IH]; cbn [map mapM]; [reflexivity|]. now rewrite IH.
Qed.

Lemma compact_wf shift used gs :
  gates_wf shift gs ->
  (forall j g, nthN gs j = Some g -> isused used j = true -> ops_marked shift used g) ->
  forall i g, nthN (compact shift used gs 0) i = Some g ->
    let '(x, y) := Build.gops g in x < shift + i /\ y < shift + i.
Proof.
  induction gs as [|g0 gs0 IH] using rev_ind; intros Hwf Hclos i g Hi.
  - cbn [compact] in Hi. apply nthN_lt in Hi. rewrite lenN_nil in Hi. lia.
  - rewrite compact_app, N.add_0_l in Hi. cbn [compact] in Hi.
    set (p := lenN gs0) in *.
    assert (Hwf0 : gates_wf shift gs0) by (eapply gates_wf_app_l; eauto).
    assert (Hclos0 : forall j g1, nthN gs0 j = Some g1 -> isused used j = true -> ops_marked shift used g1).
    { intros j g1 Hj. apply Hclos. rewrite nthN_app_l; [exact Hj|]. now apply nthN_lt in Hj. }
    destruct (N.lt_ge_cases i (lenN (compact shift used gs0 0))) as [Hlt|Hge].
    + rewrite nthN_app_l in Hi by exact Hlt. now apply IH.
    + destruct (isused used p) eqn:Up; cbn [app] in Hi.
      2:{ apply nthN_lt in Hi. unfold lenN in Hi, Hge. rewrite app_length in Hi. cbn [length] in Hi. lia. }
      assert (i = lenN (compact shift used gs0 0)).
      { apply nthN_lt in Hi. rewrite lenN_app, lenN_cons in Hi. change (lenN (@nil bgate)) with 0 in Hi. lia. }
      subst i. rewrite nthN_app_here in Hi. injection Hi as <-.
      rewrite compact_len.
      assert (Hp : length gs0 = N.to_nat p) by (unfold p, lenN; lia).
      assert (Hg : let '(x, y) := Build.gops g0 in x < shift + p /\ y < shift + p).
      { apply (Hwf p g0). unfold p. apply nthN_app_here. }
      assert (Hcl : ops_marked shift used g0).
      { apply (Hclos p g0); [unfold p; apply nthN_app_here|exact Up]. }
      assert (Hr : forall x, x < shift + p -> (shift <= x -> isused used (x - shift) = true) ->
                 renum shift used x < shift + cnt (isused used) 0 (length gs0)).
      { intros x Hx Hu. destruct (N.lt_ge_cases x shift) as [Hl|Hge2]; [rewrite renum_lt by exact Hl; lia|].
        replace x with (shift + (x - shift)) by lia. rewrite renum_gate, Hp.
        apply N.add_lt_mono_l. apply cnt_lt_used; [lia|]. rewrite N2Nat.id. now apply Hu. }
      destruct g0 as [x y|x y]; cbn [Build.gops regate ops_marked] in *;
        destruct Hg as [Hx Hy]; destruct Hcl as [Cx Cy]; split; apply Hr; auto.
Qed.

Theorem build_sound b pw outs :
  inv b -> valids b pw -> valids b outs -> pw ++ outs <> [] ->
  2 < b_shift b -> counter b + (b_shift b - 2) <= MAX_GATES ->
  exists c, build b pw outs = Ok c /\
    ssa_validate c = None /\
    input_gates c = b_inputs b /\
    length (output_gates c) = length (pw ++ outs) /\
    forall ins inp, load_inputs (b_inputs b) ins = Some inp ->
      ssa_eval c ins = Some (map (den inp b) (pw ++ outs)).
Proof.
  intros I Hpw Houts Hne Hshift Hmax.
  set (shift := b_shift b). set (gs := glist b).
  assert (Hrev : b_gates_rev b = rev gs) by (unfold gs, glist; now rewrite rev_involutive).
  assert (Hn : b_ngates b = lenN gs) by (symmetry; apply glist_len; exact I).
  assert (Hwf : gates_wf shift gs).
  { intros i g Hi. exact (inv_wf b I i g Hi). }
  set (used0 := fold_left (mark shift) (outs ++ pw) nempty).
  set (used := mark_pass shift (rev gs) (lenN gs) used0).
  destruct (mark_pass_spec shift gs used0 Hwf) as (Hsub & _ & Hclos). fold used in Hsub, Hclos.
  assert (Hroot : forall w, In w (pw ++ outs) -> w < shift + lenN gs /\ (shift <= w -> isused used (w - shift) = true)).
  { intros w Hin. split.
    - assert (Hv : valid b w).
      { apply in_app_or in Hin. destruct Hin as [Hin|Hin];
          [eapply (proj1 (Forall_forall _ _) Hpw); eauto|eapply (proj1 (Forall_forall _ _) Houts); eauto]. }
      unfold valid, counter in Hv. fold shift in Hv. rewrite Hn in Hv. exact Hv.
    - intro Hs. apply Hsub. apply fold_mark_roots; [|exact Hs].
      apply in_or_app. apply in_app_or in Hin. tauto. }
  destruct (count_unused gs 0 0 used nempty) as [tbl c0] eqn:Htbl.
  pose proof (keep_used_spec shift used gs tbl c0 Htbl Hwf Hclos gs [] eq_refl) as Hkeep.
  rewrite lenN_nil in Hkeep.
  set (cg := compact shift used gs 0) in *.
  assert (Hidx : forall l, (forall w, In w l -> In w (pw ++ outs)) ->
            mapM_res (shift_idx shift tbl) l = Ok (map (renum shift used) l)).
  { intros l Hl. apply mapM_res_map. intros w Hin. destruct (Hroot w (Hl w Hin)) as [H1 H2].
    eapply shift_idx_spec; eauto. }
  set (n_in := shift - 2).
  set (c := mkCircuit (b_inputs b) (GXor 0 0 :: GNot n_in :: map (final_gate n_in) cg)
              (map (final_idx n_in) (map (renum shift used) pw ++ map (renum shift used) outs))).
  assert (Hbuild : build b pw outs = Ok c).
  { unfold build, remove_unused_gates. fold shift. rewrite frev_rev, Hrev, Hn. fold used0 used.
    rewrite rev_involutive. fold gs. rewrite Htbl, Hkeep. cbn [bind].
    rewrite (Hidx pw) by (intros; apply in_or_app; now left).
    rewrite (Hidx outs) by (intros; apply in_or_app; now right). reflexivity. }
  exists c. split; [exact Hbuild|].
  (* facts that do not depend on the inputs *)
  assert (Hcgwf : forall i g, nthN cg i = Some g -> let '(x, y) := Build.gops g in x < shift + i /\ y < shift + i)
    by (apply compact_wf; assumption).
  assert (Hsum : sumN (b_inputs b) = n_in).
  { pose proof (inv_inputs b I). unfold n_in, shift. lia. }
  assert (Hcglen : lenN cg <= lenN gs).
  { unfold cg. rewrite compact_len. pose proof (cnt_le (isused used) (length gs) 0). unfold lenN. lia. }
  assert (Hrn : forall w, In w (pw ++ outs) -> renum shift used w < shift + lenN cg).
  { intros w Hin. destruct (Hroot w Hin) as [H1 H2]. unfold cg. rewrite compact_len.
    destruct (N.lt_ge_cases w shift) as [Hl|Hge]; [rewrite renum_lt by exact Hl; lia|].
    replace w with (shift + (w - shift)) by lia. rewrite renum_gate.
    apply N.add_lt_mono_l. apply cnt_lt_used; [unfold lenN in H1; lia|]. rewrite N2Nat.id. now apply H2. }
  split; [|split; [reflexivity|split]].
  - (* validate: use an all-false input to drive the same induction *)
    assert (Hni : num_inputs c = n_in) by (unfold num_inputs, c; cbn [input_gates]; exact Hsum).
    assert (Hwl : wires_len c = n_in + 2 + lenN cg).
    { unfold wires_len. rewrite Hni. unfold c. cbn [gates]. rewrite !lenN_cons.
      unfold lenN. rewrite map_length. lia. }
    unfold ssa_validate. rewrite Hni, Hwl.
    change (input_gates c) with (b_inputs b).
    change (gates c) with ([GXor 0 0; GNot n_in] ++ map (final_gate n_in) cg).
    change (output_gates c) with
      (map (final_idx n_in) (map (renum shift used) pw ++ map (renum shift used) outs)).
    assert (Hnn : is_nil (b_inputs b) = false).
    { destruct (b_inputs b); [cbn [sumN] in Hsum; unfold n_in in Hsum; lia|reflexivity]. }
    rewrite Hnn. cbn [andb].
    set (inp0 := repeat false (N.to_nat n_in)).
    assert (Hl0 : lenN inp0 = n_in) by (unfold inp0, lenN; rewrite repeat_length; lia).
    assert (H1in : 1 <= lenN inp0) by (rewrite Hl0; unfold n_in; lia).
    destruct (rel_init inp0 H1in) as (b0 & _ & V0 & R0 & _).
    destruct (rel_run inp0 H1in cg _ _ R0) as (af' & _ & V1 & R1).
    { intros i g Hi. specialize (Hcgwf i g Hi). destruct (Build.gops g).
      rewrite !lenN_cons, Hl0. unfold n_in. lia. }
    rewrite Hl0 in V0, V1.
    rewrite validate_gates_app, V0, !lenN_cons, lenN_nil.
    rewrite lenN_app, !lenN_cons, lenN_nil, Hl0 in V1. rewrite V1.
    assert (Hout_nn : is_nil (map (final_idx n_in) (map (renum shift used) pw ++ map (renum shift used) outs)) = false).
    { rewrite <- map_app. destruct (pw ++ outs); [congruence|reflexivity]. }
    rewrite Hout_nn.
    assert (Hvo : validate_outputs (n_in + 2 + lenN cg)
              (map (final_idx n_in) (map (renum shift used) pw ++ map (renum shift used) outs)) = None).
    { rewrite <- !map_app, map_map. induction (pw ++ outs) as [|w r IHr] in Hrn |- *; cbn [map validate_outputs]; [reflexivity|].
      rewrite leb_false_lt.
      - apply IHr. intros; apply Hrn; now right.
      - assert (Hx : renum shift used w < shift + lenN cg) by (apply Hrn; now left).
        replace (n_in + 2 + lenN cg) with (shift + lenN cg) by (unfold n_in; lia).
        rewrite <- Hl0 at 1. apply final_idx_lt; rewrite ?Hl0; unfold n_in in *; lia. }
    rewrite Hvo.
    assert (Hm : (MAX_GATES <? n_in + 2 + lenN cg + n_in) = false).
    { apply N.ltb_ge. unfold counter in Hmax. fold shift in Hmax. rewrite Hn in Hmax. unfold n_in. lia. }
    rewrite Hm. reflexivity.
  - unfold c. cbn [output_gates]. rewrite <- !map_app, !map_length. reflexivity.
  - intros ins inp Hload.
    assert (Hli : lenN inp = n_in) by (rewrite (load_inputs_len _ _ _ Hload); exact Hsum).
    assert (H1in : 1 <= lenN inp) by (rewrite Hli; unfold n_in; lia).
    destruct (rel_init inp H1in) as (b0 & E0 & _ & R0 & _).
    destruct (rel_run inp H1in cg _ _ R0) as (af' & E1 & _ & R1).
    { intros i g Hi. specialize (Hcgwf i g Hi). destruct (Build.gops g).
      rewrite !lenN_cons, Hli. unfold n_in. lia. }
    unfold ssa_eval, ssa_wire_vals, c. cbn [input_gates gates output_gates]. rewrite Hload.
    change (GXor 0 0 :: GNot n_in :: map (final_gate n_in) cg)
      with ([GXor 0 0; GNot n_in] ++ map (final_gate n_in) cg).
    rewrite Hli in E0, E1. rewrite eval_gates_app, E0, E1.
    rewrite <- !map_app, map_map.
    assert (Hinit : lenN (false :: true :: inp) = shift) by (rewrite !lenN_cons, Hli; unfold n_in; lia).
    destruct (compact_vals shift used gs Hwf Hclos (false :: true :: inp) Hinit) as [Hlen' Hval].
    fold cg in Hlen', Hval. destruct R1 as (Rl & _ & _ & _ & Rv). rewrite Hli in Rv.
    rewrite mapM_map. apply mapM_map_some. intros w Hin.
    assert (Hx : renum shift used w < lenN (run_gates (false :: true :: inp) cg)).
    { rewrite Hlen'. unfold cg. pose proof (Hrn w Hin) as H. unfold cg in H. now rewrite compact_len in H. }
    rewrite (Rv _ Hx). f_equal. destruct (Hroot w Hin) as [H1 H2].
    rewrite Hval; [reflexivity|exact H1|].
    destruct (N.lt_ge_cases w shift); [now left|right; auto].
Qed.
