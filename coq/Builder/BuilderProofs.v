(* C04, builder level: every wire handed back by push_xor / push_and (and the derived
   requests) denotes the requested Boolean function of its operands, for every reachable
   builder state; the explicit recursion fuel never runs out. *)
From GV Require Import Base.Util Base.NMap Builder.Builder Builder.BuilderSem Builder.BuilderSpec.

Definition gops (g : bgate) : N * N := match g with BXor x y | BAnd x y => (x, y) end.
Definition gfun (g : bgate) : bool -> bool -> bool :=
  match g with BXor _ _ => xorb | BAnd _ _ => andb end.
Definition glist (b : builder) : list bgate := rev (b_gates_rev b).

(* ---------------------------------------------------------------- run_gates *)

Lemma nthd_app_l l r w : w < lenN l -> nthd (l ++ r) w = nthd l w.
Proof. intro H. unfold nthd. now rewrite nthN_app_l. Qed.

Lemma nthd_app_here l r v : nthd (l ++ v :: r) (lenN l) = v.
Proof. unfold nthd. now rewrite nthN_app_here. Qed.

Lemma run_gates_app gs1 : forall acc gs2,
  run_gates acc (gs1 ++ gs2) = run_gates (run_gates acc gs1) gs2.
Proof. induction gs1 as [|g r IH]; intros acc gs2; cbn [app run_gates]; auto. Qed.

Lemma run_gates_prefix gs : forall acc, exists t,
  run_gates acc gs = acc ++ t /\ lenN t = lenN gs.
Proof.
  induction gs as [|g r IH]; intro acc; cbn [run_gates].
  - exists []. now rewrite app_nil_r.
  - destruct (IH (acc ++ [gval acc g])) as (t & -> & Hl).
    exists (gval acc g :: t). rewrite <- app_assoc. split; [reflexivity|].
    rewrite !lenN_cons. lia.
Qed.

Lemma run_gates_len gs acc : lenN (run_gates acc gs) = lenN acc + lenN gs.
Proof. destruct (run_gates_prefix gs acc) as (t & -> & Hl). rewrite lenN_app. lia. Qed.

Lemma gval_ext acc t g :
  (let '(x, y) := gops g in x < lenN acc /\ y < lenN acc) -> gval (acc ++ t) g = gval acc g.
Proof.
  destruct g as [x y|x y]; cbn [gops gval]; intros [Hx Hy]; now rewrite !nthd_app_l.
Qed.

(* value of the wire defined by the i-th gate *)
Lemma run_gates_nth gs : forall acc i g,
  nthN gs i = Some g ->
  (let '(x, y) := gops g in x < lenN acc + i /\ y < lenN acc + i) ->
  nthd (run_gates acc gs) (lenN acc + i) =
  (let '(x, y) := gops g in gfun g (nthd (run_gates acc gs) x) (nthd (run_gates acc gs) y)).
Proof.
  intros acc i g Hi Hwf.
  rewrite nthN_spec in Hi. apply nth_error_split in Hi. destruct Hi as (pre & post & -> & Hlen).
  rewrite run_gates_app. cbn [run_gates].
  set (acc1 := run_gates acc pre).
  assert (Hl1 : lenN acc1 = lenN acc + i).
  { unfold acc1. rewrite run_gates_len. unfold lenN. lia. }
  destruct (run_gates_prefix post (acc1 ++ [gval acc1 g])) as (t & -> & _).
  rewrite <- app_assoc. cbn [app]. rewrite <- Hl1, nthd_app_here.
  destruct g as [x y|x y]; cbn [gops gfun gval] in *; destruct Hwf as [Hx Hy];
    rewrite !nthd_app_l by lia; reflexivity.
Qed.

(* ---------------------------------------------------------------- the invariant *)

Definition sem_binop (b : builder) (op : bool -> bool -> bool) (x y w : N) : Prop :=
  valid b x /\ valid b y /\ valid b w /\
  forall inp, ins_ok b inp -> den inp b w = op (den inp b x) (den inp b y).

Record inv (b : builder) : Prop := {
  inv_shift : 2 <= b_shift b;
  inv_inputs : b_shift b = 2 + sumN (b_inputs b);
  inv_len : b_ngates b = lenN (b_gates_rev b);
  inv_gmap : forall i, nfind i (b_gmap b) = nthN (glist b) i;
  inv_wf : forall i g, nthN (glist b) i = Some g ->
           let '(x, y) := gops g in x < b_shift b + i /\ y < b_shift b + i;
  inv_cxor : forall x y w, cache_get (b_cxor b) x y = Some w -> sem_binop b xorb x y w;
  inv_cand : forall x y w, cache_get (b_cand b) x y = Some w -> sem_binop b andb x y w;
  inv_neg : forall a n, nfind a (b_neg b) = Some n ->
            2 <= a /\ valid b a /\ valid b n /\
            forall inp, ins_ok b inp -> den inp b n = negb (den inp b a)
}.

Lemma glist_len b : inv b -> lenN (glist b) = b_ngates b.
Proof. intros I. unfold glist, lenN. rewrite rev_length. rewrite (inv_len b I). reflexivity. Qed.

Lemma wire_vals_len b inp : inv b -> ins_ok b inp -> lenN (wire_vals inp b) = counter b.
Proof.
  intros I Hi. unfold wire_vals. fold (glist b). rewrite run_gates_len, (glist_len b I).
  rewrite !lenN_cons. unfold ins_ok in Hi. unfold counter. lia.
Qed.

Lemma den_const0 b inp : den inp b 0 = false.
Proof.
  unfold den, wire_vals. destruct (run_gates_prefix (rev (b_gates_rev b)) (false :: true :: inp)) as (t & -> & _).
  reflexivity.
Qed.

Lemma den_const1 b inp : den inp b 1 = true.
Proof.
  unfold den, wire_vals. destruct (run_gates_prefix (rev (b_gates_rev b)) (false :: true :: inp)) as (t & -> & _).
  change ((false :: true :: inp) ++ t) with ([false] ++ true :: (inp ++ t)).
  exact (nthd_app_here [false] (inp ++ t) true).
Qed.

(* a wire that is gate g denotes g applied to its (strictly smaller) operands *)
Lemma den_gate b inp i g :
  inv b -> ins_ok b inp -> nthN (glist b) i = Some g ->
  den inp b (b_shift b + i) =
  (let '(x, y) := gops g in gfun g (den inp b x) (den inp b y)).
Proof.
  intros I Hi Hg. unfold den, wire_vals. fold (glist b).
  assert (Hl : lenN (false :: true :: inp) = b_shift b).
  { rewrite !lenN_cons. unfold ins_ok in Hi. lia. }
  rewrite <- Hl. apply run_gates_nth; [exact Hg|]. rewrite Hl. now apply (inv_wf b I).
Qed.

Lemma lookup_gate b x g :
  inv b -> lookup b x = Ok (Some g) ->
  b_shift b <= x /\ nthN (glist b) (x - b_shift b) = Some g.
Proof.
  intros I. unfold lookup. destruct (N.ltb_spec x (b_shift b)); [discriminate|].
  rewrite (inv_gmap b I). destruct (nthN (glist b) (x - b_shift b)); [|discriminate].
  intros [= ->]. auto.
Qed.

Lemma lookup_ok b x : inv b -> valid b x -> exists og, lookup b x = Ok og.
Proof.
  intros I Hv. unfold lookup. destruct (N.ltb_spec x (b_shift b)); [eauto|].
  rewrite (inv_gmap b I). destruct (nthN_Some (glist b) (x - b_shift b)) as [g ->]; [|eauto].
  rewrite (glist_len b I). unfold valid, counter in Hv. lia.
Qed.

(* operands of a gate are valid and strictly smaller *)
Lemma gate_operands b x g :
  inv b -> b_shift b <= x -> nthN (glist b) (x - b_shift b) = Some g ->
  let '(x1, x2) := gops g in x1 < x /\ x2 < x.
Proof.
  intros I Hx Hg. pose proof (inv_wf b I _ _ Hg) as H.
  destruct (gops g) as [x1 x2]. destruct H. split; lia.
Qed.

Lemma den_lookup b inp x g :
  inv b -> ins_ok b inp -> lookup b x = Ok (Some g) ->
  den inp b x = (let '(x1, x2) := gops g in gfun g (den inp b x1) (den inp b x2)).
Proof.
  intros I Hi Hl. destruct (lookup_gate b x g I Hl) as [Hx Hg].
  replace x with (b_shift b + (x - b_shift b)) at 1 by lia. now apply den_gate.
Qed.

(* ---------------------------------------------------------------- push_gate *)

Lemma cache_get_put m x y w x' y' :
  cache_get (cache_put m x y w) x' y' =
  if (x =? x') && (y =? y') then Some w else cache_get m x' y'.
Proof.
  unfold cache_get, cache_put. rewrite nfind_add.
  destruct (N.eqb_spec x x') as [<-|Hx]; cbn [andb].
  - rewrite nfind_add. destruct (N.eqb_spec y y') as [<-|Hy]; [reflexivity|].
    destruct (nfind x m); [reflexivity|apply nfind_empty].
  - reflexivity.
Qed.

Lemma push_gate_vals b g inp :
  wire_vals inp (snd (push_gate b g)) = wire_vals inp b ++ [gval (wire_vals inp b) g].
Proof.
  unfold push_gate, wire_vals. cbn [snd b_gates_rev rev]. now rewrite run_gates_app.
Qed.

Lemma push_gate_ext b g : inv b -> ext b (snd (push_gate b g)).
Proof.
  intro I. unfold ext. unfold push_gate at 1 2 3 4. cbn [snd b_shift b_inputs b_dedup b_ngates counter].
  repeat split; auto.
  - unfold counter. cbn [b_shift b_ngates]. lia.
  - intros inp w Hi Hv. unfold den. rewrite push_gate_vals. apply nthd_app_l.
    rewrite (wire_vals_len b inp I Hi). exact Hv.
Qed.

Lemma push_gate_sound b g :
  inv b -> (let '(x, y) := gops g in valid b x /\ valid b y) ->
  let '(idx, b') := push_gate b g in
  inv b' /\ ext b b' /\ idx = counter b /\ valid b' idx /\ b_neg b' = b_neg b /\
  (let '(x, y) := gops g in sem_binop b' (gfun g) x y idx).
Proof.
  intros I Hops. pose proof (push_gate_ext b g I) as E.
  destruct (push_gate b g) as [idx b'] eqn:Hp. cbn [snd] in E.
  assert (Hidx : idx = counter b) by (unfold push_gate in Hp; now injection Hp as <- _).
  assert (Hcnt : counter b' = counter b + 1).
  { unfold push_gate in Hp. injection Hp as _ <-. unfold counter. cbn [b_shift b_ngates]. lia. }
  assert (Hgl : glist b' = glist b ++ [g]).
  { unfold push_gate in Hp. injection Hp as _ <-. unfold glist. reflexivity. }
  assert (Hsh : b_shift b' = b_shift b) by apply E.
  assert (Hvi : valid b' idx) by (unfold valid; lia).
  assert (Hsem : let '(x, y) := gops g in sem_binop b' (gfun g) x y idx).
  { destruct (gops g) as [x y] eqn:Hg. destruct Hops as [Hx Hy].
    split; [eapply ext_valid; eauto|]. split; [eapply ext_valid; eauto|]. split; [exact Hvi|].
    intros inp Hi. assert (Hi0 : ins_ok b inp) by (unfold ins_ok in *; congruence).
    rewrite (ext_den _ _ _ _ E Hi0 Hx), (ext_den _ _ _ _ E Hi0 Hy).
    unfold den at 1. replace b' with (snd (push_gate b g)) by now rewrite Hp.
    rewrite push_gate_vals, Hidx, <- (wire_vals_len b inp I Hi0), nthd_app_here.
    destruct g as [a c|a c]; cbn [gops] in Hg; injection Hg as <- <-; reflexivity. }
  assert (Hnegeq : b_neg b' = b_neg b).
  { unfold push_gate in Hp. now injection Hp as _ <-. }
  cut (inv b'); [intro I'; split; [exact I'|]; split; [exact E|]; split; [exact Hidx|];
                 split; [exact Hvi|]; split; [exact Hnegeq|exact Hsem]|].
  (* inv b' *)
  assert (Hold : forall op x y w, sem_binop b op x y w -> sem_binop b' op x y w).
  { intros op x y w (Hx & Hy & Hw & Hd). repeat split; try (eapply ext_valid; eauto).
    intros inp Hi. assert (Hi0 : ins_ok b inp) by (unfold ins_ok in *; congruence).
    rewrite !(ext_den _ _ _ _ E Hi0) by assumption. now apply Hd. }
  constructor.
  - rewrite Hsh. apply I.
  - replace (b_inputs b') with (b_inputs b) by (symmetry; apply E). rewrite Hsh. apply I.
  - unfold push_gate in Hp. injection Hp as _ <-. cbn [b_ngates b_gates_rev].
    rewrite lenN_cons, (inv_len b I). lia.
  - intro i. rewrite Hgl. unfold push_gate in Hp. injection Hp as _ <-. cbn [b_gmap].
    rewrite nfind_add. destruct (N.eqb_spec (b_ngates b) i) as [<-|Hne].
    + rewrite <- (glist_len b I). now rewrite nthN_app_here.
    + rewrite (inv_gmap b I). destruct (N.lt_ge_cases i (lenN (glist b))) as [Hlt|Hge].
      * now rewrite nthN_app_l.
      * rewrite (glist_len b I) in Hge.
        destruct (nthN (glist b) i) eqn:E1; [apply nthN_lt in E1; rewrite (glist_len b I) in E1; lia|].
        destruct (nthN (glist b ++ [g]) i) eqn:E2; [|reflexivity].
        apply nthN_lt in E2. rewrite lenN_app, lenN_cons, lenN_nil, (glist_len b I) in E2. lia.
  - intros i g0. rewrite Hgl, Hsh. intro Hn.
    destruct (N.lt_ge_cases i (lenN (glist b))) as [Hlt|Hge].
    + rewrite nthN_app_l in Hn by exact Hlt. now apply (inv_wf b I).
    + assert (i = lenN (glist b)).
      { apply nthN_lt in Hn. rewrite lenN_app, lenN_cons, lenN_nil in Hn. lia. }
      subst i. rewrite nthN_app_here in Hn. injection Hn as <-.
      rewrite (glist_len b I). destruct (gops g) as [x y]. unfold valid, counter in Hops. exact Hops.
  - intros x y w. unfold push_gate in Hp. injection Hp as _ Hb'. rewrite <- Hb'. cbn [b_cxor].
    rewrite Hb' . destruct (b_dedup b); [|intro H; apply Hold; now apply (inv_cxor b I)].
    destruct g as [a c|a c]; [|intro H; apply Hold; now apply (inv_cxor b I)].
    rewrite cache_get_put. destruct ((a =? x) && (c =? y)) eqn:Eq.
    + apply andb_true_iff in Eq. destruct Eq as [E1 E2]. apply N.eqb_eq in E1, E2. subst.
      intros [= <-]. exact Hsem.
    + intro H. apply Hold. now apply (inv_cxor b I).
  - intros x y w. unfold push_gate in Hp. injection Hp as _ Hb'. rewrite <- Hb'. cbn [b_cand].
    rewrite Hb'. destruct (b_dedup b); [|intro H; apply Hold; now apply (inv_cand b I)].
    destruct g as [a c|a c]; [intro H; apply Hold; now apply (inv_cand b I)|].
    rewrite cache_get_put. destruct ((a =? x) && (c =? y)) eqn:Eq.
    + apply andb_true_iff in Eq. destruct Eq as [E1 E2]. apply N.eqb_eq in E1, E2. subst.
      intros [= <-]. exact Hsem.
    + intro H. apply Hold. now apply (inv_cand b I).
  - intros a n. unfold push_gate in Hp. injection Hp as _ Hb'. rewrite <- Hb'. cbn [b_neg]. rewrite Hb'.
    intro H. destruct (inv_neg b I a n H) as (H2 & Ha & Hn & Hd).
    split; [exact H2|]. split; [eapply ext_valid; eauto|]. split; [eapply ext_valid; eauto|].
    intros inp Hi. assert (Hi0 : ins_ok b inp) by (unfold ins_ok in *; congruence).
    rewrite !(ext_den _ _ _ _ E Hi0) by assumption. now apply Hd.
Qed.

(* ---------------------------------------------------------------- set_negated, caches *)

Lemma set_negated_sound b k v :
  inv b -> 2 <= k -> valid b k -> valid b v ->
  (forall inp, ins_ok b inp -> den inp b v = negb (den inp b k)) ->
  inv (set_negated b k v) /\ ext b (set_negated b k v).
Proof.
  intros I Hk Hvk Hvv Hd. split.
  - destruct I as [I1 I2 I3 I4 I5 I6 I7 I8]. constructor; auto.
    intros a n. unfold set_negated. cbn [b_neg]. rewrite nfind_add.
    destruct (N.eqb_spec k a) as [<-|Hne].
    + intros [= <-]. repeat split; auto.
    + apply I8.
  - unfold ext, set_negated, counter. cbn. repeat split; auto. lia.
Qed.

Lemma get_cached_xor_sound b x y w :
  inv b -> get_cached b (BXor x y) = Some w ->
  valid b w /\ forall inp, ins_ok b inp -> den inp b w = xorb (den inp b x) (den inp b y).
Proof.
  intros I. unfold get_cached. destruct (negb (b_dedup b)); [discriminate|].
  destruct (cache_get (b_cxor b) x y) as [w1|] eqn:E1.
  - intros [= <-]. destruct (inv_cxor b I _ _ _ E1) as (_ & _ & Hw & Hd). auto.
  - intro E2. destruct (inv_cxor b I _ _ _ E2) as (_ & _ & Hw & Hd). split; [exact Hw|].
    intros inp Hi. rewrite (Hd inp Hi). apply xorb_comm.
Qed.

Lemma get_cached_and_sound b x y w :
  inv b -> get_cached b (BAnd x y) = Some w ->
  valid b w /\ forall inp, ins_ok b inp -> den inp b w = andb (den inp b x) (den inp b y).
Proof.
  intros I. unfold get_cached. destruct (negb (b_dedup b)); [discriminate|].
  destruct (cache_get (b_cand b) x y) as [w1|] eqn:E1.
  - intros [= <-]. destruct (inv_cand b I _ _ _ E1) as (_ & _ & Hw & Hd). auto.
  - intro E2. destruct (inv_cand b I _ _ _ E2) as (_ & _ & Hw & Hd). split; [exact Hw|].
    intros inp Hi. rewrite (Hd inp Hi). apply andb_comm.
Qed.

(* ---------------------------------------------------------------- XOR *)

Definition xor_post (b : builder) (x y : N) (p : N * builder) : Prop :=
  let '(r, b') := p in
  inv b' /\ ext b b' /\ valid b' r /\
  forall inp, ins_ok b inp -> den inp b' r = xorb (den inp b x) (den inp b y).

Definition good {A} (P : A -> Prop) (fuel : nat) (m : N) (r : res A) : Prop :=
  match r with
  | Ok a => P a
  | Crash => False
  | OutOfFuel => (fuel <= N.to_nat m)%nat
  end.

Lemma valid_consts b : inv b -> valid b 0 /\ valid b 1.
Proof. intro I. pose proof (inv_shift b I). unfold valid, counter. split; lia. Qed.

Lemma optimize_xor_sound b x y w :
  inv b -> valid b x -> valid b y -> optimize_xor b x y = Some w -> xor_post b x y (w, b).
Proof.
  intros I Hx Hy. unfold optimize_xor, xor_post.
  assert (Hbase : forall w', valid b w' ->
            (forall inp, ins_ok b inp -> den inp b w' = xorb (den inp b x) (den inp b y)) ->
            inv b /\ ext b b /\ valid b w' /\
            forall inp, ins_ok b inp -> den inp b w' = xorb (den inp b x) (den inp b y)).
  { intros w' Hw' Hd'. split; [exact I|]. split; [apply ext_refl|]. split; assumption. }
  destruct (valid_consts b I) as [V0 V1].
  destruct (N.eqb_spec x 0) as [->|Hx0].
  { intros [= <-]. apply Hbase; auto. intros. now rewrite den_const0, xorb_false_l. }
  destruct (N.eqb_spec y 0) as [->|Hy0].
  { intros [= <-]. apply Hbase; auto. intros. rewrite den_const0. now rewrite xorb_false_r. }
  destruct (N.eqb_spec x y) as [->|Hxy].
  { intros [= <-]. apply Hbase; auto. intros. rewrite den_const0. now rewrite xorb_nilpotent. }
  assert (Hc : get_cached b (BXor x y) = Some w -> _) by
    (intro H; destruct (get_cached_xor_sound b x y w I H); apply Hbase; eassumption).
  destruct (nfind x (b_neg b)) as [xn|] eqn:Ex.
  - destruct (inv_neg b I _ _ Ex) as (_ & _ & Hvn & Hd).
    destruct (N.eqb_spec xn y) as [<-|_].
    { intros [= <-]. apply Hbase; auto. intros inp Hi. rewrite den_const1, (Hd inp Hi).
      now destruct (den inp b x). }
    destruct (N.eqb_spec y 1) as [->|_]; [|exact Hc].
    intros [= <-]. apply Hbase; auto. intros inp Hi. rewrite den_const1, (Hd inp Hi).
    now destruct (den inp b x).
  - destruct (nfind y (b_neg b)) as [yn|] eqn:Ey; [|exact Hc].
    destruct (inv_neg b I _ _ Ey) as (_ & _ & Hvn & Hd).
    destruct (N.eqb_spec yn x) as [->|_].
    { intros [= <-]. apply Hbase; auto. intros inp Hi. rewrite den_const1, (Hd inp Hi).
      now destruct (den inp b y). }
    destruct (N.eqb_spec x 1) as [->|_]; [|exact Hc].
    intros [= <-]. apply Hbase; auto. intros inp Hi. rewrite den_const1, (Hd inp Hi).
    now destruct (den inp b y).
Qed.

Lemma optimize_xor_none b x y : optimize_xor b x y = None -> x <> 0 /\ y <> 0 /\ x <> y.
Proof.
  unfold optimize_xor.
  destruct (N.eqb_spec x 0); [discriminate|].
  destruct (N.eqb_spec y 0); [discriminate|].
  destruct (N.eqb_spec x y); [discriminate|]. auto.
Qed.

Lemma final_xor_sound b x y :
  inv b -> valid b x -> valid b y -> x <> 0 -> y <> 0 -> x <> y ->
  xor_post b x y (final_xor b x y).
Proof.
  intros I Hx Hy Hx0 Hy0 Hxy. unfold final_xor.
  pose proof (push_gate_sound b (BXor x y) I (conj Hx Hy)) as Hp.
  destruct (push_gate b (BXor x y)) as [gi b1].
  destruct Hp as (I1 & E1 & Hgi & Hvgi & _ & (Hx1 & Hy1 & _ & Hd1)). cbn [gfun] in Hd1.
  assert (Hgi2 : 2 <= gi).
  { rewrite Hgi. pose proof (inv_shift b I). unfold counter. lia. }
  (* first conditional *)
  assert (S2 : exists b2, (if x =? 1 then set_negated (set_negated b1 y gi) gi y else b1) = b2 /\
             inv b2 /\ ext b1 b2).
  { destruct (N.eqb_spec x 1) as [->|_]; [|exists b1; split; [reflexivity|split; [exact I1|apply ext_refl]]].
    eexists. split; [reflexivity|].
    assert (Hneg : forall inp, ins_ok b1 inp -> den inp b1 gi = negb (den inp b1 y)).
    { intros inp Hi. rewrite (Hd1 inp Hi), den_const1. now destruct (den inp b1 y). }
    assert (Hy2 : 2 <= y) by lia.
    destruct (set_negated_sound b1 y gi I1 Hy2 Hy1 Hvgi Hneg) as [Ia Ea].
    assert (Hneg' : forall inp, ins_ok (set_negated b1 y gi) inp ->
              den inp (set_negated b1 y gi) y = negb (den inp (set_negated b1 y gi) gi)).
    { intros inp Hi. change (den inp (set_negated b1 y gi)) with (den inp b1).
      rewrite (Hneg inp Hi). now rewrite negb_involutive. }
    destruct (set_negated_sound (set_negated b1 y gi) gi y Ia Hgi2
                (ext_valid _ _ _ Ea Hvgi) (ext_valid _ _ _ Ea Hy1) Hneg') as [Ib Eb].
    split; [exact Ib|]. eapply ext_trans; eauto. }
  destruct S2 as (b2 & -> & I2 & E2).
  assert (S3 : exists b3, (if y =? 1 then set_negated (set_negated b2 x gi) gi x else b2) = b3 /\
             inv b3 /\ ext b2 b3).
  { destruct (N.eqb_spec y 1) as [->|_]; [|exists b2; split; [reflexivity|split; [exact I2|apply ext_refl]]].
    eexists. split; [reflexivity|].
    assert (Hvx2 : valid b2 x) by (eapply ext_valid; eauto).
    assert (Hvg2 : valid b2 gi) by (eapply ext_valid; eauto).
    assert (Hneg : forall inp, ins_ok b2 inp -> den inp b2 gi = negb (den inp b2 x)).
    { intros inp Hi. assert (Hi1 : ins_ok b1 inp).
      { unfold ins_ok in *. destruct E2 as (S & _). congruence. }
      rewrite !(ext_den _ _ _ _ E2 Hi1) by assumption.
      rewrite (Hd1 inp Hi1), den_const1. now destruct (den inp b1 x). }
    assert (Hx2 : 2 <= x) by lia.
    destruct (set_negated_sound b2 x gi I2 Hx2 Hvx2 Hvg2 Hneg) as [Ia Ea].
    assert (Hneg' : forall inp, ins_ok (set_negated b2 x gi) inp ->
              den inp (set_negated b2 x gi) x = negb (den inp (set_negated b2 x gi) gi)).
    { intros inp Hi. change (den inp (set_negated b2 x gi)) with (den inp b2).
      rewrite (Hneg inp Hi). now rewrite negb_involutive. }
    destruct (set_negated_sound (set_negated b2 x gi) gi x Ia Hgi2
                (ext_valid _ _ _ Ea Hvg2) (ext_valid _ _ _ Ea Hvx2) Hneg') as [Ib Eb].
    split; [exact Ib|]. eapply ext_trans; eauto. }
  destruct S3 as (b3 & -> & I3 & E3).
  assert (E13 : ext b1 b3) by (eapply ext_trans; eauto).
  unfold xor_post. split; [exact I3|]. split; [eapply ext_trans; eauto|].
  split; [eapply ext_valid; eauto|].
  intros inp Hi. assert (Hi1 : ins_ok b1 inp) by (eapply ext_ins_ok; eauto).
  rewrite (ext_den _ _ _ _ E13 Hi1 Hvgi), (Hd1 inp Hi1).
  now rewrite !(ext_den _ _ _ _ E1 Hi) by assumption.
Qed.
