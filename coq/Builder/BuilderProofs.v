(* C04, builder level: every wire handed back by push_xor / push_and (and the derived
   requests) denotes the requested Boolean function of its operands, for every reachable
   builder state; the explicit recursion fuel never runs out. *)
From GV Require Import Base.Util Base.NMap Builder.Builder Builder.BuilderSem Builder.BuilderSpec.

Definition gops (g : bgate) : N * N := match g with BXor x y | BAnd x y => (x, y) end.
Definition gfun (g : bgate) : bool -> bool -> bool :=
  match g with BXor _ _ => xorb | BAnd _ _ => andb end.
Definition glist (b : builder) : list bgate := rev (b_gates_rev b).

(* ---------------------------------------------------------------- run_gates *)

Lemma nthd_app_l l r w : w < lenN l -> nthd (l ++ r) w = nthd l w.
Proof. intro H. unfold nthd. now rewrite nthN_app_l. Qed.

Lemma nthd_app_here l r v : nthd (l ++ v :: r) (lenN l) = v.
Proof. unfold nthd. now rewrite nthN_app_here. Qed.

Lemma run_gates_app gs1 : forall acc gs2,
  run_gates acc (gs1 ++ gs2) = run_gates (run_gates acc gs1) gs2.
Proof. induction gs1 as [|g r IH]; intros acc gs2; cbn [app run_gates]; auto. Qed.

Lemma run_gates_prefix gs : forall acc, exists t,
  run_gates acc gs = acc ++ t /\ lenN t = lenN gs.
Proof.
  induction gs as [|g r IH]; intro acc; cbn [run_gates].
  - exists []. now rewrite app_nil_r.
  - destruct (IH (acc ++ [gval acc g])) as (t & -> & Hl).
    exists (gval acc g :: t). rewrite <- app_assoc. split; [reflexivity|].
    rewrite !lenN_cons. lia.
Qed.

Lemma run_gates_len gs acc : lenN (run_gates acc gs) = lenN acc + lenN gs.
Proof. destruct (run_gates_prefix gs acc) as (t & -> & Hl). rewrite lenN_app. lia. Qed.

Lemma gval_ext acc t g :
  (let '(x, y) := gops g in x < lenN acc /\ y < lenN acc) -> gval (acc ++ t) g = gval acc g.
Proof.
  destruct g as [x y|x y]; cbn [gops gval]; intros [Hx Hy]; now rewrite !nthd_app_l.
Qed.

(* value of the wire defined by the i-th gate *)
Lemma run_gates_nth gs : forall acc i g,
  nthN gs i = Some g ->
  (let '(x, y) := gops g in x < lenN acc + i /\ y < lenN acc + i) ->
  nthd (run_gates acc gs) (lenN acc + i) =
  (let '(x, y) := gops g in gfun g (nthd (run_gates acc gs) x) (nthd (run_gates acc gs) y)).
Proof.
  intros acc i g Hi Hwf.
  rewrite nthN_spec in Hi. apply nth_error_split in Hi. destruct Hi as (pre & post & -> & Hlen).
  rewrite run_gates_app. cbn [run_gates].
  set (acc1 := run_gates acc pre).
  assert (Hl1 : lenN acc1 = lenN acc + i).
  { unfold acc1. rewrite run_gates_len. unfold lenN. lia. }
  destruct (run_gates_prefix post (acc1 ++ [gval acc1 g])) as (t & -> & _).
  rewrite <- app_assoc. cbn [app]. rewrite <- Hl1, nthd_app_here.
  destruct g as [x y|x y]; cbn [gops gfun gval] in *; destruct Hwf as [Hx Hy];
    rewrite !nthd_app_l by lia; reflexivity.
Qed.

(* ---------------------------------------------------------------- the invariant *)

Definition sem_binop (b : builder) (op : bool -> bool -> bool) (x y w : N) : Prop :=
  valid b x /\ valid b y /\ valid b w /\
  forall inp, ins_ok b inp -> den inp b w = op (den inp b x) (den inp b y).

Record inv (b : builder) : Prop := {
  inv_shift : 2 <= b_shift b;
  inv_inputs : b_shift b = 2 + sumN (b_inputs b);
  inv_len : b_ngates b = lenN (b_gates_rev b);
  inv_gmap : forall i, nfind i (b_gmap b) = nthN (glist b) i;
  inv_wf : forall i g, nthN (glist b) i = Some g ->
           let '(x, y) := gops g in x < b_shift b + i /\ y < b_shift b + i;
  inv_cxor : forall x y w, cache_get (b_cxor b) x y = Some w -> sem_binop b xorb x y w;
  inv_cand : forall x y w, cache_get (b_cand b) x y = Some w -> sem_binop b andb x y w;
  inv_neg : forall a n, nfind a (b_neg b) = Some n ->
            2 <= a /\ valid b a /\ valid b n /\
            forall inp, ins_ok b inp -> den inp b n = negb (den inp b a)
}.

Lemma glist_len b : inv b -> lenN (glist b) = b_ngates b.
Proof. intros I. unfold glist, lenN. rewrite rev_length. rewrite (inv_len b I). reflexivity. Qed.

Lemma wire_vals_len b inp : inv b -> ins_ok b inp -> lenN (wire_vals inp b) = counter b.
Proof.
  intros I Hi. unfold wire_vals. fold (glist b). rewrite run_gates_len, (glist_len b I).
  rewrite !lenN_cons. unfold ins_ok in Hi. unfold counter. lia.
Qed.

Lemma den_const0 b inp : den inp b 0 = false.
Proof.
  unfold den, wire_vals. destruct (run_gates_prefix (rev (b_gates_rev b)) (false :: true :: inp)) as (t & -> & _).
  reflexivity.
Qed.

Lemma den_const1 b inp : den inp b 1 = true.
Proof.
  unfold den, wire_vals. destruct (run_gates_prefix (rev (b_gates_rev b)) (false :: true :: inp)) as (t & -> & _).
  change ((false :: true :: inp) ++ t) with ([false] ++ true :: (inp ++ t)).
  exact (nthd_app_here [false] (inp ++ t) true).
Qed.

(* a wire that is gate g denotes g applied to its (strictly smaller) operands *)
Lemma den_gate b inp i g :
  inv b -> ins_ok b inp -> nthN (glist b) i = Some g ->
  den inp b (b_shift b + i) =
  (let '(x, y) := gops g in gfun g (den inp b x) (den inp b y)).
Proof.
  intros I Hi Hg. unfold den, wire_vals. fold (glist b).
  assert (Hl : lenN (false :: true :: inp) = b_shift b).
  { rewrite !lenN_cons. unfold ins_ok in Hi. lia. }
  rewrite <- Hl. apply run_gates_nth; [exact Hg|]. rewrite Hl. now apply (inv_wf b I).
Qed.

Lemma lookup_gate b x g :
  inv b -> lookup b x = Ok (Some g) ->
  b_shift b <= x /\ nthN (glist b) (x - b_shift b) = Some g.
Proof.
  intros I. unfold lookup. destruct (N.ltb_spec x (b_shift b)); [discriminate|].
  rewrite (inv_gmap b I). destruct (nthN (glist b) (x - b_shift b)); [|discriminate].
  intros [= ->]. auto.
Qed.

Lemma lookup_ok b x : inv b -> valid b x -> exists og, lookup b x = Ok og.
Proof.
  intros I Hv. unfold lookup. destruct (N.ltb_spec x (b_shift b)); [eauto|].
  rewrite (inv_gmap b I). destruct (nthN_Some (glist b) (x - b_shift b)) as [g ->]; [|eauto].
  rewrite (glist_len b I). unfold valid, counter in Hv. lia.
Qed.

(* operands of a gate are valid and strictly smaller *)
Lemma gate_operands b x g :
  inv b -> b_shift b <= x -> nthN (glist b) (x - b_shift b) = Some g ->
  let '(x1, x2) := gops g in x1 < x /\ x2 < x.
Proof.
  intros I Hx Hg. pose proof (inv_wf b I _ _ Hg) as H.
  destruct (gops g) as [x1 x2]. destruct H. split; lia.
Qed.

Lemma den_lookup b inp x g :
  inv b -> ins_ok b inp -> lookup b x = Ok (Some g) ->
  den inp b x = (let '(x1, x2) := gops g in gfun g (den inp b x1) (den inp b x2)).
Proof.
  intros I Hi Hl. destruct (lookup_gate b x g I Hl) as [Hx Hg].
  replace x with (b_shift b + (x - b_shift b)) at 1 by lia. now apply den_gate.
Qed.

(* ---------------------------------------------------------------- push_gate *)

Lemma cache_get_put m x y w x' y' :
  cache_get (cache_put m x y w) x' y' =
  if (x =? x') && (y =? y') then Some w else cache_get m x' y'.
Proof.
  unfold cache_get, cache_put. rewrite nfind_add.
  destruct (N.eqb_spec x x') as [<-|Hx]; cbn [andb].
  - rewrite nfind_add. destruct (N.eqb_spec y y') as [<-|Hy]; [reflexivity|].
    destruct (nfind x m); [reflexivity|apply nfind_empty].
  - reflexivity.
Qed.

Lemma push_gate_vals b g inp :
  wire_vals inp (snd (push_gate b g)) = wire_vals inp b ++ [gval (wire_vals inp b) g].
Proof.
  unfold push_gate, wire_vals. cbn [snd b_gates_rev rev]. now rewrite run_gates_app.
Qed.

Lemma push_gate_ext b g : inv b -> ext b (snd (push_gate b g)).
Proof.
  intro I. unfold ext. unfold push_gate at 1 2 3 4. cbn [snd b_shift b_inputs b_dedup b_ngates counter].
  repeat split; auto.
  - unfold counter. cbn [b_shift b_ngates]. lia.
  - intros inp w Hi Hv. unfold den. rewrite push_gate_vals. apply nthd_app_l.
    rewrite (wire_vals_len b inp I Hi). exact Hv.
Qed.

Lemma push_gate_sound b g :
  inv b -> (let '(x, y) := gops g in valid b x /\ valid b y) ->
  let '(idx, b') := push_gate b g in
  inv b' /\ ext b b' /\ idx = counter b /\ valid b' idx /\ b_neg b' = b_neg b /\
  (let '(x, y) := gops g in sem_binop b' (gfun g) x y idx).
Proof.
  intros I Hops. pose proof (push_gate_ext b g I) as E.
  destruct (push_gate b g) as [idx b'] eqn:Hp. cbn [snd] in E.
  assert (Hidx : idx = counter b) by (unfold push_gate in Hp; now injection Hp as <- _).
  assert (Hcnt : counter b' = counter b + 1).
  { unfold push_gate in Hp. injection Hp as _ <-. unfold counter. cbn [b_shift b_ngates]. lia. }
  assert (Hgl : glist b' = glist b ++ [g]).
  { unfold push_gate in Hp. injection Hp as _ <-. unfold glist. reflexivity. }
  assert (Hsh : b_shift b' = b_shift b) by apply E.
  assert (Hvi : valid b' idx) by (unfold valid; lia).
  assert (Hsem : let '(x, y) := gops g in sem_binop b' (gfun g) x y idx).
  { destruct (gops g) as [x y] eqn:Hg. destruct Hops as [Hx Hy].
    split; [eapply ext_valid; eauto|]. split; [eapply ext_valid; eauto|]. split; [exact Hvi|].
    intros inp Hi. assert (Hi0 : ins_ok b inp) by (unfold ins_ok in *; congruence).
    rewrite (ext_den _ _ _ _ E Hi0 Hx), (ext_den _ _ _ _ E Hi0 Hy).
    unfold den at 1. replace b' with (snd (push_gate b g)) by now rewrite Hp.
    rewrite push_gate_vals, Hidx, <- (wire_vals_len b inp I Hi0), nthd_app_here.
    destruct g as [a c|a c]; cbn [gops] in Hg; injection Hg as <- <-; reflexivity. }
  assert (Hnegeq : b_neg b' = b_neg b).
  { unfold push_gate in Hp. now injection Hp as _ <-. }
  cut (inv b'); [intro I'; split; [exact I'|]; split; [exact E|]; split; [exact Hidx|];
                 split; [exact Hvi|]; split; [exact Hnegeq|exact Hsem]|].
  (* inv b' *)
  assert (Hold : forall op x y w, sem_binop b op x y w -> sem_binop b' op x y w).
  { intros op x y w (Hx & Hy & Hw & Hd). repeat split; try (eapply ext_valid; eauto).
    intros inp Hi. assert (Hi0 : ins_ok b inp) by (unfold ins_ok in *; congruence).
    rewrite !(ext_den _ _ _ _ E Hi0) by assumption. now apply Hd. }
  constructor.
  - rewrite Hsh. apply I.
  - replace (b_inputs b') with (b_inputs b) by (symmetry; apply E). rewrite Hsh. apply I.
  - unfold push_gate in Hp. injection Hp as _ <-. cbn [b_ngates b_gates_rev].
    rewrite lenN_cons, (inv_len b I). lia.
  - intro i. rewrite Hgl. unfold push_gate in Hp. injection Hp as _ <-. cbn [b_gmap].
    rewrite nfind_add. destruct (N.eqb_spec (b_ngates b) i) as [<-|Hne].
    + rewrite <- (glist_len b I). now rewrite nthN_app_here.
    + rewrite (inv_gmap b I). destruct (N.lt_ge_cases i (lenN (glist b))) as [Hlt|Hge].
      * now rewrite nthN_app_l.
      * rewrite (glist_len b I) in Hge.
        destruct (nthN (glist b) i) eqn:E1; [apply nthN_lt in E1; rewrite (glist_len b I) in E1; lia|].
        destruct (nthN (glist b ++ [g]) i) eqn:E2; [|reflexivity].
        apply nthN_lt in E2. rewrite lenN_app, lenN_cons, lenN_nil, (glist_len b I) in E2. lia.
  - intros i g0. rewrite Hgl, Hsh. intro Hn.
    destruct (N.lt_ge_cases i (lenN (glist b))) as [Hlt|Hge].
    + rewrite nthN_app_l in Hn by exact Hlt. now apply (inv_wf b I).
    + assert (i = lenN (glist b)).
      { apply nthN_lt in Hn. rewrite lenN_app, lenN_cons, lenN_nil in Hn. lia. }
      subst i. rewrite nthN_app_here in Hn. injection Hn as <-.
      rewrite (glist_len b I). destruct (gops g) as [x y]. unfold valid, counter in Hops. exact Hops.
  - intros x y w. unfold push_gate in Hp. injection Hp as _ Hb'. rewrite <- Hb'. cbn [b_cxor].
    rewrite Hb' . destruct (b_dedup b); [|intro H; apply Hold; now apply (inv_cxor b I)].
    destruct g as [a c|a c]; [|intro H; apply Hold; now apply (inv_cxor b I)].
    rewrite cache_get_put. destruct ((a =? x) && (c =? y)) eqn:Eq.
    + apply andb_true_iff in Eq. destruct Eq as [E1 E2]. apply N.eqb_eq in E1, E2. subst.
      intros [= <-]. exact Hsem.
    + intro H. apply Hold. now apply (inv_cxor b I).
  - intros x y w. unfold push_gate in Hp. injection Hp as _ Hb'. rewrite <- Hb'. cbn [b_cand].
    rewrite Hb'. destruct (b_dedup b); [|intro H; apply Hold; now apply (inv_cand b I)].
    destruct g as [a c|a c]; [intro H; apply Hold; now apply (inv_cand b I)|].
    rewrite cache_get_put. destruct ((a =? x) && (c =? y)) eqn:Eq.
    + apply andb_true_iff in Eq. destruct Eq as [E1 E2]. apply N.eqb_eq in E1, E2. subst.
      intros [= <-]. exact Hsem.
    + intro H. apply Hold. now apply (inv_cand b I).
  - intros a n. unfold push_gate in Hp. injection Hp as _ Hb'. rewrite <- Hb'. cbn [b_neg]. rewrite Hb'.
    intro H. destruct (inv_neg b I a n H) as (H2 & Ha & Hn & Hd).
    split; [exact H2|]. split; [eapply ext_valid; eauto|]. split; [eapply ext_valid; eauto|].
    intros inp Hi. assert (Hi0 : ins_ok b inp) by (unfold ins_ok in *; congruence).
    rewrite !(ext_den _ _ _ _ E Hi0) by assumption. now apply Hd.
Qed.

(* ---------------------------------------------------------------- set_negated, caches *)

Lemma set_negated_sound b k v :
  inv b -> 2 <= k -> valid b k -> valid b v ->
  (forall inp, ins_ok b inp -> den inp b v = negb (den inp b k)) ->
  inv (set_negated b k v) /\ ext b (set_negated b k v).
Proof.
  intros I Hk Hvk Hvv Hd. split.
  - destruct I as [I1 I2 I3 I4 I5 I6 I7 I8]. constructor; auto.
    intros a n. unfold set_negated. cbn [b_neg]. rewrite nfind_add.
    destruct (N.eqb_spec k a) as [<-|Hne].
    + intros [= <-]. repeat split; auto.
    + apply I8.
  - unfold ext, set_negated, counter. cbn. repeat split; auto. lia.
Qed.

Lemma get_cached_xor_sound b x y w :
  inv b -> get_cached b (BXor x y) = Some w ->
  valid b w /\ forall inp, ins_ok b inp -> den inp b w = xorb (den inp b x) (den inp b y).
Proof.
  intros I. unfold get_cached. destruct (negb (b_dedup b)); [discriminate|].
  destruct (cache_get (b_cxor b) x y) as [w1|] eqn:E1.
  - intros [= <-]. destruct (inv_cxor b I _ _ _ E1) as (_ & _ & Hw & Hd). auto.
  - intro E2. destruct (inv_cxor b I _ _ _ E2) as (_ & _ & Hw & Hd). split; [exact Hw|].
    intros inp Hi. rewrite (Hd inp Hi). apply xorb_comm.
Qed.

Lemma get_cached_and_sound b x y w :
  inv b -> get_cached b (BAnd x y) = Some w ->
  valid b w /\ forall inp, ins_ok b inp -> den inp b w = andb (den inp b x) (den inp b y).
Proof.
  intros I. unfold get_cached. destruct (negb (b_dedup b)); [discriminate|].
  destruct (cache_get (b_cand b) x y) as [w1|] eqn:E1.
  - intros [= <-]. destruct (inv_cand b I _ _ _ E1) as (_ & _ & Hw & Hd). auto.
  - intro E2. destruct (inv_cand b I _ _ _ E2) as (_ & _ & Hw & Hd). split; [exact Hw|].
    intros inp Hi. rewrite (Hd inp Hi). apply andb_comm.
Qed.

(* ---------------------------------------------------------------- XOR *)

Definition xor_post (b : builder) (x y : N) (p : N * builder) : Prop :=
  let '(r, b') := p in
  inv b' /\ ext b b' /\ valid b' r /\
  forall inp, ins_ok b inp -> den inp b' r = xorb (den inp b x) (den inp b y).

Definition good {A} (P : A -> Prop) (fuel : nat) (m : N) (r : res A) : Prop :=
  match r with
  | Ok a => P a
  | Crash => False
  | OutOfFuel => (fuel <= N.to_nat m)%nat
  end.

Lemma valid_consts b : inv b -> valid b 0 /\ valid b 1.
Proof. intro I. pose proof (inv_shift b I). unfold valid, counter. split; lia. Qed.

Lemma optimize_xor_sound b x y w :
  inv b -> valid b x -> valid b y -> optimize_xor b x y = Some w -> xor_post b x y (w, b).
Proof.
  intros I Hx Hy. unfold optimize_xor, xor_post.
  assert (Hbase : forall w', valid b w' ->
            (forall inp, ins_ok b inp -> den inp b w' = xorb (den inp b x) (den inp b y)) ->
            inv b /\ ext b b /\ valid b w' /\
            forall inp, ins_ok b inp -> den inp b w' = xorb (den inp b x) (den inp b y)).
  { intros w' Hw' Hd'. split; [exact I|]. split; [apply ext_refl|]. split; assumption. }
  destruct (valid_consts b I) as [V0 V1].
  destruct (N.eqb_spec x 0) as [->|Hx0].
  { intros [= <-]. apply Hbase; auto. intros. now rewrite den_const0, xorb_false_l. }
  destruct (N.eqb_spec y 0) as [->|Hy0].
  { intros [= <-]. apply Hbase; auto. intros. rewrite den_const0. now rewrite xorb_false_r. }
  destruct (N.eqb_spec x y) as [->|Hxy].
  { intros [= <-]. apply Hbase; auto. intros. rewrite den_const0. now rewrite xorb_nilpotent. }
  assert (Hc : get_cached b (BXor x y) = Some w -> _) by
    (intro H; destruct (get_cached_xor_sound b x y w I H); apply Hbase; eassumption).
  destruct (nfind x (b_neg b)) as [xn|] eqn:Ex.
  - destruct (inv_neg b I _ _ Ex) as (_ & _ & Hvn & Hd).
    destruct (N.eqb_spec xn y) as [<-|_].
    { intros [= <-]. apply Hbase; auto. intros inp Hi. rewrite den_const1, (Hd inp Hi).
      now destruct (den inp b x). }
    destruct (N.eqb_spec y 1) as [->|_]; [|exact Hc].
    intros [= <-]. apply Hbase; auto. intros inp Hi. rewrite den_const1, (Hd inp Hi).
    now destruct (den inp b x).
  - destruct (nfind y (b_neg b)) as [yn|] eqn:Ey; [|exact Hc].
    destruct (inv_neg b I _ _ Ey) as (_ & _ & Hvn & Hd).
    destruct (N.eqb_spec yn x) as [->|_].
    { intros [= <-]. apply Hbase; auto. intros inp Hi. rewrite den_const1, (Hd inp Hi).
      now destruct (den inp b y). }
    destruct (N.eqb_spec x 1) as [->|_]; [|exact Hc].
    intros [= <-]. apply Hbase; auto. intros inp Hi. rewrite den_const1, (Hd inp Hi).
    now destruct (den inp b y).
Qed.

Lemma optimize_xor_none b x y : optimize_xor b x y = None -> x <> 0 /\ y <> 0 /\ x <> y.
Proof.
  unfold optimize_xor.
  destruct (N.eqb_spec x 0); [discriminate|].
  destruct (N.eqb_spec y 0); [discriminate|].
  destruct (N.eqb_spec x y); [discriminate|]. auto.
Qed.

Lemma final_xor_sound b x y :
  inv b -> valid b x -> valid b y -> x <> 0 -> y <> 0 -> x <> y ->
  xor_post b x y (final_xor b x y).
Proof.
  intros I Hx Hy Hx0 Hy0 Hxy. unfold final_xor.
  pose proof (push_gate_sound b (BXor x y) I (conj Hx Hy)) as Hp.
  destruct (push_gate b (BXor x y)) as [gi b1].
  destruct Hp as (I1 & E1 & Hgi & Hvgi & _ & (Hx1 & Hy1 & _ & Hd1)). cbn [gfun] in Hd1.
  assert (Hgi2 : 2 <= gi).
  { rewrite Hgi. pose proof (inv_shift b I). unfold counter. lia. }
  (* first conditional *)
  assert (S2 : exists b2, (if x =? 1 then set_negated (set_negated b1 y gi) gi y else b1) = b2 /\
             inv b2 /\ ext b1 b2).
  { destruct (N.eqb_spec x 1) as [->|_]; [|exists b1; split; [reflexivity|split; [exact I1|apply ext_refl]]].
    eexists. split; [reflexivity|].
    assert (Hneg : forall inp, ins_ok b1 inp -> den inp b1 gi = negb (den inp b1 y)).
    { intros inp Hi. rewrite (Hd1 inp Hi), den_const1. now destruct (den inp b1 y). }
    assert (Hy2 : 2 <= y) by lia.
    destruct (set_negated_sound b1 y gi I1 Hy2 Hy1 Hvgi Hneg) as [Ia Ea].
    assert (Hneg' : forall inp, ins_ok (set_negated b1 y gi) inp ->
              den inp (set_negated b1 y gi) y = negb (den inp (set_negated b1 y gi) gi)).
    { intros inp Hi. change (den inp (set_negated b1 y gi)) with (den inp b1).
      rewrite (Hneg inp Hi). now rewrite negb_involutive. }
    destruct (set_negated_sound (set_negated b1 y gi) gi y Ia Hgi2
                (ext_valid _ _ _ Ea Hvgi) (ext_valid _ _ _ Ea Hy1) Hneg') as [Ib Eb].
    split; [exact Ib|]. eapply ext_trans; eauto. }
  destruct S2 as (b2 & -> & I2 & E2).
  assert (S3 : exists b3, (if y =? 1 then set_negated (set_negated b2 x gi) gi x else b2) = b3 /\
             inv b3 /\ ext b2 b3).
  { destruct (N.eqb_spec y 1) as [->|_]; [|exists b2; split; [reflexivity|split; [exact I2|apply ext_refl]]].
    eexists. split; [reflexivity|].
    assert (Hvx2 : valid b2 x) by (eapply ext_valid; eauto).
    assert (Hvg2 : valid b2 gi) by (eapply ext_valid; eauto).
    assert (Hneg : forall inp, ins_ok b2 inp -> den inp b2 gi = negb (den inp b2 x)).
    { intros inp Hi. assert (Hi1 : ins_ok b1 inp).
      { unfold ins_ok in *. destruct E2 as (S & _). congruence. }
      rewrite !(ext_den _ _ _ _ E2 Hi1) by assumption.
      rewrite (Hd1 inp Hi1), den_const1. now destruct (den inp b1 x). }
    assert (Hx2 : 2 <= x) by lia.
    destruct (set_negated_sound b2 x gi I2 Hx2 Hvx2 Hvg2 Hneg) as [Ia Ea].
    assert (Hneg' : forall inp, ins_ok (set_negated b2 x gi) inp ->
              den inp (set_negated b2 x gi) x = negb (den inp (set_negated b2 x gi) gi)).
    { intros inp Hi. change (den inp (set_negated b2 x gi)) with (den inp b2).
      rewrite (Hneg inp Hi). now rewrite negb_involutive. }
    destruct (set_negated_sound (set_negated b2 x gi) gi x Ia Hgi2
                (ext_valid _ _ _ Ea Hvg2) (ext_valid _ _ _ Ea Hvx2) Hneg') as [Ib Eb].
    split; [exact Ib|]. eapply ext_trans; eauto. }
  destruct S3 as (b3 & -> & I3 & E3).
  assert (E13 : ext b1 b3) by (eapply ext_trans; eauto).
  unfold xor_post. split; [exact I3|]. split; [eapply ext_trans; eauto|].
  split; [eapply ext_valid; eauto|].
  intros inp Hi. assert (Hi1 : ins_ok b1 inp) by (eapply ext_ins_ok; eauto).
  rewrite (ext_den _ _ _ _ E13 Hi1 Hvgi), (Hd1 inp Hi1).
  now rewrite !(ext_den _ _ _ _ E1 Hi) by assumption.
Qed.

Lemma gate_facts b x g :
  inv b -> valid b x -> lookup b x = Ok (Some g) ->
  let '(x1, x2) := gops g in
  x1 < x /\ x2 < x /\ valid b x1 /\ valid b x2 /\ b_shift b <= x /\
  forall inp, ins_ok b inp -> den inp b x = gfun g (den inp b x1) (den inp b x2).
Proof.
  intros I Hv Hl. destruct (lookup_gate b x g I Hl) as [Hs Hg].
  pose proof (gate_operands b x g I Hs Hg) as Hops.
  pose proof (fun inp Hi => den_lookup b inp x g I Hi Hl) as Hd.
  destruct (gops g) as [x1 x2]. destruct Hops as [H1 H2].
  unfold valid in *. repeat split; auto; lia.
Qed.

Ltac den_cases :=
  repeat match goal with
         | |- context [den ?i ?b ?w] => destruct (den i b w)
         end; reflexivity.

Section XorSound.
  Variable rec : builder -> N -> N -> res (N * builder).
  Variable fuel' : nat.
  Variable b : builder.
  Variables x y : N.
  Hypothesis I : inv b.
  Hypothesis Hx : valid b x.
  Hypothesis Hy : valid b y.
  Hypothesis Hx0 : x <> 0.
  Hypothesis Hy0 : y <> 0.
  Hypothesis Hxy : x <> y.
  Hypothesis Hrec : forall x' y', valid b x' -> valid b y' -> x' + y' < x + y ->
    good (xor_post b x' y') fuel' (x' + y') (rec b x' y').

  Lemma good_rec x' y' :
    valid b x' -> valid b y' -> x' + y' < x + y ->
    (forall inp, ins_ok b inp ->
       xorb (den inp b x') (den inp b y') = xorb (den inp b x) (den inp b y)) ->
    good (xor_post b x y) (S fuel') (x + y) (rec b x' y').
  Proof.
    intros Hx' Hy' Hm Ht. pose proof (Hrec x' y' Hx' Hy' Hm) as H.
    destruct (rec b x' y') as [[r b']| |]; cbn [good xor_post] in *.
    - destruct H as (I' & E & Hv & Hd). split; [exact I'|]. split; [exact E|]. split; [exact Hv|].
      intros inp Hi. rewrite (Hd inp Hi). now apply Ht.
    - exact H.
    - lia.
  Qed.

  Lemma good_ret w :
    valid b w ->
    (forall inp, ins_ok b inp -> den inp b w = xorb (den inp b x) (den inp b y)) ->
    good (xor_post b x y) (S fuel') (x + y) (Ok (w, b)).
  Proof.
    intros Hw Hd. cbn [good xor_post]. split; [exact I|]. split; [apply ext_refl|]. split; assumption.
  Qed.

  Lemma good_final : good (xor_post b x y) (S fuel') (x + y) (Ok (final_xor b x y)).
  Proof. cbn [good]. now apply final_xor_sound. Qed.

  Lemma xstage3_sound gy :
    lookup b y = Ok gy ->
    good (xor_post b x y) (S fuel') (x + y) (xstage3 rec b x y gy).
  Proof.
    intro Ly. unfold xstage3.
    destruct gy as [[y1 y2|y1 y2]|]; try apply good_final.
    pose proof (gate_facts b y _ I Hy Ly) as F. cbn [gops gfun] in F.
    destruct F as (L1 & L2 & V1 & V2 & Hs & Hd).
    destruct (N.eqb_spec x y1) as [<-|N1].
    { apply good_ret; [exact V2|]. intros inp Hi. rewrite (Hd inp Hi). den_cases. }
    destruct (N.eqb_spec x y2) as [<-|N2].
    { apply good_ret; [exact V1|]. intros inp Hi. rewrite (Hd inp Hi). den_cases. }
    destruct (nfind x (b_neg b)) as [xn|] eqn:Ex; [|apply good_final].
    destruct (inv_neg b I _ _ Ex) as (Hx2 & _ & _ & Hdn).
    destruct (valid_consts b I) as [_ V1c].
    destruct (N.eqb_spec xn y1) as [->|_].
    { apply good_rec; auto; [lia|]. intros inp Hi.
      rewrite (Hd inp Hi), den_const1. rewrite (Hdn inp Hi). den_cases. }
    destruct (N.eqb_spec xn y2) as [->|_]; [|apply good_final].
    apply good_rec; auto; [lia|]. intros inp Hi.
    rewrite (Hd inp Hi), den_const1. rewrite (Hdn inp Hi). den_cases.
  Qed.

  Lemma xstage2_sound gx gy :
    lookup b x = Ok gx -> lookup b y = Ok gy ->
    good (xor_post b x y) (S fuel') (x + y) (xstage2 rec b x y gx gy).
  Proof.
    intros Lx Ly. unfold xstage2.
    destruct gx as [[x1 x2|x1 x2]|]; try now apply xstage3_sound.
    pose proof (gate_facts b x _ I Hx Lx) as F. cbn [gops gfun] in F.
    destruct F as (L1 & L2 & V1 & V2 & Hs & Hd).
    destruct (N.eqb_spec x1 y) as [->|N1].
    { apply good_ret; [exact V2|]. intros inp Hi. rewrite (Hd inp Hi). den_cases. }
    destruct (N.eqb_spec x2 y) as [->|N2].
    { apply good_ret; [exact V1|]. intros inp Hi. rewrite (Hd inp Hi). den_cases. }
    destruct (nfind y (b_neg b)) as [yn|] eqn:Ey; [|now apply xstage3_sound].
    destruct (inv_neg b I _ _ Ey) as (Hy2 & _ & _ & Hdn).
    destruct (valid_consts b I) as [_ V1c].
    destruct (N.eqb_spec x1 yn) as [->|_].
    { apply good_rec; auto; [lia|]. intros inp Hi.
      rewrite (Hd inp Hi), den_const1. rewrite (Hdn inp Hi). den_cases. }
    destruct (N.eqb_spec x2 yn) as [->|_]; [|now apply xstage3_sound].
    apply good_rec; auto; [lia|]. intros inp Hi.
    rewrite (Hd inp Hi), den_const1. rewrite (Hdn inp Hi). den_cases.
  Qed.

  (* every arrangement lists the operands of x and of y *)
  Definition arr_ok (a : N * N * N * N) : Prop :=
    let '(a1, a2, b1, b2) := a in
    valid b a1 /\ valid b a2 /\ valid b b1 /\ valid b b2 /\
    forall inp, ins_ok b inp ->
      den inp b x = andb (den inp b a1) (den inp b a2) /\
      den inp b y = andb (den inp b b1) (den inp b b2).

  Lemma find_cached_and_xor_sound arr w :
    Forall arr_ok arr -> find_cached_and_xor b arr = Some w ->
    valid b w /\ forall inp, ins_ok b inp -> den inp b w = xorb (den inp b x) (den inp b y).
  Proof.
    induction 1 as [|[[[a1 a2] b1] b2] r Ha _ IH]; cbn [find_cached_and_xor]; [discriminate|].
    destruct Ha as (_ & _ & _ & _ & Hd).
    destruct (N.eqb_spec a1 b1) as [<-|_]; [|exact IH].
    destruct (get_cached b (BXor a2 b2)) as [t|] eqn:Et; [|exact IH].
    destruct (get_cached b (BAnd a1 t)) as [w'|] eqn:Ew; [|exact IH].
    intros [= <-]. destruct (get_cached_xor_sound _ _ _ _ I Et) as [_ Hdt].
    destruct (get_cached_and_sound _ _ _ _ I Ew) as [Hvw Hdw]. split; [exact Hvw|].
    intros inp Hi. destruct (Hd inp Hi) as [-> ->]. rewrite (Hdw inp Hi), (Hdt inp Hi). den_cases.
  Qed.

  Lemma find_common_sound arr a1 a2 b2 :
    Forall arr_ok arr -> find_common arr = Some (a1, a2, b2) ->
    valid b a1 /\ valid b a2 /\ valid b b2 /\
    forall inp, ins_ok b inp ->
      xorb (den inp b x) (den inp b y) = andb (den inp b a1) (xorb (den inp b a2) (den inp b b2)).
  Proof.
    induction 1 as [|[[[c1 c2] d1] d2] r Ha _ IH]; cbn [find_common]; [discriminate|].
    destruct (N.eqb_spec c1 d1) as [<-|_]; [|exact IH].
    intros [= <- <- <-]. destruct Ha as (H1 & H2 & _ & H4 & Hd). repeat split; auto.
    intros inp Hi. destruct (Hd inp Hi) as [-> ->]. den_cases.
  Qed.

  Lemma xstage1_sound gx gy :
    lookup b x = Ok gx -> lookup b y = Ok gy ->
    good (xor_post b x y) (S fuel') (x + y) (xstage1 rec b x y gx gy).
  Proof.
    intros Lx Ly. unfold xstage1.
    destruct gx as [[x1 x2|x1 x2]|]; try now apply xstage2_sound.
    - (* x is an XOR gate *)
      destruct gy as [[y1 y2|y1 y2]|]; try now apply xstage2_sound.
      pose proof (gate_facts b x _ I Hx Lx) as F. cbn [gops gfun] in F.
      destruct F as (Lx1 & Lx2 & Vx1 & Vx2 & _ & Hdx).
      pose proof (gate_facts b y _ I Hy Ly) as F. cbn [gops gfun] in F.
      destruct F as (Ly1 & Ly2 & Vy1 & Vy2 & _ & Hdy).
      destruct (N.eqb_spec x1 y1) as [->|_].
      { apply good_rec; auto; [lia|]. intros inp Hi. rewrite (Hdx inp Hi), (Hdy inp Hi). den_cases. }
      destruct (N.eqb_spec x1 y2) as [->|_].
      { apply good_rec; auto; [lia|]. intros inp Hi. rewrite (Hdx inp Hi), (Hdy inp Hi). den_cases. }
      destruct (N.eqb_spec x2 y1) as [->|_].
      { apply good_rec; auto; [lia|]. intros inp Hi. rewrite (Hdx inp Hi), (Hdy inp Hi). den_cases. }
      destruct (N.eqb_spec x2 y2) as [->|_]; [|now apply xstage2_sound].
      apply good_rec; auto; [lia|]. intros inp Hi. rewrite (Hdx inp Hi), (Hdy inp Hi). den_cases.
    - (* x is an AND gate *)
      destruct gy as [[y1 y2|y1 y2]|]; try now apply xstage2_sound.
      pose proof (gate_facts b x _ I Hx Lx) as F. cbn [gops gfun] in F.
      destruct F as (Lx1 & Lx2 & Vx1 & Vx2 & _ & Hdx).
      pose proof (gate_facts b y _ I Hy Ly) as F. cbn [gops gfun] in F.
      destruct F as (Ly1 & Ly2 & Vy1 & Vy2 & _ & Hdy).
      assert (Harr : Forall arr_ok (arrangements x1 x2 y1 y2)).
      { assert (mk : forall a1 a2 b1 b2, valid b a1 -> valid b a2 -> valid b b1 -> valid b b2 ->
                  (forall inp, ins_ok b inp ->
                     den inp b x = andb (den inp b a1) (den inp b a2) /\
                     den inp b y = andb (den inp b b1) (den inp b b2)) -> arr_ok (a1, a2, b1, b2)).
        { intros a1 a2 b1 b2 H1 H2 H3 H4 H5. unfold arr_ok. auto. }
        unfold arrangements.
        apply Forall_cons; [apply mk; auto; intros inp Hi; rewrite (Hdx inp Hi), (Hdy inp Hi); split; den_cases|].
        apply Forall_cons; [apply mk; auto; intros inp Hi; rewrite (Hdx inp Hi), (Hdy inp Hi); split; den_cases|].
        apply Forall_cons; [apply mk; auto; intros inp Hi; rewrite (Hdx inp Hi), (Hdy inp Hi); split; den_cases|].
        apply Forall_cons; [apply mk; auto; intros inp Hi; rewrite (Hdx inp Hi), (Hdy inp Hi); split; den_cases|].
        apply Forall_nil. }
      destruct (find_cached_and_xor b (arrangements x1 x2 y1 y2)) as [w|] eqn:Ec.
      { destruct (find_cached_and_xor_sound _ _ Harr Ec) as [Hvw Hdw]. now apply good_ret. }
      destruct (find_common (arrangements x1 x2 y1 y2)) as [[[a1 a2] b2]|] eqn:Ef;
        [|now apply xstage2_sound].
      destruct (find_common_sound _ _ _ _ Harr Ef) as (Va1 & Va2 & Vb2 & Hid).
      pose proof (push_gate_sound b (BXor a2 b2) I (conj Va2 Vb2)) as P1.
      destruct (push_gate b (BXor a2 b2)) as [t b1].
      destruct P1 as (I1 & E1 & _ & Vt & _ & (_ & _ & _ & Hdt)). cbn [gfun] in Hdt.
      assert (Va1' : valid b1 a1) by (eapply ext_valid; eauto).
      pose proof (push_gate_sound b1 (BAnd a1 t) I1 (conj Va1' Vt)) as P2.
      destruct (push_gate b1 (BAnd a1 t)) as [w b2'].
      destruct P2 as (I2 & E2 & _ & Vw & _ & (_ & _ & _ & Hdw)). cbn [gfun] in Hdw.
      cbn [good xor_post]. split; [exact I2|]. split; [eapply ext_trans; eauto|]. split; [exact Vw|].
      intros inp Hi. assert (Hi1 : ins_ok b1 inp) by (eapply ext_ins_ok; eauto).
      assert (Hi2 : ins_ok b2' inp) by (eapply ext_ins_ok; eauto).
      rewrite (Hdw inp Hi2), (ext_den _ _ _ _ E2 Hi1 Vt), (Hdt inp Hi1).
      rewrite (ext_den _ _ _ _ E2 Hi1 Va1').
      rewrite !(ext_den _ _ _ _ E1 Hi) by assumption.
      symmetry. now apply Hid.
  Qed.
End XorSound.

Lemma push_xor_good fuel : forall b x y,
  inv b -> valid b x -> valid b y ->
  good (xor_post b x y) fuel (x + y) (push_xor fuel b x y).
Proof.
  induction fuel as [|fuel IH]; intros b x y I Hx Hy; cbn [push_xor].
  - cbn [good]. lia.
  - destruct (optimize_xor b x y) as [w|] eqn:Eo.
    + cbn [good]. now apply optimize_xor_sound.
    + destruct (optimize_xor_none _ _ _ Eo) as (Hx0 & Hy0 & Hxy).
      destruct (lookup_ok b x I Hx) as [gx Lx]. destruct (lookup_ok b y I Hy) as [gy Ly].
      rewrite Lx, Ly. cbn [bind].
      apply xstage1_sound; auto; intros x' y' Hx' Hy' _; now apply IH.
Qed.

Theorem push_xor_top_sound : binop_sound inv push_xor_top xorb.
Proof.
  intros b x y I Hx Hy. unfold push_xor_top.
  pose proof (push_xor_good small_fuel b x y I Hx Hy) as G1.
  pose proof (push_xor_good (S (N.to_nat (x + y))) b x y I Hx Hy) as G2.
  destruct (push_xor small_fuel b x y) as [[r b']| |]; cbn [good] in G1.
  - exists r, b'. split; [reflexivity|]. exact G1.
  - contradiction.
  - destruct (push_xor (S (N.to_nat (x + y))) b x y) as [[r b']| |]; cbn [good] in G2.
    + exists r, b'. split; [reflexivity|]. exact G2.
    + contradiction.
    + lia.
Qed.

(* ---------------------------------------------------------------- AND *)

Definition and_post (b : builder) (x y : N) (p : N * builder) : Prop :=
  let '(r, b') := p in
  inv b' /\ ext b b' /\ valid b' r /\
  forall inp, ins_ok b inp -> den inp b' r = andb (den inp b x) (den inp b y).

Lemma orb_eqb_cases a p q : ((a =? p) || (a =? q)) = true -> a = p \/ a = q.
Proof.
  intro H. apply orb_true_iff in H. destruct H as [H|H]; apply N.eqb_eq in H; auto.
Qed.

Lemma optimize_and_sound b x y w :
  inv b -> valid b x -> valid b y -> optimize_and b x y = Some w -> and_post b x y (w, b).
Proof.
  intros I Hx Hy. unfold optimize_and, and_post.
  assert (Hbase : forall w', valid b w' ->
            (forall inp, ins_ok b inp -> den inp b w' = andb (den inp b x) (den inp b y)) ->
            inv b /\ ext b b /\ valid b w' /\
            forall inp, ins_ok b inp -> den inp b w' = andb (den inp b x) (den inp b y)).
  { intros w' Hw' Hd'. split; [exact I|]. split; [apply ext_refl|]. split; assumption. }
  destruct (valid_consts b I) as [V0 V1].
  destruct ((x =? 0) || (y =? 0)) eqn:E0.
  { intros [= <-]. apply Hbase; auto. intros inp Hi. rewrite den_const0.
    apply orb_true_iff in E0. destruct E0 as [E|E]; apply N.eqb_eq in E; subst;
      rewrite den_const0; [reflexivity|now rewrite andb_false_r]. }
  destruct (N.eqb_spec x 1) as [->|Hx1].
  { intros [= <-]. apply Hbase; auto. intros. now rewrite den_const1. }
  destruct ((y =? 1) || (x =? y)) eqn:E1.
  { intros [= <-]. apply Hbase; auto. intros inp Hi.
    apply orb_true_iff in E1. destruct E1 as [E|E]; apply N.eqb_eq in E; subst.
    - now rewrite den_const1, andb_true_r.
    - now rewrite andb_diag. }
  assert (Hc : get_cached b (BAnd x y) = Some w -> _) by
    (intro H; destruct (get_cached_and_sound b x y w I H); apply Hbase; eassumption).
  destruct (nfind x (b_neg b)) as [xn|] eqn:Ex.
  - destruct (inv_neg b I _ _ Ex) as (_ & _ & _ & Hd).
    destruct (N.eqb_spec xn y) as [<-|_]; [|exact Hc].
    intros [= <-]. apply Hbase; auto. intros inp Hi. rewrite den_const0, (Hd inp Hi).
    now destruct (den inp b x).
  - destruct (nfind y (b_neg b)) as [yn|] eqn:Ey; [|exact Hc].
    destruct (inv_neg b I _ _ Ey) as (_ & _ & _ & Hd).
    destruct (N.eqb_spec yn x) as [->|_]; [|exact Hc].
    intros [= <-]. apply Hbase; auto. intros inp Hi. rewrite den_const0, (Hd inp Hi).
    now destruct (den inp b y).
Qed.

Section AndSound.
  Variable rec : builder -> N -> N -> res (N * builder).
  Variable fuel' : nat.
  Variable b : builder.
  Variables x y : N.
  Hypothesis I : inv b.
  Hypothesis Hx : valid b x.
  Hypothesis Hy : valid b y.
  Hypothesis Hrec : forall y', valid b y' -> y' < y ->
    good (and_post b x y') fuel' y' (rec b x y').

  Lemma agood_rec y' :
    valid b y' -> y' < y ->
    (forall inp, ins_ok b inp ->
       andb (den inp b x) (den inp b y') = andb (den inp b x) (den inp b y)) ->
    good (and_post b x y) (S fuel') y (rec b x y').
  Proof.
    intros Hy' Hm Ht. pose proof (Hrec y' Hy' Hm) as H.
    destruct (rec b x y') as [[r b']| |]; cbn [good and_post] in *.
    - destruct H as (I' & E & Hv & Hd). split; [exact I'|]. split; [exact E|]. split; [exact Hv|].
      intros inp Hi. rewrite (Hd inp Hi). now apply Ht.
    - exact H.
    - lia.
  Qed.

  Lemma agood_ret w :
    valid b w ->
    (forall inp, ins_ok b inp -> den inp b w = andb (den inp b x) (den inp b y)) ->
    good (and_post b x y) (S fuel') y (Ok (w, b)).
  Proof.
    intros Hw Hd. cbn [good and_post]. split; [exact I|]. split; [apply ext_refl|]. split; assumption.
  Qed.

  Lemma agood_push : good (and_post b x y) (S fuel') y (Ok (push_gate b (BAnd x y))).
  Proof.
    cbn [good]. pose proof (push_gate_sound b (BAnd x y) I (conj Hx Hy)) as P.
    destruct (push_gate b (BAnd x y)) as [w b1].
    destruct P as (I1 & E1 & _ & Vw & _ & (Vx & Vy & _ & Hd)). cbn [gfun] in Hd.
    cbn [and_post]. split; [exact I1|]. split; [exact E1|]. split; [exact Vw|].
    intros inp Hi. assert (Hi1 : ins_ok b1 inp) by (eapply ext_ins_ok; eauto).
    rewrite (Hd inp Hi1). now rewrite !(ext_den _ _ _ _ E1 Hi) by assumption.
  Qed.

  (* the distributed form: both partial products are cached *)
  Lemma agood_xor w1 w2 :
    valid b w1 -> valid b w2 ->
    (forall inp, ins_ok b inp ->
       xorb (den inp b w1) (den inp b w2) = andb (den inp b x) (den inp b y)) ->
    good (and_post b x y) (S fuel') y (push_xor_top b w1 w2).
  Proof.
    intros V1 V2 Hid. destruct (push_xor_top_sound b w1 w2 I V1 V2) as (r & b' & -> & I' & E & Vr & Hd).
    cbn [good and_post]. split; [exact I'|]. split; [exact E|]. split; [exact Vr|].
    intros inp Hi. rewrite (Hd inp Hi). now apply Hid.
  Qed.

  Lemma astage3_sound gy :
    lookup b y = Ok gy ->
    good (and_post b x y) (S fuel') y (astage3 b x y gy).
  Proof.
    intro Ly. unfold astage3. destruct gy as [[y1 y2|y1 y2]|]; [| |apply agood_push].
    - pose proof (gate_facts b y _ I Hy Ly) as F. cbn [gops gfun] in F.
      destruct F as (L1 & L2 & V1 & V2 & _ & Hd).
      destruct (get_cached b (BAnd x y1)) as [w1|] eqn:E1; [|apply agood_push].
      destruct (get_cached b (BAnd x y2)) as [w2|] eqn:E2; [|apply agood_push].
      destruct (get_cached_and_sound _ _ _ _ I E1) as [Vw1 Hd1].
      destruct (get_cached_and_sound _ _ _ _ I E2) as [Vw2 Hd2].
      apply agood_xor; auto. intros inp Hi. rewrite (Hd1 inp Hi), (Hd2 inp Hi), (Hd inp Hi). den_cases.
    - pose proof (gate_facts b y _ I Hy Ly) as F. cbn [gops gfun] in F.
      destruct F as (L1 & L2 & V1 & V2 & _ & Hd).
      destruct ((x =? y1) || (x =? y2)) eqn:Ec.
      { apply agood_ret; [exact Hy|]. intros inp Hi. rewrite (Hd inp Hi).
        destruct (orb_eqb_cases _ _ _ Ec) as [<-|<-]; den_cases. }
      destruct (nfind x (b_neg b)) as [xn|] eqn:Ex; [|apply agood_push].
      destruct (inv_neg b I _ _ Ex) as (_ & _ & _ & Hdn).
      destruct ((xn =? y1) || (xn =? y2)) eqn:Ec2; [|apply agood_push].
      destruct (valid_consts b I) as [V0 _].
      apply agood_ret; [exact V0|]. intros inp Hi. rewrite den_const0, (Hd inp Hi).
      destruct (orb_eqb_cases _ _ _ Ec2) as [<-|<-]; rewrite (Hdn inp Hi); den_cases.
  Qed.

  Lemma astage2_sound gx gy :
    lookup b x = Ok gx -> lookup b y = Ok gy ->
    good (and_post b x y) (S fuel') y (astage2 b x y gx gy).
  Proof.
    intros Lx Ly. unfold astage2. destruct gx as [[x1 x2|x1 x2]|]; [| |now apply astage3_sound].
    - pose proof (gate_facts b x _ I Hx Lx) as F. cbn [gops gfun] in F.
      destruct F as (L1 & L2 & V1 & V2 & _ & Hd).
      destruct (get_cached b (BAnd x1 y)) as [w1|] eqn:E1; [|now apply astage3_sound].
      destruct (get_cached b (BAnd x2 y)) as [w2|] eqn:E2; [|now apply astage3_sound].
      destruct (get_cached_and_sound _ _ _ _ I E1) as [Vw1 Hd1].
      destruct (get_cached_and_sound _ _ _ _ I E2) as [Vw2 Hd2].
      apply agood_xor; auto. intros inp Hi. rewrite (Hd1 inp Hi), (Hd2 inp Hi), (Hd inp Hi). den_cases.
    - pose proof (gate_facts b x _ I Hx Lx) as F. cbn [gops gfun] in F.
      destruct F as (L1 & L2 & V1 & V2 & _ & Hd).
      destruct ((x1 =? y) || (x2 =? y)) eqn:Ec.
      { apply agood_ret; [exact Hx|]. intros inp Hi. rewrite (Hd inp Hi).
        apply orb_true_iff in Ec. destruct Ec as [E|E]; apply N.eqb_eq in E; rewrite <- E; den_cases. }
      destruct (nfind y (b_neg b)) as [yn|] eqn:Ey; [|now apply astage3_sound].
      destruct (inv_neg b I _ _ Ey) as (_ & _ & _ & Hdn).
      destruct ((x1 =? yn) || (x2 =? yn)) eqn:Ec2; [|now apply astage3_sound].
      destruct (valid_consts b I) as [V0 _].
      apply agood_ret; [exact V0|]. intros inp Hi. rewrite den_const0, (Hd inp Hi).
      apply orb_true_iff in Ec2. destruct Ec2 as [E|E]; apply N.eqb_eq in E; rewrite E, (Hdn inp Hi); den_cases.
  Qed.

  Lemma astage1_sound gx gy :
    lookup b x = Ok gx -> lookup b y = Ok gy ->
    good (and_post b x y) (S fuel') y (astage1 rec b x y gx gy).
  Proof.
    intros Lx Ly. unfold astage1.
    destruct gx as [[x1 x2|x1 x2]|]; try now apply astage2_sound.
    destruct gy as [[y1 y2|y1 y2]|]; try now apply astage2_sound.
    pose proof (gate_facts b x _ I Hx Lx) as F. cbn [gops gfun] in F.
    destruct F as (Lx1 & Lx2 & Vx1 & Vx2 & _ & Hdx).
    pose proof (gate_facts b y _ I Hy Ly) as F. cbn [gops gfun] in F.
    destruct F as (Ly1 & Ly2 & Vy1 & Vy2 & _ & Hdy).
    destruct ((x1 =? y1) || (x2 =? y1)) eqn:Ec.
    { apply agood_rec; auto. intros inp Hi. rewrite (Hdx inp Hi), (Hdy inp Hi).
      apply orb_true_iff in Ec. destruct Ec as [E|E]; apply N.eqb_eq in E; rewrite <- E; den_cases. }
    destruct ((x1 =? y2) || (x2 =? y2)) eqn:Ec2; [|now apply astage2_sound].
    apply agood_rec; auto. intros inp Hi. rewrite (Hdx inp Hi), (Hdy inp Hi).
    apply orb_true_iff in Ec2. destruct Ec2 as [E|E]; apply N.eqb_eq in E; rewrite <- E; den_cases.
  Qed.
End AndSound.

Lemma push_and_good fuel : forall b x y,
  inv b -> valid b x -> valid b y ->
  good (and_post b x y) fuel y (push_and fuel b x y).
Proof.
  induction fuel as [|fuel IH]; intros b x y I Hx Hy; cbn [push_and].
  - cbn [good]. lia.
  - destruct (optimize_and b x y) as [w|] eqn:Eo.
    + cbn [good]. now apply optimize_and_sound.
    + destruct (lookup_ok b x I Hx) as [gx Lx]. destruct (lookup_ok b y I Hy) as [gy Ly].
      rewrite Lx, Ly. cbn [bind].
      apply astage1_sound; auto; intros y' Hy' _; now apply IH.
Qed.

Theorem push_and_top_sound : binop_sound inv push_and_top andb.
Proof.
  intros b x y I Hx Hy. unfold push_and_top.
  pose proof (push_and_good small_fuel b x y I Hx Hy) as G1.
  pose proof (push_and_good (S (N.to_nat y)) b x y I Hx Hy) as G2.
  destruct (push_and small_fuel b x y) as [[r b']| |]; cbn [good] in G1.
  - exists r, b'. split; [reflexivity|]. exact G1.
  - contradiction.
  - destruct (push_and (S (N.to_nat y)) b x y) as [[r b']| |]; cbn [good] in G2.
    + exists r, b'. split; [reflexivity|]. exact G2.
    + contradiction.
    + lia.
Qed.

(* ---------------------------------------------------------------- derived requests *)

Theorem push_not_sound : unop_sound inv push_not negb.
Proof.
  intros b x I Hx. unfold push_not. destruct (valid_consts b I) as [_ V1].
  destruct (push_xor_top_sound b x 1 I Hx V1) as (r & b' & E & I' & Ex & Vr & Hd).
  exists r, b'. split; [exact E|]. split; [exact I'|]. split; [exact Ex|]. split; [exact Vr|].
  intros inp Hi. rewrite (Hd inp Hi), den_const1. now destruct (den inp b x).
Qed.

Theorem push_or_sound : binop_sound inv push_or orb.
Proof.
  intros b x y I Hx Hy. unfold push_or.
  destruct (push_xor_top_sound b x y I Hx Hy) as (xo & b1 & -> & I1 & E1 & V1 & D1). cbn [bind].
  destruct (push_and_top_sound b1 x y I1 (ext_valid _ _ _ E1 Hx) (ext_valid _ _ _ E1 Hy))
    as (an & b2 & -> & I2 & E2 & V2 & D2). cbn [bind].
  destruct (push_xor_top_sound b2 xo an I2 (ext_valid _ _ _ E2 V1) V2) as (r & b3 & -> & I3 & E3 & V3 & D3).
  exists r, b3. split; [reflexivity|]. split; [exact I3|].
  split; [eapply ext_trans; [eapply ext_trans|]; eauto|]. split; [exact V3|].
  intros inp Hi. assert (Hi1 : ins_ok b1 inp) by (eapply ext_ins_ok; eauto).
  assert (Hi2 : ins_ok b2 inp) by (eapply ext_ins_ok; eauto).
  rewrite (D3 inp Hi2), (D2 inp Hi1), (ext_den _ _ _ _ E2 Hi1 V1), (D1 inp Hi).
  rewrite (ext_den _ _ _ _ E1 Hi Hx), (ext_den _ _ _ _ E1 Hi Hy). den_cases.
Qed.

Theorem push_eq_sound : binop_sound inv push_eq (fun a b => negb (xorb a b)).
Proof.
  intros b x y I Hx Hy. unfold push_eq.
  destruct (push_xor_top_sound b x y I Hx Hy) as (xo & b1 & -> & I1 & E1 & V1 & D1). cbn [bind].
  destruct (valid_consts b1 I1) as [_ Vc].
  destruct (push_xor_top_sound b1 xo 1 I1 V1 Vc) as (r & b2 & -> & I2 & E2 & V2 & D2).
  exists r, b2. split; [reflexivity|]. split; [exact I2|]. split; [eapply ext_trans; eauto|].
  split; [exact V2|]. intros inp Hi. assert (Hi1 : ins_ok b1 inp) by (eapply ext_ins_ok; eauto).
  rewrite (D2 inp Hi1), (D1 inp Hi), den_const1. den_cases.
Qed.

Theorem push_mux_sound : mux_sound inv.
Proof.
  intros b s x0 x1 I Hs H0 H1. unfold push_mux.
  destruct (N.eqb_spec x0 x1) as [<-|Hne].
  { exists x0, b. split; [reflexivity|]. split; [exact I|]. split; [apply ext_refl|]. split; [exact H0|].
    intros inp Hi. now destruct (den inp b s). }
  destruct (push_xor_top_sound b x0 x1 I H0 H1) as (d & b1 & -> & I1 & E1 & V1 & D1). cbn [bind].
  destruct (push_not_sound b1 s I1 (ext_valid _ _ _ E1 Hs)) as (ns & b2 & -> & I2 & E2 & V2 & D2).
  cbn [bind].
  destruct (push_and_top_sound b2 d ns I2 (ext_valid _ _ _ E2 V1) V2) as (sw & b3 & -> & I3 & E3 & V3 & D3).
  cbn [bind].
  assert (E13 : ext b b3) by (eapply ext_trans; [eapply ext_trans|]; eauto).
  destruct (push_xor_top_sound b3 x0 sw I3 (ext_valid _ _ _ E13 H0) V3) as (r & b4 & -> & I4 & E4 & V4 & D4).
  exists r, b4. split; [reflexivity|]. split; [exact I4|]. split; [eapply ext_trans; eauto|].
  split; [exact V4|]. intros inp Hi.
  assert (Hi1 : ins_ok b1 inp) by (eapply ext_ins_ok; eauto).
  assert (Hi2 : ins_ok b2 inp) by (eapply ext_ins_ok; eauto).
  assert (Hi3 : ins_ok b3 inp) by (eapply ext_ins_ok; eauto).
  rewrite (D4 inp Hi3), (D3 inp Hi2), (D2 inp Hi1).
  rewrite (ext_den _ _ _ _ E13 Hi H0), (ext_den _ _ _ _ E2 Hi1 V1), (D1 inp Hi).
  rewrite (ext_den _ _ _ _ E1 Hi Hs). den_cases.
Qed.

Lemma inv_new dedup inputs : inv (new_builder dedup inputs).
Proof.
  unfold new_builder. constructor; cbn [b_shift b_inputs b_ngates b_gates_rev b_gmap b_cxor b_cand b_neg].
  - lia.
  - reflexivity.
  - reflexivity.
  - intro i. unfold glist. cbn [b_gates_rev rev]. rewrite nfind_empty.
    destruct (nthN (@nil bgate) i) eqn:E; [apply nthN_lt in E; rewrite lenN_nil in E; lia|reflexivity].
  - intros i g. unfold glist. cbn [b_gates_rev rev]. intro E. apply nthN_lt in E. rewrite lenN_nil in E. lia.
  - intros x y w. unfold cache_get. rewrite nfind_empty. discriminate.
  - intros x y w. unfold cache_get. rewrite nfind_empty. discriminate.
  - intros a n. rewrite nfind_empty. discriminate.
Qed.

Theorem builder_sound : builder_ops_sound inv.
Proof.
  constructor.
  - exact push_xor_top_sound.
  - exact push_and_top_sound.
  - exact push_or_sound.
  - exact push_eq_sound.
  - exact push_not_sound.
  - exact push_mux_sound.
  - intros. apply den_const0.
  - intros. apply den_const1.
  - exact valid_consts.
  - exact inv_new.
Qed.
