(* Request sequences against the builder and their literal execution (C04 headline):
   for ANY sequence of requests the built circuit computes exactly what the same requests
   compute when executed literally on Booleans, with no simplification. *)
From GV Require Import Base.Util Base.NMap Circuit.Ssa Circuit.SsaProofs
  Builder.Builder Builder.Build Builder.BuilderSem Builder.BuilderSpec Builder.BuilderProofs
  Builder.BuildProofs.

Inductive opnd := Raw (w : N) | Hnd (k : nat).

Inductive request :=
| RXor (a b : opnd)
| RAnd (a b : opnd)
| ROr (a b : opnd)
| REq (a b : opnd)
| RNot (a : opnd)
| RMux (s a b : opnd).

Definition resolve (hs : list N) (o : opnd) : option N :=
  match o with Raw w => Some w | Hnd k => nth_error hs k end.

Definition run_req (b : builder) (hs : list N) (r : request) : res (N * builder) :=
  let get o := of_option (resolve hs o) in
  match r with
  | RXor x y => let* a := get x in let* c := get y in push_xor_top b a c
  | RAnd x y => let* a := get x in let* c := get y in push_and_top b a c
  | ROr x y => let* a := get x in let* c := get y in push_or b a c
  | REq x y => let* a := get x in let* c := get y in push_eq b a c
  | RNot x => let* a := get x in push_not b a
  | RMux s x y => let* w := get s in let* a := get x in let* c := get y in push_mux b w a c
  end.

(* handles are appended in order of creation *)
Fixpoint run_reqs (b : builder) (hs : list N) (rs : list request) : res (builder * list N) :=
  match rs with
  | [] => Ok (b, hs)
  | r :: rest => let* (w, b') := run_req b hs r in run_reqs b' (hs ++ [w]) rest
  end.

(* ---- literal execution: no builder, no simplification ---- *)

Definition raw_val (inp : list bool) (w : N) : option bool :=
  if w =? 0 then Some false else if w =? 1 then Some true else nthN inp (w - 2).

Definition lit_opnd (inp vs : list bool) (o : opnd) : option bool :=
  match o with Raw w => raw_val inp w | Hnd k => nth_error vs k end.

Definition lit_req (inp vs : list bool) (r : request) : option bool :=
  let get := lit_opnd inp vs in
  match r with
  | RXor x y => match get x, get y with Some a, Some c => Some (xorb a c) | _, _ => None end
  | RAnd x y => match get x, get y with Some a, Some c => Some (andb a c) | _, _ => None end
  | ROr x y => match get x, get y with Some a, Some c => Some (orb a c) | _, _ => None end
  | REq x y => match get x, get y with Some a, Some c => Some (negb (xorb a c)) | _, _ => None end
  | RNot x => match get x with Some a => Some (negb a) | None => None end
  | RMux s x y => match get s, get x, get y with
                  | Some w, Some a, Some c => Some (if w then a else c) | _, _, _ => None end
  end.

Fixpoint lit_reqs (inp vs : list bool) (rs : list request) : option (list bool) :=
  match rs with
  | [] => Some vs
  | r :: rest => match lit_req inp vs r with Some v => lit_reqs inp (vs ++ [v]) rest | None => None end
  end.

(* the bits of PanicResult::ok(): flag clear, type field = 1, locations 0 *)
Definition panic_ok_bits : list bool := false :: (repeat false 31 ++ [true]) ++ repeat false 128.

(* ---- the theorem ---- *)

Lemma den_raw b inp w v :
  inv b -> ins_ok b inp -> raw_val inp w = Some v -> valid b w /\ den inp b w = v.
Proof.
  intros I Hi. unfold raw_val. pose proof (inv_shift b I) as Hs.
  destruct (N.eqb_spec w 0) as [->|N0].
  { intros [= <-]. split; [apply valid_consts; exact I|apply den_const0]. }
  destruct (N.eqb_spec w 1) as [->|N1].
  { intros [= <-]. split; [apply valid_consts; exact I|apply den_const1]. }
  intro Hn. pose proof (nthN_lt _ _ _ Hn) as Hlt. unfold ins_ok in Hi.
  split; [unfold valid, counter; lia|].
  unfold den, wire_vals.
  destruct (run_gates_prefix (rev (b_gates_rev b)) (false :: true :: inp)) as (t & -> & _).
  rewrite nthd_app_l by (rewrite !lenN_cons; lia).
  unfold nthd. rewrite nthN_spec in *. replace (N.to_nat w) with (S (S (N.to_nat (w - 2)))) by lia.
  cbn [nth_error]. now rewrite Hn.
Qed.

Lemma map_repeat' {A B} (f : A -> B) x n : map f (repeat x n) = repeat (f x) n.
Proof. induction n as [|n IH]; cbn [repeat map]; [reflexivity|now rewrite IH]. Qed.

Definition hs_ok (b : builder) (inp : list bool) (hs : list N) (vs : list bool) : Prop :=
  Forall2 (fun w v => valid b w /\ den inp b w = v) hs vs.

Lemma hs_ok_ext b b' inp hs vs : ext b b' -> ins_ok b inp -> hs_ok b inp hs vs -> hs_ok b' inp hs vs.
Proof.
  intros E Hi H. induction H as [|w v hs vs [Hv Hd] _ IH]; constructor; auto.
  split; [eapply ext_valid; eauto|]. now rewrite (ext_den _ _ _ _ E Hi Hv).
Qed.

Lemma opnd_ok b inp hs vs o v :
  inv b -> ins_ok b inp -> hs_ok b inp hs vs -> lit_opnd inp vs o = Some v ->
  exists w, resolve hs o = Some w /\ valid b w /\ den inp b w = v.
Proof.
  intros I Hi Hh. destruct o as [w|k]; cbn [lit_opnd resolve].
  - intro Hr. exists w. split; [reflexivity|]. eapply den_raw; eauto.
  - revert k. induction Hh as [|w0 v0 hs vs H0 _ IH]; intros [|k] Hk; cbn [nth_error] in *; try discriminate.
    + injection Hk as <-. exists w0. auto.
    + auto.
Qed.

Lemma run_req_sound b inp hs vs r v :
  inv b -> ins_ok b inp -> hs_ok b inp hs vs -> lit_req inp vs r = Some v ->
  exists w b', run_req b hs r = Ok (w, b') /\ inv b' /\ ext b b' /\ valid b' w /\ den inp b' w = v.
Proof.
  intros I Hi Hh. pose proof builder_sound as S.
  destruct r as [x y|x y|x y|x y|x|s x y]; cbn [lit_req run_req].
  - destruct (lit_opnd inp vs x) as [a|] eqn:Ea; [|discriminate].
    destruct (lit_opnd inp vs y) as [c|] eqn:Ec; [|discriminate]. intros [= <-].
    destruct (opnd_ok _ _ _ _ _ _ I Hi Hh Ea) as (wa & -> & Va & Da).
    destruct (opnd_ok _ _ _ _ _ _ I Hi Hh Ec) as (wc & -> & Vc & Dc). cbn [of_option bind].
    destruct (bs_xor inv S b wa wc I Va Vc) as (r & b' & -> & I' & E & Vr & Dr).
    exists r, b'. split; [reflexivity|]. split; [exact I'|]. split; [exact E|]. split; [exact Vr|].
    rewrite (Dr inp Hi). subst. reflexivity.
  - destruct (lit_opnd inp vs x) as [a|] eqn:Ea; [|discriminate].
    destruct (lit_opnd inp vs y) as [c|] eqn:Ec; [|discriminate]. intros [= <-].
    destruct (opnd_ok _ _ _ _ _ _ I Hi Hh Ea) as (wa & -> & Va & Da).
    destruct (opnd_ok _ _ _ _ _ _ I Hi Hh Ec) as (wc & -> & Vc & Dc). cbn [of_option bind].
    destruct (bs_and inv S b wa wc I Va Vc) as (r & b' & -> & I' & E & Vr & Dr).
    exists r, b'. split; [reflexivity|]. split; [exact I'|]. split; [exact E|]. split; [exact Vr|].
    rewrite (Dr inp Hi). subst. reflexivity.
  - destruct (lit_opnd inp vs x) as [a|] eqn:Ea; [|discriminate].
    destruct (lit_opnd inp vs y) as [c|] eqn:Ec; [|discriminate]. intros [= <-].
    destruct (opnd_ok _ _ _ _ _ _ I Hi Hh Ea) as (wa & -> & Va & Da).
    destruct (opnd_ok _ _ _ _ _ _ I Hi Hh Ec) as (wc & -> & Vc & Dc). cbn [of_option bind].
    destruct (bs_or inv S b wa wc I Va Vc) as (r & b' & -> & I' & E & Vr & Dr).
    exists r, b'. split; [reflexivity|]. split; [exact I'|]. split; [exact E|]. split; [exact Vr|].
    rewrite (Dr inp Hi). subst. reflexivity.
  - destruct (lit_opnd inp vs x) as [a|] eqn:Ea; [|discriminate].
    destruct (lit_opnd inp vs y) as [c|] eqn:Ec; [|discriminate]. intros [= <-].
    destruct (opnd_ok _ _ _ _ _ _ I Hi Hh Ea) as (wa & -> & Va & Da).
    destruct (opnd_ok _ _ _ _ _ _ I Hi Hh Ec) as (wc & -> & Vc & Dc). cbn [of_option bind].
    destruct (bs_eq inv S b wa wc I Va Vc) as (r & b' & -> & I' & E & Vr & Dr).
    exists r, b'. split; [reflexivity|]. split; [exact I'|]. split; [exact E|]. split; [exact Vr|].
    rewrite (Dr inp Hi). subst. reflexivity.
  - destruct (lit_opnd inp vs x) as [a|] eqn:Ea; [|discriminate]. intros [= <-].
    destruct (opnd_ok _ _ _ _ _ _ I Hi Hh Ea) as (wa & -> & Va & Da). cbn [of_option bind].
    destruct (bs_not inv S b wa I Va) as (r & b' & -> & I' & E & Vr & Dr).
    exists r, b'. split; [reflexivity|]. split; [exact I'|]. split; [exact E|]. split; [exact Vr|].
    rewrite (Dr inp Hi). subst. reflexivity.
  - destruct (lit_opnd inp vs s) as [w|] eqn:Es; [|discriminate].
    destruct (lit_opnd inp vs x) as [a|] eqn:Ea; [|discriminate].
    destruct (lit_opnd inp vs y) as [c|] eqn:Ec; [|discriminate]. intros [= <-].
    destruct (opnd_ok _ _ _ _ _ _ I Hi Hh Es) as (ws & -> & Vs & Ds).
    destruct (opnd_ok _ _ _ _ _ _ I Hi Hh Ea) as (wa & -> & Va & Da).
    destruct (opnd_ok _ _ _ _ _ _ I Hi Hh Ec) as (wc & -> & Vc & Dc). cbn [of_option bind].
    destruct (bs_mux inv S b ws wa wc I Vs Va Vc) as (r & b' & -> & I' & E & Vr & Dr).
    exists r, b'. split; [reflexivity|]. split; [exact I'|]. split; [exact E|]. split; [exact Vr|].
    rewrite (Dr inp Hi). subst. reflexivity.
Qed.

Lemma run_reqs_sound rs : forall b inp hs vs vs',
  inv b -> ins_ok b inp -> hs_ok b inp hs vs -> lit_reqs inp vs rs = Some vs' ->
  exists b' hs', run_reqs b hs rs = Ok (b', hs') /\ inv b' /\ ext b b' /\ hs_ok b' inp hs' vs'.
Proof.
  induction rs as [|r rest IH]; intros b inp hs vs vs' I Hi Hh Hl; cbn [lit_reqs run_reqs] in *.
  - injection Hl as <-. exists b, hs. split; [reflexivity|]. split; [exact I|]. split; [apply ext_refl|exact Hh].
  - destruct (lit_req inp vs r) as [v|] eqn:Er; [|discriminate].
    destruct (run_req_sound _ _ _ _ _ _ I Hi Hh Er) as (w & b1 & -> & I1 & E1 & V1 & D1). cbn [bind].
    assert (Hi1 : ins_ok b1 inp) by (eapply ext_ins_ok; eauto).
    assert (Hh1 : hs_ok b1 inp (hs ++ [w]) (vs ++ [v])).
    { apply Forall2_app; [eapply hs_ok_ext; eauto|]. constructor; [auto|constructor]. }
    destruct (IH b1 inp _ _ _ I1 Hi1 Hh1 Hl) as (b' & hs' & -> & I' & E' & Hh').
    exists b', hs'. split; [reflexivity|]. split; [exact I'|]. split; [eapply ext_trans; eauto|exact Hh'].
Qed.

Theorem requests_then_build dedup inputs rs outs ins inp vs ovs :
  load_inputs inputs ins = Some inp -> 1 <= sumN inputs ->
  lit_reqs inp [] rs = Some vs ->
  mapM (lit_opnd inp vs) outs = Some ovs ->
  exists b hs ows,
    run_reqs (new_builder dedup inputs) [] rs = Ok (b, hs) /\
    mapM (resolve hs) outs = Some ows /\
    (counter b + (b_shift b - 2) <= MAX_GATES ->
     exists c, build b panic_ok_wires ows = Ok c /\
       ssa_validate c = None /\
       ssa_eval c ins = Some (panic_ok_bits ++ ovs)).
Proof.
  intros Hload Hpos Hlit Houts.
  pose proof (inv_new dedup inputs) as I0.
  assert (Hlen : lenN inp = sumN inputs) by (eapply load_inputs_len; eauto).
  assert (Hi0 : ins_ok (new_builder dedup inputs) inp).
  { unfold ins_ok, new_builder. cbn [b_shift]. lia. }
  destruct (run_reqs_sound rs _ inp [] [] vs I0 Hi0 (Forall2_nil _) Hlit) as (b & hs & Hrun & I & E & Hh).
  assert (Hi : ins_ok b inp) by (eapply ext_ins_ok; eauto).
  assert (Hows : exists ows, mapM (resolve hs) outs = Some ows /\
            Forall2 (fun w v => valid b w /\ den inp b w = v) ows ovs).
  { clear Hlit Hrun. revert ovs Houts. induction outs as [|o r IH]; intros ovs Houts; cbn [mapM] in *.
    - injection Houts as <-. exists []. split; [reflexivity|constructor].
    - destruct (lit_opnd inp vs o) as [v|] eqn:Eo; [|discriminate].
      destruct (mapM (lit_opnd inp vs) r) as [rest|] eqn:Er; [|discriminate]. injection Houts as <-.
      destruct (opnd_ok _ _ _ _ _ _ I Hi Hh Eo) as (w & -> & Vw & Dw).
      destruct (IH rest eq_refl) as (ows & -> & HF). exists (w :: ows). split; [reflexivity|].
      constructor; auto. }
  destruct Hows as (ows & Eows & HF).
  exists b, hs, ows. split; [exact Hrun|]. split; [exact Eows|]. intro Hmax.
  assert (Hsh : b_shift b = 2 + sumN inputs).
  { destruct E as (Es & _). rewrite Es. reflexivity. }
  assert (Hbi : b_inputs b = inputs) by (destruct E as (_ & Ei & _); rewrite Ei; reflexivity).
  destruct (valid_consts b I) as [V0 V1].
  assert (Hpwv : valids b panic_ok_wires).
  { unfold panic_ok_wires, valids.
    constructor; [exact V0|]. apply Forall_app. split.
    - apply Forall_app. split; [apply Forall_forall; intros x Hx; apply repeat_spec in Hx; now subst|].
      constructor; [exact V1|constructor].
    - apply Forall_forall. intros x Hx. apply repeat_spec in Hx. now subst. }
  assert (Hov : valids b ows).
  { unfold valids. clear -HF. induction HF as [|w v ws vs0 [Hv _] _ IH]; constructor; auto. }
  assert (Hne : panic_ok_wires ++ ows <> []) by (unfold panic_ok_wires; discriminate).
  assert (Hs2 : 2 < b_shift b) by lia.
  destruct (build_sound b panic_ok_wires ows I Hpwv Hov Hne Hs2 Hmax) as (c & Hb & Hv & _ & _ & Hev).
  exists c. split; [exact Hb|]. split; [exact Hv|].
  rewrite Hbi in Hev. rewrite (Hev ins inp Hload), map_app. f_equal. f_equal.
  - unfold panic_ok_wires, panic_ok_bits. cbn [map]. rewrite !map_app, !map_repeat'. cbn [map].
    now rewrite den_const0, den_const1.
  - clear -HF. induction HF as [|w v ws vs0 [_ Hd] _ IH]; cbn [map]; [reflexivity|]. now rewrite Hd, IH.
Qed.
