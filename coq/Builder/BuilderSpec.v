(* The specification interface of the builder operations.  BuilderProofs.v proves
   [builder_ops_sound inv] for the concrete invariant; clients (gadgets, panic record,
   lowering) are proved inside a Section that assumes only this record. *)
From GV Require Import Base.Util Base.NMap Builder.Builder Builder.BuilderSem.

Definition binop_sound (inv : builder -> Prop)
    (f : builder -> N -> N -> res (N * builder)) (op : bool -> bool -> bool) : Prop :=
  forall b x y, inv b -> valid b x -> valid b y ->
    exists r b', f b x y = Ok (r, b') /\ inv b' /\ ext b b' /\ valid b' r /\
      forall inp, ins_ok b inp -> den inp b' r = op (den inp b x) (den inp b y).

Definition unop_sound (inv : builder -> Prop)
    (f : builder -> N -> res (N * builder)) (op : bool -> bool) : Prop :=
  forall b x, inv b -> valid b x ->
    exists r b', f b x = Ok (r, b') /\ inv b' /\ ext b b' /\ valid b' r /\
      forall inp, ins_ok b inp -> den inp b' r = op (den inp b x).

Definition mux_sound (inv : builder -> Prop) : Prop :=
  forall b s x0 x1, inv b -> valid b s -> valid b x0 -> valid b x1 ->
    exists r b', push_mux b s x0 x1 = Ok (r, b') /\ inv b' /\ ext b b' /\ valid b' r /\
      forall inp, ins_ok b inp ->
        den inp b' r = if den inp b s then den inp b x0 else den inp b x1.

Record builder_ops_sound (inv : builder -> Prop) : Prop := {
  bs_xor : binop_sound inv push_xor_top xorb;
  bs_and : binop_sound inv push_and_top andb;
  bs_or : binop_sound inv push_or orb;
  bs_eq : binop_sound inv push_eq (fun a b => negb (xorb a b));
  bs_not : unop_sound inv push_not negb;
  bs_mux : mux_sound inv;
  bs_const0 : forall b inp, inv b -> ins_ok b inp -> den inp b 0 = false;
  bs_const1 : forall b inp, inv b -> ins_ok b inp -> den inp b 1 = true;
  bs_consts_valid : forall b, inv b -> valid b 0 /\ valid b 1;
  bs_new : forall dedup inputs, inv (new_builder dedup inputs)
}.
