(* Proofs about Front/Prettify.v: rendering a location whose end line is at most the number
   of newlines of the (non-empty or empty) text never indexes out of bounds and never runs
   out of fuel. *)
From GV Require Import Base.Util Front.Scan Front.ScanProofs Front.Prettify.

(* str::lines() yields at least one line per '\n' *)
Lemma lines_go_length : forall bs cur, nl bs <= lenN (lines_go bs cur).
Proof.
  induction bs as [|b r IH]; intro cur; cbn [lines_go].
  - cbn [nl]. unfold lenN. lia.
  - rewrite nl_cons. destruct (b =? 10).
    + rewrite lenN_cons. specialize (IH []). lia.
    + specialize (IH (b :: cur)). lia.
Qed.

Lemma lines_of_length text : nl text <= lenN (lines_of text).
Proof. apply lines_go_length. Qed.

(* one iteration of the loop does not panic when the end line is within the lines *)
Lemma pm_line_safe lines m l :
  fst (m_end m) <= lenN lines -> exists out, pm_line lines m l = Ok out.
Proof.
  intro Hel. unfold pm_line.
  destruct (m_start m) as [sl sc]. destruct (m_end m) as [el ec]. cbn [fst] in Hel.
  set (echo := if ((0 <=? l)%Z && (Z.to_N l <? lenN lines))%bool then _ else _).
  destruct ((Z.of_N sl <=? l)%Z && ((l <? Z.of_N el)%Z || (l =? Z.of_N el)%Z && (0 <? ec)))%bool eqn:Hhl;
    [|eexists; reflexivity].
  destruct (l =? Z.of_N el)%Z eqn:Hle; cbn [bind]; [eexists; reflexivity|].
  apply andb_true_iff in Hhl. destruct Hhl as [H1 H2].
  try rewrite Hle in H2. cbn [andb] in H2. rewrite orb_false_r in H2.
  apply Z.leb_le in H1. apply Z.ltb_lt in H2.
  destruct (nthN_Some lines (Z.to_N l)) as [ln Hln]; [lia|].
  rewrite Hln. cbn [bind]. eexists; reflexivity.
Qed.

Lemma pm_loop_ok lines m hi :
  (forall l, exists out, pm_line lines m l = Ok out) ->
  forall fuel l acc, (hi - l <= Z.of_nat fuel)%Z ->
  exists out, pm_loop fuel lines m l hi acc = Ok out.
Proof.
  intro Hsafe. induction fuel as [|f IH]; intros l acc Hf.
  - cbn [pm_loop]. destruct (Z.leb_spec hi l) as [H|H]; [eexists; reflexivity|lia].
  - cbn [pm_loop]. destruct (Z.leb_spec hi l) as [H|H]; [eexists; reflexivity|].
    destruct (Hsafe l) as [out ->]. cbn [bind]. apply IH. lia.
Qed.

Lemma prettify_meta_safe text m :
  fst (m_end m) <= nl text -> exists out, prettify_meta text m = Ok out.
Proof.
  intro Hel. unfold prettify_meta.
  destruct (is_empty text); [eexists; reflexivity|].
  pose proof (lines_of_length text) as Hlen.
  apply pm_loop_ok.
  - intro l. apply pm_line_safe. lia.
  - unfold lenN in Hlen. lia.
Qed.

(* every location reported by the scanner renders against the scanned text *)
Lemma scan_then_prettify_lemma (bytes : list N) (out : scan_out) :
  scan (S (length bytes)) bytes = Ok out ->
  match out with
  | STokens ts => forall t m, In (Token t m) ts -> exists r, prettify_meta bytes m = Ok r
  | SErrors es => forall e m, In (ScanError e m) es -> exists r, prettify_meta bytes m = Ok r
  end.
Proof.
  intro E. pose proof (scan_locs_lemma bytes out E) as L.
  destruct out as [ts|es]; intros x m Hin; apply prettify_meta_safe; exact (proj2 (L x m Hin)).
Qed.
