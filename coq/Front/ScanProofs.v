(* Proofs about the scanner model Front/Scan.v: totality (fuel adequacy), shape of the
   result, well-formedness of every reported location. *)
From GV Require Import Base.Util Front.Scan.

(* ------------------------------------------------------------------ specification side *)

(* number of '\n' in a text *)
Fixpoint nl (l : list N) : N :=
  match l with
  | [] => 0
  | c :: r => (if c =? 10 then 1 else 0) + nl r
  end.

(* (line, column) pairs, lexicographic order *)
Definition pos_le (a b : N * N) : Prop :=
  fst a < fst b \/ (fst a = fst b /\ snd a <= snd b).

(* a location is well formed w.r.t. a text with NL newlines: start is not after end, and
   the end (hence also the start) lies on a line that exists or just past the end *)
Definition meta_ok (NL : N) (m : meta) : Prop :=
  pos_le (m_start m) (m_end m) /\ fst (m_end m) <= NL.

Definition tok_meta (t : token) : meta := match t with Token _ m => m end.
Definition err_meta (e : scan_error) : meta := match e with ScanError _ m => m end.

Definition out_ok (NL : N) (o : scan_out) : Prop :=
  match o with
  | STokens ts => Forall (fun t => meta_ok NL (tok_meta t)) ts
  | SErrors es => es <> [] /\ Forall (fun e => meta_ok NL (err_meta e)) es
  end.

(* ------------------------------------------------------------------ invariant *)

Definition good (NL : N) (s : scanner) (rest : list N) : Prop :=
  pos_le (cts s) (line s, column s) /\
  line s + nl rest <= NL /\
  Forall (fun t => meta_ok NL (tok_meta t)) (tokens s) /\
  Forall (fun e => meta_ok NL (err_meta e)) (errors s).

Lemma nl_cons c r : nl (c :: r) = (if c =? 10 then 1 else 0) + nl r.
Proof. reflexivity. Qed.

Lemma nl_cons_le c r : nl r <= nl (c :: r).
Proof. rewrite nl_cons. destruct (c =? 10); lia. Qed.

Lemma nl_tl r : nl (tl r) <= nl r.
Proof. destruct r as [|c r]; [cbn; lia|apply nl_cons_le]. Qed.

Lemma length_tl_le {A} (r : list A) : (length (tl r) <= length r)%nat.
Proof. destruct r; cbn [tl length]; lia. Qed.

Lemma length_tl_lt {A} (r : list A) : r <> [] -> (length (tl r) < length r)%nat.
Proof. destruct r; [congruence|cbn [tl length]; lia]. Qed.

Lemma pos_le_refl p : pos_le p p.
Proof. right. split; [reflexivity|lia]. Qed.

Lemma good_weaken NL s r r' : good NL s r -> nl r' <= nl r -> good NL s r'.
Proof. intros (Hc & Hl & Ht & He) Hn. repeat split; try assumption. lia. Qed.

Lemma good_drop NL s c r : good NL s (c :: r) -> good NL s r.
Proof. intro H. eapply good_weaken; [exact H|apply nl_cons_le]. Qed.

Lemma good_advance NL s r : good NL s r -> good NL (advance s) r.
Proof.
  intros (Hc & Hl & Ht & He). unfold good. cbn [advance cts line column tokens errors].
  repeat split; try assumption.
  destruct Hc as [Hc|[Hc1 Hc2]]; [left; exact Hc|right]. cbn [fst snd] in *. split; [exact Hc1|lia].
Qed.

Lemma good_mark_start NL s r : good NL s r -> good NL (mark_start s) r.
Proof.
  intros (Hc & Hl & Ht & He). unfold good. cbn [mark_start cts line column tokens errors].
  repeat split; try assumption. apply pos_le_refl.
Qed.

(* consuming a newline: `self.line += 1; self.column = 0` *)
Lemma good_newline NL s r : good NL s (10 :: r) -> good NL (newline s) r.
Proof.
  intros (Hc & Hl & Ht & He). unfold good. cbn [newline cts line column tokens errors].
  rewrite nl_cons in Hl. change (10 =? 10) with true in Hl. cbv iota in Hl.
  repeat split; try assumption; [|lia].
  left. cbn [fst]. destruct Hc as [Hc|[Hc1 Hc2]]; cbn [fst snd] in *; lia.
Qed.

Lemma newline_advance s : newline (advance s) = newline s.
Proof. reflexivity. Qed.

Lemma good_push_token NL t s r : good NL s r -> good NL (push_token t s) r.
Proof.
  intros (Hc & Hl & Ht & He). unfold good, push_token.
  cbn [cts line column tokens errors].
  set (col := if pair_eqb (cts s) (line s, column s) then column s + 1 else column s).
  assert (Hcol : column s <= col) by (subst col; destruct (pair_eqb _ _); lia).
  repeat split; try assumption.
  - apply pos_le_refl.
  - constructor; [|exact Ht]. cbn [tok_meta]. split; cbn [m_start m_end fst snd].
    + destruct Hc as [Hc|[Hc1 Hc2]]; [left; exact Hc|right]. cbn [fst snd] in *. split; [exact Hc1|lia].
    + lia.
Qed.

Lemma good_push_error NL e s r : good NL s r -> good NL (push_error e s) r.
Proof.
  intros (Hc & Hl & Ht & He). unfold good, push_error.
  cbn [cts line column tokens errors].
  repeat split; try assumption.
  constructor; [|exact He]. cbn [err_meta]. split; cbn [m_start m_end fst snd].
  - apply pos_le_refl.
  - lia.
Qed.

(* from here on [good] is only used through the lemmas above; [splits] splits syntactic
   conjunctions only (plain [split] would unfold [good]) *)
Ltac splits := repeat match goal with |- _ /\ _ => split end.

(* ------------------------------------------------------------------ primitives *)

Lemma next_matches_spec NL c s rest b s' r' :
  next_matches c s rest = (b, s', r') -> good NL s rest ->
  good NL s' r' /\ (length r' <= length rest)%nat /\
  (b = true -> rest = c :: r' /\ s' = advance s) /\
  (b = false -> s' = s /\ r' = rest /\ peek c rest = false).
Proof.
  unfold next_matches, peek. intros E G.
  destruct rest as [|x r].
  - inversion E; subst. split; [exact G|]. split; [lia|]. split; [discriminate|].
    intros _. splits; reflexivity.
  - destruct (x =? c) eqn:Ex; inversion E; subst.
    + apply N.eqb_eq in Ex. subst x.
      split; [apply good_advance; eapply good_drop; exact G|].
      split; [cbn [length]; lia|]. split; [|discriminate].
      intros _. split; reflexivity.
    + split; [exact G|]. split; [lia|]. split; [discriminate|].
      intros _. splits; reflexivity.
Qed.

Lemma take_while_spec NL p : forall rest s xs s' r',
  take_while p s rest = (xs, s', r') -> good NL s rest ->
  good NL s' r' /\ (length r' <= length rest)%nat.
Proof.
  induction rest as [|x r IH]; intros s xs s' r' E G; cbn [take_while] in E.
  - inversion E; subst. split; [assumption|lia].
  - destruct (p x).
    + destruct (take_while p (advance s) r) as [[xs0 s0] r0] eqn:E0.
      inversion E; subst.
      destruct (IH _ _ _ _ E0) as [G' L'].
      { apply good_advance. eapply good_drop; exact G. }
      split; [assumption|cbn [length]; lia].
    + inversion E; subst. split; [assumption|lia].
Qed.

Lemma run_optree_spec NL : forall tr s rest, good NL s rest ->
  good NL (fst (run_optree tr s rest)) (snd (run_optree tr s rest)) /\
  (length (snd (run_optree tr s rest)) <= length rest)%nat.
Proof.
  induction tr as [t|c y IHy n IHn]; intros s rest G; cbn [run_optree].
  - cbn [fst snd]. split; [apply good_push_token; assumption|lia].
  - destruct (next_matches c s rest) as [[b s1] r1] eqn:E.
    destruct (next_matches_spec NL _ _ _ _ _ _ E G) as (G1 & L1 & _ & _).
    destruct b.
    + destruct (IHy s1 r1 G1) as [G2 L2]. split; [assumption|lia].
    + destruct (IHn s1 r1 G1) as [G2 L2]. split; [assumption|lia].
Qed.

(* ------------------------------------------------------------------ block comments *)

Lemma comment_step_spec NL s rest d s' r' :
  comment_step s rest = (d, s', r') -> good NL s rest ->
  good NL s' r' /\ (length r' <= length rest)%nat /\
  (rest <> [] -> (length r' < length rest)%nat).
Proof.
  unfold comment_step. intros E G.
  destruct (next_matches c_slash s rest) as [[b1 s1] r1] eqn:E1.
  destruct (next_matches_spec NL _ _ _ _ _ _ E1 G) as (G1 & L1 & T1 & F1).
  destruct b1.
  - (* '/' consumed: progress made, the rest only shrinks *)
    destruct (T1 eq_refl) as [R1 _].
    assert (P1 : (length r1 < length rest)%nat) by (rewrite R1; cbn [length]; lia).
    destruct (next_matches c_star s1 r1) as [[b2 s2] r2] eqn:E2.
    destruct (next_matches_spec NL _ _ _ _ _ _ E2 G1) as (G2 & L2 & _ & _).
    destruct b2.
    { inversion E; subst. splits; try assumption; lia. }
    destruct (next_matches c_star s2 r2) as [[b3 s3] r3] eqn:E3.
    destruct (next_matches_spec NL _ _ _ _ _ _ E3 G2) as (G3 & L3 & _ & _).
    assert (X : forall b4 s4 r4,
      (if b3 then next_matches c_slash s3 r3 else (false, s3, r3)) = (b4, s4, r4) ->
      good NL s4 r4 /\ (length r4 <= length r3)%nat).
    { intros b4 s4 r4 E4. destruct b3.
      - destruct (next_matches_spec NL _ _ _ _ _ _ E4 G3) as (G4 & L4 & _ & _). split; assumption.
      - inversion E4; subst. split; [assumption|lia]. }
    destruct (if b3 then next_matches c_slash s3 r3 else (false, s3, r3)) as [[b4 s4] r4] eqn:E4.
    destruct (X _ _ _ eq_refl) as [G4 L4].
    destruct b4.
    { inversion E; subst. splits; try assumption; lia. }
    destruct (next_matches c_nl s4 r4) as [[b5 s5] r5] eqn:E5.
    destruct (next_matches_spec NL _ _ _ _ _ _ E5 G4) as (G5 & L5 & T5 & _).
    destruct b5.
    { destruct (T5 eq_refl) as [R5 S5]. inversion E; subst.
      splits; try lia.
      rewrite newline_advance. apply good_newline. exact G4. }
    destruct (negb (peek c_star r5) && negb (peek c_slash r5)); inversion E; subst.
    + splits.
      * apply good_advance. eapply good_weaken; [exact G5|apply nl_tl].
      * pose proof (length_tl_le r5). lia.
      * intros _. pose proof (length_tl_le r5). lia.
    + splits; try assumption; lia.
  - (* next char is not '/' *)
    destruct (F1 eq_refl) as (S1 & R1 & K1). subst s1 r1.
    cbn iota in E.
    destruct (next_matches c_star s rest) as [[b3 s3] r3] eqn:E3.
    destruct (next_matches_spec NL _ _ _ _ _ _ E3 G) as (G3 & L3 & T3 & F3).
    destruct b3.
    + destruct (T3 eq_refl) as [R3 _].
      assert (P3 : (length r3 < length rest)%nat) by (rewrite R3; cbn [length]; lia).
      destruct (next_matches c_slash s3 r3) as [[b4 s4] r4] eqn:E4.
      destruct (next_matches_spec NL _ _ _ _ _ _ E4 G3) as (G4 & L4 & _ & _).
      destruct b4.
      { inversion E; subst. splits; try assumption; lia. }
      destruct (next_matches c_nl s4 r4) as [[b5 s5] r5] eqn:E5.
      destruct (next_matches_spec NL _ _ _ _ _ _ E5 G4) as (G5 & L5 & T5 & _).
      destruct b5.
      { destruct (T5 eq_refl) as [R5 S5]. inversion E; subst.
        splits; try lia.
        rewrite newline_advance. apply good_newline. exact G4. }
      destruct (negb (peek c_star r5) && negb (peek c_slash r5)); inversion E; subst.
      * splits.
        -- apply good_advance. eapply good_weaken; [exact G5|apply nl_tl].
        -- pose proof (length_tl_le r5). lia.
        -- intros _. pose proof (length_tl_le r5). lia.
      * splits; try assumption; lia.
    + destruct (F3 eq_refl) as (S3 & R3 & K3). subst s3 r3.
      cbn iota in E.
      destruct (next_matches c_nl s rest) as [[b5 s5] r5] eqn:E5.
      destruct (next_matches_spec NL _ _ _ _ _ _ E5 G) as (G5 & L5 & T5 & F5).
      destruct b5.
      { destruct (T5 eq_refl) as [R5 S5]. inversion E; subst.
        splits.
        - rewrite newline_advance. apply good_newline. exact G.
        - cbn [length]; lia.
        - intros _. cbn [length]; lia. }
      destruct (F5 eq_refl) as (S5 & R5 & K5). subst s5 r5.
      rewrite K3, K1 in E. cbn [negb andb] in E. inversion E; subst.
      splits.
      * apply good_advance. eapply good_weaken; [exact G|apply nl_tl].
      * apply length_tl_le.
      * apply length_tl_lt.
Qed.

Lemma comment_loop_spec NL : forall fuel level s rest,
  (length rest < fuel)%nat -> good NL s rest ->
  exists s' r', comment_loop fuel level s rest = Ok (s', r') /\
                good NL s' r' /\ (length r' <= length rest)%nat.
Proof.
  induction fuel as [|f IH]; intros level s rest Hf G; [lia|].
  cbn [comment_loop].
  destruct rest as [|x r].
  - cbn [is_empty]. exists (push_error UnterminatedBlockComment s), [].
    splits; [reflexivity|apply good_push_error; assumption|lia].
  - cbn [is_empty].
    destruct (comment_step s (x :: r)) as [[d s1] r1] eqn:E.
    destruct (comment_step_spec NL _ _ _ _ _ E G) as (G1 & L1 & P1).
    assert (P : (length r1 < length (x :: r))%nat) by (apply P1; discriminate).
    destruct (apply_change d level =? 0).
    + exists s1, r1. splits; [reflexivity|assumption|lia].
    + destruct (IH (apply_change d level) s1 r1) as (s2 & r2 & E2 & G2 & L2); [lia|assumption|].
      exists s2, r2. splits; [assumption|assumption|lia].
Qed.

(* ------------------------------------------------------------------ numbers, words *)

Lemma scan_minus_spec NL s rest : good NL s rest ->
  good NL (fst (scan_minus s rest)) (snd (scan_minus s rest)) /\
  (length (snd (scan_minus s rest)) <= length rest)%nat.
Proof.
  intro G. unfold scan_minus.
  destruct (take_while is_digit s rest) as [[ds s1] r1] eqn:E1.
  destruct (take_while_spec NL _ _ _ _ _ _ E1 G) as [G1 L1].
  destruct (is_empty ds).
  - cbn [fst snd]. split; [apply good_push_token; assumption|lia].
  - destruct (parse_neg_i64 ds) as [n|].
    + destruct (take_while is_alphanumeric s1 r1) as [[suffix s2] r2] eqn:E2.
      destruct (take_while_spec NL _ _ _ _ _ _ E2 G1) as [G2 L2].
      destruct (signed_suffix n suffix) as [bad ty].
      cbn [fst snd]. split; [|lia].
      apply good_push_token. destruct bad; [apply good_push_error|]; assumption.
    + cbn [fst snd]. split; [apply good_push_error; assumption|lia].
Qed.

Lemma scan_number_spec NL c s rest : good NL s rest ->
  good NL (fst (scan_number c s rest)) (snd (scan_number c s rest)) /\
  (length (snd (scan_number c s rest)) <= length rest)%nat.
Proof.
  intro G. unfold scan_number.
  destruct (take_while is_digit s rest) as [[ds s1] r1] eqn:E1.
  destruct (take_while_spec NL _ _ _ _ _ _ E1 G) as [G1 L1].
  destruct (parse_u64 (c :: ds)) as [n|].
  - destruct (take_while is_alphanumeric s1 r1) as [[suffix s2] r2] eqn:E2.
    destruct (take_while_spec NL _ _ _ _ _ _ E2 G1) as [G2 L2].
    destruct (unsigned_suffix n suffix) as [bad tok].
    cbn [fst snd]. split; [|lia].
    apply good_push_token. destruct bad; [apply good_push_error|]; assumption.
  - cbn [fst snd]. split; [apply good_push_error; assumption|lia].
Qed.

Lemma scan_word_spec NL c s rest : good NL s rest ->
  good NL (fst (scan_word c s rest)) (snd (scan_word c s rest)) /\
  (length (snd (scan_word c s rest)) <= length rest)%nat.
Proof.
  intro G. unfold scan_word.
  destruct (take_while is_alphanumeric s rest) as [[cs s1] r1] eqn:E1.
  destruct (take_while_spec NL _ _ _ _ _ _ E1 G) as [G1 L1].
  cbn [fst snd]. split; [apply good_push_token; assumption|lia].
Qed.

(* ------------------------------------------------------------------ main loop *)

Lemma scan_char_spec NL f s c rest :
  (length rest < f)%nat -> good NL s (c :: rest) ->
  exists s' r', scan_char f s c rest = Ok (s', r') /\
                good NL s' r' /\ (length r' <= length rest)%nat.
Proof.
  intros Hf G0. unfold scan_char.
  assert (G : good NL s rest) by (eapply good_drop; exact G0).
  destruct ((c =? 32) || (c =? 13) || (c =? 9)).
  { eexists _, _. splits; [reflexivity|apply good_mark_start; exact G|lia]. }
  destruct (c =? c_nl) eqn:Enl.
  { apply N.eqb_eq in Enl. subst c. eexists _, _. splits; [reflexivity|apply good_newline; exact G0|lia]. }
  destruct (simple_op c) as [tr|].
  { destruct (run_optree_spec NL tr s rest G) as [G1 L1].
    exists (fst (run_optree tr s rest)), (snd (run_optree tr s rest)).
    rewrite <- surjective_pairing. splits; [reflexivity|assumption|assumption]. }
  destruct (c =? c_slash).
  { destruct (next_matches c_eq s rest) as [[b1 s1] r1] eqn:E1.
    destruct (next_matches_spec NL _ _ _ _ _ _ E1 G) as (G1 & L1 & _ & _).
    destruct b1.
    { eexists _, _. splits; [reflexivity|apply good_push_token; exact G1|lia]. }
    destruct (next_matches c_slash s1 r1) as [[b2 s2] r2] eqn:E2.
    destruct (next_matches_spec NL _ _ _ _ _ _ E2 G1) as (G2 & L2 & _ & _).
    destruct b2.
    { destruct (take_while (fun x => negb (x =? c_nl)) s2 r2) as [[xs s3] r3] eqn:E3.
      destruct (take_while_spec NL _ _ _ _ _ _ E3 G2) as [G3 L3].
      eexists _, _. splits; [reflexivity|exact G3|lia]. }
    destruct (next_matches c_star s2 r2) as [[b3 s3] r3] eqn:E3.
    destruct (next_matches_spec NL _ _ _ _ _ _ E3 G2) as (G3 & L3 & _ & _).
    destruct b3.
    { destruct (comment_loop_spec NL f 1 s3 r3) as (s4 & r4 & E4 & G4 & L4); [lia|exact G3|].
      exists s4, r4. splits; [exact E4|exact G4|lia]. }
    eexists _, _. splits; [reflexivity|apply good_push_token; exact G3|lia]. }
  destruct (c =? c_minus).
  { destruct (next_matches c_eq s rest) as [[b1 s1] r1] eqn:E1.
    destruct (next_matches_spec NL _ _ _ _ _ _ E1 G) as (G1 & L1 & _ & _).
    destruct b1.
    { eexists _, _. splits; [reflexivity|apply good_push_token; exact G1|lia]. }
    destruct (next_matches c_gt s1 r1) as [[b2 s2] r2] eqn:E2.
    destruct (next_matches_spec NL _ _ _ _ _ _ E2 G1) as (G2 & L2 & _ & _).
    destruct b2.
    { eexists _, _. splits; [reflexivity|apply good_push_token; exact G2|lia]. }
    destruct (scan_minus_spec NL s2 r2 G2) as [G3 L3].
    exists (fst (scan_minus s2 r2)), (snd (scan_minus s2 r2)).
    rewrite <- surjective_pairing. splits; [reflexivity|exact G3|lia]. }
  destruct (is_digit c).
  { destruct (scan_number_spec NL c s rest G) as [G1 L1].
    exists (fst (scan_number c s rest)), (snd (scan_number c s rest)).
    rewrite <- surjective_pairing. splits; [reflexivity|assumption|assumption]. }
  destruct (is_alphanumeric c).
  { destruct (scan_word_spec NL c s rest G) as [G1 L1].
    exists (fst (scan_word c s rest)), (snd (scan_word c s rest)).
    rewrite <- surjective_pairing. splits; [reflexivity|assumption|assumption]. }
  eexists _, _. splits; [reflexivity|apply good_push_error; exact G|lia].
Qed.

Lemma scan_loop_spec NL : forall fuel s rest,
  (length rest < fuel)%nat -> good NL s rest ->
  exists s', scan_loop fuel s rest = Ok s' /\ good NL s' [].
Proof.
  induction fuel as [|f IH]; intros s rest Hf G; [lia|].
  cbn [scan_loop]. destruct rest as [|c r].
  - exists s. split; [reflexivity|assumption].
  - cbn [length] in Hf.
    destruct (scan_char_spec NL f s c r) as (s1 & r1 & E1 & G1 & L1); [lia|exact G|].
    rewrite E1. cbn [bind fst snd].
    apply IH; [lia|apply good_advance; exact G1].
Qed.

(* ------------------------------------------------------------------ whole scanner *)

Lemma good_init NL rest : nl rest <= NL -> good NL init rest.
Proof.
  intro H. unfold good, init. cbn [cts line column tokens errors].
  split; [right; cbn [fst snd]; split; [reflexivity|lia]|].
  split; [cbn [line]; lia|]. split; constructor.
Qed.

Lemma chars_length bs : (length (chars_of_bytes bs) <= length bs)%nat.
Proof.
  unfold chars_of_bytes. induction bs as [|b r IH]; cbn [filter length]; [lia|].
  destruct (negb (is_cont b)); cbn [length]; lia.
Qed.

(* '\n' (10) is not a UTF-8 continuation byte, so the bytes and the chars have the same
   number of newlines *)
Lemma chars_nl bs : nl (chars_of_bytes bs) = nl bs.
Proof.
  unfold chars_of_bytes. induction bs as [|b r IH]; [reflexivity|].
  cbn [filter]. destruct (is_cont b) eqn:Ec; cbn [negb].
  - rewrite nl_cons, IH.
    assert (b =? 10 = false) as ->; [|lia].
    unfold is_cont in Ec. apply andb_true_iff in Ec. destruct Ec as [E1 _].
    apply N.leb_le in E1. apply N.eqb_neq. lia.
  - rewrite !nl_cons, IH. reflexivity.
Qed.

Lemma finish_ok NL s : good NL s [] -> out_ok NL (finish s).
Proof.
  intros (_ & _ & Ht & He). unfold finish, out_ok.
  destruct (errors s) as [|e es] eqn:Ee.
  - apply Forall_rev. exact Ht.
  - split.
    + intro H. apply (f_equal (@length _)) in H. rewrite rev_length in H. cbn [length] in H. lia.
    + apply Forall_rev. exact He.
Qed.

(* the three scanner theorems in one statement *)
Lemma scan_text_spec bytes :
  exists out, scan_text bytes = Ok out /\ out_ok (nl bytes) out.
Proof.
  unfold scan_text, scan, fuel_for.
  destruct (scan_loop_spec (nl bytes) (S (length bytes)) init (chars_of_bytes bytes)) as (s & E & G).
  - pose proof (chars_length bytes). lia.
  - apply good_init. rewrite chars_nl. lia.
  - rewrite E. cbn [bind]. exists (finish s). split; [reflexivity|apply finish_ok; exact G].
Qed.

Lemma scan_total_lemma bytes : exists out, scan (fuel_for bytes) bytes = Ok out.
Proof. destruct (scan_text_spec bytes) as (out & E & _). exists out. exact E. Qed.

Lemma scan_result_lemma bytes out :
  scan (fuel_for bytes) bytes = Ok out ->
  match out with STokens _ => True | SErrors es => es <> [] end.
Proof.
  intro E. destruct (scan_text_spec bytes) as (out' & E' & O).
  unfold scan_text in E'. rewrite E in E'. inversion E'; subst out'.
  destruct out; [exact I|exact (proj1 O)].
Qed.

Lemma scan_locs_lemma bytes out :
  scan (fuel_for bytes) bytes = Ok out ->
  match out with
  | STokens ts => forall t m, In (Token t m) ts -> meta_ok (nl bytes) m
  | SErrors es => forall e m, In (ScanError e m) es -> meta_ok (nl bytes) m
  end.
Proof.
  intro E. destruct (scan_text_spec bytes) as (out' & E' & O).
  unfold scan_text in E'. rewrite E in E'. inversion E'; subst out'.
  destruct out as [ts|es]; cbn [out_ok] in O.
  - intros t m Hin. rewrite Forall_forall in O. exact (O _ Hin).
  - intros e m Hin. destruct O as [_ O]. rewrite Forall_forall in O. exact (O _ Hin).
Qed.

(* fuel monotonicity is not needed: the fuel is fixed by [fuel_for]. *)
