(* The parser model of Front/ParseExpr.v does not look at the locations of the tokens: on the
   tokens with their locations forgotten ([unloc]) every parser function gives the same tree and
   the same remaining tokens with their locations forgotten.  Consequently the functions that
   return no tokens ([parse_block_text], [parse_program_text], [parse_literal_text]) give EQUAL
   results, and the text-level round trip of ScanPrint.v holds for the scanned tokens themselves.

   PART 2 (below): a printer for statements, function bodies, function definitions and programs
   made of function definitions ([show_stmt], [show_stmts], [show_fn], [show_program]); the parser
   is a left inverse of it on the well-formed trees ([parse_show_block], [parse_show_program]),
   also from the printed TEXT through the scanner ([scan_parse_show_program]). *)
From Coq Require Import Lia ZArith String List.
From GV Require Import Base.Util Front.Scan Front.ParseExpr Front.ParseExprProofs Front.ScanPrint.
Local Open Scope N_scope.

Definition ul (s : pstate) : pstate := PState (unloc (toks s)) (sla s).

Definition rmap {A} (r : pres A) : pres A :=
  match r with
  | POk a s => POk a (ul s)
  | PErr => PErr
  | PNoFuel => PNoFuel
  | POutside o => POutside o
  end.

(* r' is r with the locations of the remaining tokens forgotten *)
Definition R {A} (r r' : pres A) : Prop := r' = rmap r.

Lemma unloc_cons t m r : unloc (Token t m :: r) = Token t m0 :: unloc r.
Proof. reflexivity. Qed.

Lemma ul_state r b : PState (unloc r) b = ul (PState r b).
Proof. reflexivity. Qed.

Lemma toks_ul s : toks (ul s) = unloc (toks s). Proof. reflexivity. Qed.
Lemma sla_ul s : sla (ul s) = sla s. Proof. reflexivity. Qed.
Lemma set_sla_ul b s : set_sla b (ul s) = ul (set_sla b s). Proof. reflexivity. Qed.

Lemma peek_ul t s : peek t (ul s) = peek t s.
Proof. unfold peek. cbn [ul toks]. destruct (toks s) as [|[t' m] r]; reflexivity. Qed.

Lemma next_matches_ul t s : next_matches t (ul s) = option_map ul (next_matches t s).
Proof.
  unfold next_matches. cbn [ul toks sla]. destruct (toks s) as [|[t' m] r]; [reflexivity|].
  rewrite unloc_cons. destruct (teqb t' t); reflexivity.
Qed.

Lemma advance_ul s : advance (ul s) = option_map (fun p => (fst p, ul (snd p))) (advance s).
Proof. unfold advance. cbn [ul toks sla]. destruct (toks s) as [|[t' m] r]; reflexivity. Qed.

Lemma next_op_ul ops s : next_op ops (ul s) = option_map (fun p => (fst p, ul (snd p))) (next_op ops s).
Proof.
  unfold next_op. cbn [ul toks sla]. destruct (toks s) as [|[t' m] r]; [reflexivity|].
  rewrite unloc_cons. destruct (ops t'); reflexivity.
Qed.

Lemma block_ends_ul s : block_ends (ul s) = block_ends s.
Proof. unfold block_ends. rewrite !peek_ul. cbn [ul toks]. destruct (toks s); reflexivity. Qed.

Lemma R_refl_ok {A} (a : A) s : R (POk a s) (POk a (ul s)). Proof. reflexivity. Qed.

Lemma R_bind {A B} (m m' : pres A) (k k' : A -> pstate -> pres B) :
  R m m' -> (forall a s1, R (k a s1) (k' a (ul s1))) -> R (bindp m k) (bindp m' k').
Proof. unfold R. intros -> Hk. destruct m; cbn [rmap bindp]; auto. Qed.

Lemma R_expect {A} t s (k k' : pstate -> pres A) :
  (forall s1, R (k s1) (k' (ul s1))) -> R (expect t s k) (expect t (ul s) k').
Proof. intro H. unfold expect. rewrite next_matches_ul. destruct (next_matches t s); cbn [option_map]; [apply H|reflexivity]. Qed.

Lemma R_expect_id {A} s (k k' : list N -> pstate -> pres A) :
  (forall id s1, R (k id s1) (k' id (ul s1))) -> R (expect_identifier s k) (expect_identifier (ul s) k').
Proof.
  intro H. unfold expect_identifier. cbn [ul toks sla]. destruct (toks s) as [|[t m] r]; [reflexivity|].
  rewrite unloc_cons. destruct t; try reflexivity. rewrite ul_state. apply H.
Qed.

Lemma R_opt_semicolon {A} s (k k' : pstate -> pres A) :
  (forall s1, R (k s1) (k' (ul s1))) -> R (opt_semicolon s k) (opt_semicolon (ul s) k').
Proof. intro H. unfold opt_semicolon. rewrite !peek_ul. destruct (_ && _); [now apply R_expect|apply H]. Qed.

Lemma isnil_unloc (l : list token) :
  match unloc l with [] => true | _ :: _ => false end = match l with [] => true | _ :: _ => false end.
Proof. destruct l; reflexivity. Qed.

Ltac ul_rw := cbn [toks sla]; rewrite ?set_sla_ul, ?peek_ul, ?next_matches_ul, ?advance_ul, ?next_op_ul, ?block_ends_ul, ?set_sla_ul, ?sla_ul, ?toks_ul, ?isnil_unloc.
Ltac ul_fold := repeat match goal with |- context [PState (unloc ?r) ?b] => rewrite (ul_state r b) end.

Ltac ul_step :=
  ul_rw;
  match goal with
  | |- R (POk ?a ?s) (POk ?a (ul ?s)) => reflexivity
  | |- R PErr PErr => reflexivity
  | |- R PNoFuel PNoFuel => reflexivity
  | |- R (POutside ?o) (POutside ?o) => reflexivity
  | |- R (bindp _ _) (bindp _ _) => apply R_bind; [|intros ? ?]
  | |- R (expect _ _ _) (expect _ _ _) => apply R_expect; intros ?
  | |- R (expect_identifier _ _) (expect_identifier _ _) => apply R_expect_id; intros ? ?
  | |- R (opt_semicolon _ _) (opt_semicolon _ _) => apply R_opt_semicolon; intros ?
  | |- R (match ?x with _ => _ end) (match option_map (fun p => (fst p, ul (snd p))) ?x with _ => _ end) =>
      destruct x as [[? ?]|]; cbn [option_map fst snd]
  | |- R (match ?x with _ => _ end) (match option_map _ ?x with _ => _ end) => destruct x; cbn [option_map fst snd]
  | |- R (match toks ?s with _ => _ end) (match unloc (toks ?s) with _ => _ end) =>
      let t := fresh "t" in let m := fresh "m" in let r := fresh "r" in
      destruct (toks s) as [|[t m] r]; [change (unloc []) with (@nil token)|rewrite unloc_cons; ul_fold]; cbv beta iota
  | |- R (match ?l with _ => _ end) (match unloc ?l with _ => _ end) =>
      let t := fresh "t" in let m := fresh "m" in let r := fresh "r" in
      destruct l as [|[t m] r]; [change (unloc []) with (@nil token)|rewrite unloc_cons; ul_fold]; cbv beta iota
  | |- R (match ?x with _ => _ end) (match ?x with _ => _ end) => destruct x
  | |- _ => solve [eauto]
  end.
Definition Rf {A} (f : pstate -> pres A) : Prop := forall s, R (f s) (f (ul s)).
Definition Rn (f : nat -> pstate -> pres uexpr) : Prop := forall n, Rf (f n).

Ltac ulp0 := cbv zeta; repeat ul_step.
Ltac ulp := unfold Rf, Rn in *; ulp0.

(* ------------------------------------------------------------------ loops over lists, types, patterns *)

Lemma strict_comma_loop_ul {A} (item : pstate -> pres A) : Rf item ->
  forall n acc s, R (strict_comma_loop item n acc s) (strict_comma_loop item n acc (ul s)).
Proof. intro Hi. induction n as [|n IH]; intros acc s; cbn [strict_comma_loop]; ulp. Qed.

Lemma sep_loop_ul {A} (item : pstate -> pres A) close : Rf item ->
  forall n acc s, R (sep_loop item close n acc s) (sep_loop item close n acc (ul s)).
Proof. intro Hi. induction n as [|n IH]; intros acc s; cbn [sep_loop]; ulp. Qed.

Lemma comma_loop_ul pe close : Rf pe ->
  forall n acc s, R (comma_loop pe close n acc s) (comma_loop pe close n acc (ul s)).
Proof. intro Hi. induction n as [|n IH]; intros acc s; cbn [comma_loop]; ulp. Qed.

Lemma parse_type_ul pe : Rf pe -> forall n, Rf (parse_type pe n).
Proof.
  intro Hp. induction n as [|n IH]; intro s; cbn [parse_type]; [reflexivity|].
  pose proof (strict_comma_loop_ul (parse_type pe n) IH) as Hl. ulp.
Qed.

Lemma pattern_field_ul pp : Rf pp -> Rf (pattern_field pp).
Proof. intros Hp s. unfold pattern_field. ulp. Qed.

Lemma field_loop_ul pp : Rf pp -> forall n acc s, R (field_loop pp n acc s) (field_loop pp n acc (ul s)).
Proof.
  intro Hp. pose proof (pattern_field_ul pp Hp) as Hf.
  induction n as [|n IH]; intros acc s; cbn [field_loop]; ulp.
Qed.

Lemma pattern_fields_ul pp : Rf pp -> forall n, Rf (pattern_fields pp n).
Proof. intros Hp n s. unfold pattern_fields. pose proof (sep_loop_ul pp TRightParen Hp) as Hl. ulp. Qed.

Lemma parse_pattern_ul : forall n, Rf (parse_pattern n).
Proof.
  induction n as [|n IH]; intro s; cbn [parse_pattern]; [reflexivity|].
  pose proof (pattern_fields_ul (parse_pattern n) IH n) as H1.
  pose proof (pattern_field_ul (parse_pattern n) IH) as H2.
  pose proof (field_loop_ul (parse_pattern n) IH n) as H3.
  ulp.
Qed.

(* ------------------------------------------------------------------ literals *)

Lemma struct_field_ul olc pe : Rf pe -> Rf (struct_field olc pe).
Proof. intros Hp s. unfold struct_field. ulp. Qed.

Lemma parse_literal_gen_ul olc pe : Rf pe -> forall n t, Rf (parse_literal_gen olc pe n t).
Proof.
  intros Hp n t s. unfold parse_literal_gen.
  pose proof (comma_loop_ul pe TRightParen Hp n) as H1.
  pose proof (comma_loop_ul pe TRightBracket Hp n) as H2.
  pose proof (struct_field_ul olc pe Hp) as H3.
  pose proof (sep_loop_ul (struct_field olc pe) TRightBrace H3 n) as H4.
  ulp.
Qed.

(* ------------------------------------------------------------------ one nesting level of parse_expr *)

Section LevelUl.
  Variable pe : pstate -> pres uexpr.
  Hypothesis Hp : Rf pe.

  Lemma postfix_loop_ul : forall n x, Rf (postfix_loop pe n x).
  Proof. induction n as [|n IH]; intros x s; cbn [postfix_loop]; ulp. Qed.

  Lemma parse_primary_base_ul n : Rf (parse_primary_base pe n).
  Proof.
    intro s. unfold parse_primary_base, parse_literal.
    pose proof (parse_literal_gen_ul false pe Hp n) as H1.
    pose proof (comma_loop_ul pe TRightParen Hp n) as H2. ulp.
  Qed.

  Lemma parse_primary_ul n : Rf (parse_primary pe n).
  Proof.
    intro s. unfold parse_primary. pose proof (parse_primary_base_ul n) as H1. pose proof (postfix_loop_ul n) as H2. ulp.
  Qed.

  Lemma parse_unary_ul : forall n, Rf (parse_unary pe n).
  Proof. induction n as [|n IH]; intro s; cbn [parse_unary]; [reflexivity|]. pose proof (parse_primary_ul n) as H1. ulp. Qed.

  Lemma R_opt_type {A} n s (k k' : option utype -> pstate -> pres A) :
    (forall ty s1, R (k ty s1) (k' ty (ul s1))) -> R (opt_type pe n s k) (opt_type pe n (ul s) k').
  Proof. intro Hk. unfold opt_type. pose proof (parse_type_ul pe Hp n) as H1. ulp. Qed.

  Lemma parse_stmt_ul n : Rf (parse_stmt pe n).
  Proof.
    intro s. unfold parse_stmt. pose proof (parse_pattern_ul n) as H1.
    ulp; try (apply R_opt_type; intros ? ?; ulp).
  Qed.

  Lemma stmts_loop_ul : forall n acc, Rf (stmts_loop pe n acc).
  Proof. induction n as [|n IH]; intros acc s; cbn [stmts_loop]; [reflexivity|]. pose proof (parse_stmt_ul n) as H1. ulp. Qed.

  Lemma parse_stmts_ul n : Rf (parse_stmts pe n).
  Proof. intro s. unfold parse_stmts, parse_stmts_of_block. pose proof (stmts_loop_ul n []) as H1. ulp. Qed.

  Lemma parse_block_as_expr_ul n : Rf (parse_block_as_expr pe n).
  Proof. intro s. unfold parse_block_as_expr. pose proof (parse_stmts_ul n) as H1. ulp. Qed.

  Lemma parse_match_clause_ul n : Rf (parse_match_clause pe n).
  Proof. intro s. unfold parse_match_clause. pose proof (parse_pattern_ul n) as H1. pose proof (parse_stmt_ul n) as H2. ulp. Qed.

  Lemma match_loop_ul : forall n ewb acc, Rf (match_loop pe n ewb acc).
  Proof.
    induction n as [|n IH]; intros ewb acc s; cbn [match_loop]; [reflexivity|].
    pose proof (parse_match_clause_ul n) as H1. ulp.
  Qed.

  Lemma parse_if_or_match_ul : forall n, Rf (parse_if_or_match pe n).
  Proof.
    induction n as [|n IH]; intro s; cbn [parse_if_or_match]; [reflexivity|].
    pose proof (parse_block_as_expr_ul n) as H1. pose proof (parse_match_clause_ul n) as H2.
    pose proof (match_loop_ul n) as H3. pose proof (parse_unary_ul n) as H4. ulp.
  Qed.

  Lemma cast_loop_ul : forall n x, Rf (cast_loop pe n x).
  Proof. induction n as [|n IH]; intros x s; cbn [cast_loop]; [reflexivity|]. pose proof (parse_type_ul pe Hp n) as H1. ulp. Qed.

  Lemma parse_cast_ul : Rn (parse_cast pe).
  Proof. intros n s. unfold parse_cast. pose proof (parse_if_or_match_ul n) as H1. pose proof (cast_loop_ul n) as H2. ulp. Qed.

  Lemma binloop_ul ops sub : Rn sub -> forall n x, Rf (binloop ops sub n x).
  Proof. intro Hs. induction n as [|n IH]; intros x s; cbn [binloop]; [reflexivity|]. pose proof (Hs n) as H1. ulp. Qed.

  Lemma binlevel_ul ops sub : Rn sub -> Rn (binlevel ops sub).
  Proof. intros Hs n s. unfold binlevel. pose proof (Hs n) as H1. pose proof (binloop_ul ops sub Hs n) as H2. ulp. Qed.

  Lemma parse_short_circuiting_or_ul : Rn (parse_short_circuiting_or pe).
  Proof.
    unfold parse_short_circuiting_or, parse_short_circuiting_and, parse_equality, parse_comparison, parse_or,
      parse_xor, parse_and, parse_shift, parse_term, parse_factor.
    repeat apply binlevel_ul. apply parse_cast_ul.
  Qed.

  Lemma parse_expr_body_ul n : Rf (parse_expr_body pe n).
  Proof.
    intro s. unfold parse_expr_body. pose proof (parse_stmts_ul n) as H1.
    pose proof (parse_short_circuiting_or_ul n) as H2. ulp.
  Qed.
End LevelUl.

Theorem parse_expr_st_ul : forall f, Rf (parse_expr_st f).
Proof. induction f as [|f IH]; intro s; cbn [parse_expr_st]; [reflexivity|]. now apply parse_expr_body_ul. Qed.

(* the same, spelled out *)
Corollary parse_expr_st_unloc f ts b :
  parse_expr_st f (PState (unloc ts) b) =
  match parse_expr_st f (PState ts b) with
  | POk e s => POk e (PState (unloc (toks s)) (sla s))
  | r => r
  end.
Proof.
  rewrite ul_state, (parse_expr_st_ul f (PState ts b)).
  destruct (parse_expr_st f (PState ts b)); reflexivity.
Qed.

(* ------------------------------------------------------------------ parse_expr *)

Theorem parse_expr_unloc fuel ts :
  parse_expr fuel (unloc ts) = option_map (fun p => (fst p, unloc (snd p))) (parse_expr fuel ts).
Proof.
  unfold parse_expr. rewrite (ul_state ts true), (parse_expr_st_ul fuel (PState ts true)).
  destruct (parse_expr_st fuel (PState ts true)); reflexivity.
Qed.

Corollary parse_expr_unloc_all fuel ts e :
  parse_expr fuel (unloc ts) = Some (e, []) <-> parse_expr fuel ts = Some (e, []).
Proof.
  rewrite parse_expr_unloc. destruct (parse_expr fuel ts) as [[e' [|t r]]|]; cbn [option_map fst snd unloc map];
    split; intro H; try discriminate; assumption.
Qed.

(* ------------------------------------------------------------------ the literal mode *)

Lemma parse_literal_recursively_ul : forall n, Rf (parse_literal_recursively n).
Proof.
  induction n as [|n IH]; intro s; cbn [parse_literal_recursively]; [reflexivity|].
  pose proof (parse_literal_gen_ul true _ IH n) as H1. ulp.
Qed.

(* results that carry no tokens are EQUAL *)
Lemma E_bind {A B} (m m' : pres A) (k k' : A -> pstate -> pres B) :
  R m m' -> (forall a s1, k a s1 = k' a (ul s1)) -> bindp m k = bindp m' k'.
Proof. unfold R. intros -> Hk. destruct m; cbn [rmap bindp]; auto. Qed.

Lemma E_expect {A} t s (k k' : pstate -> pres A) :
  (forall s1, k s1 = k' (ul s1)) -> expect t s k = expect t (ul s) k'.
Proof. intro H. unfold expect. rewrite next_matches_ul. destruct (next_matches t s); cbn [option_map]; [apply H|reflexivity]. Qed.

Lemma E_done {A} (a : A) s :
  match toks s with [] => POk a s | _ :: _ => PErr end = match toks (ul s) with [] => POk a (ul s) | _ :: _ => PErr end.
Proof. destruct s as [[|[t m] r] b]; reflexivity. Qed.

Theorem parse_literal_text_unloc fuel ts : parse_literal_text fuel (unloc ts) = parse_literal_text fuel ts.
Proof.
  unfold parse_literal_text. rewrite (ul_state ts true), advance_ul.
  destruct (advance (PState ts true)) as [[t s1]|]; cbn [option_map fst snd]; [|reflexivity].
  symmetry. apply E_bind.
  - apply parse_literal_gen_ul. apply parse_literal_recursively_ul.
  - intros. apply E_done.
Qed.

(* ------------------------------------------------------------------ a function body *)

Lemma unloc_app a b : unloc (a ++ b) = unloc a ++ unloc b.
Proof. apply map_app. Qed.

Theorem parse_block_text_unloc fuel ts : parse_block_text fuel (unloc ts) = parse_block_text fuel ts.
Proof.
  unfold parse_block_text. cbv zeta.
  change [Token TRightBrace (Meta (0, 0) (0, 0))] with (unloc [Token TRightBrace (Meta (0, 0) (0, 0))]) at 1.
  rewrite <- unloc_app, ul_state. symmetry. apply E_bind.
  - apply parse_stmts_ul. apply parse_expr_st_ul.
  - intros. apply E_expect. intros. apply E_done.
Qed.

(* ------------------------------------------------------------------ top-level items *)

Section ItemsUl.
  Variable fuel : nat.
  Let Hp : Rf (parse_expr_st fuel) := parse_expr_st_ul fuel.
  Let Hty : Rf (parse_type (parse_expr_st fuel) fuel) := parse_type_ul _ Hp fuel.

  Lemma parse_const_def_ul : Rf (parse_const_def fuel).
  Proof. intro s. unfold parse_const_def. ulp. Qed.

  Lemma parse_field_def_ul : Rf (parse_field_def fuel).
  Proof. intro s. unfold parse_field_def. ulp. Qed.

  Lemma parse_struct_def_ul : Rf (parse_struct_def fuel).
  Proof.
    intro s. unfold parse_struct_def. pose proof parse_field_def_ul as H1.
    pose proof (sep_loop_ul _ TRightBrace H1 fuel) as H2. ulp.
  Qed.

  Lemma parse_variant_ul : Rf (parse_variant fuel).
  Proof.
    intro s. unfold parse_variant.
    pose proof (sep_loop_ul _ TRightParen Hty fuel) as H2. ulp.
  Qed.

  Lemma parse_enum_def_ul : Rf (parse_enum_def fuel).
  Proof.
    intro s. unfold parse_enum_def. pose proof parse_variant_ul as H1.
    pose proof (sep_loop_ul _ TRightBrace H1 fuel) as H2. ulp.
  Qed.

  Lemma parse_param_ul : Rf (parse_param fuel).
  Proof.
    intro s. unfold parse_param. rewrite next_matches_ul.
    destruct (next_matches TKeywordMut s); cbn [option_map]; ulp.
  Qed.

  Lemma parse_params_ul : Rf (parse_params fuel).
  Proof.
    intro s. unfold parse_params. pose proof parse_param_ul as H1.
    pose proof (sep_loop_ul _ TRightParen H1 fuel) as H2. ulp.
  Qed.

  Lemma parse_fn_def_ul is_pub : Rf (parse_fn_def fuel is_pub).
  Proof.
    intro s. unfold parse_fn_def. pose proof parse_params_ul as H1.
    pose proof (parse_stmts_ul _ Hp fuel) as H2. ulp.
  Qed.

  Lemma items_loop_unloc : forall n is_pub prog s,
    items_loop fuel n is_pub prog (ul s) = items_loop fuel n is_pub prog s.
  Proof.
    induction n as [|n IH]; intros is_pub prog s; cbn [items_loop]; [reflexivity|].
    rewrite advance_ul. destruct (advance s) as [[t s1]|] eqn:E; cbn [option_map fst snd].
    - destruct t; try reflexivity;
        try (symmetry; apply E_bind;
             [first [apply parse_const_def_ul|apply parse_enum_def_ul|apply parse_fn_def_ul|apply parse_struct_def_ul]
             |intros; symmetry; apply IH]).
      destruct is_pub; [reflexivity|apply IH].
    - unfold advance in E. destruct s as [[|[t m] r] b]; [reflexivity|discriminate].
  Qed.
End ItemsUl.

Theorem parse_program_text_unloc fuel ts : parse_program_text fuel (unloc ts) = parse_program_text fuel ts.
Proof. unfold parse_program_text. rewrite ul_state. apply items_loop_unloc. Qed.

(* ------------------------------------------------------------------ the text-level round trip,
   for the scanned tokens themselves (locations and all) *)

Theorem scan_parse_show_min_loc e : wf_expr e -> Forall tok_printable (map kind (show_min e)) ->
  exists ts' fuel, scan_text (show_text e) = Ok (STokens ts') /\
                   map kind ts' = map kind (show_min e) /\
                   parse_expr fuel ts' = Some (e, []).
Proof.
  intros Hwf Hp. destruct (scan_parse_show_min e Hwf Hp) as (ts' & fuel & Hs & Hk & Hf).
  exists ts', fuel. split; [exact Hs|]. split; [exact Hk|]. now apply parse_expr_unloc_all.
Qed.

Print Assumptions parse_expr_st_ul.
Print Assumptions parse_expr_unloc.
Print Assumptions parse_literal_text_unloc.
Print Assumptions parse_block_text_unloc.
Print Assumptions parse_program_text_unloc.
Print Assumptions scan_parse_show_min_loc.

(* ================================================================== PART 2: a printer for
   statements, blocks, function definitions and programs; the parser is a left inverse *)

(* ------------------------------------------------------------------ printing *)

(* the patterns printed here: one token *)
Definition pat_tok (p : upattern) : token_enum :=
  match p with
  | PIdentifier s => TIdentifier s
  | PTrue => TIdentifier s_true
  | PFalse => TIdentifier s_false
  | PNumUnsigned n t => TUnsignedNum n t
  | PNumSigned z t => TSignedNum z t
  | _ => TComma      (* not printed: outside [wf_pat] *)
  end.

Definition wf_pat (p : upattern) : Prop :=
  match p with
  | PIdentifier s => ident_ok s
  | PTrue | PFalse | PNumUnsigned _ _ | PNumSigned _ _ => True
  | _ => False
  end.

Definition show_ty (ty : utype) : list token := [tk (TIdentifier (type_name ty))].

Definition show_ty_ann (ty : option utype) : list token :=
  match ty with Some t => tk TColon :: show_ty t | None => [] end.

Definition wf_oty (ty : option utype) : Prop := match ty with Some t => wf_type t | None => True end.

Fixpoint show_stmt (st : ustmt) : list token :=
  match st with
  | SLet p ty e =>
      tk TKeywordLet :: tk (pat_tok p) :: show_ty_ann ty ++ tk TEq :: show_raw e ++ [tk TSemicolon]
  | SLetMut x ty e =>
      tk TKeywordLet :: tk TKeywordMut :: tk (TIdentifier x) :: show_ty_ann ty ++ tk TEq :: show_raw e ++ [tk TSemicolon]
  | SVarAssign x accs e => show_raw (target_expr x accs) ++ tk TEq :: show_raw e ++ [tk TSemicolon]
  | SForEach p e body =>
      tk TKeywordFor :: tk (pat_tok p) :: tk TKeywordIn :: show_raw e ++ tk TLeftBrace ::
        (fix go (l : list ustmt) : list token := match l with [] => [] | s :: r => show_stmt s ++ go r end) body
        ++ [tk TRightBrace]
  | SExpr e => parens (show_raw e) ++ [tk TSemicolon]
  end.

Fixpoint show_stmts (l : list ustmt) : list token :=
  match l with [] => [] | s :: r => show_stmt s ++ show_stmts r end.

Lemma go_stmts l :
  (fix go (l : list ustmt) : list token := match l with [] => [] | s :: r => show_stmt s ++ go r end) l = show_stmts l.
Proof. induction l as [|s r IH]; [reflexivity|]. cbn [show_stmts]. now rewrite <- IH. Qed.

Lemma show_for p e body : show_stmt (SForEach p e body) =
  tk TKeywordFor :: tk (pat_tok p) :: tk TKeywordIn :: show_raw e ++ tk TLeftBrace :: show_stmts body ++ [tk TRightBrace].
Proof.
  cbn [show_stmt]. now rewrite go_stmts.
Qed.

(* the statements the printer covers: expressions inside [wf_expr] (no blocks, match, array /
   struct / enum literals, ranges INSIDE expressions), one-token patterns, types that are named
   by an identifier; the bodies of `for` loops are statements of the same kind, nested at will *)
Fixpoint wf_stmt (st : ustmt) : Prop :=
  match st with
  | SLet p ty e => wf_pat p /\ wf_oty ty /\ wf_expr e
  | SLetMut x ty e => wf_oty ty /\ wf_expr e
  | SVarAssign x accs e => wf_expr (target_expr x accs) /\ wf_expr e
  | SForEach p e body =>
      wf_pat p /\ wf_expr e /\
      (fix all (l : list ustmt) : Prop := match l with [] => True | s :: r => wf_stmt s /\ all r end) body
  | SExpr e => wf_expr e
  end.

Fixpoint wf_stmts (l : list ustmt) : Prop :=
  match l with [] => True | s :: r => wf_stmt s /\ wf_stmts r end.

Lemma all_stmts l :
  (fix all (l : list ustmt) : Prop := match l with [] => True | s :: r => wf_stmt s /\ all r end) l = wf_stmts l.
Proof. induction l as [|s r IH]; [reflexivity|]. cbn [wf_stmts]. now rewrite <- IH. Qed.

Lemma wf_for p e body : wf_stmt (SForEach p e body) = (wf_pat p /\ wf_expr e /\ wf_stmts body).
Proof.
  cbn [wf_stmt]. now rewrite all_stmts.
Qed.

Section StmtInd.
  Variable P : ustmt -> Prop.
  Hypothesis Hlet : forall p ty e, P (SLet p ty e).
  Hypothesis Hmut : forall x ty e, P (SLetMut x ty e).
  Hypothesis Hasg : forall x accs e, P (SVarAssign x accs e).
  Hypothesis Hfor : forall p e body, Forall P body -> P (SForEach p e body).
  Hypothesis Hexp : forall e, P (SExpr e).
  Fixpoint stmt_ind_for (st : ustmt) : P st :=
    match st with
    | SLet p ty e => Hlet p ty e
    | SLetMut x ty e => Hmut x ty e
    | SVarAssign x accs e => Hasg x accs e
    | SForEach p e body =>
        Hfor p e body ((fix go (l : list ustmt) : Forall P l :=
                         match l with [] => Forall_nil P | s :: r => Forall_cons s (stmt_ind_for s) (go r) end) body)
    | SExpr e => Hexp e
    end.
End StmtInd.

(* ------------------------------------------------------------------ tools *)

Ltac tq := repeat first [rewrite teqb_refl
                        | match goal with |- context [teqb ?a ?b] => rewrite (teqb_neq a b) by discriminate end].
Ltac nrm := repeat (progress (rewrite <- ?app_assoc; cbn [app])).
Ltac hd := repeat (rewrite ?nm_hd, ?peek_hd, <- ?app_assoc; tq; unfold set_sla; cbn [negb andb orb app bindp toks sla]).

Lemma nf_tok b t r : hard_tok b t = false -> tok_level t = None -> nofollow 1 b (tk t :: r).
Proof. intros H1 H2. apply nofollow_tok; [exact H1|]. intros l H. congruence. Qed.

Lemma expr_ok e : wf_expr e -> forall b rest, nofollow 1 b rest ->
  EvE (PState (show_raw e ++ rest) b) e (PState rest b).
Proof. intros Hw. destruct (all_of_cp e (cp_all e Hw)) as (_ & HT & _). exact HT. Qed.

Lemma paren_ok e : wf_expr e -> forall b rest, nofollow 1 b rest ->
  EvE (PState (parens (show_raw e) ++ rest) b) e (PState rest b).
Proof.
  intros Hw b rest Hnf. destruct (all_of_cp e (cp_all e Hw)) as (_ & _ & HP & _).
  apply eve_of_ev1; [reflexivity|].
  apply (HP 1%nat b rest e (PState rest b)); [lia|apply (nofollow_mono 1); [lia|exact Hnf]|].
  apply (evl_exit 1 0); [lia|exact Hnf].
Qed.

Definition pat_follow (rest : list token) : Prop :=
  match rest with
  | Token t _ :: _ =>
      match t with TDoubleColon | TLeftBrace | TDoubleDot | TDoubleDotEquals => False | _ => True end
  | [] => True
  end.

Lemma pat_ok p : wf_pat p -> forall n rest b, pat_follow rest ->
  parse_pattern (S n) (PState (tk (pat_tok p) :: rest) b) = POk p (PState rest b).
Proof.
  intros Hp n rest b Hf. destruct p; try contradiction; cbn [parse_pattern pat_tok toks sla].
  - destruct Hp as [H1 H2]. rewrite H1, H2.
    destruct rest as [|[t m] r]; [reflexivity|]. rewrite !nm_hd.
    destruct t; try contradiction; reflexivity.
  - reflexivity.
  - reflexivity.
  - destruct rest as [|[t' m] r]; [reflexivity|]. rewrite !peek_hd. destruct t'; try contradiction; reflexivity.
  - destruct rest as [|[t' m] r]; [reflexivity|]. rewrite !peek_hd. destruct t'; try contradiction; reflexivity.
Qed.

Lemma pat_not_mut p : wf_pat p -> teqb (pat_tok p) TKeywordMut = false.
Proof. destruct p; try contradiction; reflexivity. Qed.

Lemma opt_type_ok {A} ty : wf_oty ty -> forall pe n rest b (k : option utype -> pstate -> pres A),
  opt_type pe (S n) (PState (show_ty_ann ty ++ tk TEq :: rest) b) k = k ty (PState (tk TEq :: rest) b).
Proof.
  intros H pe n rest b k. unfold opt_type. destruct ty as [t|]; cbn [show_ty_ann show_ty app].
  - rewrite nm_hd. tq. rewrite (type_tok_ok t H). reflexivity.
  - rewrite nm_hd. tq. reflexivity.
Qed.

Lemma accessors_target x accs : accessors (target_expr x accs) = Some (x, accs).
Proof.
  induction accs as [|a accs IH] using rev_ind; [reflexivity|].
  rewrite target_expr_snoc. destruct a; cbn [accessors]; rewrite IH; reflexivity.
Qed.

Lemma semi_ok {A} rest b (k : pstate -> pres A) :
  opt_semicolon (PState (tk TSemicolon :: rest) b) k = k (PState rest b).
Proof. unfold opt_semicolon, expect. hd. reflexivity. Qed.

(* the first token of a statement *)
Definition stmt_start (t : token_enum) : bool :=
  match t with
  | TKeywordLet | TKeywordFor | TIdentifier _ | TUnsignedNum _ _ | TSignedNum _ _ | TLeftParen | TBang | TMinus
  | TKeywordIf => true
  | _ => false
  end.

Lemma stmt_head st : exists t, hd_tok (show_stmt st) = Some t /\ stmt_start t = true.
Proof.
  destruct st; try (eexists; split; [reflexivity|reflexivity]).
  destruct (show_head (target_expr x accs)) as (t & Ht & _ & _ & _ & Hs).
  exists t. cbn [show_stmt]. split; [now apply hd_tok_app|]. destruct t; try discriminate; reflexivity.
Qed.

Lemma block_ends_start t m r b : stmt_start t = true -> block_ends (PState (Token t m :: r) b) = false.
Proof. intro H. unfold block_ends. cbn [toks]. rewrite !peek_hd. destruct t; try discriminate; reflexivity. Qed.

(* ------------------------------------------------------------------ one statement *)

Definition EvS (st : ustmt) : Prop := forall b rest,
  ev (fun g n => parse_stmt (PE g) n (PState (show_stmt st ++ rest) b)) (POk st (PState rest b)).

Definition EvSs (l : list ustmt) : Prop := forall acc b rest,
  ev (fun g n => stmts_loop (PE g) n acc (PState (show_stmts l ++ tk TRightBrace :: rest) b))
     (POk (rev acc ++ l) (PState (tk TRightBrace :: rest) b)).

Lemma let_ok p ty e : wf_stmt (SLet p ty e) -> EvS (SLet p ty e).
Proof.
  intros (Hp & Ht & He) b rest.
  destruct (expr_ok e He b (tk TSemicolon :: rest)) as [f Hf]; [now apply nf_tok|].
  exists (S f). intros g n Hg Hn. destruct n as [|n]; [lia|].
  cbn [show_stmt]. unfold parse_stmt. nrm. rewrite nm_hd. tq.
  rewrite nm_hd, (pat_not_mut p Hp). nrm.
  rewrite (pat_ok p Hp).
  2:{ destruct ty; cbn [show_ty_ann app pat_follow]; exact I. }
  cbn [bindp]. rewrite (opt_type_ok ty Ht). unfold expect. hd.
  rewrite (Hf g g) by lia. hd. reflexivity.
Qed.

Lemma mut_ok x ty e : wf_stmt (SLetMut x ty e) -> EvS (SLetMut x ty e).
Proof.
  intros (Ht & He) b rest.
  destruct (expr_ok e He b (tk TSemicolon :: rest)) as [f Hf]; [now apply nf_tok|].
  exists (S f). intros g n Hg Hn. destruct n as [|n]; [lia|].
  cbn [show_stmt]. unfold parse_stmt. nrm. hd.
  unfold expect_identifier. cbn [toks sla]. nrm.
  rewrite (opt_type_ok ty Ht). unfold expect. hd.
  rewrite (Hf g g) by lia. hd. reflexivity.
Qed.

Lemma asg_ok x accs e : wf_stmt (SVarAssign x accs e) -> EvS (SVarAssign x accs e).
Proof.
  intros (Hx & He) b rest.
  destruct (expr_ok e He b (tk TSemicolon :: rest)) as [f Hf]; [now apply nf_tok|].
  destruct (expr_ok _ Hx b (tk TEq :: show_raw e ++ tk TSemicolon :: rest)) as [f' Hf']; [now apply nf_tok|].
  exists (S (max f f')). intros g n Hg Hn. destruct n as [|n]; [lia|].
  cbn [show_stmt]. unfold parse_stmt. nrm.
  destruct (show_head (target_expr x accs)) as (t & Ht & _ & _ & _ & Hs).
  pose proof (hd_tok_app _ (tk TEq :: show_raw e ++ tk TSemicolon :: rest) _ Ht) as Hh.
  apply hd_tok_inv in Hh as (m & r & Er). rewrite Er.
  rewrite !nm_hd. replace (teqb t TKeywordLet) with false by (destruct t; try discriminate; reflexivity).
  replace (teqb t TKeywordFor) with false by (destruct t; try discriminate; reflexivity).
  rewrite <- Er. rewrite (Hf' g g) by lia. cbn [bindp]. rewrite accessors_target. hd.
  rewrite (Hf g g) by lia. cbn [bindp]. now rewrite semi_ok.
Qed.

Lemma exp_ok e : wf_stmt (SExpr e) -> EvS (SExpr e).
Proof.
  intros He b rest. cbn [wf_stmt] in He.
  destruct (paren_ok e He b (tk TSemicolon :: rest)) as [f Hf]; [now apply nf_tok|].
  exists (S f). intros g n Hg Hn. destruct n as [|n]; [lia|].
  cbn [show_stmt]. unfold parse_stmt. nrm.
  assert (Ep : exists r, parens (show_raw e) ++ tk TSemicolon :: rest = tk TLeftParen :: r) by (eexists; reflexivity).
  destruct Ep as [r Er]. rewrite Er. hd. rewrite <- Er.
  rewrite (Hf g g) by lia. cbn [bindp].
  destruct (accessors e) as [[id accs]|].
  - hd. cbn [assign_op]. now rewrite semi_ok.
  - hd. unfold expect. hd. reflexivity.
Qed.

Lemma stmts_ok l : Forall EvS l -> EvSs l.
Proof.
  induction 1 as [|st l Hst Hl IH]; intros acc b rest.
  - exists 1%nat. intros g n Hg Hn. destruct n as [|n]; [lia|]. cbn [show_stmts app stmts_loop].
    replace (block_ends (PState (tk TRightBrace :: rest) b)) with true by reflexivity.
    now rewrite app_nil_r.
  - destruct (Hst b (show_stmts l ++ tk TRightBrace :: rest)) as [f1 H1].
    destruct (IH (st :: acc) b rest) as [f2 H2].
    exists (S (max f1 f2)). intros g n Hg Hn. destruct n as [|n]; [lia|]. cbn [show_stmts stmts_loop].
    rewrite <- app_assoc. destruct (stmt_head st) as (t & Ht & Hs).
    pose proof (hd_tok_app _ (show_stmts l ++ tk TRightBrace :: rest) _ Ht) as Hh.
    apply hd_tok_inv in Hh as (m & r & Er). rewrite Er, (block_ends_start t m r b Hs), <- Er.
    rewrite (H1 g n) by lia. cbn [bindp]. rewrite (H2 g n) by lia. cbn [rev]. now rewrite <- app_assoc.
Qed.

(* a block expression `{ stmts }` *)
Lemma block_ok l : EvSs l -> forall b rest,
  EvE (PState (tk TLeftBrace :: show_stmts l ++ tk TRightBrace :: rest) b) (UBlock l) (PState rest b).
Proof.
  intros Hl b rest. destruct (Hl [] true rest) as [f Hf].
  exists (S f). intros g n Hg _. destruct g as [|g]; [lia|]. unfold PE. cbn [parse_expr_st].
  unfold parse_expr_body. hd. unfold parse_stmts, parse_stmts_of_block. unfold set_sla; cbn [toks sla].
  fold (PE g). rewrite (Hf g g) by lia. cbn [bindp rev app]; unfold set_sla; cbn [toks sla]. unfold expect. hd. reflexivity.
Qed.

Lemma for_ok p e body : EvSs body -> wf_stmt (SForEach p e body) -> EvS (SForEach p e body).
Proof.
  intros Hb Hw b rest. rewrite wf_for in Hw. destruct Hw as (Hp & He & _).
  destruct (expr_ok e He false (tk TLeftBrace :: show_stmts body ++ tk TRightBrace :: rest)) as [f Hf];
    [now apply nf_tok|].
  destruct (block_ok body Hb b rest) as [f' Hf'].
  exists (S (max f f')). intros g n Hg Hn. destruct n as [|n]; [lia|].
  rewrite show_for. unfold parse_stmt. nrm. hd.
  rewrite (pat_ok p Hp) by exact I. cbn [bindp]. unfold expect. hd.
  nrm.
  rewrite (Hf g g) by lia. hd.
  rewrite (Hf' g g) by lia. reflexivity.
Qed.

Theorem stmt_ok : forall st, wf_stmt st -> EvS st.
Proof.
  induction st as [p ty e|x ty e|x accs e|p e body IH|e] using stmt_ind_for; intro Hw.
  - now apply let_ok.
  - now apply mut_ok.
  - now apply asg_ok.
  - apply for_ok; [|exact Hw]. apply stmts_ok. rewrite wf_for in Hw. destruct Hw as (_ & _ & Hb).
    induction IH as [|s r Hs Hr IHr]; [constructor|]. destruct Hb as [H1 H2]. constructor; auto.
  - now apply exp_ok.
Qed.

Lemma wf_stmts_forall l : wf_stmts l -> Forall EvS l.
Proof. induction l as [|s r IH]; [constructor|]. intros [H1 H2]. constructor; [now apply stmt_ok|auto]. Qed.

(* ------------------------------------------------------------------ a function body *)

Theorem parse_show_block l : wf_stmts l ->
  exists f0, forall fuel, (f0 <= fuel)%nat -> parse_block_text fuel (show_stmts l) = POk l (PState [] true).
Proof.
  intro Hw. destruct (stmts_ok l (wf_stmts_forall l Hw) [] true []) as [f Hf].
  exists f. intros fuel Hfu. unfold parse_block_text. cbv zeta.
  unfold parse_stmts, parse_stmts_of_block. unfold set_sla; cbn [toks sla].
  change (Token TRightBrace (Meta (0, 0) (0, 0))) with (tk TRightBrace).
  fold (PE fuel). rewrite (Hf fuel fuel) by lia. cbn [bindp rev app]; unfold set_sla; cbn [toks sla]. unfold expect. hd. reflexivity.
Qed.
Print Assumptions parse_show_block.

(* ------------------------------------------------------------------ function definitions *)

Definition show_param (p : uparam) : list token :=
  (if p_mutable p then [tk TKeywordMut] else []) ++ tk (TIdentifier (p_name p)) :: tk TColon :: show_ty (p_ty p).

Fixpoint show_params_more (ps : list uparam) : list token :=
  match ps with [] => [] | p :: r => tk TComma :: show_param p ++ show_params_more r end.

Definition show_params (ps : list uparam) : list token :=
  match ps with [] => [] | p :: r => show_param p ++ show_params_more r end.

Definition show_fn (d : ufndef) : list token :=
  (if f_is_pub d then [tk TKeywordPub] else []) ++
  tk TKeywordFn :: tk (TIdentifier (f_identifier d)) :: tk TLeftParen :: show_params (f_params d) ++
  tk TRightParen :: tk TArrow :: show_ty (f_ty d) ++ tk TLeftBrace :: show_stmts (f_body d) ++ [tk TRightBrace].

Definition wf_param (p : uparam) : Prop := wf_type (p_ty p).

Definition wf_fn (d : ufndef) : Prop :=
  Forall wf_param (f_params d) /\ wf_type (f_ty d) /\ wf_stmts (f_body d).

Lemma param_ok p : wf_param p -> forall fuel rest b,
  parse_param (S fuel) (PState (show_param p ++ rest) b) = POk p (PState rest b).
Proof.
  intros Hw fuel rest b. destruct p as [mu nm ty]. unfold wf_param in Hw. cbn [p_ty] in Hw.
  unfold parse_param, show_param, show_ty. cbn [p_mutable p_name p_ty].
  destruct mu; nrm; hd; unfold expect_identifier; cbn [toks sla]; unfold expect; hd;
    rewrite (type_tok_ok ty Hw); reflexivity.
Qed.

Lemma param_head p rest : exists t r, show_param p ++ rest = tk t :: r /\ (t = TKeywordMut \/ exists s, t = TIdentifier s).
Proof.
  destruct p as [[] nm ty]; unfold show_param; cbn [p_mutable p_name app]; do 2 eexists; (split; [reflexivity|]);
    [left; reflexivity|right; eexists; reflexivity].
Qed.

Lemma params_more_ok fuel : forall ps, Forall wf_param ps -> forall n acc rest b, (length ps < n)%nat ->
  sep_loop (parse_param (S fuel)) TRightParen n acc (PState (show_params_more ps ++ tk TRightParen :: rest) b)
  = POk (rev acc ++ ps) (PState (tk TRightParen :: rest) b).
Proof.
  induction 1 as [|p ps Hp Hps IH]; intros n acc rest b Hn; (destruct n as [|n]; [cbn [length] in Hn; lia|]);
    cbn [sep_loop show_params_more app].
  - hd. now rewrite app_nil_r.
  - hd. destruct (param_head p (show_params_more ps ++ tk TRightParen :: rest)) as (t & r & Er & Ht).
    rewrite Er, peek_hd.
    replace (teqb t TRightParen) with false by (destruct Ht as [->|[s ->]]; reflexivity).
    rewrite <- Er, (param_ok p Hp). cbn [bindp]. rewrite IH by (cbn [length] in Hn; lia).
    cbn [rev]. now rewrite <- app_assoc.
Qed.

Lemma params_ok fuel ps : Forall wf_param ps -> forall rest b, (length ps <= fuel)%nat ->
  (if negb (peek TRightParen (PState (show_params ps ++ tk TRightParen :: rest) b))
   then parse_params (S fuel) (PState (show_params ps ++ tk TRightParen :: rest) b)
   else POk [] (PState (show_params ps ++ tk TRightParen :: rest) b))
  = POk ps (PState (tk TRightParen :: rest) b).
Proof.
  intros Hw rest b Hl. destruct ps as [|p ps]; cbn [show_params app].
  - hd. reflexivity.
  - inversion Hw as [|? ? Hp Hps]; subst. rewrite <- app_assoc.
    destruct (param_head p (show_params_more ps ++ tk TRightParen :: rest)) as (t & r & Er & Ht).
    rewrite Er, peek_hd.
    replace (teqb t TRightParen) with false by (destruct Ht as [->|[s ->]]; reflexivity).
    rewrite <- Er. cbn [negb]. unfold parse_params. rewrite (param_ok p Hp). cbn [bindp].
    rewrite (params_more_ok fuel ps Hps) by (cbn [length] in Hl; lia). reflexivity.
Qed.

(* after the keyword `fn` *)
Lemma fn_ok d : wf_fn d -> forall rest, exists f0, forall fuel, (f0 <= fuel)%nat -> forall is_pub,
  parse_fn_def fuel is_pub
    (PState (tk (TIdentifier (f_identifier d)) :: tk TLeftParen :: show_params (f_params d) ++
             tk TRightParen :: tk TArrow :: show_ty (f_ty d) ++ tk TLeftBrace :: show_stmts (f_body d) ++
             tk TRightBrace :: rest) true)
  = POk (UFnDef is_pub (f_identifier d) (f_ty d) (f_params d) (f_body d)) (PState rest true).
Proof.
  intros (Hps & Hty & Hb) rest. destruct (stmts_ok _ (wf_stmts_forall _ Hb) [] true rest) as [f Hf].
  exists (S (max f (length (f_params d)))). intros fuel Hfu is_pub.
  destruct fuel as [|fuel]; [lia|]. unfold parse_fn_def, expect_identifier, show_ty. cbn [toks sla]. unfold expect. hd.
  rewrite (params_ok fuel _ Hps) by lia. cbn [bindp]. hd.
  rewrite (type_tok_ok _ Hty). cbn [bindp]. hd.
  unfold parse_stmts, parse_stmts_of_block. unfold set_sla; cbn [toks sla].
  fold (PE (S fuel)). rewrite (Hf (S fuel) (S fuel)) by lia. cbn [bindp rev app]. unfold set_sla; cbn [toks sla].
  hd. reflexivity.
Qed.

(* ------------------------------------------------------------------ programs: the function
   definitions (the struct / enum / const maps empty) *)

Definition add_fn (prog : uprogram) (d : ufndef) : uprogram :=
  UProgram (up_const_defs prog) (up_struct_defs prog) (up_enum_defs prog)
           (map_insert (f_identifier d) d (up_fn_defs prog)).

Lemma fn_eta d : UFnDef (f_is_pub d) (f_identifier d) (f_ty d) (f_params d) (f_body d) = d.
Proof. destruct d; reflexivity. Qed.

Lemma fns_ok : forall fs, Forall wf_fn fs -> exists f0, forall fuel, (f0 <= fuel)%nat ->
  forall n prog, (2 * length fs < n)%nat ->
  items_loop fuel n false prog (PState (flat_map show_fn fs) true)
  = POk (fold_left add_fn fs prog) (PState [] true).
Proof.
  induction 1 as [|d fs Hd Hfs IH].
  - exists 0%nat. intros fuel _ n prog Hn. destruct n as [|n]; [cbn [length] in Hn; lia|]. reflexivity.
  - destruct IH as [f1 H1]. destruct (fn_ok d Hd (flat_map show_fn fs)) as [f2 H2].
    exists (max f1 f2). intros fuel Hfu n prog Hn. cbn [length] in Hn.
    destruct n as [|n]; [lia|]. destruct n as [|n]; [lia|].
    cbn [flat_map fold_left]. unfold show_fn at 1. nrm.
    destruct (f_is_pub d) eqn:Ep; cbn [app].
    + cbn [items_loop advance toks sla]. nrm.
      rewrite (H2 fuel ltac:(lia) true). cbn [bindp].
      replace (UFnDef true (f_identifier d) (f_ty d) (f_params d) (f_body d)) with d
        by (rewrite <- Ep; symmetry; apply fn_eta).
      apply (H1 fuel ltac:(lia)). lia.
    + remember (S n) as n1 eqn:En1. cbn [items_loop advance toks sla]. nrm.
      rewrite (H2 fuel ltac:(lia) false). cbn [bindp].
      replace (UFnDef false (f_identifier d) (f_ty d) (f_params d) (f_body d)) with d
        by (rewrite <- Ep; symmetry; apply fn_eta).
      apply (H1 fuel ltac:(lia)). lia.
Qed.


(* the program: its function definitions in the order of the map (an association list) *)
Definition show_program (P : uprogram) : list token := flat_map show_fn (map snd (up_fn_defs P)).

(* what the parser can produce from function definitions alone: no const / struct / enum
   definitions, every function under its own name, no name twice (a later definition of the
   same name REPLACES the earlier one: HashMap::insert), the functions well-formed *)
Definition wf_program (P : uprogram) : Prop :=
  up_const_defs P = [] /\ up_struct_defs P = [] /\ up_enum_defs P = [] /\
  NoDup (map fst (up_fn_defs P)) /\
  Forall (fun kv => fst kv = f_identifier (snd kv) /\ wf_fn (snd kv)) (up_fn_defs P).

Lemma leqb_eq : forall a b : list N, list_eqb a b = true -> a = b.
Proof.
  induction a as [|x a IH]; destruct b as [|y b]; cbn [list_eqb]; intro H; try discriminate; auto.
  apply andb_true_iff in H. destruct H as [H1 H2]. apply N.eqb_eq in H1. f_equal; auto.
Qed.

Lemma map_insert_fresh {A} k (v : A) m : ~ In k (map fst m) -> map_insert k v m = m ++ [(k, v)].
Proof.
  intro H. unfold map_insert. f_equal. induction m as [|[k' v'] m IH]; [reflexivity|].
  cbn [filter fst map In] in *. destruct (list_eqb k' k) eqn:E.
  - apply leqb_eq in E. tauto.
  - cbn [negb]. f_equal. apply IH. tauto.
Qed.

Lemma fold_fns : forall l acc,
  NoDup (map fst (acc ++ l)) -> Forall (fun kv => fst kv = f_identifier (snd kv)) l ->
  fold_left add_fn (map snd l) (UProgram [] [] [] acc) = UProgram [] [] [] (acc ++ l).
Proof.
  induction l as [|[k d] l IH]; intros acc Hnd Hk; cbn [map fold_left snd].
  - now rewrite app_nil_r.
  - inversion Hk as [|? ? Hk1 Hk2]; subst. cbn [fst snd] in Hk1. subst k.
    unfold add_fn at 2. cbn [up_const_defs up_struct_defs up_enum_defs up_fn_defs].
    rewrite map_insert_fresh.
    + rewrite IH; [now rewrite <- app_assoc| |exact Hk2]. now rewrite <- app_assoc.
    + rewrite map_app in Hnd. cbn [map fst] in Hnd. apply NoDup_remove_2 in Hnd.
      intro Hin. apply Hnd. apply in_or_app. now left.
Qed.

Theorem parse_show_program P : wf_program P ->
  exists f0, forall fuel, (f0 <= fuel)%nat -> parse_program_text fuel (show_program P) = POk P (PState [] true).
Proof.
  intros (Hc & Hs & He & Hnd & Hf). destruct P as [cs ss es fs]. cbn [up_const_defs up_struct_defs up_enum_defs up_fn_defs] in *.
  subst cs ss es.
  assert (Hw : Forall wf_fn (map snd fs)).
  { clear Hnd. induction Hf as [|kv l [_ H1] _ IH]; cbn [map]; constructor; auto. }
  destruct (fns_ok _ Hw) as [f0 H0]. exists (max f0 (S (2 * length fs))). intros fuel Hfu.
  unfold parse_program_text, show_program. cbn [up_fn_defs].
  rewrite (H0 fuel ltac:(lia)) by (rewrite map_length; lia).
  rewrite (fold_fns fs []); [reflexivity|exact Hnd|].
  clear -Hf. induction Hf as [|kv l [H1 _] _ IH]; constructor; auto.
Qed.
Print Assumptions parse_show_program.

(* ------------------------------------------------------------------ at the level of the text:
   the printed tokens carry no locations, the parser ignores them (PART 1), the scanner reads
   the printed text back (ScanPrint.v) *)

Lemma show_stmt_tk : forall st, is_tk (show_stmt st).
Proof.
  induction st as [p ty e|x ty e|x accs e|p e body IH|e] using stmt_ind_for.
  - cbn [show_stmt]. pose proof (show_raw_tk e). destruct ty; cbn [show_ty_ann]; unfold show_ty; tk_auto.
  - cbn [show_stmt]. pose proof (show_raw_tk e). destruct ty; cbn [show_ty_ann]; unfold show_ty; tk_auto.
  - cbn [show_stmt]. pose proof (show_raw_tk e). pose proof (show_raw_tk (target_expr x accs)). tk_auto.
  - rewrite show_for. pose proof (show_raw_tk e).
    assert (is_tk (show_stmts body)) by (induction IH; cbn [show_stmts]; tk_auto). tk_auto.
  - cbn [show_stmt]. unfold parens. pose proof (show_raw_tk e). tk_auto.
Qed.

Lemma show_stmts_tk l : is_tk (show_stmts l).
Proof. induction l; cbn [show_stmts]; [apply is_tk_nil|]. pose proof (show_stmt_tk a). tk_auto. Qed.

Lemma show_fn_tk d : is_tk (show_fn d).
Proof.
  unfold show_fn, show_ty. pose proof (show_stmts_tk (f_body d)).
  assert (Hp : forall p, is_tk (show_param p)).
  { intro p. unfold show_param, show_ty. destruct (p_mutable p); tk_auto. }
  assert (Hm : forall ps, is_tk (show_params_more ps)).
  { induction ps as [|p ps IH]; cbn [show_params_more]; [apply is_tk_nil|]. pose proof (Hp p). tk_auto. }
  assert (is_tk (show_params (f_params d))).
  { destruct (f_params d) as [|p ps]; cbn [show_params]; [apply is_tk_nil|]. pose proof (Hp p). pose proof (Hm ps). tk_auto. }
  destruct (f_is_pub d); tk_auto.
Qed.

Lemma show_program_tk P : is_tk (show_program P).
Proof.
  unfold show_program. induction (map snd (up_fn_defs P)) as [|d l IH]; cbn [flat_map]; [apply is_tk_nil|].
  pose proof (show_fn_tk d). tk_auto.
Qed.

(* any tokens of the same kinds, whatever their locations *)
Corollary parse_show_program_kinds P ts : wf_program P -> map kind ts = map kind (show_program P) ->
  exists f0, forall fuel, (f0 <= fuel)%nat -> parse_program_text fuel ts = POk P (PState [] true).
Proof.
  intros Hw Hk. destruct (parse_show_program P Hw) as [f0 H0]. exists f0. intros fuel Hfu.
  rewrite <- parse_program_text_unloc, (unloc_kind _ _ Hk), (show_program_tk P). now apply H0.
Qed.

Corollary parse_show_block_kinds l ts : wf_stmts l -> map kind ts = map kind (show_stmts l) ->
  exists f0, forall fuel, (f0 <= fuel)%nat -> parse_block_text fuel ts = POk l (PState [] true).
Proof.
  intros Hw Hk. destruct (parse_show_block l Hw) as [f0 H0]. exists f0. intros fuel Hfu.
  rewrite <- parse_block_text_unloc, (unloc_kind _ _ Hk), (show_stmts_tk l). now apply H0.
Qed.

(* the text of a program: print the tokens, scan them, parse them *)
Definition program_text (P : uprogram) : list N := print_tokens (map kind (show_program P)).

Theorem scan_parse_show_program P : wf_program P -> Forall tok_printable (map kind (show_program P)) ->
  exists ts' f0, scan_text (program_text P) = Ok (STokens ts') /\
                 forall fuel, (f0 <= fuel)%nat -> parse_program_text fuel ts' = POk P (PState [] true).
Proof.
  intros Hw Hp. destruct (scan_print _ Hp) as (ts' & Hs & Hk).
  destruct (parse_show_program_kinds P ts' Hw) as [f0 H0].
  { rewrite Hk. reflexivity. }
  exists ts', f0. split; [exact Hs|exact H0].
Qed.
Print Assumptions scan_parse_show_program.

(* ------------------------------------------------------------------ an example: the predicate
   is inhabited, the text is what one expects, the round trip runs *)
Definition P0 : uprogram := UProgram [] [] []
  [(codes "main", UFnDef true (codes "main") (UTUnsigned U8)
      [UParam false (codes "x") (UTUnsigned U8); UParam true (codes "y") (UTUnsigned U8)]
      [SLet (PIdentifier (codes "z")) None (UOp BAdd (UIdentifier (codes "x")) (UIdentifier (codes "y")));
       SLetMut (codes "w") (Some (UTUnsigned U8)) (UIdentifier (codes "z"));
       SVarAssign (codes "w") [] (UOp BAdd (UIdentifier (codes "w")) (UNumUnsigned 1 U8));
       SForEach (PIdentifier (codes "i")) (UFnCall (codes "f") [UIdentifier (codes "x")])
         [SVarAssign (codes "a") [AArray (UIdentifier (codes "i")); ATuple 0]
                     (UOp BAdd (UIdentifier (codes "w")) (UIdentifier (codes "i")))];
       SExpr (UIf (UIdentifier (codes "c")) (UIdentifier (codes "w")) (UIdentifier (codes "z")))]);
   (codes "g", UFnDef false (codes "g") UTBool [] [SExpr UTrue])].

Example P0_wf : wf_program P0.
Proof.
  unfold wf_program, P0. cbn [up_const_defs up_struct_defs up_enum_defs up_fn_defs map fst snd].
  split; [reflexivity|]. split; [reflexivity|]. split; [reflexivity|]. split.
  - repeat constructor; vm_compute; intuition discriminate.
  - repeat constructor.
Qed.

Example P0_text : program_text P0 = codes
  "pub fn main ( x : u8 , mut y : u8 ) -> u8 { let z = x + y ; let mut w : u8 = z ; w = w + 1u8 ; for i in f ( x ) { a [ i ] . 0 = w + i ; } ( if c { w } else { z } ) ; } fn g ( ) -> bool { ( true ) ; }".
Proof. vm_compute. reflexivity. Qed.

Example P0_round_trip :
  match scan_text (program_text P0) with Ok (STokens ts) => parse_program_text 40 ts | _ => PErr end
  = POk P0 (PState [] true).
Proof. vm_compute. reflexivity. Qed.
