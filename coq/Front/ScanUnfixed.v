(* DESIGN.md §6-12, found as a failing fuel lemma.  The block-comment loop of the UNREPAIRED
   scanner (scan.rs:195-210 before fix 01) is the loop of Front/Scan.v without the
   `if self.is_empty() { push_error; break }` test.  At the end of the input one iteration
   consumes nothing, only `advance()` increments the column and the level stays what it
   was, so no amount of fuel is enough: the Rust loop never terminates (observed on the
   real code through the harness: `1u8 /* unterminated` exceeds every deadline).  With the
   repaired loop, ScanProofs.comment_loop_spec shows that fuel [length rest + 1] suffices. *)
From GV Require Import Base.Util Front.Scan.

Fixpoint comment_loop_orig (fuel : nat) (level : N) (s : scanner) (rest : list N)
  : res (scanner * list N) :=
  match fuel with
  | O => OutOfFuel
  | S f =>
      let '(d, s', rest') := comment_step s rest in
      let level' := apply_change d level in
      if level' =? 0 then Ok (s', rest') else comment_loop_orig f level' s' rest'
  end.

(* on a non-empty input the two loops take the same step, so they differ only at the end
   of the input *)
Lemma orig_step_same f level s x r :
  comment_loop_orig (S f) level s (x :: r) =
  (let '(d, s', rest') := comment_step s (x :: r) in
   let level' := apply_change d level in
   if level' =? 0 then Ok (s', rest') else comment_loop_orig f level' s' rest').
Proof. reflexivity. Qed.

(* the fuel-adequacy statement is false for the unrepaired loop: *)
Lemma comment_loop_orig_diverges : forall fuel level s,
  level <> 0 -> comment_loop_orig fuel level s [] = OutOfFuel.
Proof.
  induction fuel as [|f IH]; intros level s Hl; [reflexivity|].
  cbn [comment_loop_orig comment_step next_matches peek negb andb tl apply_change].
  destruct (level =? 0) eqn:E; [apply N.eqb_eq in E; congruence|].
  apply IH. exact Hl.
Qed.

(* the state in which the real scanner enters the loop on the text "/*" *)
Example unterminated_comment_never_returns :
  forall fuel, comment_loop_orig fuel 1 (advance init) [] = OutOfFuel.
Proof. intro fuel. apply comment_loop_orig_diverges. discriminate. Qed.
