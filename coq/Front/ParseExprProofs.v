(* The parser model of Front/ParseExpr.v implements Rust's precedence and associativity:
   parsing the MINIMAL-PARENTHESES rendering of an expression tree gives the tree back.

   [show_min] prints a tree as TOKENS with the conventions of /verif/tools/gen_prec.py `show`:
   left-associative binary operators (the right operand is parenthesised at equal precedence),
   the six comparison operators do not chain (both operands are printed above all of them),
   `as` binds tighter than every binary operator and looser than the unary ones, unary
   operators take the tightest operand, an if-chain is parenthesised as a LEFT operand and as
   the operand of `as` / a unary operator / a postfix form, bare as a right operand, a cast is
   also parenthesised as an operand of a comparison / bit operator / shift (rustc's generics
   ambiguity), a negative literal as the operand of `as`, a unary or a postfix operator.
   One convention of this grammar: a one-element tuple is `(e,)`.  An index is printed as it
   is (`a[1 + i]`: the index of `[..]` is a full expression); the parser retypes an index that
   is exactly an unsuffixed number to usize, so such a tree (`UArrayAccess a (UNumUnsigned i
   UnspecifiedU)`) is not the result of any parse and is excluded by [wf_expr]; a usize index
   prints with its suffix (`a[1usize]`) and parses back to itself (so does `a[1]`, to the same tree).

   [parse_show_min]: for every well-formed tree, [parse_expr] on [show_min e ++ rest] returns
   (e, rest), provided rest does not start with a token that continues an expression
   ([stops]); also from any value of the struct-literal flag, which is given back unchanged
   ([parse_show_min_st]).  Corollaries: precedence, left associativity, THE ELSE-IF PROPERTY
   (an operator after an if-chain applies to the whole chain), the header flag is restored.

   Proof: levels 1 (or) .. 10 (times, divide, remainder), 11 (as), 12 (if), 13 (unary), 14 (primary and postfix).
   For every level k the parser is "parse at k+1, then loop at k"; the statement proved by
   induction on the tree ([cp_all]) is: if continuing the loop of level prec(e) from (e, rest)
   yields r, then parsing show e ++ rest at that level yields r ([CP]).  Everything is stated
   for all sufficiently large fuel ([ev]), so no monotonicity lemma is needed. *)
From Coq Require Import Lia ZArith String.
From GV Require Import Base.Util Front.Scan Front.ParseExpr.
Local Open Scope N_scope.

(* ------------------------------------------------------------------ the printer *)

Definition m0 : meta := Meta (0, 0) (0, 0).
Notation tk t := (Token t m0) (only parsing).

Definition op_level (o : bin_op) : nat :=
  match o with
  | BShortCircuitOr => 1 | BShortCircuitAnd => 2 | BEq | BNotEq => 3
  | BGreaterThan | BLessThan => 4 | BBitOr => 5 | BBitXor => 6 | BBitAnd => 7
  | BShiftLeft | BShiftRight => 8 | BAdd | BSub => 9 | BMul | BDiv | BMod => 10
  end%nat.

Definition op_token (o : bin_op) : token_enum :=
  match o with
  | BShortCircuitOr => TDoubleBar | BShortCircuitAnd => TDoubleAmpersand | BEq => TDoubleEq
  | BNotEq => TBangEq | BGreaterThan => TGreaterThan | BLessThan => TLessThan | BBitOr => TBar
  | BBitXor => TCaret | BBitAnd => TAmpersand | BShiftLeft => TDoubleLessThan
  | BShiftRight => TDoubleGreaterThan | BAdd => TPlus | BSub => TMinus | BMul => TStar
  | BDiv => TSlash | BMod => TPercent
  end.

Definition is_cmp (o : bin_op) : bool :=
  match o with BEq | BNotEq | BGreaterThan | BLessThan => true | _ => false end.

Definition unary_token (o : unary_op) : token_enum := match o with UoNot => TBang | UoNeg => TMinus end.

Definition prec (e : uexpr) : nat :=
  match e with
  | UOp o _ _ => op_level o
  | UCast _ _ => 11
  | UIf _ _ _ => 12
  | UUnaryOp _ _ => 13
  | _ => 14
  end%nat.

(* is e parenthesised as an operand printed at level j ([right]: a right operand)? *)
Definition paren_needed (j : nat) (right : bool) (e : uexpr) : bool :=
  match e with
  | UIf _ _ _ => ((0 <? j) && negb right) || (12 <? j)
  | UCast _ _ => (11 <? j) || ((3 <=? j) && (j <=? 8))
  | UNumSigned z _ => (z <? 0)%Z && (11 <=? j)
  | _ => prec e <? j
  end%nat.

Definition type_name (ty : utype) : list N :=
  match ty with
  | UTBool => s_bool
  | UTUnsigned Usize => s_usize | UTUnsigned U8 => s_u8 | UTUnsigned U16 => s_u16
  | UTUnsigned U32 => s_u32 | UTUnsigned U64 => s_u64 | UTUnsigned UnspecifiedU => []
  | UTSigned I8 => s_i8 | UTSigned I16 => s_i16 | UTSigned I32 => s_i32 | UTSigned I64 => s_i64
  | UTSigned UnspecifiedS => []
  | UTNamed s => s
  | UTTuple _ | UTArray _ _ | UTArrayConst _ _ | UTArrayConstExpr _ _ => []     (* not named by an identifier *)
  end.

Definition parens (s : list token) : list token := tk TLeftParen :: s ++ [tk TRightParen].

Definition at_ (j : nat) (right : bool) (x : uexpr) (sx : list token) : list token :=
  if paren_needed j right x then parens sx else sx.

Fixpoint show_raw (e : uexpr) : list token :=
  let more := fix more (es : list uexpr) : list token :=
    match es with [] => [] | y :: r => tk TComma :: show_raw y ++ more r end in
  match e with
  | UTrue => [tk (TIdentifier s_true)]
  | UFalse => [tk (TIdentifier s_false)]
  | UNumUnsigned n t => [tk (TUnsignedNum n t)]
  | UNumSigned z t => [tk (TSignedNum z t)]
  | UIdentifier s => [tk (TIdentifier s)]
  | UArrayAccess a i =>
      at_ 14 false a (show_raw a) ++ tk TLeftBracket :: show_raw i ++ [tk TRightBracket]
  | UTupleLiteral es =>
      tk TLeftParen ::
        match es with
        | [] => []
        | x :: r => show_raw x ++ more r ++ (match r with [] => [tk TComma] | _ => [] end)
        end ++ [tk TRightParen]
  | UTupleAccess x i => at_ 14 false x (show_raw x) ++ [tk TDot; tk (TUnsignedNum i UnspecifiedU)]
  | UStructAccess x f => at_ 14 false x (show_raw x) ++ [tk TDot; tk (TIdentifier f)]
  | UUnaryOp o x => tk (unary_token o) :: at_ 13 false x (show_raw x)
  | UOp o l r =>
      let p := op_level o in
      at_ (if is_cmp o then 5 else p)%nat false l (show_raw l)
        ++ tk (op_token o) :: at_ (if is_cmp o then 5 else S p)%nat true r (show_raw r)
  | UFnCall f args =>
      tk (TIdentifier f) :: tk TLeftParen ::
        match args with [] => [] | x :: r => show_raw x ++ more r end ++ [tk TRightParen]
  | UIf c t e' =>
      tk TKeywordIf :: show_raw c ++ tk TLeftBrace :: show_raw t ++ tk TRightBrace :: tk TKeywordElse ::
        match e' with
        | UIf _ _ _ => show_raw e'
        | _ => tk TLeftBrace :: show_raw e' ++ [tk TRightBrace]
        end
  | UCast ty x => at_ 11 false x (show_raw x) ++ [tk TKeywordAs; tk (TIdentifier (type_name ty))]
  | UBlock _ | UMatch _ _ | UArrayLiteral _ | UArrayRepeat _ _ | UArrayRepeatConst _ _ | URange _ _ _ | UStructLiteral _ _ | UEnumLiteral _ _ _ =>
      [tk TLeftParen; tk TRightParen]     (* not printed: outside [wf_expr] *)
  end.

Definition show_min (e : uexpr) : list token := show_raw e.
Definition show_at (j : nat) (right : bool) (e : uexpr) : list token := at_ j right e (show_raw e).

Fixpoint more_toks (es : list uexpr) : list token :=
  match es with [] => [] | y :: r => tk TComma :: show_raw y ++ more_toks r end.

(* ------------------------------------------------------------------ well-formed trees: what
   the grammar can express *)

(* `true` / `false` are literals, not identifiers *)
Definition ident_ok (s : list N) : Prop := list_eqb s s_true = false /\ list_eqb s s_false = false.

(* a type `as` can name by an identifier, and that is not read as another type *)
Definition wf_type (ty : utype) : Prop := type_of_name (type_name ty) = ty.

Fixpoint wf_expr (e : uexpr) : Prop :=
  let all := fix all (es : list uexpr) : Prop :=
    match es with [] => True | y :: r => wf_expr y /\ all r end in
  match e with
  | UTrue | UFalse | UNumUnsigned _ _ | UNumSigned _ _ => True
  | UIdentifier s => ident_ok s
  (* an index that is a bare unsuffixed number is retyped to usize by the parser *)
  | UArrayAccess a i => wf_expr a /\ wf_expr i /\ retype_index i = i
  | UTupleLiteral es => all es
  | UTupleAccess x _ => wf_expr x
  | UStructAccess x _ => wf_expr x
  | UUnaryOp _ x => wf_expr x
  | UOp _ l r => wf_expr l /\ wf_expr r
  | UFnCall f args => ident_ok f /\ all args
  | UIf c t e' => wf_expr c /\ wf_expr t /\ wf_expr e'
  | UCast ty x => wf_type ty /\ wf_expr x
  | UBlock _ | UMatch _ _ | UArrayLiteral _ | UArrayRepeat _ _ | UArrayRepeatConst _ _ | URange _ _ _ | UStructLiteral _ _ | UEnumLiteral _ _ _ =>
      False     (* the expression printer does not cover blocks, match and these literals *)
  end.

Fixpoint wf_all (es : list uexpr) : Prop :=
  match es with [] => True | y :: r => wf_expr y /\ wf_all r end.

(* induction principle with the lists *)
Section UexprInd.
  Variable Q : uexpr -> Prop.
  Hypothesis HTrue : Q UTrue.
  Hypothesis HFalse : Q UFalse.
  Hypothesis HNumU : forall n t, Q (UNumUnsigned n t).
  Hypothesis HNumS : forall z t, Q (UNumSigned z t).
  Hypothesis HId : forall s, Q (UIdentifier s).
  Hypothesis HArr : forall a i, Q a -> Q i -> Q (UArrayAccess a i).
  Hypothesis HTup : forall es, Forall Q es -> Q (UTupleLiteral es).
  Hypothesis HTupAcc : forall x i, Q x -> Q (UTupleAccess x i).
  Hypothesis HStructAcc : forall x f, Q x -> Q (UStructAccess x f).
  Hypothesis HUn : forall o x, Q x -> Q (UUnaryOp o x).
  Hypothesis HOp : forall o l r, Q l -> Q r -> Q (UOp o l r).
  Hypothesis HCall : forall f args, Forall Q args -> Q (UFnCall f args).
  Hypothesis HIf : forall c t e, Q c -> Q t -> Q e -> Q (UIf c t e).
  Hypothesis HCast : forall ty x, Q x -> Q (UCast ty x).
  Hypothesis HBlock : forall b, Q (UBlock b).
  Hypothesis HMatch : forall e arms, Q (UMatch e arms).
  Hypothesis HArrLit : forall es, Q (UArrayLiteral es).
  Hypothesis HArrRep : forall e k, Q (UArrayRepeat e k).
  Hypothesis HArrRepC : forall e c, Q (UArrayRepeatConst e c).
  Hypothesis HRange : forall lo hi t, Q (URange lo hi t).
  Hypothesis HStructLit : forall name fields, Q (UStructLiteral name fields).
  Hypothesis HEnumLit : forall e v args, Q (UEnumLiteral e v args).

  Fixpoint uexpr_ind2 (e : uexpr) : Q e :=
    let all := fix all (es : list uexpr) : Forall Q es :=
      match es with [] => Forall_nil Q | y :: r => Forall_cons y (uexpr_ind2 y) (all r) end in
    match e with
    | UTrue => HTrue | UFalse => HFalse | UNumUnsigned n t => HNumU n t | UNumSigned z t => HNumS z t
    | UIdentifier s => HId s
    | UArrayAccess a i => HArr a i (uexpr_ind2 a) (uexpr_ind2 i)
    | UTupleLiteral es => HTup es (all es)
    | UTupleAccess x i => HTupAcc x i (uexpr_ind2 x)
    | UStructAccess x f => HStructAcc x f (uexpr_ind2 x)
    | UUnaryOp o x => HUn o x (uexpr_ind2 x)
    | UOp o l r => HOp o l r (uexpr_ind2 l) (uexpr_ind2 r)
    | UFnCall f args => HCall f args (all args)
    | UIf c t e' => HIf c t e' (uexpr_ind2 c) (uexpr_ind2 t) (uexpr_ind2 e')
    | UCast ty x => HCast ty x (uexpr_ind2 x)
    | UBlock b => HBlock b
    | UMatch e arms => HMatch e arms
    | UArrayLiteral es => HArrLit es
    | UArrayRepeat e k => HArrRep e k
    | UArrayRepeatConst e c => HArrRepC e c
    | URange lo hi t => HRange lo hi t
    | UStructLiteral name fields => HStructLit name fields
    | UEnumLiteral e v args => HEnumLit e v args
    end.
End UexprInd.

(* ------------------------------------------------------------------ levels *)

Definition PE (g : nat) : pstate -> pres uexpr := parse_expr_st g.

Definition parse_at (k : nat) (pe : pstate -> pres uexpr) (n : nat) (s : pstate) : pres uexpr :=
  match k with
  | 1 => parse_short_circuiting_or pe n s
  | 2 => parse_short_circuiting_and pe n s
  | 3 => parse_equality pe n s
  | 4 => parse_comparison pe n s
  | 5 => parse_or pe n s
  | 6 => parse_xor pe n s
  | 7 => parse_and pe n s
  | 8 => parse_shift pe n s
  | 9 => parse_term pe n s
  | 10 => parse_factor pe n s
  | 11 => parse_cast pe n s
  | 12 => parse_if_or_match pe n s
  | 13 => parse_unary pe n s
  | _ => parse_primary pe n s
  end%nat.

Definition ops_at (k : nat) : opt :=
  match k with
  | 1 => ops_sc_or | 2 => ops_sc_and | 3 => ops_equality | 4 => ops_comparison | 5 => ops_or
  | 6 => ops_xor | 7 => ops_and | 8 => ops_shift | 9 => ops_term | 10 => ops_factor
  | _ => fun _ => None
  end%nat.

Definition loop_at (k : nat) (pe : pstate -> pres uexpr) (n : nat) (x : uexpr) (s : pstate) : pres uexpr :=
  match k with
  | 11 => cast_loop pe n x s
  | 12 | 13 | 0 => POk x s
  | 14 => postfix_loop pe n x s
  | _ => binloop (ops_at k) (parse_at (S k) pe) n x s
  end%nat.

Lemma parse_at_step k pe n s : (1 <= k <= 11)%nat ->
  parse_at k pe n s = bindp (parse_at (S k) pe n s) (fun x s1 => loop_at k pe n x s1).
Proof.
  intro H. do 12 (destruct k as [|k]; [try lia; try reflexivity|]). lia.
Qed.

Lemma parse_at_14 pe n s :
  parse_at 14 pe n s = bindp (parse_primary_base pe n s) (fun x s1 => loop_at 14 pe n x s1).
Proof. reflexivity. Qed.

Lemma loop_at_bin k pe n x s : (1 <= k <= 10)%nat ->
  loop_at k pe n x s = binloop (ops_at k) (parse_at (S k) pe) n x s.
Proof.
  intro H. do 11 (destruct k as [|k]; [try lia; try reflexivity|]). lia.
Qed.

(* the levels of the tokens that continue an expression *)
Definition tok_level (t : token_enum) : option nat :=
  match t with
  | TDoubleBar => Some 1 | TDoubleAmpersand => Some 2 | TDoubleEq | TBangEq => Some 3
  | TLessThan | TGreaterThan | TLessThanEquals | TGreaterThanEquals => Some 4
  | TBar => Some 5 | TCaret => Some 6 | TAmpersand => Some 7
  | TDoubleLessThan | TDoubleGreaterThan => Some 8 | TPlus | TMinus => Some 9
  | TStar | TSlash | TPercent => Some 10 | TKeywordAs => Some 11
  | TLeftBracket | TDot => Some 14
  | _ => None
  end%nat.

(* tokens that change the reading of the identifier / number before them *)
Definition hard_tok (b : bool) (t : token_enum) : bool :=
  match t with
  | TLeftParen | TDoubleColon | TDoubleDot => true
  | TLeftBrace => b
  | _ => false
  end.

(* rest does not continue an expression parsed at level k (flag b) *)
Definition nofollow (k : nat) (b : bool) (rest : list token) : Prop :=
  match rest with
  | [] => True
  | Token t _ :: _ => hard_tok b t = false /\ forall l, tok_level t = Some l -> (l < k)%nat
  end.

Lemma nofollow_mono k k' b rest : (k <= k')%nat -> nofollow k b rest -> nofollow k' b rest.
Proof.
  intros Hk. destruct rest as [|[t m] r]; [auto|]. intros [H1 H2]. split; [exact H1|].
  intros l Hl. specialize (H2 l Hl). lia.
Qed.

Lemma ops_at_level k t mk : ops_at k t = Some mk -> tok_level t = Some k.
Proof.
  do 11 (destruct k as [|k]; [try discriminate; destruct t; try discriminate; reflexivity|]).
  discriminate.
Qed.

Lemma teqb_refl t : teqb t t = true.
Proof. unfold teqb. destruct (token_enum_eq_dec t t); [reflexivity|congruence]. Qed.

Lemma teqb_neq a b : a <> b -> teqb a b = false.
Proof. intro H. unfold teqb. destruct (token_enum_eq_dec a b); [contradiction|reflexivity]. Qed.

Lemma teqb_true a b : teqb a b = true -> a = b.
Proof. unfold teqb. destruct (token_enum_eq_dec a b); [auto|discriminate]. Qed.

(* ------------------------------------------------------------------ "for all sufficiently large
   fuel" *)

Definition ev {A} (F : nat -> nat -> pres A) (r : pres A) : Prop :=
  exists f, forall g n, (f <= g)%nat -> (f <= n)%nat -> F g n = r.

Definition Ev (k : nat) (s : pstate) (r : uexpr) (s' : pstate) : Prop :=
  ev (fun g n => parse_at k (PE g) n s) (POk r s').
Definition EvL (k : nat) (x : uexpr) (s : pstate) (r : uexpr) (s' : pstate) : Prop :=
  ev (fun g n => loop_at k (PE g) n x s) (POk r s').
Definition EvE (s : pstate) (r : uexpr) (s' : pstate) : Prop :=
  ev (fun g _ => PE g s) (POk r s').
Definition EvB (s : pstate) (x : uexpr) (s1 : pstate) : Prop :=
  ev (fun g n => parse_primary_base (PE g) n s) (POk x s1).

(* the loops of the levels above k stop at once *)
Lemma loop_exit m k pe n x rest b : (k < m <= 14)%nat -> nofollow (S k) b rest ->
  loop_at m pe (S n) x (PState rest b) = POk x (PState rest b).
Proof.
  intros Hm Hnf.
  assert (Hlev : forall t mt r, rest = Token t mt :: r -> tok_level t <> Some m).
  { intros t mt r -> Hl. destruct Hnf as [_ H]. specialize (H m Hl). lia. }
  destruct (Nat.eq_dec m 11) as [->|N11].
  - cbn [loop_at cast_loop]. unfold next_matches. cbn [toks].
    destruct rest as [|[t mt] r]; [reflexivity|].
    destruct (teqb t TKeywordAs) eqn:E; [|reflexivity]. apply teqb_true in E. subst t.
    exfalso. exact (Hlev _ _ _ eq_refl eq_refl).
  - destruct (Nat.eq_dec m 12) as [->|N12]; [reflexivity|].
    destruct (Nat.eq_dec m 13) as [->|N13]; [reflexivity|].
    destruct (Nat.eq_dec m 14) as [->|N14].
    + cbn [loop_at postfix_loop]. unfold peek. cbn [toks].
      destruct rest as [|[t mt] r]; [reflexivity|].
      destruct (teqb t TLeftBracket) eqn:E1.
      { apply teqb_true in E1. subst t. exfalso. exact (Hlev _ _ _ eq_refl eq_refl). }
      destruct (teqb t TDot) eqn:E2; [|reflexivity].
      apply teqb_true in E2. subst t. exfalso. exact (Hlev _ _ _ eq_refl eq_refl).
    + rewrite loop_at_bin by lia. cbn [binloop]. unfold next_op. cbn [toks].
      destruct rest as [|[t mt] r]; [reflexivity|].
      destruct (ops_at m t) as [mk|] eqn:E; [|reflexivity].
      apply ops_at_level in E. exfalso. exact (Hlev _ _ _ eq_refl E).
Qed.

Lemma evl_exit m k x rest b : (k < m <= 14)%nat -> nofollow (S k) b rest ->
  EvL m x (PState rest b) x (PState rest b).
Proof.
  intros Hm Hnf. exists 1%nat. intros g n _ Hn. destruct n as [|n]; [lia|]. now apply (loop_exit m k).
Qed.

(* ------------------------------------------------------------------ from a tighter level to a
   looser one *)

Lemma evl_ret k x s r s' : (k = 12 \/ k = 13)%nat -> EvL k x s r s' -> r = x /\ s' = s.
Proof.
  intros Hk [f H]. specialize (H f f (le_n _) (le_n _)). destruct Hk as [-> | ->]; cbn [loop_at] in H;
    injection H as <- <-; auto.
Qed.

(* the head conditions under which parse_if_or_match / parse_unary fall through *)
Definition falls12 (s : pstate) : Prop := next_matches TKeywordIf s = None /\ next_matches TKeywordMatch s = None.
Definition falls13 (s : pstate) : Prop := next_matches TBang s = None /\ next_matches TMinus s = None.

Lemma ev_up k s x s1 r s' : (1 <= k <= 13)%nat -> (k = 12%nat -> falls12 s) -> (k = 13%nat -> falls13 s) ->
  Ev (S k) s x s1 -> EvL k x s1 r s' -> Ev k s r s'.
Proof.
  intros Hk H12 H13 [f1 H1] HL.
  destruct (Nat.eq_dec k 12) as [->|N12].
  - destruct (evl_ret 12 x s1 r s' (or_introl eq_refl) HL) as [-> ->]. destruct (H12 eq_refl) as [Ha Hb].
    exists (S f1). intros g n Hg Hn. destruct n as [|n]; [lia|].
    cbn [parse_at parse_if_or_match]. rewrite Ha, Hb. apply (H1 g n); lia.
  - destruct (Nat.eq_dec k 13) as [->|N13].
    + destruct (evl_ret 13 x s1 r s' (or_intror eq_refl) HL) as [-> ->]. destruct (H13 eq_refl) as [Ha Hb].
      exists (S f1). intros g n Hg Hn. destruct n as [|n]; [lia|].
      cbn [parse_at parse_unary]. rewrite Ha, Hb. apply (H1 g n); lia.
    + destruct HL as [f2 H2]. exists (Nat.max f1 f2). intros g n Hg Hn.
      rewrite parse_at_step by lia. rewrite H1 by lia. cbn [bindp]. apply H2; lia.
Qed.

Lemma chain_ev : forall d k m, m = (S k + d)%nat -> (1 <= k)%nat -> (m <= 14)%nat ->
  forall s e rest b r s',
  ((k <= 12 < m)%nat -> falls12 s) -> ((k <= 13 < m)%nat -> falls13 s) ->
  Ev m s e (PState rest b) -> nofollow (S k) b rest -> EvL k e (PState rest b) r s' -> Ev k s r s'.
Proof.
  induction d as [|d IH]; intros k m Hm Hk Hm14 s e rest b r s' H12 H13 He Hnf HL.
  - replace m with (S k) in * by lia.
    exact (ev_up k s e (PState rest b) r s' ltac:(lia) (fun E => H12 ltac:(lia)) (fun E => H13 ltac:(lia)) He HL).
  - assert (Hmid : Ev (S k) s e (PState rest b)).
    { apply (IH (S k) m ltac:(lia) ltac:(lia) Hm14 s e rest b e (PState rest b)).
      - intro H. apply H12. lia.
      - intro H. apply H13. lia.
      - exact He.
      - apply (nofollow_mono (S k)); [lia|exact Hnf].
      - apply (evl_exit (S k) k); [lia|exact Hnf]. }
    exact (ev_up k s e (PState rest b) r s' ltac:(lia) (fun E => H12 ltac:(lia)) (fun E => H13 ltac:(lia)) Hmid HL).
Qed.

Lemma ev_14 s x s1 r s' : EvB s x s1 -> EvL 14 x s1 r s' -> Ev 14 s r s'.
Proof.
  intros [f1 H1] [f2 H2]. exists (Nat.max f1 f2). intros g n Hg Hn.
  rewrite parse_at_14, H1 by lia. cbn [bindp]. apply H2; lia.
Qed.

(* parse_expr is the loosest level when the text does not start with `{` *)
Lemma eve_of_ev1 s r s' : next_matches TLeftBrace s = None -> Ev 1 s r s' -> EvE s r s'.
Proof.
  intros Hb [f H]. exists (S f). intros g n Hg _. destruct g as [|g]; [lia|].
  unfold PE. cbn [parse_expr_st]. unfold parse_expr_body. rewrite Hb. apply (H g g); lia.
Qed.

(* ------------------------------------------------------------------ heads of printed expressions *)

Definition hd_tok (s : list token) : option token_enum :=
  match s with Token t _ :: _ => Some t | [] => None end.

Lemma hd_tok_app s r t : hd_tok s = Some t -> hd_tok (s ++ r) = Some t.
Proof. destruct s as [|[t' m] s']; [discriminate|]. auto. Qed.

(* the token a primary expression starts with *)
Definition atom_start (t : token_enum) : bool :=
  match t with TIdentifier _ | TUnsignedNum _ _ | TSignedNum _ _ | TLeftParen => true | _ => false end.

(* ... an expression *)
Definition expr_start (t : token_enum) : bool :=
  match t with
  | TIdentifier _ | TUnsignedNum _ _ | TSignedNum _ _ | TLeftParen | TBang | TMinus | TKeywordIf => true
  | _ => false
  end.

Lemma atom_expr_start t : atom_start t = true -> expr_start t = true.
Proof. destruct t; try discriminate; reflexivity. Qed.

Lemma at_head j right x sx t : (paren_needed j right x = false -> hd_tok sx = Some t) ->
  (paren_needed j right x = true -> t = TLeftParen) -> hd_tok (at_ j right x sx) = Some t.
Proof. unfold at_, parens. destruct (paren_needed j right x); intros H1 H2; [now rewrite (H2 eq_refl)|auto]. Qed.

Lemma show_head : forall e, exists t, hd_tok (show_raw e) = Some t /\
  ((prec e = 14)%nat -> atom_start t = true) /\
  ((prec e = 13)%nat -> t = TBang \/ t = TMinus) /\
  ((prec e = 12)%nat -> t = TKeywordIf) /\
  expr_start t = true.
Proof.
  assert (Hat : forall j x, (exists t, hd_tok (show_raw x) = Some t /\
      ((prec x = 14)%nat -> atom_start t = true) /\ ((prec x = 13)%nat -> t = TBang \/ t = TMinus) /\
      ((prec x = 12)%nat -> t = TKeywordIf) /\ expr_start t = true) ->
      forall right r, exists t, hd_tok (at_ j right x (show_raw x) ++ r) = Some t /\ expr_start t = true /\
        ((j = 14)%nat -> atom_start t = true)).
  { intros j x (t & Ht & H14 & _ & _ & Hs) right r. unfold at_.
    destruct (paren_needed j right x) eqn:Ep.
    - exists TLeftParen. repeat split.
    - exists t. split; [now apply hd_tok_app|]. split; [exact Hs|]. intros ->. apply H14.
      destruct x; cbn [paren_needed prec] in Ep |- *; try reflexivity;
        try (apply Nat.ltb_ge in Ep; destruct o; cbn [op_level] in Ep; lia);
        try (apply Nat.ltb_ge in Ep; lia).
      + apply orb_false_iff in Ep. destruct Ep as [_ Ep]. apply Nat.ltb_ge in Ep. lia.
      + apply orb_false_iff in Ep. destruct Ep as [Ep _]. apply Nat.ltb_ge in Ep. lia. }
  apply (uexpr_ind2 (fun e => exists t, hd_tok (show_raw e) = Some t /\
    ((prec e = 14)%nat -> atom_start t = true) /\ ((prec e = 13)%nat -> t = TBang \/ t = TMinus) /\
    ((prec e = 12)%nat -> t = TKeywordIf) /\ expr_start t = true)).
  - eexists. cbn. repeat split; intros; try discriminate; auto.
  - eexists. cbn. repeat split; intros; try discriminate; auto.
  - intros. eexists. cbn. repeat split; intros; try discriminate; auto.
  - intros. eexists. cbn. repeat split; intros; try discriminate; auto.
  - intros. eexists. cbn. repeat split; intros; try discriminate; auto.
  - intros a i IHa _. destruct (Hat 14%nat a IHa false (tk TLeftBracket :: show_raw i ++ [tk TRightBracket]))
      as (t & Ht & Hs & H14).
    exists t. cbn [show_raw prec].
    split; [exact Ht|]. repeat split; intros; try discriminate; auto.
  - intros es _. exists TLeftParen. cbn [show_raw prec]. repeat split; intros; try discriminate; auto.
  - intros x i IHx. destruct (Hat 14%nat x IHx false [tk TDot; tk (TUnsignedNum i UnspecifiedU)]) as (t & Ht & Hs & H14).
    exists t. cbn [show_raw prec]. split; [exact Ht|]. repeat split; intros; try discriminate; auto.
  - intros x f IHx. destruct (Hat 14%nat x IHx false [tk TDot; tk (TIdentifier f)]) as (t & Ht & Hs & H14).
    exists t. cbn [show_raw prec]. split; [exact Ht|]. repeat split; intros; try discriminate; auto.
  - intros o x _. exists (unary_token o). cbn [show_raw prec]. split; [reflexivity|].
    repeat split; intros; try discriminate; destruct o; auto.
  - intros o l r IHl _.
    destruct (Hat (if is_cmp o then 5 else op_level o)%nat l IHl false
                (tk (op_token o) :: at_ (if is_cmp o then 5 else S (op_level o))%nat true r (show_raw r)))
      as (t & Ht & Hs & _).
    exists t. cbn [show_raw prec]. split; [exact Ht|].
    repeat split; try exact Hs; intros Hp; destruct o; cbn [op_level] in Hp; discriminate Hp.
  - intros f args _. eexists. cbn [show_raw prec hd_tok]. repeat split; intros; try discriminate; auto.
  - intros c t e' _ _ _. exists TKeywordIf. cbn [show_raw prec hd_tok]. repeat split; intros; try discriminate; auto.
  - intros ty x IHx. destruct (Hat 11%nat x IHx false [tk TKeywordAs; tk (TIdentifier (type_name ty))]) as (t & Ht & Hs & _).
    exists t. cbn [show_raw prec]. split; [exact Ht|]. repeat split; intros; try discriminate; auto.
  - intros. eexists. cbn. repeat split; intros; try discriminate; auto.
  - intros. eexists. cbn. repeat split; intros; try discriminate; auto.
  - intros. eexists. cbn. repeat split; intros; try discriminate; auto.
  - intros. eexists. cbn. repeat split; intros; try discriminate; auto.
  - intros. eexists. cbn. repeat split; intros; try discriminate; auto.
  - intros. eexists. cbn. repeat split; intros; try discriminate; auto.
  - intros. eexists. cbn. repeat split; intros; try discriminate; auto.
  - intros. eexists. cbn. repeat split; intros; try discriminate; auto.
Qed.

(* ------------------------------------------------------------------ next token tests *)

Lemma nm_hd t x m r b : next_matches x (PState (Token t m :: r) b) = if teqb t x then Some (PState r b) else None.
Proof. reflexivity. Qed.

Lemma peek_hd t x m r b : peek x (PState (Token t m :: r) b) = teqb t x.
Proof. reflexivity. Qed.

Lemma hd_tok_inv s t : hd_tok s = Some t -> exists m r, s = Token t m :: r.
Proof. destruct s as [|[t' m] r]; [discriminate|]. intros [= ->]. eauto. Qed.

Lemma prec_range e : (1 <= prec e <= 14)%nat.
Proof. destruct e; cbn [prec]; try lia. destruct o; cbn [op_level]; lia. Qed.

Lemma paren_false_prec j right e : (j <= 14)%nat -> paren_needed j right e = false -> (j <= prec e)%nat.
Proof.
  intro Hj. destruct e; cbn [paren_needed prec]; intro H; try exact Hj;
    try (apply Nat.ltb_ge in H; exact H).
  - apply orb_false_iff in H. destruct H as [_ H]. apply Nat.ltb_ge in H. exact H.
  - apply orb_false_iff in H. destruct H as [H _]. apply Nat.ltb_ge in H. exact H.
Qed.

(* ------------------------------------------------------------------ the statements about one
   tree, and how they follow from the one proved by induction *)

Definition CP (e : uexpr) : Prop := forall b rest r s',
  nofollow (S (prec e)) b rest -> EvL (prec e) e (PState rest b) r s' ->
  Ev (prec e) (PState (show_raw e ++ rest) b) r s'.

Definition Bare (e : uexpr) : Prop := forall k b rest r s', (1 <= k <= prec e)%nat ->
  nofollow (S k) b rest -> EvL k e (PState rest b) r s' -> Ev k (PState (show_raw e ++ rest) b) r s'.

Definition Top (e : uexpr) : Prop := forall b rest, nofollow 1 b rest ->
  EvE (PState (show_raw e ++ rest) b) e (PState rest b).

Definition Par (e : uexpr) : Prop := forall k b rest r s', (1 <= k <= 14)%nat ->
  nofollow (S k) b rest -> EvL k e (PState rest b) r s' -> Ev k (PState (parens (show_raw e) ++ rest) b) r s'.

Definition Gen (e : uexpr) : Prop := forall k j right b rest r s', (1 <= k <= j)%nat -> (j <= 14)%nat ->
  nofollow (S k) b rest -> EvL k e (PState rest b) r s' -> Ev k (PState (show_at j right e ++ rest) b) r s'.

Lemma head_falls12 s t : hd_tok (toks s) = Some t -> t <> TKeywordIf -> t <> TKeywordMatch -> falls12 s.
Proof.
  intros H N1 N2. destruct s as [ts b]. cbn [toks] in H. apply hd_tok_inv in H as (m & r & ->).
  split; rewrite nm_hd; now rewrite teqb_neq.
Qed.

Lemma head_falls13 s t : hd_tok (toks s) = Some t -> t <> TBang -> t <> TMinus -> falls13 s.
Proof.
  intros H N1 N2. destruct s as [ts b]. cbn [toks] in H. apply hd_tok_inv in H as (m & r & ->).
  split; rewrite nm_hd; now rewrite teqb_neq.
Qed.

Lemma bare_of_cp e : CP e -> Bare e.
Proof.
  intros Hcp k b rest r s' Hk Hnf HL.
  destruct (Nat.eq_dec k (prec e)) as [->|Hne]; [now apply Hcp|].
  assert (Hlt : (k < prec e)%nat) by lia. pose proof (prec_range e) as Hp.
  assert (HD : Ev (prec e) (PState (show_raw e ++ rest) b) e (PState rest b)).
  { apply Hcp; [apply (nofollow_mono (S k)); [lia|exact Hnf]|].
    apply (evl_exit (prec e) k); [lia|exact Hnf]. }
  destruct (show_head e) as (t & Ht & H14 & H13 & H12 & Hs).
  assert (Hhd : hd_tok (toks (PState (show_raw e ++ rest) b)) = Some t) by (cbn [toks]; now apply hd_tok_app).
  apply (chain_ev (prec e - S k) k (prec e) ltac:(lia) ltac:(lia) ltac:(lia) _ e rest b r s'); try assumption.
  - intro H. apply (head_falls12 _ t Hhd).
    + destruct (Nat.eq_dec (prec e) 13) as [E|E]; [destruct (H13 E) as [-> | ->]; discriminate|].
      assert (E14 : prec e = 14%nat) by lia. specialize (H14 E14). destruct t; try discriminate.
    + destruct (Nat.eq_dec (prec e) 13) as [E|E]; [destruct (H13 E) as [-> | ->]; discriminate|].
      assert (E14 : prec e = 14%nat) by lia. specialize (H14 E14). destruct t; try discriminate.
  - intro H. assert (E14 : prec e = 14%nat) by lia. specialize (H14 E14).
    apply (head_falls13 _ t Hhd); destruct t; try discriminate.
Qed.

Lemma top_of_bare e : Bare e -> Top e.
Proof.
  intros HB b rest Hnf. pose proof (prec_range e) as Hp.
  destruct (show_head e) as (t & Ht & _ & _ & _ & Hs).
  apply eve_of_ev1.
  - pose proof (hd_tok_app _ rest _ Ht) as Hh. apply hd_tok_inv in Hh as (m & r & ->).
    rewrite nm_hd. rewrite teqb_neq; [reflexivity|]. destruct t; try discriminate.
  - apply (HB 1%nat b rest e (PState rest b)); [lia|apply (nofollow_mono 1); [lia|exact Hnf]|].
    apply (evl_exit 1 0); [lia|exact Hnf].
Qed.

Lemma nofollow_tok k b t r : hard_tok b t = false ->
  (forall l, tok_level t = Some l -> (l < k)%nat) -> nofollow k b (tk t :: r).
Proof. intros H1 H2. split; assumption. Qed.

(* the parenthesised expression, as the base of parse_primary *)
Lemma paren_base e : Top e -> forall b rest, EvB (PState (parens (show_raw e) ++ rest) b) e (PState rest b).
Proof.
  intros HT b rest. destruct (HT b (tk TRightParen :: rest)) as [f Hf].
  { apply nofollow_tok; [reflexivity|intros l H; discriminate H]. }
  destruct (show_head e) as (t & Ht & _ & _ & _ & Hs).
  exists f. intros g n Hg Hn. unfold parse_primary_base, parens. cbn [app advance toks sla].
  cbn [parse_literal parse_literal_gen]. rewrite <- app_assoc. cbn [app].
  pose proof (hd_tok_app _ (tk TRightParen :: rest) _ Ht) as Hh. apply hd_tok_inv in Hh as (m & r & Er).
  rewrite Er. rewrite peek_hd. rewrite teqb_neq by (destruct t; try discriminate). cbn [negb].
  rewrite <- Er. rewrite (Hf g n Hg Hn). cbn [bindp]. rewrite peek_hd.
  replace (teqb TRightParen TComma) with false by reflexivity.
  unfold expect. rewrite nm_hd, teqb_refl. reflexivity.
Qed.

Lemma par_of_top e : Top e -> Par e.
Proof.
  intros HT k b rest r s' Hk Hnf HL. pose proof (paren_base e HT b rest) as HB.
  destruct (Nat.eq_dec k 14) as [->|Hne]; [exact (ev_14 _ _ _ _ _ HB HL)|].
  assert (H14 : Ev 14 (PState (parens (show_raw e) ++ rest) b) e (PState rest b)).
  { apply (ev_14 _ _ _ _ _ HB). apply (evl_exit 14 k); [lia|exact Hnf]. }
  apply (chain_ev (14 - S k) k 14 ltac:(lia) ltac:(lia) ltac:(lia) _ e rest b r s'); try assumption.
  - intros _. apply (head_falls12 _ TLeftParen); [reflexivity|discriminate|discriminate].
  - intros _. apply (head_falls13 _ TLeftParen); [reflexivity|discriminate|discriminate].
Qed.

Lemma gen_of e : Bare e -> Par e -> Gen e.
Proof.
  intros HB HP k j right b rest r s' Hk Hj Hnf HL. unfold show_at, at_.
  destruct (paren_needed j right e) eqn:Ep.
  - apply HP; [lia|exact Hnf|exact HL].
  - apply HB; [|exact Hnf|exact HL]. pose proof (paren_false_prec j right e Hj Ep). lia.
Qed.

Lemma all_of_cp e : CP e -> Bare e /\ Top e /\ Par e /\ Gen e.
Proof.
  intro H. pose proof (bare_of_cp e H) as HB. pose proof (top_of_bare e HB) as HT.
  pose proof (par_of_top e HT) as HP. auto using gen_of.
Qed.

(* ------------------------------------------------------------------ equations for the lists *)

Lemma show_more es : (fix more (es : list uexpr) : list token :=
    match es with [] => [] | y :: r => tk TComma :: show_raw y ++ more r end) es = more_toks es.
Proof. induction es as [|y r IH]; [reflexivity|]. cbn [more_toks]. now rewrite <- IH. Qed.

Lemma show_call f args : show_raw (UFnCall f args) =
  tk (TIdentifier f) :: tk TLeftParen ::
    match args with [] => [] | x :: r => show_raw x ++ more_toks r end ++ [tk TRightParen].
Proof. destruct args as [|x r]; [reflexivity|]. cbn [show_raw]. now rewrite show_more. Qed.

Lemma show_tuple es : show_raw (UTupleLiteral es) =
  tk TLeftParen ::
    match es with
    | [] => []
    | x :: r => show_raw x ++ more_toks r ++ (match r with [] => [tk TComma] | _ => [] end)
    end ++ [tk TRightParen].
Proof. destruct es as [|x r]; [reflexivity|]. cbn [show_raw]. now rewrite show_more. Qed.

Lemma wf_all_eq es : (fix all (es : list uexpr) : Prop :=
    match es with [] => True | y :: r => wf_expr y /\ all r end) es = wf_all es.
Proof. induction es as [|y r IH]; [reflexivity|]. cbn [wf_all]. now rewrite <- IH. Qed.

Lemma wf_call f args : wf_expr (UFnCall f args) = (ident_ok f /\ wf_all args).
Proof. cbn [wf_expr]. now rewrite wf_all_eq. Qed.

Lemma wf_tuple es : wf_expr (UTupleLiteral es) = wf_all es.
Proof. cbn [wf_expr]. now rewrite wf_all_eq. Qed.

Lemma tops_of es : Forall (fun x => wf_expr x -> CP x) es -> wf_all es -> Forall Top es.
Proof.
  induction 1 as [|x r Hx _ IH]; intro Hw; [constructor|]. destruct Hw as [H1 H2].
  constructor; [exact (proj1 (proj2 (all_of_cp x (Hx H1))))|exact (IH H2)].
Qed.

(* ------------------------------------------------------------------ blocks and comma lists *)

Lemma expr_start_not t x : expr_start t = true -> expr_start x = false -> teqb t x = false.
Proof. intros H1 H2. apply teqb_neq. intros ->. congruence. Qed.

Lemma block_ev x : Top x -> forall b rest,
  ev (fun g n => parse_block_as_expr (PE g) n (PState (show_raw x ++ tk TRightBrace :: rest) b))
     (POk x (PState (tk TRightBrace :: rest) b)).
Proof.
  intros HT b rest. destruct (HT true (tk TRightBrace :: rest)) as [f Hf].
  { apply nofollow_tok; [reflexivity|intros l H; discriminate H]. }
  destruct (show_head x) as (t & Ht & _ & _ & _ & Hs).
  pose proof (hd_tok_app _ (tk TRightBrace :: rest) _ Ht) as Hh. apply hd_tok_inv in Hh as (m & r & Er).
  exists (S (S f)). intros g n Hg Hn. destruct n as [|[|n]]; [lia|lia|].
  unfold parse_block_as_expr, parse_stmts, parse_stmts_of_block, set_sla. cbn [toks sla stmts_loop].
  assert (Hbe : block_ends (PState (show_raw x ++ tk TRightBrace :: rest) true) = false).
  { rewrite Er. unfold block_ends. cbn [toks]. rewrite !peek_hd.
    rewrite !(expr_start_not t) by (exact Hs || reflexivity). reflexivity. }
  rewrite Hbe. unfold parse_stmt.
  assert (Hlet : next_matches TKeywordLet (PState (show_raw x ++ tk TRightBrace :: rest) true) = None).
  { rewrite Er, nm_hd. now rewrite (expr_start_not t) by (exact Hs || reflexivity). }
  assert (Hfor : next_matches TKeywordFor (PState (show_raw x ++ tk TRightBrace :: rest) true) = None).
  { rewrite Er, nm_hd. now rewrite (expr_start_not t) by (exact Hs || reflexivity). }
  rewrite Hlet, Hfor. rewrite (Hf g (S n)) by lia. cbn [bindp].
  assert (Hend : block_ends (PState (Token TRightBrace m0 :: rest) true) = true) by reflexivity.
  destruct (accessors x) as [[identifier accs]|].
  - rewrite nm_hd. replace (teqb TRightBrace TEq) with false by reflexivity. cbn [toks assign_op].
    unfold opt_semicolon. rewrite !peek_hd, teqb_refl. cbn [negb andb bindp stmts_loop].
    rewrite Hend. cbn [rev app bindp toks sla]. reflexivity.
  - rewrite !peek_hd. rewrite teqb_refl. cbn [negb]. rewrite andb_false_r. cbn [andb bindp stmts_loop].
    rewrite Hend. cbn [rev app bindp toks sla]. reflexivity.
Qed.

Lemma nofollow_more b r rest : nofollow 1 b (more_toks r ++ tk TRightParen :: rest).
Proof.
  destruct r as [|y r]; cbn [more_toks app]; (apply nofollow_tok; [reflexivity|intros l H; discriminate H]).
Qed.

Lemma comma_ev : forall xs, Forall Top xs -> forall acc b rest,
  ev (fun g n => comma_loop (PE g) TRightParen n acc (PState (more_toks xs ++ tk TRightParen :: rest) b))
     (POk (rev acc ++ xs) (PState (tk TRightParen :: rest) b)).
Proof.
  induction 1 as [|y r Hy _ IH]; intros acc b rest.
  - exists 1%nat. intros g n _ Hn. destruct n as [|n]; [lia|]. cbn [more_toks app comma_loop].
    rewrite nm_hd. replace (teqb TRightParen TComma) with false by reflexivity. now rewrite app_nil_r.
  - destruct (Hy b (more_toks r ++ tk TRightParen :: rest) (nofollow_more b r rest)) as [f1 H1].
    destruct (IH (y :: acc) b rest) as [f2 H2].
    destruct (show_head y) as (t & Ht & _ & _ & _ & Hs).
    exists (S (Nat.max f1 f2)). intros g n Hg Hn. destruct n as [|n]; [lia|].
    cbn [more_toks comma_loop app]. rewrite <- app_assoc. rewrite nm_hd, teqb_refl.
    pose proof (hd_tok_app _ (more_toks r ++ tk TRightParen :: rest) _ Ht) as Hh.
    apply hd_tok_inv in Hh as (m & r' & Er). rewrite Er at 1. rewrite peek_hd.
    rewrite (expr_start_not t) by (exact Hs || reflexivity).
    rewrite (H1 g n) by lia. cbn [bindp]. rewrite (H2 g n) by lia. cbn [rev]. now rewrite <- app_assoc.
Qed.

(* ------------------------------------------------------------------ the cases *)

Lemma nf_peek k b rest x : nofollow k b rest -> hard_tok b x = true -> peek x (PState rest b) = false.
Proof.
  intros Hnf Hx. destruct rest as [|[t m] r]; [reflexivity|]. rewrite peek_hd.
  destruct (teqb t x) eqn:E; [|reflexivity]. apply teqb_true in E. subst t. destruct Hnf as [H _]. congruence.
Qed.

Lemma nf_nm k b rest x : nofollow k b rest -> hard_tok b x = true -> next_matches x (PState rest b) = None.
Proof.
  intros Hnf Hx. destruct rest as [|[t m] r]; [reflexivity|]. rewrite nm_hd.
  destruct (teqb t x) eqn:E; [|reflexivity]. apply teqb_true in E. subst t. destruct Hnf as [H _]. congruence.
Qed.

Lemma nf_brace k b rest : nofollow k b rest -> peek TLeftBrace (PState rest b) && b = false.
Proof.
  intro Hnf. destruct b; [|apply andb_false_r]. now rewrite (nf_peek k true rest TLeftBrace Hnf eq_refl).
Qed.

Lemma cp_atom e t : prec e = 14%nat -> show_raw e = [tk t] ->
  (forall b rest, nofollow 15 b rest ->
     forall pe n, parse_primary_base pe n (PState (tk t :: rest) b) = POk e (PState rest b)) ->
  CP e.
Proof.
  intros Hp Hs Hb b rest r s' Hnf HL. rewrite Hp in *. rewrite Hs. cbn [app].
  apply (ev_14 _ e (PState rest b)); [|exact HL].
  exists 0%nat. intros g n _ _. now apply Hb.
Qed.

Lemma cp_true : CP UTrue.
Proof. apply (cp_atom UTrue (TIdentifier s_true)); try reflexivity. Qed.

Lemma cp_false : CP UFalse.
Proof. apply (cp_atom UFalse (TIdentifier s_false)); try reflexivity. Qed.

Lemma cp_numu n t : CP (UNumUnsigned n t).
Proof.
  apply (cp_atom _ (TUnsignedNum n t)); try reflexivity. intros b rest Hnf pe n0.
  unfold parse_primary_base. cbn [advance toks sla parse_literal parse_literal_gen].
  now rewrite (nf_nm 15 b rest TDoubleDot Hnf eq_refl).
Qed.

Lemma cp_nums z t : CP (UNumSigned z t).
Proof. apply (cp_atom _ (TSignedNum z t)); try reflexivity. Qed.

Lemma cp_ident s : ident_ok s -> CP (UIdentifier s).
Proof.
  intros [H1 H2]. apply (cp_atom _ (TIdentifier s)); try reflexivity. intros b rest Hnf pe n0.
  unfold parse_primary_base. cbn [advance toks sla]. rewrite H1, H2. cbn [orb].
  rewrite (nf_peek 15 b rest TDoubleColon Hnf eq_refl), (nf_nm 15 b rest TLeftParen Hnf eq_refl).
  now rewrite (nf_brace 15 b rest Hnf).
Qed.

(* unary operators *)
Lemma cp_unary o x : Gen x -> CP (UUnaryOp o x).
Proof.
  intros HG b rest r s' Hnf HL. cbn [prec] in *.
  destruct (evl_ret 13 _ _ _ _ (or_intror eq_refl) HL) as [-> ->].
  destruct (HG 13%nat 13%nat false b rest x (PState rest b) ltac:(lia) ltac:(lia) Hnf) as [f Hf].
  { exists 0%nat. intros; reflexivity. }
  exists (S f). intros g n Hg Hn. destruct n as [|n]; [lia|].
  cbn [show_raw app parse_at parse_unary]. rewrite !nm_hd.
  destruct o; cbn [unary_token].
  - rewrite teqb_refl. change (parse_unary (PE g) n) with (parse_at 13 (PE g) n).
    unfold show_at in Hf. rewrite (Hf g n) by lia. reflexivity.
  - replace (teqb TMinus TBang) with false by reflexivity. rewrite teqb_refl.
    change (parse_unary (PE g) n) with (parse_at 13 (PE g) n).
    unfold show_at in Hf. rewrite (Hf g n) by lia. reflexivity.
Qed.

(* casts *)
Lemma type_tok_ok ty : wf_type ty -> forall pe n rest b,
  parse_type pe (S n) (PState (tk (TIdentifier (type_name ty)) :: rest) b) = POk ty (PState rest b).
Proof.
  intros H pe n rest b. cbn [parse_type]. rewrite !nm_hd.
  replace (teqb (TIdentifier (type_name ty)) TLeftParen) with false by reflexivity.
  replace (teqb (TIdentifier (type_name ty)) TLeftBracket) with false by reflexivity.
  unfold expect_identifier. cbn [toks sla]. now rewrite H.
Qed.

Lemma cp_cast ty x : wf_type ty -> Gen x -> CP (UCast ty x).
Proof.
  intros Hty HG b rest r s' Hnf HL. cbn [prec] in *. cbn [show_raw]. rewrite <- app_assoc. cbn [app].
  apply (HG 11%nat 11%nat false b _ r s' ltac:(lia) ltac:(lia)).
  - apply nofollow_tok; [reflexivity|intros l [= <-]; lia].
  - destruct HL as [f Hf]. exists (S (S f)). intros g n Hg Hn. destruct n as [|[|n]]; [lia|lia|].
    cbn [loop_at cast_loop]. rewrite nm_hd, teqb_refl. rewrite (type_tok_ok ty Hty).
    cbn [bindp]. apply (Hf g (S n)); lia.
Qed.

(* binary operators *)
Lemma op_level_range o : (1 <= op_level o <= 10)%nat.
Proof. destruct o; cbn [op_level]; lia. Qed.

Lemma ops_at_op o : ops_at (op_level o) (op_token o) = Some (UOp o).
Proof. destruct o; reflexivity. Qed.

Lemma op_token_level o : tok_level (op_token o) = Some (op_level o).
Proof. destruct o; reflexivity. Qed.

Lemma op_token_soft b o : hard_tok b (op_token o) = false.
Proof. destruct o; reflexivity. Qed.

Lemma cp_op o l r0 : Gen l -> Gen r0 -> CP (UOp o l r0).
Proof.
  intros HGl HGr b rest r s' Hnf HL. cbn [prec] in *. pose proof (op_level_range o) as Hp.
  set (p := op_level o) in *.
  set (jl := (if is_cmp o then 5 else p)%nat). set (jr := (if is_cmp o then 5 else S p)%nat).
  assert (Hjl : (p <= jl <= 14)%nat) by (unfold jl, p; destruct o; cbn [is_cmp op_level]; lia).
  assert (Hjr : (S p <= jr <= 14)%nat) by (unfold jr, p; destruct o; cbn [is_cmp op_level]; lia).
  cbn [show_raw]. fold p. fold jl. fold jr. rewrite <- app_assoc. cbn [app].
  apply (HGl p jl false b _ r s' ltac:(lia) ltac:(lia)).
  - apply nofollow_tok; [apply op_token_soft|]. intros lv Hlv. rewrite op_token_level in Hlv.
    injection Hlv as <-. unfold p. lia.
  - destruct HL as [f Hf].
    destruct (HGr (S p) jr true b rest r0 (PState rest b) ltac:(lia) ltac:(lia)) as [f2 H2].
    { apply (nofollow_mono (S p)); [lia|exact Hnf]. }
    { apply (evl_exit (S p) p); [lia|exact Hnf]. }
    exists (S (Nat.max f f2)). intros g n Hg Hn. destruct n as [|n]; [lia|].
    rewrite loop_at_bin by lia. cbn [binloop]. unfold next_op. cbn [toks sla]. unfold p at 1.
    rewrite ops_at_op. fold p. unfold show_at in H2. rewrite (H2 g n) by lia. cbn [bindp].
    rewrite <- loop_at_bin by lia. apply (Hf g n); lia.
Qed.

(* if / else if / else *)
Lemma cp_if c t e' : Top c -> Top t -> Top e' -> (forall c2 t2 e2, e' = UIf c2 t2 e2 -> CP e') ->
  CP (UIf c t e').
Proof.
  intros HTc HTt HTe HCe b rest r s' Hnf HL. cbn [prec] in *.
  destruct (evl_ret 12 _ _ _ _ (or_introl eq_refl) HL) as [-> ->].
  destruct (HTc false (tk TLeftBrace :: show_raw t ++ tk TRightBrace :: tk TKeywordElse ::
              match e' with
              | UIf _ _ _ => show_raw e'
              | _ => tk TLeftBrace :: show_raw e' ++ [tk TRightBrace]
              end ++ rest)) as [f1 H1].
  { apply nofollow_tok; [reflexivity|intros l H; discriminate H]. }
  destruct (block_ev t HTt b (tk TKeywordElse :: match e' with
              | UIf _ _ _ => show_raw e'
              | _ => tk TLeftBrace :: show_raw e' ++ [tk TRightBrace]
              end ++ rest)) as [f2 H2].
  assert (Helse : exists f3, forall g n, (f3 <= g)%nat -> (f3 <= n)%nat ->
            (let s7 := PState (match e' with
                               | UIf _ _ _ => show_raw e'
                               | _ => tk TLeftBrace :: show_raw e' ++ [tk TRightBrace]
                               end ++ rest) b in
             if peek TKeywordIf s7 then
               bindp (parse_if_or_match (PE g) n s7) (fun elseif_expr s8 => POk (UIf c t elseif_expr) s8)
             else
               expect TLeftBrace s7 (fun s8 =>
                 bindp (parse_block_as_expr (PE g) n s8) (fun else_expr s9 =>
                   expect TRightBrace s9 (fun s10 => POk (UIf c t else_expr) s10))))
            = POk (UIf c t e') (PState rest b)).
  { destruct (block_ev e' HTe b rest) as [f3 H3].
    assert (Hblock : forall g n, (f3 <= g)%nat -> (f3 <= n)%nat ->
              (let s7 := PState ((tk TLeftBrace :: show_raw e' ++ [tk TRightBrace]) ++ rest) b in
               if peek TKeywordIf s7 then
                 bindp (parse_if_or_match (PE g) n s7) (fun elseif_expr s8 => POk (UIf c t elseif_expr) s8)
               else
                 expect TLeftBrace s7 (fun s8 =>
                   bindp (parse_block_as_expr (PE g) n s8) (fun else_expr s9 =>
                     expect TRightBrace s9 (fun s10 => POk (UIf c t else_expr) s10))))
              = POk (UIf c t e') (PState rest b)).
    { intros g n Hg Hn. cbv zeta. cbn [app]. rewrite peek_hd.
      replace (teqb TLeftBrace TKeywordIf) with false by reflexivity.
      unfold expect at 1. rewrite nm_hd, teqb_refl. rewrite <- app_assoc. cbn [app].
      rewrite (H3 g n Hg Hn). cbn [bindp]. unfold expect. rewrite nm_hd, teqb_refl. reflexivity. }
    destruct e' as [| | | | | | | | | | | |c2 t2 e2| | | | | | | | |]; try (exists f3; exact Hblock).
    destruct (HCe c2 t2 e2 eq_refl b rest (UIf c2 t2 e2) (PState rest b)) as [f4 H4].
    { exact Hnf. } { exists 0%nat. intros; reflexivity. }
    exists f4. intros g n Hg Hn. cbv zeta.
    change (peek TKeywordIf (PState (show_raw (UIf c2 t2 e2) ++ rest) b)) with true. cbv iota.
    change (parse_if_or_match (PE g) n) with (parse_at 12 (PE g) n). cbn [prec] in H4.
    rewrite (H4 g n Hg Hn). reflexivity. }
  destruct Helse as [f3 H3].
  exists (S (Nat.max f1 (Nat.max f2 f3))). intros g n Hg Hn. destruct n as [|n]; [lia|].
  cbn [show_raw parse_at parse_if_or_match]. cbn [app]. rewrite nm_hd, teqb_refl.
  cbn [sla set_sla toks]. rewrite <- !app_assoc. cbn [app]. rewrite <- !app_assoc. cbn [app].
  unfold set_sla at 1. cbn [toks sla]. rewrite (H1 g n) by lia. cbn [bindp]. unfold set_sla at 1. cbn [toks sla]. unfold expect at 1.
  rewrite nm_hd, teqb_refl. rewrite (H2 g n) by lia. cbn [bindp]. unfold expect at 1.
  rewrite nm_hd, teqb_refl. rewrite nm_hd, teqb_refl.
  apply (H3 g n); lia.
Qed.

(* postfix forms *)
Lemma cp_tupacc x i : Gen x -> CP (UTupleAccess x i).
Proof.
  intros HG b rest r s' Hnf HL. cbn [prec show_raw] in *. rewrite <- app_assoc. cbn [app].
  apply (HG 14%nat 14%nat false b _ r s' ltac:(lia) ltac:(lia)).
  - apply nofollow_tok; [reflexivity|intros l [= <-]; lia].
  - destruct HL as [f Hf]. exists (S f). intros g n Hg Hn. destruct n as [|n]; [lia|].
    cbn [loop_at postfix_loop]. rewrite !peek_hd, !nm_hd.
    replace (teqb TDot TLeftBracket) with false by reflexivity. rewrite teqb_refl. cbn [orb toks sla].
    apply (Hf g n); lia.
Qed.

Lemma cp_structacc x fld : Gen x -> CP (UStructAccess x fld).
Proof.
  intros HG b rest r s' Hnf HL. cbn [prec show_raw] in *. rewrite <- app_assoc. cbn [app].
  apply (HG 14%nat 14%nat false b _ r s' ltac:(lia) ltac:(lia)).
  - apply nofollow_tok; [reflexivity|intros l [= <-]; lia].
  - destruct HL as [f Hf]. exists (S f). intros g n Hg Hn. destruct n as [|n]; [lia|].
    cbn [loop_at postfix_loop]. rewrite !peek_hd, !nm_hd.
    replace (teqb TDot TLeftBracket) with false by reflexivity. rewrite teqb_refl. cbn [orb toks sla].
    apply (Hf g n); lia.
Qed.

Lemma index_ev i : Top i -> forall b rest,
  EvE (PState (show_raw i ++ tk TRightBracket :: rest) b) i (PState (tk TRightBracket :: rest) b).
Proof.
  intros HT b rest. apply HT. apply nofollow_tok; [reflexivity|intros l H; discriminate H].
Qed.

Lemma cp_arr a i : Gen a -> Top i -> retype_index i = i -> CP (UArrayAccess a i).
Proof.
  intros HG HT Hri b rest r s' Hnf HL. cbn [prec show_raw] in *. rewrite <- app_assoc. cbn [app].
  apply (HG 14%nat 14%nat false b _ r s' ltac:(lia) ltac:(lia)).
  - apply nofollow_tok; [reflexivity|intros l [= <-]; lia].
  - destruct HL as [f Hf]. destruct (index_ev i HT b rest) as [f2 H2].
    exists (S (Nat.max f f2)). intros g n Hg Hn. destruct n as [|n]; [lia|].
    cbn [loop_at postfix_loop]. rewrite !peek_hd, !nm_hd. rewrite teqb_refl. cbn [orb toks sla].
    rewrite <- app_assoc. cbn [app]. rewrite (H2 g n) by lia. cbn [bindp]. rewrite Hri.
    unfold expect. rewrite nm_hd, teqb_refl. apply (Hf g n); lia.
Qed.

(* calls *)
Lemma cp_call f args : ident_ok f -> Forall Top args -> CP (UFnCall f args).
Proof.
  intros [Hf1 Hf2] HT b rest r s' Hnf HL. cbn [prec] in *. rewrite show_call.
  apply (ev_14 _ (UFnCall f args) (PState rest b)); [|exact HL].
  destruct args as [|x xs].
  - exists 0%nat. intros g n _ _. unfold parse_primary_base. cbn [app advance toks sla].
    rewrite Hf1, Hf2. cbn [orb]. rewrite !peek_hd, !nm_hd.
    replace (teqb TLeftParen TDoubleColon) with false by reflexivity. rewrite teqb_refl.
    rewrite peek_hd, teqb_refl. cbn [negb bindp]. unfold expect. rewrite nm_hd, teqb_refl. reflexivity.
  - inversion HT as [|x' xs' Hx Hxs]; subst.
    destruct (Hx b (more_toks xs ++ tk TRightParen :: rest) (nofollow_more b xs rest)) as [f1 H1].
    destruct (comma_ev xs Hxs [x] b rest) as [f2 H2].
    destruct (show_head x) as (t & Ht & _ & _ & _ & Hs).
    exists (Nat.max f1 f2). intros g n Hg Hn. unfold parse_primary_base. cbn [app advance toks sla].
    rewrite Hf1, Hf2. cbn [orb]. rewrite !peek_hd, !nm_hd.
    replace (teqb TLeftParen TDoubleColon) with false by reflexivity. rewrite teqb_refl.
    rewrite <- !app_assoc. cbn [app].
    pose proof (hd_tok_app _ (more_toks xs ++ tk TRightParen :: rest) _ Ht) as Hh.
    apply hd_tok_inv in Hh as (m & r' & Er). rewrite Er at 1. rewrite peek_hd.
    rewrite (expr_start_not t) by (exact Hs || reflexivity). cbn [negb].
    rewrite (H1 g n) by lia. cbn [bindp]. rewrite (H2 g n) by lia. cbn [bindp rev app].
    unfold expect. rewrite nm_hd, teqb_refl. reflexivity.
Qed.

(* tuples *)
Lemma cp_tuple es : Forall Top es -> CP (UTupleLiteral es).
Proof.
  intros HT b rest r s' Hnf HL. cbn [prec] in *. rewrite show_tuple.
  apply (ev_14 _ (UTupleLiteral es) (PState rest b)); [|exact HL].
  destruct es as [|x xs].
  - exists 0%nat. intros g n _ _. unfold parse_primary_base. cbn [app advance toks sla parse_literal parse_literal_gen].
    rewrite peek_hd, teqb_refl. cbn [negb]. unfold expect. rewrite nm_hd, teqb_refl. reflexivity.
  - inversion HT as [|x' xs' Hx Hxs]; subst.
    destruct (show_head x) as (t & Ht & _ & _ & _ & Hs).
    destruct xs as [|y ys].
    + destruct (Hx b (tk TComma :: tk TRightParen :: rest)) as [f1 H1].
      { apply nofollow_tok; [reflexivity|intros l H; discriminate H]. }
      exists (S f1). intros g n Hg Hn. destruct n as [|n]; [lia|].
      unfold parse_primary_base. cbn [app advance toks sla parse_literal parse_literal_gen more_toks].
      rewrite <- !app_assoc. cbn [app].
      pose proof (hd_tok_app _ (tk TComma :: tk TRightParen :: rest) _ Ht) as Hh.
      apply hd_tok_inv in Hh as (m & r' & Er). rewrite Er at 1. rewrite peek_hd.
      rewrite (expr_start_not t) by (exact Hs || reflexivity). cbn [negb].
      rewrite (H1 g (S n)) by lia. cbn [bindp]. rewrite peek_hd, teqb_refl.
      cbn [comma_loop]. rewrite nm_hd, teqb_refl. rewrite peek_hd, teqb_refl. cbn [bindp rev app].
      unfold expect. rewrite nm_hd, teqb_refl. reflexivity.
    + destruct (Hx b (more_toks (y :: ys) ++ tk TRightParen :: rest) (nofollow_more b (y :: ys) rest)) as [f1 H1].
      destruct (comma_ev (y :: ys) Hxs [x] b rest) as [f2 H2].
      exists (Nat.max f1 f2). intros g n Hg Hn.
      unfold parse_primary_base. cbn [app advance toks sla parse_literal parse_literal_gen].
      rewrite app_nil_r. rewrite <- !app_assoc.
      pose proof (hd_tok_app _ (more_toks (y :: ys) ++ [tk TRightParen] ++ rest) _ Ht) as Hh.
      apply hd_tok_inv in Hh as (m & r' & Er). rewrite Er at 1. rewrite peek_hd.
      rewrite (expr_start_not t) by (exact Hs || reflexivity). cbn [negb].
      cbn [app] in H1 |- *. rewrite (H1 g n) by lia. cbn [bindp more_toks app]. rewrite peek_hd, teqb_refl.
      cbn [more_toks app] in H2. rewrite (H2 g n) by lia. cbn [bindp rev app].
      unfold expect. rewrite nm_hd, teqb_refl. reflexivity.
Qed.

(* ------------------------------------------------------------------ the induction *)

Theorem cp_all : forall e, wf_expr e -> CP e.
Proof.
  apply (uexpr_ind2 (fun e => wf_expr e -> CP e)).
  - intros _. exact cp_true.
  - intros _. exact cp_false.
  - intros n t _. apply cp_numu.
  - intros z t _. apply cp_nums.
  - intros s H. now apply cp_ident.
  - intros a i IHa IHi (Ha & Hi & Hri). destruct (all_of_cp a (IHa Ha)) as (_ & _ & _ & HGa).
    destruct (all_of_cp i (IHi Hi)) as (_ & HTi & _ & _). now apply cp_arr.
  - intros es IH H. rewrite wf_tuple in H. apply cp_tuple. now apply tops_of.
  - intros x i IHx H. destruct (all_of_cp x (IHx H)) as (_ & _ & _ & HG). now apply cp_tupacc.
  - intros x f IHx H. destruct (all_of_cp x (IHx H)) as (_ & _ & _ & HG). now apply cp_structacc.
  - intros o x IHx H. destruct (all_of_cp x (IHx H)) as (_ & _ & _ & HG). now apply cp_unary.
  - intros o l r IHl IHr [Hl Hr]. destruct (all_of_cp l (IHl Hl)) as (_ & _ & _ & HGl).
    destruct (all_of_cp r (IHr Hr)) as (_ & _ & _ & HGr). now apply cp_op.
  - intros f args IH H. rewrite wf_call in H. destruct H as [Hf Ha]. apply cp_call; [exact Hf|now apply tops_of].
  - intros c t e' IHc IHt IHe (Hc & Ht & He).
    destruct (all_of_cp c (IHc Hc)) as (_ & HTc & _). destruct (all_of_cp t (IHt Ht)) as (_ & HTt & _).
    destruct (all_of_cp e' (IHe He)) as (_ & HTe & _). apply cp_if; try assumption. intros; now apply IHe.
  - intros ty x IHx [Hty Hx]. destruct (all_of_cp x (IHx Hx)) as (_ & _ & _ & HG). now apply cp_cast.
  - intros b [].
  - intros e arms [].
  - intros es [].
  - intros e k [].
  - intros e c [].
  - intros lo hi t [].
  - intros name fields [].
  - intros e v args [].
Qed.

(* ------------------------------------------------------------------ THE THEOREM *)

(* rest does not continue an expression: it is empty or starts with a token that is neither
   a binary operator, `as`, `[`, `.` nor one of `(`, `::`, `..` (which would change the reading
   of a final identifier / number) nor, where struct literals are allowed, `{` *)
Definition stops (b : bool) (rest : list token) : Prop :=
  match rest with
  | [] => True
  | Token t _ :: _ => hard_tok b t = false /\ tok_level t = None
  end.

Lemma stops_nofollow b rest : stops b rest -> nofollow 1 b rest.
Proof.
  destruct rest as [|[t m] r]; [auto|]. intros [H1 H2]. split; [exact H1|]. intros l Hl. congruence.
Qed.

Theorem parse_show_min_st e : wf_expr e -> forall b rest, stops b rest ->
  exists fuel, parse_expr_st fuel (PState (show_min e ++ rest) b) = POk e (PState rest b).
Proof.
  intros Hw b rest Hs. destruct (all_of_cp e (cp_all e Hw)) as (_ & HT & _).
  destruct (HT b rest (stops_nofollow b rest Hs)) as [f Hf]. exists f. exact (Hf f f (le_n _) (le_n _)).
Qed.

Theorem parse_show_min e : wf_expr e -> forall rest, stops true rest ->
  exists fuel, parse_expr fuel (show_min e ++ rest) = Some (e, rest).
Proof.
  intros Hw rest Hs. destruct (parse_show_min_st e Hw true rest Hs) as [f Hf]. exists f.
  unfold parse_expr. now rewrite Hf.
Qed.

(* in particular the whole input *)
Corollary parse_show_min_all e : wf_expr e -> exists fuel, parse_expr fuel (show_min e) = Some (e, []).
Proof.
  intro Hw. destruct (parse_show_min e Hw [] I) as [f Hf]. exists f. now rewrite app_nil_r in Hf.
Qed.

(* ------------------------------------------------------------------ corollaries *)

Definition id_ (s : list N) : uexpr := UIdentifier s.

(* (a) precedence: `a + b * c` and `a * b + c` *)
Corollary precedence_add_mul a b c : ident_ok a -> ident_ok b -> ident_ok c ->
  (exists fuel, parse_expr fuel [tk (TIdentifier a); tk TPlus; tk (TIdentifier b); tk TStar; tk (TIdentifier c)]
     = Some (UOp BAdd (id_ a) (UOp BMul (id_ b) (id_ c)), [])) /\
  (exists fuel, parse_expr fuel [tk (TIdentifier a); tk TStar; tk (TIdentifier b); tk TPlus; tk (TIdentifier c)]
     = Some (UOp BAdd (UOp BMul (id_ a) (id_ b)) (id_ c), [])).
Proof.
  intros Ha Hb Hc. split.
  - exact (parse_show_min_all (UOp BAdd (id_ a) (UOp BMul (id_ b) (id_ c))) (conj Ha (conj Hb Hc))).
  - exact (parse_show_min_all (UOp BAdd (UOp BMul (id_ a) (id_ b)) (id_ c)) (conj (conj Ha Hb) Hc)).
Qed.

(* (b) every binary operator that chains is left associative *)
Corollary left_associative o a b c : is_cmp o = false -> ident_ok a -> ident_ok b -> ident_ok c ->
  exists fuel, parse_expr fuel [tk (TIdentifier a); tk (op_token o); tk (TIdentifier b); tk (op_token o); tk (TIdentifier c)]
     = Some (UOp o (UOp o (id_ a) (id_ b)) (id_ c), []).
Proof.
  intros Ho Ha Hb Hc.
  destruct (parse_show_min_all (UOp o (UOp o (id_ a) (id_ b)) (id_ c)) (conj (conj Ha Hb) Hc)) as [f Hf].
  exists f. rewrite <- Hf. f_equal. destruct o; try discriminate Ho; reflexivity.
Qed.

(* (c) THE ELSE-IF PROPERTY: a binary operator after an UNPARENTHESISED if-chain (of any
   length) applies to the whole chain, not to its last `else if` *)
Theorem operator_after_if_chain c t e' o y : wf_expr (UIf c t e') -> wf_expr y ->
  forall b rest, stops b rest ->
  exists fuel,
    parse_expr_st fuel
      (PState (show_min (UIf c t e') ++ tk (op_token o)
                 :: show_at (if is_cmp o then 5 else S (op_level o))%nat true y ++ rest) b)
    = POk (UOp o (UIf c t e') y) (PState rest b).
Proof.
  intros Hw Hy b rest Hs. pose proof (stops_nofollow b rest Hs) as Hnf.
  pose proof (op_level_range o) as Hp. set (p := op_level o) in *.
  set (jr := (if is_cmp o then 5 else S p)%nat).
  assert (Hjr : (S p <= jr <= 14)%nat) by (unfold jr, p; destruct o; cbn [is_cmp op_level]; lia).
  destruct (all_of_cp _ (cp_all _ Hw)) as (HB & _). destruct (all_of_cp _ (cp_all _ Hy)) as (_ & _ & _ & HGy).
  set (chain := UIf c t e') in *.
  (* at the level of the operator *)
  assert (Hlev : Ev p (PState (show_raw chain ++ tk (op_token o) :: show_at jr true y ++ rest) b)
                   (UOp o chain y) (PState rest b)).
  { apply HB; [cbn [prec chain]; lia| |].
    - apply nofollow_tok; [apply op_token_soft|]. intros lv Hlv. rewrite op_token_level in Hlv.
      injection Hlv as <-. unfold p. lia.
    - destruct (HGy (S p) jr true b rest y (PState rest b) ltac:(lia) ltac:(lia)) as [f2 H2].
      { apply (nofollow_mono 1); [lia|exact Hnf]. }
      { apply (evl_exit (S p) p); [lia|apply (nofollow_mono 1); [lia|exact Hnf]]. }
      exists (S (S f2)). intros g n Hg Hn. destruct n as [|n]; [lia|].
      rewrite loop_at_bin by lia. cbn [binloop]. unfold next_op. cbn [toks sla]. unfold p at 1.
      rewrite ops_at_op. fold p. rewrite (H2 g n) by lia. cbn [bindp].
      destruct n as [|n]; [lia|]. rewrite <- loop_at_bin by lia.
      apply (loop_exit p 0); [lia|exact Hnf]. }
  (* down to parse_expr *)
  assert (H1 : Ev 1 (PState (show_raw chain ++ tk (op_token o) :: show_at jr true y ++ rest) b)
                 (UOp o chain y) (PState rest b)).
  { destruct (Nat.eq_dec p 1) as [E|NE]; [now rewrite E in Hlev|].
    apply (chain_ev (p - 2) 1 p ltac:(lia) ltac:(lia) ltac:(lia) _ (UOp o chain y) rest b); try assumption.
    - intro H. lia.
    - intro H. lia.
    - apply (nofollow_mono 1); [lia|exact Hnf].
    - apply (evl_exit 1 0); [lia|exact Hnf]. }
  assert (Hnb : next_matches TLeftBrace
            (PState (show_raw chain ++ tk (op_token o) :: show_at jr true y ++ rest) b) = None) by reflexivity.
  destruct (eve_of_ev1 _ _ _ Hnb H1) as [f Hf]. exists f. exact (Hf f f (le_n _) (le_n _)).
Qed.

(* the instance with identifiers and numbers:  if a { 1 } else if b { 2 } else { 3 } + 4 *)
Corollary else_if_then_plus a b : ident_ok a -> ident_ok b ->
  exists fuel, parse_expr fuel
    [tk TKeywordIf; tk (TIdentifier a); tk TLeftBrace; tk (TUnsignedNum 1 UnspecifiedU); tk TRightBrace;
     tk TKeywordElse; tk TKeywordIf; tk (TIdentifier b); tk TLeftBrace; tk (TUnsignedNum 2 UnspecifiedU); tk TRightBrace;
     tk TKeywordElse; tk TLeftBrace; tk (TUnsignedNum 3 UnspecifiedU); tk TRightBrace;
     tk TPlus; tk (TUnsignedNum 4 UnspecifiedU)]
  = Some (UOp BAdd (UIf (id_ a) (UNumUnsigned 1 UnspecifiedU)
                      (UIf (id_ b) (UNumUnsigned 2 UnspecifiedU) (UNumUnsigned 3 UnspecifiedU)))
                   (UNumUnsigned 4 UnspecifiedU), []).
Proof.
  intros Ha Hb.
  destruct (operator_after_if_chain (id_ a) (UNumUnsigned 1 UnspecifiedU)
              (UIf (id_ b) (UNumUnsigned 2 UnspecifiedU) (UNumUnsigned 3 UnspecifiedU)) BAdd
              (UNumUnsigned 4 UnspecifiedU)) with (b := true) (rest := @nil token) as [f Hf].
  - cbn. tauto.
  - exact I.
  - exact I.
  - exists f. unfold parse_expr. cbn in Hf. rewrite Hf. reflexivity.
Qed.

(* (d) the header flag is restored after a nested `if`:
       if (if a { 1 } else { 2 }) == v { x } else { y }
   the `v` before the `{` of the outer block is an identifier (not the start of a struct literal) *)
Corollary header_flag_restored a v x y : ident_ok a -> ident_ok v -> ident_ok x -> ident_ok y ->
  exists fuel, parse_expr fuel
    [tk TKeywordIf; tk TLeftParen; tk TKeywordIf; tk (TIdentifier a); tk TLeftBrace; tk (TUnsignedNum 1 UnspecifiedU);
     tk TRightBrace; tk TKeywordElse; tk TLeftBrace; tk (TUnsignedNum 2 UnspecifiedU); tk TRightBrace; tk TRightParen;
     tk TDoubleEq; tk (TIdentifier v); tk TLeftBrace; tk (TIdentifier x); tk TRightBrace;
     tk TKeywordElse; tk TLeftBrace; tk (TIdentifier y); tk TRightBrace]
  = Some (UIf (UOp BEq (UIf (id_ a) (UNumUnsigned 1 UnspecifiedU) (UNumUnsigned 2 UnspecifiedU)) (id_ v))
              (id_ x) (id_ y), []).
Proof.
  intros Ha Hv Hx Hy.
  exact (parse_show_min_all
           (UIf (UOp BEq (UIf (id_ a) (UNumUnsigned 1 UnspecifiedU) (UNumUnsigned 2 UnspecifiedU)) (id_ v)) (id_ x) (id_ y))
           (conj (conj (conj Ha (conj I I)) Hv) (conj Hx Hy))).
Qed.

(* the flag is state: every successful parse of a printed expression gives it back as it was
   (part of [parse_show_min_st]); and it matters: with the flag set, `v {` is not an identifier *)
Example flag_matters :
  parse_expr_st 10 (PState [tk (TIdentifier [118]); tk TLeftBrace; tk TRightBrace] true)
    = POk (UStructLiteral [118] []) (PState [] true) /\
  parse_expr_st 10 (PState [tk (TIdentifier [118]); tk TLeftBrace; tk TRightBrace] false)
    = POk (UIdentifier [118]) (PState [tk TLeftBrace; tk TRightBrace] false).
Proof. split; vm_compute; reflexivity. Qed.

Print Assumptions parse_show_min.
Print Assumptions parse_show_min_st.
Print Assumptions operator_after_if_chain.
Print Assumptions header_flag_restored.
Print Assumptions left_associative.

(* ------------------------------------------------------------------ examples: source text,
   scanned with the model of the real scanner (Front/Scan.v), then parsed *)

Module ParseExamples.
  Local Open Scope string_scope.
  Definition toks_of (s : string) : list token :=
    match scan_text (codes s) with Ok (STokens ts) => ts | _ => [] end.
  Definition p (s : string) : option (uexpr * list token) :=
    let ts := toks_of s in parse_expr (fuel_for_tokens ts) ts.
  Definition v (s : string) : uexpr := UIdentifier (codes s).
  Definition n (k : N) : uexpr := UNumUnsigned k UnspecifiedU.

  Example ex_precedence : p "a + b * c" = Some (UOp BAdd (v "a") (UOp BMul (v "b") (v "c")), []).
  Proof. vm_compute. reflexivity. Qed.

  Example ex_left_assoc : p "a - b - c" = Some (UOp BSub (UOp BSub (v "a") (v "b")) (v "c"), []).
  Proof. vm_compute. reflexivity. Qed.

  Example ex_levels : p "a || b && c == d < e | f ^ g & h << i + j * k as u8" =
    Some (UOp BShortCircuitOr (v "a") (UOp BShortCircuitAnd (v "b") (UOp BEq (v "c") (UOp BLessThan (v "d")
      (UOp BBitOr (v "e") (UOp BBitXor (v "f") (UOp BBitAnd (v "g") (UOp BShiftLeft (v "h")
        (UOp BAdd (v "i") (UOp BMul (v "j") (UCast (UTUnsigned U8) (v "k"))))))))))), []).
  Proof. vm_compute. reflexivity. Qed.

  (* the three defects found by testing, on the current code *)
  Example ex_else_if : p "if a { 1 } else if b { 2 } else { 3 } + 4" =
    Some (UOp BAdd (UIf (v "a") (n 1) (UIf (v "b") (n 2) (n 3))) (n 4), []).
  Proof. vm_compute. reflexivity. Qed.

  Example ex_le : p "x <= y" = Some (UUnaryOp UoNot (UOp BGreaterThan (v "x") (v "y")), []) /\
                  p "x >= y" = Some (UUnaryOp UoNot (UOp BLessThan (v "x") (v "y")), []).
  Proof. split; vm_compute; reflexivity. Qed.

  Example ex_header_flag : p "if (if a { 1 } else { 2 }) == v { x } else { y }" =
    Some (UIf (UOp BEq (UIf (v "a") (n 1) (n 2)) (v "v")) (v "x") (v "y"), []).
  Proof. vm_compute. reflexivity. Qed.

  Example ex_unary_cast_postfix : p "-x as u8 + f(a, b)[1].0.g" =
    Some (UOp BAdd (UCast (UTUnsigned U8) (UUnaryOp UoNeg (v "x")))
            (UStructAccess (UTupleAccess (UArrayAccess (UFnCall (codes "f") [v "a"; v "b"]) (UNumUnsigned 1 Usize)) 0)
               (codes "g")), []).
  Proof. vm_compute. reflexivity. Qed.

  Example ex_negative_literal : p "x - -1i8" = Some (UOp BSub (v "x") (UNumSigned (-1) I8), []).
  Proof. vm_compute. reflexivity. Qed.

  Example ex_tuples : p "((a, b,), (c,), ())" =
    Some (UTupleLiteral [UTupleLiteral [v "a"; v "b"]; UTupleLiteral [v "c"]; UTupleLiteral []], []).
  Proof. vm_compute. reflexivity. Qed.

  (* the index of `[..]` is a full expression; an index that is exactly an unsuffixed number
     (also in parentheses) is a usize; a tree with a bare unsuffixed number as index is not the
     result of a parse ([wf_expr] excludes it: printed and parsed again it comes back as usize) *)
  Example ex_index :
    p "a[1 + i]" = Some (UArrayAccess (v "a") (UOp BAdd (n 1) (v "i")), []) /\
    p "a[i + 1]" = Some (UArrayAccess (v "a") (UOp BAdd (v "i") (n 1)), []) /\
    p "a[(1 + i)]" = Some (UArrayAccess (v "a") (UOp BAdd (n 1) (v "i")), []) /\
    p "a[1]" = Some (UArrayAccess (v "a") (UNumUnsigned 1 Usize), []) /\
    p "a[(1)]" = Some (UArrayAccess (v "a") (UNumUnsigned 1 Usize), []) /\
    p "a[1usize]" = Some (UArrayAccess (v "a") (UNumUnsigned 1 Usize), []) /\
    p "a[1u8]" = Some (UArrayAccess (v "a") (UNumUnsigned 1 U8), []) /\
    show_min (UArrayAccess (v "a") (UOp BAdd (n 1) (v "i"))) = map (fun t => match t with Token te _ => tk te end) (toks_of "a[1 + i]") /\
    show_min (UArrayAccess (v "a") (UNumUnsigned 1 Usize)) = map (fun t => match t with Token te _ => tk te end) (toks_of "a[1usize]").
  Proof. repeat split; vm_compute; reflexivity. Qed.

  Example ex_index_not_wf :
    parse_expr 9 (show_min (UArrayAccess (v "a") (n 1))) = Some (UArrayAccess (v "a") (UNumUnsigned 1 Usize), []).
  Proof. vm_compute. reflexivity. Qed.

  (* the printer on a larger tree, and back *)
  Definition big : uexpr :=
    UOp BMul
      (UOp BAdd (v "a") (UIf (UOp BLessThan (v "x") (UCast (UTSigned I8) (v "a")))
                           (UUnaryOp UoNeg (UOp BSub (v "x") (UNumSigned (-3) I8)))
                           (UIf (v "p") (v "y") (UOp BShiftLeft (v "x") (n 1)))))
      (UCast (UTUnsigned U8) (UUnaryOp UoNot (UIf (v "q") (v "b") (v "a")))).

  Example ex_big_text : show_min big = map (fun t => match t with Token te _ => tk te end)
    (toks_of "(a + if x < (a as i8) { -(x - -3i8) } else if p { y } else { x << 1 }) * !(if q { b } else { a }) as u8").
  Proof. vm_compute. reflexivity. Qed.

  Example ex_big_roundtrip : parse_expr (fuel_for_tokens (show_min big)) (show_min big) = Some (big, []).
  Proof. vm_compute. reflexivity. Qed.
End ParseExamples.

(* ------------------------------------------------------------------ statements *)

(* the target of an assignment, read back as an expression, is the parsed left-hand side
   itself: `x.acc op= v` is parsed to `x.acc = (x.acc op v)` with the SAME index expressions
   on both sides (they are evaluated twice: the recorded finding op-assign-index-evaluated-twice) *)
Lemma target_expr_snoc x accs a :
  target_expr x (accs ++ [a]) =
  match a with
  | AArray i => UArrayAccess (target_expr x accs) i
  | ATuple i => UTupleAccess (target_expr x accs) i
  | AStruct f => UStructAccess (target_expr x accs) f
  end.
Proof. unfold target_expr. rewrite fold_left_app. reflexivity. Qed.

Theorem target_expr_accessors : forall e x accs, accessors e = Some (x, accs) -> target_expr x accs = e.
Proof.
  fix IH 1. intros e x accs H. destruct e; cbn [accessors] in H; try discriminate H.
  - injection H as <- <-. reflexivity.
  - destruct (accessors e1) as [[id acc]|] eqn:E; [|discriminate H]. injection H as <- <-.
    rewrite target_expr_snoc. now rewrite (IH e1 id acc E).
  - destruct (accessors e) as [[id acc]|] eqn:E; [|discriminate H]. injection H as <- <-.
    rewrite target_expr_snoc. now rewrite (IH e id acc E).
  - destruct (accessors e) as [[id acc]|] eqn:E; [|discriminate H]. injection H as <- <-.
    rewrite target_expr_snoc. now rewrite (IH e id acc E).
Qed.
Print Assumptions target_expr_accessors.

Module StmtExamples.
  Local Open Scope string_scope.
  Import ParseExamples.
  (* the statements of a function body (the text between its braces) *)
  Definition pb (s : string) : option (list ustmt) :=
    let ts := toks_of s in
    match parse_block_text (fuel_for_tokens ts) ts with POk stmts _ => Some stmts | _ => None end.
  Definition x_ (s : string) : list N := codes s.
  Definition pid (s : string) : upattern := PIdentifier (codes s).

  Example ex_let : pb "let x = 1; let mut y: u8 = 2u8; let (a, b): (u8, [bool; 3]) = f(x); let mut z = y; x" =
    Some [SLet (pid "x") None (n 1);
          SLetMut (x_ "y") (Some (UTUnsigned U8)) (UNumUnsigned 2 U8);
          SLet (PTuple [pid "a"; pid "b"]) (Some (UTTuple [UTUnsigned U8; UTArray UTBool 3])) (UFnCall (x_ "f") [v "x"]);
          SLetMut (x_ "z") None (v "y");
          SExpr (v "x")].
  Proof. vm_compute. reflexivity. Qed.

  Example ex_let_types : pb "let a: [[u8; N]; 2usize] = b; let c: Foo = d; let u: () = ();" =
    Some [SLet (pid "a") (Some (UTArray (UTArrayConst (UTUnsigned U8) (x_ "N")) 2)) (v "b");
          SLet (pid "c") (Some (UTNamed (x_ "Foo"))) (v "d");
          SLet (pid "u") (Some (UTTuple [])) (UTupleLiteral [])].
  Proof. vm_compute. reflexivity. Qed.

  (* assignment through accessors; the compound assignments are desugared, the index expression
     `f(i)` occurs twice *)
  Example ex_assign : pb "a[i].0 = e; x += e; a[f(i)] *= 2u8; s.k.1 >>= 1u8" =
    Some [SVarAssign (x_ "a") [AArray (v "i"); ATuple 0] (v "e");
          SVarAssign (x_ "x") [] (UOp BAdd (v "x") (v "e"));
          SVarAssign (x_ "a") [AArray (UFnCall (x_ "f") [v "i"])]
            (UOp BMul (UArrayAccess (v "a") (UFnCall (x_ "f") [v "i"])) (UNumUnsigned 2 U8));
          SVarAssign (x_ "s") [AStruct (x_ "k"); ATuple 1]
            (UOp BShiftRight (UTupleAccess (UStructAccess (v "s") (x_ "k")) 1) (UNumUnsigned 1 U8))].
  Proof. vm_compute. reflexivity. Qed.

  (* an index that is a bare number is a usize also in an assignment target *)
  Example ex_assign_index : pb "a[1] = a[1 + 1]" =
    Some [SVarAssign (x_ "a") [AArray (UNumUnsigned 1 Usize)] (UArrayAccess (v "a") (UOp BAdd (n 1) (n 1)))].
  Proof. vm_compute. reflexivity. Qed.

  Example ex_for : pb "let mut s = 0; for x in xs { s = s + x; } for (i, y) in f(ys) { g(i); s += y } s" =
    Some [SLetMut (x_ "s") None (n 0);
          SForEach (pid "x") (v "xs") [SVarAssign (x_ "s") [] (UOp BAdd (v "s") (v "x"))];
          SForEach (PTuple [pid "i"; pid "y"]) (UFnCall (x_ "f") [v "ys"])
            [SExpr (UFnCall (x_ "g") [v "i"]); SVarAssign (x_ "s") [] (UOp BAdd (v "s") (v "y"))];
          SExpr (v "s")].
  Proof. vm_compute. reflexivity. Qed.

  (* blocks as expressions; a block of one expression statement in an `if` is that expression,
     an `if` without else has the unit tuple as else branch *)
  Example ex_blocks : pb "let z = { let y = 1; { y } }; if c { z } if d { let w = z; w } else { }" =
    Some [SLet (pid "z") None (UBlock [SLet (pid "y") None (n 1); SExpr (UBlock [SExpr (v "y")])]);
          SExpr (UIf (v "c") (v "z") (UTupleLiteral []));
          SExpr (UIf (v "d") (UBlock [SLet (pid "w") None (v "z"); SExpr (v "w")]) (UTupleLiteral []))].
  Proof. vm_compute. reflexivity. Qed.

  (* match: every arm body is a Block of one statement; exclusive ranges are stored inclusive;
     no comma is needed after an arm that ends with a brace; trailing comma *)
  Example ex_match : pb "match x { 0 => 1, 1..3 => 2, 4..=5 => { 3 } -3i8..0i8 => 4, _ => if a { b } else { c } }" =
    Some [SExpr (UMatch (v "x")
            [(PNumUnsigned 0 UnspecifiedU, UBlock [SExpr (n 1)]);
             (PUnsignedInclusiveRange 1 2 UnspecifiedU, UBlock [SExpr (n 2)]);
             (PUnsignedInclusiveRange 4 5 UnspecifiedU, UBlock [SExpr (UBlock [SExpr (n 3)])]);
             (PSignedInclusiveRange (-3) (-1) I8, UBlock [SExpr (n 4)]);
             (pid "_", UBlock [SExpr (UIf (v "a") (v "b") (v "c"))])])].
  Proof. vm_compute. reflexivity. Qed.

  Example ex_match_patterns : pb "match x { (true, A::B(y), A::C, S { b: 1, a, .. }) => y, T { q } => { q = 1; } _ => 0, }" =
    Some [SExpr (UMatch (v "x")
            [(PTuple [PTrue; PEnumTuple (x_ "A") (x_ "B") [pid "y"]; PEnumUnit (x_ "A") (x_ "C");
                      PStructIgnoreRemaining (x_ "S") [(x_ "a", pid "a"); (x_ "b", PNumUnsigned 1 UnspecifiedU)]],
              UBlock [SExpr (v "y")]);
             (PStruct (x_ "T") [(x_ "q", pid "q")], UBlock [SExpr (UBlock [SVarAssign (x_ "q") [] (n 1)])]);
             (pid "_", UBlock [SExpr (n 0)])])].
  Proof. vm_compute. reflexivity. Qed.

  (* errors of the real parser: an empty exclusive range, a missing `;`, range suffixes that differ *)
  Example ex_errors :
    pb "match x { 1..0 => 1 }" = None /\ pb "let x = 1 x" = None /\ pb "match x { 1u8..2u16 => 1 }" = None /\
    pb "x = 1 y" = None /\ pb "f(x) g(y)" = None /\ pb "if a { b } g(y)" = Some [SExpr (UIf (v "a") (v "b") (UTupleLiteral [])); SExpr (UFnCall (x_ "g") [v "y"])].
  Proof. repeat split; vm_compute; reflexivity. Qed.

  (* a struct literal is not allowed in the header of `for` / `match`, but again inside the braces *)
  Example ex_flag : pb "for x in xs { y } for x in (S { a: 1 }) { }" = None /\
    pb "for x in xs { S { a: 1 } }" =
      Some [SForEach (pid "x") (v "xs") [SExpr (UStructLiteral (x_ "S") [(x_ "a", n 1)])]].
  Proof. split; vm_compute; reflexivity. Qed.

  (* array literals and repeats *)
  Example ex_arrays : pb "let a = [1, x + 1, f(y),]; let b = [0u8; 4]; let c = [[true; N]; 2usize]; [a][0]" =
    Some [SLet (pid "a") None (UArrayLiteral [n 1; UOp BAdd (v "x") (n 1); UFnCall (x_ "f") [v "y"]]);
          SLet (pid "b") None (UArrayRepeat (UNumUnsigned 0 U8) 4);
          SLet (pid "c") None (UArrayRepeat (UArrayRepeatConst UTrue (x_ "N")) 2);
          SExpr (UArrayAccess (UArrayLiteral [v "a"]) (UNumUnsigned 0 Usize))].
  Proof. vm_compute. reflexivity. Qed.

  Example ex_array_errors :
    pb "let a = [];" = None /\ pb "let a = [1; 2u8];" = None /\ pb "let a = [1; n + 1];" = None /\
    pb "let a = [1, 2;];" = None /\ pb "let a = [1 2];" = None.
  Proof. repeat split; vm_compute; reflexivity. Qed.

  (* ranges: only `lo..hi` between two unsigned number tokens; the type is the specified suffix *)
  Example ex_ranges : pb "for i in 0..10 { } for j in 2u8..5 { } for k in 1..4u16 { } for l in 3usize..3usize { }" =
    Some [SForEach (pid "i") (URange 0 10 UnspecifiedU) [];
          SForEach (pid "j") (URange 2 5 U8) [];
          SForEach (pid "k") (URange 1 4 U16) [];
          SForEach (pid "l") (URange 3 3 Usize) []].
  Proof. vm_compute. reflexivity. Qed.

  Example ex_range_errors :
    pb "for i in 0u8..10u16 { }" = None /\ pb "for i in 0..n { }" = None /\ pb "for i in 0..=3 { }" = None /\
    pb "for i in n..3 { }" = None /\ pb "for i in 0..-1 { }" = None.
  Proof. repeat split; vm_compute; reflexivity. Qed.

  (* struct literals: shorthand fields, trailing comma, the fields sorted by name (stable) *)
  Example ex_structs : pb "let s = S { b: 1, a, c: T { }, }; let t = U { z: f(S { a }) }; s" =
    Some [SLet (pid "s") None (UStructLiteral (x_ "S") [(x_ "a", v "a"); (x_ "b", n 1); (x_ "c", UStructLiteral (x_ "T") [])]);
          SLet (pid "t") None (UStructLiteral (x_ "U") [(x_ "z", UFnCall (x_ "f") [UStructLiteral (x_ "S") [(x_ "a", v "a")]])]);
          SExpr (v "s")].
  Proof. vm_compute. reflexivity. Qed.

  Example ex_struct_duplicate_field : pb "S { a: 2, b: 0, a: 1 }" =
    Some [SExpr (UStructLiteral (x_ "S") [(x_ "a", n 2); (x_ "a", n 1); (x_ "b", n 0)])].
  Proof. vm_compute. reflexivity. Qed.

  Example ex_struct_errors :
    pb "let s = S { a 1 };" = None /\ pb "let s = S { a: };" = None /\ pb "let s = S { 1: a };" = None /\
    pb "if S { a: 1 } == s { }" = None /\ pb "match S { a } { _ => 0 }" = None /\
    pb "if (S { a: 1 }) == s { }" = None.
  Proof. repeat split; vm_compute; reflexivity. Qed.

  (* enum literals: unit variant, tuple variant (also with no field), nested *)
  Example ex_enums : pb "let e = E::A; let f = E::B(1, E::C(), x,); g(E::A == e)" =
    Some [SLet (pid "e") None (UEnumLiteral (x_ "E") (x_ "A") None);
          SLet (pid "f") None (UEnumLiteral (x_ "E") (x_ "B")
                                 (Some [n 1; UEnumLiteral (x_ "E") (x_ "C") (Some []); v "x"]));
          SExpr (UFnCall (x_ "g") [UOp BEq (UEnumLiteral (x_ "E") (x_ "A") None) (v "e")])].
  Proof. vm_compute. reflexivity. Qed.

  Example ex_enum_errors :
    pb "let e = E::;" = None /\ pb "let e = E::1;" = None /\ pb "let e = E::A(;" = None /\ pb "let e = E::A(1 2);" = None.
  Proof. repeat split; vm_compute; reflexivity. Qed.

  (* an array type whose size is a constant expression *)
  Example ex_const_size : pb "let a: [u8; const { N + 1 }] = b; x as [bool; const { max(A, P::n - 2usize) }]" =
    Some [SLet (pid "a") (Some (UTArrayConstExpr (UTUnsigned U8) (CAdd (CIdent (x_ "N")) (CNumUnsigned 1 UnspecifiedU)))) (v "b");
          SExpr (UCast (UTArrayConstExpr UTBool
                         (CMax [CIdent (x_ "A");
                                CSub (CExternalValue (x_ "P") (x_ "n")) (CNumUnsigned 2 Usize)])) (v "x"))].
  Proof. vm_compute. reflexivity. Qed.

  Example ex_const_size_errors :
    pb "let a: [u8; const { N * 2 }] = b;" = None /\ pb "let a: [u8; const N] = b;" = None /\
    pb "let a: [u8; const { f(1) }] = b;" = None.
  Proof. repeat split; vm_compute; reflexivity. Qed.
End StmtExamples.

(* ------------------------------------------------------------------ whole programs *)

Module ProgramExamples.
  Local Open Scope string_scope.
  Import ParseExamples StmtExamples.
  Definition pp (s : string) : option uprogram :=
    let ts := toks_of s in
    match parse_program_text (fuel_for_tokens ts) ts with POk prog _ => Some prog | _ => None end.
  Definition u8 := UTUnsigned U8.

  (* all four kinds of items; `pub fn`, a `mut` parameter, unit and tuple variants, trailing commas;
     struct fields are sorted by name *)
  Example ex_program : pp
    "const N: usize = max(PARTY_0::N, 2 + K) - 1usize;
     const FLAG: bool = true;
     struct S { b: [u8; N], a: (bool, u16), }
     enum E { A, B(u8, S,), C(), }
     fn helper(x: u8) -> u8 { x + 1 }
     pub fn main(mut acc: u8, s: S,) -> E { acc += helper(s.b[0]); E::B(acc, s) }"
    = Some (UProgram
        [(x_ "N", UConstDef (UTUnsigned Usize)
                    (CSub (CMax [CExternalValue (x_ "PARTY_0") (x_ "N"); CAdd (CNumUnsigned 2 UnspecifiedU) (CIdent (x_ "K"))])
                          (CNumUnsigned 1 Usize)));
         (x_ "FLAG", UConstDef UTBool CTrue)]
        [(x_ "S", [(x_ "a", UTTuple [UTBool; UTUnsigned U16]); (x_ "b", UTArrayConst u8 (x_ "N"))])]
        [(x_ "E", [VUnit (x_ "A"); VTuple (x_ "B") [u8; UTNamed (x_ "S")]; VTuple (x_ "C") []])]
        [(x_ "helper", UFnDef false (x_ "helper") u8 [UParam false (x_ "x") u8] [SExpr (UOp BAdd (v "x") (n 1))]);
         (x_ "main", UFnDef true (x_ "main") (UTNamed (x_ "E"))
                       [UParam true (x_ "acc") u8; UParam false (x_ "s") (UTNamed (x_ "S"))]
                       [SVarAssign (x_ "acc") []
                          (UOp BAdd (v "acc") (UFnCall (x_ "helper") [UArrayAccess (UStructAccess (v "s") (x_ "b")) (UNumUnsigned 0 Usize)]));
                        SExpr (UEnumLiteral (x_ "E") (x_ "B") (Some [v "acc"; v "s"]))])]).
  Proof. vm_compute. reflexivity. Qed.

  (* `pub` is accepted (and ignored) before const / struct / enum, and alone at the end of the text;
     a later definition of a name replaces the earlier one (HashMap::insert); the empty program *)
  Example ex_pub_and_duplicates : pp
    "pub struct T { } pub enum F { X } pub const C: u8 = 1u8; fn f() -> u8 { 1u8 } fn g() -> () { } fn f() -> u8 { 2u8 } pub"
    = Some (UProgram [(x_ "C", UConstDef u8 (CNumUnsigned 1 U8))] [(x_ "T", [])] [(x_ "F", [VUnit (x_ "X")])]
              [(x_ "g", UFnDef false (x_ "g") (UTTuple []) [] []);
               (x_ "f", UFnDef false (x_ "f") u8 [] [SExpr (UNumUnsigned 2 U8)])]) /\
    pp "" = Some (UProgram [] [] [] []).
  Proof. split; vm_compute; reflexivity. Qed.

  (* a tuple variant whose first field type does not start with an identifier is not accepted
     (parse_variant only looks for an identifier there); later fields may be any type *)
  Example ex_variant_first_field :
    pp "enum E { A((u8, u8)) }" = None /\ pp "enum E { A([u8; 2]) }" = None /\
    pp "enum E { A(u8, (u8, bool), [u8; 2]) }" =
      Some (UProgram [] [] [(x_ "E", [VTuple (x_ "A") [u8; UTTuple [u8; UTBool]; UTArray u8 2]])] []).
  Proof. repeat split; vm_compute; reflexivity. Qed.

  Example ex_program_errors :
    pp "let x = 1;" = None /\                       (* not an item *)
    pp "pub pub fn f() -> u8 { 1u8 }" = None /\      (* `pub` twice *)
    pp "fn f() { }" = None /\                        (* no return type *)
    pp "fn f() -> u8 { 1u8 " = None /\               (* missing brace *)
    pp "fn f(x u8) -> u8 { x }" = None /\
    pp "fn f(, x: u8) -> u8 { x }" = None /\
    pp "struct S { a: u8 b: u8 }" = None /\
    pp "struct S ( a: u8 )" = None /\
    pp "enum E { }" = None /\                        (* an enum has at least one variant *)
    pp "enum E { A B }" = None /\
    pp "const C: u8 = f(1);" = None /\               (* not a constant expression *)
    pp "const C: u8 = 1u8 * 2u8;" = None /\
    pp "const C: u8 = 1u8" = None /\                 (* missing `;` *)
    pp "const C = 1u8;" = None /\                    (* missing type *)
    pp "const C: u8 = P::n(1);" = None /\            (* only the unit form `PARTY::NAME` *)
    pp "fn f() -> u8 { 1u8 } ;" = None.
  Proof. repeat split; vm_compute; reflexivity. Qed.
End ProgramExamples.

(* ------------------------------------------------------------------ the literal mode
   (Tokens::parse_literal, used by Literal::parse for argument texts) *)

Module LiteralExamples.
  Local Open Scope string_scope.
  Import ParseExamples StmtExamples.
  Definition pl (s : string) : option uexpr :=
    let ts := toks_of s in
    match parse_literal_text (fuel_for_tokens ts) ts with POk e _ => Some e | _ => None end.

  (* scalars; a negative number is ONE token for the scanner when the digits follow the `-`
     directly, so `-1` is a literal, `- 1` and `--1` are not *)
  Example lit_scalars :
    pl "true" = Some UTrue /\ pl "false" = Some UFalse /\ pl "5" = Some (n 5) /\ pl "5u8" = Some (UNumUnsigned 5 U8) /\
    pl "-1" = Some (UNumSigned (-1) UnspecifiedS) /\ pl "-5i16" = Some (UNumSigned (-5) I16) /\
    pl "- 1" = None /\ pl "--1" = None.
  Proof. repeat split; vm_compute; reflexivity. Qed.

  (* the whole input must be one literal; errors that do not stop the parser are errors; no
     variables, no operators, no calls, no postfix forms *)
  Example lit_rejected :
    pl "5 6" = None /\ pl "true false" = None /\ pl "0u8..3u16" = None /\ pl "" = None /\ pl "x" = None /\
    pl "1 + 2" = None /\ pl "(1 + 2)" = None /\ pl "[f(1)]" = None /\ pl "a.b" = None /\ pl "[x; 2]" = None /\
    pl "E::V(x)" = None.
  Proof. repeat split; vm_compute; reflexivity. Qed.

  Example lit_tuples :
    pl "(1, 2)" = Some (UTupleLiteral [n 1; n 2]) /\ pl "()" = Some (UTupleLiteral []) /\
    pl "(1,)" = Some (UTupleLiteral [n 1]) /\ pl "(1)" = Some (n 1).
  Proof. repeat split; vm_compute; reflexivity. Qed.

  (* arrays: the size of a repeat must be a number in literal mode (`[1; N]` is rejected); ranges *)
  Example lit_arrays :
    pl "[1; 3]" = Some (UArrayRepeat (n 1) 3) /\ pl "[1; N]" = None /\ pl "[1, 2,]" = Some (UArrayLiteral [n 1; n 2]) /\
    pl "1..3" = Some (URange 1 3 UnspecifiedU) /\
    pl "[1..3, 0u8..2]" = Some (UArrayLiteral [URange 1 3 UnspecifiedU; URange 0 2 U8]).
  Proof. repeat split; vm_compute; reflexivity. Qed.

  (* structs (no shorthand field: it would read a variable) and enums, nested *)
  Example lit_structs_enums :
    pl "S { a: 1, b: [true, false] }" =
      Some (UStructLiteral (x_ "S") [(x_ "a", n 1); (x_ "b", UArrayLiteral [UTrue; UFalse])]) /\
    pl "S { a }" = None /\ pl "S { }" = Some (UStructLiteral (x_ "S") []) /\
    pl "E::V(1, (2, 3))" = Some (UEnumLiteral (x_ "E") (x_ "V") (Some [n 1; UTupleLiteral [n 2; n 3]])) /\
    pl "E::V" = Some (UEnumLiteral (x_ "E") (x_ "V") None) /\ pl "E::V()" = Some (UEnumLiteral (x_ "E") (x_ "V") (Some [])) /\
    pl "[S { a: E::A(-1i8) }; 2usize]" =
      Some (UArrayRepeat (UStructLiteral (x_ "S") [(x_ "a", UEnumLiteral (x_ "E") (x_ "A") (Some [UNumSigned (-1) I8]))]) 2).
  Proof. repeat split; vm_compute; reflexivity. Qed.
End LiteralExamples.
