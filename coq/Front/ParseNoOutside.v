(* The result [POutside] ("the input uses a form the model does not cover") is never produced:
   since the model of Front/ParseExpr.v covers the whole grammar, no branch of it builds a
   [POutside]; the constructor only survives in the type [pres] and in the propagation of
   [bindp].  Removing it would change ParseExpr.v (and every match on [pres] elsewhere), so it is
   PROVED unused instead: an invariant [no_out], closed under [bindp] and every helper, by
   induction over all parser functions (the style of the okD invariant of ParseTotal.v). *)
From Coq Require Import Lia ZArith String List.
From GV Require Import Base.Util Front.Scan Front.ParseExpr.
Import ListNotations.
Local Open Scope N_scope.

Definition no_out {A} (r : pres A) : Prop := match r with POutside _ => False | _ => True end.

Definition NO {A} (f : pstate -> pres A) : Prop := forall s, no_out (f s).

Lemma no_out_neq {A} (r : pres A) : no_out r <-> forall o, r <> POutside o.
Proof.
  split.
  - intros H o E. subst r. exact H.
  - intro H. destruct r; try exact I. exact (H o eq_refl).
Qed.

Lemma no_bind {A B} (m : pres A) (k : A -> pstate -> pres B) :
  no_out m -> (forall a s, no_out (k a s)) -> no_out (bindp m k).
Proof. destruct m; cbn [bindp no_out]; auto. Qed.

Lemma no_expect {A} t s (k : pstate -> pres A) : (forall s1, no_out (k s1)) -> no_out (expect t s k).
Proof. intro H. unfold expect. destruct (next_matches t s); [apply H|exact I]. Qed.

Lemma no_expect_id {A} s (k : list N -> pstate -> pres A) :
  (forall id s1, no_out (k id s1)) -> no_out (expect_identifier s k).
Proof. intro H. unfold expect_identifier. destruct (toks s) as [|[t m] r]; [exact I|]. destruct t; try exact I. apply H. Qed.

Lemma no_opt_semicolon {A} s (k : pstate -> pres A) : (forall s1, no_out (k s1)) -> no_out (opt_semicolon s k).
Proof. intro H. unfold opt_semicolon. destruct (_ && _); [now apply no_expect|apply H]. Qed.

Ltac no_step :=
  match goal with
  | |- no_out (POk _ _) => exact I
  | |- no_out PErr => exact I
  | |- no_out PNoFuel => exact I
  | |- no_out (bindp _ _) => apply no_bind; [|intros ? ?]
  | |- no_out (expect _ _ _) => apply no_expect; intros ?
  | |- no_out (expect_identifier _ _) => apply no_expect_id; intros ? ?
  | |- no_out (opt_semicolon _ _) => apply no_opt_semicolon; intros ?
  | |- no_out (match ?x with _ => _ end) => destruct x
  | |- _ => solve [eauto]
  end.
Ltac nop := unfold NO in *; cbv zeta; repeat no_step.

(* ------------------------------------------------------------------ loops, types, patterns *)

Lemma strict_comma_loop_no {A} (item : pstate -> pres A) : NO item ->
  forall n acc, NO (strict_comma_loop item n acc).
Proof. intro Hi. induction n as [|n IH]; intros acc s; cbn [strict_comma_loop]; nop. Qed.

Lemma sep_loop_no {A} (item : pstate -> pres A) close : NO item -> forall n acc, NO (sep_loop item close n acc).
Proof. intro Hi. induction n as [|n IH]; intros acc s; cbn [sep_loop]; nop. Qed.

Lemma comma_loop_no pe close : NO pe -> forall n acc, NO (comma_loop pe close n acc).
Proof. intro Hi. induction n as [|n IH]; intros acc s; cbn [comma_loop]; nop. Qed.

Lemma parse_type_no pe : NO pe -> forall n, NO (parse_type pe n).
Proof.
  intro Hp. induction n as [|n IH]; intro s; cbn [parse_type]; [exact I|].
  pose proof (strict_comma_loop_no (parse_type pe n) IH n) as Hl. nop.
Qed.

Lemma pattern_field_no pp : NO pp -> NO (pattern_field pp).
Proof. intros Hp s. unfold pattern_field. nop. Qed.

Lemma field_loop_no pp : NO pp -> forall n acc, NO (field_loop pp n acc).
Proof.
  intro Hp. pose proof (pattern_field_no pp Hp) as Hf.
  induction n as [|n IH]; intros acc s; cbn [field_loop]; nop.
Qed.

Lemma pattern_fields_no pp : NO pp -> forall n, NO (pattern_fields pp n).
Proof. intros Hp n s. unfold pattern_fields. pose proof (sep_loop_no pp TRightParen Hp n) as Hl. nop. Qed.

Lemma parse_pattern_no : forall n, NO (parse_pattern n).
Proof.
  induction n as [|n IH]; intro s; cbn [parse_pattern]; [exact I|].
  pose proof (pattern_fields_no (parse_pattern n) IH n) as H1.
  pose proof (pattern_field_no (parse_pattern n) IH) as H2.
  pose proof (field_loop_no (parse_pattern n) IH n) as H3.
  nop.
Qed.

(* ------------------------------------------------------------------ literals *)

Lemma struct_field_no olc pe : NO pe -> NO (struct_field olc pe).
Proof. intros Hp s. unfold struct_field. nop. Qed.

Lemma parse_literal_gen_no olc pe : NO pe -> forall n t, NO (parse_literal_gen olc pe n t).
Proof.
  intros Hp n t s. unfold parse_literal_gen.
  pose proof (comma_loop_no pe TRightParen Hp n) as H1.
  pose proof (comma_loop_no pe TRightBracket Hp n) as H2.
  pose proof (struct_field_no olc pe Hp) as H3.
  pose proof (sep_loop_no (struct_field olc pe) TRightBrace H3 n) as H4.
  nop.
Qed.

(* ------------------------------------------------------------------ one nesting level of parse_expr *)

Section LevelNo.
  Variable pe : pstate -> pres uexpr.
  Hypothesis Hp : NO pe.

  Lemma postfix_loop_no : forall n x, NO (postfix_loop pe n x).
  Proof. induction n as [|n IH]; intros x s; cbn [postfix_loop]; nop. Qed.

  Lemma parse_primary_base_no n : NO (parse_primary_base pe n).
  Proof.
    intro s. unfold parse_primary_base, parse_literal.
    pose proof (parse_literal_gen_no false pe Hp n) as H1.
    pose proof (comma_loop_no pe TRightParen Hp n) as H2. nop.
  Qed.

  Lemma parse_primary_no n : NO (parse_primary pe n).
  Proof.
    intro s. unfold parse_primary. pose proof (parse_primary_base_no n) as H1. pose proof (postfix_loop_no n) as H2. nop.
  Qed.

  Lemma parse_unary_no : forall n, NO (parse_unary pe n).
  Proof. induction n as [|n IH]; intro s; cbn [parse_unary]; [exact I|]. pose proof (parse_primary_no n) as H1. nop. Qed.

  Lemma no_opt_type {A} n s (k : option utype -> pstate -> pres A) :
    (forall ty s1, no_out (k ty s1)) -> no_out (opt_type pe n s k).
  Proof. intro Hk. unfold opt_type. pose proof (parse_type_no pe Hp n) as H1. nop. Qed.

  Lemma parse_stmt_no n : NO (parse_stmt pe n).
  Proof.
    intro s. unfold parse_stmt. pose proof (parse_pattern_no n) as H1.
    nop; try (apply no_opt_type; intros ? ?; nop).
  Qed.

  Lemma stmts_loop_no : forall n acc, NO (stmts_loop pe n acc).
  Proof. induction n as [|n IH]; intros acc s; cbn [stmts_loop]; [exact I|]. pose proof (parse_stmt_no n) as H1. nop. Qed.

  Lemma parse_stmts_no n : NO (parse_stmts pe n).
  Proof. intro s. unfold parse_stmts, parse_stmts_of_block. pose proof (stmts_loop_no n []) as H1. nop. Qed.

  Lemma parse_block_as_expr_no n : NO (parse_block_as_expr pe n).
  Proof. intro s. unfold parse_block_as_expr. pose proof (parse_stmts_no n) as H1. nop. Qed.

  Lemma parse_match_clause_no n : NO (parse_match_clause pe n).
  Proof. intro s. unfold parse_match_clause. pose proof (parse_pattern_no n) as H1. pose proof (parse_stmt_no n) as H2. nop. Qed.

  Lemma match_loop_no : forall n ewb acc, NO (match_loop pe n ewb acc).
  Proof.
    induction n as [|n IH]; intros ewb acc s; cbn [match_loop]; [exact I|].
    pose proof (parse_match_clause_no n) as H1. nop.
  Qed.

  Lemma parse_if_or_match_no : forall n, NO (parse_if_or_match pe n).
  Proof.
    induction n as [|n IH]; intro s; cbn [parse_if_or_match]; [exact I|].
    pose proof (parse_block_as_expr_no n) as H1. pose proof (parse_match_clause_no n) as H2.
    pose proof (match_loop_no n) as H3. pose proof (parse_unary_no n) as H4. nop.
  Qed.

  Lemma cast_loop_no : forall n x, NO (cast_loop pe n x).
  Proof. induction n as [|n IH]; intros x s; cbn [cast_loop]; [exact I|]. pose proof (parse_type_no pe Hp n) as H1. nop. Qed.

  Definition NOn (f : nat -> pstate -> pres uexpr) : Prop := forall n, NO (f n).

  Lemma parse_cast_no : NOn (parse_cast pe).
  Proof. intros n s. unfold parse_cast. pose proof (parse_if_or_match_no n) as H1. pose proof (cast_loop_no n) as H2. nop. Qed.

  Lemma binloop_no ops sub : NOn sub -> forall n x, NO (binloop ops sub n x).
  Proof. intro Hs. induction n as [|n IH]; intros x s; cbn [binloop]; [exact I|]. pose proof (Hs n) as H1. nop. Qed.

  Lemma binlevel_no ops sub : NOn sub -> NOn (binlevel ops sub).
  Proof. intros Hs n s. unfold binlevel. pose proof (Hs n) as H1. pose proof (binloop_no ops sub Hs n) as H2. nop. Qed.

  Lemma parse_short_circuiting_or_no : NOn (parse_short_circuiting_or pe).
  Proof.
    unfold parse_short_circuiting_or, parse_short_circuiting_and, parse_equality, parse_comparison, parse_or,
      parse_xor, parse_and, parse_shift, parse_term, parse_factor.
    repeat apply binlevel_no. apply parse_cast_no.
  Qed.

  Lemma parse_expr_body_no n : NO (parse_expr_body pe n).
  Proof.
    intro s. unfold parse_expr_body. pose proof (parse_stmts_no n) as H1.
    pose proof (parse_short_circuiting_or_no n) as H2. nop.
  Qed.
End LevelNo.

Lemma parse_expr_st_no : forall f, NO (parse_expr_st f).
Proof. induction f as [|f IH]; intro s; cbn [parse_expr_st]; [exact I|]. now apply parse_expr_body_no. Qed.

Lemma parse_literal_recursively_no : forall n, NO (parse_literal_recursively n).
Proof.
  induction n as [|n IH]; intro s; cbn [parse_literal_recursively]; [exact I|].
  pose proof (parse_literal_gen_no true _ IH n) as H1. nop.
Qed.

(* ------------------------------------------------------------------ top-level items *)

Section ItemsNo.
  Variable fuel : nat.
  Let Hp : NO (parse_expr_st fuel) := parse_expr_st_no fuel.
  Let Hty : NO (parse_type (parse_expr_st fuel) fuel) := parse_type_no _ Hp fuel.

  Lemma parse_const_def_no : NO (parse_const_def fuel).
  Proof. intro s. unfold parse_const_def. nop. Qed.

  Lemma parse_field_def_no : NO (parse_field_def fuel).
  Proof. intro s. unfold parse_field_def. nop. Qed.

  Lemma parse_struct_def_no : NO (parse_struct_def fuel).
  Proof.
    intro s. unfold parse_struct_def. pose proof parse_field_def_no as H1.
    pose proof (sep_loop_no _ TRightBrace H1 fuel) as H2. nop.
  Qed.

  Lemma parse_variant_no : NO (parse_variant fuel).
  Proof. intro s. unfold parse_variant. pose proof (sep_loop_no _ TRightParen Hty fuel) as H2. nop. Qed.

  Lemma parse_enum_def_no : NO (parse_enum_def fuel).
  Proof.
    intro s. unfold parse_enum_def. pose proof parse_variant_no as H1.
    pose proof (sep_loop_no _ TRightBrace H1 fuel) as H2. nop.
  Qed.

  Lemma parse_param_no : NO (parse_param fuel).
  Proof. intro s. unfold parse_param. destruct (next_matches TKeywordMut s); nop. Qed.

  Lemma parse_params_no : NO (parse_params fuel).
  Proof.
    intro s. unfold parse_params. pose proof parse_param_no as H1.
    pose proof (sep_loop_no _ TRightParen H1 fuel) as H2. nop.
  Qed.

  Lemma parse_fn_def_no is_pub : NO (parse_fn_def fuel is_pub).
  Proof.
    intro s. unfold parse_fn_def. pose proof parse_params_no as H1.
    pose proof (parse_stmts_no _ Hp fuel) as H2. nop.
  Qed.

  Lemma items_loop_no : forall n is_pub prog, NO (items_loop fuel n is_pub prog).
  Proof.
    induction n as [|n IH]; intros is_pub prog s; cbn [items_loop]; [exact I|].
    pose proof parse_const_def_no as H1. pose proof parse_struct_def_no as H2.
    pose proof parse_enum_def_no as H3. pose proof parse_fn_def_no as H4. nop.
  Qed.
End ItemsNo.

(* ------------------------------------------------------------------ THE THEOREMS *)

Theorem parse_expr_st_no_outside fuel s o : parse_expr_st fuel s <> POutside o.
Proof. apply no_out_neq, parse_expr_st_no. Qed.

Theorem parse_program_text_no_outside fuel ts o : parse_program_text fuel ts <> POutside o.
Proof. apply no_out_neq. unfold parse_program_text. apply items_loop_no. Qed.

Theorem parse_block_text_no_outside fuel ts o : parse_block_text fuel ts <> POutside o.
Proof.
  apply no_out_neq. unfold parse_block_text. pose proof (parse_stmts_no _ (parse_expr_st_no fuel) fuel) as H1. nop.
Qed.

Theorem parse_literal_text_no_outside fuel ts o : parse_literal_text fuel ts <> POutside o.
Proof.
  apply no_out_neq. unfold parse_literal_text.
  pose proof (parse_literal_gen_no true _ (parse_literal_recursively_no fuel) fuel) as H1. nop.
Qed.

(* [parse_expr] already folds every non-[POk] result into [None]; nothing to state there. *)

Print Assumptions parse_expr_st_no_outside.
Print Assumptions parse_program_text_no_outside.
Print Assumptions parse_block_text_no_outside.
Print Assumptions parse_literal_text_no_outside.
