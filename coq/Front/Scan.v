(* Model of /repo/src/scan.rs (the whole scanner) and of the token types of /repo/src/token.rs.

   Input representation.  `Scanner::new` iterates over `prg.chars()`.  The model takes the
   UTF-8 *bytes* of the text (list of N, each 0..255) and turns them into the char sequence
   with [chars_of_bytes]: a `&str` is always valid UTF-8, so it has exactly one char per
   non-continuation byte (a continuation byte is 0x80..0xBF).  A char is represented by its
   first byte: for ASCII that is the char itself; every non-ASCII char is represented by a
   lead byte >= 0xC0, and the scanner treats all non-ASCII chars alike (not a digit, not
   alphanumeric, equal to none of the punctuation chars), so nothing else about them matters.

   Numbers: `usize` is 64 bits; `line`/`column` are unbounded N (the `+= 1` overflow checks
   of the debug build cannot fire for texts shorter than 2^63 chars); the block-comment
   nesting `level` (an `i32` in Rust) is an unbounded N (cannot overflow for texts shorter
   than 2^32 bytes).

   Control flow is mirrored branch by branch.  The only loop of scan.rs that is not
   obviously terminating (the block-comment loop, scan.rs:195-210) takes explicit fuel; the
   main loop takes the same fuel.  `while let Some(d) = self.next_matches_digit()` and its
   alphanumeric / line-comment siblings consume one char per iteration and are structural
   recursions on the remaining input ([take_while]).

   This file follows the REPAIRED scanner (fix 01: an unterminated block comment is reported
   as `ScanErrorEnum::UnterminatedBlockComment` instead of looping forever).  The loop of
   the unrepaired code is kept in Front/ScanUnfixed.v together with the proof that no
   amount of fuel lets it terminate on "/*". *)
From GV Require Import Base.Util.
From Coq Require Import String Ascii.

(* ------------------------------------------------------------------ token.rs *)

Inductive unsigned_num_type := Usize | U8 | U16 | U32 | U64 | UnspecifiedU.
Inductive signed_num_type := I8 | I16 | I32 | I64 | UnspecifiedS.

(* TokenEnum, same order as token.rs (constructors prefixed with T) *)
Inductive token_enum :=
| TIdentifier (s : list N)
| TUnsignedNum (n : N) (t : unsigned_num_type)
| TSignedNum (z : Z) (t : signed_num_type)
| TKeywordConst | TKeywordStruct | TKeywordEnum | TKeywordFn | TKeywordLet | TKeywordIf
| TKeywordElse | TKeywordMatch | TKeywordMut | TKeywordAs | TKeywordPub | TKeywordFor
| TKeywordIn
| TDot | TDoubleDot | TDoubleDotEquals | TComma | TSemicolon | TColon | TDoubleColon
| TArrow | TFatArrow | TLeftParen | TRightParen | TLeftBrace | TRightBrace | TLeftBracket
| TRightBracket | TPlus | TMinus | TSlash | TStar | TPercent | TAmpersand
| TDoubleAmpersand | TBar | TDoubleBar | TCaret | TBang | TEq | TDoubleEq | TBangEq
| TGreaterThan | TLessThan | TGreaterThanEquals | TLessThanEquals | TDoubleGreaterThan
| TDoubleLessThan | TAddAssign | TSubAssign | TMulAssign | TDivAssign | TRemAssign
| TBitXorAssign | TBitAndAssign | TBitOrAssign | TShrAssign | TShlAssign.

(* MetaInfo { start: (line, column), end: (line, column) } *)
Record meta := Meta { m_start : N * N; m_end : N * N }.

Inductive token := Token (t : token_enum) (m : meta).

(* ------------------------------------------------------------------ scan.rs *)

Inductive scan_error_enum :=
| UnexpectedCharacter | InvalidUnsignedNum | InvalidSignedNum
| UnterminatedBlockComment (* added by fix 01 *).

Inductive scan_error := ScanError (e : scan_error_enum) (m : meta).

(* struct Scanner without `chars` (the remaining input is passed separately);
   tokens/errors are kept in reverse order of pushing *)
Record scanner := Scanner {
  tokens : list token;
  errors : list scan_error;
  line : N;
  column : N;
  cts : N * N  (* current_token_start *)
}.

Definition init : scanner := Scanner [] [] 0 0 (0, 0).

Definition is_cont (b : N) : bool := (128 <=? b) && (b <? 192).
Definition chars_of_bytes (bs : list N) : list N := filter (fun b => negb (is_cont b)) bs.

(* char codes used below *)
Definition codes (s : string) : list N := map N_of_ascii (list_ascii_of_string s).

Definition is_digit (c : N) : bool := (48 <=? c) && (c <=? 57).
Definition is_alphanumeric (c : N) : bool :=
  ((97 <=? c) && (c <=? 122)) || ((65 <=? c) && (c <=? 90)) || (c =? 95) || is_digit c.

Definition pair_eqb (a b : N * N) : bool := (fst a =? fst b) && (snd a =? snd b).

Fixpoint list_eqb (a b : list N) : bool :=
  match a, b with
  | [], [] => true
  | x :: a', y :: b' => (x =? y) && list_eqb a' b'
  | _, _ => false
  end.

(* fn advance: column += 1; chars.next() -- the caller drops the char *)
Definition advance (s : scanner) : scanner :=
  Scanner (tokens s) (errors s) (line s) (column s + 1) (cts s).

(* `self.line += 1; self.column = 0;` *)
Definition newline (s : scanner) : scanner :=
  Scanner (tokens s) (errors s) (line s + 1) 0 (cts s).

Definition mark_start (s : scanner) : scanner :=
  Scanner (tokens s) (errors s) (line s) (column s) (line s, column s).

(* fn push_token *)
Definition push_token (t : token_enum) (s : scanner) : scanner :=
  let col := if pair_eqb (cts s) (line s, column s) then column s + 1 else column s in
  let e := (line s, col) in
  Scanner (Token t (Meta (cts s) e) :: tokens s) (errors s) (line s) col e.

(* fn push_error *)
Definition push_error (e : scan_error_enum) (s : scanner) : scanner :=
  let p := (line s, column s) in
  Scanner (tokens s) (ScanError e (Meta p p) :: errors s) (line s) (column s) (cts s).

(* fn peek / fn is_empty / fn next_matches *)
Definition peek (c : N) (rest : list N) : bool :=
  match rest with x :: _ => x =? c | [] => false end.

Definition is_empty (rest : list N) : bool :=
  match rest with [] => true | _ => false end.

Definition next_matches (c : N) (s : scanner) (rest : list N) : bool * scanner * list N :=
  match rest with
  | x :: r => if x =? c then (true, advance s, r) else (false, s, rest)
  | [] => (false, s, rest)
  end.

(* `while let Some(x) = self.next_matches_<p>() { v.push(x) }` : the chars taken, the
   scanner after the advances, the remaining input *)
Fixpoint take_while (p : N -> bool) (s : scanner) (rest : list N) : list N * scanner * list N :=
  match rest with
  | x :: r =>
      if p x then
        let '(xs, s', r') := take_while p (advance s) r in (x :: xs, s', r')
      else ([], s, rest)
  | [] => ([], s, rest)
  end.

(* The one- to three-character operators: a decision tree of `next_matches` tests, each
   leaf pushing a token; mirrors the nested if/else-if of the corresponding match arm. *)
Inductive optree :=
| Leaf (t : token_enum)
| Alt (c : N) (yes no : optree).

Fixpoint run_optree (tr : optree) (s : scanner) (rest : list N) : scanner * list N :=
  match tr with
  | Leaf t => (push_token t s, rest)
  | Alt c y n =>
      let '(b, s1, r1) := next_matches c s rest in
      if b then run_optree y s1 r1 else run_optree n s1 r1
  end.

Definition c_eq : N := 61.   (* = *)
Definition c_gt : N := 62.   (* > *)
Definition c_lt : N := 60.   (* < *)
Definition c_dot : N := 46.
Definition c_amp : N := 38.
Definition c_bar : N := 124.
Definition c_colon : N := 58.
Definition c_slash : N := 47.
Definition c_star : N := 42.
Definition c_nl : N := 10.
Definition c_minus : N := 45.

(* arms of `match char` that only push an operator / punctuation token *)
Definition simple_op (c : N) : option optree :=
  if c =? 40 then Some (Leaf TLeftParen)
  else if c =? 41 then Some (Leaf TRightParen)
  else if c =? 123 then Some (Leaf TLeftBrace)
  else if c =? 125 then Some (Leaf TRightBrace)
  else if c =? 91 then Some (Leaf TLeftBracket)
  else if c =? 93 then Some (Leaf TRightBracket)
  else if c =? 44 then Some (Leaf TComma)
  else if c =? 59 then Some (Leaf TSemicolon)
  else if c =? c_dot then
    Some (Alt c_dot (Alt c_eq (Leaf TDoubleDotEquals) (Leaf TDoubleDot)) (Leaf TDot))
  else if c =? 94 then Some (Alt c_eq (Leaf TBitXorAssign) (Leaf TCaret))
  else if c =? c_amp then
    Some (Alt c_amp (Leaf TDoubleAmpersand) (Alt c_eq (Leaf TBitAndAssign) (Leaf TAmpersand)))
  else if c =? c_bar then
    Some (Alt c_bar (Leaf TDoubleBar) (Alt c_eq (Leaf TBitOrAssign) (Leaf TBar)))
  else if c =? 33 then Some (Alt c_eq (Leaf TBangEq) (Leaf TBang))
  else if c =? c_eq then
    Some (Alt c_eq (Leaf TDoubleEq) (Alt c_gt (Leaf TFatArrow) (Leaf TEq)))
  else if c =? c_colon then Some (Alt c_colon (Leaf TDoubleColon) (Leaf TColon))
  else if c =? c_gt then
    Some (Alt c_gt (Alt c_eq (Leaf TShrAssign) (Leaf TDoubleGreaterThan))
            (Alt c_eq (Leaf TGreaterThanEquals) (Leaf TGreaterThan)))
  else if c =? c_lt then
    Some (Alt c_lt (Alt c_eq (Leaf TShlAssign) (Leaf TDoubleLessThan))
            (Alt c_eq (Leaf TLessThanEquals) (Leaf TLessThan)))
  else if c =? 37 then Some (Alt c_eq (Leaf TRemAssign) (Leaf TPercent))
  else if c =? c_star then Some (Alt c_eq (Leaf TMulAssign) (Leaf TStar))
  else if c =? 43 then Some (Alt c_eq (Leaf TAddAssign) (Leaf TPlus))
  else None.

(* ---- block comments (scan.rs:194-210, repaired) ---- *)

Inductive level_change := LInc | LDec | LSame.

(* one iteration of the `loop` body up to (excluding) `if level == 0 { break }`, for a
   non-empty or empty remaining input alike *)
Definition comment_step (s : scanner) (rest : list N) : level_change * scanner * list N :=
  (* if self.next_matches('/') && self.next_matches('*') *)
  let '(b1, s1, r1) := next_matches c_slash s rest in
  let '(b2, s2, r2) := if b1 then next_matches c_star s1 r1 else (false, s1, r1) in
  if b2 then (LInc, s2, r2)
  else
    (* else if self.next_matches('*') && self.next_matches('/') *)
    let '(b3, s3, r3) := next_matches c_star s2 r2 in
    let '(b4, s4, r4) := if b3 then next_matches c_slash s3 r3 else (false, s3, r3) in
    if b4 then (LDec, s4, r4)
    else
      (* else if self.next_matches('\n') *)
      let '(b5, s5, r5) := next_matches c_nl s4 r4 in
      if b5 then (LSame, newline s5, r5)
      (* else if !self.peek('*') && !self.peek('/') { self.advance() } *)
      else if negb (peek c_star r5) && negb (peek c_slash r5) then (LSame, advance s5, tl r5)
      else (LSame, s5, r5).

Definition apply_change (d : level_change) (level : N) : N :=
  match d with LInc => level + 1 | LDec => level - 1 | LSame => level end.

Fixpoint comment_loop (fuel : nat) (level : N) (s : scanner) (rest : list N)
  : res (scanner * list N) :=
  match fuel with
  | O => OutOfFuel
  | S f =>
      (* fix 01: if self.is_empty() { self.push_error(UnterminatedBlockComment); break; } *)
      if is_empty rest then Ok (push_error UnterminatedBlockComment s, rest)
      else
        let '(d, s', rest') := comment_step s rest in
        let level' := apply_change d level in
        if level' =? 0 then Ok (s', rest') else comment_loop f level' s' rest'
  end.

(* ---- numbers ---- *)

(* value of a non-empty ASCII digit string *)
Definition digits_value (ds : list N) : N :=
  fold_left (fun acc d => acc * 10 + (d - 48)) ds 0.

Definition u64_max : N := 18446744073709551615.
Definition i64_min_abs : N := 9223372036854775808.

(* n.parse::<u64>() on a string of ASCII digits *)
Definition parse_u64 (ds : list N) : option N :=
  let v := digits_value ds in if v <=? u64_max then Some v else None.

(* n.parse::<i64>() on '-' followed by ASCII digits *)
Definition parse_neg_i64 (ds : list N) : option Z :=
  let v := digits_value ds in if v <=? i64_min_abs then Some (- Z.of_N v)%Z else None.

Definition s_i8 := Eval vm_compute in codes "i8".
Definition s_i16 := Eval vm_compute in codes "i16".
Definition s_i32 := Eval vm_compute in codes "i32".
Definition s_i64 := Eval vm_compute in codes "i64".
Definition s_usize := Eval vm_compute in codes "usize".
Definition s_u8 := Eval vm_compute in codes "u8".
Definition s_u16 := Eval vm_compute in codes "u16".
Definition s_u32 := Eval vm_compute in codes "u32".
Definition s_u64 := Eval vm_compute in codes "u64".

(* scan.rs:234-252: suffix of a negative literal; the bool says "push_error(InvalidUnsignedNum)" *)
Definition signed_suffix (n : Z) (suffix : list N) : bool * signed_num_type :=
  if list_eqb suffix s_i8 && ((-128 <=? n) && (n <=? 127))%Z then (false, I8)
  else if list_eqb suffix s_i16 && ((-32768 <=? n) && (n <=? 32767))%Z then (false, I16)
  else if list_eqb suffix s_i32 && ((-2147483648 <=? n) && (n <=? 2147483647))%Z then (false, I32)
  else if list_eqb suffix s_i64 then (false, I64)
  else if list_eqb suffix [] then (false, UnspecifiedS)
  else (true, I64).

(* scan.rs:272-303: suffix of a non-negative literal *)
Definition unsigned_suffix (n : N) (suffix : list N) : bool * token_enum :=
  if list_eqb suffix s_i8 && (n <=? 127) then (false, TSignedNum (Z.of_N n) I8)
  else if list_eqb suffix s_i16 && (n <=? 32767) then (false, TSignedNum (Z.of_N n) I16)
  else if list_eqb suffix s_i32 && (n <=? 2147483647) then (false, TSignedNum (Z.of_N n) I32)
  else if list_eqb suffix s_i64 && (n <=? 9223372036854775807) then (false, TSignedNum (Z.of_N n) I64)
  else if list_eqb suffix s_usize && (n <=? 4294967295) then (false, TUnsignedNum n Usize)  (* usize has 32 bits in circuits (830d91b) *)
  else if list_eqb suffix s_u8 && (n <=? 255) then (false, TUnsignedNum n U8)
  else if list_eqb suffix s_u16 && (n <=? 65535) then (false, TUnsignedNum n U16)
  else if list_eqb suffix s_u32 && (n <=? 4294967295) then (false, TUnsignedNum n U32)
  else if list_eqb suffix s_u64 then (false, TUnsignedNum n U64)
  else if list_eqb suffix [] then (false, TUnsignedNum n UnspecifiedU)
  else (true, TUnsignedNum n U64).

(* the `'-'` arm after `-=` and `->` have been excluded (scan.rs:221-257) *)
Definition scan_minus (s : scanner) (rest : list N) : scanner * list N :=
  let '(ds, s1, r1) := take_while is_digit s rest in
  if is_empty ds then (push_token TMinus s1, r1)
  else
    match parse_neg_i64 ds with
    | Some n =>
        let '(suffix, s2, r2) := take_while is_alphanumeric s1 r1 in
        let '(bad, ty) := signed_suffix n suffix in
        let s3 := if bad then push_error InvalidUnsignedNum s2 else s2 in
        (push_token (TSignedNum n ty) s3, r2)
    | None => (push_error InvalidSignedNum s1, r1)
    end.

(* the digit arm (scan.rs:261-307); c is the first digit *)
Definition scan_number (c : N) (s : scanner) (rest : list N) : scanner * list N :=
  let '(ds, s1, r1) := take_while is_digit s rest in
  match parse_u64 (c :: ds) with
  | Some n =>
      let '(suffix, s2, r2) := take_while is_alphanumeric s1 r1 in
      let '(bad, tok) := unsigned_suffix n suffix in
      let s3 := if bad then push_error InvalidUnsignedNum s2 else s2 in
      (push_token tok s3, r2)
  | None => (push_error InvalidUnsignedNum s1, r1)
  end.

(* ---- identifiers and keywords (scan.rs:308-329) ---- *)

Definition keywords : list (list N * token_enum) := Eval vm_compute in
  [ (codes "const", TKeywordConst); (codes "struct", TKeywordStruct);
    (codes "enum", TKeywordEnum); (codes "fn", TKeywordFn); (codes "let", TKeywordLet);
    (codes "if", TKeywordIf); (codes "else", TKeywordElse); (codes "mut", TKeywordMut);
    (codes "match", TKeywordMatch); (codes "as", TKeywordAs); (codes "pub", TKeywordPub);
    (codes "for", TKeywordFor); (codes "in", TKeywordIn) ].

Fixpoint lookup_keyword (kws : list (list N * token_enum)) (id : list N) : token_enum :=
  match kws with
  | (k, t) :: r => if list_eqb id k then t else lookup_keyword r id
  | [] => TIdentifier id
  end.

Definition scan_word (c : N) (s : scanner) (rest : list N) : scanner * list N :=
  let '(cs, s1, r1) := take_while is_alphanumeric s rest in
  (push_token (lookup_keyword keywords (c :: cs)) s1, r1).

(* ---- one iteration of `while let Some(char) = self.chars.next()` without the final
        `self.column += 1` ---- *)
Definition scan_char (fuel : nat) (s : scanner) (c : N) (rest : list N) : res (scanner * list N) :=
  if (c =? 32) || (c =? 13) || (c =? 9) then Ok (mark_start s, rest)
  else if c =? c_nl then Ok (newline s, rest)
  else
    match simple_op c with
    | Some tr => Ok (run_optree tr s rest)
    | None =>
        if c =? c_slash then
          let '(b1, s1, r1) := next_matches c_eq s rest in
          if b1 then Ok (push_token TDivAssign s1, r1)
          else
            let '(b2, s2, r2) := next_matches c_slash s1 r1 in
            if b2 then
              (* while !(self.peek('\n') || self.is_empty()) { self.advance(); } *)
              let '(_, s3, r3) := take_while (fun x => negb (x =? c_nl)) s2 r2 in Ok (s3, r3)
            else
              let '(b3, s3, r3) := next_matches c_star s2 r2 in
              if b3 then comment_loop fuel 1 s3 r3
              else Ok (push_token TSlash s3, r3)
        else if c =? c_minus then
          let '(b1, s1, r1) := next_matches c_eq s rest in
          if b1 then Ok (push_token TSubAssign s1, r1)
          else
            let '(b2, s2, r2) := next_matches c_gt s1 r1 in
            if b2 then Ok (push_token TArrow s2, r2)
            else Ok (scan_minus s2 r2)
        else if is_digit c then Ok (scan_number c s rest)
        else if is_alphanumeric c then Ok (scan_word c s rest)
        else Ok (push_error UnexpectedCharacter s, rest)
    end.

Fixpoint scan_loop (fuel : nat) (s : scanner) (rest : list N) : res scanner :=
  match fuel with
  | O => OutOfFuel
  | S f =>
      match rest with
      | [] => Ok s
      | c :: r =>
          let* sr := scan_char f s c r in
          scan_loop f (advance (fst sr)) (snd sr)   (* self.column += 1 *)
      end
  end.

Inductive scan_out :=
| STokens (ts : list token)
| SErrors (es : list scan_error).

Definition finish (s : scanner) : scan_out :=
  match errors s with
  | [] => STokens (rev (tokens s))
  | _ => SErrors (rev (errors s))
  end.

(* pub fn scan(prg: &str), on the UTF-8 bytes of prg *)
Definition scan (fuel : nat) (bytes : list N) : res scan_out :=
  let* s := scan_loop fuel init (chars_of_bytes bytes) in Ok (finish s).

Definition fuel_for (bytes : list N) : nat := S (List.length bytes).

Definition scan_text (bytes : list N) : res scan_out := scan (fuel_for bytes) bytes.
