(* Non-vacuity: concrete, non-trivial instances of the C07 theorems, computed inside Coq. *)
From GV Require Import Base.Util Front.Scan Front.ScanProofs Front.Prettify Front.PrettifyProofs.
From Coq Require Import String.
Local Open Scope string_scope.

(* a text with a keyword, an identifier, a suffixed negative literal, a block comment and a
   token that starts after a line break (its start lies on the previous line: the quirk of
   `current_token_start`, faithfully reproduced) *)
Example scan_tokens_example :
  scan_text (codes "let x = -5i8; /* c */
y") =
  Ok (STokens
        [Token TKeywordLet (Meta (0, 0) (0, 2));
         Token (TIdentifier [120]) (Meta (0, 3) (0, 4));
         Token TEq (Meta (0, 5) (0, 6));
         Token (TSignedNum (-5) I8) (Meta (0, 7) (0, 11));
         Token TSemicolon (Meta (0, 11) (0, 12));
         Token (TIdentifier [121]) (Meta (0, 13) (1, 1))]).
Proof. vm_compute. reflexivity. Qed.

(* the repaired scanner reports an unterminated block comment as an error *)
Example scan_error_example :
  scan_text (codes "1 /* x") =
  Ok (SErrors [ScanError UnterminatedBlockComment (Meta (0, 6) (0, 6))]).
Proof. vm_compute. reflexivity. Qed.

(* the hypotheses of prettify_safe are satisfied by a location on the last line *)
Example prettify_example :
  prettify_meta (codes "ab
cd") (Meta (1, 0) (1, 2)) =
  Ok (codes "       | ab
   2 > | cd
     > | ^^
") /\ meta_ok (nl (codes "ab
cd")) (Meta (1, 0) (1, 2)).
Proof.
  split; [vm_compute; reflexivity|].
  split; [right; cbn [fst snd m_start m_end]; split; [reflexivity|lia]|].
  vm_compute. discriminate.
Qed.

(* the index at lib.rs:526 really goes out of bounds when the hypothesis on the end line is
   dropped: prettify_safe is not vacuous and its hypothesis is needed *)
Example prettify_crash_example :
  prettify_meta (codes "x") (Meta (0, 0) (2, 1)) = Crash.
Proof. vm_compute. reflexivity. Qed.
