(* The scanner model (Front/Scan.v, tied to /repo/src/scan.rs) reads printed tokens back:
   (1) number lexing: [dec n] (the decimal digits of n) followed by a type suffix is ONE number
       token with the value n, exactly within the range of the suffix (the bounds are in
       [ubound] / [sbound_pos] / [sbound_neg]); beyond them the scanner reports an error;
   (2) [print_tokens]: the texts of the tokens separated by single spaces; [scan_print]: scanning
       it gives the tokens back (locations aside), for [tok_printable] tokens;
   (3) the text-level form of ParseExprProofs.parse_show_min_all. *)
From Coq Require Import Lia ZArith String List.
From GV Require Import Base.Util Front.Scan Front.ScanProofs Front.ParseExpr Front.ParseExprProofs.
Local Open Scope N_scope.

(* ------------------------------------------------------------------ decimal digits *)

Fixpoint dec_f (f : nat) (n : N) : list N :=
  match f with
  | O => []
  | S f' => (if n / 10 =? 0 then [] else dec_f f' (n / 10)) ++ [48 + n mod 10]
  end.

(* the decimal digits of n: no leading zero except for "0" *)
Definition dec (n : N) : list N := dec_f (S (N.to_nat (N.size n))) n.

Definition dv (acc : N) (ds : list N) : N := fold_left (fun acc d => acc * 10 + (d - 48)) ds acc.

Lemma dv_app a x y : dv a (x ++ y) = dv (dv a x) y.
Proof. unfold dv. apply fold_left_app. Qed.

Lemma dec_f_S f n : dec_f (S f) n = (if n / 10 =? 0 then [] else dec_f f (n / 10)) ++ [48 + n mod 10].
Proof. reflexivity. Qed.

Lemma dec_f_value : forall f n, n < 2 ^ N.of_nat (S f) -> dv 0 (dec_f (S f) n) = n.
Proof.
  induction f as [|f IH]; intros n Hn.
  - change (2 ^ N.of_nat 1) with 2 in Hn. cbn [dec_f].
    assert (n / 10 = 0) as -> by (apply N.div_small; lia). rewrite N.eqb_refl. cbn [app dv fold_left].
    rewrite N.mod_small by lia. lia.
  - rewrite (dec_f_S (S f) n). destruct (N.eqb_spec (n / 10) 0) as [E|E].
    + cbn [app dv fold_left]. apply N.div_small_iff in E; [|lia]. rewrite N.mod_small by lia. lia.
    + rewrite dv_app. rewrite IH.
      * unfold dv. cbn [fold_left]. pose proof (N.div_mod' n 10) as Hd.
        set (q := n / 10) in *. set (r := n mod 10) in *. lia.
      * apply N.div_lt_upper_bound; [lia|]. rewrite Nat2N.inj_succ, N.pow_succ_r' in Hn.
        assert (0 < 2 ^ N.of_nat (S f)) by (apply N.neq_0_lt_0, N.pow_nonzero; lia). lia.
Qed.

Lemma dec_value n : digits_value (dec n) = n.
Proof.
  unfold dec. change (digits_value ?l) with (dv 0 l). apply dec_f_value.
  rewrite Nat2N.inj_succ, N2Nat.id, N.pow_succ_r'. pose proof (N.size_gt n).
  assert (0 < 2 ^ N.size n) by (apply N.neq_0_lt_0, N.pow_nonzero; lia). lia.
Qed.

Lemma dec_f_digits : forall f n, Forall (fun c => is_digit c = true) (dec_f f n).
Proof.
  induction f as [|f IH]; intro n; [constructor|]. cbn [dec_f]. apply Forall_app. split.
  - destruct (n / 10 =? 0); [constructor|apply IH].
  - constructor; [|constructor]. unfold is_digit. pose proof (N.mod_lt n 10 ltac:(lia)) as Hm.
    set (r := n mod 10) in *. apply andb_true_intro. split; apply N.leb_le; lia.
Qed.

Lemma dec_digits n : Forall (fun c => is_digit c = true) (dec n).
Proof. apply dec_f_digits. Qed.

Lemma dec_nonempty n : exists c ds, dec n = c :: ds.
Proof.
  unfold dec. cbn [dec_f]. destruct (if n / 10 =? 0 then [] else _) as [|c l]; cbn [app]; eauto.
Qed.

Example dec_examples : dec 0 = codes "0" /\ dec 7 = codes "7" /\ dec 10 = codes "10" /\
  dec 255 = codes "255" /\ dec 18446744073709551615 = codes "18446744073709551615".
Proof. repeat split; vm_compute; reflexivity. Qed.

(* ------------------------------------------------------------------ scanning, locations aside *)

Definition kind (t : token) : token_enum := match t with Token k _ => k end.
Definition kinds (s : scanner) : list token_enum := map kind (tokens s).

(* the tokens and the errors pushed so far are those of s *)
Definition same (s s' : scanner) : Prop := tokens s' = tokens s /\ errors s' = errors s.

Lemma same_refl s : same s s. Proof. split; reflexivity. Qed.
Lemma same_trans a b c : same a b -> same b c -> same a c.
Proof. intros [H1 H2] [H3 H4]. split; congruence. Qed.
Lemma same_advance s : same s (Scan.advance s). Proof. split; reflexivity. Qed.
Lemma same_mark s : same s (mark_start s). Proof. split; reflexivity. Qed.

Fixpoint adv_n (k : nat) (s : scanner) : scanner :=
  match k with O => s | S k' => adv_n k' (Scan.advance s) end.

Lemma same_adv_n : forall k s, same s (adv_n k s).
Proof. induction k as [|k IH]; intro s; [apply same_refl|]. cbn [adv_n]. eapply same_trans; [apply same_advance|apply IH]. Qed.

(* the rest of the input does not continue a run of p-characters *)
Definition stops (p : N -> bool) (rest : list N) : Prop :=
  match rest with [] => True | c :: _ => p c = false end.

Lemma take_while_app p : forall xs s rest, Forall (fun x => p x = true) xs -> stops p rest ->
  take_while p s (xs ++ rest) = (xs, adv_n (length xs) s, rest).
Proof.
  induction xs as [|x xs IH]; intros s rest Hx Hs.
  - cbn [app length adv_n]. destruct rest as [|c r]; [reflexivity|]. cbn [take_while stops] in *. now rewrite Hs.
  - inversion Hx as [|? ? H1 H2]; subst. cbn [app take_while length adv_n]. rewrite H1.
    now rewrite (IH (Scan.advance s) rest H2 Hs).
Qed.

(* the text continues with a space, or ends *)
Definition sep_ok (rest : list N) : Prop := rest = [] \/ exists r, rest = 32 :: r.

Lemma sep_stops_digit rest : sep_ok rest -> stops is_digit rest.
Proof. intros [->|[r ->]]; [exact I|reflexivity]. Qed.
Lemma sep_stops_alnum rest : sep_ok rest -> stops is_alphanumeric rest.
Proof. intros [->|[r ->]]; [exact I|reflexivity]. Qed.

Ltac neq_tests :=
  repeat match goal with
         | |- context [?c =? ?k] => destruct (N.eqb_spec c k); [exfalso; lia|]
         end.

Lemma alnum_range c : is_alphanumeric c = true ->
  (97 <= c <= 122) \/ (65 <= c <= 90) \/ c = 95 \/ (48 <= c <= 57).
Proof.
  unfold is_alphanumeric, is_digit. intro H.
  repeat (apply orb_prop in H; destruct H as [H|H]); try (apply andb_prop in H; destruct H as [H1 H2]; apply N.leb_le in H1, H2; lia).
  apply N.eqb_eq in H. lia.
Qed.

(* a digit starts a number, any other alphanumeric character a word *)
Lemma digit_dispatch f s c rest : is_digit c = true -> scan_char f s c rest = Ok (scan_number c s rest).
Proof.
  intro H. assert (48 <= c <= 57) as Hr by (unfold is_digit in H; apply andb_prop in H; destruct H as [H1 H2]; apply N.leb_le in H1, H2; lia).
  unfold scan_char, simple_op, c_nl, c_dot, c_amp, c_bar, c_eq, c_colon, c_gt, c_lt, c_star, c_slash, c_minus.
  neq_tests. cbn [orb]. now rewrite H.
Qed.

Lemma word_dispatch f s c rest : is_alphanumeric c = true -> is_digit c = false ->
  scan_char f s c rest = Ok (scan_word c s rest).
Proof.
  intros H Hd. pose proof (alnum_range c H) as Hr.
  unfold scan_char, simple_op, c_nl, c_dot, c_amp, c_bar, c_eq, c_colon, c_gt, c_lt, c_star, c_slash, c_minus.
  neq_tests. cbn [orb]. now rewrite Hd, H.
Qed.

(* ------------------------------------------------------------------ (1) numbers *)

Definition usuffix_text (t : unsigned_num_type) : list N :=
  match t with
  | UnspecifiedU => [] | Usize => s_usize | U8 => s_u8 | U16 => s_u16 | U32 => s_u32 | U64 => s_u64
  end.
Definition ssuffix_text (t : signed_num_type) : list N :=
  match t with UnspecifiedS => [] | I8 => s_i8 | I16 => s_i16 | I32 => s_i32 | I64 => s_i64 end.

(* the acceptance bounds of the scanner *)
Definition ubound (t : unsigned_num_type) : N :=
  match t with
  | UnspecifiedU | U64 => u64_max            (* 18446744073709551615 *)
  | Usize | U32 => 4294967295                (* usize has 32 bits *)
  | U8 => 255 | U16 => 65535
  end.
(* a non-negative number with a signed suffix *)
Definition sbound_pos (t : signed_num_type) : option N :=
  match t with
  | I8 => Some 127 | I16 => Some 32767 | I32 => Some 2147483647 | I64 => Some 9223372036854775807
  | UnspecifiedS => None        (* an unsuffixed non-negative number is an UNSIGNED token *)
  end.
(* "-" followed by the digits of n *)
Definition sbound_neg (t : signed_num_type) : N :=
  match t with
  | I8 => 128 | I16 => 32768 | I32 => 2147483648
  | I64 | UnspecifiedS => i64_min_abs       (* 9223372036854775808 *)
  end.

Ltac eval_list_eqb :=
  repeat match goal with
         | |- context [list_eqb ?a ?b] =>
             let v := eval vm_compute in (list_eqb a b) in change (list_eqb a b) with v
         end.

Lemma unsigned_suffix_ok n t : n <= ubound t -> unsigned_suffix n (usuffix_text t) = (false, TUnsignedNum n t).
Proof.
  intro H. apply N.leb_le in H. unfold unsigned_suffix. destruct t; cbn [usuffix_text ubound] in *;
    eval_list_eqb; cbn [andb]; try rewrite H; reflexivity.
Qed.

Lemma unsigned_suffix_bad n t : t <> U64 -> t <> UnspecifiedU -> ubound t < n ->
  fst (unsigned_suffix n (usuffix_text t)) = true.
Proof.
  intros H1 H2 H. apply N.leb_gt in H. unfold unsigned_suffix. destruct t; try congruence; cbn [usuffix_text ubound] in *;
    eval_list_eqb; cbn [andb]; rewrite H; reflexivity.
Qed.

Lemma unsigned_suffix_signed_ok n t b : sbound_pos t = Some b -> n <= b ->
  unsigned_suffix n (ssuffix_text t) = (false, TSignedNum (Z.of_N n) t).
Proof.
  intros Hb H. apply N.leb_le in H. unfold unsigned_suffix. destruct t; try discriminate Hb; injection Hb as <-;
    cbn [ssuffix_text]; eval_list_eqb; cbn [andb]; rewrite H; reflexivity.
Qed.

Lemma unsigned_suffix_signed_bad n t b : sbound_pos t = Some b -> b < n ->
  fst (unsigned_suffix n (ssuffix_text t)) = true.
Proof.
  intros Hb H. apply N.leb_gt in H. unfold unsigned_suffix. destruct t; try discriminate Hb; injection Hb as <-;
    cbn [ssuffix_text]; eval_list_eqb; cbn [andb]; rewrite H; reflexivity.
Qed.

Lemma signed_suffix_ok n t : n <= sbound_neg t -> signed_suffix (- Z.of_N n) (ssuffix_text t) = (false, t).
Proof.
  intro H. unfold signed_suffix. destruct t; cbn [ssuffix_text sbound_neg] in *; eval_list_eqb; cbn [andb]; try reflexivity.
  - assert ((-128 <=? - Z.of_N n)%Z && (- Z.of_N n <=? 127)%Z = true) as -> by (apply andb_true_intro; split; apply Z.leb_le; lia). reflexivity.
  - assert ((-32768 <=? - Z.of_N n)%Z && (- Z.of_N n <=? 32767)%Z = true) as -> by (apply andb_true_intro; split; apply Z.leb_le; lia). reflexivity.
  - assert ((-2147483648 <=? - Z.of_N n)%Z && (- Z.of_N n <=? 2147483647)%Z = true) as -> by (apply andb_true_intro; split; apply Z.leb_le; lia). reflexivity.
Qed.

Lemma signed_suffix_bad n t : t <> I64 -> t <> UnspecifiedS -> sbound_neg t < n ->
  fst (signed_suffix (- Z.of_N n) (ssuffix_text t)) = true.
Proof.
  intros H1 H2 H. unfold signed_suffix. destruct t; try congruence; cbn [ssuffix_text sbound_neg] in *; eval_list_eqb; cbn [andb].
  - assert ((-128 <=? - Z.of_N n)%Z = false) as -> by (apply Z.leb_gt; lia). reflexivity.
  - assert ((-32768 <=? - Z.of_N n)%Z = false) as -> by (apply Z.leb_gt; lia). reflexivity.
  - assert ((-2147483648 <=? - Z.of_N n)%Z = false) as -> by (apply Z.leb_gt; lia). reflexivity.
Qed.

(* the digit arm on the digits of n, a suffix, and a separator *)
Lemma scan_number_text f s n suffix rest c ds :
  dec n = c :: ds -> n <= u64_max -> Forall (fun x => is_alphanumeric x = true) suffix ->
  stops is_digit (suffix ++ rest) -> sep_ok rest ->
  exists s2, same s s2 /\
    scan_char f s c (ds ++ suffix ++ rest) =
    Ok (push_token (snd (unsigned_suffix n suffix))
          (if fst (unsigned_suffix n suffix) then push_error InvalidUnsignedNum s2 else s2), rest).
Proof.
  intros Hd Hn Hsfx Hst Hsep. pose proof (dec_digits n) as Hdig. rewrite Hd in Hdig.
  inversion Hdig as [|? ? Hc Hds]; subst.
  rewrite (digit_dispatch f s c _ Hc). unfold scan_number.
  rewrite (take_while_app is_digit ds s (suffix ++ rest) Hds Hst).
  unfold parse_u64. rewrite <- Hd, dec_value. apply N.leb_le in Hn. rewrite Hn.
  rewrite (take_while_app is_alphanumeric suffix _ rest Hsfx (sep_stops_alnum rest Hsep)).
  eexists. split; [|destruct (unsigned_suffix n suffix) as [bad tok]; reflexivity].
  eapply same_trans; apply same_adv_n.
Qed.

Lemma scan_number_overflow f s n rest c ds : dec n = c :: ds -> u64_max < n -> stops is_digit rest ->
  exists s1, same s s1 /\ scan_char f s c (ds ++ rest) = Ok (push_error InvalidUnsignedNum s1, rest).
Proof.
  intros Hd Hn Hst. pose proof (dec_digits n) as Hdig. rewrite Hd in Hdig.
  inversion Hdig as [|? ? Hc Hds]; subst.
  rewrite (digit_dispatch f s c _ Hc). unfold scan_number.
  rewrite (take_while_app is_digit ds s rest Hds Hst).
  unfold parse_u64. rewrite <- Hd, dec_value. apply N.leb_gt in Hn. rewrite Hn.
  eexists. split; [apply same_adv_n|reflexivity].
Qed.

(* the `-` arm *)
Lemma minus_dispatch f s rest : match rest with c :: _ => c <> 61 /\ c <> 62 | [] => True end ->
  scan_char f s 45 rest = Ok (scan_minus s rest).
Proof.
  intro H. unfold scan_char. change (simple_op 45) with (@None optree).
  change ((45 =? 32) || (45 =? 13) || (45 =? 9)) with false. change (45 =? c_nl) with false.
  change (45 =? c_slash) with false. change (45 =? c_minus) with true. cbv iota.
  destruct rest as [|c r]; [reflexivity|]. destruct H as [H1 H2]. unfold Scan.next_matches, c_eq, c_gt.
  destruct (N.eqb_spec c 61); [contradiction|]. destruct (N.eqb_spec c 62); [contradiction|]. reflexivity.
Qed.

Lemma digit_not_eq_gt c : is_digit c = true -> c <> 61 /\ c <> 62.
Proof. unfold is_digit. intro H. apply andb_prop in H. destruct H as [H1 H2]. apply N.leb_le in H1, H2. lia. Qed.

Lemma scan_minus_text f s n suffix rest :
  n <= i64_min_abs -> Forall (fun x => is_alphanumeric x = true) suffix ->
  stops is_digit (suffix ++ rest) -> sep_ok rest ->
  exists s2, same s s2 /\
    scan_char f s 45 (dec n ++ suffix ++ rest) =
    Ok (push_token (TSignedNum (- Z.of_N n) (snd (signed_suffix (- Z.of_N n) suffix)))
          (if fst (signed_suffix (- Z.of_N n) suffix) then push_error InvalidUnsignedNum s2 else s2), rest).
Proof.
  intros Hn Hsfx Hst Hsep. pose proof (dec_digits n) as Hdig. destruct (dec_nonempty n) as (c & ds & Hd).
  rewrite minus_dispatch.
  2:{ rewrite Hd. cbn [app]. rewrite Hd in Hdig. inversion Hdig; subst. now apply digit_not_eq_gt. }
  unfold scan_minus. rewrite (take_while_app is_digit (dec n) s (suffix ++ rest) Hdig Hst).
  assert (is_empty (dec n) = false) as Hne by (rewrite Hd; reflexivity). cbv beta iota. rewrite Hne.
  unfold parse_neg_i64. rewrite dec_value. apply N.leb_le in Hn. rewrite Hn.
  rewrite (take_while_app is_alphanumeric suffix _ rest Hsfx (sep_stops_alnum rest Hsep)).
  eexists. split; [|destruct (signed_suffix (- Z.of_N n) suffix) as [bad ty]; reflexivity].
  eapply same_trans; apply same_adv_n.
Qed.

Lemma scan_minus_overflow f s n rest : i64_min_abs < n -> stops is_digit rest ->
  exists s1, same s s1 /\ scan_char f s 45 (dec n ++ rest) = Ok (push_error InvalidSignedNum s1, rest).
Proof.
  intros Hn Hst. pose proof (dec_digits n) as Hdig. destruct (dec_nonempty n) as (c & ds & Hd).
  rewrite minus_dispatch.
  2:{ rewrite Hd. cbn [app]. rewrite Hd in Hdig. inversion Hdig; subst. now apply digit_not_eq_gt. }
  unfold scan_minus. rewrite (take_while_app is_digit (dec n) s rest Hdig Hst).
  assert (is_empty (dec n) = false) as Hne by (rewrite Hd; reflexivity). cbv beta iota. rewrite Hne.
  unfold parse_neg_i64. rewrite dec_value. apply N.leb_gt in Hn. rewrite Hn.
  eexists. split; [apply same_adv_n|reflexivity].
Qed.

(* ------------------------------------------------------------------ errors are never dropped *)

Definition errs (s s' : scanner) : Prop := exists l, errors s' = (l ++ errors s)%list.

Lemma errs_refl s : errs s s. Proof. exists []. reflexivity. Qed.
Lemma errs_trans a b c : errs a b -> errs b c -> errs a c.
Proof. intros [l1 H1] [l2 H2]. exists (l2 ++ l1)%list. rewrite H2, H1. now rewrite app_assoc. Qed.
Lemma errs_same s s' : same s s' -> errs s s'.
Proof. intros [_ H]. exists []. exact H. Qed.
Lemma errs_push_token t s : errs s (push_token t s). Proof. exists []. reflexivity. Qed.
Lemma errs_push_error e s : errs s (push_error e s). Proof. eexists [_]. reflexivity. Qed.
Lemma errs_newline s : errs s (newline s). Proof. exists []. reflexivity. Qed.

Lemma take_while_same p : forall rest s xs s' r', take_while p s rest = (xs, s', r') -> same s s'.
Proof.
  induction rest as [|x r IH]; intros s xs s' r' H; cbn [take_while] in H.
  - injection H as _ <- _. apply same_refl.
  - destruct (p x).
    + destruct (take_while p (Scan.advance s) r) as [[xs0 s0] r0] eqn:E. injection H as _ <- _.
      eapply same_trans; [apply same_advance|eapply IH; eassumption].
    + injection H as _ <- _. apply same_refl.
Qed.

Lemma next_matches_same c s rest b s' r' : Scan.next_matches c s rest = (b, s', r') -> same s s'.
Proof.
  unfold Scan.next_matches. destruct rest as [|x r]; [intros [= _ <- _]; apply same_refl|].
  destruct (x =? c); intros [= _ <- _]; [apply same_advance|apply same_refl].
Qed.

Lemma run_optree_errs : forall tr s rest, errs s (fst (run_optree tr s rest)).
Proof.
  induction tr as [t|c y IHy n IHn]; intros s rest; cbn [run_optree].
  - apply errs_push_token.
  - destruct (Scan.next_matches c s rest) as [[b s1] r1] eqn:E. apply next_matches_same in E.
    destruct b; (eapply errs_trans; [apply errs_same; exact E|]); [apply IHy|apply IHn].
Qed.

Lemma comment_step_errs s rest d s' r' : comment_step s rest = (d, s', r') -> errs s s'.
Proof.
  unfold comment_step. intro H.
  destruct (Scan.next_matches c_slash s rest) as [[b1 s1] r1] eqn:E1.
  destruct (if b1 then Scan.next_matches c_star s1 r1 else (false, s1, r1)) as [[b2 s2] r2] eqn:E2.
  assert (H12 : same s s2).
  { apply next_matches_same in E1. destruct b1; [apply next_matches_same in E2; eapply same_trans; eassumption|].
    injection E2 as _ <- _. exact E1. }
  destruct b2; [injection H as _ <- _; now apply errs_same|].
  destruct (Scan.next_matches c_star s2 r2) as [[b3 s3] r3] eqn:E3.
  destruct (if b3 then Scan.next_matches c_slash s3 r3 else (false, s3, r3)) as [[b4 s4] r4] eqn:E4.
  assert (H24 : same s2 s4).
  { apply next_matches_same in E3. destruct b3; [apply next_matches_same in E4; eapply same_trans; eassumption|].
    injection E4 as _ <- _. exact E3. }
  destruct b4; [injection H as _ <- _; apply errs_same; eapply same_trans; eassumption|].
  destruct (Scan.next_matches c_nl s4 r4) as [[b5 s5] r5] eqn:E5. apply next_matches_same in E5.
  assert (H5 : errs s s5) by (apply errs_same; eapply same_trans; [exact H12|eapply same_trans; eassumption]).
  destruct b5; [injection H as _ <- _; eapply errs_trans; [exact H5|apply errs_newline]|].
  destruct (negb (Scan.peek c_star r5) && negb (Scan.peek c_slash r5)); injection H as _ <- _; [|exact H5].
  eapply errs_trans; [exact H5|apply errs_same, same_advance].
Qed.

Lemma comment_loop_errs : forall fuel level s rest s' r', comment_loop fuel level s rest = Ok (s', r') -> errs s s'.
Proof.
  induction fuel as [|f IH]; intros level s rest s' r' H; [discriminate H|]. cbn [comment_loop] in H.
  destruct (is_empty rest); [injection H as <- _; apply errs_push_error|].
  destruct (comment_step s rest) as [[d s1] r1] eqn:E. apply comment_step_errs in E.
  destruct (apply_change d level =? 0); [injection H as <- _; exact E|].
  eapply errs_trans; [exact E|eapply IH; eassumption].
Qed.

Lemma scan_char_errs f s c rest s' r' : scan_char f s c rest = Ok (s', r') -> errs s s'.
Proof.
  unfold scan_char. intro H.
  destruct ((c =? 32) || (c =? 13) || (c =? 9)); [injection H as <- _; apply errs_same, same_mark|].
  destruct (c =? c_nl); [injection H as <- _; apply errs_newline|].
  destruct (simple_op c) as [tr|].
  { injection H as H1. replace s' with (fst (run_optree tr s rest)) by (now rewrite H1). apply run_optree_errs. }
  destruct (c =? c_slash).
  { destruct (Scan.next_matches c_eq s rest) as [[b1 s1] r1] eqn:E1. apply next_matches_same in E1.
    destruct b1; [injection H as <- _; eapply errs_trans; [apply errs_same; exact E1|apply errs_push_token]|].
    destruct (Scan.next_matches c_slash s1 r1) as [[b2 s2] r2] eqn:E2. apply next_matches_same in E2.
    destruct b2.
    - destruct (take_while (fun x => negb (x =? c_nl)) s2 r2) as [[xs s3] r3] eqn:E3. apply take_while_same in E3.
      injection H as <- _. apply errs_same. eapply same_trans; [exact E1|eapply same_trans; eassumption].
    - destruct (Scan.next_matches c_star s2 r2) as [[b3 s3] r3] eqn:E3. apply next_matches_same in E3.
      assert (H3 : errs s s3) by (apply errs_same; eapply same_trans; [exact E1|eapply same_trans; eassumption]).
      destruct b3; [eapply errs_trans; [exact H3|eapply comment_loop_errs; eassumption]|].
      injection H as <- _. eapply errs_trans; [exact H3|apply errs_push_token]. }
  destruct (c =? c_minus).
  { destruct (Scan.next_matches c_eq s rest) as [[b1 s1] r1] eqn:E1. apply next_matches_same in E1.
    destruct b1; [injection H as <- _; eapply errs_trans; [apply errs_same; exact E1|apply errs_push_token]|].
    destruct (Scan.next_matches c_gt s1 r1) as [[b2 s2] r2] eqn:E2. apply next_matches_same in E2.
    assert (H2 : errs s s2) by (apply errs_same; eapply same_trans; eassumption).
    destruct b2; [injection H as <- _; eapply errs_trans; [exact H2|apply errs_push_token]|].
    injection H as H3. replace s' with (fst (scan_minus s2 r2)) by (now rewrite H3). eapply errs_trans; [exact H2|]. unfold scan_minus.
    destruct (take_while is_digit s2 r2) as [[ds s3] r3] eqn:E3. apply take_while_same in E3.
    destruct (is_empty ds); [cbn [fst]; eapply errs_trans; [apply errs_same; exact E3|apply errs_push_token]|].
    destruct (parse_neg_i64 ds) as [n|]; [|cbn [fst]; eapply errs_trans; [apply errs_same; exact E3|apply errs_push_error]].
    destruct (take_while is_alphanumeric s3 r3) as [[sfx s4] r4] eqn:E4. apply take_while_same in E4.
    destruct (signed_suffix n sfx) as [bad ty]. cbn [fst].
    eapply errs_trans; [apply errs_same; eapply same_trans; eassumption|].
    destruct bad; [eapply errs_trans; [apply errs_push_error|apply errs_push_token]|apply errs_push_token]. }
  destruct (is_digit c).
  { injection H as H3. replace s' with (fst (scan_number c s rest)) by (now rewrite H3). unfold scan_number.
    destruct (take_while is_digit s rest) as [[ds s1] r1] eqn:E1. apply take_while_same in E1.
    destruct (parse_u64 (c :: ds)) as [n|]; [|cbn [fst]; eapply errs_trans; [apply errs_same; exact E1|apply errs_push_error]].
    destruct (take_while is_alphanumeric s1 r1) as [[sfx s2] r2] eqn:E2. apply take_while_same in E2.
    destruct (unsigned_suffix n sfx) as [bad tok]. cbn [fst].
    eapply errs_trans; [apply errs_same; eapply same_trans; eassumption|].
    destruct bad; [eapply errs_trans; [apply errs_push_error|apply errs_push_token]|apply errs_push_token]. }
  destruct (is_alphanumeric c).
  { injection H as H3. replace s' with (fst (scan_word c s rest)) by (now rewrite H3). unfold scan_word.
    destruct (take_while is_alphanumeric s rest) as [[cs s1] r1] eqn:E1. apply take_while_same in E1. cbn [fst].
    eapply errs_trans; [apply errs_same; exact E1|apply errs_push_token]. }
  injection H as <- _. apply errs_push_error.
Qed.

Lemma scan_loop_errs : forall fuel s rest s', scan_loop fuel s rest = Ok s' -> errs s s'.
Proof.
  induction fuel as [|f IH]; intros s rest s' H; [discriminate H|]. cbn [scan_loop] in H.
  destruct rest as [|c r]; [injection H as <-; apply errs_refl|].
  destruct (scan_char f s c r) as [[s1 r1]| |] eqn:E; cbn [bind] in H; try discriminate H. cbn [fst snd] in H.
  eapply errs_trans; [eapply scan_char_errs; exact E|].
  eapply errs_trans; [apply errs_same, same_advance|eapply IH; exact H].
Qed.

Lemma errs_nonempty s s' : errs s s' -> errors s <> [] -> errors s' <> [].
Proof. intros [l H] Hn. rewrite H. destruct l; [exact Hn|discriminate]. Qed.

(* ------------------------------------------------------------------ texts *)

Definition ascii (l : list N) : Prop := Forall (fun b => b < 128) l.

Lemma chars_ascii l : ascii l -> chars_of_bytes l = l.
Proof.
  unfold chars_of_bytes. induction 1 as [|b l Hb _ IH]; [reflexivity|]. cbn [filter].
  assert (is_cont b = false) as -> by (unfold is_cont; destruct (N.leb_spec 128 b); [lia|reflexivity]).
  cbn [negb]. now rewrite IH.
Qed.

Lemma alnum_ascii l : Forall (fun x => is_alphanumeric x = true) l -> ascii l.
Proof. intro H. eapply Forall_impl; [|exact H]. intros a Ha. cbv beta. pose proof (alnum_range a Ha). lia. Qed.

Lemma digits_alnum l : Forall (fun x => is_digit x = true) l -> Forall (fun x => is_alphanumeric x = true) l.
Proof. intro H. eapply Forall_impl; [|exact H]. intros a Ha. cbv beta. unfold is_alphanumeric. rewrite Ha. apply orb_true_r. Qed.

Lemma finish_same s s' : same s s' -> finish s' = finish s.
Proof. intros [H1 H2]. unfold finish. now rewrite H1, H2. Qed.

(* a text that one iteration of the scanner loop consumes entirely *)
Lemma scan_text_one c rest s1 : ascii (c :: rest) ->
  scan_char (length (c :: rest)) init c rest = Ok (s1, []) -> scan_text (c :: rest) = Ok (finish s1).
Proof.
  intros Ha H. unfold scan_text, scan, fuel_for. rewrite (chars_ascii _ Ha).
  cbn [scan_loop]. rewrite H. cbn [bind fst snd length scan_loop]. reflexivity.
Qed.

(* a text whose first iteration records an error *)
Lemma scan_text_error bytes c rest s1 r1 : chars_of_bytes bytes = c :: rest ->
  scan_char (length bytes) init c rest = Ok (s1, r1) -> errors s1 <> [] ->
  exists es, scan_text bytes = Ok (SErrors es).
Proof.
  intros Hc H He. destruct (scan_total_lemma bytes) as [out E]. unfold scan_text. rewrite E.
  unfold scan, fuel_for in E. rewrite Hc in E. cbn [scan_loop] in E. rewrite H in E. cbn [bind fst snd] in E.
  destruct (scan_loop (length bytes) (Scan.advance s1) r1) as [s'| |] eqn:El; cbn [bind] in E; try discriminate E.
  injection E as <-. apply scan_loop_errs in El.
  assert (errors s' <> []) as Hs' by (eapply errs_nonempty; [exact El|exact He]).
  unfold finish. destruct (errors s'); [congruence|]. eauto.
Qed.

Lemma usuffix_alnum t : Forall (fun x => is_alphanumeric x = true) (usuffix_text t).
Proof. destruct t; repeat constructor. Qed.
Lemma ssuffix_alnum t : Forall (fun x => is_alphanumeric x = true) (ssuffix_text t).
Proof. destruct t; repeat constructor. Qed.
Lemma usuffix_stops t rest : stops is_digit rest -> stops is_digit (usuffix_text t ++ rest).
Proof. destruct t; cbn; auto. Qed.
Lemma ssuffix_stops t rest : stops is_digit rest -> stops is_digit (ssuffix_text t ++ rest).
Proof. destruct t; cbn; auto. Qed.

Lemma usuffix_stops0 t : stops is_digit (usuffix_text t).
Proof. destruct t; cbn; auto. Qed.
Lemma ssuffix_stops0 t : stops is_digit (ssuffix_text t).
Proof. destruct t; cbn; auto. Qed.

Lemma number_text_ascii n sfx : Forall (fun x => is_alphanumeric x = true) sfx -> ascii (dec n ++ sfx).
Proof. intro H. apply alnum_ascii, Forall_app. split; [apply digits_alnum, dec_digits|exact H]. Qed.

(* (1a) an unsigned number with its suffix is ONE token with the value n, within the bound ... *)
Theorem scan_unsigned n t : n <= ubound t ->
  exists m, scan_text (dec n ++ usuffix_text t) = Ok (STokens [Token (TUnsignedNum n t) m]).
Proof.
  intro Hb. destruct (dec_nonempty n) as (c & ds & Hd).
  assert (Hu : n <= u64_max) by (destruct t; cbn [ubound] in Hb; unfold u64_max in *; lia).
  destruct (scan_number_text (length (dec n ++ usuffix_text t)) init n (usuffix_text t) [] c ds Hd Hu
              (usuffix_alnum t) (usuffix_stops t [] I) (or_introl eq_refl)) as (s2 & [Ht He] & H).
  rewrite app_nil_r in H. rewrite (unsigned_suffix_ok n t Hb) in H. cbn [fst snd] in H.
  pose proof (number_text_ascii n _ (usuffix_alnum t)) as Ha. rewrite Hd in *. cbn [app] in *.
  rewrite (scan_text_one c _ _ Ha H). unfold finish, push_token. cbn [errors tokens]. rewrite He, Ht.
  cbn [init errors tokens rev app]. eauto.
Qed.

(* ... and an error beyond it *)
Theorem scan_unsigned_beyond n t : ubound t < n -> exists es, scan_text (dec n ++ usuffix_text t) = Ok (SErrors es).
Proof.
  intro Hb. destruct (dec_nonempty n) as (c & ds & Hd).
  pose proof (number_text_ascii n _ (usuffix_alnum t)) as Ha.
  destruct (N.le_gt_cases n u64_max) as [Hu|Hu].
  - destruct (scan_number_text (length (dec n ++ usuffix_text t)) init n (usuffix_text t) [] c ds Hd Hu
                (usuffix_alnum t) (usuffix_stops t [] I) (or_introl eq_refl)) as (s2 & [Ht He] & H).
    rewrite app_nil_r in H.
    rewrite (unsigned_suffix_bad n t) in H; [|intros ->; cbn [ubound] in Hb; lia|intros ->; cbn [ubound] in Hb; lia|exact Hb].
    eapply scan_text_error; [rewrite (chars_ascii _ Ha), Hd; reflexivity|exact H|]. cbn. discriminate.
  - destruct (scan_number_overflow (length (dec n ++ usuffix_text t)) init n (usuffix_text t) c ds Hd Hu
                (usuffix_stops0 t)) as (s1 & _ & H).
    eapply scan_text_error; [rewrite (chars_ascii _ Ha), Hd; reflexivity|exact H|]. cbn. discriminate.
Qed.

(* (1b) a non-negative number with a signed suffix *)
Theorem scan_signed_pos n t b : sbound_pos t = Some b -> n <= b ->
  exists m, scan_text (dec n ++ ssuffix_text t) = Ok (STokens [Token (TSignedNum (Z.of_N n) t) m]).
Proof.
  intros Hsb Hb. destruct (dec_nonempty n) as (c & ds & Hd).
  assert (Hu : n <= u64_max) by (destruct t; try discriminate Hsb; injection Hsb as <-; unfold u64_max; lia).
  destruct (scan_number_text (length (dec n ++ ssuffix_text t)) init n (ssuffix_text t) [] c ds Hd Hu
              (ssuffix_alnum t) (ssuffix_stops t [] I) (or_introl eq_refl)) as (s2 & [Ht He] & H).
  rewrite app_nil_r in H. rewrite (unsigned_suffix_signed_ok n t b Hsb Hb) in H. cbn [fst snd] in H.
  pose proof (number_text_ascii n _ (ssuffix_alnum t)) as Ha. rewrite Hd in *. cbn [app] in *.
  rewrite (scan_text_one c _ _ Ha H). unfold finish, push_token. cbn [errors tokens]. rewrite He, Ht.
  cbn [init errors tokens rev app]. eauto.
Qed.

Theorem scan_signed_pos_beyond n t b : sbound_pos t = Some b -> b < n ->
  exists es, scan_text (dec n ++ ssuffix_text t) = Ok (SErrors es).
Proof.
  intros Hsb Hb. destruct (dec_nonempty n) as (c & ds & Hd).
  pose proof (number_text_ascii n _ (ssuffix_alnum t)) as Ha.
  destruct (N.le_gt_cases n u64_max) as [Hu|Hu].
  - destruct (scan_number_text (length (dec n ++ ssuffix_text t)) init n (ssuffix_text t) [] c ds Hd Hu
                (ssuffix_alnum t) (ssuffix_stops t [] I) (or_introl eq_refl)) as (s2 & [Ht He] & H).
    rewrite app_nil_r in H. rewrite (unsigned_suffix_signed_bad n t b Hsb Hb) in H.
    eapply scan_text_error; [rewrite (chars_ascii _ Ha), Hd; reflexivity|exact H|]. cbn. discriminate.
  - destruct (scan_number_overflow (length (dec n ++ ssuffix_text t)) init n (ssuffix_text t) c ds Hd Hu
                (ssuffix_stops0 t)) as (s1 & _ & H).
    eapply scan_text_error; [rewrite (chars_ascii _ Ha), Hd; reflexivity|exact H|]. cbn. discriminate.
Qed.

(* (1c) "-" followed by the digits of n: ONE signed token with the value -n (also for n = 0) *)
Theorem scan_signed_neg n t : n <= sbound_neg t ->
  exists m, scan_text (45 :: dec n ++ ssuffix_text t) = Ok (STokens [Token (TSignedNum (- Z.of_N n) t) m]).
Proof.
  intro Hb.
  assert (Hu : n <= i64_min_abs) by (destruct t; cbn [sbound_neg] in Hb; unfold i64_min_abs in *; lia).
  destruct (scan_minus_text (length (45 :: dec n ++ ssuffix_text t)) init n (ssuffix_text t) [] Hu
              (ssuffix_alnum t) (ssuffix_stops t [] I) (or_introl eq_refl)) as (s2 & [Ht He] & H).
  rewrite app_nil_r in H. rewrite (signed_suffix_ok n t Hb) in H. cbn [fst snd] in H.
  assert (Ha : ascii (45 :: dec n ++ ssuffix_text t)) by (constructor; [lia|apply number_text_ascii, ssuffix_alnum]).
  rewrite (scan_text_one 45 _ _ Ha H). unfold finish, push_token. cbn [errors tokens]. rewrite He, Ht.
  cbn [init errors tokens rev app]. eauto.
Qed.

Theorem scan_signed_neg_beyond n t : sbound_neg t < n ->
  exists es, scan_text (45 :: dec n ++ ssuffix_text t) = Ok (SErrors es).
Proof.
  intro Hb.
  assert (Ha : ascii (45 :: dec n ++ ssuffix_text t)) by (constructor; [lia|apply number_text_ascii, ssuffix_alnum]).
  destruct (N.le_gt_cases n i64_min_abs) as [Hu|Hu].
  - destruct (scan_minus_text (length (45 :: dec n ++ ssuffix_text t)) init n (ssuffix_text t) [] Hu
                (ssuffix_alnum t) (ssuffix_stops t [] I) (or_introl eq_refl)) as (s2 & [Ht He] & H).
    rewrite app_nil_r in H.
    rewrite (signed_suffix_bad n t) in H; [|intros ->; cbn [sbound_neg] in Hb; lia|intros ->; cbn [sbound_neg] in Hb; lia|exact Hb].
    eapply scan_text_error; [rewrite (chars_ascii _ Ha); reflexivity|exact H|]. cbn. discriminate.
  - destruct (scan_minus_overflow (length (45 :: dec n ++ ssuffix_text t)) init n (ssuffix_text t) Hu
                (ssuffix_stops0 t)) as (s1 & _ & H).
    eapply scan_text_error; [rewrite (chars_ascii _ Ha); reflexivity|exact H|]. cbn. discriminate.
Qed.

Print Assumptions scan_unsigned.
Print Assumptions scan_unsigned_beyond.
Print Assumptions scan_signed_neg.
Print Assumptions scan_signed_neg_beyond.

(* ------------------------------------------------------------------ (2) printing tokens *)

Local Open Scope string_scope.
Definition text_of (t : token_enum) : list N :=
  match t with
  | TIdentifier s => s
  | TUnsignedNum n ty => dec n ++ usuffix_text ty
  | TSignedNum z ty =>
      if (z <? 0)%Z then 45 :: dec (Z.abs_N z) ++ ssuffix_text ty else dec (Z.to_N z) ++ ssuffix_text ty
  | TKeywordConst => codes "const" | TKeywordStruct => codes "struct" | TKeywordEnum => codes "enum"
  | TKeywordFn => codes "fn" | TKeywordLet => codes "let" | TKeywordIf => codes "if"
  | TKeywordElse => codes "else" | TKeywordMatch => codes "match" | TKeywordMut => codes "mut"
  | TKeywordAs => codes "as" | TKeywordPub => codes "pub" | TKeywordFor => codes "for"
  | TKeywordIn => codes "in"
  | TDot => codes "." | TDoubleDot => codes ".." | TDoubleDotEquals => codes "..=" | TComma => codes ","
  | TSemicolon => codes ";" | TColon => codes ":" | TDoubleColon => codes "::"
  | TArrow => codes "->" | TFatArrow => codes "=>" | TLeftParen => codes "(" | TRightParen => codes ")"
  | TLeftBrace => codes "{" | TRightBrace => codes "}" | TLeftBracket => codes "["
  | TRightBracket => codes "]" | TPlus => codes "+" | TMinus => codes "-" | TSlash => codes "/"
  | TStar => codes "*" | TPercent => codes "%" | TAmpersand => codes "&"
  | TDoubleAmpersand => codes "&&" | TBar => codes "|" | TDoubleBar => codes "||" | TCaret => codes "^"
  | TBang => codes "!" | TEq => codes "=" | TDoubleEq => codes "==" | TBangEq => codes "!="
  | TGreaterThan => codes ">" | TLessThan => codes "<" | TGreaterThanEquals => codes ">="
  | TLessThanEquals => codes "<=" | TDoubleGreaterThan => codes ">>" | TDoubleLessThan => codes "<<"
  | TAddAssign => codes "+=" | TSubAssign => codes "-=" | TMulAssign => codes "*=" | TDivAssign => codes "/="
  | TRemAssign => codes "%=" | TBitXorAssign => codes "^=" | TBitAndAssign => codes "&="
  | TBitOrAssign => codes "|=" | TShrAssign => codes ">>=" | TShlAssign => codes "<<="
  end.
Local Close Scope string_scope.

(* the texts of the tokens, separated by single spaces *)
Fixpoint print_tokens (ts : list token_enum) : list N :=
  match ts with
  | [] => []
  | t :: r => match r with [] => text_of t | _ => (text_of t ++ 32 :: print_tokens r)%list end
  end.

(* what can be printed and read back:
   - an identifier is a non-empty string of letters, digits and `_` that does not start with a
     digit and is not a keyword;
   - an unsigned number is within the bound of its suffix;
   - a negative number is within the bound of its suffix; a non-negative SIGNED number has a suffix
     (unsuffixed it would be read as an unsigned number; `-0` is not printed) and is within its bound *)
Definition tok_printable (t : token_enum) : Prop :=
  match t with
  | TIdentifier s =>
      Forall (fun x => is_alphanumeric x = true) s /\ lookup_keyword keywords s = TIdentifier s /\
      match s with c :: _ => is_digit c = false | [] => False end
  | TUnsignedNum n ty => n <= ubound ty
  | TSignedNum z ty =>
      if (z <? 0)%Z then Z.abs_N z <= sbound_neg ty
      else match sbound_pos ty with Some b => Z.to_N z <= b | None => False end
  | _ => True
  end.

(* one token: its text, followed by a separator, is read as that token in one iteration *)
Definition tok_reads (t : token_enum) : Prop :=
  exists c cs, text_of t = c :: cs /\ ascii (text_of t) /\
    forall f s rest, sep_ok rest ->
      exists s1, scan_char f s c (cs ++ rest) = Ok (s1, rest) /\ kinds s1 = t :: kinds s /\ errors s1 = errors s.

Ltac fixed_token :=
  eexists _, _; split; [reflexivity|]; split; [repeat constructor|];
  intros f s rest [->|[r ->]]; eexists; (split; [vm_compute; reflexivity|split; reflexivity]).

Lemma tok_scan t : tok_printable t -> tok_reads t.
Proof.
  intro Hp. destruct t; try fixed_token.
  - (* identifier *)
    destruct Hp as (Hal & Hkw & Hd). destruct s as [|c cs]; [contradiction|]. inversion Hal as [|? ? Hc Hcs]; subst.
    exists c, cs. split; [reflexivity|]. split; [now apply alnum_ascii|].
    intros f s rest Hsep. rewrite (word_dispatch f s c _ Hc Hd). unfold scan_word.
    rewrite (take_while_app is_alphanumeric cs s rest Hcs (sep_stops_alnum rest Hsep)). rewrite Hkw.
    eexists. split; [reflexivity|]. destruct (same_adv_n (length cs) s) as [Ht He].
    unfold kinds, push_token. cbn [tokens errors map kind]. now rewrite Ht, He.
  - (* unsigned number *)
    cbn [tok_printable] in Hp. destruct (dec_nonempty n) as (c & ds & Hd).
    exists c, (ds ++ usuffix_text t)%list. cbn [text_of]. rewrite Hd. split; [reflexivity|].
    split; [rewrite <- Hd; apply number_text_ascii, usuffix_alnum|].
    intros f s rest Hsep.
    assert (Hu : n <= u64_max) by (destruct t; cbn [ubound] in Hp; unfold u64_max in *; lia).
    destruct (scan_number_text f s n (usuffix_text t) rest c ds Hd Hu (usuffix_alnum t)
                (usuffix_stops t rest (sep_stops_digit rest Hsep)) Hsep) as (s2 & [Ht He] & H).
    rewrite <- app_assoc. rewrite H, (unsigned_suffix_ok n t Hp). cbn [fst snd].
    eexists. split; [reflexivity|]. unfold kinds, push_token. cbn [tokens errors map kind]. now rewrite Ht, He.
  - (* signed number *)
    unfold tok_reads. cbn [tok_printable text_of] in *. destruct (z <? 0)%Z eqn:Ez.
    + exists 45, (dec (Z.abs_N z) ++ ssuffix_text t)%list. split; [reflexivity|].
      split; [constructor; [lia|apply number_text_ascii, ssuffix_alnum]|].
      intros f s rest Hsep.
      assert (Hu : Z.abs_N z <= i64_min_abs) by (destruct t; cbn [sbound_neg] in Hp; unfold i64_min_abs in *; lia).
      destruct (scan_minus_text f s (Z.abs_N z) (ssuffix_text t) rest Hu (ssuffix_alnum t)
                  (ssuffix_stops t rest (sep_stops_digit rest Hsep)) Hsep) as (s2 & [Ht He] & H).
      rewrite <- app_assoc. rewrite H, (signed_suffix_ok _ t Hp). cbn [fst snd].
      apply Z.ltb_lt in Ez. replace (- Z.of_N (Z.abs_N z))%Z with z by (rewrite N2Z.inj_abs_N; lia).
      eexists. split; [reflexivity|]. unfold kinds, push_token. cbn [tokens errors map kind]. now rewrite Ht, He.
    + destruct (sbound_pos t) as [b|] eqn:Eb; [|contradiction]. apply Z.ltb_ge in Ez.
      destruct (dec_nonempty (Z.to_N z)) as (c & ds & Hd).
      exists c, (ds ++ ssuffix_text t)%list. rewrite Hd. split; [reflexivity|].
      split; [rewrite <- Hd; apply number_text_ascii, ssuffix_alnum|].
      intros f s rest Hsep.
      assert (Hu : Z.to_N z <= u64_max) by (destruct t; try discriminate Eb; injection Eb as <-; unfold u64_max; lia).
      destruct (scan_number_text f s (Z.to_N z) (ssuffix_text t) rest c ds Hd Hu (ssuffix_alnum t)
                  (ssuffix_stops t rest (sep_stops_digit rest Hsep)) Hsep) as (s2 & [Ht He] & H).
      rewrite <- app_assoc. rewrite H, (unsigned_suffix_signed_ok _ t b Eb Hp). cbn [fst snd].
      rewrite Z2N.id by exact Ez.
      eexists. split; [reflexivity|]. unfold kinds, push_token. cbn [tokens errors map kind]. now rewrite Ht, He.
Qed.

Lemma print_tokens_cons t r : r <> [] -> print_tokens (t :: r) = (text_of t ++ 32 :: print_tokens r)%list.
Proof. destruct r; [congruence|reflexivity]. Qed.

Lemma print_tokens_ascii ts : Forall tok_printable ts -> ascii (print_tokens ts).
Proof.
  induction 1 as [|t r Ht _ IH]; [constructor|]. destruct (tok_scan t Ht) as (c & cs & _ & Ha & _).
  destruct r as [|t2 r]; [exact Ha|]. rewrite print_tokens_cons by discriminate.
  apply Forall_app. split; [exact Ha|]. constructor; [lia|exact IH].
Qed.

(* the loop of the scanner on a printed token list *)
Lemma scan_loop_print : forall ts s fuel, Forall tok_printable ts -> (length (print_tokens ts) < fuel)%nat ->
  exists s', scan_loop fuel s (print_tokens ts) = Ok s' /\
             kinds s' = (rev ts ++ kinds s)%list /\ errors s' = errors s.
Proof.
  induction ts as [|t r IH]; intros s fuel Hp Hf.
  - destruct fuel as [|f]; [lia|]. exists s. repeat split.
  - inversion Hp as [|? ? Ht Hr]; subst. destruct (tok_scan t Ht) as (c & cs & Htx & _ & Hscan).
    destruct r as [|t2 r].
    + cbn [print_tokens] in *. rewrite Htx in *. destruct fuel as [|f]; [lia|]. cbn [scan_loop].
      destruct (Hscan f s [] (or_introl eq_refl)) as (s1 & H1 & Hk & He). rewrite app_nil_r in H1.
      rewrite H1. cbn [bind fst snd]. destruct f as [|f]; [cbn [length] in Hf; lia|]. cbn [scan_loop].
      eexists. split; [reflexivity|]. split; [|exact He]. cbn [rev app]. exact Hk.
    + rewrite print_tokens_cons in * by discriminate. rewrite Htx in *. cbn [app] in *.
      destruct fuel as [|f]; [lia|]. cbn [scan_loop].
      destruct (Hscan f s (32 :: print_tokens (t2 :: r)) (or_intror (ex_intro _ _ eq_refl))) as (s1 & H1 & Hk & He).
      rewrite H1. cbn [bind fst snd].
      destruct f as [|f]; [cbn [length] in Hf; rewrite app_length in Hf; cbn [length] in Hf; lia|].
      cbn [scan_loop]. change (scan_char f (Scan.advance s1) 32 (print_tokens (t2 :: r)))
        with (Ok (mark_start (Scan.advance s1), print_tokens (t2 :: r))). cbn [bind fst snd].
      destruct (IH (Scan.advance (mark_start (Scan.advance s1))) f Hr) as (s' & Hs' & Hk' & He').
      { cbn [length] in Hf. rewrite app_length in Hf. cbn [length] in Hf. lia. }
      exists s'. split; [exact Hs'|]. split.
      * rewrite Hk'. change (kinds (Scan.advance (mark_start (Scan.advance s1)))) with (kinds s1). rewrite Hk.
        cbn [rev]. rewrite <- !app_assoc. reflexivity.
      * rewrite He'. exact He.
Qed.

(* (2) scanning the printed tokens gives them back, locations aside *)
Theorem scan_print ts : Forall tok_printable ts ->
  exists ts', scan_text (print_tokens ts) = Ok (STokens ts') /\ map kind ts' = ts.
Proof.
  intro Hp. unfold scan_text, scan, fuel_for. rewrite (chars_ascii _ (print_tokens_ascii ts Hp)).
  destruct (scan_loop_print ts init (S (length (print_tokens ts))) Hp ltac:(lia)) as (s' & Hs' & Hk & He).
  rewrite Hs'. cbn [bind]. unfold finish. rewrite He. cbn [init errors].
  eexists. split; [reflexivity|]. rewrite map_rev. fold (kinds s'). rewrite Hk. cbn [init tokens kinds map].
  now rewrite app_nil_r, rev_involutive.
Qed.
Print Assumptions scan_print.

(* ------------------------------------------------------------------ (3) the round trip on texts *)

(* forget the locations *)
Definition unloc (ts : list token) : list token := map (fun t => tk (kind t)) ts.

Definition is_tk (l : list token) : Prop := unloc l = l.

Lemma is_tk_nil : is_tk []. Proof. reflexivity. Qed.
Lemma is_tk_cons k l : is_tk l -> is_tk (tk k :: l).
Proof. unfold is_tk, unloc. intro H. cbn [map kind]. now rewrite H. Qed.
Lemma is_tk_app a b : is_tk a -> is_tk b -> is_tk (a ++ b).
Proof. unfold is_tk, unloc. intros Ha Hb. now rewrite map_app, Ha, Hb. Qed.
Lemma is_tk_at j right x sx : is_tk sx -> is_tk (at_ j right x sx).
Proof.
  intro H. unfold at_, parens. destruct (paren_needed j right x); [|exact H].
  apply is_tk_cons, is_tk_app; [exact H|apply is_tk_cons, is_tk_nil].
Qed.

Ltac tk_auto := repeat first [assumption | apply is_tk_nil | apply is_tk_app | apply is_tk_at | apply is_tk_cons].

Lemma is_tk_more es : Forall (fun e => is_tk (show_raw e)) es -> is_tk (more_toks es).
Proof. induction 1 as [|y r Hy _ IH]; cbn [more_toks]; tk_auto. Qed.

(* the printer of ParseExprProofs builds all its tokens with the default location *)
Lemma show_raw_tk : forall e, is_tk (show_raw e).
Proof.
  apply (uexpr_ind2 (fun e => is_tk (show_raw e))); intros; try (cbn [show_raw]; tk_auto; fail).
  - rewrite show_tuple. destruct es as [|x r]; [tk_auto|]. inversion H as [|? ? Hx Hr]; subst.
    pose proof (is_tk_more r Hr). destruct r; tk_auto.
  - rewrite show_call. destruct args as [|x r]; [tk_auto|]. inversion H as [|? ? Hx Hr]; subst.
    pose proof (is_tk_more r Hr). tk_auto.
  - cbn [show_raw]. destruct e; tk_auto.
Qed.

Lemma unloc_kind ts ts' : map kind ts' = map kind ts -> unloc ts' = unloc ts.
Proof. unfold unloc. intro H. rewrite <- !(map_map kind (fun k => Token k m0)). now rewrite H. Qed.

(* the text of the minimal-parentheses rendering of e *)
Definition show_text (e : uexpr) : list N := print_tokens (map kind (show_min e)).

(* (3) scanning the text of a well-formed tree and parsing the tokens (their locations
   forgotten) gives the tree back.  What is NOT shown here: that the parser does not look at the
   locations (parse_expr fuel ts' = parse_expr fuel (unloc ts') up to the locations of the rest),
   which holds by inspection -- every match of ParseExpr.v is `Token t _` -- but is a separate
   induction over all parser functions. *)
Theorem scan_parse_show_min e : wf_expr e -> Forall tok_printable (map kind (show_min e)) ->
  exists ts' fuel, scan_text (show_text e) = Ok (STokens ts') /\
                   map kind ts' = map kind (show_min e) /\
                   parse_expr fuel (unloc ts') = Some (e, []).
Proof.
  intros Hwf Hp. destruct (scan_print _ Hp) as (ts' & Hs & Hk). destruct (parse_show_min_all e Hwf) as [fuel Hf].
  exists ts', fuel. split; [exact Hs|]. split; [exact Hk|].
  rewrite (unloc_kind (show_min e) ts' Hk). unfold show_min in *. rewrite (show_raw_tk e). exact Hf.
Qed.
Print Assumptions scan_parse_show_min.

(* which trees have printable tokens: identifiers (variables, functions, fields, type names) that
   the scanner reads as identifiers, numbers within the bounds of their suffixes *)
Example show_text_example :
  let e := UOp BAdd (UArrayAccess (UIdentifier (codes "a")) (UNumUnsigned 1 Usize))
                    (UUnaryOp UoNeg (UCast (UTUnsigned U8) (UIdentifier (codes "x_1")))) in
  show_text e = codes "a [ 1usize ] + - ( x_1 as u8 )" /\
  match scan_text (show_text e) with Ok (STokens ts') => parse_expr 20 ts' | _ => None end = Some (e, []).
Proof. split; vm_compute; reflexivity. Qed.

(* the texts the task asks about: `- 1` and `--1` start with a Minus token, `1-1` is two numbers
   (the second one negative: NO Minus token), `1 -1` likewise *)
Definition scans_to (s : string) (ks : list token_enum) : Prop :=
  match scan_text (codes s) with Ok (STokens ts) => Some (map kind ts) | _ => None end = Some ks.
Definition scan_fails (s : string) : Prop :=
  match scan_text (codes s) with Ok (SErrors _) => true | _ => false end = true.
Ltac sc := vm_compute; reflexivity.
Ltac sf := vm_compute; reflexivity.

Example minus_space : scans_to "- 1" [TMinus; TUnsignedNum 1 UnspecifiedU]. Proof. sc. Qed.
Example minus_minus : scans_to "--1" [TMinus; TSignedNum (-1) UnspecifiedS]. Proof. sc. Qed.
Example one_minus_one : scans_to "1-1" [TUnsignedNum 1 UnspecifiedU; TSignedNum (-1) UnspecifiedS]. Proof. sc. Qed.
Example one_space_minus_one : scans_to "1 -1" [TUnsignedNum 1 UnspecifiedU; TSignedNum (-1) UnspecifiedS]. Proof. sc. Qed.
Example one_minus_spaced : scans_to "1 - 1" [TUnsignedNum 1 UnspecifiedU; TMinus; TUnsignedNum 1 UnspecifiedU]. Proof. sc. Qed.
Example x_minus_one : scans_to "x-1" [TIdentifier (codes "x"); TSignedNum (-1) UnspecifiedS]. Proof. sc. Qed.
Example minus_zero : scans_to "-0" [TSignedNum 0 UnspecifiedS]. Proof. sc. Qed.
Example leading_zeros : scans_to "007" [TUnsignedNum 7 UnspecifiedU]. Proof. sc. Qed.
Example i64_min_text : scans_to "-9223372036854775808" [TSignedNum (-9223372036854775808) UnspecifiedS]. Proof. sc. Qed.
Example underscore_number : scan_fails "1_000". Proof. sf. Qed.
Example u8_256 : scan_fails "256u8". Proof. sf. Qed.
Example usize_2_32 : scan_fails "4294967296usize". Proof. sf. Qed.
Example i8_minus_129 : scan_fails "-129i8". Proof. sf. Qed.
Example minus_unsigned_suffix : scan_fails "-1u8". Proof. sf. Qed.
Example u64_overflow : scan_fails "18446744073709551616". Proof. sf. Qed.

(* a consequence for the parser: without spaces `x-1` is the identifier x followed by the NUMBER -1,
   not a subtraction (parse_expr stops after x; as a statement it is a parse error); `x - 1` and
   `x -1`... only the former is a subtraction *)
Example x_minus_1_is_not_a_subtraction :
  match scan_text (codes "x-1") with Ok (STokens ts) => parse_expr 20 ts | _ => None end
    = Some (UIdentifier (codes "x"), [Token (TSignedNum (-1) UnspecifiedS) (Meta (0, 1) (0, 3))]) /\
  match scan_text (codes "x - 1") with Ok (STokens ts) => parse_expr 20 ts | _ => None end
    = Some (UOp BSub (UIdentifier (codes "x")) (UNumUnsigned 1 UnspecifiedU), []).
Proof. split; vm_compute; reflexivity. Qed.
