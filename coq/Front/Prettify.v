(* Model of `fn prettify_meta(prg: &str, meta: MetaInfo) -> String` (/repo/src/lib.rs:502-538),
   the only part of error rendering that indexes into the source text.  The text is its
   UTF-8 bytes (`str::lines`, `str::len` and the echoed lines are byte-level operations).
   `meta.start.0 as i64 - 2` is computed in Z (lines < 2^63 assumed).
   [Crash] = `lines[l as usize]` out of bounds (lib.rs:526).

   The `for l in a..b` loop takes fuel [length lines + 5]; PrettifyProofs.v shows that this
   is enough whenever the end line is at most the number of newlines of the text.

   Output size: the two `for _ in ..` loops emit `col_end` characters; the model builds them
   with [repeat] on [N.to_nat col], so columns must be of moderate size when the extracted
   model is *run* (the generator keeps them below 10^4; the scanner's own columns are at
   most twice the text length).  The theorems do not depend on that. *)
From GV Require Import Base.Util Front.Scan.

(* str::lines(): split_inclusive('\n'), then strip one "\n" and, only if a "\n" was
   stripped, one "\r" before it.  [cur] is the current piece, reversed. *)
Fixpoint lines_go (bs : list N) (cur : list N) : list (list N) :=
  match bs with
  | [] => match cur with [] => [] | _ => [rev cur] end
  | b :: r =>
      if b =? 10 then
        (match cur with
         | c :: cur' => if c =? 13 then rev cur' else rev cur
         | [] => []
         end) :: lines_go r []
      else lines_go r (b :: cur)
  end.

Definition lines_of (prg : list N) : list (list N) := lines_go prg [].

(* decimal digits of n, most significant first *)
Fixpoint dec_go (fuel : nat) (n : N) (acc : list N) : list N :=
  match fuel with
  | O => acc
  | S f =>
      let acc' := (48 + n mod 10) :: acc in
      if n / 10 =? 0 then acc' else dec_go f (n / 10) acc'
  end.

Definition dec (n : N) : list N := dec_go (S (N.size_nat n)) n [].

(* format!("{: >4}", n) *)
Definition pad4 (n : N) : list N :=
  let d := dec n in repeat 32 (4 - List.length d) ++ d.

Definition sp (n : N) : list N := repeat 32 (N.to_nat n).
Definition carets (n : N) : list N := repeat 94 (N.to_nat n).

Definition s_hl : list N := [32; 62; 32; 124; 32].                      (* " > | " *)
Definition s_plain : list N := [32; 32; 32; 32; 32; 32; 32; 124; 32].   (* "       | " *)
Definition s_mark : list N := [32; 32; 32; 32; 32; 62; 32; 124; 32].    (* "     > | " *)

(* the body of the `for l` loop for one value of l *)
Definition pm_line (lines : list (list N)) (m : meta) (l : Z) : res (list N) :=
  let '(sl, sc) := m_start m in
  let '(el, ec) := m_end m in
  let line_start := Z.of_N sl in
  let line_end := Z.of_N el in
  let hl := ((line_start <=? l) && ((l <? line_end) || ((l =? line_end) && (0 <? ec)%N)))%Z in
  let echo :=
    if ((0 <=? l)%Z && (Z.to_N l <? lenN lines))%bool then
      match nthN lines (Z.to_N l) with
      | Some ln =>
          if hl then pad4 (Z.to_N l + 1) ++ s_hl ++ ln ++ [10]
          else s_plain ++ ln ++ [10]
      | None => []
      end
    else [] in
  if hl then
    let col_start := if (l =? line_start)%Z then sc else 0 in
    let* col_end :=
      if (l =? line_end)%Z then Ok ec
      else match nthN lines (Z.to_N l) with     (* lines[l as usize].len() *)
           | Some ln => Ok (lenN ln)
           | None => Crash
           end in
    Ok (echo ++ s_mark ++ sp col_start ++ carets (col_end - col_start) ++ [10])
  else Ok echo.

Fixpoint pm_loop (fuel : nat) (lines : list (list N)) (m : meta) (l hi : Z) (acc : list N)
  : res (list N) :=
  if (hi <=? l)%Z then Ok acc
  else
    match fuel with
    | O => OutOfFuel
    | S f =>
        let* out := pm_line lines m l in
        pm_loop f lines m (l + 1)%Z hi (acc ++ out)
    end.

Definition prettify_meta (prg : list N) (m : meta) : res (list N) :=
  if is_empty prg then Ok []
  else
    let lines := lines_of prg in
    pm_loop (List.length lines + 5) lines m
            (Z.of_N (fst (m_start m)) - 2)%Z (Z.of_N (fst (m_end m)) + 2)%Z [].
