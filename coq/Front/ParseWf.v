(* C07, part B: THE PARSER MODEL NEVER BUILDS AN EMPTY ARRAY LITERAL NOR A MATCH WITHOUT ARMS
   (the two shapes on which check.rs panics, Check/InferTotal.v), hence the front end -- parser,
   then type checker -- never panics. *)
From Coq Require Import Lia Bool.
From GV Require Import Base.Util Front.Scan Front.ParseExpr Check.UAst Check.Infer Check.InferTotal.
Local Open Scope N_scope.

(* well-formedness of the parser model's trees: that of their image in the checker's input *)
Definition W (e : uexpr) : Prop := wfb_x (xexpr_of_uexpr e) = true.
Definition Ws (s : ustmt) : Prop := wfb_s (xstmt_of_ustmt s) = true.
Definition Wa (a : uaccessor) : Prop := wfb_a (xaccessor_of_uaccessor a) = true.

Lemma forallb_map_Forall {A B} (p : B -> bool) (g : A -> B) l :
  Forall (fun x => p (g x) = true) l -> forallb p (map g l) = true.
Proof. induction 1 as [|x l Hx _ IH]; cbn [map forallb]; [reflexivity|]. now rewrite Hx, IH. Qed.

Lemma Forall_of_forallb_map {A B} (p : B -> bool) (g : A -> B) l :
  forallb p (map g l) = true -> Forall (fun x => p (g x) = true) l.
Proof.
  induction l as [|x l IH]; cbn [map forallb]; intro H; constructor; apply andb_true_iff in H; destruct H; auto.
Qed.

Lemma W_list es : Forall W es -> forallb wfb_x (map xexpr_of_uexpr es) = true.
Proof. apply forallb_map_Forall. Qed.
Lemma Ws_list b : Forall Ws b -> forallb wfb_s (map xstmt_of_ustmt b) = true.
Proof. apply forallb_map_Forall. Qed.
Lemma Wa_list b : Forall Wa b -> forallb wfb_a (map xaccessor_of_uaccessor b) = true.
Proof. apply forallb_map_Forall. Qed.

Lemma is_nil_map {A B} (g : A -> B) l : is_nil (map g l) = is_nil l.
Proof. destruct l; reflexivity. Qed.

(* the constructors *)
Lemma W_true : W UTrue. Proof. reflexivity. Qed.
Lemma W_false : W UFalse. Proof. reflexivity. Qed.
Lemma W_numu n t : W (UNumUnsigned n t). Proof. reflexivity. Qed.
Lemma W_nums z t : W (UNumSigned z t). Proof. reflexivity. Qed.
Lemma W_id s : W (UIdentifier s). Proof. reflexivity. Qed.
Lemma W_range a b t : W (URange a b t). Proof. reflexivity. Qed.
Lemma W_access a i : W a -> W i -> W (UArrayAccess a i).
Proof. unfold W. cbn [xexpr_of_uexpr wfb_x]. intros -> ->. reflexivity. Qed.
Lemma W_tuple es : Forall W es -> W (UTupleLiteral es).
Proof. intro H. unfold W. cbn [xexpr_of_uexpr wfb_x]. now apply W_list. Qed.
Lemma W_tacc e i : W e -> W (UTupleAccess e i). Proof. exact (fun H => H). Qed.
Lemma W_sacc e f : W e -> W (UStructAccess e f). Proof. exact (fun H => H). Qed.
Lemma W_unary o e : W e -> W (UUnaryOp o e). Proof. exact (fun H => H). Qed.
Lemma W_op o l r : W l -> W r -> W (UOp o l r).
Proof. unfold W. cbn [xexpr_of_uexpr wfb_x]. intros -> ->. reflexivity. Qed.
Lemma W_call f args : Forall W args -> W (UFnCall f args).
Proof. intro H. unfold W. cbn [xexpr_of_uexpr]. destruct (list_eqb _ _); cbn [wfb_x]; now apply W_list. Qed.
Lemma W_if c t e : W c -> W t -> W e -> W (UIf c t e).
Proof. unfold W. cbn [xexpr_of_uexpr wfb_x]. intros -> -> ->. reflexivity. Qed.
Lemma W_cast ty e : W e -> W (UCast ty e). Proof. exact (fun H => H). Qed.
Lemma W_block b : Forall Ws b -> W (UBlock b).
Proof. intro H. unfold W. cbn [xexpr_of_uexpr wfb_x]. now apply Ws_list. Qed.
Lemma W_block_inv b : W (UBlock b) -> Forall Ws b.
Proof. unfold W. cbn [xexpr_of_uexpr wfb_x]. apply Forall_of_forallb_map. Qed.
Lemma W_match e arms : W e -> arms <> [] -> Forall (fun a => W (snd a)) arms -> W (UMatch e arms).
Proof.
  intros He Hn Ha. unfold W. cbn [xexpr_of_uexpr wfb_x]. rewrite He, is_nil_map.
  destruct arms; [congruence|]. cbn [is_nil negb andb].
  apply forallb_map_Forall. eapply Forall_impl; [|exact Ha]. intros a H. exact H.
Qed.
Lemma W_array es : es <> [] -> Forall W es -> W (UArrayLiteral es).
Proof.
  intros Hn H. unfold W. cbn [xexpr_of_uexpr wfb_x]. rewrite is_nil_map. destruct es; [congruence|].
  cbn [is_nil negb andb]. now apply W_list.
Qed.
Lemma W_repeat e n : W e -> W (UArrayRepeat e n). Proof. exact (fun H => H). Qed.
Lemma W_repeatc e c : W e -> W (UArrayRepeatConst e c). Proof. exact (fun H => H). Qed.
Lemma W_struct n fs : Forall (fun f => W (snd f)) fs -> W (UStructLiteral n fs).
Proof.
  intro H. unfold W. cbn [xexpr_of_uexpr wfb_x]. apply forallb_map_Forall.
  eapply Forall_impl; [|exact H]. intros a Ha. exact Ha.
Qed.
Lemma W_enum e v args : match args with Some es => Forall W es | None => True end -> W (UEnumLiteral e v args).
Proof. intro H. unfold W. cbn [xexpr_of_uexpr wfb_x]. destruct args; [now apply W_list|reflexivity]. Qed.

Lemma Ws_let p ty e : W e -> Ws (SLet p ty e). Proof. exact (fun H => H). Qed.
Lemma Ws_letmut x ty e : W e -> Ws (SLetMut x ty e). Proof. exact (fun H => H). Qed.
Lemma Ws_expr e : W e -> Ws (SExpr e). Proof. exact (fun H => H). Qed.
Lemma Ws_expr_inv e : Ws (SExpr e) -> W e. Proof. exact (fun H => H). Qed.
Lemma Ws_assign x accs e : Forall Wa accs -> W e -> Ws (SVarAssign x accs e).
Proof. intros Ha He. unfold Ws. cbn [xstmt_of_ustmt wfb_s]. rewrite (Wa_list _ Ha). exact He. Qed.
Lemma Ws_for p e body : W e -> Forall Ws body -> Ws (SForEach p e body).
Proof. intros He Hb. unfold Ws. cbn [xstmt_of_ustmt wfb_s]. rewrite He. now apply Ws_list. Qed.

(* ---------------------------------------------------------------- results *)

Definition okp {A} (Q : A -> Prop) (r : pres A) : Prop := match r with POk a _ => Q a | _ => True end.

Lemma okp_bind {A B} (Q : A -> Prop) (R : B -> Prop) (r : pres A) (k : A -> pstate -> pres B) :
  okp Q r -> (forall a s, Q a -> okp R (k a s)) -> okp R (bindp r k).
Proof. destruct r; cbn [bindp okp]; auto. Qed.

Lemma okp_any {A} (r : pres A) : okp (fun _ => True) r.
Proof. destruct r; exact I. Qed.

Lemma okp_expect {A} (R : A -> Prop) t s k : (forall s', okp R (k s')) -> okp R (expect t s k).
Proof. intro H. unfold expect. destruct (next_matches t s); [apply H|exact I]. Qed.

Lemma okp_expect_identifier {A} (R : A -> Prop) s k : (forall id s', okp R (k id s')) -> okp R (expect_identifier s k).
Proof. intro H. unfold expect_identifier. destruct (toks s) as [|[[] ?] ?]; try exact I. apply H. Qed.

Lemma okp_opt_semicolon {A} (R : A -> Prop) s k : (forall s', okp R (k s')) -> okp R (opt_semicolon s k).
Proof. intro H. unfold opt_semicolon. destruct (_ && _); [apply okp_expect|]; apply H. Qed.

Create HintDb pwdb.

Ltac okp_go :=
  repeat match goal with
  | |- okp _ (POk _ _) => cbn [okp]
  | |- okp _ PErr => exact I
  | |- okp _ PNoFuel => exact I
  | |- okp _ (POutside _) => exact I
  | |- okp _ (expect _ _ _) => apply okp_expect; intros ?
  | |- okp _ (expect_identifier _ _) => apply okp_expect_identifier; intros ? ?
  | |- okp _ (opt_semicolon _ _) => apply okp_opt_semicolon; intros ?
  | |- okp _ (if ?c then _ else _) => destruct c eqn:?
  | |- okp _ (match ?x with _ => _ end) => destruct x eqn:?
  | |- okp _ (let _ := _ in _) => cbv zeta
  end.

(* ---------------------------------------------------------------- loops *)

Lemma Forall_rev' {A} (Q : A -> Prop) l : Forall Q l -> Forall Q (rev l).
Proof. intro H. apply Forall_forall. intros x Hx. apply in_rev in Hx. rewrite Forall_forall in H. auto. Qed.

Lemma rev_not_nil {A} (l : list A) : l <> [] -> rev l <> [].
Proof. destruct l; [congruence|]. cbn [rev]. intros _ E. apply app_eq_nil in E. destruct E; discriminate. Qed.

Definition nonempty_all {A} (Q : A -> Prop) (l : list A) : Prop := l <> [] /\ Forall Q l.

Lemma okp_sep_loop {A} (Q : A -> Prop) item close : (forall s, okp Q (item s)) ->
  forall n acc s, Forall Q acc -> okp (Forall Q) (sep_loop item close n acc s).
Proof.
  intro Hi. induction n as [|n IH]; intros acc s Ha; cbn [sep_loop]; [exact I|]. okp_go; try (apply Forall_rev'; exact Ha).
  eapply okp_bind; [apply Hi|]. intros a s' Qa. apply IH. constructor; assumption.
Qed.

Lemma okp_insert_field {A} (Q : list N * A -> Prop) f : forall l, Q f -> Forall Q l -> Forall Q (insert_field f l).
Proof.
  induction l as [|g l IH]; intros Hf Hl; cbn [insert_field]; [constructor; [exact Hf|constructor]|].
  inversion Hl; subst. destruct (name_ltb _ _); constructor; auto.
Qed.

Lemma Forall_sort_fields {A} (Q : list N * A -> Prop) l : Forall Q l -> Forall Q (sort_fields l).
Proof.
  unfold sort_fields. assert (G : forall acc, Forall Q acc -> Forall Q l -> Forall Q (fold_left (fun acc f => insert_field f acc) l acc)).
  { induction l as [|f l IH]; intros acc Ha Hl; cbn [fold_left]; [exact Ha|].
    inversion Hl; subst. apply IH; [apply okp_insert_field; assumption|assumption]. }
  intro H. apply G; [constructor|exact H].
Qed.

Section Lit.
  Variable olc : bool.
  Variable pe : pstate -> pres uexpr.
  Hypothesis Hpe : forall s, okp W (pe s).

  Lemma okp_comma_loop close : forall n acc s, acc <> [] -> Forall W acc ->
    okp (nonempty_all W) (comma_loop pe close n acc s).
  Proof.
    induction n as [|n IH]; intros acc s Hn Ha; cbn [comma_loop]; [exact I|].
    okp_go; try (split; [apply rev_not_nil; exact Hn|apply Forall_rev'; exact Ha]).
    eapply okp_bind; [apply Hpe|]. intros a s' Wa. apply IH; [discriminate|constructor; assumption].
  Qed.

  Lemma okp_struct_field s : okp (fun f => W (snd f)) (struct_field olc pe s).
  Proof.
    unfold struct_field. okp_go; try exact (W_id _).
    eapply okp_bind; [apply Hpe|]. intros a sq Wa. okp_go. exact Wa.
  Qed.

  Lemma okp_parse_literal_gen n t s : okp W (parse_literal_gen olc pe n t s).
  Proof.
    unfold parse_literal_gen. destruct t; try exact I.
    - (* identifier *)
      okp_go; try exact W_true; try exact W_false; try (apply W_enum; exact Logic.I).
      + eapply okp_bind; [|intros fields sq Hf; okp_go; apply W_enum; exact Hf].
        okp_go; [|constructor].
        eapply okp_bind; [apply Hpe|]. intros a sq Wa.
        pose proof (okp_comma_loop TRightParen n [a] sq ltac:(discriminate) ltac:(constructor; [exact Wa|constructor])) as H.
        destruct (comma_loop _ _ _ _ _); try exact I. exact (proj2 H).
      + eapply okp_bind; [|intros fields sq Hf; okp_go; apply W_struct, Forall_sort_fields; exact Hf].
        okp_go; [|constructor].
        eapply okp_bind; [apply okp_struct_field|]. intros a sq Wa.
        apply okp_sep_loop; [apply okp_struct_field|constructor; [exact Wa|constructor]].
    - okp_go; try apply W_range; apply W_numu.
    - okp_go. apply W_nums.
    - (* ( *)
      okp_go; [|apply W_tuple; constructor].
      eapply okp_bind; [apply Hpe|]. intros e s1 We. okp_go; [|exact We].
      eapply okp_bind; [apply okp_comma_loop; [discriminate|constructor; [exact We|constructor]]|].
      intros fields s2 [_ Hf]. okp_go. apply W_tuple. exact Hf.
    - (* [ *)
      eapply okp_bind; [apply Hpe|]. intros elem s1 We. okp_go; try (apply W_repeat; exact We); try (apply W_repeatc; exact We).
      eapply okp_bind; [apply okp_comma_loop; [discriminate|constructor; [exact We|constructor]]|].
      intros elems s2 [Hn Hf]. okp_go. apply W_array; assumption.
  Qed.
End Lit.

(* ---------------------------------------------------------------- expressions and statements *)

Lemma W_access_inv a i : W (UArrayAccess a i) -> W a /\ W i.
Proof. unfold W. cbn [xexpr_of_uexpr wfb_x]. intro H. apply andb_true_iff in H. exact H. Qed.

Lemma W_retype i : W i -> W (retype_index i).
Proof. destruct i; try exact (fun H => H). destruct t; exact (fun H => H). Qed.

Lemma accessors_W : forall e id accs, W e -> accessors e = Some (id, accs) -> Forall Wa accs.
Proof.
  induction e; intros id accs We H; cbn [accessors] in H; try discriminate H.
  - injection H as <- <-. constructor.
  - destruct (accessors e1) as [[id1 acc1]|] eqn:E; [|discriminate H]. injection H as <- <-.
    apply W_access_inv in We. destruct We as [W1 W2].
    apply Forall_app. split; [eapply IHe1; [exact W1|reflexivity]|]. constructor; [exact W2|constructor].
  - destruct (accessors e) as [[id1 acc1]|] eqn:E; [|discriminate H]. injection H as <- <-.
    apply Forall_app. split; [eapply IHe; [exact We|reflexivity]|]. constructor; [reflexivity|constructor].
  - destruct (accessors e) as [[id1 acc1]|] eqn:E; [|discriminate H]. injection H as <- <-.
    apply Forall_app. split; [eapply IHe; [exact We|reflexivity]|]. constructor; [reflexivity|constructor].
Qed.

Lemma target_expr_W x accs : Forall Wa accs -> W (target_expr x accs).
Proof.
  unfold target_expr. generalize (UIdentifier x) (W_id x). induction accs as [|a accs IH]; intros t Wt Ha; cbn [fold_left]; [exact Wt|].
  inversion Ha as [|a0 l0 Ha0 Hl]; subst. apply IH; [|exact Hl].
  destruct a; [apply W_access; [exact Wt|exact Ha0]|exact Wt|exact Wt].
Qed.

Definition opsW (ops : opt) : Prop := forall t mk, ops t = Some mk -> forall x y, W x -> W y -> W (mk x y).

Lemma opsW_all : opsW ops_sc_or /\ opsW ops_sc_and /\ opsW ops_equality /\ opsW ops_comparison /\ opsW ops_or /\
  opsW ops_xor /\ opsW ops_and /\ opsW ops_shift /\ opsW ops_term /\ opsW ops_factor.
Proof.
  repeat split; intros t mk H x y Wx Wy; destruct t; try discriminate H; injection H as <-;
    try (apply W_op; assumption); apply W_unary, W_op; assumption.
Qed.

Section Bin.
  Variable ops : opt.
  Variable sub : nat -> pstate -> pres uexpr.
  Hypothesis Hops : opsW ops.
  Hypothesis Hsub : forall n s, okp W (sub n s).

  Lemma okp_binloop : forall n x s, W x -> okp W (binloop ops sub n x s).
  Proof.
    induction n as [|n IH]; intros x s Wx; cbn [binloop]; [exact I|].
    unfold next_op. destruct (toks s) as [|[t m] r]; [exact Wx|].
    destruct (ops t) as [mk|] eqn:E; [|exact Wx].
    eapply okp_bind; [apply Hsub|]. intros y s2 Wy. apply IH. eapply Hops; eassumption.
  Qed.

  Lemma okp_binlevel n s : okp W (binlevel ops sub n s).
  Proof. unfold binlevel. eapply okp_bind; [apply Hsub|]. intros x s1 Wx. apply okp_binloop. exact Wx. Qed.
End Bin.

Section E.
  Variable pe : pstate -> pres uexpr.
  Hypothesis Hpe : forall s, okp W (pe s).

  Lemma okp_postfix_loop : forall n x s, W x -> okp W (postfix_loop pe n x s).
  Proof.
    induction n as [|n IH]; intros x s Wx; cbn [postfix_loop]; [exact I|].
    okp_go; try exact Wx; try (apply IH; first [apply W_sacc|apply W_tacc]; exact Wx).
    eapply okp_bind; [apply Hpe|]. intros index s2 Wi. cbv zeta. okp_go.
    apply IH. apply W_access; [exact Wx|apply W_retype; exact Wi].
  Qed.

  Lemma okp_parse_literal n t s : okp W (parse_literal pe n t s).
  Proof. apply okp_parse_literal_gen. exact Hpe. Qed.

  Lemma okp_primary_base n s : okp W (parse_primary_base pe n s).
  Proof.
    unfold parse_primary_base. destruct (advance s) as [[t s1]|]; [|exact I].
    destruct t; try apply okp_parse_literal.
    okp_go; try apply okp_parse_literal; try apply W_id.
    eapply okp_bind; [|intros args s3 Ha; okp_go; apply W_call; exact Ha].
    okp_go; [|constructor].
    eapply okp_bind; [apply Hpe|]. intros a s3 Wa0.
    pose proof (okp_comma_loop pe Hpe TRightParen n [a] s3 ltac:(discriminate) ltac:(constructor; [exact Wa0|constructor])) as H.
    destruct (comma_loop _ _ _ _ _); try exact I. exact (proj2 H).
  Qed.

  Lemma okp_primary n s : okp W (parse_primary pe n s).
  Proof. unfold parse_primary. eapply okp_bind; [apply okp_primary_base|]. intros x s1 Wx. apply okp_postfix_loop. exact Wx. Qed.

  Lemma okp_unary : forall n s, okp W (parse_unary pe n s).
  Proof.
    induction n as [|n IH]; intros s; cbn [parse_unary]; [exact I|].
    okp_go; try apply okp_primary;
      (eapply okp_bind; [apply IH|]; intros u s2 Wu; okp_go; apply W_unary; exact Wu).
  Qed.

  Lemma okp_opt_type {A} (R : A -> Prop) n s k : (forall ty sq, okp R (k ty sq)) -> okp R (opt_type pe n s k).
  Proof.
    intro H. unfold opt_type. destruct (next_matches TColon s); [|apply H].
    eapply okp_bind; [apply okp_any|]. intros ty s2 _. apply H.
  Qed.

  Lemma okp_parse_stmt n s : okp Ws (parse_stmt pe n s).
  Proof.
    unfold parse_stmt.
    destruct (next_matches TKeywordLet s) as [s1|].
    { destruct (next_matches TKeywordMut s1) as [s2|].
      - okp_go. apply okp_opt_type. intros ty s4. okp_go. eapply okp_bind; [apply Hpe|]. intros b s6 Wb. okp_go.
        apply Ws_letmut. exact Wb.
      - eapply okp_bind; [apply okp_any|]. intros pat s3 _. apply okp_opt_type. intros ty s4. okp_go.
        eapply okp_bind; [apply Hpe|]. intros b s6 Wb. okp_go. apply Ws_let. exact Wb. }
    destruct (next_matches TKeywordFor s) as [s1|].
    { eapply okp_bind; [apply okp_any|]. intros pat s2 _. okp_go. eapply okp_bind; [apply Hpe|]. intros b s4 Wb. cbv zeta.
      okp_go. eapply okp_bind; [apply Hpe|]. intros blk s6 Wblk. destruct blk; try exact I. okp_go.
      apply Ws_for; [exact Wb|apply W_block_inv; exact Wblk]. }
    cbv zeta. eapply okp_bind; [apply Hpe|]. intros e s1 We.
    destruct (accessors e) as [[id accs]|] eqn:Eacc.
    - pose proof (accessors_W e id accs We Eacc) as Hacc.
      destruct (next_matches TEq s1) as [s2|].
      + eapply okp_bind; [apply Hpe|]. intros v s3 Wv. okp_go. apply Ws_assign; assumption.
      + destruct (toks s1) as [|[next m] r]; [okp_go; apply Ws_expr; exact We|].
        destruct (assign_op next) as [op|]; [|okp_go; apply Ws_expr; exact We].
        eapply okp_bind; [apply Hpe|]. intros v s3 Wv. okp_go. apply Ws_assign; [exact Hacc|].
        apply W_op; [apply target_expr_W; exact Hacc|exact Wv].
    - okp_go; apply Ws_expr; exact We.
  Qed.

  Lemma okp_stmts_loop : forall n acc s, Forall Ws acc -> okp (Forall Ws) (stmts_loop pe n acc s).
  Proof.
    induction n as [|n IH]; intros acc s Ha; cbn [stmts_loop]; [exact I|].
    okp_go; [apply Forall_rev'; exact Ha|].
    eapply okp_bind; [apply okp_parse_stmt|]. intros st s1 Wst. apply IH. constructor; assumption.
  Qed.

  Lemma okp_parse_stmts n s : okp (Forall Ws) (parse_stmts pe n s).
  Proof.
    unfold parse_stmts, parse_stmts_of_block. cbv zeta.
    eapply okp_bind; [apply okp_stmts_loop; constructor|]. intros stmts s1 H. exact H.
  Qed.

  Lemma okp_block_as_expr n s : okp W (parse_block_as_expr pe n s).
  Proof.
    unfold parse_block_as_expr. eapply okp_bind; [apply okp_parse_stmts|]. intros stmts s1 H.
    destruct stmts as [|st [|st2 r]].
    - apply W_tuple. constructor.
    - destruct st; try (apply W_block; exact H). inversion H; subst. assumption.
    - destruct st; apply W_block; exact H.
  Qed.

  Lemma okp_match_clause n s : okp (fun ce => W (snd (fst ce))) (parse_match_clause pe n s).
  Proof.
    unfold parse_match_clause. eapply okp_bind; [apply okp_any|]. intros pat s1 _. okp_go.
    eapply okp_bind; [apply okp_parse_stmt|]. intros st s3 Wst. cbv zeta. cbn [okp fst snd].
    apply W_block. constructor; [exact Wst|constructor].
  Qed.

  Lemma okp_match_loop : forall n b acc s, acc <> [] -> Forall (fun a => W (snd a)) acc ->
    okp (nonempty_all (fun a => W (snd a))) (match_loop pe n b acc s).
  Proof.
    induction n as [|n IH]; intros b acc s Hn Ha; cbn [match_loop]; [exact I|]. cbv zeta.
    assert (Hfin : nonempty_all (fun a : upattern * uexpr => W (snd a)) (rev acc))
      by (split; [apply rev_not_nil; exact Hn|apply Forall_rev'; exact Ha]).
    assert (Hgo : forall s1, okp (nonempty_all (fun a : upattern * uexpr => W (snd a)))
              (if peek TRightBrace s1 || (match toks s1 with [] => true | _ => false end) then POk (rev acc) s1
               else bindp (parse_match_clause pe n s1) (fun ce s2 => match_loop pe n (snd ce) (fst ce :: acc) s2))).
    { intro s1. destruct (_ || _); [exact Hfin|].
      eapply okp_bind; [apply okp_match_clause|]. intros ce s2 Wce. apply IH; [discriminate|constructor; assumption]. }
    destruct (next_matches TComma s); [apply Hgo|]. destruct b; [apply Hgo|exact Hfin].
  Qed.

  Lemma okp_if_or_match : forall n s, okp W (parse_if_or_match pe n s).
  Proof.
    induction n as [|n IH]; intros s; cbn [parse_if_or_match]; [exact I|].
    destruct (next_matches TKeywordIf s) as [s1|].
    { cbv zeta. eapply okp_bind; [apply Hpe|]. intros c s2 Wc. okp_go.
      eapply okp_bind; [apply okp_block_as_expr|]. intros t s5 Wt. okp_go.
      - eapply okp_bind; [apply IH|]. intros e s8 We. okp_go. apply W_if; assumption.
      - eapply okp_bind; [apply okp_block_as_expr|]. intros e s9 We. okp_go. apply W_if; assumption.
      - apply W_if; [assumption|assumption|apply W_tuple; constructor]. }
    destruct (next_matches TKeywordMatch s) as [s1|]; [|apply okp_unary].
    cbv zeta. eapply okp_bind; [apply Hpe|]. intros m s2 Wm. okp_go.
    eapply okp_bind; [apply okp_match_clause|]. intros ce s5 Wce.
    eapply okp_bind; [apply okp_match_loop; [discriminate|constructor; [exact Wce|constructor]]|].
    intros clauses s6 [Hn Hc]. okp_go. apply W_match; assumption.
  Qed.

  Lemma okp_cast_loop : forall n x s, W x -> okp W (cast_loop pe n x s).
  Proof.
    induction n as [|n IH]; intros x s Wx; cbn [cast_loop]; [exact I|].
    destruct (next_matches TKeywordAs s); [|exact Wx].
    eapply okp_bind; [apply okp_any|]. intros ty s2 _. apply IH. apply W_cast. exact Wx.
  Qed.

  Lemma okp_parse_cast n s : okp W (parse_cast pe n s).
  Proof. unfold parse_cast. eapply okp_bind; [apply okp_if_or_match|]. intros x s1 Wx. apply okp_cast_loop. exact Wx. Qed.

  Lemma okp_parse_expr_body n s : okp W (parse_expr_body pe n s).
  Proof.
    destruct opsW_all as (O1 & O2 & O3 & O4 & O5 & O6 & O7 & O8 & O9 & O10).
    unfold parse_expr_body. destruct (next_matches TLeftBrace s) as [s1|].
    - eapply okp_bind; [apply okp_parse_stmts|]. intros stmts s2 H. okp_go. apply W_block. exact H.
    - unfold parse_short_circuiting_or, parse_short_circuiting_and, parse_equality, parse_comparison, parse_or,
        parse_xor, parse_and, parse_shift, parse_term, parse_factor.
      repeat (apply okp_binlevel; [assumption|intros ? ?]). apply okp_parse_cast.
  Qed.
End E.

Theorem parse_expr_st_wf : forall fuel s, okp W (parse_expr_st fuel s).
Proof.
  induction fuel as [|f IH]; intros s; cbn [parse_expr_st]; [exact I|].
  apply okp_parse_expr_body. exact IH.
Qed.

Theorem parse_stmt_wf fuel n s : okp Ws (parse_stmt (parse_expr_st fuel) n s).
Proof. apply okp_parse_stmt, parse_expr_st_wf. Qed.

Theorem parse_block_wf fuel n s : okp (Forall Ws) (parse_stmts (parse_expr_st fuel) n s).
Proof. apply okp_parse_stmts, parse_expr_st_wf. Qed.

(* ---------------------------------------------------------------- the top level *)

Definition Wfn (fd : ParseExpr.ufndef) : Prop := Forall Ws (f_body fd).
Definition Wprog (P : ParseExpr.uprogram) : Prop := Forall (fun nf => Wfn (snd nf)) (up_fn_defs P).

Lemma okp_parse_fn_def fuel is_pub s : okp Wfn (parse_fn_def fuel is_pub s).
Proof.
  unfold parse_fn_def. okp_go. eapply okp_bind; [apply okp_any|]. intros params s3 _. okp_go.
  eapply okp_bind; [apply okp_any|]. intros ty s6 _. okp_go.
  eapply okp_bind; [apply parse_block_wf|]. intros body s8 Hb. okp_go. exact Hb.
Qed.

Lemma Wprog_insert {A} (Q : list N * A -> Prop) k v m : Q (k, v) -> Forall Q m -> Forall Q (map_insert k v m).
Proof.
  intros Hv Hm. unfold map_insert. apply Forall_app. split; [|constructor; [exact Hv|constructor]].
  apply Forall_forall. intros x Hx. apply filter_In in Hx. rewrite Forall_forall in Hm. apply Hm, Hx.
Qed.

Lemma okp_items_loop fuel : forall n is_pub prog s, Wprog prog -> okp Wprog (items_loop fuel n is_pub prog s).
Proof.
  induction n as [|n IH]; intros is_pub prog s Hp; cbn [items_loop]; [exact I|].
  destruct (advance s) as [[t s1]|]; [|exact Hp].
  destruct t; try exact I;
    try (eapply okp_bind; [apply okp_any|]; intros d s2 _; apply IH; exact Hp; fail).
  - eapply okp_bind; [apply okp_parse_fn_def|]. intros d s2 Wd. apply IH. unfold Wprog. cbn [up_fn_defs].
    apply Wprog_insert; [exact Wd|exact Hp].
  - destruct is_pub; [exact I|apply IH; exact Hp].
Qed.

(* (B) THE PARSER'S OUTPUT IS WELL-FORMED *)
Theorem parser_output_wf f ts up st main :
  parse_program_text f ts = POk up st -> wf_program (uprogram_of_parsed up main).
Proof.
  intro H. pose proof (okp_items_loop f f false (UProgram [] [] [] []) (PState ts true) ltac:(constructor)) as Hw.
  unfold parse_program_text in H. rewrite H in Hw. cbn [okp] in Hw.
  unfold wf_program, wfb_program, uprogram_of_parsed. cbn [up_fns].
  apply forallb_map_Forall. eapply Forall_impl; [|exact Hw]. intros [name fd] Hfd. cbn [snd] in *.
  unfold ufndef_of_parsed. cbn [uf_body]. apply Ws_list. exact Hfd.
Qed.

(* THE FRONT END NEVER PANICS: whatever the tokens, whatever the fuels *)
Corollary front_end_never_panics ts f up st main intern g :
  parse_program_text f ts = POk up st ->
  check_program intern g (uprogram_of_parsed up main) <> CErr E_Panic.
Proof. intro H. apply no_panic. eapply parser_output_wf. exact H. Qed.

Corollary front_end_never_panics_t ts f up st main intern g :
  parse_program_text f ts = POk up st ->
  check_program_t intern g (uprogram_of_parsed up main) <> CErr E_Panic.
Proof. intro H. apply no_panic_t. eapply parser_output_wf. exact H. Qed.

Print Assumptions parse_expr_st_wf.
Print Assumptions parser_output_wf.
Print Assumptions front_end_never_panics.
Print Assumptions front_end_never_panics_t.

(* ---------------------------------------------------------------- non-vacuity: from TEXT *)

From Coq Require Import String.
From GV Require Check.InferExamples.

Module FrontExamples.
Local Open Scope string_scope.

Inductive outcome := ScanError | ParseError | ParseNoFuel | Checked (r : cres Ast.program).

(* bytes -> tokens -> parser model -> checker input -> checker model -> exporter *)
Definition front (txt : string) : outcome :=
  match scan_text (codes txt) with
  | Ok (STokens ts) =>
      match parse_program_text (fuel_for_tokens ts) ts with
      | POk up _ => Checked (check_program InferExamples.ex_intern 200 (uprogram_of_parsed up (codes "main")))
      | PNoFuel => ParseNoFuel
      | _ => ParseError
      end
  | _ => ScanError
  end.

Definition verdict (o : outcome) : option (option N) :=      (* Some None = accepted, Some (Some c) = TypeError c *)
  match o with
  | Checked (COk _) => Some None
  | Checked (CErr c) => Some (Some c)
  | _ => None
  end.

(* accepted: array literal, match with arms, a call, a loop *)
Definition t_ok := "
  fn inc(a: u8) -> u8 { a + 1 }
  pub fn main(x: u8, b: bool) -> u8 {
    let a = [x, 1, 2];
    let mut s = 0u8;
    for e in a { s = s + e; }
    match b { true => inc(s), false => a[1] }
  }".
Example text_accepted : verdict (front t_ok) = Some None.
Proof. vm_compute. reflexivity. Qed.

(* rejected by the checker with a type error (not a panic) *)
Example text_type_error : verdict (front "pub fn main(x: u8) -> bool { [x, true] }") = Some (Some E_UnexpectedType).
Proof. vm_compute. reflexivity. Qed.
Example text_unknown_id : verdict (front "pub fn main(x: u8) -> u8 { match y { 0 => x, _ => x } }") = Some (Some E_UnknownIdentifier).
Proof. vm_compute. reflexivity. Qed.

(* the two shapes on which check.rs would panic do not parse *)
Example text_empty_array_no_parse : front "pub fn main(x: u8) -> u8 { let a = []; x }" = ParseError.
Proof. vm_compute. reflexivity. Qed.
Example text_empty_match_no_parse : front "pub fn main(x: u8) -> u8 { match x { } }" = ParseError.
Proof. vm_compute. reflexivity. Qed.

(* ... and the hypothesis of no_panic is needed: on hand-made trees with these shapes the model
   of the checker does reach its two panic sites (an API user of check.rs who builds a
   Program<()> without the parser can make it panic) *)
Definition hand (e : xexpr) : uprogram :=
  InferExamples.prog1 [InferExamples.px "x" InferExamples.u8] InferExamples.u8 [XSExpr e].
Example hand_empty_array_panics :
  check_program_t InferExamples.ex_intern 50 (hand (XArrayLiteral [])) = CErr E_Panic /\
  wfb_program (hand (XArrayLiteral [])) = false.
Proof. vm_compute. split; reflexivity. Qed.
Example hand_empty_match_panics :
  check_program_t InferExamples.ex_intern 50 (hand (XMatch (XIdentifier (codes "x")) [])) = CErr E_Panic /\
  wfb_program (hand (XMatch (XIdentifier (codes "x")) [])) = false.
Proof. vm_compute. split; reflexivity. Qed.

(* the theorem on the accepted text: whatever the fuels *)
Example text_never_panics f g :
  match scan_text (codes t_ok) with
  | Ok (STokens ts) =>
      forall up st, parse_program_text f ts = POk up st ->
        check_program InferExamples.ex_intern g (uprogram_of_parsed up (codes "main")) <> CErr E_Panic
  | _ => True
  end.
Proof. destruct (scan_text (codes t_ok)) as [[ts|]| |]; try exact Logic.I. intros up st H. eapply front_end_never_panics. exact H. Qed.
End FrontExamples.
