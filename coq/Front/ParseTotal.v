(* TERMINATION of the parser model of Front/ParseExpr.v with a fuel that is LINEAR in the
   number of tokens, for EVERY token list (property C07: the front end returns promptly on every
   input), and independence of the results from the fuel once it suffices.

   The argument: a parser function called with fuel n on a state with L tokens left does not run
   out of fuel if n >= L + c, for a constant c that only depends on the function (its height in
   the call graph of one nesting level of parse_expr); every loop iteration and every nesting
   level of parse_expr consumes at least one token.  [okD d r L]: the result r is not [PNoFuel],
   and if it is [POk _ s'] then s' has at least d tokens fewer than L. *)
From Coq Require Import Lia ZArith String List.
From GV Require Import Base.Util Front.Scan Front.ParseExpr.
Local Open Scope nat_scope.

Notation ln s := (length (toks s)).

Definition okD {A} (d : nat) (r : pres A) (L : nat) : Prop :=
  match r with
  | PNoFuel => False
  | POk _ s' => ln s' + d <= L
  | _ => True
  end.

Lemma okD_mono {A} d d' (r : pres A) L L' : okD d r L -> d' <= d -> L <= L' -> okD d' r L'.
Proof. destruct r; cbn [okD]; auto. lia. Qed.

Lemma okD_le {A} d d' (r : pres A) L L' : okD d r L -> d' + L <= d + L' -> okD d' r L'.
Proof. destruct r; cbn [okD]; auto. lia. Qed.

Lemma okD_bind {A B} d1 d (m : pres A) (k : A -> pstate -> pres B) L1 L :
  okD d1 m L1 -> (forall a s1, ln s1 + d1 <= L1 -> okD d (k a s1) L) -> okD d (bindp m k) L.
Proof. destruct m; cbn [okD bindp]; auto. Qed.

Lemma next_matches_len t s s1 : next_matches t s = Some s1 -> ln s1 + 1 = ln s.
Proof.
  unfold next_matches. destruct (toks s) as [|[t' m] r] eqn:E; [discriminate|].
  destruct (teqb t' t); [|discriminate]. intros [= <-]. cbn [toks length]. lia.
Qed.

Lemma advance_len s t s1 : advance s = Some (t, s1) -> ln s1 + 1 = ln s.
Proof.
  unfold advance. destruct (toks s) as [|[t' m] r] eqn:E; [discriminate|]. intros [= <- <-]. cbn [toks length]. lia.
Qed.

Lemma next_op_len ops s mk s1 : next_op ops s = Some (mk, s1) -> ln s1 + 1 = ln s.
Proof.
  unfold next_op. destruct (toks s) as [|[t' m] r] eqn:E; [discriminate|].
  destruct (ops t'); [|discriminate]. intros [= <- <-]. cbn [toks length]. lia.
Qed.

Lemma okD_expect {A} d t s (k : pstate -> pres A) L :
  (forall s1, ln s1 + 1 = ln s -> okD d (k s1) L) -> okD d (expect t s k) L.
Proof.
  intro H. unfold expect. destruct (next_matches t s) as [s1|] eqn:E; [|exact I].
  apply H. eapply next_matches_len; eassumption.
Qed.

Lemma okD_expect_id {A} d s (k : list N -> pstate -> pres A) L :
  (forall id s1, ln s1 + 1 = ln s -> okD d (k id s1) L) -> okD d (expect_identifier s k) L.
Proof.
  intro H. unfold expect_identifier. destruct (toks s) as [|[t m] r] eqn:E; [exact I|].
  destruct t; try exact I. apply H. cbn [toks length]. lia.
Qed.

Ltac fin := cbn [okD toks sla set_sla length] in *; lia.

(* parse_expr one level down, on states with fewer than L tokens: it consumes at least one token *)
Definition pe_ok (pe : pstate -> pres uexpr) (L : nat) : Prop :=
  forall s, ln s < L -> okD 1 (pe s) (ln s).

Lemma pe_ok_mono pe L L' : pe_ok pe L -> L' <= L -> pe_ok pe L'.
Proof. intros H Hl s Hs. apply H. lia. Qed.

(* ------------------------------------------------------------------ the loops over lists *)

Lemma strict_comma_loop_ok {A} (item : pstate -> pres A) L :
  (forall s, ln s < L -> okD 1 (item s) (ln s)) ->
  forall n acc s, ln s <= L -> ln s + 1 <= n -> okD 0 (strict_comma_loop item n acc s) (ln s).
Proof.
  intro Hi. induction n as [|n IH]; intros acc s HL Hn; [lia|]. cbn [strict_comma_loop].
  destruct (next_matches TComma s) as [s1|] eqn:E; [|cbn; lia].
  apply next_matches_len in E. eapply okD_bind; [apply Hi; lia|]. intros a s2 H2.
  eapply okD_mono; [apply IH; lia|lia|lia].
Qed.

Lemma sep_loop_ok {A} (item : pstate -> pres A) close L :
  (forall s, ln s < L -> okD 1 (item s) (ln s)) ->
  forall n acc s, ln s <= L -> ln s + 1 <= n -> okD 0 (sep_loop item close n acc s) (ln s).
Proof.
  intro Hi. induction n as [|n IH]; intros acc s HL Hn; [lia|]. cbn [sep_loop].
  destruct (next_matches TComma s) as [s1|] eqn:E; [|cbn; lia].
  apply next_matches_len in E. destruct (peek close s1); [cbn; lia|].
  eapply okD_bind; [apply Hi; lia|]. intros a s2 H2.
  eapply okD_mono; [apply IH; lia|lia|lia].
Qed.

Lemma comma_loop_ok pe close L : pe_ok pe L ->
  forall n acc s, ln s <= L -> ln s + 1 <= n -> okD 0 (comma_loop pe close n acc s) (ln s).
Proof.
  intro Hi. induction n as [|n IH]; intros acc s HL Hn; [lia|]. cbn [comma_loop].
  destruct (next_matches TComma s) as [s1|] eqn:E; [|cbn; lia].
  apply next_matches_len in E. destruct (peek close s1); [cbn; lia|].
  eapply okD_bind; [apply Hi; lia|]. intros a s2 H2.
  eapply okD_mono; [apply IH; lia|lia|lia].
Qed.

(* ------------------------------------------------------------------ types *)

Lemma parse_type_ok pe L : pe_ok pe L -> forall n s, ln s <= L -> ln s + 1 <= n ->
  okD 1 (parse_type pe n s) (ln s).
Proof.
  intro Hpe. induction n as [|n IH]; intros s HL Hn; [lia|]. cbn [parse_type].
  destruct (next_matches TLeftParen s) as [s1|] eqn:E1.
  - apply next_matches_len in E1.
    eapply (okD_bind 0 1 _ _ (ln s1)).
    + destruct (peek TRightParen s1); cbn [negb]; [cbn; lia|].
      eapply okD_bind; [apply IH; lia|]. intros ty s2 H2.
      eapply okD_mono; [apply (strict_comma_loop_ok (parse_type pe n) (ln s2))|lia|lia]; try lia.
      intros s3 H3. apply IH; lia.
    + intros fields s2 H2. apply okD_expect. intros s3 H3. fin.
  - destruct (next_matches TLeftBracket s) as [s1|] eqn:E2.
    + apply next_matches_len in E2. eapply okD_bind; [apply IH; lia|]. intros ty s2 H2.
      apply okD_expect. intros s3 H3.
      destruct (toks s3) as [|[t m] r] eqn:E3; [exact I|].
      assert (Hr : length r + 1 = ln s3) by (rewrite E3; cbn [length]; lia).
      destruct t; try exact I.
      * apply okD_expect. intros s4 H4. fin.
      * destruct t; try exact I; apply okD_expect; intros s4 H4; fin.
      * apply okD_expect. intros s4 H4.
        eapply okD_bind; [apply Hpe; fin|]. intros e s5 H5.
        destruct (const_of_expr e); [|exact I]. apply okD_expect. intros s6 H6. apply okD_expect. intros s7 H7. fin.
    + apply okD_expect_id. intros id s1 H1. fin.
Qed.

(* ------------------------------------------------------------------ patterns *)

Definition item_ok {A} (item : pstate -> pres A) (L : nat) : Prop :=
  forall s, ln s < L -> okD 1 (item s) (ln s).

Lemma pattern_field_ok pp L : item_ok pp L -> forall s, ln s <= L -> okD 1 (pattern_field pp s) (ln s).
Proof.
  intros Hp s HL. unfold pattern_field. apply okD_expect_id. intros fname s1 H1.
  destruct (peek TComma s1 || peek TRightBrace s1); [fin|].
  apply okD_expect. intros s2 H2. eapply okD_bind; [apply Hp; fin|]. intros p s3 H3. fin.
Qed.

Lemma field_loop_ok pp L : item_ok pp L ->
  forall n acc s, ln s <= L -> ln s + 1 <= n -> okD 0 (field_loop pp n acc s) (ln s).
Proof.
  intro Hp. induction n as [|n IH]; intros acc s HL Hn; [lia|]. cbn [field_loop].
  destruct (next_matches TComma s) as [s1|] eqn:E; [|fin].
  apply next_matches_len in E. destruct (peek TRightBrace s1); [fin|].
  destruct (next_matches TDoubleDot s1) as [s2|] eqn:E2; [apply next_matches_len in E2; fin|].
  eapply okD_bind; [apply (pattern_field_ok pp L Hp); fin|]. intros f s2 H2.
  eapply okD_mono; [apply IH; fin|lia|fin].
Qed.

Lemma pattern_fields_ok pp L : item_ok pp L ->
  forall n s, ln s < L -> ln s + 1 <= n -> okD 1 (pattern_fields pp n s) (ln s).
Proof.
  intros Hp n s HL Hn. unfold pattern_fields.
  eapply (okD_bind 0 1 _ _ (ln s)).
  - destruct (peek TRightParen s); cbn [negb]; [fin|].
    eapply okD_bind; [apply Hp; fin|]. intros p s1 H1.
    eapply okD_mono; [apply (sep_loop_ok pp TRightParen L Hp); fin|lia|fin].
  - intros fields s1 H1. apply okD_expect. intros s2 H2. fin.
Qed.

Lemma parse_pattern_ok : forall n s, ln s + 1 <= n -> okD 1 (parse_pattern n s) (ln s).
Proof.
  induction n as [|n IH]; intros s Hn; [lia|]. cbn [parse_pattern].
  assert (Hitem : forall L, L <= n -> item_ok (parse_pattern n) L).
  { intros L HLn s' Hs'. apply IH. lia. }
  destruct (toks s) as [|[t m] r] eqn:E; [exact I|]. cbn [length] in Hn.
  destruct t; try exact I.
  - (* identifier *) cbv zeta.
    destruct (list_eqb s0 s_true); [fin|]. destruct (list_eqb s0 s_false); [fin|].
    destruct (next_matches TDoubleColon (PState r (sla s))) as [s2|] eqn:E2.
    + apply next_matches_len in E2. apply okD_expect_id. intros variant s3 H3.
      destruct (peek TLeftParen s3); [|fin].
      apply okD_expect. intros s4 H4.
      eapply okD_bind; [apply (pattern_fields_ok (parse_pattern n) (S (ln s4))); [apply Hitem; fin|lia|fin]|].
      intros fields s5 H5. fin.
    + destruct (next_matches TLeftBrace (PState r (sla s))) as [s2|] eqn:E3; [|fin].
      apply next_matches_len in E3.
      eapply (okD_bind 0 1 _ _ (ln s2)).
      * destruct (peek TRightBrace s2); cbn [negb]; [fin|].
        eapply okD_bind; [apply (pattern_field_ok (parse_pattern n) (ln s2)); [apply Hitem; fin|lia]|].
        intros f s3 H3.
        eapply okD_mono; [apply (field_loop_ok (parse_pattern n) (ln s2)); [apply Hitem; fin|fin|fin]|lia|fin].
      * intros fi s3 H3. apply okD_expect. intros s4 H4. destruct (snd fi); fin.
  - (* unsigned number *) cbv zeta.
    destruct (peek TDoubleDot (PState r (sla s)) || peek TDoubleDotEquals (PState r (sla s))); [|fin].
    cbn [toks]. destruct r as [|x [|[t2 m2] r2]]; try exact I. destruct t2; try exact I.
    repeat match goal with |- okD _ (if ?c then _ else _) _ => destruct c end; try exact I; fin.
  - (* signed number *) cbv zeta.
    destruct (peek TDoubleDot (PState r (sla s)) || peek TDoubleDotEquals (PState r (sla s))); [|fin].
    cbn [toks]. destruct r as [|x [|[t2 m2] r2]]; try exact I. destruct t2; try exact I.
    repeat match goal with |- okD _ (if ?c then _ else _) _ => destruct c end; try exact I; fin.
  - (* tuple *)
    eapply okD_bind; [apply (pattern_fields_ok (parse_pattern n) (S (length r))); [apply Hitem; fin|fin|fin]|].
    intros fields s1 H1. fin.
Qed.

(* ------------------------------------------------------------------ literals *)

Lemma struct_field_ok olc pe L : pe_ok pe L -> forall s, ln s <= L -> okD 1 (struct_field olc pe s) (ln s).
Proof.
  intros Hp s HL. unfold struct_field. apply okD_expect_id. intros name s1 H1.
  destruct (peek TComma s1 || peek TRightBrace s1); [destruct olc; fin|].
  apply okD_expect. intros s2 H2. eapply okD_bind; [apply Hp; fin|]. intros p s3 H3. fin.
Qed.

Ltac ifs := repeat match goal with |- okD _ (if ?c then _ else _) _ => destruct c end.

Lemma parse_literal_gen_ok olc pe L : pe_ok pe L -> forall n t s, ln s < L -> ln s + 1 <= n ->
  okD 0 (parse_literal_gen olc pe n t s) (ln s).
Proof.
  intros Hp n t s HL Hn. unfold parse_literal_gen. destruct t; try exact I.
  - (* identifier *)
    destruct (list_eqb s0 s_true); [fin|]. destruct (list_eqb s0 s_false); [fin|].
    destruct (next_matches TDoubleColon s) as [s1|] eqn:E1.
    + apply next_matches_len in E1. apply okD_expect_id. intros variant s2 H2.
      destruct (next_matches TLeftParen s2) as [s3|] eqn:E3; [|fin]. apply next_matches_len in E3.
      eapply (okD_bind 0 0 _ _ (ln s3)).
      * destruct (peek TRightParen s3); cbn [negb]; [fin|].
        eapply okD_bind; [apply Hp; fin|]. intros a s4 H4.
        eapply okD_mono; [apply (comma_loop_ok pe TRightParen L Hp); fin|lia|fin].
      * intros fields s4 H4. apply okD_expect. intros s5 H5. fin.
    + destruct (next_matches TLeftBrace s) as [s1|] eqn:E2; [|exact I]. apply next_matches_len in E2.
      destruct (sla s); [|exact I].
      eapply (okD_bind 0 0 _ _ (ln s1)).
      * destruct (peek TRightBrace s1); cbn [negb]; [fin|].
        eapply okD_bind; [apply (struct_field_ok olc pe L Hp); fin|]. intros f s2 H2.
        eapply okD_mono; [apply (sep_loop_ok (struct_field olc pe) TRightBrace L); [intros s' Hs'; apply (struct_field_ok olc pe L Hp); lia|fin|fin]|lia|fin].
      * intros fields s2 H2. apply okD_expect. intros s3 H3. fin.
  - (* unsigned number, range *)
    destruct (next_matches TDoubleDot s) as [s1|] eqn:E1; [|fin]. apply next_matches_len in E1.
    destruct (toks s1) as [|[t2 m2] r] eqn:E2; [exact I|]. destruct t2; try exact I.
    destruct (range_type t t0); [fin|exact I].
  - fin.
  - (* ( *)
    destruct (peek TRightParen s); cbn [negb].
    + apply okD_expect. intros s1 H1. fin.
    + eapply okD_bind; [apply Hp; fin|]. intros e s1 H1.
      destruct (peek TComma s1).
      * eapply okD_bind; [apply (comma_loop_ok pe TRightParen L Hp); fin|]. intros fields s2 H2.
        apply okD_expect. intros s3 H3. fin.
      * apply okD_expect. intros s2 H2. fin.
  - (* [ *)
    eapply okD_bind; [apply Hp; fin|]. intros elem s1 H1.
    destruct (peek TSemicolon s1).
    + apply okD_expect. intros s2 H2.
      destruct (toks s2) as [|[t2 m2] r] eqn:E2; [exact I|]. destruct t2; try exact I.
      * destruct olc; [exact I|]. apply okD_expect. intros s3 H3. fin.
      * destruct t; try exact I; apply okD_expect; intros s3 H3; fin.
    + eapply okD_bind; [apply (comma_loop_ok pe TRightBracket L Hp); fin|]. intros elems s2 H2.
      apply okD_expect. intros s3 H3. fin.
Qed.

(* ------------------------------------------------------------------ one nesting level of parse_expr *)

Section Level.
  Variable pe : pstate -> pres uexpr.
  Variable L : nat.
  Hypothesis Hpe : pe_ok pe L.

  Lemma postfix_loop_ok : forall n x s, ln s <= L -> ln s + 1 <= n -> okD 0 (postfix_loop pe n x s) (ln s).
  Proof.
    induction n as [|n IH]; intros x s HL Hn; [lia|]. cbn [postfix_loop].
    destruct (peek TLeftBracket s || peek TDot s); [|fin].
    destruct (next_matches TLeftBracket s) as [s1|] eqn:E1.
    - apply next_matches_len in E1. eapply okD_bind; [apply Hpe; fin|]. intros index s2 H2. cbv zeta.
      apply okD_expect. intros s3 H3. eapply okD_mono; [apply IH; fin|lia|fin].
    - destruct (next_matches TDot s) as [s1|] eqn:E2; [|fin]. apply next_matches_len in E2.
      destruct (toks s1) as [|[t m] r] eqn:E3; [exact I|]. destruct t; try exact I.
      + eapply okD_mono; [apply IH; fin|lia|fin].
      + destruct t; try exact I. eapply okD_mono; [apply IH; fin|lia|fin].
  Qed.

  Lemma parse_literal_ok n t s : ln s < L -> ln s + 1 <= n -> okD 0 (parse_literal pe n t s) (ln s).
  Proof. intros. unfold parse_literal. now apply (parse_literal_gen_ok false pe L Hpe). Qed.

  Lemma parse_primary_base_ok n s : ln s <= L -> ln s + 1 <= n -> okD 1 (parse_primary_base pe n s) (ln s).
  Proof.
    intros HL Hn. unfold parse_primary_base. destruct (advance s) as [[t s1]|] eqn:E; [|exact I].
    apply advance_len in E.
    assert (Hlit : okD 1 (parse_literal pe n t s1) (ln s)).
    { eapply okD_le; [apply parse_literal_ok; fin|lia]. }
    destruct t; try exact Hlit.
    ifs; try exact Hlit.
    destruct (next_matches TLeftParen s1) as [s2|] eqn:E2.
    - apply next_matches_len in E2.
      eapply (okD_bind 0 1 _ _ (ln s2)).
      + destruct (peek TRightParen s2); cbn [negb]; [fin|].
        eapply okD_bind; [apply Hpe; fin|]. intros a s3 H3.
        eapply okD_mono; [apply (comma_loop_ok pe TRightParen L Hpe); fin|lia|fin].
      + intros args s3 H3. apply okD_expect. intros s4 H4. fin.
    - ifs; [exact Hlit|fin].
  Qed.

  Lemma parse_primary_ok n s : ln s <= L -> ln s + 1 <= n -> okD 1 (parse_primary pe n s) (ln s).
  Proof.
    intros HL Hn. unfold parse_primary. eapply okD_bind; [now apply parse_primary_base_ok|]. intros x s1 H1.
    eapply okD_le; [apply postfix_loop_ok; fin|lia].
  Qed.

  Lemma parse_unary_ok : forall n s, ln s <= L -> ln s + 2 <= n -> okD 1 (parse_unary pe n s) (ln s).
  Proof.
    induction n as [|n IH]; intros s HL Hn; [lia|]. cbn [parse_unary].
    destruct (next_matches TBang s) as [s1|] eqn:E1.
    - apply next_matches_len in E1. eapply okD_bind; [apply IH; fin|]. intros u s2 H2. fin.
    - destruct (next_matches TMinus s) as [s1|] eqn:E2.
      + apply next_matches_len in E2. eapply okD_bind; [apply IH; fin|]. intros u s2 H2. fin.
      + apply parse_primary_ok; lia.
  Qed.

  Lemma okD_opt_type {A} d n s (k : option utype -> pstate -> pres A) L' : ln s <= L -> ln s + 1 <= n ->
    (forall ty s1, ln s1 <= ln s -> okD d (k ty s1) L') -> okD d (opt_type pe n s k) L'.
  Proof.
    intros HL Hn Hk. unfold opt_type. destruct (next_matches TColon s) as [s1|] eqn:E; [|apply Hk; lia].
    apply next_matches_len in E. eapply okD_bind; [apply (parse_type_ok pe L Hpe); fin|]. intros ty s2 H2.
    apply Hk. lia.
  Qed.

  Lemma okD_opt_semicolon {A} d s (k : pstate -> pres A) L' :
    (forall s1, ln s1 <= ln s -> okD d (k s1) L') -> okD d (opt_semicolon s k) L'.
  Proof.
    intro Hk. unfold opt_semicolon. destruct (negb (peek TRightBrace s) && negb (peek TComma s)); [|apply Hk; lia].
    apply okD_expect. intros s1 H1. apply Hk. lia.
  Qed.

  (* a statement consumes at least one token *)
  Lemma parse_stmt_ok n s : ln s < L -> ln s + 1 <= n -> okD 1 (parse_stmt pe n s) (ln s).
  Proof.
    intros HL Hn. unfold parse_stmt.
    destruct (next_matches TKeywordLet s) as [s1|] eqn:E1.
    - apply next_matches_len in E1. destruct (next_matches TKeywordMut s1) as [s2|] eqn:E2.
      + apply next_matches_len in E2. apply okD_expect_id. intros identifier s3 H3.
        apply okD_opt_type; [fin|fin|]. intros ty s4 H4. apply okD_expect. intros s5 H5.
        eapply okD_bind; [apply Hpe; fin|]. intros binding s6 H6. apply okD_expect. intros s7 H7. fin.
      + eapply okD_bind; [apply parse_pattern_ok; fin|]. intros pattern s3 H3.
        apply okD_opt_type; [fin|fin|]. intros ty s4 H4. apply okD_expect. intros s5 H5.
        eapply okD_bind; [apply Hpe; fin|]. intros binding s6 H6. apply okD_expect. intros s7 H7. fin.
    - destruct (next_matches TKeywordFor s) as [s1|] eqn:E2.
      + apply next_matches_len in E2. eapply okD_bind; [apply parse_pattern_ok; fin|]. intros pattern s2 H2.
        apply okD_expect. intros s3 H3. cbv zeta.
        eapply okD_bind; [apply Hpe; fin|]. intros binding s4 H4. cbn [set_sla toks] in H4.
        destruct (peek TLeftBrace (set_sla (sla s3) s4)); [|exact I].
        eapply okD_bind; [apply Hpe; fin|]. intros blk s6 H6. cbn [set_sla toks] in H6.
        destruct blk; try exact I. fin.
      + cbv zeta. eapply okD_bind; [apply Hpe; fin|]. intros e s1 H1.
        destruct (accessors e) as [[identifier accs]|].
        * destruct (next_matches TEq s1) as [s2|] eqn:E3.
          -- apply next_matches_len in E3. eapply okD_bind; [apply Hpe; fin|]. intros value s3 H3.
             apply okD_opt_semicolon. intros s4 H4. fin.
          -- destruct (toks s1) as [|[next m] r] eqn:E4.
             ++ apply okD_opt_semicolon. intros s2 H2. rewrite E4 in H2. fin.
             ++ destruct (assign_op next).
                ** eapply okD_bind; [apply Hpe; fin|]. intros value s3 H3.
                   apply okD_opt_semicolon. intros s4 H4. fin.
                ** apply okD_opt_semicolon. intros s2 H2. rewrite E4 in H2. fin.
        * ifs; [apply okD_expect; intros s2 H2; fin|fin].
  Qed.

  Lemma stmts_loop_ok : forall n acc s, ln s < L -> ln s + 2 <= n -> okD 0 (stmts_loop pe n acc s) (ln s).
  Proof.
    induction n as [|n IH]; intros acc s HL Hn; [lia|]. cbn [stmts_loop].
    destruct (block_ends s); [fin|].
    eapply okD_bind; [apply parse_stmt_ok; fin|]. intros stmt s1 H1.
    eapply okD_le; [apply IH; fin|lia].
  Qed.

  Lemma parse_stmts_ok n s : ln s < L -> ln s + 2 <= n -> okD 0 (parse_stmts pe n s) (ln s).
  Proof.
    intros HL Hn. unfold parse_stmts, parse_stmts_of_block. cbv zeta.
    eapply okD_bind; [apply (stmts_loop_ok n [] (set_sla true s)); cbn [set_sla toks]; lia|].
    intros stmts s1 H1. cbn [set_sla toks] in *. fin.
  Qed.

  Lemma parse_block_as_expr_ok n s : ln s < L -> ln s + 2 <= n -> okD 0 (parse_block_as_expr pe n s) (ln s).
  Proof.
    intros HL Hn. unfold parse_block_as_expr. eapply okD_bind; [now apply parse_stmts_ok|].
    intros stmts s1 H1. destruct stmts as [|[] [|]]; fin.
  Qed.

  Lemma parse_match_clause_ok n s : ln s < L -> ln s + 1 <= n -> okD 1 (parse_match_clause pe n s) (ln s).
  Proof.
    intros HL Hn. unfold parse_match_clause. eapply okD_bind; [apply parse_pattern_ok; fin|]. intros pattern s1 H1.
    apply okD_expect. intros s2 H2. eapply okD_bind; [apply parse_stmt_ok; fin|]. intros stmt s3 H3. fin.
  Qed.

  Lemma match_loop_ok : forall n ewb acc s, ln s < L -> ln s + 2 <= n -> okD 0 (match_loop pe n ewb acc s) (ln s).
  Proof.
    induction n as [|n IH]; intros ewb acc s HL Hn; [lia|]. cbn [match_loop].
    assert (Hgo : forall s1, ln s1 <= ln s ->
      okD 0 (if peek TRightBrace s1 || (match toks s1 with [] => true | _ => false end) then POk (rev acc) s1
             else bindp (parse_match_clause pe n s1) (fun ce s2 => match_loop pe n (snd ce) (fst ce :: acc) s2)) (ln s)).
    { intros s1 H1. destruct (peek TRightBrace s1 || _); [fin|].
      eapply okD_bind; [apply parse_match_clause_ok; fin|]. intros ce s2 H2.
      eapply okD_le; [apply IH; fin|lia]. }
    destruct (next_matches TComma s) as [s1|] eqn:E.
    - apply next_matches_len in E. apply Hgo. lia.
    - destruct ewb; [apply Hgo; lia|fin].
  Qed.

  Lemma parse_if_or_match_ok : forall n s, ln s <= L -> ln s + 3 <= n -> okD 1 (parse_if_or_match pe n s) (ln s).
  Proof.
    induction n as [|n IH]; intros s HL Hn; [lia|]. cbn [parse_if_or_match].
    destruct (next_matches TKeywordIf s) as [s1|] eqn:E1.
    - apply next_matches_len in E1. cbv zeta.
      eapply okD_bind; [apply Hpe; fin|]. intros cond_expr s2 H2. cbn [set_sla toks] in H2.
      apply okD_expect. intros s4 H4. cbn [set_sla toks] in H4.
      eapply okD_bind; [apply parse_block_as_expr_ok; fin|]. intros then_expr s5 H5.
      apply okD_expect. intros s6 H6.
      destruct (next_matches TKeywordElse s6) as [s7|] eqn:E7; [|fin]. apply next_matches_len in E7.
      destruct (peek TKeywordIf s7).
      + eapply okD_bind; [apply IH; fin|]. intros elseif_expr s8 H8. fin.
      + apply okD_expect. intros s8 H8.
        eapply okD_bind; [apply parse_block_as_expr_ok; fin|]. intros else_expr s9 H9.
        apply okD_expect. intros s10 H10. fin.
    - destruct (next_matches TKeywordMatch s) as [s1|] eqn:E2.
      + apply next_matches_len in E2. cbv zeta.
        eapply okD_bind; [apply Hpe; fin|]. intros match_expr s2 H2. cbn [set_sla toks] in H2.
        apply okD_expect. intros s4 H4. cbn [set_sla toks] in H4.
        eapply okD_bind; [apply parse_match_clause_ok; fin|]. intros ce s5 H5.
        eapply okD_bind; [apply match_loop_ok; fin|]. intros clauses s6 H6.
        apply okD_expect. intros s7 H7. fin.
      + apply parse_unary_ok; lia.
  Qed.

  Lemma cast_loop_ok : forall n x s, ln s <= L -> ln s + 1 <= n -> okD 0 (cast_loop pe n x s) (ln s).
  Proof.
    induction n as [|n IH]; intros x s HL Hn; [lia|]. cbn [cast_loop].
    destruct (next_matches TKeywordAs s) as [s1|] eqn:E; [|fin]. apply next_matches_len in E.
    eapply okD_bind; [apply (parse_type_ok pe L Hpe); fin|]. intros ty s2 H2.
    eapply okD_le; [apply IH; fin|lia].
  Qed.

  (* the levels of the precedence chain: with fuel >= tokens + 3 *)
  Definition level_ok (f : nat -> pstate -> pres uexpr) : Prop :=
    forall n s, ln s <= L -> ln s + 3 <= n -> okD 1 (f n s) (ln s).

  Lemma parse_cast_ok : level_ok (parse_cast pe).
  Proof.
    intros n s HL Hn. unfold parse_cast. eapply okD_bind; [now apply parse_if_or_match_ok|]. intros x s1 H1.
    eapply okD_le; [apply cast_loop_ok; fin|lia].
  Qed.

  Lemma binloop_ok ops sub : level_ok sub ->
    forall n x s, ln s <= L -> ln s + 3 <= n -> okD 0 (binloop ops sub n x s) (ln s).
  Proof.
    intro Hsub. induction n as [|n IH]; intros x s HL Hn; [lia|]. cbn [binloop].
    destruct (next_op ops s) as [[mk s1]|] eqn:E; [|fin]. apply next_op_len in E.
    eapply okD_bind; [apply Hsub; fin|]. intros y s2 H2. eapply okD_le; [apply IH; fin|lia].
  Qed.

  Lemma binlevel_ok ops sub : level_ok sub -> level_ok (binlevel ops sub).
  Proof.
    intros Hsub n s HL Hn. unfold binlevel. eapply okD_bind; [now apply Hsub|]. intros x s1 H1.
    eapply okD_le; [apply (binloop_ok ops sub Hsub); fin|lia].
  Qed.

  Lemma parse_short_circuiting_or_ok : level_ok (parse_short_circuiting_or pe).
  Proof.
    unfold parse_short_circuiting_or, parse_short_circuiting_and, parse_equality, parse_comparison, parse_or,
      parse_xor, parse_and, parse_shift, parse_term, parse_factor.
    repeat apply binlevel_ok. apply parse_cast_ok.
  Qed.

  Lemma parse_expr_body_ok n s : ln s <= L -> ln s + 3 <= n -> okD 1 (parse_expr_body pe n s) (ln s).
  Proof.
    intros HL Hn. unfold parse_expr_body. destruct (next_matches TLeftBrace s) as [s1|] eqn:E.
    - apply next_matches_len in E. eapply okD_bind; [apply parse_stmts_ok; fin|]. intros stmts s2 H2.
      apply okD_expect. intros s3 H3. fin.
    - now apply parse_short_circuiting_or_ok.
  Qed.
End Level.

(* ------------------------------------------------------------------ parse_expr *)

Theorem parse_expr_st_ok : forall g s, ln s + 4 <= g -> okD 1 (parse_expr_st g s) (ln s).
Proof.
  induction g as [|g IH]; intros s H; [lia|]. cbn [parse_expr_st].
  apply (parse_expr_body_ok (parse_expr_st g) (ln s)); [|lia|lia].
  intros s' Hs'. apply IH. lia.
Qed.

Lemma pe_ok_fuel fuel M : M + 3 <= fuel -> pe_ok (parse_expr_st fuel) M.
Proof. intros H s Hs. apply parse_expr_st_ok. lia. Qed.

Lemma okD_not_nofuel {A} d (r : pres A) L : okD d r L -> r <> PNoFuel.
Proof. destruct r; cbn [okD]; intros H E; try discriminate E. exact H. Qed.

(* ------------------------------------------------------------------ T1 / T2: enough fuel *)

Theorem parse_expr_st_total fuel ts b : length ts + 4 <= fuel -> parse_expr_st fuel (PState ts b) <> PNoFuel.
Proof. intro H. eapply okD_not_nofuel. apply (parse_expr_st_ok fuel (PState ts b)). exact H. Qed.

Theorem parse_block_text_total fuel ts : length ts + 5 <= fuel -> parse_block_text fuel ts <> PNoFuel.
Proof.
  intro H. unfold parse_block_text. cbv zeta. eapply (okD_not_nofuel 0 _ (S (length ts))).
  eapply okD_bind.
  - apply (parse_stmts_ok (parse_expr_st fuel) (length ts + 2)); [apply pe_ok_fuel; lia| |];
      cbn [toks]; rewrite app_length; cbn [length]; lia.
  - intros stmts s Hs. cbn [toks] in Hs. rewrite app_length in Hs. cbn [length] in Hs.
    apply okD_expect. intros s1 H1. destruct (toks s1) eqn:E; [|exact I]. cbn [okD]. rewrite E. cbn [length]. lia.
Qed.

Lemma parse_literal_recursively_ok : forall n s, ln s + 1 <= n -> okD 1 (parse_literal_recursively n s) (ln s).
Proof.
  induction n as [|n IH]; intros s Hn; [lia|]. cbn [parse_literal_recursively].
  destruct (advance s) as [[t s1]|] eqn:E; [|exact I]. apply advance_len in E.
  eapply okD_le; [apply (parse_literal_gen_ok true (parse_literal_recursively n) (ln s))|]; try lia.
  intros s' Hs'. apply IH. lia.
Qed.

Theorem parse_literal_text_total fuel ts : length ts + 1 <= fuel -> parse_literal_text fuel ts <> PNoFuel.
Proof.
  intro H. unfold parse_literal_text. destruct (advance (PState ts true)) as [[t s1]|] eqn:E; [|discriminate].
  apply advance_len in E. cbn [toks] in E. eapply (okD_not_nofuel 0 _ (length ts)).
  eapply okD_bind.
  - apply (parse_literal_gen_ok true (parse_literal_recursively fuel) (length ts)); try lia.
    intros s' Hs'. apply parse_literal_recursively_ok. lia.
  - intros e s2 H2. destruct (toks s2) eqn:E2; [|exact I]. cbn [okD]. rewrite E2. cbn [length]. lia.
Qed.

(* ------------------------------------------------------------------ whole programs *)

Section Items.
  Variables fuel N : nat.
  Hypothesis Hf : N + 4 <= fuel.

  Let Hpe : pe_ok (parse_expr_st fuel) (S N).
  Proof. apply pe_ok_fuel. lia. Qed.

  Lemma ty_ok s : ln s <= N -> okD 1 (parse_type (parse_expr_st fuel) fuel s) (ln s).
  Proof. intro H. apply (parse_type_ok _ (S N) Hpe); lia. Qed.

  Lemma parse_const_def_ok s : ln s <= N -> okD 1 (parse_const_def fuel s) (ln s).
  Proof.
    intro HL. unfold parse_const_def. apply okD_expect_id. intros identifier s1 H1.
    apply okD_expect. intros s2 H2. eapply okD_bind; [apply ty_ok; lia|]. intros ty s3 H3.
    apply okD_expect. intros s4 H4. eapply okD_bind; [apply Hpe; lia|]. intros e s5 H5.
    destruct (const_of_expr e); [|exact I]. apply okD_expect. intros s6 H6. fin.
  Qed.

  Lemma parse_field_def_ok s : ln s <= N -> okD 1 (parse_field_def fuel s) (ln s).
  Proof.
    intro HL. unfold parse_field_def. apply okD_expect_id. intros name s1 H1.
    apply okD_expect. intros s2 H2. eapply okD_bind; [apply ty_ok; lia|]. intros ty s3 H3. fin.
  Qed.

  Lemma parse_struct_def_ok s : ln s <= N -> okD 1 (parse_struct_def fuel s) (ln s).
  Proof.
    intro HL. unfold parse_struct_def. apply okD_expect_id. intros identifier s1 H1.
    apply okD_expect. intros s2 H2.
    eapply (okD_bind 0 1 _ _ (ln s2)).
    - destruct (peek TRightBrace s2); cbn [negb]; [fin|].
      eapply okD_bind; [apply parse_field_def_ok; lia|]. intros f s3 H3.
      eapply okD_le; [apply (sep_loop_ok (parse_field_def fuel) TRightBrace (S N)); [intros s' Hs'; apply parse_field_def_ok; lia|lia|lia]|lia].
    - intros fields s3 H3. apply okD_expect. intros s4 H4. fin.
  Qed.

  Lemma parse_variant_ok s : ln s <= N -> okD 1 (parse_variant fuel s) (ln s).
  Proof.
    intro HL. unfold parse_variant. apply okD_expect_id. intros variant_name s1 H1.
    destruct (next_matches TLeftParen s1) as [s2|] eqn:E; [|fin]. apply next_matches_len in E.
    eapply (okD_bind 0 1 _ _ (ln s2)).
    - destruct (toks s2) as [|[t m] r] eqn:E2.
      + cbn [okD]. rewrite E2. cbn [length]. lia.
      + destruct t; try (cbn [okD]; rewrite E2; cbn [length]; lia).
        eapply okD_bind; [apply ty_ok; rewrite E2; fin|]. intros ty s3 H3. rewrite E2 in H3. fin.
    - intros first s3 H3.
      eapply okD_bind; [apply (sep_loop_ok (parse_type (parse_expr_st fuel) fuel) TRightParen (S N)); [intros s' Hs'; apply ty_ok; lia|lia|lia]|].
      intros fields s4 H4. apply okD_expect. intros s5 H5. fin.
  Qed.

  Lemma parse_enum_def_ok s : ln s <= N -> okD 1 (parse_enum_def fuel s) (ln s).
  Proof.
    intro HL. unfold parse_enum_def. apply okD_expect_id. intros identifier s1 H1.
    apply okD_expect. intros s2 H2. eapply okD_bind; [apply parse_variant_ok; lia|]. intros v s3 H3.
    eapply okD_bind; [apply (sep_loop_ok (parse_variant fuel) TRightBrace (S N)); [intros s' Hs'; apply parse_variant_ok; lia|lia|lia]|].
    intros variants s4 H4. apply okD_expect. intros s5 H5. fin.
  Qed.

  Lemma parse_param_ok s : ln s <= N -> okD 1 (parse_param fuel s) (ln s).
  Proof.
    intro HL. unfold parse_param.
    destruct (next_matches TKeywordMut s) as [s1|] eqn:E.
    - apply next_matches_len in E. apply okD_expect_id. intros name s2 H2. apply okD_expect. intros s3 H3.
      eapply okD_bind; [apply ty_ok; lia|]. intros ty s4 H4. fin.
    - apply okD_expect_id. intros name s2 H2. apply okD_expect. intros s3 H3.
      eapply okD_bind; [apply ty_ok; lia|]. intros ty s4 H4. fin.
  Qed.

  Lemma parse_fn_def_ok is_pub s : ln s <= N -> okD 1 (parse_fn_def fuel is_pub s) (ln s).
  Proof.
    intro HL. unfold parse_fn_def. apply okD_expect_id. intros identifier s1 H1.
    apply okD_expect. intros s2 H2.
    eapply (okD_bind 0 1 _ _ (ln s2)).
    - destruct (peek TRightParen s2); cbn [negb]; [fin|]. unfold parse_params.
      eapply okD_bind; [apply parse_param_ok; lia|]. intros p s3 H3.
      eapply okD_le; [apply (sep_loop_ok (parse_param fuel) TRightParen (S N)); [intros s' Hs'; apply parse_param_ok; lia|lia|lia]|lia].
    - intros params s3 H3. apply okD_expect. intros s4 H4. apply okD_expect. intros s5 H5.
      eapply okD_bind; [apply ty_ok; lia|]. intros ty s6 H6. apply okD_expect. intros s7 H7.
      eapply okD_bind; [apply (parse_stmts_ok _ (S N) Hpe); lia|]. intros body s8 H8.
      apply okD_expect. intros s9 H9. fin.
  Qed.

  Lemma items_loop_ok : forall n is_pub prog s, ln s <= N -> ln s + 1 <= n ->
    okD 0 (items_loop fuel n is_pub prog s) (ln s).
  Proof.
    induction n as [|n IH]; intros is_pub prog s HL Hn; [lia|]. cbn [items_loop].
    destruct (advance s) as [[t s1]|] eqn:E; [|fin]. apply advance_len in E.
    destruct t; try exact I.
    - eapply okD_bind; [apply parse_const_def_ok; lia|]. intros d s2 H2. eapply okD_le; [apply IH; lia|lia].
    - eapply okD_bind; [apply parse_struct_def_ok; lia|]. intros d s2 H2. eapply okD_le; [apply IH; lia|lia].
    - eapply okD_bind; [apply parse_enum_def_ok; lia|]. intros d s2 H2. eapply okD_le; [apply IH; lia|lia].
    - eapply okD_bind; [apply parse_fn_def_ok; lia|]. intros d s2 H2. eapply okD_le; [apply IH; lia|lia].
    - destruct is_pub; [exact I|]. eapply okD_le; [apply IH; lia|lia].
  Qed.
End Items.

(* T1 *)
Theorem parse_program_text_total fuel ts : length ts + 4 <= fuel -> parse_program_text fuel ts <> PNoFuel.
Proof.
  intro H. unfold parse_program_text. eapply (okD_not_nofuel 0 _ (length ts)).
  apply (items_loop_ok fuel (length ts) H fuel false _ (PState ts true)); cbn [toks]; lia.
Qed.

(* the bound of the OCaml driver *)
Corollary parse_program_text_driver ts : parse_program_text (80 + 40 * length ts) ts <> PNoFuel.
Proof. apply parse_program_text_total. lia. Qed.
Corollary parse_block_text_driver ts : parse_block_text (80 + 40 * length ts) ts <> PNoFuel.
Proof. apply parse_block_text_total. lia. Qed.
Corollary parse_literal_text_driver ts : parse_literal_text (80 + 40 * length ts) ts <> PNoFuel.
Proof. apply parse_literal_text_total. lia. Qed.
Corollary parse_expr_st_default ts b : parse_expr_st (fuel_for_tokens ts + 2) (PState ts b) <> PNoFuel.
Proof. apply parse_expr_st_total. unfold fuel_for_tokens. lia. Qed.

Print Assumptions parse_program_text_total.
Print Assumptions parse_block_text_total.
Print Assumptions parse_literal_text_total.
Print Assumptions parse_expr_st_total.

(* ------------------------------------------------------------------ T3: a result that is not
   [PNoFuel] does not depend on the fuel *)

Definition le_r {A} (r r' : pres A) : Prop := r <> PNoFuel -> r' = r.
Definition le_f {A} (f f' : pstate -> pres A) : Prop := forall s, le_r (f s) (f' s).

Lemma le_refl {A} (r : pres A) : le_r r r.
Proof. intros _. reflexivity. Qed.

Lemma le_nofuel {A} (r : pres A) : le_r PNoFuel r.
Proof. intro H. congruence. Qed.

Lemma le_bind {A B} (m m' : pres A) (k k' : A -> pstate -> pres B) :
  le_r m m' -> (forall a s, le_r (k a s) (k' a s)) -> le_r (bindp m k) (bindp m' k').
Proof.
  intros Hm Hk H. destruct m as [a s| | |o]; cbn [bindp] in *; try (rewrite Hm by discriminate; reflexivity).
  - rewrite Hm by discriminate. cbn [bindp]. now apply Hk.
  - congruence.
Qed.

Lemma le_expect {A} t s (k k' : pstate -> pres A) : (forall s1, le_r (k s1) (k' s1)) -> le_r (expect t s k) (expect t s k').
Proof. intro H. unfold expect. destruct (next_matches t s); [apply H|apply le_refl]. Qed.

Lemma le_expect_id {A} s (k k' : list N -> pstate -> pres A) :
  (forall id s1, le_r (k id s1) (k' id s1)) -> le_r (expect_identifier s k) (expect_identifier s k').
Proof.
  intro H. unfold expect_identifier. destruct (toks s) as [|[t m] r]; [apply le_refl|].
  destruct t; try apply le_refl. apply H.
Qed.

Lemma le_opt_semicolon {A} s (k k' : pstate -> pres A) :
  (forall s1, le_r (k s1) (k' s1)) -> le_r (opt_semicolon s k) (opt_semicolon s k').
Proof. intro H. unfold opt_semicolon. destruct (_ && _); [now apply le_expect|apply H]. Qed.

Create HintDb mono.
#[local] Hint Resolve le_refl le_nofuel : mono.

Ltac mono_step :=
  match goal with
  | |- le_r ?r ?r => apply le_refl
  | |- le_r PNoFuel _ => apply le_nofuel
  | |- le_r (bindp _ _) (bindp _ _) => apply le_bind; [|intros ? ?]
  | |- le_r (expect _ _ _) (expect _ _ _) => apply le_expect; intros ?
  | |- le_r (expect_identifier _ _) (expect_identifier _ _) => apply le_expect_id; intros ? ?
  | |- le_r (opt_semicolon _ _) (opt_semicolon _ _) => apply le_opt_semicolon; intros ?
  | |- le_r (match ?x with _ => _ end) (match ?x with _ => _ end) => destruct x
  | |- _ => solve [eauto with mono]
  end.
Ltac mono := cbv zeta; repeat mono_step.

(* a fuelled function is monotone *)
Definition mono_n {A} (F F' : nat -> pstate -> pres A) : Prop :=
  forall n n' s, n <= n' -> le_r (F n s) (F' n' s).

Lemma strict_comma_loop_mono {A} (item item' : pstate -> pres A) : le_f item item' ->
  forall n n' acc s, n <= n' -> le_r (strict_comma_loop item n acc s) (strict_comma_loop item' n' acc s).
Proof.
  intro Hi. induction n as [|n IH]; intros n' acc s Hle; [apply le_nofuel|]. destruct n' as [|n']; [lia|].
  assert (n <= n') by lia. cbn [strict_comma_loop]. mono; try apply Hi.
Qed.

Lemma sep_loop_mono {A} (item item' : pstate -> pres A) close : le_f item item' ->
  forall n n' acc s, n <= n' -> le_r (sep_loop item close n acc s) (sep_loop item' close n' acc s).
Proof.
  intro Hi. induction n as [|n IH]; intros n' acc s Hle; [apply le_nofuel|]. destruct n' as [|n']; [lia|].
  assert (n <= n') by lia. cbn [sep_loop]. mono; try apply Hi.
Qed.

Lemma comma_loop_mono pe pe' close : le_f pe pe' ->
  forall n n' acc s, n <= n' -> le_r (comma_loop pe close n acc s) (comma_loop pe' close n' acc s).
Proof.
  intro Hi. induction n as [|n IH]; intros n' acc s Hle; [apply le_nofuel|]. destruct n' as [|n']; [lia|].
  assert (n <= n') by lia. cbn [comma_loop]. mono; try apply Hi.
Qed.
#[local] Hint Resolve strict_comma_loop_mono sep_loop_mono comma_loop_mono : mono.

Lemma parse_type_mono pe pe' : le_f pe pe' -> forall n n' s, n <= n' -> le_r (parse_type pe n s) (parse_type pe' n' s).
Proof.
  intro Hp. induction n as [|n IH]; intros n' s Hle; [apply le_nofuel|]. destruct n' as [|n']; [lia|].
  assert (Hn : n <= n') by lia. cbn [parse_type].
  assert (Hit : le_f (parse_type pe n) (parse_type pe' n')) by (intro s0; now apply IH).
  mono; try apply Hp.
Qed.
#[local] Hint Resolve parse_type_mono : mono.

Lemma pattern_field_mono pp pp' : le_f pp pp' -> forall s, le_r (pattern_field pp s) (pattern_field pp' s).
Proof. intros Hp s. unfold pattern_field. mono; try apply Hp. Qed.
#[local] Hint Resolve pattern_field_mono : mono.

Lemma field_loop_mono pp pp' : le_f pp pp' ->
  forall n n' acc s, n <= n' -> le_r (field_loop pp n acc s) (field_loop pp' n' acc s).
Proof.
  intro Hp. induction n as [|n IH]; intros n' acc s Hle; [apply le_nofuel|]. destruct n' as [|n']; [lia|].
  assert (n <= n') by lia. cbn [field_loop]. mono.
Qed.

Lemma pattern_fields_mono pp pp' : le_f pp pp' ->
  forall n n' s, n <= n' -> le_r (pattern_fields pp n s) (pattern_fields pp' n' s).
Proof. intros Hp n n' s Hle. unfold pattern_fields. mono; try apply Hp. Qed.
#[local] Hint Resolve field_loop_mono pattern_fields_mono : mono.

Lemma parse_pattern_mono : forall n n' s, n <= n' -> le_r (parse_pattern n s) (parse_pattern n' s).
Proof.
  induction n as [|n IH]; intros n' s Hle; [apply le_nofuel|]. destruct n' as [|n']; [lia|].
  assert (Hn : n <= n') by lia. cbn [parse_pattern].
  assert (Hit : le_f (parse_pattern n) (parse_pattern n')) by (intro s0; now apply IH).
  mono.
Qed.
#[local] Hint Resolve parse_pattern_mono : mono.

Lemma struct_field_mono olc pe pe' : le_f pe pe' -> forall s, le_r (struct_field olc pe s) (struct_field olc pe' s).
Proof. intros Hp s. unfold struct_field. mono; try apply Hp. Qed.
#[local] Hint Resolve struct_field_mono : mono.

Lemma parse_literal_gen_mono olc pe pe' : le_f pe pe' ->
  forall n n' t s, n <= n' -> le_r (parse_literal_gen olc pe n t s) (parse_literal_gen olc pe' n' t s).
Proof.
  intros Hp n n' t s Hle. unfold parse_literal_gen.
  assert (Hsf : le_f (struct_field olc pe) (struct_field olc pe')) by (intro s0; now apply struct_field_mono).
  mono; try apply Hp.
Qed.
#[local] Hint Resolve parse_literal_gen_mono : mono.

Section LevelMono.
  Variables pe pe' : pstate -> pres uexpr.
  Hypothesis Hp : le_f pe pe'.

  Lemma postfix_loop_mono : forall n n' x s, n <= n' -> le_r (postfix_loop pe n x s) (postfix_loop pe' n' x s).
  Proof.
    induction n as [|n IH]; intros n' x s Hle; [apply le_nofuel|]. destruct n' as [|n']; [lia|].
    assert (n <= n') by lia. cbn [postfix_loop]. mono; try apply Hp.
  Qed.

  Lemma parse_primary_base_mono n n' s : n <= n' -> le_r (parse_primary_base pe n s) (parse_primary_base pe' n' s).
  Proof. intro Hle. unfold parse_primary_base, parse_literal. mono; try apply Hp. Qed.

  Hint Resolve postfix_loop_mono parse_primary_base_mono : mono.

  Lemma parse_primary_mono n n' s : n <= n' -> le_r (parse_primary pe n s) (parse_primary pe' n' s).
  Proof. intro Hle. unfold parse_primary. mono. Qed.
  Hint Resolve parse_primary_mono : mono.

  Lemma parse_unary_mono : forall n n' s, n <= n' -> le_r (parse_unary pe n s) (parse_unary pe' n' s).
  Proof.
    induction n as [|n IH]; intros n' s Hle; [apply le_nofuel|]. destruct n' as [|n']; [lia|].
    assert (n <= n') by lia. cbn [parse_unary]. mono.
  Qed.
  Hint Resolve parse_unary_mono : mono.

  Lemma le_opt_type {A} n n' s (k k' : option utype -> pstate -> pres A) : n <= n' ->
    (forall ty s1, le_r (k ty s1) (k' ty s1)) -> le_r (opt_type pe n s k) (opt_type pe' n' s k').
  Proof. intros Hle Hk. unfold opt_type. mono. Qed.

  Lemma parse_stmt_mono n n' s : n <= n' -> le_r (parse_stmt pe n s) (parse_stmt pe' n' s).
  Proof.
    intro Hle. unfold parse_stmt. mono; try apply Hp;
      try (apply le_opt_type; [exact Hle|intros ? ?]; mono; try apply Hp).
  Qed.
  Hint Resolve parse_stmt_mono : mono.

  Lemma stmts_loop_mono : forall n n' acc s, n <= n' -> le_r (stmts_loop pe n acc s) (stmts_loop pe' n' acc s).
  Proof.
    induction n as [|n IH]; intros n' acc s Hle; [apply le_nofuel|]. destruct n' as [|n']; [lia|].
    assert (n <= n') by lia. cbn [stmts_loop]. mono.
  Qed.
  Hint Resolve stmts_loop_mono : mono.

  Lemma parse_stmts_mono n n' s : n <= n' -> le_r (parse_stmts pe n s) (parse_stmts pe' n' s).
  Proof. intro Hle. unfold parse_stmts, parse_stmts_of_block. mono. Qed.
  Hint Resolve parse_stmts_mono : mono.

  Lemma parse_block_as_expr_mono n n' s : n <= n' -> le_r (parse_block_as_expr pe n s) (parse_block_as_expr pe' n' s).
  Proof. intro Hle. unfold parse_block_as_expr. mono. Qed.

  Lemma parse_match_clause_mono n n' s : n <= n' -> le_r (parse_match_clause pe n s) (parse_match_clause pe' n' s).
  Proof. intro Hle. unfold parse_match_clause. mono. Qed.
  Hint Resolve parse_block_as_expr_mono parse_match_clause_mono : mono.

  Lemma match_loop_mono : forall n n' ewb acc s, n <= n' -> le_r (match_loop pe n ewb acc s) (match_loop pe' n' ewb acc s).
  Proof.
    induction n as [|n IH]; intros n' ewb acc s Hle; [apply le_nofuel|]. destruct n' as [|n']; [lia|].
    assert (n <= n') by lia. cbn [match_loop]. mono.
  Qed.
  Hint Resolve match_loop_mono : mono.

  Lemma parse_if_or_match_mono : forall n n' s, n <= n' -> le_r (parse_if_or_match pe n s) (parse_if_or_match pe' n' s).
  Proof.
    induction n as [|n IH]; intros n' s Hle; [apply le_nofuel|]. destruct n' as [|n']; [lia|].
    assert (n <= n') by lia. cbn [parse_if_or_match]. mono; try apply Hp.
  Qed.

  Lemma cast_loop_mono : forall n n' x s, n <= n' -> le_r (cast_loop pe n x s) (cast_loop pe' n' x s).
  Proof.
    induction n as [|n IH]; intros n' x s Hle; [apply le_nofuel|]. destruct n' as [|n']; [lia|].
    assert (n <= n') by lia. cbn [cast_loop]. mono.
  Qed.
  Hint Resolve parse_if_or_match_mono cast_loop_mono : mono.

  Lemma parse_cast_mono : mono_n (parse_cast pe) (parse_cast pe').
  Proof. intros n n' s Hle. unfold parse_cast. mono. Qed.

  Lemma binloop_mono ops sub sub' : mono_n sub sub' ->
    forall n n' x s, n <= n' -> le_r (binloop ops sub n x s) (binloop ops sub' n' x s).
  Proof.
    intro Hs. induction n as [|n IH]; intros n' x s Hle; [apply le_nofuel|]. destruct n' as [|n']; [lia|].
    assert (n <= n') by lia. cbn [binloop]. mono; try (now apply Hs).
  Qed.

  Lemma binlevel_mono ops sub sub' : mono_n sub sub' -> mono_n (binlevel ops sub) (binlevel ops sub').
  Proof.
    intros Hs n n' s Hle. unfold binlevel. apply le_bind; [now apply Hs|]. intros x s1. now apply binloop_mono.
  Qed.

  Lemma parse_short_circuiting_or_mono : mono_n (parse_short_circuiting_or pe) (parse_short_circuiting_or pe').
  Proof.
    unfold parse_short_circuiting_or, parse_short_circuiting_and, parse_equality, parse_comparison, parse_or,
      parse_xor, parse_and, parse_shift, parse_term, parse_factor.
    repeat apply binlevel_mono. apply parse_cast_mono.
  Qed.

  Lemma parse_expr_body_mono n n' s : n <= n' -> le_r (parse_expr_body pe n s) (parse_expr_body pe' n' s).
  Proof.
    intro Hle. unfold parse_expr_body. mono; try (now apply parse_short_circuiting_or_mono).
  Qed.
End LevelMono.

Theorem parse_expr_st_mono : forall f f', f <= f' -> le_f (parse_expr_st f) (parse_expr_st f').
Proof.
  induction f as [|f IH]; intros f' Hle s; [apply le_nofuel|]. destruct f' as [|f']; [lia|].
  cbn [parse_expr_st]. apply parse_expr_body_mono; [apply IH; lia|lia].
Qed.

Lemma parse_literal_recursively_mono : forall n n', n <= n' ->
  le_f (parse_literal_recursively n) (parse_literal_recursively n').
Proof.
  induction n as [|n IH]; intros n' Hle s; [apply le_nofuel|]. destruct n' as [|n']; [lia|].
  assert (Hn : n <= n') by lia. cbn [parse_literal_recursively]. pose proof (IH n' Hn) as Hr. mono.
Qed.

Section ItemsMono.
  Variables fuel fuel' : nat.
  Hypothesis Hle : fuel <= fuel'.
  Let Hp : le_f (parse_expr_st fuel) (parse_expr_st fuel') := parse_expr_st_mono fuel fuel' Hle.

  Lemma ty_mono : le_f (parse_type (parse_expr_st fuel) fuel) (parse_type (parse_expr_st fuel') fuel').
  Proof. intro s. now apply parse_type_mono. Qed.
  Hint Resolve ty_mono : mono.

  Lemma parse_const_def_mono : le_f (parse_const_def fuel) (parse_const_def fuel').
  Proof. intro s. unfold parse_const_def. mono; try apply Hp; try apply ty_mono. Qed.

  Lemma parse_field_def_mono : le_f (parse_field_def fuel) (parse_field_def fuel').
  Proof. intro s. unfold parse_field_def. mono; try apply ty_mono. Qed.
  Hint Resolve parse_field_def_mono : mono.

  Lemma parse_struct_def_mono : le_f (parse_struct_def fuel) (parse_struct_def fuel').
  Proof. intro s. unfold parse_struct_def. mono; try apply parse_field_def_mono. Qed.

  Lemma parse_variant_mono : le_f (parse_variant fuel) (parse_variant fuel').
  Proof. intro s. unfold parse_variant. mono; try apply ty_mono. Qed.
  Hint Resolve parse_variant_mono : mono.

  Lemma parse_enum_def_mono : le_f (parse_enum_def fuel) (parse_enum_def fuel').
  Proof. intro s. unfold parse_enum_def. mono; try apply parse_variant_mono. Qed.

  Lemma parse_param_mono : le_f (parse_param fuel) (parse_param fuel').
  Proof. intro s. unfold parse_param. mono; try apply ty_mono. Qed.
  Hint Resolve parse_param_mono : mono.

  Lemma parse_fn_def_mono is_pub : le_f (parse_fn_def fuel is_pub) (parse_fn_def fuel' is_pub).
  Proof.
    intro s. unfold parse_fn_def, parse_params. mono; try apply parse_param_mono; try apply ty_mono.
    apply parse_stmts_mono; [exact Hp|exact Hle].
  Qed.

  Lemma items_loop_mono : forall n n' is_pub prog s, n <= n' ->
    le_r (items_loop fuel n is_pub prog s) (items_loop fuel' n' is_pub prog s).
  Proof.
    induction n as [|n IH]; intros n' is_pub prog s Hn; [apply le_nofuel|]. destruct n' as [|n']; [lia|].
    assert (n <= n') by lia. cbn [items_loop].
    pose proof parse_const_def_mono. pose proof parse_struct_def_mono. pose proof parse_enum_def_mono.
    pose proof parse_fn_def_mono as H3. mono. apply H3.
  Qed.
End ItemsMono.

(* T3, for the five entry points *)
Theorem parse_expr_st_fuel_independent f f' s r :
  parse_expr_st f s = r -> r <> PNoFuel -> f <= f' -> parse_expr_st f' s = r.
Proof. intros <- Hr Hle. now apply (parse_expr_st_mono f f' Hle s). Qed.

Theorem parse_expr_fuel_independent f f' ts r : parse_expr f ts = Some r -> f <= f' -> parse_expr f' ts = Some r.
Proof.
  unfold parse_expr. intros H Hle. destruct (parse_expr_st f (PState ts true)) as [e s| | |] eqn:E; try discriminate H.
  rewrite (parse_expr_st_fuel_independent f f' _ _ E ltac:(discriminate) Hle). exact H.
Qed.

Theorem parse_block_text_fuel_independent f f' ts r :
  parse_block_text f ts = r -> r <> PNoFuel -> f <= f' -> parse_block_text f' ts = r.
Proof.
  intros <- Hr Hle. revert Hr. unfold parse_block_text. cbv zeta.
  apply le_bind; [apply parse_stmts_mono; [now apply parse_expr_st_mono|exact Hle]|]. intros; apply le_refl.
Qed.

Theorem parse_literal_text_fuel_independent f f' ts r :
  parse_literal_text f ts = r -> r <> PNoFuel -> f <= f' -> parse_literal_text f' ts = r.
Proof.
  intros <- Hr Hle. revert Hr. unfold parse_literal_text. destruct (advance (PState ts true)) as [[t s1]|]; [|apply le_refl].
  apply le_bind; [apply parse_literal_gen_mono; [now apply parse_literal_recursively_mono|exact Hle]|].
  intros; apply le_refl.
Qed.

Theorem parse_program_text_fuel_independent f f' ts r :
  parse_program_text f ts = r -> r <> PNoFuel -> f <= f' -> parse_program_text f' ts = r.
Proof. intros <- Hr Hle. revert Hr. unfold parse_program_text. now apply items_loop_mono. Qed.

(* hence: the result with ANY sufficient fuel is the result with the linear bound *)
Corollary parse_program_text_canonical fuel ts : length ts + 4 <= fuel ->
  parse_program_text fuel ts = parse_program_text (length ts + 4) ts.
Proof.
  intro H. eapply parse_program_text_fuel_independent; [reflexivity| |exact H].
  apply parse_program_text_total. lia.
Qed.

Print Assumptions parse_expr_st_fuel_independent.
Print Assumptions parse_block_text_fuel_independent.
Print Assumptions parse_literal_text_fuel_independent.
Print Assumptions parse_program_text_fuel_independent.
