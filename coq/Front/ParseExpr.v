(* Model of the EXPRESSION grammar of /repo/src/parse.rs (the recursive-descent parser of the
   real compiler), over the tokens of Front/Scan.v.  Definitions only; the proofs are in
   Front/ParseExprProofs.v.

   MIRRORED, function by function (same call structure, same loops, same order of tests):
     parse_expr, parse_short_circuiting_or, parse_short_circuiting_and, parse_equality,
     parse_comparison (with the desugaring  x <= y  ~>  !(x > y),  x >= y  ~>  !(x < y)  of the
     current code: both operands occur once), parse_or, parse_xor, parse_and, parse_shift,
     parse_term, parse_factor, parse_cast (+ the identifier arm of parse_type),
     parse_if_or_match (the `if` / `else if` / `else` part), parse_unary, parse_primary (with its
     postfix loop `[..]` `.0` `.field`), the arms of parse_literal that parse_primary reaches
     (true / false, numbers, `(e)`, `()`, tuples), parse_block_as_expr / parse_stmts /
     parse_stmts_of_block / parse_stmt for a block that consists of ONE expression statement.
   The parser state is the remaining token list and the flag [struct_literals_allowed]; the
   flag is threaded as STATE and saved / cleared / restored exactly where the Rust code does
   it (around the condition of an `if`; set inside the braces of a block by parse_stmts).

   SIMPLIFIED:
   - source locations (MetaInfo) are dropped from the tree;
   - errors: the first `Err(())` ends the parse with [PErr]; the error list and the recovery
     code (consume_until_one_of ...) are not modelled: they only produce further messages,
     the result is `Err` in every case;
   - `next_matches_one_of(&ops)` (a loop over the options) is a look-up on the next token;
   - every call `f(args)` is [UFnCall]: BuiltInFnCall::try_from_ident_args (which turns some
     names into built-in calls) is not modelled;
   - OUTSIDE THE MODEL ([POutside], with the construct that was met): `match`; blocks as
     expressions `{ .. }`; blocks with more than one statement, `let`, `for`, assignments;
     struct literals (but the TEST that decides whether `ident {` is a struct literal, which
     reads the flag, IS modelled), enum literals `A::B`, array literals `[..]`, ranges `a..b`,
     tuple / array types after `as`.
   Recursion: explicit fuel, one unit per nesting level of parse_expr and per loop iteration;
   [PNoFuel] is never a Rust behaviour. *)
From GV Require Import Base.Util Front.Scan.
From Coq Require Import ZArith String.
Local Open Scope string_scope.
Local Open Scope N_scope.

(* ------------------------------------------------------------------ ast.rs (untyped) *)

Inductive unary_op := UoNot | UoNeg.

Inductive bin_op :=
| BAdd | BSub | BMul | BDiv | BMod | BBitAnd | BBitXor | BBitOr | BGreaterThan | BLessThan
| BEq | BNotEq | BShiftLeft | BShiftRight | BShortCircuitAnd | BShortCircuitOr.

(* the types parse_type produces from an identifier *)
Inductive utype :=
| UTBool | UTUnsigned (t : unsigned_num_type) | UTSigned (t : signed_num_type)
| UTNamed (s : list N).     (* Type::UntypedTopLevelDefinition *)

(* ExprEnum, the forms of the model *)
Inductive uexpr :=
| UTrue | UFalse
| UNumUnsigned (n : N) (t : unsigned_num_type)
| UNumSigned (z : Z) (t : signed_num_type)
| UIdentifier (s : list N)
| UArrayAccess (a i : uexpr)
| UTupleLiteral (es : list uexpr)
| UTupleAccess (e : uexpr) (i : N)
| UStructAccess (e : uexpr) (f : list N)
| UUnaryOp (o : unary_op) (e : uexpr)
| UOp (o : bin_op) (l r : uexpr)
| UFnCall (f : list N) (args : list uexpr)
| UIf (c t e : uexpr)
| UCast (ty : utype) (e : uexpr).

(* ------------------------------------------------------------------ the parser state *)

Record pstate := PState { toks : list token; sla : bool (* struct_literals_allowed *) }.

Inductive outside :=
| OMatch | OBlockExpr | OStatements | OStructLiteral | OEnumLiteral | OArrayLiteral | ORange | OType.

Inductive pres (A : Type) :=
| POk (a : A) (s : pstate)
| PErr
| PNoFuel
| POutside (o : outside).
Arguments POk {A} a s.
Arguments PErr {A}.
Arguments PNoFuel {A}.
Arguments POutside {A} o.

Definition bindp {A B} (r : pres A) (k : A -> pstate -> pres B) : pres B :=
  match r with
  | POk a s => k a s
  | PErr => PErr
  | PNoFuel => PNoFuel
  | POutside o => POutside o
  end.

Definition set_sla (b : bool) (s : pstate) : pstate := PState (toks s) b.

(* equality of tokens (derived PartialEq of TokenEnum) *)
Definition unsigned_num_type_eq_dec (a b : unsigned_num_type) : {a = b} + {a <> b}.
Proof. decide equality. Defined.
Definition signed_num_type_eq_dec (a b : signed_num_type) : {a = b} + {a <> b}.
Proof. decide equality. Defined.
Definition token_enum_eq_dec (a b : token_enum) : {a = b} + {a <> b}.
Proof.
  decide equality; try apply N.eq_dec; try apply Z.eq_dec; try apply unsigned_num_type_eq_dec;
    try apply signed_num_type_eq_dec. apply (list_eq_dec N.eq_dec).
Defined.
Definition teqb (a b : token_enum) : bool := if token_enum_eq_dec a b then true else false.

(* fn peek *)
Definition peek (t : token_enum) (s : pstate) : bool :=
  match toks s with Token t' _ :: _ => teqb t' t | [] => false end.

(* fn next_matches (the stack of open parentheses only serves error recovery) *)
Definition next_matches (t : token_enum) (s : pstate) : option pstate :=
  match toks s with
  | Token t' _ :: r => if teqb t' t then Some (PState r (sla s)) else None
  | [] => None
  end.

(* fn expect *)
Definition expect {A} (t : token_enum) (s : pstate) (k : pstate -> pres A) : pres A :=
  match next_matches t s with Some s' => k s' | None => PErr end.

(* fn advance *)
Definition advance (s : pstate) : option (token_enum * pstate) :=
  match toks s with
  | Token t _ :: r => Some (t, PState r (sla s))
  | [] => None
  end.

Definition s_true : list N := Eval vm_compute in codes "true".
Definition s_false : list N := Eval vm_compute in codes "false".
Definition s_bool : list N := Eval vm_compute in codes "bool".

(* the identifier arm of fn parse_type *)
Definition type_of_name (s : list N) : utype :=
  if list_eqb s s_bool then UTBool
  else if list_eqb s s_usize then UTUnsigned Usize
  else if list_eqb s s_u8 then UTUnsigned U8
  else if list_eqb s s_u16 then UTUnsigned U16
  else if list_eqb s s_u32 then UTUnsigned U32
  else if list_eqb s s_u64 then UTUnsigned U64
  else if list_eqb s s_i8 then UTSigned I8
  else if list_eqb s s_i16 then UTSigned I16
  else if list_eqb s s_i32 then UTSigned I32
  else if list_eqb s s_i64 then UTSigned I64
  else UTNamed s.

Definition parse_type (s : pstate) : pres utype :=
  if peek TLeftParen s || peek TLeftBracket s then POutside OType
  else
    match toks s with
    | Token (TIdentifier id) _ :: r => POk (type_of_name id) (PState r (sla s))   (* expect_identifier *)
    | _ => PErr
    end.

(* the operator tables of the binary levels: token -> how the node is built *)
Definition opt := token_enum -> option (uexpr -> uexpr -> uexpr).

Definition ops_sc_or : opt := fun t => match t with TDoubleBar => Some (UOp BShortCircuitOr) | _ => None end.
Definition ops_sc_and : opt := fun t => match t with TDoubleAmpersand => Some (UOp BShortCircuitAnd) | _ => None end.
Definition ops_equality : opt := fun t =>
  match t with TDoubleEq => Some (UOp BEq) | TBangEq => Some (UOp BNotEq) | _ => None end.
Definition ops_comparison : opt := fun t =>
  match t with
  | TLessThan => Some (UOp BLessThan)
  | TGreaterThan => Some (UOp BGreaterThan)
  (* `x <= y` is `!(x > y)`: both operands are evaluated exactly once *)
  | TLessThanEquals => Some (fun x y => UUnaryOp UoNot (UOp BGreaterThan x y))
  | TGreaterThanEquals => Some (fun x y => UUnaryOp UoNot (UOp BLessThan x y))
  | _ => None
  end.
Definition ops_or : opt := fun t => match t with TBar => Some (UOp BBitOr) | _ => None end.
Definition ops_xor : opt := fun t => match t with TCaret => Some (UOp BBitXor) | _ => None end.
Definition ops_and : opt := fun t => match t with TAmpersand => Some (UOp BBitAnd) | _ => None end.
Definition ops_shift : opt := fun t =>
  match t with TDoubleLessThan => Some (UOp BShiftLeft) | TDoubleGreaterThan => Some (UOp BShiftRight) | _ => None end.
Definition ops_term : opt := fun t => match t with TPlus => Some (UOp BAdd) | TMinus => Some (UOp BSub) | _ => None end.
Definition ops_factor : opt := fun t =>
  match t with TStar => Some (UOp BMul) | TSlash => Some (UOp BDiv) | TPercent => Some (UOp BMod) | _ => None end.

(* next_matches_one_of(&ops) *)
Definition next_op (ops : opt) (s : pstate) : option ((uexpr -> uexpr -> uexpr) * pstate) :=
  match toks s with
  | Token t _ :: r => match ops t with Some mk => Some (mk, PState r (sla s)) | None => None end
  | [] => None
  end.

(* `let mut x = sub()?; while let Some(op) = next_matches_one_of(ops) { let y = sub()?; x = Op(op, x, y) } Ok(x)` *)
Section BinLevel.
  Variable ops : opt.
  Variable sub : nat -> pstate -> pres uexpr.

  Fixpoint binloop (n : nat) (x : uexpr) (s : pstate) : pres uexpr :=
    match n with
    | O => PNoFuel
    | S n' =>
        match next_op ops s with
        | Some (mk, s1) => bindp (sub n' s1) (fun y s2 => binloop n' (mk x y) s2)
        | None => POk x s
        end
    end.

  Definition binlevel (n : nat) (s : pstate) : pres uexpr :=
    bindp (sub n s) (fun x s1 => binloop n x s1).
End BinLevel.

(* is the expression an assignment target (fn accessors in parse_stmt)? *)
Fixpoint is_accessor_chain (e : uexpr) : bool :=
  match e with
  | UIdentifier _ => true
  | UArrayAccess a _ => is_accessor_chain a
  | UTupleAccess a _ => is_accessor_chain a
  | UStructAccess a _ => is_accessor_chain a
  | _ => false
  end.

Definition is_assign_op (t : token_enum) : bool :=
  match t with
  | TAddAssign | TSubAssign | TMulAssign | TDivAssign | TRemAssign | TBitXorAssign
  | TBitAndAssign | TBitOrAssign | TShrAssign | TShlAssign => true
  | _ => false
  end.

(* the loop condition of parse_stmts_of_block *)
Definition block_ends (s : pstate) : bool :=
  match toks s with
  | [] => true
  | _ => peek TRightBrace s || peek TComma s || peek TKeywordPub s || peek TKeywordFn s
         || peek TKeywordStruct s || peek TKeywordEnum s
  end.

(* `if let ExprEnum::NumUnsigned(i, Unspecified) = index.inner { index.inner = NumUnsigned(i, Usize) }`:
   an unsuffixed number that is the WHOLE index is a usize *)
Definition retype_index (index : uexpr) : uexpr :=
  match index with
  | UNumUnsigned i UnspecifiedU => UNumUnsigned i Usize
  | _ => index
  end.

Section WithExpr.
  (* parse_expr, one nesting level down *)
  Variable pe : pstate -> pres uexpr.

  (* `args.push(parse_expr()?); while next_matches(Comma) { if peek(close) { break } args.push(parse_expr()?) }`
     ([acc] in reverse) *)
  Fixpoint comma_loop (close : token_enum) (n : nat) (acc : list uexpr) (s : pstate) : pres (list uexpr) :=
    match n with
    | O => PNoFuel
    | S n' =>
        match next_matches TComma s with
        | Some s1 =>
            if peek close s1 then POk (rev acc) s1
            else bindp (pe s1) (fun e s2 => comma_loop close n' (e :: acc) s2)
        | None => POk (rev acc) s
        end
    end.

  (* the arms of fn parse_literal(token, false) that parse_primary reaches *)
  Definition parse_literal (n : nat) (t : token_enum) (s : pstate) : pres uexpr :=
    match t with
    | TIdentifier id =>
        if list_eqb id s_true then POk UTrue s
        else if list_eqb id s_false then POk UFalse s
        else if peek TDoubleColon s then POutside OEnumLiteral
        else if peek TLeftBrace s && sla s then POutside OStructLiteral
        else PErr
    | TUnsignedNum v ty =>
        if peek TDoubleDot s then POutside ORange else POk (UNumUnsigned v ty) s
    | TSignedNum v ty => POk (UNumSigned v ty) s
    | TLeftParen =>
        if negb (peek TRightParen s) then
          bindp (pe s) (fun e s1 =>
            if peek TComma s1 then
              bindp (comma_loop TRightParen n [e] s1) (fun fields s2 =>
                expect TRightParen s2 (fun s3 => POk (UTupleLiteral fields) s3))
            else expect TRightParen s1 (fun s2 => POk e s2))
        else expect TRightParen s (fun s1 => POk (UTupleLiteral []) s1)
    | TLeftBracket => POutside OArrayLiteral
    | _ => PErr
    end.

  (* the loop at the end of parse_primary: `while peek([) || peek(.) { .. }` *)
  Fixpoint postfix_loop (n : nat) (x : uexpr) (s : pstate) : pres uexpr :=
    match n with
    | O => PNoFuel
    | S n' =>
        if peek TLeftBracket s || peek TDot s then
          match next_matches TLeftBracket s with
          | Some s1 =>
              (* the index is always a full expression (`a[1 + i]`); retyped when it is a bare
                 unsuffixed number (`a[1]`, also `a[(1)]`); then `]` *)
              bindp (pe s1) (fun index s2 =>
                let index := retype_index index in
                expect TRightBracket s2 (fun s3 => postfix_loop n' (UArrayAccess x index) s3))
          | None =>
              match next_matches TDot s with
              | Some s1 =>
                  match toks s1 with
                  | Token (TIdentifier f) _ :: r => postfix_loop n' (UStructAccess x f) (PState r (sla s1))
                  | Token (TUnsignedNum i UnspecifiedU) _ :: r => postfix_loop n' (UTupleAccess x i) (PState r (sla s1))
                  | _ => PErr
                  end
              | None => POk x s       (* unreachable *)
              end
          end
        else POk x s
    end.

  (* the first part of parse_primary: the expression before the postfix loop *)
  Definition parse_primary_base (n : nat) (s : pstate) : pres uexpr :=
    match advance s with
    | Some (t, s1) =>
        match t with
        | TIdentifier id =>
            if list_eqb id s_true || list_eqb id s_false then parse_literal n t s1
            else if peek TDoubleColon s1 then parse_literal n t s1
            else
              match next_matches TLeftParen s1 with
              | Some s2 =>
                  bindp (if negb (peek TRightParen s2)
                         then bindp (pe s2) (fun a s3 => comma_loop TRightParen n [a] s3)
                         else POk [] s2)
                    (fun args s3 => expect TRightParen s3 (fun s4 => POk (UFnCall id args) s4))
              | None =>
                  if peek TLeftBrace s1 && sla s1 then parse_literal n t s1
                  else POk (UIdentifier id) s1
              end
        | _ => parse_literal n t s1
        end
    | None => PErr
    end.

  Definition parse_primary (n : nat) (s : pstate) : pres uexpr :=
    bindp (parse_primary_base n s) (fun x s1 => postfix_loop n x s1).

  Fixpoint parse_unary (n : nat) (s : pstate) : pres uexpr :=
    match n with
    | O => PNoFuel
    | S n' =>
        match next_matches TBang s with
        | Some s1 => bindp (parse_unary n' s1) (fun u s2 => POk (UUnaryOp UoNot u) s2)
        | None =>
            match next_matches TMinus s with
            | Some s1 => bindp (parse_unary n' s1) (fun u s2 => POk (UUnaryOp UoNeg u) s2)
            | None => parse_primary n' s
            end
        end
    end.

  (* fn parse_stmt for an expression statement; `let`, `for`, assignments: outside *)
  Definition parse_stmt_expr (s : pstate) : pres uexpr :=
    if peek TKeywordLet s || peek TKeywordFor s then POutside OStatements
    else
      let is_conditional_or_block := peek TKeywordIf s || peek TKeywordMatch s || peek TLeftBrace s in
      bindp (pe s) (fun e s1 =>
        if is_accessor_chain e then
          if peek TEq s1 then POutside OStatements
          else if (match toks s1 with Token t _ :: _ => is_assign_op t | [] => false end) then POutside OStatements
          else if negb (peek TRightBrace s1) && negb (peek TComma s1)
               then expect TSemicolon s1 (fun s2 => POk e s2) else POk e s1
        else
          if negb is_conditional_or_block && negb (peek TRightBrace s1) && negb (peek TComma s1)
          then expect TSemicolon s1 (fun s2 => POk e s2) else POk e s1).

  (* fn parse_stmts_of_block, for at most one statement *)
  Definition parse_stmts_of_block (s : pstate) : pres (option uexpr) :=
    if block_ends s then POk None s
    else bindp (parse_stmt_expr s) (fun e s1 =>
           if block_ends s1 then POk (Some e) s1 else POutside OStatements).

  (* fn parse_stmts: inside the braces of a block struct literals are allowed again *)
  Definition parse_stmts (s : pstate) : pres (option uexpr) :=
    let struct_literals_allowed := sla s in
    bindp (parse_stmts_of_block (set_sla true s)) (fun stmts s1 =>
      POk stmts (set_sla struct_literals_allowed s1)).

  (* fn parse_block_as_expr: one expression statement is that expression, no statement is `()` *)
  Definition parse_block_as_expr (s : pstate) : pres uexpr :=
    bindp (parse_stmts s) (fun stmts s1 =>
      match stmts with
      | Some e => POk e s1
      | None => POk (UTupleLiteral []) s1
      end).

  Fixpoint parse_if_or_match (n : nat) (s : pstate) : pres uexpr :=
    match n with
    | O => PNoFuel
    | S n' =>
        match next_matches TKeywordIf s with
        | Some s1 =>
            let struct_literals_allowed := sla s1 in
            bindp (pe (set_sla false s1)) (fun cond_expr s2 =>
              let s3 := set_sla struct_literals_allowed s2 in
              expect TLeftBrace s3 (fun s4 =>
                bindp (parse_block_as_expr s4) (fun then_expr s5 =>
                  expect TRightBrace s5 (fun s6 =>
                    match next_matches TKeywordElse s6 with
                    | Some s7 =>
                        if peek TKeywordIf s7 then
                          (* only the `if` expression itself: operators after the chain apply to
                             the whole chain, not to its last `else if` *)
                          bindp (parse_if_or_match n' s7) (fun elseif_expr s8 =>
                            POk (UIf cond_expr then_expr elseif_expr) s8)
                        else
                          expect TLeftBrace s7 (fun s8 =>
                            bindp (parse_block_as_expr s8) (fun else_expr s9 =>
                              expect TRightBrace s9 (fun s10 =>
                                POk (UIf cond_expr then_expr else_expr) s10)))
                    | None => POk (UIf cond_expr then_expr (UTupleLiteral [])) s6
                    end))))
        | None =>
            if peek TKeywordMatch s then POutside OMatch
            else parse_unary n' s
        end
    end.

  (* `while next_matches(KeywordAs) { ty = parse_type()?; x = Cast(ty, x) }` *)
  Fixpoint cast_loop (n : nat) (x : uexpr) (s : pstate) : pres uexpr :=
    match n with
    | O => PNoFuel
    | S n' =>
        match next_matches TKeywordAs s with
        | Some s1 => bindp (parse_type s1) (fun ty s2 => cast_loop n' (UCast ty x) s2)
        | None => POk x s
        end
    end.

  Definition parse_cast (n : nat) (s : pstate) : pres uexpr :=
    bindp (parse_if_or_match n s) (fun x s1 => cast_loop n x s1).

  Definition parse_factor := binlevel ops_factor parse_cast.
  Definition parse_term := binlevel ops_term parse_factor.
  Definition parse_shift := binlevel ops_shift parse_term.
  Definition parse_and := binlevel ops_and parse_shift.
  Definition parse_xor := binlevel ops_xor parse_and.
  Definition parse_or := binlevel ops_or parse_xor.
  Definition parse_comparison := binlevel ops_comparison parse_or.
  Definition parse_equality := binlevel ops_equality parse_comparison.
  Definition parse_short_circuiting_and := binlevel ops_sc_and parse_equality.
  Definition parse_short_circuiting_or := binlevel ops_sc_or parse_short_circuiting_and.

  (* fn parse_expr, given parse_expr one level down *)
  Definition parse_expr_body (n : nat) (s : pstate) : pres uexpr :=
    match next_matches TLeftBrace s with
    | Some _ => POutside OBlockExpr
    | None => parse_short_circuiting_or n s
    end.
End WithExpr.

Fixpoint parse_expr_st (fuel : nat) (s : pstate) : pres uexpr :=
  match fuel with
  | O => PNoFuel
  | S f => parse_expr_body (parse_expr_st f) f s
  end.

(* the entry point: an expression at the front of a token list, struct literals allowed
   (the state of a fresh parser) *)
Definition parse_expr (fuel : nat) (ts : list token) : option (uexpr * list token) :=
  match parse_expr_st fuel (PState ts true) with
  | POk e s => Some (e, toks s)
  | _ => None
  end.

(* a generous amount of fuel for a token list: every unit of fuel is spent together with a
   token (a loop iteration, a unary operator, a nesting level).  Adequacy is PROVED only for the
   printed inputs of ParseExprProofs.v ([parse_show_min] gives some fuel); for other inputs it
   is a default for the extracted parser. *)
Definition fuel_for_tokens (ts : list token) : nat := S (S (List.length ts)).
