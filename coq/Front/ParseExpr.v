(* Model of the EXPRESSION, STATEMENT and PATTERN grammar of /repo/src/parse.rs (the recursive-
   descent parser of the real compiler), over the tokens of Front/Scan.v.  Definitions only;
   the proofs are in Front/ParseExprProofs.v.

   MIRRORED, function by function (same call structure, same loops, same order of tests):
     parse_expr (incl. the block `{ .. }`), parse_short_circuiting_or, parse_short_circuiting_and,
     parse_equality, parse_comparison (with the desugaring  x <= y  ~>  !(x > y),
     x >= y  ~>  !(x < y): both operands occur once), parse_or, parse_xor, parse_and, parse_shift,
     parse_term, parse_factor, parse_cast, parse_type (scalar and named types, tuple types, array
     types with a literal, a named or a `const { .. }` size), parse_if_or_match (`if` / `else if` / `else` AND
     `match` with parse_match_clause), parse_pattern (all forms), parse_unary, parse_primary
     (with its postfix loop `[..]` `.0` `.field`), the arms of parse_literal(token, false) (true /
     false, numbers, ranges `a..b`, `(e)`, `()`, tuples, array literals `[a, b]`, `[e; n]`, `[e; N]`,
     struct literals `S { a: e, b }`, enum literals `E::V`, `E::V(e, ..)`), parse_stmt (`let`, `let mut`, `for`,
     assignments `x.acc = e` and the compound assignments `x.acc op= e` with their DESUGARING
     into `x.acc = x.acc op e`, expression statements with the `;` rules), parse_stmts (the
     struct-literal flag), parse_stmts_of_block (the loop), parse_block_as_expr; the TOP LEVEL:
     parse (the item loop with `pub`), parse_const_def with parse_const_expr, parse_struct_def,
     parse_enum_def, parse_variant, parse_fn_def, parse_params, parse_param.
   The parser state is the remaining token list and the flag [struct_literals_allowed]; the
   flag is threaded as STATE and saved / cleared / restored exactly where the Rust code does
   it (around the condition of an `if`, the scrutinee of a `match`, the collection of a `for`;
   set inside the braces of a block by parse_stmts).

   SIMPLIFIED:
   - source locations (MetaInfo) are dropped from the tree;
   - errors: the first `Err(())` ends the parse with [PErr]; the error list and the recovery
     code (consume_until_one_of ...) are not modelled: they only produce further messages,
     the result is `Err` in every case;
   - `next_matches_one_of(&ops)` (a loop over the options) is a look-up on the next token;
   - every call `f(args)` is [UFnCall]: BuiltInFnCall::try_from_ident_args (which turns some
     names into built-in calls) is not modelled;
   - the body of a `for` loop (`expect({); parse_stmts(); expect(})`) is obtained by calling
     parse_expr one level down on the `{`, which performs exactly these three steps and returns
     the statements in a Block: this keeps the recursion through the single parameter [pe];
   - a range whose two suffixes differ (`1u8..2u16`): the Rust code pushes an error and goes on
     with the first suffix; the final result is `Err`, here [PErr] at once;
   - nothing of the grammar is outside the model any more: [POutside] is no longer produced (the
     type [outside] is kept for the interfaces that mention it);
   - the HashMaps of a Program (const_defs, struct_defs, enum_defs, fn_defs) are association lists
     in source order, a later definition of a name REPLACING an earlier one ([map_insert]);
     `const_deps` (empty after parsing) is not modelled.
   Recursion: explicit fuel, one unit per nesting level of parse_expr and per loop iteration;
   [PNoFuel] is never a Rust behaviour. *)
From GV Require Import Base.Util Front.Scan.
From Coq Require Import ZArith String.
Local Open Scope string_scope.
Local Open Scope N_scope.

(* ------------------------------------------------------------------ ast.rs (untyped) *)

Inductive unary_op := UoNot | UoNeg.

Inductive bin_op :=
| BAdd | BSub | BMul | BDiv | BMod | BBitAnd | BBitXor | BBitOr | BGreaterThan | BLessThan
| BEq | BNotEq | BShiftLeft | BShiftRight | BShortCircuitAnd | BShortCircuitOr.

(* ConstExprEnum: what parse_const_expr accepts *)
Inductive uconst :=
| CTrue | CFalse
| CNumUnsigned (n : N) (t : unsigned_num_type)
| CNumSigned (z : Z) (t : signed_num_type)
| CExternalValue (party identifier : list N)      (* `PARTY::NAME` *)
| CIdent (s : list N)                             (* ConstExprIdent *)
| CMax (args : list uconst)
| CMin (args : list uconst)
| CAdd (l r : uconst)
| CSub (l r : uconst).

(* the types parse_type produces *)
Inductive utype :=
| UTBool | UTUnsigned (t : unsigned_num_type) | UTSigned (t : signed_num_type)
| UTNamed (s : list N)      (* Type::UntypedTopLevelDefinition *)
| UTTuple (ts : list utype)
| UTArray (t : utype) (n : N)
| UTArrayConst (t : utype) (c : list N)
| UTArrayConstExpr (t : utype) (c : uconst).

(* PatternEnum *)
Inductive upattern :=
| PIdentifier (s : list N)             (* also `_` *)
| PTrue | PFalse
| PNumUnsigned (n : N) (t : unsigned_num_type)
| PNumSigned (z : Z) (t : signed_num_type)
| PTuple (ps : list upattern)
| PStruct (name : list N) (fields : list (list N * upattern))                  (* fields sorted by name *)
| PStructIgnoreRemaining (name : list N) (fields : list (list N * upattern))
| PEnumUnit (e v : list N)
| PEnumTuple (e v : list N) (ps : list upattern)
| PUnsignedInclusiveRange (lo hi : N) (t : unsigned_num_type)
| PSignedInclusiveRange (lo hi : Z) (t : signed_num_type).

(* ExprEnum, StmtEnum, Accessor: the forms of the model *)
Inductive uexpr :=
| UTrue | UFalse
| UNumUnsigned (n : N) (t : unsigned_num_type)
| UNumSigned (z : Z) (t : signed_num_type)
| UIdentifier (s : list N)
| UArrayAccess (a i : uexpr)
| UTupleLiteral (es : list uexpr)
| UTupleAccess (e : uexpr) (i : N)
| UStructAccess (e : uexpr) (f : list N)
| UUnaryOp (o : unary_op) (e : uexpr)
| UOp (o : bin_op) (l r : uexpr)
| UFnCall (f : list N) (args : list uexpr)
| UIf (c t e : uexpr)
| UCast (ty : utype) (e : uexpr)
| UBlock (b : list ustmt)
| UMatch (e : uexpr) (arms : list (upattern * uexpr))
| UArrayLiteral (es : list uexpr)                         (* never empty *)
| UArrayRepeat (e : uexpr) (size : N)                     (* ArrayRepeatLiteral *)
| UArrayRepeatConst (e : uexpr) (size : list N)           (* ArrayRepeatLiteralConst *)
| URange (lo hi : N) (t : unsigned_num_type)
| UStructLiteral (name : list N) (fields : list (list N * uexpr))      (* fields sorted by name *)
| UEnumLiteral (e v : list N) (args : option (list uexpr))            (* None: VariantExprEnum::Unit *)
with ustmt :=
| SLet (p : upattern) (ty : option utype) (e : uexpr)
| SLetMut (x : list N) (ty : option utype) (e : uexpr)
| SVarAssign (x : list N) (accs : list uaccessor) (e : uexpr)
| SForEach (p : upattern) (e : uexpr) (body : list ustmt)
| SExpr (e : uexpr)
with uaccessor :=
| AArray (index : uexpr)
| ATuple (index : N)
| AStruct (field : list N).

(* ------------------------------------------------------------------ the parser state *)

Record pstate := PState { toks : list token; sla : bool (* struct_literals_allowed *) }.

Inductive outside :=
| OMatch | OBlockExpr | OStatements | OStructLiteral | OEnumLiteral | OArrayLiteral | ORange | OType.

Inductive pres (A : Type) :=
| POk (a : A) (s : pstate)
| PErr
| PNoFuel
| POutside (o : outside).
Arguments POk {A} a s.
Arguments PErr {A}.
Arguments PNoFuel {A}.
Arguments POutside {A} o.

Definition bindp {A B} (r : pres A) (k : A -> pstate -> pres B) : pres B :=
  match r with
  | POk a s => k a s
  | PErr => PErr
  | PNoFuel => PNoFuel
  | POutside o => POutside o
  end.

Definition set_sla (b : bool) (s : pstate) : pstate := PState (toks s) b.

(* equality of tokens (derived PartialEq of TokenEnum) *)
Definition unsigned_num_type_eq_dec (a b : unsigned_num_type) : {a = b} + {a <> b}.
Proof. decide equality. Defined.
Definition signed_num_type_eq_dec (a b : signed_num_type) : {a = b} + {a <> b}.
Proof. decide equality. Defined.
Definition token_enum_eq_dec (a b : token_enum) : {a = b} + {a <> b}.
Proof.
  decide equality; try apply N.eq_dec; try apply Z.eq_dec; try apply unsigned_num_type_eq_dec;
    try apply signed_num_type_eq_dec. apply (list_eq_dec N.eq_dec).
Defined.
Definition teqb (a b : token_enum) : bool := if token_enum_eq_dec a b then true else false.

(* fn peek *)
Definition peek (t : token_enum) (s : pstate) : bool :=
  match toks s with Token t' _ :: _ => teqb t' t | [] => false end.

(* fn next_matches (the stack of open parentheses only serves error recovery) *)
Definition next_matches (t : token_enum) (s : pstate) : option pstate :=
  match toks s with
  | Token t' _ :: r => if teqb t' t then Some (PState r (sla s)) else None
  | [] => None
  end.

(* fn expect *)
Definition expect {A} (t : token_enum) (s : pstate) (k : pstate -> pres A) : pres A :=
  match next_matches t s with Some s' => k s' | None => PErr end.

(* fn advance *)
Definition advance (s : pstate) : option (token_enum * pstate) :=
  match toks s with
  | Token t _ :: r => Some (t, PState r (sla s))
  | [] => None
  end.

Definition s_true : list N := Eval vm_compute in codes "true".
Definition s_false : list N := Eval vm_compute in codes "false".
Definition s_bool : list N := Eval vm_compute in codes "bool".

(* the identifier arm of fn parse_type *)
Definition type_of_name (s : list N) : utype :=
  if list_eqb s s_bool then UTBool
  else if list_eqb s s_usize then UTUnsigned Usize
  else if list_eqb s s_u8 then UTUnsigned U8
  else if list_eqb s s_u16 then UTUnsigned U16
  else if list_eqb s s_u32 then UTUnsigned U32
  else if list_eqb s s_u64 then UTUnsigned U64
  else if list_eqb s s_i8 then UTSigned I8
  else if list_eqb s s_i16 then UTSigned I16
  else if list_eqb s s_i32 then UTSigned I32
  else if list_eqb s s_i64 then UTSigned I64
  else UTNamed s.

(* fn expect_identifier *)
Definition expect_identifier {A} (s : pstate) (k : list N -> pstate -> pres A) : pres A :=
  match toks s with
  | Token (TIdentifier id) _ :: r => k id (PState r (sla s))
  | _ => PErr
  end.

(* `while next_matches(Comma) { items.push(item()?) }` ([acc] in reverse; no trailing comma) *)
Fixpoint strict_comma_loop {A} (item : pstate -> pres A) (n : nat) (acc : list A) (s : pstate) : pres (list A) :=
  match n with
  | O => PNoFuel
  | S n' =>
      match next_matches TComma s with
      | Some s1 => bindp (item s1) (fun a s2 => strict_comma_loop item n' (a :: acc) s2)
      | None => POk (rev acc) s
      end
  end.

Definition s_max : list N := Eval vm_compute in codes "max".
Definition s_min : list N := Eval vm_compute in codes "min".

(* fn parse_const_expr: the expressions that are constant expressions ([None]: InvalidConstExpr) *)
Fixpoint const_of_expr (e : uexpr) : option uconst :=
  let all := fix all (es : list uexpr) : option (list uconst) :=
    match es with
    | [] => Some []
    | y :: r => match const_of_expr y, all r with Some c, Some cs => Some (c :: cs) | _, _ => None end
    end in
  match e with
  | UTrue => Some CTrue
  | UFalse => Some CFalse
  | UNumUnsigned n t => Some (CNumUnsigned n t)
  | UNumSigned z t => Some (CNumSigned z t)
  | UEnumLiteral party identifier None => Some (CExternalValue party identifier)
  | UIdentifier identifier => Some (CIdent identifier)
  | UOp BAdd l r =>
      match const_of_expr l, const_of_expr r with Some cl, Some cr => Some (CAdd cl cr) | _, _ => None end
  | UOp BSub l r =>
      match const_of_expr l, const_of_expr r with Some cl, Some cr => Some (CSub cl cr) | _, _ => None end
  | UFnCall f args =>
      if list_eqb f s_max then match all args with Some cs => Some (CMax cs) | None => None end
      else if list_eqb f s_min then match all args with Some cs => Some (CMin cs) | None => None end
      else None
  | _ => None
  end.

(* fn parse_type; [pe]: parse_expr (for the size `const { .. }` of an array type) *)
Fixpoint parse_type (pe : pstate -> pres uexpr) (n : nat) (s : pstate) : pres utype :=
  match n with
  | O => PNoFuel
  | S n' =>
      match next_matches TLeftParen s with
      | Some s1 =>
          bindp (if negb (peek TRightParen s1)
                 then bindp (parse_type pe n' s1) (fun ty s2 => strict_comma_loop (parse_type pe n') n' [ty] s2)
                 else POk [] s1)
            (fun fields s2 => expect TRightParen s2 (fun s3 => POk (UTTuple fields) s3))
      | None =>
          match next_matches TLeftBracket s with
          | Some s1 =>
              bindp (parse_type pe n' s1) (fun ty s2 =>
                expect TSemicolon s2 (fun s3 =>
                  match toks s3 with
                  | Token (TUnsignedNum k UnspecifiedU) _ :: r
                  | Token (TUnsignedNum k Usize) _ :: r =>
                      expect TRightBracket (PState r (sla s3)) (fun s4 => POk (UTArray ty k) s4)
                  | Token (TIdentifier c) _ :: r =>
                      expect TRightBracket (PState r (sla s3)) (fun s4 => POk (UTArrayConst ty c) s4)
                  | Token TKeywordConst _ :: r =>
                      expect TLeftBrace (PState r (sla s3)) (fun s4 =>
                        bindp (pe s4) (fun e s5 =>
                          match const_of_expr e with
                          | Some c =>
                              expect TRightBrace s5 (fun s6 =>
                                expect TRightBracket s6 (fun s7 => POk (UTArrayConstExpr ty c) s7))
                          | None => PErr
                          end))
                  | _ => PErr
                  end))
          | None => expect_identifier s (fun id s1 => POk (type_of_name id) s1)
          end
      end
  end.

(* the operator tables of the binary levels: token -> how the node is built *)
Definition opt := token_enum -> option (uexpr -> uexpr -> uexpr).

Definition ops_sc_or : opt := fun t => match t with TDoubleBar => Some (UOp BShortCircuitOr) | _ => None end.
Definition ops_sc_and : opt := fun t => match t with TDoubleAmpersand => Some (UOp BShortCircuitAnd) | _ => None end.
Definition ops_equality : opt := fun t =>
  match t with TDoubleEq => Some (UOp BEq) | TBangEq => Some (UOp BNotEq) | _ => None end.
Definition ops_comparison : opt := fun t =>
  match t with
  | TLessThan => Some (UOp BLessThan)
  | TGreaterThan => Some (UOp BGreaterThan)
  (* `x <= y` is `!(x > y)`: both operands are evaluated exactly once *)
  | TLessThanEquals => Some (fun x y => UUnaryOp UoNot (UOp BGreaterThan x y))
  | TGreaterThanEquals => Some (fun x y => UUnaryOp UoNot (UOp BLessThan x y))
  | _ => None
  end.
Definition ops_or : opt := fun t => match t with TBar => Some (UOp BBitOr) | _ => None end.
Definition ops_xor : opt := fun t => match t with TCaret => Some (UOp BBitXor) | _ => None end.
Definition ops_and : opt := fun t => match t with TAmpersand => Some (UOp BBitAnd) | _ => None end.
Definition ops_shift : opt := fun t =>
  match t with TDoubleLessThan => Some (UOp BShiftLeft) | TDoubleGreaterThan => Some (UOp BShiftRight) | _ => None end.
Definition ops_term : opt := fun t => match t with TPlus => Some (UOp BAdd) | TMinus => Some (UOp BSub) | _ => None end.
Definition ops_factor : opt := fun t =>
  match t with TStar => Some (UOp BMul) | TSlash => Some (UOp BDiv) | TPercent => Some (UOp BMod) | _ => None end.

(* next_matches_one_of(&ops) *)
Definition next_op (ops : opt) (s : pstate) : option ((uexpr -> uexpr -> uexpr) * pstate) :=
  match toks s with
  | Token t _ :: r => match ops t with Some mk => Some (mk, PState r (sla s)) | None => None end
  | [] => None
  end.

(* `let mut x = sub()?; while let Some(op) = next_matches_one_of(ops) { let y = sub()?; x = Op(op, x, y) } Ok(x)` *)
Section BinLevel.
  Variable ops : opt.
  Variable sub : nat -> pstate -> pres uexpr.

  Fixpoint binloop (n : nat) (x : uexpr) (s : pstate) : pres uexpr :=
    match n with
    | O => PNoFuel
    | S n' =>
        match next_op ops s with
        | Some (mk, s1) => bindp (sub n' s1) (fun y s2 => binloop n' (mk x y) s2)
        | None => POk x s
        end
    end.

  Definition binlevel (n : nat) (s : pstate) : pres uexpr :=
    bindp (sub n s) (fun x s1 => binloop n x s1).
End BinLevel.

(* fn accessors in parse_stmt: is the expression an assignment target? *)
Fixpoint accessors (e : uexpr) : option (list N * list uaccessor) :=
  match e with
  | UIdentifier id => Some (id, [])
  | UArrayAccess a i =>
      match accessors a with Some (id, acc) => Some (id, (acc ++ [AArray i])%list) | None => None end
  | UTupleAccess a i =>
      match accessors a with Some (id, acc) => Some (id, (acc ++ [ATuple i])%list) | None => None end
  | UStructAccess a f =>
      match accessors a with Some (id, acc) => Some (id, (acc ++ [AStruct f])%list) | None => None end
  | _ => None
  end.

(* the compound assignment operators *)
Definition assign_op (t : token_enum) : option bin_op :=
  match t with
  | TAddAssign => Some BAdd | TSubAssign => Some BSub | TMulAssign => Some BMul
  | TDivAssign => Some BDiv | TRemAssign => Some BMod | TBitXorAssign => Some BBitXor
  | TBitAndAssign => Some BBitAnd | TBitOrAssign => Some BBitOr
  | TShrAssign => Some BShiftRight | TShlAssign => Some BShiftLeft
  | _ => None
  end.

(* `let mut target = Identifier(x); for access in accessors { target = Access(target, ..) }`:
   the target of `x.acc op= e` read as an expression (index expressions are CLONED) *)
Definition target_expr (x : list N) (accs : list uaccessor) : uexpr :=
  fold_left (fun target a =>
               match a with
               | AArray i => UArrayAccess target i
               | ATuple i => UTupleAccess target i
               | AStruct f => UStructAccess target f
               end) accs (UIdentifier x).

(* `if !peek(RightBrace) && !peek(Comma) { expect(Semicolon)? }` *)
Definition opt_semicolon {A} (s : pstate) (k : pstate -> pres A) : pres A :=
  if negb (peek TRightBrace s) && negb (peek TComma s) then expect TSemicolon s k else k s.

(* fields.sort_by(|(f1, _), (f2, _)| f1.cmp(f2)): a stable sort on the names (byte strings) *)
Fixpoint name_ltb (a b : list N) : bool :=
  match a, b with
  | _, [] => false
  | [], _ :: _ => true
  | x :: a', y :: b' => (x <? y) || ((x =? y) && name_ltb a' b')
  end.
Fixpoint insert_field {A} (f : list N * A) (l : list (list N * A)) : list (list N * A) :=
  match l with
  | [] => [f]
  | g :: r => if name_ltb (fst f) (fst g) then f :: l else g :: insert_field f r
  end.
Definition sort_fields {A} (l : list (list N * A)) : list (list N * A) :=
  fold_left (fun acc f => insert_field f acc) l [].

(* the loop condition of parse_stmts_of_block *)
Definition block_ends (s : pstate) : bool :=
  match toks s with
  | [] => true
  | _ => peek TRightBrace s || peek TComma s || peek TKeywordPub s || peek TKeywordFn s
         || peek TKeywordStruct s || peek TKeywordEnum s
  end.

(* `if let ExprEnum::NumUnsigned(i, Unspecified) = index.inner { index.inner = NumUnsigned(i, Usize) }`:
   an unsuffixed number that is the WHOLE index is a usize *)
Definition retype_index (index : uexpr) : uexpr :=
  match index with
  | UNumUnsigned i UnspecifiedU => UNumUnsigned i Usize
  | _ => index
  end.

(* `items.push(item()?); while next_matches(Comma) { if peek(close) { break } items.push(item()?) }`
   ([acc] in reverse) *)
Fixpoint sep_loop {A} (item : pstate -> pres A) (close : token_enum) (n : nat) (acc : list A) (s : pstate)
  : pres (list A) :=
  match n with
  | O => PNoFuel
  | S n' =>
      match next_matches TComma s with
      | Some s1 =>
          if peek close s1 then POk (rev acc) s1
          else bindp (item s1) (fun e s2 => sep_loop item close n' (e :: acc) s2)
      | None => POk (rev acc) s
      end
  end.

(* `(p, .., p)` after the `(`: the fields of a tuple / enum-tuple pattern *)
Definition pattern_fields (pp : pstate -> pres upattern) (n : nat) (s : pstate) : pres (list upattern) :=
  bindp (if negb (peek TRightParen s) then bindp (pp s) (fun p s1 => sep_loop pp TRightParen n [p] s1)
         else POk [] s)
    (fun fields s1 => expect TRightParen s1 (fun s2 => POk fields s2)).

(* one field of a struct pattern: `name` or `name: pattern` *)
Definition pattern_field (pp : pstate -> pres upattern) (s : pstate) : pres (list N * upattern) :=
  expect_identifier s (fun fname s1 =>
    if peek TComma s1 || peek TRightBrace s1 then POk (fname, PIdentifier fname) s1
    else expect TColon s1 (fun s2 => bindp (pp s2) (fun p s3 => POk (fname, p) s3))).

(* `while next_matches(Comma) { if peek(}) { break } if next_matches(..) { ignore = true; break } field }` *)
Fixpoint field_loop (pp : pstate -> pres upattern) (n : nat) (acc : list (list N * upattern)) (s : pstate)
  : pres (list (list N * upattern) * bool) :=
  match n with
  | O => PNoFuel
  | S n' =>
      match next_matches TComma s with
      | Some s1 =>
          if peek TRightBrace s1 then POk (rev acc, false) s1
          else match next_matches TDoubleDot s1 with
               | Some s2 => POk (rev acc, true) s2
               | None => bindp (pattern_field pp s1) (fun f s2 => field_loop pp n' (f :: acc) s2)
               end
      | None => POk (rev acc, false) s
      end
  end.

(* i64::MIN: `range_end.checked_sub(1)` is None there *)
Definition i64_min : Z := (-9223372036854775808)%Z.

(* fn parse_pattern *)
Fixpoint parse_pattern (n : nat) (s : pstate) : pres upattern :=
  match n with
  | O => PNoFuel
  | S n' =>
      match toks s with
      | Token (TIdentifier id) _ :: r =>
          let s1 := PState r (sla s) in
          if list_eqb id s_true then POk PTrue s1
          else if list_eqb id s_false then POk PFalse s1
          else
            match next_matches TDoubleColon s1 with
            | Some s2 =>
                expect_identifier s2 (fun variant s3 =>
                  if peek TLeftParen s3 then
                    expect TLeftParen s3 (fun s4 =>
                      bindp (pattern_fields (parse_pattern n') n' s4) (fun fields s5 =>
                        POk (PEnumTuple id variant fields) s5))
                  else POk (PEnumUnit id variant) s3)
            | None =>
                match next_matches TLeftBrace s1 with
                | Some s2 =>
                    bindp (if negb (peek TRightBrace s2)
                           then bindp (pattern_field (parse_pattern n') s2) (fun f s3 =>
                                  field_loop (parse_pattern n') n' [f] s3)
                           else POk ([], false) s2)
                      (fun fi s3 =>
                         expect TRightBrace s3 (fun s4 =>
                           if snd fi then POk (PStructIgnoreRemaining id (sort_fields (fst fi))) s4
                           else POk (PStruct id (sort_fields (fst fi))) s4))
                | None => POk (PIdentifier id) s1
                end
            end
      | Token (TUnsignedNum k ty) _ :: r =>
          let s1 := PState r (sla s) in
          if peek TDoubleDot s1 || peek TDoubleDotEquals s1 then
            let is_inclusive := peek TDoubleDotEquals s1 in
            match toks s1 with
            | _ :: Token (TUnsignedNum range_end ty_end) _ :: r2 =>
                if unsigned_num_type_eq_dec ty ty_end then
                  if is_inclusive then POk (PUnsignedInclusiveRange k range_end ty) (PState r2 (sla s))
                  else if range_end =? 0 then PErr       (* checked_sub(1): an empty range *)
                  else POk (PUnsignedInclusiveRange k (range_end - 1) ty) (PState r2 (sla s))
                else PErr
            | _ => PErr
            end
          else POk (PNumUnsigned k ty) s1
      | Token (TSignedNum k ty) _ :: r =>
          let s1 := PState r (sla s) in
          if peek TDoubleDot s1 || peek TDoubleDotEquals s1 then
            let is_inclusive := peek TDoubleDotEquals s1 in
            match toks s1 with
            | _ :: Token (TSignedNum range_end ty_end) _ :: r2 =>
                if signed_num_type_eq_dec ty ty_end then
                  if is_inclusive then POk (PSignedInclusiveRange k range_end ty) (PState r2 (sla s))
                  else if (range_end =? i64_min)%Z then PErr
                  else POk (PSignedInclusiveRange k (range_end - 1) ty) (PState r2 (sla s))
                else PErr
            | _ => PErr
            end
          else POk (PNumSigned k ty) s1
      | Token TLeftParen _ :: r =>
          bindp (pattern_fields (parse_pattern n') n' (PState r (sla s))) (fun fields s1 =>
            POk (PTuple fields) s1)
      | _ => PErr
      end
  end.

(* fn parse_literal(token, only_literal_children): the children are parsed by [pe], which is
   parse_expr (only_literal_children = false) or parse_literal_recusively (true) *)
Section Literal.
  Variable only_literal_children : bool.
  Variable pe : pstate -> pres uexpr.


  (* `args.push(parse_expr()?); while next_matches(Comma) { if peek(close) { break } args.push(parse_expr()?) }`
     ([acc] in reverse) *)
  Fixpoint comma_loop (close : token_enum) (n : nat) (acc : list uexpr) (s : pstate) : pres (list uexpr) :=
    match n with
    | O => PNoFuel
    | S n' =>
        match next_matches TComma s with
        | Some s1 =>
            if peek close s1 then POk (rev acc) s1
            else bindp (pe s1) (fun e s2 => comma_loop close n' (e :: acc) s2)
        | None => POk (rev acc) s
        end
    end.

  (* one field of a struct literal: `name` (the variable of that name; not a literal) or `name: e` *)
  Definition struct_field (s : pstate) : pres (list N * uexpr) :=
    expect_identifier s (fun name s1 =>
      if peek TComma s1 || peek TRightBrace s1
      then (if only_literal_children then PErr else POk (name, UIdentifier name) s1)
      else expect TColon s1 (fun s2 => bindp (pe s2) (fun value s3 => POk (name, value) s3))).

  (* `(Unspecified, ty) | (ty, Unspecified) => ty, (ty1, ty2) if ty1 == ty2 => ty1, _ => error` *)
  Definition range_type (t1 t2 : unsigned_num_type) : option unsigned_num_type :=
    match t1, t2 with
    | UnspecifiedU, ty => Some ty
    | ty, UnspecifiedU => Some ty
    | _, _ => if unsigned_num_type_eq_dec t1 t2 then Some t1 else None
    end.

  (* fn parse_literal(token, only_literal_children) *)
  Definition parse_literal_gen (n : nat) (t : token_enum) (s : pstate) : pres uexpr :=
    match t with
    | TIdentifier id =>
        if list_eqb id s_true then POk UTrue s
        else if list_eqb id s_false then POk UFalse s
        else
          match next_matches TDoubleColon s with
          | Some s1 =>
              (* E::V  /  E::V(e, ..) *)
              expect_identifier s1 (fun variant s2 =>
                match next_matches TLeftParen s2 with
                | Some s3 =>
                    bindp (if negb (peek TRightParen s3)
                           then bindp (pe s3) (fun a s4 => comma_loop TRightParen n [a] s4)
                           else POk [] s3)
                      (fun fields s4 => expect TRightParen s4 (fun s5 =>
                         POk (UEnumLiteral id variant (Some fields)) s5))
                | None => POk (UEnumLiteral id variant None) s2
                end)
          | None =>
              (* `next_matches(LeftBrace).is_some() && struct_literals_allowed` *)
              match next_matches TLeftBrace s with
              | Some s1 =>
                  if sla s then
                    bindp (if negb (peek TRightBrace s1)
                           then bindp (struct_field s1) (fun f s2 => sep_loop struct_field TRightBrace n [f] s2)
                           else POk [] s1)
                      (fun fields s2 => expect TRightBrace s2 (fun s3 =>
                         POk (UStructLiteral id (sort_fields fields)) s3))
                  else PErr
              | None => PErr
              end
          end
    | TUnsignedNum v ty =>
        match next_matches TDoubleDot s with
        | Some s1 =>
            match toks s1 with
            | Token (TUnsignedNum range_end ty_end) _ :: r =>
                match range_type ty ty_end with
                | Some num_ty => POk (URange v range_end num_ty) (PState r (sla s1))
                | None => PErr          (* InvalidRangeTypes: an error is pushed *)
                end
            | _ => PErr
            end
        | None => POk (UNumUnsigned v ty) s
        end
    | TSignedNum v ty => POk (UNumSigned v ty) s
    | TLeftParen =>
        if negb (peek TRightParen s) then
          bindp (pe s) (fun e s1 =>
            if peek TComma s1 then
              bindp (comma_loop TRightParen n [e] s1) (fun fields s2 =>
                expect TRightParen s2 (fun s3 => POk (UTupleLiteral fields) s3))
            else expect TRightParen s1 (fun s2 => POk e s2))
        else expect TRightParen s (fun s1 => POk (UTupleLiteral []) s1)
    | TLeftBracket =>
        bindp (pe s) (fun elem s1 =>
          if peek TSemicolon s1 then
            expect TSemicolon s1 (fun s2 =>
              match toks s2 with
              | Token (TUnsignedNum k UnspecifiedU) _ :: r
              | Token (TUnsignedNum k Usize) _ :: r =>
                  expect TRightBracket (PState r (sla s2)) (fun s3 => POk (UArrayRepeat elem k) s3)
              | Token (TIdentifier c) _ :: r =>
                  if only_literal_children then PErr      (* `Some(Identifier(n)) if !only_literal_children` *)
                  else expect TRightBracket (PState r (sla s2)) (fun s3 => POk (UArrayRepeatConst elem c) s3)
              | _ => PErr
              end)
          else
            bindp (comma_loop TRightBracket n [elem] s1) (fun elems s2 =>
              expect TRightBracket s2 (fun s3 => POk (UArrayLiteral elems) s3)))
    | _ => PErr
    end.

End Literal.

Section WithExpr.
  (* parse_expr, one nesting level down *)
  Variable pe : pstate -> pres uexpr.

  (* fn parse_literal(token, false) *)
  Definition parse_literal (n : nat) (t : token_enum) (s : pstate) : pres uexpr :=
    parse_literal_gen false pe n t s.

  (* the loop at the end of parse_primary: `while peek([) || peek(.) { .. }` *)
  Fixpoint postfix_loop (n : nat) (x : uexpr) (s : pstate) : pres uexpr :=
    match n with
    | O => PNoFuel
    | S n' =>
        if peek TLeftBracket s || peek TDot s then
          match next_matches TLeftBracket s with
          | Some s1 =>
              (* the index is always a full expression (`a[1 + i]`); retyped when it is a bare
                 unsuffixed number (`a[1]`, also `a[(1)]`); then `]` *)
              bindp (pe s1) (fun index s2 =>
                let index := retype_index index in
                expect TRightBracket s2 (fun s3 => postfix_loop n' (UArrayAccess x index) s3))
          | None =>
              match next_matches TDot s with
              | Some s1 =>
                  match toks s1 with
                  | Token (TIdentifier f) _ :: r => postfix_loop n' (UStructAccess x f) (PState r (sla s1))
                  | Token (TUnsignedNum i UnspecifiedU) _ :: r => postfix_loop n' (UTupleAccess x i) (PState r (sla s1))
                  | _ => PErr
                  end
              | None => POk x s       (* unreachable *)
              end
          end
        else POk x s
    end.

  (* the first part of parse_primary: the expression before the postfix loop *)
  Definition parse_primary_base (n : nat) (s : pstate) : pres uexpr :=
    match advance s with
    | Some (t, s1) =>
        match t with
        | TIdentifier id =>
            if list_eqb id s_true || list_eqb id s_false then parse_literal n t s1
            else if peek TDoubleColon s1 then parse_literal n t s1
            else
              match next_matches TLeftParen s1 with
              | Some s2 =>
                  bindp (if negb (peek TRightParen s2)
                         then bindp (pe s2) (fun a s3 => comma_loop pe TRightParen n [a] s3)
                         else POk [] s2)
                    (fun args s3 => expect TRightParen s3 (fun s4 => POk (UFnCall id args) s4))
              | None =>
                  if peek TLeftBrace s1 && sla s1 then parse_literal n t s1
                  else POk (UIdentifier id) s1
              end
        | _ => parse_literal n t s1
        end
    | None => PErr
    end.

  Definition parse_primary (n : nat) (s : pstate) : pres uexpr :=
    bindp (parse_primary_base n s) (fun x s1 => postfix_loop n x s1).

  Fixpoint parse_unary (n : nat) (s : pstate) : pres uexpr :=
    match n with
    | O => PNoFuel
    | S n' =>
        match next_matches TBang s with
        | Some s1 => bindp (parse_unary n' s1) (fun u s2 => POk (UUnaryOp UoNot u) s2)
        | None =>
            match next_matches TMinus s with
            | Some s1 => bindp (parse_unary n' s1) (fun u s2 => POk (UUnaryOp UoNeg u) s2)
            | None => parse_primary n' s
            end
        end
    end.

  (* `: <type>`? *)
  Definition opt_type {A} (n : nat) (s : pstate) (k : option utype -> pstate -> pres A) : pres A :=
    match next_matches TColon s with
    | Some s1 => bindp (parse_type pe n s1) (fun ty s2 => k (Some ty) s2)
    | None => k None s
    end.

  (* fn parse_stmt *)
  Definition parse_stmt (n : nat) (s : pstate) : pres ustmt :=
    match next_matches TKeywordLet s with
    | Some s1 =>
        match next_matches TKeywordMut s1 with
        | Some s2 =>
            (* let mut <identifier> = <binding>; *)
            expect_identifier s2 (fun identifier s3 =>
              opt_type n s3 (fun ty s4 =>
                expect TEq s4 (fun s5 =>
                  bindp (pe s5) (fun binding s6 =>
                    expect TSemicolon s6 (fun s7 => POk (SLetMut identifier ty binding) s7)))))
        | None =>
            (* let <pattern> = <binding>; *)
            bindp (parse_pattern n s1) (fun pattern s3 =>
              opt_type n s3 (fun ty s4 =>
                expect TEq s4 (fun s5 =>
                  bindp (pe s5) (fun binding s6 =>
                    expect TSemicolon s6 (fun s7 => POk (SLet pattern ty binding) s7)))))
        end
    | None =>
        match next_matches TKeywordFor s with
        | Some s1 =>
            (* for <pattern> in <binding> { <body> } *)
            bindp (parse_pattern n s1) (fun pattern s2 =>
              expect TKeywordIn s2 (fun s3 =>
                let struct_literals_allowed := sla s3 in
                bindp (pe (set_sla false s3)) (fun binding s4 =>
                  let s5 := set_sla struct_literals_allowed s4 in
                  (* expect({); parse_stmts(); expect(}): parse_expr on the `{` *)
                  if peek TLeftBrace s5 then
                    bindp (pe s5) (fun blk s6 =>
                      match blk with
                      | UBlock loop_body => POk (SForEach pattern binding loop_body) s6
                      | _ => PErr     (* unreachable *)
                      end)
                  else PErr)))
        | None =>
            let is_conditional_or_block := peek TKeywordIf s || peek TKeywordMatch s || peek TLeftBrace s in
            bindp (pe s) (fun e s1 =>
              match accessors e with
              | Some (identifier, accs) =>
                  match next_matches TEq s1 with
                  | Some s2 =>
                      bindp (pe s2) (fun value s3 =>
                        opt_semicolon s3 (fun s4 => POk (SVarAssign identifier accs value) s4))
                  | None =>
                      match toks s1 with
                      | Token next _ :: r =>
                          match assign_op next with
                          | Some op =>
                              bindp (pe (PState r (sla s1))) (fun value s3 =>
                                opt_semicolon s3 (fun s4 =>
                                  (* x.acc op= value  ~>  x.acc = x.acc op value *)
                                  POk (SVarAssign identifier accs (UOp op (target_expr identifier accs) value)) s4))
                          | None => opt_semicolon s1 (fun s2 => POk (SExpr e) s2)
                          end
                      | [] => opt_semicolon s1 (fun s2 => POk (SExpr e) s2)
                      end
                  end
              | None =>
                  if negb is_conditional_or_block && negb (peek TRightBrace s1) && negb (peek TComma s1)
                  then expect TSemicolon s1 (fun s2 => POk (SExpr e) s2) else POk (SExpr e) s1
              end)
        end
    end.

  (* fn parse_stmts_of_block ([acc] in reverse) *)
  Fixpoint stmts_loop (n : nat) (acc : list ustmt) (s : pstate) : pres (list ustmt) :=
    match n with
    | O => PNoFuel
    | S n' =>
        if block_ends s then POk (rev acc) s
        else bindp (parse_stmt n' s) (fun stmt s1 => stmts_loop n' (stmt :: acc) s1)
    end.

  Definition parse_stmts_of_block (n : nat) (s : pstate) : pres (list ustmt) := stmts_loop n [] s.

  (* fn parse_stmts: inside the braces of a block struct literals are allowed again *)
  Definition parse_stmts (n : nat) (s : pstate) : pres (list ustmt) :=
    let struct_literals_allowed := sla s in
    bindp (parse_stmts_of_block n (set_sla true s)) (fun stmts s1 =>
      POk stmts (set_sla struct_literals_allowed s1)).

  (* fn parse_block_as_expr: exactly one expression statement is that expression, no statement
     is `()`, anything else a Block *)
  Definition parse_block_as_expr (n : nat) (s : pstate) : pres uexpr :=
    bindp (parse_stmts n s) (fun stmts s1 =>
      match stmts with
      | [SExpr e] => POk e s1
      | [] => POk (UTupleLiteral []) s1
      | _ => POk (UBlock stmts) s1
      end).

  (* fn parse_match_clause: (clause, ends_with_brace) *)
  Definition parse_match_clause (n : nat) (s : pstate) : pres ((upattern * uexpr) * bool) :=
    bindp (parse_pattern n s) (fun pattern s1 =>
      expect TFatArrow s1 (fun s2 =>
        bindp (parse_stmt n s2) (fun stmt s3 =>
          let ends_with_brace :=
            match stmt with
            | SExpr (UMatch _ _) | SExpr (UBlock _) | SExpr (UIf _ _ _) => true
            | _ => false
            end in
          POk ((pattern, UBlock [stmt]), ends_with_brace) s3))).

  (* `while next_matches(Comma).is_some() || clause_ended_with_brace { if peek(}) || at_end { break } clause }`
     ([acc] in reverse) *)
  Fixpoint match_loop (n : nat) (ended_with_brace : bool) (acc : list (upattern * uexpr)) (s : pstate)
    : pres (list (upattern * uexpr)) :=
    match n with
    | O => PNoFuel
    | S n' =>
        let go s1 :=
          if peek TRightBrace s1 || (match toks s1 with [] => true | _ => false end) then POk (rev acc) s1
          else bindp (parse_match_clause n' s1) (fun ce s2 => match_loop n' (snd ce) (fst ce :: acc) s2) in
        match next_matches TComma s with
        | Some s1 => go s1
        | None => if ended_with_brace then go s else POk (rev acc) s
        end
    end.

  Fixpoint parse_if_or_match (n : nat) (s : pstate) : pres uexpr :=
    match n with
    | O => PNoFuel
    | S n' =>
        match next_matches TKeywordIf s with
        | Some s1 =>
            let struct_literals_allowed := sla s1 in
            bindp (pe (set_sla false s1)) (fun cond_expr s2 =>
              let s3 := set_sla struct_literals_allowed s2 in
              expect TLeftBrace s3 (fun s4 =>
                bindp (parse_block_as_expr n' s4) (fun then_expr s5 =>
                  expect TRightBrace s5 (fun s6 =>
                    match next_matches TKeywordElse s6 with
                    | Some s7 =>
                        if peek TKeywordIf s7 then
                          (* only the `if` expression itself: operators after the chain apply to
                             the whole chain, not to its last `else if` *)
                          bindp (parse_if_or_match n' s7) (fun elseif_expr s8 =>
                            POk (UIf cond_expr then_expr elseif_expr) s8)
                        else
                          expect TLeftBrace s7 (fun s8 =>
                            bindp (parse_block_as_expr n' s8) (fun else_expr s9 =>
                              expect TRightBrace s9 (fun s10 =>
                                POk (UIf cond_expr then_expr else_expr) s10)))
                    | None => POk (UIf cond_expr then_expr (UTupleLiteral [])) s6
                    end))))
        | None =>
            match next_matches TKeywordMatch s with
            | Some s1 =>
                (* match <match_expr> { <clause> * } *)
                let struct_literals_allowed := sla s1 in
                bindp (pe (set_sla false s1)) (fun match_expr s2 =>
                  let s3 := set_sla struct_literals_allowed s2 in
                  expect TLeftBrace s3 (fun s4 =>
                    bindp (parse_match_clause n' s4) (fun ce s5 =>
                      bindp (match_loop n' (snd ce) [fst ce] s5) (fun clauses s6 =>
                        expect TRightBrace s6 (fun s7 => POk (UMatch match_expr clauses) s7)))))
            | None => parse_unary n' s
            end
        end
    end.

  (* `while next_matches(KeywordAs) { ty = parse_type()?; x = Cast(ty, x) }` *)
  Fixpoint cast_loop (n : nat) (x : uexpr) (s : pstate) : pres uexpr :=
    match n with
    | O => PNoFuel
    | S n' =>
        match next_matches TKeywordAs s with
        | Some s1 => bindp (parse_type pe n' s1) (fun ty s2 => cast_loop n' (UCast ty x) s2)
        | None => POk x s
        end
    end.

  Definition parse_cast (n : nat) (s : pstate) : pres uexpr :=
    bindp (parse_if_or_match n s) (fun x s1 => cast_loop n x s1).

  Definition parse_factor := binlevel ops_factor parse_cast.
  Definition parse_term := binlevel ops_term parse_factor.
  Definition parse_shift := binlevel ops_shift parse_term.
  Definition parse_and := binlevel ops_and parse_shift.
  Definition parse_xor := binlevel ops_xor parse_and.
  Definition parse_or := binlevel ops_or parse_xor.
  Definition parse_comparison := binlevel ops_comparison parse_or.
  Definition parse_equality := binlevel ops_equality parse_comparison.
  Definition parse_short_circuiting_and := binlevel ops_sc_and parse_equality.
  Definition parse_short_circuiting_or := binlevel ops_sc_or parse_short_circuiting_and.

  (* fn parse_expr, given parse_expr one level down *)
  Definition parse_expr_body (n : nat) (s : pstate) : pres uexpr :=
    match next_matches TLeftBrace s with
    | Some s1 =>
        (* { ... } *)
        bindp (parse_stmts n s1) (fun stmts s2 =>
          expect TRightBrace s2 (fun s3 => POk (UBlock stmts) s3))
    | None => parse_short_circuiting_or n s
    end.
End WithExpr.

Fixpoint parse_expr_st (fuel : nat) (s : pstate) : pres uexpr :=
  match fuel with
  | O => PNoFuel
  | S f => parse_expr_body (parse_expr_st f) f s
  end.

(* the entry point: an expression at the front of a token list, struct literals allowed
   (the state of a fresh parser) *)
Definition parse_expr (fuel : nat) (ts : list token) : option (uexpr * list token) :=
  match parse_expr_st fuel (PState ts true) with
  | POk e s => Some (e, toks s)
  | _ => None
  end.

(* the body of a function: [ts] = the tokens between the braces of `{ .. }` (parse_fn_def:
   `expect({); let body = parse_stmts()?; expect(})`), struct literals allowed.  The closing
   brace is put back behind [ts] (the `;` rules of the last statement look at it), expected
   after the statements, and nothing may follow it *)
Definition parse_block_text (fuel : nat) (ts : list token) : pres (list ustmt) :=
  let closing := Token TRightBrace (Meta (0, 0) (0, 0)) in
  bindp (parse_stmts (parse_expr_st fuel) fuel (PState (ts ++ [closing]) true)) (fun stmts s =>
    expect TRightBrace s (fun s1 =>
      match toks s1 with [] => POk stmts s1 | _ => PErr end)).

(* a generous amount of fuel for a token list: every unit of fuel is spent together with a
   token (a loop iteration, a unary operator, a nesting level).  Adequacy is PROVED only for the
   printed inputs of ParseExprProofs.v ([parse_show_min] gives some fuel); for other inputs it
   is a default for the extracted parser. *)
Definition fuel_for_tokens (ts : list token) : nat := S (S (List.length ts)).

(* ------------------------------------------------------------------ the literal mode *)

(* fn parse_literal_recusively: `if let Some(token) = self.advance() { parse_literal(token, true) } else { Err }` *)
Fixpoint parse_literal_recursively (n : nat) (s : pstate) : pres uexpr :=
  match n with
  | O => PNoFuel
  | S n' =>
      match advance s with
      | Some (t, s1) => parse_literal_gen true (parse_literal_recursively n') n' t s1
      | None => PErr
      end
  end.

(* Tokens::parse_literal (used by Literal::parse for argument texts): the first token starts a
   literal whose children are literals; the whole input must be that one literal; an error that
   does not stop the parser (`0u8..3u16`) is an error nonetheless ([PErr] already where it is
   pushed); the empty input is an InvalidLiteral *)
Definition parse_literal_text (fuel : nat) (ts : list token) : pres uexpr :=
  match advance (PState ts true) with
  | Some (t, s1) =>
      bindp (parse_literal_gen true (parse_literal_recursively fuel) fuel t s1) (fun e s2 =>
        match toks s2 with [] => POk e s2 | _ => PErr end)
  | None => PErr
  end.

(* ------------------------------------------------------------------ top-level items *)

Inductive uvariant :=
| VUnit (name : list N)
| VTuple (name : list N) (fields : list utype).

(* ParamDef { mutability, name, ty } *)
Record uparam := UParam { p_mutable : bool; p_name : list N; p_ty : utype }.

(* FnDef { is_pub, identifier, ty, params, body } *)
Record ufndef := UFnDef {
  f_is_pub : bool; f_identifier : list N; f_ty : utype; f_params : list uparam; f_body : list ustmt }.

(* ConstDef { ty, value } *)
Record uconstdef := UConstDef { c_ty : utype; c_value : uconst }.

(* Program { const_defs, struct_defs, enum_defs, fn_defs }: the four HashMaps, as association
   lists; StructDef { fields } (sorted by name), EnumDef { variants } *)
Record uprogram := UProgram {
  up_const_defs : list (list N * uconstdef);
  up_struct_defs : list (list N * list (list N * utype));
  up_enum_defs : list (list N * list uvariant);
  up_fn_defs : list (list N * ufndef) }.

(* HashMap::insert *)
Definition map_insert {A} (k : list N) (v : A) (m : list (list N * A)) : list (list N * A) :=
  (filter (fun kv => negb (list_eqb (fst kv) k)) m ++ [(k, v)])%list.

Section TopLevel.
  Variable fuel : nat.
  Let pe := parse_expr_st fuel.

  (* fn parse_const_def (the keyword is consumed) *)
  Definition parse_const_def (s : pstate) : pres (list N * uconstdef) :=
    expect_identifier s (fun identifier s1 =>
      expect TColon s1 (fun s2 =>
        bindp (parse_type pe fuel s2) (fun ty s3 =>
          expect TEq s3 (fun s4 =>
            bindp (pe s4) (fun e s5 =>
              match const_of_expr e with
              | Some value => expect TSemicolon s5 (fun s6 => POk (identifier, UConstDef ty value) s6)
              | None => PErr
              end))))).

  (* `name: type` *)
  Definition parse_field_def (s : pstate) : pres (list N * utype) :=
    expect_identifier s (fun name s1 =>
      expect TColon s1 (fun s2 => bindp (parse_type pe fuel s2) (fun ty s3 => POk (name, ty) s3))).

  (* fn parse_struct_def *)
  Definition parse_struct_def (s : pstate) : pres (list N * list (list N * utype)) :=
    expect_identifier s (fun identifier s1 =>
      expect TLeftBrace s1 (fun s2 =>
        bindp (if negb (peek TRightBrace s2)
               then bindp (parse_field_def s2) (fun f s3 => sep_loop parse_field_def TRightBrace fuel [f] s3)
               else POk [] s2)
          (fun fields s3 => expect TRightBrace s3 (fun s4 => POk (identifier, sort_fields fields) s4)))).

  (* fn parse_variant *)
  Definition parse_variant (s : pstate) : pres uvariant :=
    expect_identifier s (fun variant_name s1 =>
      match next_matches TLeftParen s1 with
      | Some s2 =>
          bindp (match toks s2 with
                 | Token (TIdentifier _) _ :: _ => bindp (parse_type pe fuel s2) (fun ty s3 => POk [ty] s3)
                 | _ => POk [] s2
                 end)
            (fun first s3 =>
               bindp (sep_loop (parse_type pe fuel) TRightParen fuel (rev first) s3) (fun fields s4 =>
                 expect TRightParen s4 (fun s5 => POk (VTuple variant_name fields) s5)))
      | None => POk (VUnit variant_name) s1
      end).

  (* fn parse_enum_def *)
  Definition parse_enum_def (s : pstate) : pres (list N * list uvariant) :=
    expect_identifier s (fun identifier s1 =>
      expect TLeftBrace s1 (fun s2 =>
        bindp (parse_variant s2) (fun v s3 =>
          bindp (sep_loop parse_variant TRightBrace fuel [v] s3) (fun variants s4 =>
            expect TRightBrace s4 (fun s5 => POk (identifier, variants) s5))))).

  (* fn parse_param: mut <param>: <type> *)
  Definition parse_param (s : pstate) : pres uparam :=
    let (is_mutable, s1) := match next_matches TKeywordMut s with Some s1 => (true, s1) | None => (false, s) end in
    expect_identifier s1 (fun name s2 =>
      expect TColon s2 (fun s3 => bindp (parse_type pe fuel s3) (fun ty s4 => POk (UParam is_mutable name ty) s4))).

  (* fn parse_params *)
  Definition parse_params (s : pstate) : pres (list uparam) :=
    bindp (parse_param s) (fun p s1 => sep_loop parse_param TRightParen fuel [p] s1).

  (* fn parse_fn_def *)
  Definition parse_fn_def (is_pub : bool) (s : pstate) : pres ufndef :=
    expect_identifier s (fun identifier s1 =>
      expect TLeftParen s1 (fun s2 =>
        bindp (if negb (peek TRightParen s2) then parse_params s2 else POk [] s2) (fun params s3 =>
          expect TRightParen s3 (fun s4 =>
            expect TArrow s4 (fun s5 =>
              bindp (parse_type pe fuel s5) (fun ty s6 =>
                expect TLeftBrace s6 (fun s7 =>
                  bindp (parse_stmts pe fuel s7) (fun body s8 =>
                    expect TRightBrace s8 (fun s9 =>
                      POk (UFnDef is_pub identifier ty params body) s9))))))))).

  (* fn parse: `while let Some(token) = self.advance() { match token { .. } }` *)
  Fixpoint items_loop (n : nat) (is_pub : bool) (prog : uprogram) (s : pstate) : pres uprogram :=
    match n with
    | O => PNoFuel
    | S n' =>
        match advance s with
        | None => POk prog s
        | Some (t, s1) =>
            match t with
            | TKeywordPub => if is_pub then PErr else items_loop n' true prog s1
            | TKeywordConst =>
                bindp (parse_const_def s1) (fun d s2 =>
                  items_loop n' false
                    (UProgram (map_insert (fst d) (snd d) (up_const_defs prog)) (up_struct_defs prog)
                              (up_enum_defs prog) (up_fn_defs prog)) s2)
            | TKeywordStruct =>
                bindp (parse_struct_def s1) (fun d s2 =>
                  items_loop n' false
                    (UProgram (up_const_defs prog) (map_insert (fst d) (snd d) (up_struct_defs prog))
                              (up_enum_defs prog) (up_fn_defs prog)) s2)
            | TKeywordEnum =>
                bindp (parse_enum_def s1) (fun d s2 =>
                  items_loop n' false
                    (UProgram (up_const_defs prog) (up_struct_defs prog)
                              (map_insert (fst d) (snd d) (up_enum_defs prog)) (up_fn_defs prog)) s2)
            | TKeywordFn =>
                bindp (parse_fn_def is_pub s1) (fun d s2 =>
                  items_loop n' false
                    (UProgram (up_const_defs prog) (up_struct_defs prog) (up_enum_defs prog)
                              (map_insert (f_identifier d) d (up_fn_defs prog))) s2)
            | _ => PErr          (* InvalidTopLevelDef *)
            end
        end
    end.
End TopLevel.

(* a whole program text: struct literals allowed (a fresh parser) *)
Definition parse_program_text (fuel : nat) (ts : list token) : pres uprogram :=
  items_loop fuel fuel false (UProgram [] [] [] []) (PState ts true).
