(* Model of garble_lang::register_circuit::{Circuit, Inst, Op, Circuit::validate, Circuit::eval}
   (src/register_circuit.rs:18-209), as repaired by the "fix:" commit recorded in
   known_findings.json (validate bounds-checks registers against max_reg_count itself,
   checks Input{party,input} against input_regs and requires every output register to be
   written). *)
From GV Require Import Base.Util.

Inductive op :=
| OXor (a b : N)
| OAnd (a b : N)
| ONot (a : N)
| OInput (party input : N).

Record inst := mkInst { iout : N; iop : op }.

Record rcircuit := mkRCircuit {
  input_regs : list N;
  insts : list inst;
  max_reg_count : N;
  output_regs : list N;
  and_ops : N
}.

Inductive rerr :=
| REmptyInputs
| RInvalidInst (i : N)
| REmptyOutputs
| RInvalidOutput (r : N)
| RMaxCircuitSizeExceeded
| RInvalidRegAccess (i r : N)
| RInvalidInput (i : N) (ins : inst).

Definition MAX_GATES_R : N := 4294967295.

Fixpoint set_nth {A} (l : list A) (i : nat) (a : A) : option (list A) :=
  match l, i with
  | [], _ => None
  | _ :: r, O => Some (a :: r)
  | x :: r, S i' => match set_nth r i' a with Some r' => Some (x :: r') | None => None end
  end.

Definition setN {A} (l : list A) (i : N) (a : A) : option (list A) :=
  if i <? lenN l then set_nth l (N.to_nat i) a else None.

Fixpoint first_bad_output (n : N) (os : list N) : option rerr :=
  match os with
  | [] => None
  | o :: r => if n <=? o then Some (RInvalidOutput o) else first_bad_output n r
  end.

(* one step of the instruction loop of validate; [Ok (inl e)] = return Err(e),
   [Ok (inr set')] = continue, [Crash] = index panic inside validate itself *)
Definition validate_inst (c : rcircuit) (set : list bool) (i : N) (ins : inst)
  : res (rerr + list bool) :=
  let n := max_reg_count c in
  if n <=? iout ins then Ok (inl (RInvalidInst i)) else
  let check :=
    match iop ins with
    | OInput p k =>
        if negb (i =? iout ins) then Ok (Some (RInvalidInput i ins)) else
        let sz := match nthN (input_regs c) p with Some s => s | None => 0 end in
        if sz <=? k then Ok (Some (RInvalidInput i ins)) else Ok None
    | OXor x y | OAnd x y =>
        if (n <=? x) || (n <=? y) then Ok (Some (RInvalidInst i)) else
        match nthN set x with
        | None => Crash
        | Some false => Ok (Some (RInvalidRegAccess i x))
        | Some true =>
            match nthN set y with
            | None => Crash
            | Some false => Ok (Some (RInvalidRegAccess i x))  (* sic: reports x *)
            | Some true => Ok None
            end
        end
    | ONot x =>
        if n <=? x then Ok (Some (RInvalidInst i)) else
        match nthN set x with
        | None => Crash
        | Some false => Ok (Some (RInvalidRegAccess i x))
        | Some true => Ok None
        end
    end in
  match check with
  | Crash => Crash
  | OutOfFuel => OutOfFuel
  | Ok (Some e) => Ok (inl e)
  | Ok None =>
      match setN set (iout ins) true with
      | Some set' => Ok (inr set')
      | None => Crash
      end
  end.

Fixpoint validate_insts (c : rcircuit) (set : list bool) (i : N) (l : list inst)
  : res (rerr + list bool) :=
  match l with
  | [] => Ok (inr set)
  | ins :: r =>
      match validate_inst c set i ins with
      | Ok (inr set') => validate_insts c set' (i + 1) r
      | other => other
      end
  end.

Fixpoint first_unset_output (set : list bool) (ninsts : N) (os : list N) : res (option rerr) :=
  match os with
  | [] => Ok None
  | o :: r =>
      match nthN set o with
      | None => Crash
      | Some false => Ok (Some (RInvalidRegAccess ninsts o))
      | Some true => first_unset_output set ninsts r
      end
  end.

(* [Ok None] = Ok(()), [Ok (Some e)] = Err(e), [Crash] = validate itself panics *)
Definition reg_validate (c : rcircuit) : res (option rerr) :=
  if forallb (N.eqb 0) (input_regs c) then Ok (Some REmptyInputs) else
  match output_regs c with
  | [] => Ok (Some REmptyOutputs)
  | _ =>
    match first_bad_output (max_reg_count c) (output_regs c) with
    | Some e => Ok (Some e)
    | None =>
      if MAX_GATES_R <? lenN (insts c) then Ok (Some RMaxCircuitSizeExceeded) else
      match validate_insts c (repeat false (N.to_nat (max_reg_count c))) 0 (insts c) with
      | Crash => Crash
      | OutOfFuel => OutOfFuel
      | Ok (inl e) => Ok (Some e)
      | Ok (inr set) => first_unset_output set (lenN (insts c)) (output_regs c)
      end
    end
  end.

(* ---- evaluation as the Rust code does it: registers start as [false] ---- *)

Definition get_input (ins : list (list bool)) (p k : N) : option bool :=
  match nthN ins p with
  | Some bits => nthN bits k
  | None => None
  end.

Definition shape_check (ig : list N) (ins : list (list bool)) : bool :=
  (lenN ins =? lenN ig) &&
  forallb (fun p => lenN (snd p) =? fst p) (combine ig ins).

Definition op_val (ins : list (list bool)) (regs : list bool) (o : op) : option bool :=
  match o with
  | OXor a b =>
      match nthN regs a, nthN regs b with
      | Some x, Some y => Some (xorb x y) | _, _ => None end
  | OAnd a b =>
      match nthN regs a, nthN regs b with
      | Some x, Some y => Some (andb x y) | _, _ => None end
  | ONot a =>
      match nthN regs a with Some x => Some (negb x) | None => None end
  | OInput p k => get_input ins p k
  end.

Fixpoint run_insts (ins : list (list bool)) (regs : list bool) (l : list inst)
  : option (list bool) :=
  match l with
  | [] => Some regs
  | i :: r =>
      match op_val ins regs (iop i) with
      | None => None
      | Some b =>
          match setN regs (iout i) b with
          | None => None
          | Some regs' => run_insts ins regs' r
          end
      end
  end.

Definition reg_eval (c : rcircuit) (ins : list (list bool)) : option (list bool) :=
  if negb (shape_check (input_regs c) ins) then None else
  match run_insts ins (repeat false (N.to_nat (max_reg_count c))) (insts c) with
  | None => None
  | Some regs => mapM (nthN regs) (output_regs c)
  end.

(* ---- strict evaluation: a register holds a value only after it was written ---- *)

Definition rd (regs : list (option bool)) (a : N) : option bool :=
  match nthN regs a with Some (Some x) => Some x | _ => None end.

Definition op_val_strict (ins : list (list bool)) (regs : list (option bool)) (o : op)
  : option bool :=
  match o with
  | OXor a b =>
      match rd regs a, rd regs b with
      | Some x, Some y => Some (xorb x y) | _, _ => None end
  | OAnd a b =>
      match rd regs a, rd regs b with
      | Some x, Some y => Some (andb x y) | _, _ => None end
  | ONot a =>
      match rd regs a with Some x => Some (negb x) | None => None end
  | OInput p k => get_input ins p k
  end.

Fixpoint run_insts_strict (ins : list (list bool)) (regs : list (option bool)) (l : list inst)
  : option (list (option bool)) :=
  match l with
  | [] => Some regs
  | i :: r =>
      match op_val_strict ins regs (iop i) with
      | None => None
      | Some b =>
          match setN regs (iout i) (Some b) with
          | None => None
          | Some regs' => run_insts_strict ins regs' r
          end
      end
  end.

Definition reg_eval_strict (c : rcircuit) (ins : list (list bool)) : option (list bool) :=
  if negb (shape_check (input_regs c) ins) then None else
  match run_insts_strict ins (repeat None (N.to_nat (max_reg_count c))) (insts c) with
  | None => None
  | Some regs => mapM (rd regs) (output_regs c)
  end.
