(* Model of the SSA -> register conversion, src/register_circuit.rs:236-408
   (last_use_map, RegisterAllocator::{new, convert_circuit, find_out_reg}).
   [usize::MAX] (the pin of output wires) is the constructor [Pinned]: a gate id never
   equals usize::MAX.  [Crash] = the Rust code panics (wire_map[&a] on a missing key, the
   unreachable!() of find_out_reg). *)
From GV Require Import Base.Util Base.NMap Circuit.Ssa Circuit.Reg.

Inductive lastuse := LU (g : N) | Pinned.

Fixpoint last_use_gates (g : N) (gs : list gate) (m : nmap lastuse) : nmap lastuse :=
  match gs with
  | [] => m
  | GXor a b :: r | GAnd a b :: r =>
      last_use_gates (g + 1) r (nadd b (LU g) (nadd a (LU g) m))
  | GNot a :: r => last_use_gates (g + 1) r (nadd a (LU g) m)
  end.

Fixpoint pin_outputs (os : list N) (m : nmap lastuse) : nmap lastuse :=
  match os with
  | [] => m
  | o :: r => pin_outputs r (nadd o Pinned m)
  end.

Definition last_use_map (c : circuit) : nmap lastuse :=
  pin_outputs (output_gates c) (last_use_gates (num_inputs c) (gates c) nempty).

Record astate := mkAState {
  wire_map : nmap N;
  free_regs : list N;      (* head = top of the Rust Vec used as a stack *)
  next_reg : N
}.

Definition dies_here (lu : nmap lastuse) (w gate_id : N) : bool :=
  match nfind w lu with
  | Some (LU l) => l =? gate_id
  | _ => false
  end.

(* find_out_reg in three phases (operand a, operand b, choice of the register) *)
Definition take_a (lu : nmap lastuse) (wm : nmap N) (gate_id a : N) : res (option N * nmap N) :=
  if dies_here lu a gate_id then
    match nfind a wm with
    | Some reg => Ok (Some reg, nremove a wm)
    | None => Crash                         (* unreachable!() *)
    end
  else Ok (None, wm).

Definition take_b (lu : nmap lastuse) (gate_id : N) (b : option N)
    (reuse : option N) (wm1 : nmap N) (free : list N) : option N * nmap N * list N :=
  match b with
  | Some b =>
      if dies_here lu b gate_id then
        match nfind b wm1 with
        | Some reg =>
            match reuse with
            | Some _ => (reuse, nremove b wm1, reg :: free)
            | None => (Some reg, nremove b wm1, free)
            end
        | None => (reuse, wm1, free)    (* a == b, already removed *)
        end
      else (reuse, wm1, free)
  | None => (reuse, wm1, free)
  end.

Definition pick_reg (reuse : option N) (wm2 : nmap N) (free : list N) (next : N) : N * astate :=
  match reuse with
  | Some reg => (reg, mkAState wm2 free next)
  | None =>
      match free with
      | reg :: free' => (reg, mkAState wm2 free' next)
      | [] => (next, mkAState wm2 [] (next + 1))
      end
  end.

Definition find_out_reg (lu : nmap lastuse) (st : astate) (gate_id a : N) (b : option N)
  : res (N * astate) :=
  let* (reuse, wm1) := take_a lu (wire_map st) gate_id a in
  let '(reuse, wm2, free) := take_b lu gate_id b reuse wm1 (free_regs st) in
  Ok (pick_reg reuse wm2 free (next_reg st)).

Definition conv_gate (lu : nmap lastuse) (st : astate) (gate_id : N) (g : gate)
  : res (inst * astate) :=
  match g with
  | GXor a b =>
      let* ra := of_option (nfind a (wire_map st)) in
      let* rb := of_option (nfind b (wire_map st)) in
      let* (out, st') := find_out_reg lu st gate_id a (Some b) in
      Ok (mkInst out (OXor ra rb),
          mkAState (nadd gate_id out (wire_map st')) (free_regs st') (next_reg st'))
  | GAnd a b =>
      let* ra := of_option (nfind a (wire_map st)) in
      let* rb := of_option (nfind b (wire_map st)) in
      let* (out, st') := find_out_reg lu st gate_id a (Some b) in
      Ok (mkInst out (OAnd ra rb),
          mkAState (nadd gate_id out (wire_map st')) (free_regs st') (next_reg st'))
  | GNot a =>
      let* ra := of_option (nfind a (wire_map st)) in
      let* (out, st') := find_out_reg lu st gate_id a None in
      Ok (mkInst out (ONot ra),
          mkAState (nadd gate_id out (wire_map st')) (free_regs st') (next_reg st'))
  end.

Fixpoint conv_gates (lu : nmap lastuse) (st : astate) (gate_id : N) (gs : list gate)
  : res (list inst * astate) :=
  match gs with
  | [] => Ok ([], st)
  | g :: r =>
      let* (i, st1) := conv_gate lu st gate_id g in
      let* (is, st2) := conv_gates lu st1 (gate_id + 1) r in
      Ok (i :: is, st2)
  end.

Fixpoint input_ops (p : N) (ig : list N) : list op :=
  match ig with
  | [] => []
  | n :: r => map (fun k => OInput p (N.of_nat k)) (seq 0 (N.to_nat n)) ++ input_ops (p + 1) r
  end.

Fixpoint number_insts (i : N) (ops : list op) : list inst :=
  match ops with
  | [] => []
  | o :: r => mkInst i o :: number_insts (i + 1) r
  end.

Fixpoint init_wire_map (is : list inst) (m : nmap N) : nmap N :=
  match is with
  | [] => m
  | i :: r => init_wire_map r (nadd (iout i) (iout i) m)
  end.


Definition convert (c : circuit) : res rcircuit :=
  let lu := last_use_map c in
  let iinsts := number_insts 0 (input_ops 0 (input_gates c)) in
  let n := num_inputs c in
  let st0 := mkAState (init_wire_map iinsts nempty) [] n in
  let* (ginsts, st) := conv_gates lu st0 n (gates c) in
  let* outs := mapM_res (fun o => of_option (nfind o (wire_map st))) (output_gates c) in
  Ok (mkRCircuit (input_gates c) (iinsts ++ ginsts) (next_reg st) outs (and_gates c)).
