(* Model of garble_lang::convert (src/convert.rs): Circuit::format_as_bristol (export) and
   Circuit::bristol_to_garble + parse_line (import), on *token lines*.

   A Bristol file is a list of lines, a line is the list of its whitespace-separated tokens.
   A token is [TNum n] when Rust's [str::parse::<usize>] accepts it (value n <= 2^64-1) and a
   word otherwise; of the words only XOR / AND / INV are distinguished.  Splitting text into
   lines and tokens and reading decimal numbers is glue on both sides of the tie (the Rust
   side runs the real tokeniser: it writes the lines to a file and calls the importer).

   [Crash] = the Rust code panics here: usize overflow (debug build), slice/index out of
   range, or an allocation whose size exceeds the limit parameter [lim].
   The import model follows the *repaired* importer (fixes/1-*.patch and 2-*.patch: checked
   sums, header consistency, no allocation sized by the header). *)
From GV Require Import Base.Util Circuit.Ssa.

Inductive word := WXor | WAnd | WInv | WOther.
Inductive tok := TNum (n : N) | TWord (w : word).
Definition line := list tok.

Definition USIZE_MAX : N := 18446744073709551615.
Definition PANIC_BITS : nat := 161.          (* PANIC_RESULT_SIZE_IN_BITS = 1 + 5 * 32 *)

(* usize arithmetic as the debug build performs it *)
Definition cadd (a b : N) : res N := if a + b <=? USIZE_MAX then Ok (a + b) else Crash.
Definition csub (a b : N) : res N := if b <=? a then Ok (a - b) else Crash.
(* iter().sum::<usize>() : partial sums are monotone, so it overflows iff the total does *)
Definition csum (l : list N) : res N := if sumN l <=? USIZE_MAX then Ok (sumN l) else Crash.
(* usize::checked_add and the checked sum the repaired importer uses *)
Definition checked_add (a b : N) : option N := if a + b <=? USIZE_MAX then Some (a + b) else None.
Definition checked_sum (l : list N) : option N := if sumN l <=? USIZE_MAX then Some (sumN l) else None.
(* vec![0; n], (0..n).collect() : sizes beyond [lim] words abort/panic *)
Definition alloc (lim n : N) : res unit := if n <=? lim then Ok tt else Crash.

(* l[a..b] *)
Definition slice {A} (l : list A) (a b : N) : res (list A) :=
  if (a <=? b) && (b <=? lenN l) then Ok (firstn (N.to_nat (b - a)) (skipn (N.to_nat a) l))
  else Crash.

Fixpoint last_opt {A} (l : list A) : option A :=
  match l with
  | [] => None
  | [a] => Some a
  | _ :: r => last_opt r
  end.

(* ------------------------------------------------------------------------------------ *)
(* Export: format_as_bristol (convert.rs:158-268)                                        *)

Inductive xerr :=
| XOutputWireIsInput
| XIoError.                (* file system; never produced by the model *)

(* the loop that de-aliases repeated outputs (convert.rs:183-196); [seen] holds the original
   values only, exactly as the HashSet does *)
Fixpoint dealias (outs seen : list N) (wmax : N) : res (list gate * list N * N) :=
  match outs with
  | [] => Ok ([], [], wmax)
  | o :: r =>
      if existsb (N.eqb o) seen then
        let* w1 := cadd wmax 1 in
        let* w2 := cadd wmax 2 in
        let* x := dealias r seen w2 in
        let '(gs, os, w) := x in
        Ok (GXor o o :: GXor o wmax :: gs, w1 :: os, w)
      else
        let* x := dealias r (o :: seen) wmax in
        let '(gs, os, w) := x in
        Ok (gs, o :: os, w)
  end.

(* HashMap built by collect(): a later duplicate overwrites, so the *last* position wins *)
Fixpoint pos_last (l : list N) (x : N) : option N :=
  match l with
  | [] => None
  | y :: r =>
      match pos_last r x with
      | Some k => Some (k + 1)
      | None => if y =? x then Some 0 else None
      end
  end.

Fixpoint nseq (n : nat) (a : N) : list N :=
  match n with
  | O => []
  | S k => a :: nseq k (a + 1)
  end.

(* the loop filling wires_map for the non-input wires (convert.rs:232-240) *)
Fixpoint wmap_gates (n : nat) (i oc tw : N) (outs : list N) : res (list N) :=
  match n with
  | O => Ok []
  | S n' =>
      match pos_last outs i with
      | Some idx =>
          let* base := csub tw (lenN outs) in
          let* v := cadd base idx in
          let* r := wmap_gates n' (i + 1) (oc + 1) tw outs in
          Ok (v :: r)
      | None =>
          let* v := csub i oc in
          let* r := wmap_gates n' (i + 1) oc tw outs in
          Ok (v :: r)
      end
  end.

Definition exp_gate (W : list N) (i : N) (g : gate) : res line :=
  match g with
  | GXor x y =>
      let* a := of_option (nthN W x) in
      let* b := of_option (nthN W y) in
      let* o := of_option (nthN W i) in
      Ok [TNum 2; TNum 1; TNum a; TNum b; TNum o; TWord WXor]
  | GAnd x y =>
      let* a := of_option (nthN W x) in
      let* b := of_option (nthN W y) in
      let* o := of_option (nthN W i) in
      Ok [TNum 2; TNum 1; TNum a; TNum b; TNum o; TWord WAnd]
  | GNot x =>
      let* a := of_option (nthN W x) in
      let* o := of_option (nthN W i) in
      Ok [TNum 1; TNum 1; TNum a; TNum o; TWord WInv]
  end.

Fixpoint exp_gates (W : list N) (i : N) (gs : list gate) : res (list line) :=
  match gs with
  | [] => Ok []
  | g :: r =>
      let* l := exp_gate W i g in
      let* ls := exp_gates W (i + 1) r in
      Ok (l :: ls)
  end.

Definition export (lim : N) (c : circuit) : res (list line + xerr) :=
  let* tig := csum (input_gates c) in
  let* tw := cadd (lenN (gates c)) tig in
  if lenN (output_gates c) <? N.of_nat PANIC_BITS then Crash else
  let outs := skipn PANIC_BITS (output_gates c) in
  let* _ := alloc lim tig in
  if existsb (fun w => w <? tig) outs then Ok (inr XOutputWireIsInput) else
  let* x := dealias outs [] tw in
  let '(extra, outs', tw') := x in
  let gs := gates c ++ extra in
  let* _ := alloc lim tw' in
  let* wg := wmap_gates (N.to_nat (tw' - tig)) tig 0 tw' outs' in
  let W := nseq (N.to_nat tig) 0 ++ wg in
  let* ls := exp_gates W tig gs in
  Ok (inl ([TNum (lenN gs); TNum tw']
             :: (TNum (lenN (input_gates c)) :: map TNum (input_gates c))
             :: [TNum 1; TNum (lenN outs')]
             :: []
             :: ls)).

(* ------------------------------------------------------------------------------------ *)
(* Import: bristol_to_garble (convert.rs:270-, repaired) and parse_line                   *)

Inductive ierr :=
| IOtherParse                         (* OtherParseError: a header token is not a usize *)
| IParseInt                           (* ParseIntError: a gate-line number is not a usize *)
| IUnknownGate
| IMissingGateType
| IMissingLine
| IInputPartiesMismatch (actual expected : N)
| IOutputCountMismatch (actual expected : N)
| IMalformedLine (l : line)
| IInvalidWireIndex (w : N).

Definition ires (A : Type) : Type := res (A + ierr).
Definition ret {A} (a : A) : ires A := Ok (inl a).
Definition fail {A} (e : ierr) : ires A := Ok (inr e).
Definition ebind {A B} (r : ires A) (f : A -> ires B) : ires B :=
  match r with
  | Ok (inl a) => f a
  | Ok (inr e) => Ok (inr e)
  | Crash => Crash
  | OutOfFuel => OutOfFuel
  end.
Notation "'let+' x ':=' r 'in' k" := (ebind r (fun x => k))
  (at level 200, x pattern, r at level 100, k at level 200).

Definition tok_num (t : tok) : option N := match t with TNum n => Some n | TWord _ => None end.

(* parse_line (convert.rs): the line must exist and consist of usize tokens *)
Definition parse_line (o : option line) : ires (list N * line) :=
  match o with
  | None => fail IMissingLine
  | Some l =>
      match mapM tok_num l with
      | None => fail IOtherParse
      | Some ns => ret (ns, l)
      end
  end.

Definition next_line (ls : list line) : option line * list line :=
  match ls with
  | [] => (None, [])
  | l :: r => (Some l, r)
  end.

(* wires_map of the importer: the wires assigned by gate lines, newest first; an input wire
   that no gate assigned maps to itself, any other unassigned wire to 0 *)
Fixpoint wfind (w : N) (m : list (N * N)) : option N :=
  match m with
  | [] => None
  | (k, v) :: r => if k =? w then Some v else wfind w r
  end.

Definition wire_of (niw : N) (m : list (N * N)) (w : N) : N :=
  match wfind w m with
  | Some g => g
  | None => if w <? niw then w else 0
  end.

(* first part of the loop body: the numbers of a gate line ([None]: blank line, skipped) *)
Definition parse_gate_line (l : line) : ires (option (list N * N)) :=
  if is_nil l then ret None else
  if lenN l <? 5 then fail (IMalformedLine l) else
  let* t0 := of_option (nthN l 0) in
  match tok_num t0 with
  | None => fail IParseInt
  | Some num_inputs =>
  let* t1 := of_option (nthN l 1) in
  match tok_num t1 with
  | None => fail IParseInt
  | Some num_outputs =>
  if negb (num_outputs =? 1) then fail (IMalformedLine l) else
  match checked_add num_inputs 4 with
  | None => fail (IMalformedLine l)
  | Some n4 =>
  if negb (n4 =? lenN l) then fail (IMalformedLine l) else
  let* hi := cadd 2 num_inputs in
  let* sl := slice l 2 hi in
  match mapM tok_num sl with
  | None => fail IParseInt
  | Some input_wires =>
  let* t_out := of_option (nthN l hi) in
  match tok_num t_out with
  | None => fail IParseInt
  | Some output_wire => ret (Some (input_wires, output_wire))
  end end end end end.

(* second part: bounds, gate type, new wire, gate *)
Definition imp_step (wn niw : N) (l : line) (ins : list N) (o : N)
    (wmap : list (N * N)) (next : N) : ires (gate * list (N * N) * N) :=
  match find (fun w => wn <=? w) ins with
  | Some w => fail (IInvalidWireIndex w)
  | None =>
  if wn <=? o then fail (IInvalidWireIndex o) else
  match last_opt l with
  | None => fail IMissingGateType
  | Some gt =>
  match checked_add next 1 with
  | None => fail (IInvalidWireIndex next)
  | Some next' =>
  let wmap' := (o, next) :: wmap in
  match gt with
  | TWord WXor =>
      match ins with
      | [a; b] => ret (GXor (wire_of niw wmap' a) (wire_of niw wmap' b), wmap', next')
      | _ => fail (IMalformedLine l)
      end
  | TWord WAnd =>
      match ins with
      | [a; b] => ret (GAnd (wire_of niw wmap' a) (wire_of niw wmap' b), wmap', next')
      | _ => fail (IMalformedLine l)
      end
  | TWord WInv =>
      match ins with
      | [a] => ret (GNot (wire_of niw wmap' a), wmap', next')
      | _ => fail (IMalformedLine l)
      end
  | _ => fail IUnknownGate
  end end end end.

Fixpoint imp_gates (wn niw : N) (ls : list line) (wmap : list (N * N)) (next : N)
    : ires (list gate * list (N * N)) :=
  match ls with
  | [] => ret ([], wmap)
  | l :: r =>
      let+ pg := parse_gate_line l in
      match pg with
      | None => imp_gates wn niw r wmap next
      | Some (ins, o) =>
          let+ x := imp_step wn niw l ins o wmap next in
          let '(g, wmap', next') := x in
          let+ y := imp_gates wn niw r wmap' next' in
          let '(gs, wm) := y in
          ret (g :: gs, wm)
      end
  end.

(* the final loop over the output wires first..wires_num: stops at the first wire no gate
   assigned, so it runs at most (number of assigned wires + 1) times *)
Fixpoint collect_outs (fuel : nat) (w wn : N) (wmap : list (N * N)) : ires (list N) :=
  if w <? wn then
    match wfind w wmap with
    | None => fail (IInvalidWireIndex w)
    | Some g =>
        match fuel with
        | O => OutOfFuel
        | S f =>
            let+ r := collect_outs f (w + 1) wn wmap in
            ret (g :: r)
        end
    end
  else ret [].

(* the three header lines: (wires_num, input_gates, input_wires_num, num_output_wires, rest) *)
Definition imp_header (ls : list line) : ires (N * list N * N * N * list line) :=
  (* wire and gate counts *)
  let (l1, ls1) := next_line ls in
  let+ p1 := parse_line l1 in
  let '(parts1, s1) := p1 in
  if negb (lenN parts1 =? 2) then fail (IMalformedLine s1) else
  let* wires_num := of_option (nthN parts1 1) in
  let* _gates_num := of_option (nthN parts1 0) in
  (* input line *)
  let (l2, ls2) := next_line ls1 in
  let+ p2 := parse_line l2 in
  let '(parts2, s2) := p2 in
  if lenN parts2 <? 2 then fail (IMalformedLine s2) else
  let* input_gates := slice parts2 1 (lenN parts2) in
  let* expected_parties := of_option (nthN parts2 0) in
  if negb (lenN input_gates =? expected_parties)
  then fail (IInputPartiesMismatch (lenN input_gates) expected_parties) else
  match checked_sum input_gates with
  | None => fail (IMalformedLine s2)
  | Some input_wires_num =>
  (* output line *)
  let (l3, ls3) := next_line ls2 in
  let+ p3 := parse_line l3 in
  let '(parts3, s3) := p3 in
  if lenN parts3 <? 2 then fail (IMalformedLine s3) else
  let* num_outputs := of_option (nthN parts3 0) in
  let* gates_per_output := slice parts3 1 (lenN parts3) in
  if negb (lenN gates_per_output =? num_outputs)
  then fail (IOutputCountMismatch (lenN gates_per_output) num_outputs) else
  match checked_sum gates_per_output with
  | None => fail (IMalformedLine s3)
  | Some num_output_wires =>
  if wires_num <? num_output_wires then fail (IMalformedLine s3) else
  ret (wires_num, input_gates, input_wires_num, num_output_wires, ls3)
  end end.

(* the gate lines and the final collection of the output wires *)
Definition imp_body (h : N * list N * N * N * list line) : ires circuit :=
  let '(wires_num, input_gates, input_wires_num, num_output_wires, ls3) := h in
  let* first_output_wire := csub wires_num num_output_wires in
  let+ x := imp_gates wires_num input_wires_num ls3 [] input_wires_num in
  let '(gates, wmap) := x in
  let+ output_gates := collect_outs (S (length wmap)) first_output_wire wires_num wmap in
  ret (mkCircuit input_gates gates output_gates).

Definition import (ls : list line) : ires circuit :=
  let+ h := imp_header ls in
  imp_body h.

(* ------------------------------------------------------------------------------------ *)
(* Specification-side definitions used by the C11 theorems                                *)

(* the circuits the round-trip theorem quantifies over: valid, shaped like compiled circuits
   (at least the 161 panic outputs), no non-panic output is an input wire, and the circuit
   fits the machine: [lim] bounds the words the exporter allocates *)
Definition exportable (lim : N) (c : circuit) : Prop :=
  ssa_validate c = None /\
  (PANIC_BITS <= length (output_gates c))%nat /\
  (forall o, In o (skipn PANIC_BITS (output_gates c)) -> num_inputs c <= o) /\
  lim <= USIZE_MAX /\
  wires_len c + 2 * lenN (output_gates c) <= lim.

(* a gate line of a Bristol fashion file *)
Record bgate := mkBgate { bg_ins : list N; bg_out : N; bg_kind : word }.

Definition bgate_line (g : bgate) : line :=
  TNum (lenN (bg_ins g)) :: TNum 1 :: map TNum (bg_ins g) ++ [TNum (bg_out g); TWord (bg_kind g)].

Definition bgate_arity_ok (g : bgate) : Prop :=
  match bg_kind g with
  | WXor | WAnd => lenN (bg_ins g) = 2
  | WInv => lenN (bg_ins g) = 1
  | WOther => False
  end.

(* well-formed Bristol for parties [ig] and [n_out] output bits: the declared gate and wire
   counts are right; the gates assign pairwise distinct non-input wires and there are as many
   gates as non-input wires, i.e. every non-input wire is assigned exactly once
   (BristolProofs.wf_assigned_exactly_once spells this out); every wire a gate reads is an
   input wire or was assigned by an earlier line; the outputs are the last [n_out] wires *)
Definition bristol_wf (ig : list N) (n_out : N) (ls : list line) : Prop :=
  exists gl : list bgate,
    let n_in := sumN ig in
    let nw := n_in + lenN gl in
    ls = [TNum (lenN gl); TNum nw]
           :: (TNum (lenN ig) :: map TNum ig)
           :: [TNum 1; TNum n_out]
           :: []
           :: map bgate_line gl /\
    n_out <= lenN gl /\
    (forall g, In g gl -> bgate_arity_ok g) /\
    NoDup (map bg_out gl) /\
    (forall g, In g gl -> n_in <= bg_out g < nw) /\
    (forall k g w, nthN gl k = Some g -> In w (bg_ins g) ->
       w < n_in \/ exists j g', j < k /\ nthN gl j = Some g' /\ bg_out g' = w).

(* Reference semantics of a Bristol fashion file, independent of the importer: wire values
   are kept in an association list; the inputs of the parties fill the first wires in
   order; each gate line assigns its output wire; the result is read from the last [n_out]
   wires in ascending order. *)
Fixpoint bfind (w : N) (env : list (N * bool)) : option bool :=
  match env with
  | [] => None
  | (k, v) :: r => if k =? w then Some v else bfind w r
  end.

Definition beval_gate (env : list (N * bool)) (g : bgate) : option bool :=
  match bg_kind g, bg_ins g with
  | WXor, [a; b] =>
      match bfind a env, bfind b env with Some x, Some y => Some (xorb x y) | _, _ => None end
  | WAnd, [a; b] =>
      match bfind a env, bfind b env with Some x, Some y => Some (andb x y) | _, _ => None end
  | WInv, [a] => match bfind a env with Some x => Some (negb x) | None => None end
  | _, _ => None
  end.

Fixpoint beval_gates (gl : list bgate) (env : list (N * bool)) : option (list (N * bool)) :=
  match gl with
  | [] => Some env
  | g :: r =>
      match beval_gate env g with
      | Some v => beval_gates r ((bg_out g, v) :: env)
      | None => None
      end
  end.

Definition bristol_eval (ig : list N) (n_out : N) (gl : list bgate) (ins : list (list bool))
    : option (list bool) :=
  match load_inputs ig ins with
  | None => None
  | Some v0 =>
      match beval_gates gl (combine (nseq (length v0) 0) v0) with
      | None => None
      | Some env =>
          mapM (fun w => bfind w env)
               (nseq (N.to_nat n_out) (sumN ig + lenN gl - n_out))
      end
  end.

