(* C10: the register circuit produced by the conversion validates, computes the same
   outputs as the SSA circuit for every input, never reads an unwritten register, needs
   no more registers than there are wires, keeps the AND count and loads the inputs in
   order. *)
From GV Require Import Base.Util Base.NMap Circuit.Ssa Circuit.Reg Circuit.RegAlloc
  Circuit.SsaProofs Circuit.RegProofs.

Definition gate_ops (g : gate) : list N :=
  match g with
  | GXor a b | GAnd a b => [a; b]
  | GNot a => [a]
  end.

(* ---------------------------------------------------------------- last_use_map *)

Definition later (m : nmap lastuse) (w g : N) : Prop :=
  nfind w m = Some Pinned \/ exists k, nfind w m = Some (LU k) /\ g <= k.

Lemma last_use_gates_mono gs : forall g m w,
  nfind w (last_use_gates g gs m) = nfind w m \/
  exists k, nfind w (last_use_gates g gs m) = Some (LU k) /\ g <= k.
Proof.
  induction gs as [|gt r IH]; intros g m w; cbn [last_use_gates]; [now left|].
  destruct gt as [a b|a b|a].
  - destruct (IH (g + 1) (nadd b (LU g) (nadd a (LU g) m)) w) as [E|(k & E & Hk)].
    + rewrite E, !nfind_add.
      destruct (b =? w); [right; exists g; split; [reflexivity|lia]|].
      destruct (a =? w); [right; exists g; split; [reflexivity|lia]|now left].
    + right. exists k. split; [exact E|lia].
  - destruct (IH (g + 1) (nadd b (LU g) (nadd a (LU g) m)) w) as [E|(k & E & Hk)].
    + rewrite E, !nfind_add.
      destruct (b =? w); [right; exists g; split; [reflexivity|lia]|].
      destruct (a =? w); [right; exists g; split; [reflexivity|lia]|now left].
    + right. exists k. split; [exact E|lia].
  - destruct (IH (g + 1) (nadd a (LU g) m) w) as [E|(k & E & Hk)].
    + rewrite E, !nfind_add.
      destruct (a =? w); [right; exists g; split; [reflexivity|lia]|now left].
    + right. exists k. split; [exact E|lia].
Qed.

Lemma last_use_gates_uses gs : forall g m j gt w,
  nth_error gs j = Some gt -> In w (gate_ops gt) ->
  exists k, nfind w (last_use_gates g gs m) = Some (LU k) /\ g + N.of_nat j <= k.
Proof.
  induction gs as [|g0 r IH]; intros g m j gt w Hj Hin; [destruct j; discriminate|].
  destruct j as [|j].
  - cbn [nth_error] in Hj. injection Hj as ->. cbn [last_use_gates].
    assert (Hm : forall m', nfind w m' = Some (LU g) ->
                 exists k, nfind w (last_use_gates (g + 1) r m') = Some (LU k) /\ g + N.of_nat 0 <= k).
    { intros m' Hw. destruct (last_use_gates_mono r (g + 1) m' w) as [E|(k & E & Hk)].
      - exists g. rewrite E. split; [exact Hw|lia].
      - exists k. split; [exact E|lia]. }
    destruct gt as [a b|a b|a]; cbn [gate_ops In] in Hin; apply Hm; rewrite !nfind_add.
    + destruct Hin as [<-|[<-|[]]].
      * rewrite N.eqb_refl. now destruct (b =? a).
      * now rewrite N.eqb_refl.
    + destruct Hin as [<-|[<-|[]]].
      * rewrite N.eqb_refl. now destruct (b =? a).
      * now rewrite N.eqb_refl.
    + destruct Hin as [<-|[]]. now rewrite N.eqb_refl.
  - cbn [nth_error] in Hj. cbn [last_use_gates].
    destruct g0 as [a b|a b|a];
      (edestruct (IH (g + 1)) as (k & E & Hk); [exact Hj|exact Hin|];
       exists k; split; [exact E|lia]).
Qed.

Lemma pin_outputs_in os : forall m o, In o os -> nfind o (pin_outputs os m) = Some Pinned.
Proof.
  induction os as [|x r IH]; intros m o Hin; [destruct Hin|]. cbn [pin_outputs].
  destruct (in_dec N.eq_dec o r) as [Hr|Hr]; [now apply IH|].
  destruct Hin as [->|Hin]; [|contradiction].
  clear IH. revert m. induction r as [|y r IH]; intro m; cbn [pin_outputs].
  - apply nfind_add_eq.
  - destruct (N.eq_dec y o) as [->|Hne]; [exfalso; apply Hr; now left|].
    assert (Hr' : ~ In o r) by (intro; apply Hr; now right).
    specialize (IH Hr'). clear Hr Hr'.
    (* the later pin of y does not disturb o *)
    assert (G : forall m1 m2, nfind o m1 = nfind o m2 ->
                nfind o (pin_outputs r m1) = nfind o (pin_outputs r m2)).
    { clear. induction r as [|z r IH]; intros m1 m2 E; cbn [pin_outputs]; [exact E|].
      apply IH. rewrite !nfind_add. now destruct (z =? o). }
    rewrite (G (nadd y Pinned (nadd o Pinned m)) (nadd o Pinned m)); [apply IH|].
    now rewrite nfind_add_neq.
Qed.

Lemma pin_outputs_other os : forall m w,
  nfind w (pin_outputs os m) = nfind w m \/ nfind w (pin_outputs os m) = Some Pinned.
Proof.
  induction os as [|x r IH]; intros m w; cbn [pin_outputs]; [now left|].
  destruct (IH (nadd x Pinned m) w) as [E|E]; [|now right].
  rewrite E, nfind_add. destruct (x =? w); [now right|now left].
Qed.

Lemma last_use_map_uses c j gt w :
  nth_error (gates c) j = Some gt -> In w (gate_ops gt) ->
  later (last_use_map c) w (num_inputs c + N.of_nat j).
Proof.
  intros Hj Hin. unfold later, last_use_map.
  destruct (pin_outputs_other (output_gates c) (last_use_gates (num_inputs c) (gates c) nempty) w)
    as [E|E]; [|now left].
  right. rewrite E. eapply last_use_gates_uses; eauto.
Qed.

Lemma last_use_map_output c o : In o (output_gates c) -> nfind o (last_use_map c) = Some Pinned.
Proof. intro. unfold last_use_map. now apply pin_outputs_in. Qed.

(* ---------------------------------------------------------------- allocator phases *)

Definition wm_inj (wm : nmap N) : Prop :=
  forall w1 w2 r, nfind w1 wm = Some r -> nfind w2 wm = Some r -> w1 = w2.
Definition wm_bound (wm : nmap N) (next : N) : Prop :=
  forall w r, nfind w wm = Some r -> r < next.
Definition fresh_for (wm : nmap N) (r : N) : Prop := forall w, nfind w wm <> Some r.
Definition sub_wm (wm' wm : nmap N) : Prop :=
  forall w r, nfind w wm' = Some r -> nfind w wm = Some r.
Definition only_dying (lu : nmap lastuse) (g : N) (wm' wm : nmap N) : Prop :=
  forall w, nfind w wm <> None -> nfind w wm' = None -> dies_here lu w g = true.

(* [reuse] is a register taken out of the map and not yet given back *)
Record held_ok (reuse : option N) (wm : nmap N) (free : list N) (next : N) : Prop := {
  ho_bound : wm_bound wm next;
  ho_inj : wm_inj wm;
  ho_nodup : NoDup free;
  ho_free : forall r, In r free -> r < next /\ fresh_for wm r;
  ho_held : forall r, reuse = Some r -> r < next /\ fresh_for wm r /\ ~ In r free
}.

Lemma sub_wm_refl wm : sub_wm wm wm.
Proof. intros w r H. exact H. Qed.

Lemma only_dying_refl lu g wm : only_dying lu g wm wm.
Proof. intros w H1 H2. congruence. Qed.

Lemma sub_remove k wm : sub_wm (nremove k wm) wm.
Proof.
  intros w r. rewrite nfind_remove. destruct (k =? w); [discriminate|auto].
Qed.

Lemma fresh_sub wm' wm r : sub_wm wm' wm -> fresh_for wm r -> fresh_for wm' r.
Proof. intros Hs Hf w E. apply (Hf w). now apply Hs. Qed.

Lemma inj_sub wm' wm : sub_wm wm' wm -> wm_inj wm -> wm_inj wm'.
Proof. intros Hs Hi w1 w2 r E1 E2. apply (Hi w1 w2 r); now apply Hs. Qed.

Lemma bound_sub wm' wm n : sub_wm wm' wm -> wm_bound wm n -> wm_bound wm' n.
Proof. intros Hs Hb w r E. apply (Hb w r). now apply Hs. Qed.

Lemma removed_fresh k r wm : wm_inj wm -> nfind k wm = Some r -> fresh_for (nremove k wm) r.
Proof.
  intros Hi Hk w. rewrite nfind_remove. destruct (N.eqb_spec k w) as [->|Hne]; [discriminate|].
  intro E. apply Hne. now apply (Hi k w r).
Qed.

Lemma take_a_spec lu wm free next g a :
  held_ok None wm free next ->
  (dies_here lu a g = true -> nfind a wm <> None) ->
  exists reuse wm1, take_a lu wm g a = Ok (reuse, wm1) /\
    held_ok reuse wm1 free next /\ sub_wm wm1 wm /\ only_dying lu g wm1 wm.
Proof.
  intros [Hb Hi Hnd Hfr _] Hpre. unfold take_a.
  destruct (dies_here lu a g) eqn:Hd.
  - destruct (nfind a wm) as [ra|] eqn:Ha; [|exfalso; now apply Hpre].
    exists (Some ra), (nremove a wm). split; [reflexivity|].
    pose proof (sub_remove a wm) as Hs. split; [|split; [exact Hs|]].
    + constructor.
      * eapply bound_sub; eauto.
      * eapply inj_sub; eauto.
      * exact Hnd.
      * intros r Hin. destruct (Hfr r Hin) as [H1 H2]. split; [exact H1|eapply fresh_sub; eauto].
      * intros r [= <-]. split; [now apply (Hb a)|]. split; [now apply removed_fresh|].
        intro Hin. destruct (Hfr ra Hin) as [_ Hf]. now apply (Hf a).
    + intros w H1 H2. rewrite nfind_remove in H2.
      destruct (N.eqb_spec a w) as [<-|Hne]; [exact Hd|congruence].
  - exists None, wm. split; [reflexivity|]. split; [|split; [apply sub_wm_refl|apply only_dying_refl]].
    constructor; auto. intros r [=].
Qed.

Lemma take_b_spec lu g b reuse wm1 free next :
  held_ok reuse wm1 free next ->
  exists reuse' wm2 free', take_b lu g b reuse wm1 free = (reuse', wm2, free') /\
    held_ok reuse' wm2 free' next /\ sub_wm wm2 wm1 /\ only_dying lu g wm2 wm1.
Proof.
  intros Hh. pose proof Hh as [Hb Hi Hnd Hfr Hheld]. unfold take_b.
  assert (Hsame : exists reuse' wm2 free', (reuse, wm1, free) = (reuse', wm2, free') /\
            held_ok reuse' wm2 free' next /\ sub_wm wm2 wm1 /\ only_dying lu g wm2 wm1).
  { exists reuse, wm1, free. split; [reflexivity|].
    split; [exact Hh|split; [apply sub_wm_refl|apply only_dying_refl]]. }
  destruct b as [b|]; [|exact Hsame].
  destruct (dies_here lu b g) eqn:Hd; [|exact Hsame].
  destruct (nfind b wm1) as [rb|] eqn:Hbm; [|exact Hsame].
  pose proof (sub_remove b wm1) as Hs.
  assert (Hod : only_dying lu g (nremove b wm1) wm1).
  { intros w H1 H2. rewrite nfind_remove in H2.
    destruct (N.eqb_spec b w) as [<-|Hne]; [exact Hd|congruence]. }
  assert (Hrbfree : ~ In rb free).
  { intro Hin. destruct (Hfr rb Hin) as [_ Hf]. now apply (Hf b). }
  destruct reuse as [r0|].
  - exists (Some r0), (nremove b wm1), (rb :: free). split; [reflexivity|].
    split; [|split; assumption].
    destruct (Hheld r0 eq_refl) as (H0a & H0b & H0c).
    constructor.
    + eapply bound_sub; eauto.
    + eapply inj_sub; eauto.
    + constructor; assumption.
    + intros r [<-|Hin].
      * split; [now apply (Hb b)|now apply removed_fresh].
      * destruct (Hfr r Hin) as [H1 H2]. split; [exact H1|eapply fresh_sub; eauto].
    + intros r [= <-]. split; [exact H0a|]. split; [eapply fresh_sub; eauto|].
      intros [E|Hin]; [|contradiction]. subst r0. now apply (H0b b).
  - exists (Some rb), (nremove b wm1), free. split; [reflexivity|].
    split; [|split; assumption].
    constructor.
    + eapply bound_sub; eauto.
    + eapply inj_sub; eauto.
    + exact Hnd.
    + intros r Hin. destruct (Hfr r Hin) as [H1 H2]. split; [exact H1|eapply fresh_sub; eauto].
    + intros r [= <-]. split; [now apply (Hb b)|]. split; [now apply removed_fresh|exact Hrbfree].
Qed.

Lemma pick_reg_spec reuse wm2 free next :
  held_ok reuse wm2 free next ->
  let '(out, st') := pick_reg reuse wm2 free next in
  wire_map st' = wm2 /\ next <= next_reg st' <= next + 1 /\ out < next_reg st' /\
  fresh_for wm2 out /\ ~ In out (free_regs st') /\
  held_ok None wm2 (free_regs st') (next_reg st').
Proof.
  intros [Hb Hi Hnd Hfr Hheld]. unfold pick_reg.
  destruct reuse as [r0|].
  - destruct (Hheld r0 eq_refl) as (H1 & H2 & H3). cbn [wire_map next_reg free_regs].
    split; [reflexivity|]. split; [lia|]. split; [exact H1|]. split; [exact H2|].
    split; [exact H3|]. constructor; auto. intros x Hx. discriminate Hx.
  - destruct free as [|r f]; cbn [wire_map next_reg free_regs].
    + split; [reflexivity|]. split; [lia|]. split; [lia|].
      split; [intros w E; apply Hb in E; lia|]. split; [intros []|].
      constructor; auto.
      * intros w x E. apply Hb in E. lia.
      * intros x [].
      * intros x Hx. discriminate Hx.
    + destruct (Hfr r (or_introl eq_refl)) as [H1 H2].
      inversion Hnd as [|? ? Hnotin Hnd']; subst.
      split; [reflexivity|]. split; [lia|]. split; [exact H1|]. split; [exact H2|].
      split; [exact Hnotin|]. constructor; auto.
      * intros x Hin. apply Hfr. now right.
      * intros x Hx. discriminate Hx.
Qed.

Lemma find_out_reg_spec lu st g a b :
  held_ok None (wire_map st) (free_regs st) (next_reg st) ->
  (dies_here lu a g = true -> nfind a (wire_map st) <> None) ->
  exists out st', find_out_reg lu st g a b = Ok (out, st') /\
    next_reg st <= next_reg st' <= next_reg st + 1 /\ out < next_reg st' /\
    sub_wm (wire_map st') (wire_map st) /\ only_dying lu g (wire_map st') (wire_map st) /\
    fresh_for (wire_map st') out /\ ~ In out (free_regs st') /\
    held_ok None (wire_map st') (free_regs st') (next_reg st').
Proof.
  intros Hh Hpre. unfold find_out_reg.
  destruct (take_a_spec lu _ _ _ g a Hh Hpre) as (reuse & wm1 & -> & Hh1 & Hs1 & Hd1).
  cbn [bind].
  destruct (take_b_spec lu g b _ _ _ _ Hh1) as (reuse' & wm2 & free' & -> & Hh2 & Hs2 & Hd2).
  pose proof (pick_reg_spec _ _ _ _ Hh2) as Hp.
  destruct (pick_reg reuse' wm2 free' (next_reg st)) as [out st'].
  destruct Hp as (Hwm & Hn & Ho & Hf & Hnf & Hh3).
  exists out, st'. split; [reflexivity|]. rewrite Hwm.
  split; [lia|]. split; [exact Ho|].
  split; [intros w r E; apply Hs1; now apply Hs2|].
  split.
  { intros w H1 H2. destruct (nfind w wm1) eqn:E1.
    - apply Hd2; congruence.
    - now apply Hd1. }
  split; [exact Hf|]. split; [exact Hnf|exact Hh3].
Qed.

(* ---------------------------------------------------------------- simulation invariant *)

Section Sim.
  Variable lu : nmap lastuse.
  Variable ins : list (list bool).
  Variable rc : rcircuit.
  Local Notation M := (max_reg_count rc).

  (* allocator part: [g] wires are defined *)
  Record ainv (st : astate) (g : N) : Prop := {
    ai_held : held_ok None (wire_map st) (free_regs st) (next_reg st);
    ai_dom : forall w r, nfind w (wire_map st) = Some r -> w < g;
    ai_gone : forall w, w < g -> nfind w (wire_map st) = None ->
              exists k, nfind w lu = Some (LU k) /\ k < g;
    ai_next : next_reg st <= g
  }.

  (* value part: [vals] are the wire values, [regs] the register file after the
     instructions emitted so far, [set] the register_set of validate *)
  Record vinv (st : astate) (g : N) (vals regs set : list bool) : Prop := {
    vi_val : forall w r, nfind w (wire_map st) = Some r ->
             exists v, nthN vals w = Some v /\ nthN regs r = Some v /\ nthN set r = Some true;
    vi_lens : lenN vals = g /\ lenN regs = M /\ lenN set = M
  }.

  Lemma operand_present st g w :
    ainv st g -> w < g -> later lu w g ->
    exists r, nfind w (wire_map st) = Some r /\ r < next_reg st.
  Proof.
    intros [Hh Hdom Hgone Hnext] Hw Hlater.
    destruct (nfind w (wire_map st)) as [r|] eqn:E.
    - exists r. split; [reflexivity|]. now apply (ho_bound _ _ _ _ Hh w).
    - destruct (Hgone w Hw E) as (k & Hk & Hlt).
      destruct Hlater as [Hp|(k' & Hk' & Hge)]; rewrite Hk in *; [discriminate|].
      injection Hk' as <-. lia.
  Qed.

  Lemma ainv_step st g out st' :
    ainv st g ->
    next_reg st <= next_reg st' <= next_reg st + 1 -> out < next_reg st' ->
    sub_wm (wire_map st') (wire_map st) -> only_dying lu g (wire_map st') (wire_map st) ->
    fresh_for (wire_map st') out -> ~ In out (free_regs st') ->
    held_ok None (wire_map st') (free_regs st') (next_reg st') ->
    ainv (mkAState (nadd g out (wire_map st')) (free_regs st') (next_reg st')) (g + 1).
  Proof.
    intros [Hh Hdom Hgone Hl4] Hnext Hout Hsub Hdying Hfresh Hnotfree [Hb' Hi' Hnd' Hfr' _].
    constructor; cbn [wire_map free_regs next_reg].
    - constructor.
      + intros w r. rewrite nfind_add. destruct (g =? w); [intros [= <-]; exact Hout|apply Hb'].
      + intros w1 w2 r. rewrite !nfind_add.
        destruct (N.eqb_spec g w1) as [<-|N1]; destruct (N.eqb_spec g w2) as [<-|N2]; auto.
        * intros [= <-] E. exfalso. now apply (Hfresh w2).
        * intros E [= <-]. exfalso. now apply (Hfresh w1).
        * apply Hi'.
      + exact Hnd'.
      + intros r Hin. destruct (Hfr' r Hin) as [H1 H2]. split; [exact H1|].
        intros w. rewrite nfind_add. destruct (g =? w); [|apply H2].
        intros [= ->]. contradiction.
      + intros r Hr. discriminate Hr.
    - intros w r. rewrite nfind_add. destruct (N.eqb_spec g w) as [<-|Hne]; [lia|].
      intro E. apply Hsub in E. apply Hdom in E. lia.
    - intros w Hw. rewrite nfind_add. destruct (N.eqb_spec g w) as [<-|Hne]; [discriminate|].
      intro E. assert (Hw' : w < g) by lia.
      destruct (nfind w (wire_map st)) eqn:E0.
      + assert (Hd : dies_here lu w g = true) by (apply Hdying; congruence).
        unfold dies_here in Hd. destruct (nfind w lu) as [[l|]|]; try discriminate.
        apply N.eqb_eq in Hd. subst l. exists g. split; [reflexivity|lia].
      + destruct (Hgone w Hw' E0) as (k & Hk & Hlt). exists k. split; [exact Hk|lia].
    - lia.
  Qed.

  Lemma vinv_step st g vals regs set out st' v regs' set' :
    ainv st g -> vinv st g vals regs set ->
    sub_wm (wire_map st') (wire_map st) -> fresh_for (wire_map st') out ->
    setN regs out v = Some regs' -> setN set out true = Some set' ->
    vinv (mkAState (nadd g out (wire_map st')) (free_regs st') (next_reg st')) (g + 1)
         (vals ++ [v]) regs' set'.
  Proof.
    intros [_ Hdom _ _] [Hval (Hl1 & Hl2 & Hl3)] Hsub Hfresh Hregs Hset.
    constructor; cbn [wire_map free_regs next_reg].
    - intros w r. rewrite nfind_add. destruct (N.eqb_spec g w) as [<-|Hne].
      + intros [= <-]. exists v. rewrite <- Hl1. split; [apply nthN_app_here|].
        split; [eapply setN_same; eauto|eapply setN_same; eauto].
      + intro E. assert (Hro : out <> r) by (intros ->; now apply (Hfresh w)).
        pose proof (Hsub _ _ E) as E0. destruct (Hval w r E0) as (x & H1 & H2 & H3).
        exists x. split; [rewrite nthN_app_l; [exact H1|]; apply Hdom in E0; lia|].
        split.
        * rewrite (setN_other _ _ _ _ _ Hregs Hro). exact H2.
        * rewrite (setN_other _ _ _ _ _ Hset Hro). exact H3.
    - rewrite lenN_app, lenN_cons, lenN_nil, (setN_len _ _ _ _ Hregs), (setN_len _ _ _ _ Hset).
      repeat split; lia.
  Qed.

  Lemma leb_false a b : b < a -> (a <=? b) = false.
  Proof. intro. now apply N.leb_gt. Qed.

  Definition step_sim (st : astate) (g : N) (gt : gate) (i : inst) (st' : astate) : Prop :=
    forall vals regs set, vinv st g vals regs set -> next_reg st' <= M ->
      exists b regs' set', eval_gate vals gt = Some b /\
        op_val ins regs (iop i) = Some b /\ setN regs (iout i) b = Some regs' /\
        (forall pos, validate_inst rc set pos i = Ok (inr set')) /\
        vinv st' (g + 1) (vals ++ [b]) regs' set'.

  Lemma conv_gate_sim st g gt :
    ainv st g -> gate_ok g gt = true ->
    (forall w, In w (gate_ops gt) -> later lu w g) ->
    exists i st', conv_gate lu st g gt = Ok (i, st') /\
      next_reg st <= next_reg st' /\ ainv st' (g + 1) /\ step_sim st g gt i st'.
  Proof.
    intros Hinv Hok Hlater. pose proof Hinv as [Hh _ _ Hl4].
    destruct gt as [a b|a b|a]; cbn [gate_ok gate_ops] in *.
    - apply negb_true_iff, orb_false_iff in Hok. destruct Hok as [Ha Hb].
      apply N.leb_gt in Ha, Hb.
      destruct (operand_present _ _ a Hinv Ha (Hlater a (or_introl eq_refl))) as (ra & Ea & Hra).
      destruct (operand_present _ _ b Hinv Hb (Hlater b (or_intror (or_introl eq_refl))))
        as (rb & Eb & Hrb).
      destruct (find_out_reg_spec lu st g a (Some b) Hh) as
        (out & st1 & Ef & Hn & Ho & Hsub & Hdy & Hfr & Hnf & Hh1); [congruence|].
      unfold conv_gate. rewrite Ea, Eb. cbn [of_option bind]. rewrite Ef. cbn [bind].
      eexists _, _. split; [reflexivity|]. cbn [next_reg]. split; [lia|].
      split; [eapply ainv_step; eauto|].
      intros vals regs set Hv HM. cbn [next_reg] in HM. pose proof Hv as [Hval (Hl1 & Hl2 & Hl3)].
      destruct (Hval a ra Ea) as (va & Eva & Era & Esa).
      destruct (Hval b rb Eb) as (vb & Evb & Erb & Esb).
      destruct (setN_Some regs out (xorb va vb)) as [regs' Hr']; [lia|].
      destruct (setN_Some set out true) as [set' Hs']; [lia|].
      exists (xorb va vb), regs', set'. cbn [iop iout eval_gate op_val].
      rewrite Eva, Evb, Era, Erb. split; [reflexivity|]. split; [reflexivity|]. split; [exact Hr'|].
      split.
      + intro pos. unfold validate_inst. cbn [iop iout].
        rewrite (leb_false M out), (leb_false M ra), (leb_false M rb) by lia.
        cbn [orb]. rewrite Esa, Esb, Hs'. reflexivity.
      + eapply vinv_step; eauto.
    - apply negb_true_iff, orb_false_iff in Hok. destruct Hok as [Ha Hb].
      apply N.leb_gt in Ha, Hb.
      destruct (operand_present _ _ a Hinv Ha (Hlater a (or_introl eq_refl))) as (ra & Ea & Hra).
      destruct (operand_present _ _ b Hinv Hb (Hlater b (or_intror (or_introl eq_refl))))
        as (rb & Eb & Hrb).
      destruct (find_out_reg_spec lu st g a (Some b) Hh) as
        (out & st1 & Ef & Hn & Ho & Hsub & Hdy & Hfr & Hnf & Hh1); [congruence|].
      unfold conv_gate. rewrite Ea, Eb. cbn [of_option bind]. rewrite Ef. cbn [bind].
      eexists _, _. split; [reflexivity|]. cbn [next_reg]. split; [lia|].
      split; [eapply ainv_step; eauto|].
      intros vals regs set Hv HM. cbn [next_reg] in HM. pose proof Hv as [Hval (Hl1 & Hl2 & Hl3)].
      destruct (Hval a ra Ea) as (va & Eva & Era & Esa).
      destruct (Hval b rb Eb) as (vb & Evb & Erb & Esb).
      destruct (setN_Some regs out (andb va vb)) as [regs' Hr']; [lia|].
      destruct (setN_Some set out true) as [set' Hs']; [lia|].
      exists (andb va vb), regs', set'. cbn [iop iout eval_gate op_val].
      rewrite Eva, Evb, Era, Erb. split; [reflexivity|]. split; [reflexivity|]. split; [exact Hr'|].
      split.
      + intro pos. unfold validate_inst. cbn [iop iout].
        rewrite (leb_false M out), (leb_false M ra), (leb_false M rb) by lia.
        cbn [orb]. rewrite Esa, Esb, Hs'. reflexivity.
      + eapply vinv_step; eauto.
    - apply negb_true_iff in Hok. apply N.leb_gt in Hok.
      destruct (operand_present _ _ a Hinv Hok (Hlater a (or_introl eq_refl))) as (ra & Ea & Hra).
      destruct (find_out_reg_spec lu st g a None Hh) as
        (out & st1 & Ef & Hn & Ho & Hsub & Hdy & Hfr & Hnf & Hh1); [congruence|].
      unfold conv_gate. rewrite Ea. cbn [of_option bind]. rewrite Ef. cbn [bind].
      eexists _, _. split; [reflexivity|]. cbn [next_reg]. split; [lia|].
      split; [eapply ainv_step; eauto|].
      intros vals regs set Hv HM. cbn [next_reg] in HM. pose proof Hv as [Hval (Hl1 & Hl2 & Hl3)].
      destruct (Hval a ra Ea) as (va & Eva & Era & Esa).
      destruct (setN_Some regs out (negb va)) as [regs' Hr']; [lia|].
      destruct (setN_Some set out true) as [set' Hs']; [lia|].
      exists (negb va), regs', set'. cbn [iop iout eval_gate op_val].
      rewrite Eva, Era. split; [reflexivity|]. split; [reflexivity|]. split; [exact Hr'|].
      split.
      + intro pos. unfold validate_inst. cbn [iop iout].
        rewrite (leb_false M out), (leb_false M ra) by lia.
        rewrite Esa, Hs'. reflexivity.
      + eapply vinv_step; eauto.
  Qed.

  Lemma conv_gates_sim gs : forall st g,
    ainv st g -> validate_gates g gs = None ->
    (forall j gt w, nth_error gs j = Some gt -> In w (gate_ops gt) -> later lu w (g + N.of_nat j)) ->
    exists is st', conv_gates lu st g gs = Ok (is, st') /\
      next_reg st <= next_reg st' /\ lenN is = lenN gs /\ ainv st' (g + lenN gs) /\
      forall vals regs set, vinv st g vals regs set -> next_reg st' <= M ->
       exists vals' regs' set', eval_gates vals gs = Some vals' /\
         run_insts ins regs is = Some regs' /\
         (forall pos, validate_insts rc set pos is = Ok (inr set')) /\
         vinv st' (g + lenN gs) vals' regs' set'.
  Proof.
    induction gs as [|gt r IH]; intros st g Hinv Hval Hlater;
      cbn [conv_gates validate_gates eval_gates] in *.
    - exists [], st. split; [reflexivity|]. split; [lia|]. split; [reflexivity|].
      rewrite lenN_nil, N.add_0_r. split; [exact Hinv|]. intros vals regs set Hv _.
      exists vals, regs, set. cbn [run_insts validate_insts].
      split; [reflexivity|]. split; [reflexivity|]. split; [reflexivity|exact Hv].
    - destruct (gate_ok g gt) eqn:Hok; [|discriminate].
      destruct (conv_gate_sim st g gt Hinv Hok) as (i & st1 & -> & Hn1 & Hinv1 & Hstep).
      { intros w Hin. specialize (Hlater O gt w eq_refl Hin). now rewrite N.add_0_r in Hlater. }
      cbn [bind].
      destruct (IH st1 (g + 1) Hinv1 Hval) as (is & st' & -> & Hn2 & Hlen & Hinv' & Hrest).
      { intros j gt' w Hj Hin. specialize (Hlater (S j) gt' w Hj Hin).
        replace (g + 1 + N.of_nat j) with (g + N.of_nat (S j)) by lia. exact Hlater. }
      cbn [bind]. exists (i :: is), st'. split; [reflexivity|]. split; [lia|].
      split; [rewrite !lenN_cons; lia|].
      rewrite lenN_cons. replace (g + (1 + lenN r)) with (g + 1 + lenN r) by lia.
      split; [exact Hinv'|]. intros vals regs set Hv HM.
      destruct (Hstep vals regs set Hv) as (b & regs1 & set1 & Eb & Eop & Eset & Hvi & Hv1); [lia|].
      destruct (Hrest _ _ _ Hv1 HM) as (vals' & regs' & set' & Ev & Er & Evs & Hv').
      exists vals', regs', set'. rewrite Eb. cbn [run_insts validate_insts].
      rewrite Eop, Eset. split; [exact Ev|]. split; [exact Er|]. split; [|exact Hv'].
      intro pos. rewrite Hvi. apply Evs.
  Qed.
End Sim.

(* ---------------------------------------------------------------- inputs *)

Definition ival (ins : list (list bool)) (o : op) : option bool :=
  match o with OInput p k => get_input ins p k | _ => None end.

Definition valid_input (ir : list N) (o : op) : Prop :=
  match o with OInput p k => exists sz, nthN ir p = Some sz /\ k < sz | _ => False end.

Lemma mapM_app {A B} (f : A -> option B) l1 l2 :
  mapM f (l1 ++ l2) =
  match mapM f l1, mapM f l2 with Some a, Some b => Some (a ++ b) | _, _ => None end.
Proof.
  induction l1 as [|x r IH]; cbn [mapM app].
  - now destruct (mapM f l2).
  - destruct (f x); [|reflexivity]. rewrite IH.
    destruct (mapM f r); [|reflexivity]. now destruct (mapM f l2).
Qed.

Lemma mapM_seq_nth {A} (l pre : list A) :
  mapM (fun k => nth_error (pre ++ l) k) (seq (length pre) (length l)) = Some l.
Proof.
  revert pre. induction l as [|x r IH]; intro pre; cbn [length seq mapM]; [reflexivity|].
  rewrite nth_error_app2 by lia. rewrite Nat.sub_diag. cbn [nth_error].
  specialize (IH (pre ++ [x])). rewrite <- app_assoc in IH. cbn [app] in IH.
  rewrite app_length in IH. cbn [length] in IH. rewrite Nat.add_1_r in IH. now rewrite IH.
Qed.

Lemma skipn_cons_nth {A} (l : list A) : forall p x r,
  skipn p l = x :: r -> nth_error l p = Some x /\ skipn (S p) l = r.
Proof.
  induction l as [|y l IH]; intros p x r H.
  - destruct p; discriminate.
  - destruct p as [|p]; cbn [skipn] in H.
    + injection H as -> ->. split; reflexivity.
    + cbn [nth_error]. apply IH in H. destruct H as [H1 H2]. split; [exact H1|exact H2].
Qed.

Lemma input_ops_len ig : forall p, lenN (input_ops p ig) = sumN ig.
Proof.
  induction ig as [|n r IH]; intro p; cbn [input_ops sumN]; [reflexivity|].
  rewrite lenN_app, IH. unfold lenN at 1. rewrite map_length, seq_length. lia.
Qed.

Lemma input_ops_vals ins_all ig : forall p0 v,
  load_inputs ig (skipn p0 ins_all) = Some v ->
  mapM (ival ins_all) (input_ops (N.of_nat p0) ig) = Some v.
Proof.
  induction ig as [|n r IH]; intros p0 v H; cbn [input_ops].
  - destruct (skipn p0 ins_all); cbn [load_inputs] in H; [|discriminate]. injection H as <-. reflexivity.
  - destruct (skipn p0 ins_all) as [|bits rest] eqn:Hs; cbn [load_inputs] in H; [discriminate|].
    destruct (lenN bits =? n) eqn:Hn; [|discriminate]. apply N.eqb_eq in Hn.
    destruct (load_inputs r rest) as [v'|] eqn:Hl; [|discriminate]. injection H as <-.
    destruct (skipn_cons_nth _ _ _ _ Hs) as [Hnth Hs'].
    rewrite mapM_app.
    replace (N.of_nat p0 + 1) with (N.of_nat (S p0)) by lia.
    rewrite (IH (S p0) v') by (rewrite Hs'; exact Hl).
    assert (E : mapM (ival ins_all) (map (fun k => OInput (N.of_nat p0) (N.of_nat k)) (seq 0 (N.to_nat n)))
                = Some bits).
    { assert (Hlen : N.to_nat n = length bits) by (unfold lenN in Hn; lia).
      rewrite Hlen. transitivity (mapM (fun k => nth_error bits k) (seq 0 (length bits)));
        [|exact (mapM_seq_nth bits [])].
      generalize (seq 0 (length bits)). intro l. induction l as [|k l IHl]; cbn [map mapM]; [reflexivity|].
      cbn [ival]. unfold get_input. rewrite nthN_spec, Nat2N.id, Hnth, nthN_spec, Nat2N.id.
      destruct (nth_error bits k); [|reflexivity]. now rewrite IHl. }
    now rewrite E.
Qed.

Lemma input_ops_valid ig_all ig : forall p0,
  skipn p0 ig_all = ig -> Forall (valid_input ig_all) (input_ops (N.of_nat p0) ig).
Proof.
  induction ig as [|n r IH]; intros p0 Hs; cbn [input_ops]; [constructor|].
  destruct (skipn_cons_nth _ _ _ _ Hs) as [Hnth Hs'].
  apply Forall_app. split.
  - apply Forall_forall. intros o Hin. apply in_map_iff in Hin. destruct Hin as (k & <- & Hk).
    apply in_seq in Hk. cbn [valid_input]. exists n.
    rewrite nthN_spec, Nat2N.id. split; [exact Hnth|lia].
  - replace (N.of_nat p0 + 1) with (N.of_nat (S p0)) by lia. now apply IH.
Qed.

Section Inputs.
  Variable lu : nmap lastuse.
  Variable ins : list (list bool).
  Variable rc : rcircuit.
  Local Notation M := (max_reg_count rc).

  Lemma held_ok_weaken wm n n' : held_ok None wm [] n -> n <= n' -> held_ok None wm [] n'.
  Proof.
    intros [Hb Hi Hnd Hfr Hh] Hle. constructor.
    - intros w r E. apply Hb in E. lia.
    - exact Hi.
    - exact Hnd.
    - intros r [].
    - intros r Hr. discriminate Hr.
  Qed.

  Lemma input_step_ainv i m :
    ainv lu (mkAState m [] i) i -> ainv lu (mkAState (nadd i i m) [] (i + 1)) (i + 1).
  Proof.
    intro Ha. pose proof Ha as [Hh _ _ _]. cbn [wire_map free_regs next_reg] in Hh.
    apply (ainv_step lu (mkAState m [] i) i i (mkAState m [] (i + 1)));
      cbn [wire_map free_regs next_reg]; auto; try lia.
    - apply sub_wm_refl.
    - apply only_dying_refl.
    - intros w E. apply (ho_bound _ _ _ _ Hh) in E. lia.
    - eapply held_ok_weaken; eauto. lia.
  Qed.

  Lemma input_phase_ainv ops : forall i m,
    ainv lu (mkAState m [] i) i ->
    ainv lu (mkAState (init_wire_map (number_insts i ops) m) [] (i + lenN ops)) (i + lenN ops).
  Proof.
    induction ops as [|o r IH]; intros i m Ha; cbn [number_insts init_wire_map].
    - rewrite lenN_nil, N.add_0_r. exact Ha.
    - cbn [iout]. rewrite lenN_cons. replace (i + (1 + lenN r)) with (i + 1 + lenN r) by lia.
      apply IH. now apply input_step_ainv.
  Qed.

  Lemma input_phase_vinv ops : forall i m vals regs set v,
    ainv lu (mkAState m [] i) i -> vinv rc (mkAState m [] i) i vals regs set ->
    mapM (ival ins) ops = Some v -> Forall (valid_input (input_regs rc)) ops ->
    i + lenN ops <= M ->
    exists regs' set', run_insts ins regs (number_insts i ops) = Some regs' /\
      validate_insts rc set i (number_insts i ops) = Ok (inr set') /\
      vinv rc (mkAState (init_wire_map (number_insts i ops) m) [] (i + lenN ops)) (i + lenN ops)
           (vals ++ v) regs' set'.
  Proof.
    induction ops as [|o r IH]; intros i m vals regs set v Ha Hv Hm Hf HM;
      cbn [number_insts init_wire_map mapM run_insts validate_insts] in *.
    - injection Hm as <-. exists regs, set. rewrite app_nil_r, lenN_nil, N.add_0_r. auto.
    - destruct (ival ins o) as [b|] eqn:Eb; [|discriminate].
      destruct (mapM (ival ins) r) as [v'|] eqn:Ev; [|discriminate]. injection Hm as <-.
      inversion Hf as [|? ? Hvo Hf']; subst. rewrite lenN_cons in HM.
      destruct o as [? ?|? ?|?|p k]; cbn [ival valid_input] in *; try contradiction.
      destruct Hvo as (sz & Hp & Hk).
      pose proof Hv as [_ (Hl1 & Hl2 & Hl3)]. pose proof Ha as [Hh _ _ _].
      cbn [wire_map free_regs next_reg] in Hh.
      destruct (setN_Some regs i b) as [regs1 Hr1]; [lia|].
      destruct (setN_Some set i true) as [set1 Hs1]; [lia|].
      cbn [iop iout op_val]. rewrite Eb, Hr1.
      assert (Hvi : validate_inst rc set i (mkInst i (OInput p k)) = Ok (inr set1)).
      { unfold validate_inst. cbn [iop iout]. rewrite (leb_false M i) by lia.
        rewrite N.eqb_refl. cbn [negb]. rewrite Hp, (leb_false sz k) by lia. now rewrite Hs1. }
      rewrite Hvi.
      assert (Hfresh : fresh_for m i).
      { intros w E. apply (ho_bound _ _ _ _ Hh) in E. lia. }
      pose proof (input_step_ainv i m Ha) as Ha1.
      assert (Hv1 : vinv rc (mkAState (nadd i i m) [] (i + 1)) (i + 1) (vals ++ [b]) regs1 set1).
      { apply (vinv_step lu rc (mkAState m [] i) i vals regs set i (mkAState m [] (i + 1)) b);
          cbn [wire_map]; auto. apply sub_wm_refl. }
      destruct (IH (i + 1) (nadd i i m) (vals ++ [b]) regs1 set1 v' Ha1 Hv1 eq_refl Hf')
        as (regs' & set' & Er & Es & Hv'); [lia|].
      exists regs', set'. rewrite lenN_cons.
      replace (i + (1 + lenN r)) with (i + 1 + lenN r) by lia.
      split; [exact Er|]. split; [exact Es|].
      rewrite <- app_assoc in Hv'. exact Hv'.
  Qed.
End Inputs.

(* ---------------------------------------------------------------- assembly *)

Lemma shape_check_ok ig : forall ins, shape_check ig ins = true -> shape_ok ig ins.
Proof.
  unfold shape_check, shape_ok.
  induction ig as [|n r IH]; intros [|bits ins] H; apply andb_true_iff in H; destruct H as [H1 H2].
  - constructor.
  - rewrite lenN_cons, lenN_nil in H1. apply N.eqb_eq in H1. lia.
  - rewrite lenN_cons, lenN_nil in H1. apply N.eqb_eq in H1. lia.
  - cbn [combine forallb fst snd] in H2. apply andb_true_iff in H2. destruct H2 as [H2 H3].
    constructor; [now apply N.eqb_eq|]. apply IH. apply andb_true_iff. split; [|exact H3].
    rewrite !lenN_cons in H1. apply N.eqb_eq in H1. apply N.eqb_eq. lia.
Qed.

Lemma load_inputs_check ig : forall ins v, load_inputs ig ins = Some v -> shape_check ig ins = true.
Proof.
  unfold shape_check.
  induction ig as [|n r IH]; intros [|bits ins] v H; cbn [load_inputs] in H; try discriminate.
  - reflexivity.
  - destruct (lenN bits =? n) eqn:Hn; [|discriminate].
    destruct (load_inputs r ins) eqn:Hl; [|discriminate].
    specialize (IH _ _ Hl). apply andb_true_iff in IH. destruct IH as [I1 I2].
    apply andb_true_iff. split.
    + rewrite !lenN_cons. apply N.eqb_eq in I1. apply N.eqb_eq. lia.
    + cbn [combine forallb fst snd]. now rewrite Hn, I2.
Qed.

Lemma run_insts_app ins l1 : forall regs l2,
  run_insts ins regs (l1 ++ l2) =
  match run_insts ins regs l1 with Some r1 => run_insts ins r1 l2 | None => None end.
Proof.
  induction l1 as [|i r IH]; intros regs l2; cbn [app run_insts]; [reflexivity|].
  destruct (op_val ins regs (iop i)); [|reflexivity].
  destruct (setN regs (iout i) b); [apply IH|reflexivity].
Qed.

Lemma validate_insts_app c l1 : forall set i l2,
  validate_insts c set i (l1 ++ l2) =
  match validate_insts c set i l1 with
  | Ok (inr s1) => validate_insts c s1 (i + lenN l1) l2
  | other => other
  end.
Proof.
  induction l1 as [|x r IH]; intros set i l2; cbn [app validate_insts].
  - now rewrite lenN_nil, N.add_0_r.
  - destruct (validate_inst c set i x) as [[e|s]| |]; try reflexivity.
    rewrite IH, lenN_cons. replace (i + 1 + lenN r) with (i + (1 + lenN r)) by lia. reflexivity.
Qed.

Lemma number_insts_len ops : forall i, lenN (number_insts i ops) = lenN ops.
Proof.
  induction ops as [|o r IH]; intro i; cbn [number_insts]; [reflexivity|].
  now rewrite !lenN_cons, IH.
Qed.

Lemma sumN_pos_not_all_zero l : 0 < sumN l -> forallb (N.eqb 0) l = false.
Proof.
  induction l as [|x r IH]; cbn [sumN forallb]; [lia|]. intro H.
  destruct (N.eqb_spec 0 x) as [<-|Hne]; [|reflexivity]. apply IH. lia.
Qed.

Lemma gate_ok_zero g : gate_ok 0 g = false.
Proof.
  assert (H : forall x, (0 <=? x) = true) by (intro; apply N.leb_le; lia).
  destruct g; cbn [gate_ok]; rewrite !H; reflexivity.
Qed.

Definition dummy_rc : rcircuit := mkRCircuit [] [] 0 [] 0.

Theorem convert_correct c :
  ssa_validate c = None ->
  exists r, convert c = Ok r /\
    reg_validate r = Ok None /\
    (forall ins, reg_eval r ins = ssa_eval c ins) /\
    max_reg_count r <= wires_len c /\
    and_ops r = and_gates c /\
    input_regs r = input_gates c /\
    exists rest, insts r = number_insts 0 (input_ops 0 (input_gates c)) ++ rest /\
                 lenN rest = lenN (gates c).
Proof.
  intro Hv. unfold ssa_validate in Hv.
  destruct (is_nil (input_gates c) && forallb (N.eqb 0) (input_gates c)); [discriminate|].
  destruct (validate_gates (num_inputs c) (gates c)) eqn:Hg; [discriminate|].
  destruct (output_gates c) as [|o0 os0] eqn:Hos; [discriminate|]. rewrite <- Hos in *.
  cbn [is_nil] in Hv. rewrite Hos in Hv at 1. cbn [is_nil] in Hv.
  destruct (validate_outputs (wires_len c) (output_gates c)) eqn:Ho; [discriminate|].
  destruct (MAX_GATES <? wires_len c + num_inputs c) eqn:Hmax; [discriminate|]. clear Hv.
  apply N.ltb_ge in Hmax.
  set (lu := last_use_map c). set (n := num_inputs c) in *.
  set (iops := input_ops 0 (input_gates c)).
  assert (Hnlen : lenN iops = n) by apply input_ops_len.
  (* at least one input bit *)
  assert (Hnpos : 0 < n).
  { destruct (N.eq_dec n 0) as [E|E]; [|lia]. exfalso.
    pose proof (validate_outputs_ok _ _ Ho o0) as Hlt. rewrite Hos in Hlt.
    specialize (Hlt (or_introl eq_refl)). unfold wires_len in Hlt. fold n in Hlt.
    destruct (gates c) as [|g0 gs]; [rewrite lenN_nil in Hlt; lia|].
    cbn [validate_gates] in Hg. rewrite E, gate_ok_zero in Hg. discriminate. }
  assert (Ha0 : ainv lu (mkAState nempty [] 0) 0).
  { constructor; cbn [wire_map free_regs next_reg].
    - constructor.
      + intros w r E. rewrite nfind_empty in E. discriminate.
      + intros w1 w2 r E. rewrite nfind_empty in E. discriminate.
      + constructor.
      + intros r [].
      + intros r E. discriminate.
    - intros w r E. rewrite nfind_empty in E. discriminate.
    - intros w Hw. lia.
    - lia. }
  pose proof (input_phase_ainv lu iops 0 nempty Ha0) as Ha1.
  rewrite Hnlen, N.add_0_l in Ha1.
  set (st0 := mkAState (init_wire_map (number_insts 0 iops) nempty) [] n) in *.
  assert (Hlater : forall j gt w, nth_error (gates c) j = Some gt -> In w (gate_ops gt) ->
                   later lu w (n + N.of_nat j)).
  { intros. eapply last_use_map_uses; eauto. }
  pose proof (fun ins rc => conv_gates_sim lu ins rc (gates c) st0 n Ha1 Hg Hlater) as Hall.
  destruct (Hall [] dummy_rc) as (is & st' & Econv & Hmono & Hislen & Ha' & _).
  cbn [next_reg st0] in Hmono.
  (* outputs *)
  assert (Houts : exists outs, mapM_res (fun o => of_option (nfind o (wire_map st'))) (output_gates c) = Ok outs /\
            Forall2 (fun o r => nfind o (wire_map st') = Some r /\ r < next_reg st') (output_gates c) outs).
  { pose proof (validate_outputs_ok _ _ Ho) as Hlt. pose proof (last_use_map_output c) as Hpin.
    fold lu in Hpin. clear Hos Ho.
    induction (output_gates c) as [|o r IH]; cbn [mapM_res]; [exists []; split; [reflexivity|constructor]|].
    destruct (operand_present lu st' _ o Ha') as (ro & Ero & Hro).
    { specialize (Hlt o (or_introl eq_refl)). unfold wires_len in Hlt. exact Hlt. }
    { left. apply Hpin. now left. }
    destruct IH as (outs & -> & HF); [intros; apply Hlt; now right|intros; apply Hpin; now right|].
    rewrite Ero. cbn [of_option bind]. exists (ro :: outs). split; [reflexivity|].
    constructor; auto. }
  destruct Houts as (outs & Eouts & HF).
  set (r := mkRCircuit (input_gates c) (number_insts 0 iops ++ is) (next_reg st') outs (and_gates c)).
  assert (Hconv : convert c = Ok r).
  { unfold convert. fold lu n iops st0. rewrite Econv. cbn [bind]. rewrite Eouts. reflexivity. }
  (* the simulation for inputs of the right shape *)
  assert (Hsim : forall ins v0, load_inputs (input_gates c) ins = Some v0 ->
            exists regs1 set1 vals' regs' set',
              run_insts ins (repeat false (N.to_nat (next_reg st'))) (number_insts 0 iops) = Some regs1 /\
              validate_insts r (repeat false (N.to_nat (next_reg st'))) 0 (number_insts 0 iops) = Ok (inr set1) /\
              eval_gates v0 (gates c) = Some vals' /\
              run_insts ins regs1 is = Some regs' /\
              (forall pos, validate_insts r set1 pos is = Ok (inr set')) /\
              vinv r st' (n + lenN (gates c)) vals' regs' set').
  { intros ins v0 Hload.
    assert (Hv0 : vinv r (mkAState nempty [] 0) 0 [] (repeat false (N.to_nat (next_reg st')))
                       (repeat false (N.to_nat (next_reg st')))).
    { constructor; cbn [wire_map max_reg_count r].
      - intros w x E. rewrite nfind_empty in E. discriminate.
      - rewrite !lenN_repeat. auto. }
    destruct (input_phase_vinv lu ins r iops 0 nempty [] _ _ v0 Ha0 Hv0)
      as (regs1 & set1 & Er1 & Es1 & Hv1).
    { apply (input_ops_vals ins (input_gates c) O v0). exact Hload. }
    { apply (input_ops_valid (input_gates c) (input_gates c) O). reflexivity. }
    { cbn [max_reg_count r]. lia. }
    rewrite Hnlen, N.add_0_l in Hv1. cbn [app] in Hv1. fold st0 in Hv1.
    destruct (Hall ins r) as (is2 & st2 & E2 & _ & _ & _ & Hrest).
    rewrite Econv in E2. injection E2 as <- <-.
    destruct (Hrest v0 regs1 set1 Hv1) as (vals' & regs' & set' & Ev & Er & Evs & Hv');
      [cbn [max_reg_count r]; lia|].
    exists regs1, set1, vals', regs', set'. auto 10. }
  exists r. split; [exact Hconv|]. split; [|split; [|split; [|split; [|split]]]].
  - (* validate *)
    destruct (load_inputs_shape (input_gates c) (map (fun k => repeat false (N.to_nat k)) (input_gates c)))
      as (v0 & Hload & _).
    { unfold shape_ok. clear. induction (input_gates c); constructor; auto. apply lenN_repeat. }
    destruct (Hsim _ _ Hload) as (regs1 & set1 & vals' & regs' & set' & _ & Es1 & _ & _ & Evs & Hv').
    unfold reg_validate. cbn [input_regs output_regs max_reg_count insts r].
    rewrite (sumN_pos_not_all_zero (input_gates c)) by exact Hnpos.
    destruct outs as [|r0 outs0] eqn:Eo.
    { rewrite Hos in HF. inversion HF. }
    rewrite <- Eo in *.
    assert (Hfb : first_bad_output (next_reg st') outs = None).
    { clear -HF. induction HF as [|o x os xs [_ Hx] _ IH]; cbn [first_bad_output]; [reflexivity|].
      rewrite (leb_false (next_reg st') x) by exact Hx. exact IH. }
    rewrite Hfb.
    assert (Hlen : lenN (number_insts 0 iops ++ is) = wires_len c).
    { rewrite lenN_app, number_insts_len, Hnlen, Hislen. reflexivity. }
    rewrite Hlen.
    assert (Hm2 : (MAX_GATES_R <? wires_len c) = false).
    { apply N.ltb_ge. unfold MAX_GATES_R. unfold MAX_GATES in Hmax. lia. }
    rewrite Hm2, validate_insts_app, Es1, Evs.
    destruct Hv' as [Hval _].
    clear -HF Hval. induction HF as [|o x os xs [Hx _] _ IH]; cbn [first_unset_output]; [reflexivity|].
    destruct (Hval o x Hx) as (v & _ & _ & ->). exact IH.
  - (* evaluation *)
    intro ins. unfold reg_eval, ssa_eval, ssa_wire_vals. cbn [input_regs max_reg_count insts output_regs r].
    destruct (load_inputs (input_gates c) ins) as [v0|] eqn:Hload.
    + rewrite (load_inputs_check _ _ _ Hload). cbn [negb].
      destruct (Hsim _ _ Hload) as (regs1 & set1 & vals' & regs' & set' & Er1 & _ & Ev & Er & _ & Hv').
      rewrite run_insts_app, Er1, Er, Ev. destruct Hv' as [Hval _].
      clear -HF Hval. induction HF as [|o x os xs [Hx _] _ IH]; cbn [mapM]; [reflexivity|].
      destruct (Hval o x Hx) as (v & -> & -> & _). now rewrite IH.
    + destruct (shape_check (input_gates c) ins) eqn:Hsc; [|reflexivity].
      apply shape_check_ok in Hsc. destruct (load_inputs_shape _ _ Hsc) as (v0 & E & _). congruence.
  - cbn [max_reg_count r]. destruct Ha' as [_ _ _ Hn]. unfold wires_len. exact Hn.
  - reflexivity.
  - reflexivity.
  - exists is. split; [reflexivity|exact Hislen].
Qed.

Example convert_example :
  convert (mkCircuit [1; 2] [GXor 0 1; GAnd 0 2; GXor 3 4; GAnd 4 5] [5; 6]) =
  Ok (mkRCircuit [1; 2]
        [mkInst 0 (OInput 0 0); mkInst 1 (OInput 1 0); mkInst 2 (OInput 1 1);
         mkInst 1 (OXor 0 1); mkInst 0 (OAnd 0 2); mkInst 1 (OXor 1 0); mkInst 0 (OAnd 0 1)]
        3 [1; 0] 2).
Proof. reflexivity. Qed.

Theorem convert_correct_full c :
  ssa_validate c = None ->
  exists r, convert c = Ok r /\
    reg_validate r = Ok None /\
    (forall ins, reg_eval r ins = ssa_eval c ins) /\
    (forall ins, shape_ok (input_gates c) ins -> reg_eval_strict r ins = ssa_eval c ins) /\
    max_reg_count r <= wires_len c /\
    and_ops r = and_gates c /\
    input_regs r = input_gates c /\
    exists rest, insts r = number_insts 0 (input_ops 0 (input_gates c)) ++ rest /\
                 lenN rest = lenN (gates c).
Proof.
  intro Hv. destruct (convert_correct c Hv) as (r & Hc & Hval & Hev & Hmax & Hand & Hin & Hrest).
  exists r. repeat split; auto.
  intros ins Hs. rewrite <- Hin in Hs.
  destruct (reg_validate_safe r ins Hval Hs) as (out & H1 & H2 & _).
  rewrite H1, <- Hev. now symmetry.
Qed.
