(* Model of garble_lang::circuit::{Gate, Circuit, Circuit::validate, Circuit::eval}
   (src/circuit.rs:22-230).  [None] from [ssa_eval] means "the Rust code panics". *)
From GV Require Import Base.Util.

Inductive gate :=
| GXor (x y : N)
| GAnd (x y : N)
| GNot (x : N).

Record circuit := mkCircuit {
  input_gates : list N;
  gates : list gate;
  output_gates : list N
}.

Definition MAX_GATES : N := 4294967295.

Inductive cerr :=
| EInvalidGate (i : N)
| EInvalidOutput (o : N)
| EEmptyInputs
| EEmptyOutputs
| EMaxCircuitSizeExceeded.

Definition num_inputs (c : circuit) : N := sumN (input_gates c).
Definition wires_len (c : circuit) : N := num_inputs c + lenN (gates c).

Definition is_and (g : gate) : bool := match g with GAnd _ _ => true | _ => false end.
Definition and_gates (c : circuit) : N := lenN (filter is_and (gates c)).

Definition gate_ok (i : N) (g : gate) : bool :=
  match g with
  | GXor x y | GAnd x y => negb ((i <=? x) || (i <=? y))
  | GNot x => negb (i <=? x)
  end.

Fixpoint validate_gates (i : N) (gs : list gate) : option cerr :=
  match gs with
  | [] => None
  | g :: r => if gate_ok i g then validate_gates (i + 1) r else Some (EInvalidGate i)
  end.

Fixpoint validate_outputs (n : N) (os : list N) : option cerr :=
  match os with
  | [] => None
  | o :: r => if n <=? o then Some (EInvalidOutput o) else validate_outputs n r
  end.

Definition is_nil {A} (l : list A) : bool := match l with [] => true | _ => false end.

(* [None] = Ok(()) *)
Definition ssa_validate (c : circuit) : option cerr :=
  if is_nil (input_gates c) && forallb (N.eqb 0) (input_gates c) then Some EEmptyInputs else
  match validate_gates (num_inputs c) (gates c) with
  | Some e => Some e
  | None =>
    if is_nil (output_gates c) then Some EEmptyOutputs else
    match validate_outputs (wires_len c) (output_gates c) with
    | Some e => Some e
    | None =>
      if MAX_GATES <? wires_len c + num_inputs c then Some EMaxCircuitSizeExceeded else None
    end
  end.

Fixpoint load_inputs (ig : list N) (ins : list (list bool)) : option (list bool) :=
  match ig, ins with
  | [], [] => Some []
  | n :: ig', bits :: ins' =>
      if lenN bits =? n then
        match load_inputs ig' ins' with
        | Some r => Some (bits ++ r)
        | None => None
        end
      else None
  | _, _ => None
  end.

Definition eval_gate (vals : list bool) (g : gate) : option bool :=
  match g with
  | GXor x y =>
      match nthN vals x, nthN vals y with
      | Some a, Some b => Some (xorb a b)
      | _, _ => None
      end
  | GAnd x y =>
      match nthN vals x, nthN vals y with
      | Some a, Some b => Some (andb a b)
      | _, _ => None
      end
  | GNot x =>
      match nthN vals x with
      | Some a => Some (negb a)
      | None => None
      end
  end.

Fixpoint eval_gates (vals : list bool) (gs : list gate) : option (list bool) :=
  match gs with
  | [] => Some vals
  | g :: r =>
      match eval_gate vals g with
      | Some b => eval_gates (vals ++ [b]) r
      | None => None
      end
  end.

Definition ssa_wire_vals (c : circuit) (ins : list (list bool)) : option (list bool) :=
  match load_inputs (input_gates c) ins with
  | None => None
  | Some v0 => eval_gates v0 (gates c)
  end.

Definition ssa_eval (c : circuit) (ins : list (list bool)) : option (list bool) :=
  match ssa_wire_vals c ins with
  | None => None
  | Some vals => mapM (nthN vals) (output_gates c)
  end.

Definition shape_ok (ig : list N) (ins : list (list bool)) : Prop :=
  Forall2 (fun n bits => lenN bits = n) ig ins.
