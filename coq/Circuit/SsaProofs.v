(* C16 for SSA circuits: validate accepts => eval on inputs of the declared shape does not
   panic and returns one bit per declared output. *)
From GV Require Import Base.Util Circuit.Ssa.

Lemma load_inputs_shape ig ins :
  shape_ok ig ins -> exists v0, load_inputs ig ins = Some v0 /\ lenN v0 = sumN ig.
Proof.
  induction 1 as [|n bits ig' ins' Hn _ IH]; cbn [load_inputs sumN].
  - exists []. split; reflexivity.
  - destruct IH as (r & -> & Hr). rewrite Hn, N.eqb_refl.
    exists (bits ++ r). split; [reflexivity|]. rewrite lenN_app. lia.
Qed.

Lemma load_inputs_len ig ins v0 : load_inputs ig ins = Some v0 -> lenN v0 = sumN ig.
Proof.
  revert ins v0. induction ig as [|n ig IH]; intros [|bits ins] v0; cbn [load_inputs sumN];
    try discriminate.
  - intros [= <-]. reflexivity.
  - destruct (lenN bits =? n) eqn:E; [|discriminate].
    destruct (load_inputs ig ins) eqn:L; [|discriminate]. intros [= <-].
    rewrite lenN_app. apply N.eqb_eq in E. rewrite (IH _ _ L). lia.
Qed.

Lemma gate_ok_eval i g vals :
  gate_ok i g = true -> lenN vals = i -> exists b, eval_gate vals g = Some b.
Proof.
  intros Hok Hlen. destruct g as [x y|x y|x]; cbn [gate_ok eval_gate] in *.
  - apply negb_true_iff, orb_false_iff in Hok. destruct Hok as [Hx Hy].
    apply N.leb_gt in Hx, Hy.
    destruct (nthN_Some vals x) as [a ->]; [lia|].
    destruct (nthN_Some vals y) as [b ->]; [lia|]. eauto.
  - apply negb_true_iff, orb_false_iff in Hok. destruct Hok as [Hx Hy].
    apply N.leb_gt in Hx, Hy.
    destruct (nthN_Some vals x) as [a ->]; [lia|].
    destruct (nthN_Some vals y) as [b ->]; [lia|]. eauto.
  - apply negb_true_iff in Hok. apply N.leb_gt in Hok.
    destruct (nthN_Some vals x) as [a ->]; [lia|]. eauto.
Qed.

Lemma validate_gates_eval gs : forall vals,
  validate_gates (lenN vals) gs = None ->
  exists vals', eval_gates vals gs = Some vals' /\ lenN vals' = lenN vals + lenN gs.
Proof.
  induction gs as [|g r IH]; intros vals H; cbn [validate_gates eval_gates] in *.
  - exists vals. split; [reflexivity|]. rewrite lenN_nil. lia.
  - destruct (gate_ok (lenN vals) g) eqn:Hok; [|discriminate].
    destruct (gate_ok_eval _ _ vals Hok eq_refl) as [b ->].
    destruct (IH (vals ++ [b])) as (vals' & Hev & Hlen).
    + rewrite lenN_app, lenN_cons, lenN_nil. now rewrite N.add_0_r.
    + exists vals'. split; [exact Hev|]. rewrite Hlen, lenN_app, !lenN_cons, lenN_nil. lia.
Qed.

Lemma eval_gates_len gs : forall vals vals',
  eval_gates vals gs = Some vals' -> lenN vals' = lenN vals + lenN gs.
Proof.
  induction gs as [|g r IH]; intros vals vals'; cbn [eval_gates].
  - intros [= <-]. rewrite lenN_nil. lia.
  - destruct (eval_gate vals g); [|discriminate]. intro H. apply IH in H.
    rewrite H, lenN_app, !lenN_cons, lenN_nil. lia.
Qed.

Lemma validate_outputs_ok n os :
  validate_outputs n os = None -> forall o, In o os -> o < n.
Proof.
  induction os as [|o r IH]; cbn [validate_outputs]; intros H x Hin; [destruct Hin|].
  destruct (n <=? o) eqn:E; [discriminate|]. apply N.leb_gt in E.
  destruct Hin as [<-|Hin]; [exact E|now apply IH].
Qed.

Theorem ssa_validate_safe c ins :
  ssa_validate c = None -> shape_ok (input_gates c) ins ->
  exists out, ssa_eval c ins = Some out /\ length out = length (output_gates c).
Proof.
  unfold ssa_validate, ssa_eval, ssa_wire_vals. intros Hv Hs.
  destruct (is_nil (input_gates c) && forallb (N.eqb 0) (input_gates c)); [discriminate|].
  destruct (validate_gates (num_inputs c) (gates c)) eqn:Hg; [discriminate|].
  destruct (is_nil (output_gates c)); [discriminate|].
  destruct (validate_outputs (wires_len c) (output_gates c)) eqn:Ho; [discriminate|].
  destruct (load_inputs_shape _ _ Hs) as (v0 & -> & Hlen).
  unfold num_inputs in Hg. rewrite <- Hlen in Hg.
  destruct (validate_gates_eval _ _ Hg) as (vals & -> & Hvl).
  destruct (mapM_all (nthN vals) (output_gates c)) as [out Hout].
  - intros o Hin. apply nthN_Some. pose proof (validate_outputs_ok _ _ Ho o Hin) as Hlt.
    unfold wires_len, num_inputs in Hlt. lia.
  - exists out. split; [exact Hout|]. eapply mapM_length; eauto.
Qed.

(* non-vacuity: a circuit that validates, with inputs of its shape *)
Example ssa_validate_safe_example :
  let c := mkCircuit [1; 2] [GXor 0 1; GAnd 0 2; GXor 3 4; GNot 5] [5; 6; 0] in
  ssa_validate c = None /\ shape_ok (input_gates c) [[true]; [false; true]] /\
  ssa_eval c [[true]; [false; true]] = Some [false; true; true].
Proof.
  split; [reflexivity|]. split; [|reflexivity].
  repeat constructor.
Qed.
