(* Proofs about the Bristol model (C11): the importer is total, the exporter writes
   well-formed Bristol, and import (export c) computes the non-panic outputs of c. *)
From GV Require Import Base.Util Circuit.Ssa Circuit.SsaProofs Circuit.Bristol.

(* ------------------------------------------------------------------------------------ *)
(* Part 1: the importer never panics (and its one fuelled loop never runs out of fuel)   *)

Definition safe {A} (r : res A) : Prop := exists a, r = Ok a.

Lemma safe_not_crash {A} (r : res A) : safe r -> r <> Crash /\ r <> OutOfFuel.
Proof. intros [a ->]. split; discriminate. Qed.

Lemma safe_ebind {A B} (r : ires A) (f : A -> ires B) :
  safe r -> (forall a, safe (f a)) -> safe (ebind r f).
Proof.
  intros [[a|e] ->] Hf; cbn [ebind]; [apply Hf|]. eexists; reflexivity.
Qed.

Lemma safe_ret {A} (a : A) : safe (ret a).
Proof. eexists; reflexivity. Qed.

Lemma safe_fail {A} e : safe (@fail A e).
Proof. eexists; reflexivity. Qed.

Lemma safe_parse_line o : safe (parse_line o).
Proof.
  destruct o as [l|]; cbn [parse_line]; [|apply safe_fail].
  destruct (mapM tok_num l); [apply safe_ret|apply safe_fail].
Qed.

Lemma slice_ok {A} (l : list A) a b : a <= b -> b <= lenN l -> exists r, slice l a b = Ok r.
Proof.
  intros H1 H2. unfold slice.
  rewrite (proj2 (N.leb_le _ _) H1), (proj2 (N.leb_le _ _) H2). cbn [andb]. eauto.
Qed.

Lemma safe_parse_gate_line l : safe (parse_gate_line l).
Proof.
  unfold parse_gate_line.
  destruct (is_nil l); [apply safe_ret|].
  destruct (N.ltb_spec (lenN l) 5) as [H5|H5]; [apply safe_fail|].
  destruct (nthN_Some l 0) as [t0 ->]; [lia|]. cbn [of_option bind].
  destruct (tok_num t0) as [ni|]; [|apply safe_fail].
  destruct (nthN_Some l 1) as [t1 ->]; [lia|]. cbn [of_option bind].
  destruct (tok_num t1) as [no|]; [|apply safe_fail].
  destruct (negb (no =? 1)); [apply safe_fail|].
  unfold checked_add.
  destruct (N.leb_spec (ni + 4) USIZE_MAX) as [Hle|Hgt]; [|apply safe_fail].
  destruct (N.eqb_spec (ni + 4) (lenN l)) as [Heq|Hne]; cbn [negb]; [|apply safe_fail].
  unfold cadd. rewrite (proj2 (N.leb_le (2 + ni) USIZE_MAX)) by lia. cbn [bind].
  destruct (slice_ok l 2 (2 + ni)) as [sl ->]; [lia|lia|]. cbn [bind].
  destruct (mapM tok_num sl); [|apply safe_fail].
  destruct (nthN_Some l (2 + ni)) as [t ->]; [lia|]. cbn [of_option bind].
  destruct (tok_num t); [apply safe_ret|apply safe_fail].
Qed.

Lemma safe_imp_step wn niw l ins o wmap next : safe (imp_step wn niw l ins o wmap next).
Proof.
  unfold imp_step.
  destruct (find _ ins); [apply safe_fail|].
  destruct (wn <=? o); [apply safe_fail|].
  destruct (last_opt l) as [gt|]; [|apply safe_fail].
  destruct (checked_add next 1) as [nx|]; [|apply safe_fail].
  destruct gt as [tn|[| | |]]; try apply safe_fail;
    destruct ins as [|a [|b [|c r]]]; try apply safe_fail; apply safe_ret.
Qed.

Lemma safe_imp_gates wn niw ls : forall wmap next, safe (imp_gates wn niw ls wmap next).
Proof.
  induction ls as [|l r IH]; intros wmap next; cbn [imp_gates]; [apply safe_ret|].
  apply safe_ebind; [apply safe_parse_gate_line|].
  intros [[ins o]|]; [|apply IH].
  apply safe_ebind; [apply safe_imp_step|].
  intros [[g wmap'] next'].
  apply safe_ebind; [apply IH|].
  intros [gs wm]. apply safe_ret.
Qed.

Lemma wfind_in w m g : wfind w m = Some g -> In w (map fst m).
Proof.
  induction m as [|[k v] r IH]; cbn [wfind map fst]; [discriminate|].
  destruct (N.eqb_spec k w) as [->|Hne]; [now left|]. intro H. right. now apply IH.
Qed.

Lemma filter_length_lt {A} (p q : A -> bool) (a : A) l :
  (forall x, p x = true -> q x = true) -> In a l -> q a = true -> p a = false ->
  (length (filter p l) < length (filter q l))%nat.
Proof.
  intros Hpq Hin Hqa Hpa.
  assert (Hle : forall l', (length (filter p l') <= length (filter q l'))%nat).
  { induction l' as [|x r IH]; cbn [filter]; [lia|].
    destruct (p x) eqn:Ep.
    - rewrite (Hpq _ Ep). cbn [length]. lia.
    - destruct (q x); cbn [length]; lia. }
  induction l as [|x r IH]; [destruct Hin|]. cbn [filter].
  destruct Hin as [->|Hin].
  - rewrite Hpa, Hqa. cbn [length]. specialize (Hle r). lia.
  - specialize (IH Hin). destruct (p x) eqn:Ep.
    + rewrite (Hpq _ Ep). cbn [length]. lia.
    + destruct (q x); cbn [length]; lia.
Qed.

Lemma filter_length_le' {A} (p : A -> bool) l : (length (filter p l) <= length l)%nat.
Proof.
  induction l as [|x r IH]; cbn [filter length]; [lia|].
  destruct (p x); cbn [length]; lia.
Qed.

(* fuel adequacy of the output loop: every successful step finds a distinct key *)
Lemma safe_collect_outs wn wmap : forall fuel w,
  (length (filter (fun k => (w <=? k)%N) (map fst wmap)) < fuel)%nat ->
  safe (collect_outs fuel w wn wmap).
Proof.
  induction fuel as [|f IH]; intros w Hlt; [lia|].
  cbn [collect_outs].
  destruct (w <? wn); [|apply safe_ret].
  destruct (wfind w wmap) as [g|] eqn:Ef; [|apply safe_fail].
  apply safe_ebind; [|intros; apply safe_ret].
  apply IH.
  assert (Hl : (length (filter (fun k => (w + 1 <=? k)%N) (map fst wmap)) <
                length (filter (fun k => (w <=? k)%N) (map fst wmap)))%nat).
  { apply filter_length_lt with (a := w).
    - intros x Hx. apply N.leb_le in Hx. apply N.leb_le. lia.
    - eapply wfind_in; eauto.
    - apply N.leb_le. lia.
    - apply N.leb_gt. lia. }
  lia.
Qed.

Lemma safe_imp_header ls : safe (imp_header ls).
Proof.
  unfold imp_header.
  destruct (next_line ls) as [l1 ls1].
  apply safe_ebind; [apply safe_parse_line|]. intros [parts1 s1].
  destruct (N.eqb_spec (lenN parts1) 2) as [H1|H1]; cbn [negb]; [|apply safe_fail].
  destruct (nthN_Some parts1 1) as [wn ->]; [lia|]. cbn [of_option bind].
  destruct (nthN_Some parts1 0) as [gn ->]; [lia|]. cbn [of_option bind].
  destruct (next_line ls1) as [l2 ls2].
  apply safe_ebind; [apply safe_parse_line|]. intros [parts2 s2].
  destruct (N.ltb_spec (lenN parts2) 2) as [H2|H2]; [apply safe_fail|].
  destruct (slice_ok parts2 1 (lenN parts2)) as [ig ->]; [lia|lia|]. cbn [bind].
  destruct (nthN_Some parts2 0) as [ep ->]; [lia|]. cbn [of_option bind].
  destruct (negb (lenN ig =? ep)); [apply safe_fail|].
  destruct (checked_sum ig) as [niw|]; [|apply safe_fail].
  destruct (next_line ls2) as [l3 ls3].
  apply safe_ebind; [apply safe_parse_line|]. intros [parts3 s3].
  destruct (N.ltb_spec (lenN parts3) 2) as [H3|H3]; [apply safe_fail|].
  destruct (nthN_Some parts3 0) as [no ->]; [lia|]. cbn [of_option bind].
  destruct (slice_ok parts3 1 (lenN parts3)) as [gpo ->]; [lia|lia|]. cbn [bind].
  destruct (negb (lenN gpo =? no)); [apply safe_fail|].
  destruct (checked_sum gpo) as [now|]; [|apply safe_fail].
  destruct (wn <? now); [apply safe_fail|apply safe_ret].
Qed.

(* the header check num_output_wires <= wires_num is what makes the subtraction safe *)
Lemma imp_header_outputs_le ls wn ig niw now rest :
  imp_header ls = ret (wn, ig, niw, now, rest) -> now <= wn.
Proof.
  unfold imp_header.
  destruct (next_line ls) as [l1 ls1].
  destruct (parse_line l1) as [[[parts1 s1]|e]| |]; cbn [ebind]; try discriminate.
  destruct (negb (lenN parts1 =? 2)); [discriminate|].
  destruct (nthN parts1 1) as [wn'|]; cbn [of_option bind]; [|discriminate].
  destruct (nthN parts1 0) as [gn|]; cbn [of_option bind]; [|discriminate].
  destruct (next_line ls1) as [l2 ls2].
  destruct (parse_line l2) as [[[parts2 s2]|e]| |]; cbn [ebind]; try discriminate.
  destruct (lenN parts2 <? 2); [discriminate|].
  destruct (slice parts2 1 (lenN parts2)) as [ig'| |]; cbn [bind]; try discriminate.
  destruct (nthN parts2 0) as [ep|]; cbn [of_option bind]; [|discriminate].
  destruct (negb (lenN ig' =? ep)); [discriminate|].
  destruct (checked_sum ig') as [niw'|]; [|discriminate].
  destruct (next_line ls2) as [l3 ls3].
  destruct (parse_line l3) as [[[parts3 s3]|e]| |]; cbn [ebind]; try discriminate.
  destruct (lenN parts3 <? 2); [discriminate|].
  destruct (nthN parts3 0) as [no|]; cbn [of_option bind]; [|discriminate].
  destruct (slice parts3 1 (lenN parts3)) as [gpo| |]; cbn [bind]; try discriminate.
  destruct (negb (lenN gpo =? no)); [discriminate|].
  destruct (checked_sum gpo) as [now'|]; [|discriminate].
  destruct (N.ltb_spec wn' now') as [Hlt|Hge]; [discriminate|].
  unfold ret. intros [= <- _ _ <- _]. exact Hge.
Qed.

Theorem import_safe ls : safe (import ls).
Proof.
  unfold import.
  destruct (safe_imp_header ls) as [[h|e] Hh]; rewrite Hh; cbn [ebind];
    [|eexists; reflexivity].
  destruct h as [[[[wn ig] niw] now] rest].
  pose proof (imp_header_outputs_le _ _ _ _ _ _ Hh) as Hle.
  unfold imp_body, csub. rewrite (proj2 (N.leb_le _ _) Hle). cbn [bind].
  apply safe_ebind; [apply safe_imp_gates|]. intros [gates wmap].
  apply safe_ebind; [|intros; apply safe_ret].
  apply safe_collect_outs.
  pose proof (filter_length_le' (fun k => wn - now <=? k) (map fst wmap)) as Hf.
  rewrite map_length in Hf. lia.
Qed.

Theorem import_total ls : import ls <> Crash /\ import ls <> OutOfFuel.
Proof. apply safe_not_crash, import_safe. Qed.

(* ------------------------------------------------------------------------------------ *)
(* Part 2: list / counting lemmas                                                        *)

Lemma nthN_cons_0 {A} (a : A) l : nthN (a :: l) 0 = Some a.
Proof. rewrite nthN_spec. reflexivity. Qed.

Lemma nthN_cons_succ {A} (a : A) l k : nthN (a :: l) (k + 1) = nthN l k.
Proof.
  rewrite !nthN_spec. replace (N.to_nat (k + 1)) with (S (N.to_nat k)) by lia. reflexivity.
Qed.

Lemma nthN_In {A} (l : list A) k a : nthN l k = Some a -> In a l.
Proof. rewrite nthN_spec. apply nth_error_In. Qed.

Lemma In_nthN {A} (l : list A) a : In a l -> exists k, nthN l k = Some a.
Proof.
  intro H. destruct (In_nth_error _ _ H) as [n Hn]. exists (N.of_nat n).
  rewrite nthN_spec, Nat2N.id. exact Hn.
Qed.

(* pigeonhole: distinct numbers inside [a, b) are at most b - a *)
Lemma pigeon (l : list N) a b :
  NoDup l -> (forall x, In x l -> a <= x < b) -> lenN l <= b - a.
Proof.
  intros Hnd Hr.
  assert (Hincl : incl l (map N.of_nat (seq (N.to_nat a) (N.to_nat (b - a))))).
  { intros x Hx. specialize (Hr x Hx). apply in_map_iff. exists (N.to_nat x).
    split; [apply N2Nat.id|]. apply in_seq. lia. }
  pose proof (NoDup_incl_length Hnd Hincl) as Hlen.
  rewrite map_length, seq_length in Hlen. unfold lenN. lia.
Qed.

Lemma NoDup_filter' {A} (p : A -> bool) l : NoDup l -> NoDup (filter p l).
Proof.
  induction 1 as [|x r Hx Hnd IH]; cbn [filter]; [constructor|].
  destruct (p x); [|exact IH]. constructor; [|exact IH].
  intro Hin. apply filter_In in Hin. tauto.
Qed.

Lemma pos_last_nth l x : forall k, pos_last l x = Some k -> nthN l k = Some x.
Proof.
  induction l as [|y r IH]; intros k; cbn [pos_last]; [discriminate|].
  destruct (pos_last r x) as [k'|].
  - intros [= <-]. rewrite nthN_cons_succ. now apply IH.
  - destruct (N.eqb_spec y x) as [->|Hne]; [|discriminate]. intros [= <-]. apply nthN_cons_0.
Qed.

Lemma pos_last_none l x : pos_last l x = None -> ~ In x l.
Proof.
  induction l as [|y r IH]; cbn [pos_last]; [intros _ []|].
  destruct (pos_last r x) as [k'|]; [discriminate|].
  destruct (N.eqb_spec y x) as [->|Hne]; [discriminate|].
  intros _ [H|H]; [congruence|]. now apply IH.
Qed.

Lemma pos_last_in l x : In x l -> exists k, pos_last l x = Some k.
Proof.
  intro H. destruct (pos_last l x) as [k|] eqn:E; [eauto|].
  exfalso. eapply pos_last_none; eauto.
Qed.

Lemma pos_last_unique l : NoDup l -> forall k x, nthN l k = Some x -> pos_last l x = Some k.
Proof.
  induction 1 as [|y r Hy Hnd IH]; intros k x Hk.
  - apply nthN_lt in Hk. rewrite lenN_nil in Hk. lia.
  - cbn [pos_last]. destruct (N.eq_dec k 0) as [->|Hk0].
    + rewrite nthN_cons_0 in Hk. injection Hk as <-.
      destruct (pos_last r y) as [k'|] eqn:E.
      * exfalso. apply Hy. eapply nthN_In, pos_last_nth; eauto.
      * now rewrite N.eqb_refl.
    + replace k with (k - 1 + 1) in Hk |- * by lia. rewrite nthN_cons_succ in Hk.
      now rewrite (IH _ _ Hk).
Qed.

Definition cntlt (O : list N) (i : N) : N := lenN (filter (fun o => o <? i) O).

Lemma cntlt_nil i : cntlt [] i = 0.
Proof. reflexivity. Qed.

Lemma cntlt_cons o O i : cntlt (o :: O) i = (if o <? i then 1 else 0) + cntlt O i.
Proof.
  unfold cntlt. cbn [filter]. destruct (o <? i); [rewrite lenN_cons|]; lia.
Qed.

Lemma cntlt_succ_notin O i : ~ In i O -> cntlt O (i + 1) = cntlt O i.
Proof.
  induction O as [|o r IH]; intro Hn; [reflexivity|].
  rewrite !cntlt_cons, IH by (intro; apply Hn; now right).
  assert (o <> i) by (intro; apply Hn; now left).
  destruct (N.ltb_spec o (i + 1)), (N.ltb_spec o i); lia.
Qed.

Lemma cntlt_succ_in O i : NoDup O -> In i O -> cntlt O (i + 1) = cntlt O i + 1.
Proof.
  induction 1 as [|o r Ho Hnd IH]; intro Hin; [destruct Hin|].
  rewrite !cntlt_cons. destruct Hin as [->|Hin].
  - rewrite cntlt_succ_notin by exact Ho.
    destruct (N.ltb_spec i (i + 1)), (N.ltb_spec i i); lia.
  - rewrite IH by exact Hin. assert (o <> i) by congruence.
    destruct (N.ltb_spec o (i + 1)), (N.ltb_spec o i); lia.
Qed.

Lemma cntlt_split O i j :
  i <= j -> cntlt O j = cntlt O i + lenN (filter (fun o => (i <=? o) && (o <? j)) O).
Proof.
  intro Hij. induction O as [|o r IH]; [reflexivity|].
  rewrite !cntlt_cons, IH. cbn [filter].
  destruct (N.ltb_spec o j), (N.ltb_spec o i), (N.leb_spec i o); cbn [andb];
    try rewrite lenN_cons; lia.
Qed.

Lemma cntlt_all O t : (forall o, In o O -> o < t) -> cntlt O t = lenN O.
Proof.
  induction O as [|o r IH]; intro H; [reflexivity|].
  rewrite cntlt_cons, lenN_cons, IH by (intros; apply H; now right).
  rewrite (proj2 (N.ltb_lt o t)) by (apply H; now left). lia.
Qed.

Lemma nseq_length n : forall a, length (nseq n a) = n.
Proof. induction n as [|n IH]; intro a; cbn [nseq length]; [reflexivity|now rewrite IH]. Qed.

Lemma nseq_nth n : forall a k, (k < n)%nat -> nth_error (nseq n a) k = Some (a + N.of_nat k).
Proof.
  induction n as [|n IH]; intros a k Hk; [lia|]. cbn [nseq].
  destruct k as [|k]; cbn [nth_error]; [f_equal; lia|].
  rewrite IH by lia. f_equal. lia.
Qed.

Lemma mapM_tok_num_map l : mapM tok_num (map TNum l) = Some l.
Proof.
  induction l as [|a r IH]; cbn [map mapM tok_num]; [reflexivity|now rewrite IH].
Qed.

Lemma mapM_ext_in {A B} (f g : A -> option B) l :
  (forall a, In a l -> f a = g a) -> mapM f l = mapM g l.
Proof.
  induction l as [|a r IH]; intro H; cbn [mapM]; [reflexivity|].
  rewrite (H a (or_introl eq_refl)), IH by (intros; apply H; now right). reflexivity.
Qed.

Lemma mapM_skipn {A B} (f : A -> option B) k : forall l bs,
  mapM f l = Some bs -> mapM f (skipn k l) = Some (skipn k bs).
Proof.
  induction k as [|k IH]; intros l bs H; [exact H|].
  destruct l as [|a r]; cbn [mapM] in H.
  - injection H as <-. reflexivity.
  - destruct (f a); [|discriminate]. destruct (mapM f r) eqn:E; [|discriminate].
    injection H as <-. cbn [skipn]. now apply IH.
Qed.

(* ------------------------------------------------------------------------------------ *)
(* Part 3: the exporter's wire renumbering in closed form, its range and injectivity      *)

Section WMF.
  Variables (n_in tw : N) (O : list N).
  Hypothesis HND : NoDup O.
  Hypothesis HR : forall o, In o O -> n_in <= o < tw.

  Definition wmf (i : N) : N :=
    if i <? n_in then i else
    match pos_last O i with
    | Some idx => tw - lenN O + idx
    | None => i - cntlt O i
    end.

  Lemma outs_le : lenN O <= tw - n_in.
  Proof. apply pigeon; assumption. Qed.

  Lemma cnt_le i : cntlt O i <= i - n_in.
  Proof.
    unfold cntlt. apply pigeon; [apply NoDup_filter'; exact HND|].
    intros x Hx. apply filter_In in Hx. destruct Hx as [Hx Hlt].
    apply N.ltb_lt in Hlt. specialize (HR x Hx). lia.
  Qed.

  Lemma between_le i j : ~ In i O ->
    lenN (filter (fun o => (i <=? o) && (o <? j)) O) <= j - (i + 1).
  Proof.
    intro Hni. apply pigeon; [apply NoDup_filter'; exact HND|].
    intros x Hx. apply filter_In in Hx. destruct Hx as [Hx Hb].
    apply andb_true_iff in Hb. destruct Hb as [H1 H2].
    apply N.leb_le in H1. apply N.ltb_lt in H2.
    assert (x <> i) by (intros ->; now apply Hni). lia.
  Qed.

  Lemma nonout_ub i : n_in <= i < tw -> ~ In i O -> i - cntlt O i < tw - lenN O.
  Proof.
    intros Hi Hni.
    pose proof (cntlt_split O i tw ltac:(lia)) as Hs.
    rewrite (cntlt_all O tw) in Hs by (intros o Ho; specialize (HR o Ho); lia).
    pose proof (between_le i tw Hni). pose proof (cnt_le i). pose proof outs_le. lia.
  Qed.

  Lemma wmf_in i : i < n_in -> wmf i = i.
  Proof. intro H. unfold wmf. now rewrite (proj2 (N.ltb_lt _ _) H). Qed.

  Lemma wmf_range i : n_in <= i < tw -> n_in <= wmf i < tw.
  Proof.
    intro Hi. unfold wmf. rewrite (proj2 (N.ltb_ge _ _)) by lia.
    pose proof outs_le.
    destruct (pos_last O i) as [idx|] eqn:E.
    - apply pos_last_nth, nthN_lt in E. lia.
    - apply pos_last_none in E. pose proof (nonout_ub i Hi E). pose proof (cnt_le i). lia.
  Qed.

  Lemma wmf_out idx o : nthN O idx = Some o -> wmf o = tw - lenN O + idx.
  Proof.
    intro H. unfold wmf. pose proof (HR o (nthN_In _ _ _ H)).
    rewrite (proj2 (N.ltb_ge _ _)) by lia.
    now rewrite (pos_last_unique O HND idx o H).
  Qed.

  Lemma wmf_lt_nonout i j : n_in <= i -> i < j -> j < tw -> ~ In i O -> ~ In j O ->
    i - cntlt O i < j - cntlt O j.
  Proof.
    intros Hi Hij Hj Hni Hnj.
    pose proof (cntlt_split O i j ltac:(lia)) as Hs.
    pose proof (between_le i j Hni). pose proof (cnt_le i). pose proof (cnt_le j). lia.
  Qed.

  Lemma wmf_inj i j : n_in <= i < tw -> n_in <= j < tw -> wmf i = wmf j -> i = j.
  Proof.
    intros Hi Hj. unfold wmf.
    rewrite !(proj2 (N.ltb_ge _ _)) by lia.
    pose proof outs_le.
    destruct (pos_last O i) as [a|] eqn:Ea, (pos_last O j) as [b|] eqn:Eb; intro Heq.
    - pose proof (pos_last_nth _ _ _ Ea) as Ha. pose proof (pos_last_nth _ _ _ Eb) as Hb.
      pose proof (nthN_lt _ _ _ Ha). pose proof (nthN_lt _ _ _ Hb).
      assert (a = b) by lia. subst b. congruence.
    - apply pos_last_none in Eb. pose proof (nonout_ub j Hj Eb).
      apply pos_last_nth, nthN_lt in Ea. lia.
    - apply pos_last_none in Ea. pose proof (nonout_ub i Hi Ea).
      apply pos_last_nth, nthN_lt in Eb. lia.
    - apply pos_last_none in Ea. apply pos_last_none in Eb.
      destruct (N.lt_trichotomy i j) as [Hlt|[Heq'|Hgt]]; [|exact Heq'|].
      + pose proof (wmf_lt_nonout i j ltac:(lia) Hlt ltac:(lia) Ea Eb). lia.
      + pose proof (wmf_lt_nonout j i ltac:(lia) Hgt ltac:(lia) Eb Ea). lia.
  Qed.

  (* the loop of the exporter computes wmf *)
  Hypothesis HTW : tw <= USIZE_MAX.

  Lemma wmap_gates_spec : forall n i,
    n_in <= i -> i + N.of_nat n = tw ->
    exists l, wmap_gates n i (cntlt O i) tw O = Ok l /\ length l = n /\
              forall k, (k < n)%nat -> nth_error l k = Some (wmf (i + N.of_nat k)).
  Proof.
    induction n as [|n IH]; intros i Hi Hn.
    - exists []. cbn [wmap_gates length]. repeat split. intros; lia.
    - cbn [wmap_gates]. pose proof outs_le as Hol.
      assert (Hwi : wmf i = match pos_last O i with
                            | Some idx => tw - lenN O + idx
                            | None => i - cntlt O i end).
      { unfold wmf. now rewrite (proj2 (N.ltb_ge _ _)) by lia. }
      destruct (IH (i + 1)) as (r & Hr & Hlen & Hnth); [lia|lia|].
      destruct (pos_last O i) as [idx|] eqn:E.
      + pose proof (pos_last_nth _ _ _ E) as Hn'. pose proof (nthN_lt _ _ _ Hn') as Hidx.
        unfold csub. rewrite (proj2 (N.leb_le (lenN O) tw)) by lia. cbn [bind].
        unfold cadd. rewrite (proj2 (N.leb_le (tw - lenN O + idx) USIZE_MAX)) by lia.
        cbn [bind].
        rewrite (cntlt_succ_in O i HND (nthN_In _ _ _ Hn')) in Hr. rewrite Hr. cbn [bind].
        eexists. split; [reflexivity|]. split; [cbn [length]; now rewrite Hlen|].
        intros [|k] Hk; cbn [nth_error].
        * rewrite N.add_0_r. now rewrite Hwi.
        * rewrite Hnth by lia. do 2 f_equal. lia.
      + apply pos_last_none in E. pose proof (cnt_le i) as Hc.
        unfold csub. rewrite (proj2 (N.leb_le (cntlt O i) i)) by lia. cbn [bind].
        rewrite (cntlt_succ_notin O i E) in Hr. rewrite Hr. cbn [bind].
        eexists. split; [reflexivity|]. split; [cbn [length]; now rewrite Hlen|].
        intros [|k] Hk; cbn [nth_error].
        * rewrite N.add_0_r. now rewrite Hwi.
        * rewrite Hnth by lia. do 2 f_equal. lia.
  Qed.

  (* the complete wires_map of the exporter *)
  Lemma wires_map_spec :
    n_in <= tw ->
    exists wg, wmap_gates (N.to_nat (tw - n_in)) n_in 0 tw O = Ok wg /\
      lenN (nseq (N.to_nat n_in) 0 ++ wg) = tw /\
      forall i, i < tw -> nthN (nseq (N.to_nat n_in) 0 ++ wg) i = Some (wmf i).
  Proof.
    intro Hle.
    assert (Hc0 : cntlt O n_in = 0).
    { pose proof (cnt_le n_in). lia. }
    destruct (wmap_gates_spec (N.to_nat (tw - n_in)) n_in) as (wg & Hwg & Hlen & Hnth);
      [lia|lia|].
    rewrite Hc0 in Hwg. exists wg. split; [exact Hwg|].
    split.
    - rewrite lenN_app. unfold lenN. rewrite nseq_length, Hlen. lia.
    - intros i Hi. rewrite nthN_spec.
      destruct (N.ltb_spec i n_in) as [Hin|Hge].
      + rewrite nth_error_app1 by (rewrite nseq_length; lia).
        rewrite nseq_nth by lia. rewrite wmf_in by exact Hin. f_equal. lia.
      + rewrite nth_error_app2 by (rewrite nseq_length; lia).
        rewrite nseq_length, Hnth by lia. do 2 f_equal. lia.
  Qed.
End WMF.

(* ------------------------------------------------------------------------------------ *)
(* Part 4: de-aliasing of repeated outputs                                               *)

Lemma existsb_eqb_in o seen : existsb (N.eqb o) seen = true <-> In o seen.
Proof.
  rewrite existsb_exists. split.
  - intros (x & Hx & He). apply N.eqb_eq in He. now subst.
  - intro H. exists o. split; [exact H|apply N.eqb_refl].
Qed.

Lemma dealias_spec n_in bound : forall outs seen wmax,
  (forall o, In o outs -> n_in <= o < bound) ->
  bound <= wmax ->
  wmax + 2 * lenN outs <= USIZE_MAX ->
  exists extra outs' w',
    dealias outs seen wmax = Ok (extra, outs', w') /\
    w' = wmax + lenN extra /\ lenN outs' = lenN outs /\ lenN extra <= 2 * lenN outs /\
    NoDup outs' /\
    (forall o', In o' outs' ->
       (In o' outs /\ ~ In o' seen /\ o' < bound) \/ (wmax <= o' < w')) /\
    validate_gates wmax extra = None.
Proof.
  induction outs as [|o r IH]; intros seen wmax Hr Hb Hmax.
  - exists [], [], wmax. cbn [dealias validate_gates]. rewrite !lenN_nil.
    split; [reflexivity|]. split; [lia|]. split; [reflexivity|]. split; [lia|].
    split; [constructor|]. split; [intros o' []|reflexivity].
  - rewrite lenN_cons in Hmax. cbn [dealias].
    assert (Ho : n_in <= o < bound) by (apply Hr; now left).
    assert (Hr' : forall o, In o r -> n_in <= o < bound) by (intros; apply Hr; now right).
    destruct (existsb (N.eqb o) seen) eqn:Es.
    + unfold cadd. rewrite !(proj2 (N.leb_le _ USIZE_MAX)) by lia. cbn [bind].
      destruct (IH seen (wmax + 2) Hr' ltac:(lia) ltac:(lia))
        as (ex & os & w' & -> & Hw & Hlen & Hex & Hnd & Hcl & Hval).
      cbn [bind]. eexists _, _, _. split; [reflexivity|].
      rewrite !lenN_cons. repeat split; try lia.
      * constructor; [|exact Hnd]. intro Hin. destruct (Hcl _ Hin) as [(_ & _ & H)|H]; lia.
      * intros o' [<-|Hin]; [right; lia|].
        destruct (Hcl _ Hin) as [(H1 & H2 & H3)|H]; [left; repeat split; auto; now right|right; lia].
      * cbn [validate_gates gate_ok].
        rewrite (proj2 (N.leb_gt wmax o)) by lia. cbn [orb negb].
        rewrite (proj2 (N.leb_gt (wmax + 1) o)) by lia.
        rewrite (proj2 (N.leb_gt (wmax + 1) wmax)) by lia. cbn [orb negb].
        replace (wmax + 1 + 1) with (wmax + 2) by lia. exact Hval.
    + assert (Hns : ~ In o seen).
      { intro H. apply existsb_eqb_in in H. congruence. }
      destruct (IH (o :: seen) wmax Hr' Hb ltac:(lia))
        as (ex & os & w' & -> & Hw & Hlen & Hex & Hnd & Hcl & Hval).
      cbn [bind]. eexists _, _, _. split; [reflexivity|].
      rewrite !lenN_cons. repeat split; try lia; try exact Hval.
      * constructor; [|exact Hnd]. intro Hin.
        destruct (Hcl _ Hin) as [(_ & H & _)|H]; [apply H; now left|lia].
      * intros o' [<-|Hin]; [left; repeat split; auto; [now left|lia]|].
        destruct (Hcl _ Hin) as [(H1 & H2 & H3)|H]; [left|right; lia].
        repeat split; auto; [now right|]. intro H. apply H2. now right.
Qed.

Lemma eval_gates_app gs1 : forall gs2 vals,
  eval_gates vals (gs1 ++ gs2) =
  match eval_gates vals gs1 with Some v => eval_gates v gs2 | None => None end.
Proof.
  induction gs1 as [|g r IH]; intros gs2 vals; cbn [app eval_gates]; [reflexivity|].
  destruct (eval_gate vals g); [apply IH|reflexivity].
Qed.

Lemma validate_gates_app gs1 : forall gs2 i,
  validate_gates i gs1 = None -> validate_gates (i + lenN gs1) gs2 = None ->
  validate_gates i (gs1 ++ gs2) = None.
Proof.
  induction gs1 as [|g r IH]; intros gs2 i H1 H2; cbn [app validate_gates] in *.
  - rewrite lenN_nil, N.add_0_r in H2. exact H2.
  - destruct (gate_ok i g); [|discriminate]. apply IH; [exact H1|].
    rewrite lenN_cons in H2. now replace (i + 1 + lenN r) with (i + (1 + lenN r)) by lia.
Qed.

(* the two extra XORs per repeated output copy its value: the de-aliased outputs read the
   same bits *)
Lemma dealias_sem : forall outs seen wmax vals extra outs' w',
  lenN vals = wmax -> (forall o, In o outs -> o < wmax) ->
  dealias outs seen wmax = Ok (extra, outs', w') ->
  exists e, eval_gates vals extra = Some (vals ++ e) /\
            mapM (nthN (vals ++ e)) outs' = mapM (nthN vals) outs.
Proof.
  induction outs as [|o r IH]; intros seen wmax vals extra outs' w' Hlen Hr Hd;
    cbn [dealias] in Hd.
  - injection Hd as <- <- <-. exists []. cbn [eval_gates mapM]. now rewrite app_nil_r.
  - assert (Ho : o < lenN vals) by (rewrite Hlen; apply Hr; now left).
    assert (Hr' : forall o, In o r -> o < wmax) by (intros; apply Hr; now right).
    destruct (nthN_Some vals o Ho) as [a Ha].
    destruct (existsb (N.eqb o) seen).
    + destruct (cadd wmax 1) as [w1| |] eqn:E1; cbn [bind] in Hd; try discriminate.
      destruct (cadd wmax 2) as [w2| |] eqn:E2; cbn [bind] in Hd; try discriminate.
      unfold cadd in E1, E2.
      destruct (wmax + 1 <=? USIZE_MAX); [|discriminate]. injection E1 as <-.
      destruct (wmax + 2 <=? USIZE_MAX); [|discriminate]. injection E2 as <-.
      destruct (dealias r seen (wmax + 2)) as [[[ex os] w]| |] eqn:Er; cbn [bind] in Hd;
        try discriminate.
      injection Hd as <- <- <-.
      set (v1 := vals ++ [xorb a a]).
      set (v2 := v1 ++ [xorb a (xorb a a)]).
      assert (Hl1 : lenN v1 = wmax + 1).
      { unfold v1. rewrite lenN_app, lenN_cons, lenN_nil. lia. }
      assert (Hl2 : lenN v2 = wmax + 2).
      { unfold v2. rewrite lenN_app, lenN_cons, lenN_nil. lia. }
      destruct (IH seen (wmax + 2) v2 ex os w Hl2 ltac:(intros x Hx; specialize (Hr' x Hx); lia) Er)
        as (e & He & Hm).
      exists ([xorb a a; xorb a (xorb a a)] ++ e).
      assert (Hv : vals ++ [xorb a a; xorb a (xorb a a)] ++ e = v2 ++ e).
      { unfold v2, v1. now rewrite <- !app_assoc. }
      rewrite Hv. split.
      * cbn [eval_gates eval_gate]. rewrite Ha. fold v1.
        assert (H1 : nthN v1 o = Some a) by (unfold v1; now rewrite nthN_app_l).
        assert (H2 : nthN v1 wmax = Some (xorb a a)).
        { unfold v1. rewrite <- Hlen. apply nthN_app_here. }
        rewrite H1, H2. fold v2. exact He.
      * cbn [mapM]. rewrite Hm, Ha.
        assert (H3 : nthN (v2 ++ e) (wmax + 1) = Some a).
        { rewrite nthN_app_l by lia. unfold v2. rewrite <- Hl1, nthN_app_here.
          f_equal. destruct a; reflexivity. }
        rewrite H3.
        rewrite (mapM_ext_in (nthN v2) (nthN vals) r); [reflexivity|].
        intros x Hx. specialize (Hr' x Hx). unfold v2, v1.
        rewrite <- app_assoc. apply nthN_app_l. lia.
    + destruct (dealias r (o :: seen) wmax) as [[[ex os] w]| |] eqn:Er; cbn [bind] in Hd;
        try discriminate.
      injection Hd as <- <- <-.
      destruct (IH (o :: seen) wmax vals ex os w Hlen Hr' Er) as (e & He & Hm).
      exists e. split; [exact He|]. cbn [mapM]. rewrite Hm.
      rewrite nthN_app_l by exact Ho. reflexivity.
Qed.

(* ------------------------------------------------------------------------------------ *)
(* Part 5: the gate lines the exporter writes, and the importer run on them              *)

Definition gate_line (f : N -> N) (i : N) (g : gate) : line :=
  match g with
  | GXor x y => [TNum 2; TNum 1; TNum (f x); TNum (f y); TNum (f i); TWord WXor]
  | GAnd x y => [TNum 2; TNum 1; TNum (f x); TNum (f y); TNum (f i); TWord WAnd]
  | GNot x => [TNum 1; TNum 1; TNum (f x); TNum (f i); TWord WInv]
  end.

Fixpoint gate_lines (f : N -> N) (i : N) (gs : list gate) : list line :=
  match gs with
  | [] => []
  | g :: r => gate_line f i g :: gate_lines f (i + 1) r
  end.

Lemma gate_lines_length f gs : forall i, length (gate_lines f i gs) = length gs.
Proof. induction gs as [|g r IH]; intro i; cbn [gate_lines length]; [reflexivity|now rewrite IH]. Qed.

Lemma gate_ok_lt i g :
  gate_ok i g = true ->
  match g with GXor x y | GAnd x y => x < i /\ y < i | GNot x => x < i end.
Proof.
  destruct g as [x y|x y|x]; cbn [gate_ok]; intro H.
  - apply negb_true_iff, orb_false_iff in H. destruct H as [H1 H2].
    apply N.leb_gt in H1, H2. now split.
  - apply negb_true_iff, orb_false_iff in H. destruct H as [H1 H2].
    apply N.leb_gt in H1, H2. now split.
  - apply negb_true_iff in H. now apply N.leb_gt in H.
Qed.

Lemma exp_gates_spec W f tw :
  (forall x, x < tw -> nthN W x = Some (f x)) ->
  forall gs i, validate_gates i gs = None -> i + lenN gs <= tw ->
  exp_gates W i gs = Ok (gate_lines f i gs).
Proof.
  intro HW. induction gs as [|g r IH]; intros i Hv Hle; cbn [exp_gates gate_lines];
    [reflexivity|].
  cbn [validate_gates] in Hv. destruct (gate_ok i g) eqn:Hok; [|discriminate].
  rewrite lenN_cons in Hle. apply gate_ok_lt in Hok.
  rewrite (IH (i + 1) Hv) by lia.
  destruct g as [x y|x y|x]; cbn [exp_gate gate_line].
  - destruct Hok as [Hx Hy].
    rewrite (HW x), (HW y), (HW i) by lia. reflexivity.
  - destruct Hok as [Hx Hy].
    rewrite (HW x), (HW y), (HW i) by lia. reflexivity.
  - rewrite (HW x), (HW i) by lia. reflexivity.
Qed.

Lemma parse_gate_line_2 a b o w :
  parse_gate_line [TNum 2; TNum 1; TNum a; TNum b; TNum o; TWord w] = ret (Some ([a; b], o)).
Proof. reflexivity. Qed.

Lemma parse_gate_line_1 a o w :
  parse_gate_line [TNum 1; TNum 1; TNum a; TNum o; TWord w] = ret (Some ([a], o)).
Proof. reflexivity. Qed.

Section IMPORT_OF_EXPORT.
  Variables (n_in tw : N) (f : N -> N).
  Hypothesis Hf_in : forall i, i < n_in -> f i = i.
  Hypothesis Hf_range : forall i, n_in <= i < tw -> n_in <= f i < tw.
  Hypothesis Hf_inj : forall i j, n_in <= i < tw -> n_in <= j < tw -> f i = f j -> i = j.
  Hypothesis HTW : tw <= USIZE_MAX.
  Hypothesis Hin_le : n_in <= tw.

  Definition inv (wmap : list (N * N)) (i : N) : Prop :=
    (forall j, n_in <= j < i -> wfind (f j) wmap = Some j) /\
    (forall w, w < n_in -> wfind w wmap = None).

  Lemma f_lt x : x < tw -> f x < tw.
  Proof.
    intro H. destruct (N.ltb_spec x n_in) as [Hl|Hg]; [rewrite Hf_in; lia|].
    apply Hf_range. lia.
  Qed.

  Lemma inv_step wmap i : inv wmap i -> n_in <= i < tw -> inv ((f i, i) :: wmap) (i + 1).
  Proof.
    intros [H1 H2] Hi. split.
    - intros j Hj. cbn [wfind]. destruct (N.eqb_spec (f i) (f j)) as [He|Hne].
      + f_equal. apply Hf_inj; [lia|lia|exact He].
      + apply H1. assert (j <> i) by congruence. lia.
    - intros w Hw. cbn [wfind]. pose proof (Hf_range i Hi).
      destruct (N.eqb_spec (f i) w); [lia|]. now apply H2.
  Qed.

  Lemma wire_of_inv wmap i x : inv wmap i -> x < i -> wire_of n_in wmap (f x) = x.
  Proof.
    intros [H1 H2] Hx. unfold wire_of.
    destruct (N.ltb_spec x n_in) as [Hl|Hg].
    - rewrite (Hf_in x Hl), (H2 x Hl). now rewrite (proj2 (N.ltb_lt _ _) Hl).
    - now rewrite H1 by lia.
  Qed.

  Lemma imp_step_ok l ins o wmap i :
    (forall w, In w ins -> w < tw) -> o < tw -> i < tw ->
    imp_step tw n_in l ins o wmap i =
    match last_opt l with
    | None => fail IMissingGateType
    | Some gt =>
        let wmap' := (o, i) :: wmap in
        match gt with
        | TWord WXor =>
            match ins with
            | [a; b] => ret (GXor (wire_of n_in wmap' a) (wire_of n_in wmap' b), wmap', i + 1)
            | _ => fail (IMalformedLine l)
            end
        | TWord WAnd =>
            match ins with
            | [a; b] => ret (GAnd (wire_of n_in wmap' a) (wire_of n_in wmap' b), wmap', i + 1)
            | _ => fail (IMalformedLine l)
            end
        | TWord WInv =>
            match ins with
            | [a] => ret (GNot (wire_of n_in wmap' a), wmap', i + 1)
            | _ => fail (IMalformedLine l)
            end
        | _ => fail IUnknownGate
        end
    end.
  Proof.
    intros Hins Ho Hi. unfold imp_step.
    assert (Hfind : find (fun w => tw <=? w) ins = None).
    { induction ins as [|a r IH]; [reflexivity|]. cbn [find].
      rewrite (proj2 (N.leb_gt tw a)) by (apply Hins; now left).
      apply IH. intros; apply Hins; now right. }
    rewrite Hfind, (proj2 (N.leb_gt tw o) Ho).
    destruct (last_opt l); [|reflexivity].
    unfold checked_add. rewrite (proj2 (N.leb_le (i + 1) USIZE_MAX)) by lia. reflexivity.
  Qed.

  Lemma imp_gates_spec : forall gs i wmap,
    n_in <= i -> i + lenN gs <= tw -> validate_gates i gs = None -> inv wmap i ->
    exists wm', imp_gates tw n_in (gate_lines f i gs) wmap i = ret (gs, wm') /\
                inv wm' (i + lenN gs) /\ length wm' = (length wmap + length gs)%nat.
  Proof.
    induction gs as [|g r IH]; intros i wmap Hi Hle Hv Hinv.
    - exists wmap. cbn [imp_gates gate_lines length]. rewrite lenN_nil, N.add_0_r.
      split; [reflexivity|]. split; [exact Hinv|lia].
    - cbn [validate_gates] in Hv. destruct (gate_ok i g) eqn:Hok; [|discriminate].
      rewrite lenN_cons in Hle |- *. apply gate_ok_lt in Hok.
      assert (Hi' : n_in <= i < tw) by lia.
      pose proof (inv_step wmap i Hinv Hi') as Hinv'.
      destruct (IH (i + 1) ((f i, i) :: wmap) ltac:(lia) ltac:(lia) Hv Hinv')
        as (wm' & Hrec & Hinvf & Hlen).
      exists wm'. split; [|split].
      + cbn [gate_lines imp_gates].
        destruct g as [x y|x y|x]; cbn [gate_line].
        * destruct Hok as [Hx Hy].
          rewrite parse_gate_line_2. cbn [ebind ret].
          rewrite imp_step_ok;
            [|intros w [<-|[<-|[]]]; apply f_lt; lia|apply f_lt; lia|lia].
          cbn [last_opt ebind ret].
          rewrite Hrec. cbn [ebind ret].
          rewrite (wire_of_inv _ (i + 1) x Hinv'), (wire_of_inv _ (i + 1) y Hinv') by lia.
          reflexivity.
        * destruct Hok as [Hx Hy].
          rewrite parse_gate_line_2. cbn [ebind ret].
          rewrite imp_step_ok;
            [|intros w [<-|[<-|[]]]; apply f_lt; lia|apply f_lt; lia|lia].
          cbn [last_opt ebind ret].
          rewrite Hrec. cbn [ebind ret].
          rewrite (wire_of_inv _ (i + 1) x Hinv'), (wire_of_inv _ (i + 1) y Hinv') by lia.
          reflexivity.
        * rewrite parse_gate_line_1. cbn [ebind ret].
          rewrite imp_step_ok; [|intros w [<-|[]]; apply f_lt; lia|apply f_lt; lia|lia].
          cbn [last_opt ebind ret].
          rewrite Hrec. cbn [ebind ret].
          rewrite (wire_of_inv _ (i + 1) x Hinv') by lia.
          reflexivity.
      + now replace (i + (1 + lenN r)) with (i + 1 + lenN r) by lia.
      + rewrite Hlen. cbn [length]. lia.
  Qed.

  Lemma collect_outs_spec wm : forall os w fuel,
    w + lenN os = tw -> (length os <= fuel)%nat ->
    (forall k a, nthN os k = Some a -> wfind (w + k) wm = Some a) ->
    collect_outs fuel w tw wm = ret os.
  Proof.
    induction os as [|a r IH]; intros w fuel Hw Hf Hk.
    - rewrite lenN_nil in Hw.
      destruct fuel; cbn [collect_outs]; now rewrite (proj2 (N.ltb_ge w tw)) by lia.
    - rewrite lenN_cons in Hw. cbn [length] in Hf.
      destruct fuel as [|fuel]; [lia|]. cbn [collect_outs].
      rewrite (proj2 (N.ltb_lt w tw)) by lia.
      specialize (Hk 0 a (nthN_cons_0 a r)) as Hw0. rewrite N.add_0_r in Hw0. rewrite Hw0.
      rewrite (IH (w + 1) fuel); [reflexivity|lia|lia|].
      intros k b Hb. replace (w + 1 + k) with (w + (k + 1)) by lia.
      apply Hk. now rewrite nthN_cons_succ.
  Qed.
End IMPORT_OF_EXPORT.

(* ------------------------------------------------------------------------------------ *)
(* Part 6: import (export c) = c with the panic outputs dropped and repeated outputs       *)
(* de-aliased; it computes the non-panic output bits of c                                 *)

Lemma slice_tail {A} (a : A) l : slice (a :: l) 1 (lenN (a :: l)) = Ok l.
Proof.
  unfold slice. rewrite lenN_cons.
  rewrite (proj2 (N.leb_le 1 (1 + lenN l))) by lia. rewrite N.leb_refl. cbn [andb].
  replace (N.to_nat (1 + lenN l - 1)) with (length l) by (unfold lenN; lia).
  change (N.to_nat 1) with 1%nat. cbn [skipn]. now rewrite firstn_all.
Qed.

Lemma imp_header_export g tw ig m rest :
  ig <> [] -> sumN ig <= USIZE_MAX -> m <= tw -> tw <= USIZE_MAX ->
  imp_header ([TNum g; TNum tw] :: (TNum (lenN ig) :: map TNum ig) :: [TNum 1; TNum m] :: rest) =
  ret (tw, ig, sumN ig, m, rest).
Proof.
  intros Hig Hs Hm Htw. unfold imp_header.
  cbn [next_line parse_line mapM tok_num ebind ret].
  change (lenN [g; tw] =? 2) with true. cbn [negb].
  change (nthN [g; tw] 1) with (Some tw). change (nthN [g; tw] 0) with (Some g).
  cbn [of_option bind].
  rewrite mapM_tok_num_map. cbn [ebind ret].
  assert (Hl : 1 <= lenN ig).
  { destruct ig; [congruence|]. rewrite lenN_cons. lia. }
  rewrite (proj2 (N.ltb_ge (lenN (lenN ig :: ig)) 2)) by (rewrite lenN_cons; lia).
  rewrite slice_tail. cbn [bind]. rewrite nthN_cons_0. cbn [of_option bind].
  rewrite N.eqb_refl. cbn [negb].
  unfold checked_sum at 1. rewrite (proj2 (N.leb_le _ _) Hs).
  change (lenN [1; m] <? 2) with false. change (nthN [1; m] 0) with (Some 1).
  cbn [of_option bind]. rewrite slice_tail. cbn [bind].
  change (lenN [m] =? 1) with true. cbn [negb].
  unfold checked_sum. cbn [sumN]. rewrite N.add_0_r.
  rewrite (proj2 (N.leb_le m USIZE_MAX)) by lia.
  rewrite (proj2 (N.ltb_ge tw m)) by lia. reflexivity.
Qed.

Lemma In_skipn {A} (a : A) n l : In a (skipn n l) -> In a l.
Proof.
  revert l. induction n as [|n IH]; intros l H; [exact H|].
  destruct l as [|b r]; [exact H|]. right. now apply IH.
Qed.

Lemma existsb_false_all {A} (p : A -> bool) l :
  (forall a, In a l -> p a = false) -> existsb p l = false.
Proof.
  induction l as [|a r IH]; intro H; cbn [existsb]; [reflexivity|].
  rewrite (H a (or_introl eq_refl)), IH by (intros; apply H; now right). reflexivity.
Qed.

Lemma validate_unpack c :
  ssa_validate c = None ->
  input_gates c <> [] /\ validate_gates (num_inputs c) (gates c) = None /\
  validate_outputs (wires_len c) (output_gates c) = None /\
  wires_len c + num_inputs c <= MAX_GATES.
Proof.
  unfold ssa_validate. intro H.
  destruct (input_gates c) as [|n ig] eqn:Eig; [discriminate|].
  cbn [is_nil andb] in H.
  destruct (validate_gates (num_inputs c) (gates c)); [discriminate|].
  destruct (is_nil (output_gates c)); [discriminate|].
  destruct (validate_outputs (wires_len c) (output_gates c)); [discriminate|].
  destruct (N.ltb_spec MAX_GATES (wires_len c + num_inputs c)); [discriminate|].
  repeat split; try congruence; assumption.
Qed.

(* what the exporter writes for an exportable circuit *)
Lemma export_shape lim c :
  exportable lim c ->
  exists extra outs' tw',
    let n_in := sumN (input_gates c) in
    let outs := skipn PANIC_BITS (output_gates c) in
    let tw0 := lenN (gates c) + n_in in
    let G := gates c ++ extra in
    let f := wmf n_in tw' outs' in
    dealias outs [] tw0 = Ok (extra, outs', tw') /\
    (forall o, In o outs -> n_in <= o < tw0) /\
    NoDup outs' /\ (forall o, In o outs' -> n_in <= o < tw') /\
    tw' <= USIZE_MAX /\ validate_gates n_in G = None /\ n_in + lenN G = tw' /\
    lenN outs' = lenN outs /\
    export lim c =
      Ok (inl ([TNum (lenN G); TNum tw']
                 :: (TNum (lenN (input_gates c)) :: map TNum (input_gates c))
                 :: [TNum 1; TNum (lenN outs')]
                 :: []
                 :: gate_lines f n_in G)).
Proof.
  intros (Hval & Hp & Hno & Hlim & Hfit).
  destruct (validate_unpack c Hval) as (Hig & Hvg & Hvo & _).
  unfold wires_len, num_inputs in *.
  set (n_in := sumN (input_gates c)) in *.
  set (tw0 := lenN (gates c) + n_in).
  set (outs := skipn PANIC_BITS (output_gates c)) in *.
  assert (Houts_len : lenN outs <= lenN (output_gates c)).
  { unfold outs, lenN. rewrite skipn_length. lia. }
  assert (Houts : forall o, In o outs -> n_in <= o < tw0).
  { intros o Ho. split; [now apply Hno|].
    pose proof (validate_outputs_ok _ _ Hvo o (In_skipn _ _ _ Ho)). unfold tw0. lia. }
  destruct (dealias_spec n_in tw0 outs [] tw0 Houts ltac:(lia) ltac:(unfold tw0; lia))
    as (extra & outs' & tw' & Hd & Htw' & Hlen' & Hex & Hnd & Hcl & Hvex).
  assert (HR : forall o, In o outs' -> n_in <= o < tw').
  { intros o Ho. destruct (Hcl o Ho) as [(H1 & _ & H3)|H]; [specialize (Houts o H1)|];
      unfold tw0 in *; lia. }
  assert (HTW : tw' <= USIZE_MAX) by (unfold tw0 in *; lia).
  destruct (wires_map_spec n_in tw' outs' Hnd HR HTW ltac:(unfold tw0 in *; lia))
    as (wg & Hwg & HWlen & HW).
  set (f := wmf n_in tw' outs') in *.
  set (G := gates c ++ extra).
  assert (HvG : validate_gates n_in G = None).
  { apply validate_gates_app; [exact Hvg|].
    replace (n_in + lenN (gates c)) with tw0 by (unfold tw0; lia). exact Hvex. }
  assert (HGlen : n_in + lenN G = tw').
  { unfold G. rewrite lenN_app. unfold tw0 in *. lia. }
  pose proof (exp_gates_spec _ f tw' HW G n_in HvG ltac:(lia)) as Hexp.
  exists extra, outs', tw'. cbv zeta. fold n_in outs tw0 G f.
  repeat (split; [assumption|]).
  unfold export. unfold csum. fold n_in.
  rewrite (proj2 (N.leb_le n_in USIZE_MAX)) by lia. cbn [bind].
  unfold cadd. fold tw0. rewrite (proj2 (N.leb_le tw0 USIZE_MAX)) by (unfold tw0 in *; lia).
  cbn [bind].
  rewrite (proj2 (N.ltb_ge (lenN (output_gates c)) (N.of_nat PANIC_BITS)))
    by (unfold lenN; lia).
  unfold alloc. rewrite (proj2 (N.leb_le n_in lim)) by lia. cbn [bind]. fold outs.
  rewrite existsb_false_all
    by (intros a Ha; apply N.ltb_ge; now apply Hno).
  rewrite Hd. cbn [bind].
  rewrite (proj2 (N.leb_le tw' lim)) by (unfold tw0 in *; lia). cbn [bind].
  rewrite Hwg. cbn [bind]. fold G. rewrite Hexp. cbn [bind]. reflexivity.
Qed.

Theorem export_import_roundtrip lim c :
  exportable lim c ->
  exists ls c',
    export lim c = Ok (inl ls) /\ import ls = Ok (inl c') /\
    input_gates c' = input_gates c /\
    forall ins, ssa_eval c' ins = option_map (skipn PANIC_BITS) (ssa_eval c ins).
Proof.
  intro Hexp.
  destruct (export_shape lim c Hexp)
    as (extra & outs' & tw' & Hd & Houts & Hnd & HR & HTW & HvG & HGlen & Hlen' & Hexport).
  destruct Hexp as (Hval & Hp & Hno & Hlim & Hfit).
  destruct (validate_unpack c Hval) as (Hig & Hvg & Hvo & Hmax).
  unfold wires_len, num_inputs in *.
  set (n_in := sumN (input_gates c)) in *.
  set (tw0 := lenN (gates c) + n_in) in *.
  set (outs := skipn PANIC_BITS (output_gates c)) in *.
  set (f := wmf n_in tw' outs') in *.
  set (G := gates c ++ extra) in *.
  eexists _, (mkCircuit (input_gates c) G outs').
  split; [exact Hexport|split; [|split]].
  - assert (Hm : lenN outs' <= tw' - n_in) by (apply outs_le; assumption).
    unfold import.
    rewrite imp_header_export by (try assumption; unfold MAX_GATES, USIZE_MAX in *; lia).
    cbn [ebind ret]. unfold imp_body.
    unfold csub. rewrite (proj2 (N.leb_le (lenN outs') tw')) by lia. cbn [bind].
    cbn [imp_gates]. change (parse_gate_line []) with (@ret (option (list N * N)) None).
    cbn [ebind ret].
    destruct (imp_gates_spec n_in tw' f
                (wmf_in n_in tw' outs') (wmf_range n_in tw' outs' Hnd HR)
                (wmf_inj n_in tw' outs' Hnd HR) HTW ltac:(lia)
                G n_in [] (N.le_refl _) ltac:(lia) HvG)
      as (wm' & Himp & Hinv & Hwlen).
    { split; [intros j Hj; lia|reflexivity]. }
    fold n_in. rewrite Himp. cbn [ebind ret].
    rewrite (collect_outs_spec n_in tw' HTW ltac:(lia) wm' outs'); [reflexivity|lia| |].
    + rewrite Hwlen. cbn [length]. unfold lenN in Hm, HGlen. lia.
    + intros k a Hk. destruct Hinv as [Hinv1 _].
      pose proof (HR a (nthN_In _ _ _ Hk)) as Ha.
      rewrite <- (wmf_out n_in tw' outs' Hnd HR k a Hk). fold f.
      apply Hinv1. lia.
  - reflexivity.
  - intro ins. unfold ssa_eval, ssa_wire_vals. cbn [input_gates gates output_gates].
    destruct (load_inputs (input_gates c) ins) as [v0|] eqn:El; [|reflexivity].
    pose proof (load_inputs_len _ _ _ El) as Hv0. fold n_in in Hv0.
    rewrite <- Hv0 in Hvg.
    destruct (validate_gates_eval _ _ Hvg) as (vals & Hev & Hvl).
    unfold G. rewrite eval_gates_app, Hev.
    assert (Hvl' : lenN vals = tw0) by (unfold tw0; lia).
    destruct (dealias_sem outs [] tw0 vals extra outs' tw' Hvl'
                ltac:(intros o Ho; apply Houts; exact Ho) Hd) as (e & He & Hm).
    rewrite He, Hm.
    destruct (mapM_all (nthN vals) (output_gates c)) as [bits Hbits].
    { intros o Ho. apply nthN_Some.
      pose proof (validate_outputs_ok _ _ Hvo o Ho). lia. }
    rewrite Hbits. cbn [option_map]. unfold outs. now apply mapM_skipn.
Qed.

(* a circuit with a non-panic output that is an input wire is refused *)
Theorem export_refuses_input_output lim c :
  ssa_validate c = None -> (PANIC_BITS <= length (output_gates c))%nat ->
  lim <= USIZE_MAX -> wires_len c + 2 * lenN (output_gates c) <= lim ->
  (exists o, In o (skipn PANIC_BITS (output_gates c)) /\ o < num_inputs c) ->
  export lim c = Ok (inr XOutputWireIsInput).
Proof.
  intros Hval Hp Hlim Hfit (o & Ho & Hlt).
  unfold wires_len, num_inputs in *.
  unfold export, csum.
  rewrite (proj2 (N.leb_le (sumN (input_gates c)) USIZE_MAX)) by lia. cbn [bind].
  unfold cadd.
  rewrite (proj2 (N.leb_le (lenN (gates c) + sumN (input_gates c)) USIZE_MAX)) by lia.
  cbn [bind].
  rewrite (proj2 (N.ltb_ge (lenN (output_gates c)) (N.of_nat PANIC_BITS)))
    by (unfold lenN; lia).
  unfold alloc. rewrite (proj2 (N.leb_le (sumN (input_gates c)) lim)) by lia. cbn [bind].
  assert (He : existsb (fun w => w <? sumN (input_gates c))
                 (skipn PANIC_BITS (output_gates c)) = true).
  { apply existsb_exists. exists o. split; [exact Ho|now apply N.ltb_lt]. }
  now rewrite He.
Qed.

(* ------------------------------------------------------------------------------------ *)
(* Part 7: the exported file is well-formed Bristol                                      *)

Definition to_bgate (f : N -> N) (i : N) (g : gate) : bgate :=
  match g with
  | GXor x y => mkBgate [f x; f y] (f i) WXor
  | GAnd x y => mkBgate [f x; f y] (f i) WAnd
  | GNot x => mkBgate [f x] (f i) WInv
  end.

Fixpoint bgates (f : N -> N) (i : N) (gs : list gate) : list bgate :=
  match gs with
  | [] => []
  | g :: r => to_bgate f i g :: bgates f (i + 1) r
  end.

Lemma bgates_lines f gs : forall i, map bgate_line (bgates f i gs) = gate_lines f i gs.
Proof.
  induction gs as [|g r IH]; intro i; cbn [bgates map gate_lines]; [reflexivity|].
  rewrite IH. f_equal. destruct g; reflexivity.
Qed.

Lemma bgates_len f gs : forall i, lenN (bgates f i gs) = lenN gs.
Proof.
  induction gs as [|g r IH]; intro i; cbn [bgates]; [reflexivity|].
  now rewrite !lenN_cons, IH.
Qed.

Lemma bgates_nth f gs : forall i k b,
  nthN (bgates f i gs) k = Some b ->
  exists g, nthN gs k = Some g /\ b = to_bgate f (i + k) g.
Proof.
  induction gs as [|g r IH]; intros i k b H; cbn [bgates] in H.
  - apply nthN_lt in H. rewrite lenN_nil in H. lia.
  - destruct (N.eq_dec k 0) as [->|Hk].
    + rewrite nthN_cons_0 in H. injection H as <-. exists g.
      rewrite nthN_cons_0, N.add_0_r. split; reflexivity.
    + replace k with (k - 1 + 1) in H |- * by lia. rewrite nthN_cons_succ in H.
      destruct (IH _ _ _ H) as (g' & Hg' & ->). exists g'.
      rewrite nthN_cons_succ. split; [exact Hg'|]. f_equal. lia.
Qed.

Lemma bgates_nth_fwd f gs : forall i k g,
  nthN gs k = Some g -> nthN (bgates f i gs) k = Some (to_bgate f (i + k) g).
Proof.
  induction gs as [|g0 r IH]; intros i k g H.
  - apply nthN_lt in H. rewrite lenN_nil in H. lia.
  - cbn [bgates]. destruct (N.eq_dec k 0) as [->|Hk].
    + rewrite nthN_cons_0 in H. rewrite nthN_cons_0. injection H as <-. now rewrite N.add_0_r.
    + replace k with (k - 1 + 1) in H |- * by lia. rewrite nthN_cons_succ in H.
      rewrite nthN_cons_succ.
      rewrite (IH _ _ _ H). do 2 f_equal. lia.
Qed.

Lemma bgates_outs f gs : forall i,
  map bg_out (bgates f i gs) = map f (nseq (length gs) i).
Proof.
  induction gs as [|g r IH]; intro i; cbn [bgates map nseq length]; [reflexivity|].
  rewrite IH. f_equal. destruct g; reflexivity.
Qed.

Lemma nseq_in n : forall a x, In x (nseq n a) <-> a <= x < a + N.of_nat n.
Proof.
  induction n as [|n IH]; intros a x; cbn [nseq In]; [lia|].
  rewrite IH. lia.
Qed.

Lemma nseq_nodup n : forall a, NoDup (nseq n a).
Proof.
  induction n as [|n IH]; intro a; cbn [nseq]; constructor; [|apply IH].
  rewrite nseq_in. lia.
Qed.

Lemma NoDup_map_inj_on {A B} (f : A -> B) l :
  NoDup l -> (forall a b, In a l -> In b l -> f a = f b -> a = b) -> NoDup (map f l).
Proof.
  induction 1 as [|x r Hx Hnd IH]; intro Hinj; cbn [map]; constructor.
  - intro Hin. apply in_map_iff in Hin. destruct Hin as (y & Hy & Hyr).
    assert (y = x) by (apply Hinj; [now right|now left|exact Hy]). now subst.
  - apply IH. intros a b Ha Hb. apply Hinj; now right.
Qed.

Lemma validate_gates_nth gs : forall i k g,
  validate_gates i gs = None -> nthN gs k = Some g -> gate_ok (i + k) g = true.
Proof.
  induction gs as [|g0 r IH]; intros i k g Hv Hk.
  - apply nthN_lt in Hk. rewrite lenN_nil in Hk. lia.
  - cbn [validate_gates] in Hv. destruct (gate_ok i g0) eqn:Hok; [|discriminate].
    destruct (N.eq_dec k 0) as [->|Hk0].
    + rewrite nthN_cons_0 in Hk. injection Hk as <-. now rewrite N.add_0_r.
    + replace k with (k - 1 + 1) in Hk by lia. rewrite nthN_cons_succ in Hk.
      replace (i + k) with (i + 1 + (k - 1)) by lia. now apply IH.
Qed.

Theorem export_wf lim c ls :
  exportable lim c -> export lim c = Ok (inl ls) ->
  bristol_wf (input_gates c) (lenN (output_gates c) - N.of_nat PANIC_BITS) ls.
Proof.
  intros Hexp Hls.
  destruct (export_shape lim c Hexp)
    as (extra & outs' & tw' & Hd & Houts & Hnd & HR & HTW & HvG & HGlen & Hlen' & Hexport).
  rewrite Hexport in Hls. injection Hls as <-.
  set (n_in := sumN (input_gates c)) in *.
  set (f := wmf n_in tw' outs') in *.
  set (G := gates c ++ extra) in *.
  assert (Hno : lenN outs' = lenN (output_gates c) - N.of_nat PANIC_BITS).
  { rewrite Hlen'. unfold lenN. rewrite skipn_length. lia. }
  assert (Hm : lenN outs' <= tw' - n_in) by (apply outs_le; assumption).
  exists (bgates f n_in G). cbv zeta. fold n_in.
  rewrite bgates_len, bgates_lines, <- Hno, HGlen.
  split; [reflexivity|].
  split; [lia|].
  split; [|split; [|split]].
  - intros b Hb. destruct (In_nthN _ _ Hb) as [k Hk].
    destruct (bgates_nth _ _ _ _ _ Hk) as (g & _ & ->). destruct g; reflexivity.
  - rewrite bgates_outs. apply NoDup_map_inj_on; [apply nseq_nodup|].
    intros a b Ha Hb. apply nseq_in in Ha, Hb. unfold lenN in HGlen.
    apply (wmf_inj n_in tw' outs' Hnd HR); lia.
  - intros b Hb. destruct (In_nthN _ _ Hb) as [k Hk].
    destruct (bgates_nth _ _ _ _ _ Hk) as (g & Hg & ->).
    apply nthN_lt in Hg.
    assert (Hr : n_in <= f (n_in + k) < tw')
      by (apply (wmf_range n_in tw' outs' Hnd HR); lia).
    destruct g; exact Hr.
  - intros k b w Hk Hw.
    destruct (bgates_nth _ _ _ _ _ Hk) as (g & Hg & ->).
    pose proof (validate_gates_nth _ _ _ _ HvG Hg) as Hok. apply gate_ok_lt in Hok.
    assert (Hx : forall x, x < n_in + k -> f x = w ->
                 w < n_in \/ exists j g', j < k /\ nthN (bgates f n_in G) j = Some g' /\
                                          bg_out g' = w).
    { intros x Hx <-. destruct (N.ltb_spec x n_in) as [Hl|Hge].
      - left. unfold f. now rewrite wmf_in.
      - right. pose proof (nthN_lt _ _ _ Hg) as Hkl.
        destruct (nthN_Some G (x - n_in)) as [g' Hg']; [lia|].
        exists (x - n_in), (to_bgate f x g').
        split; [lia|]. split; [|destruct g'; reflexivity].
        rewrite (bgates_nth_fwd f G n_in _ _ Hg'). do 2 f_equal. lia. }
    destruct g as [x y|x y|x]; cbn [to_bgate bg_ins In] in Hw.
    + destruct Hok as [H1 H2].
      destruct Hw as [Hw|[Hw|[]]]; [apply (Hx x)|apply (Hx y)]; (exact Hw || lia).
    + destruct Hok as [H1 H2].
      destruct Hw as [Hw|[Hw|[]]]; [apply (Hx x)|apply (Hx y)]; (exact Hw || lia).
    + destruct Hw as [Hw|[]]. apply (Hx x); (exact Hw || lia).
Qed.

(* "exactly once", spelled out: in a well-formed file every non-input wire is the output of
   exactly one gate line *)
Lemma wf_assigned_exactly_once ig n_out ls gl :
  ls = [TNum (lenN gl); TNum (sumN ig + lenN gl)]
         :: (TNum (lenN ig) :: map TNum ig) :: [TNum 1; TNum n_out] :: [] :: map bgate_line gl ->
  NoDup (map bg_out gl) ->
  (forall g, In g gl -> sumN ig <= bg_out g < sumN ig + lenN gl) ->
  forall w, sumN ig <= w < sumN ig + lenN gl ->
  exists k g, nthN gl k = Some g /\ bg_out g = w /\
              forall k' g', nthN gl k' = Some g' -> bg_out g' = w -> k' = k.
Proof.
  intros _ Hnd Hr w Hw.
  set (all := map N.of_nat (seq (N.to_nat (sumN ig)) (length gl))).
  assert (Hincl : incl (map bg_out gl) all).
  { intros x Hx. apply in_map_iff in Hx. destruct Hx as (g & <- & Hg).
    specialize (Hr g Hg). unfold all. apply in_map_iff. exists (N.to_nat (bg_out g)).
    split; [apply N2Nat.id|]. apply in_seq. unfold lenN in Hr. lia. }
  assert (Hback : incl all (map bg_out gl)).
  { apply NoDup_length_incl; [exact Hnd| |exact Hincl].
    unfold all. rewrite !map_length, seq_length. lia. }
  assert (Hwin : In w (map bg_out gl)).
  { apply Hback. unfold all. apply in_map_iff. exists (N.to_nat w).
    split; [apply N2Nat.id|]. apply in_seq. unfold lenN in Hw. lia. }
  apply in_map_iff in Hwin. destruct Hwin as (g & Hgw & Hg).
  destruct (In_nthN _ _ Hg) as [k Hk]. exists k, g. split; [exact Hk|]. split; [exact Hgw|].
  intros k' g' Hk' Hg'w.
  (* two positions with the same output wire contradict NoDup *)
  rewrite nthN_spec in Hk, Hk'.
  assert (H1 : nth_error (map bg_out gl) (N.to_nat k) = Some w)
    by (rewrite nth_error_map, Hk; cbn [option_map]; now rewrite Hgw).
  assert (H2 : nth_error (map bg_out gl) (N.to_nat k') = Some w)
    by (rewrite nth_error_map, Hk'; cbn [option_map]; now rewrite Hg'w).
  assert (Hlt : (N.to_nat k' < length (map bg_out gl))%nat)
    by (apply nth_error_Some; congruence).
  pose proof (proj1 (NoDup_nth_error (map bg_out gl)) Hnd _ _ Hlt (eq_trans H2 (eq_sym H1))).
  lia.
Qed.

(* ------------------------------------------------------------------------------------ *)
(* Part 8: the exported file, read with the reference Bristol semantics, computes the      *)
(* non-panic outputs: "the outputs are the last wires, in order"                          *)

Lemma bfind_combine_nseq v : forall a i b,
  nthN v i = Some b -> bfind (a + i) (combine (nseq (length v) a) v) = Some b.
Proof.
  induction v as [|x r IH]; intros a i b H.
  - apply nthN_lt in H. rewrite lenN_nil in H. lia.
  - cbn [length nseq combine bfind]. destruct (N.eq_dec i 0) as [->|Hi].
    + rewrite nthN_cons_0 in H. injection H as <-. now rewrite N.add_0_r, N.eqb_refl.
    + rewrite (proj2 (N.eqb_neq a (a + i))) by lia.
      replace i with (i - 1 + 1) in H by lia. rewrite nthN_cons_succ in H.
      replace (a + i) with (a + 1 + (i - 1)) by lia. now apply IH.
Qed.

Section BEVAL.
  Variables (n_in tw : N) (f : N -> N).
  Hypothesis Hf_in : forall i, i < n_in -> f i = i.
  Hypothesis Hf_range : forall i, n_in <= i < tw -> n_in <= f i < tw.
  Hypothesis Hf_inj : forall i j, n_in <= i < tw -> n_in <= j < tw -> f i = f j -> i = j.

  Definition binv (env : list (N * bool)) (vals : list bool) : Prop :=
    forall i b, nthN vals i = Some b -> bfind (f i) env = Some b.

  Lemma f_inj_all i j : i < tw -> j < tw -> f i = f j -> i = j.
  Proof.
    intros Hi Hj He.
    destruct (N.ltb_spec i n_in) as [Hil|Hig], (N.ltb_spec j n_in) as [Hjl|Hjg].
    - rewrite !Hf_in in He by assumption. exact He.
    - rewrite (Hf_in i Hil) in He. pose proof (Hf_range j ltac:(lia)). lia.
    - rewrite (Hf_in j Hjl) in He. pose proof (Hf_range i ltac:(lia)). lia.
    - apply Hf_inj; [lia|lia|exact He].
  Qed.

  Lemma beval_gates_spec : forall gs vals env,
    n_in <= lenN vals -> lenN vals + lenN gs <= tw ->
    validate_gates (lenN vals) gs = None -> binv env vals ->
    exists vals' env', eval_gates vals gs = Some vals' /\
      beval_gates (bgates f (lenN vals) gs) env = Some env' /\ binv env' vals'.
  Proof.
    induction gs as [|g r IH]; intros vals env Hn Hle Hv Hinv.
    - exists vals, env. cbn [eval_gates bgates beval_gates]. auto.
    - cbn [validate_gates] in Hv. destruct (gate_ok (lenN vals) g) eqn:Hok; [|discriminate].
      rewrite lenN_cons in Hle.
      destruct (gate_ok_eval _ _ vals Hok eq_refl) as [b Hb].
      assert (Hbe : beval_gate env (to_bgate f (lenN vals) g) = Some b).
      { apply gate_ok_lt in Hok.
        destruct g as [x y|x y|x]; cbn [eval_gate] in Hb;
          cbn [beval_gate to_bgate bg_kind bg_ins].
        - destruct Hok as [Hx Hy].
          destruct (nthN vals x) as [a1|] eqn:E1; [|discriminate].
          destruct (nthN vals y) as [a2|] eqn:E2; [|discriminate].
          now rewrite (Hinv _ _ E1), (Hinv _ _ E2).
        - destruct Hok as [Hx Hy].
          destruct (nthN vals x) as [a1|] eqn:E1; [|discriminate].
          destruct (nthN vals y) as [a2|] eqn:E2; [|discriminate].
          now rewrite (Hinv _ _ E1), (Hinv _ _ E2).
        - destruct (nthN vals x) as [a1|] eqn:E1; [|discriminate].
          now rewrite (Hinv _ _ E1). }
      assert (Hout : bg_out (to_bgate f (lenN vals) g) = f (lenN vals)) by (destruct g; reflexivity).
      assert (Hinv' : binv ((f (lenN vals), b) :: env) (vals ++ [b])).
      { intros i c Hi. cbn [bfind].
        pose proof (nthN_lt _ _ _ Hi) as Hlt. rewrite lenN_app, lenN_cons, lenN_nil in Hlt.
        destruct (N.eqb_spec (f (lenN vals)) (f i)) as [He|Hne].
        - apply f_inj_all in He; [|lia|lia]. subst i.
          rewrite nthN_app_here in Hi. exact Hi.
        - assert (i <> lenN vals) by congruence.
          rewrite nthN_app_l in Hi by lia. now apply Hinv. }
      destruct (IH (vals ++ [b]) ((f (lenN vals), b) :: env)) as (vals' & env' & H1 & H2 & H3).
      + rewrite lenN_app. lia.
      + rewrite lenN_app, lenN_cons, lenN_nil. lia.
      + rewrite lenN_app, lenN_cons, lenN_nil. now rewrite N.add_0_r.
      + exact Hinv'.
      + exists vals', env'. cbn [eval_gates bgates beval_gates]. rewrite Hb, Hbe, Hout.
        rewrite lenN_app, lenN_cons, lenN_nil, N.add_0_r in H2. auto.
  Qed.
End BEVAL.

Lemma mapM_nseq_outs {B} (g h : N -> option B) : forall os a,
  (forall k o, nthN os k = Some o -> g (a + k) = h o) ->
  mapM g (nseq (length os) a) = mapM h os.
Proof.
  induction os as [|o r IH]; intros a H; cbn [length nseq mapM]; [reflexivity|].
  rewrite <- (H 0 o (nthN_cons_0 o r)), N.add_0_r.
  rewrite (IH (a + 1)); [reflexivity|].
  intros k o' Hk. replace (a + 1 + k) with (a + (k + 1)) by lia. apply H.
  now rewrite nthN_cons_succ.
Qed.

Lemma export_circuit_sem lim c extra outs' tw' :
  exportable lim c ->
  dealias (skipn PANIC_BITS (output_gates c)) [] (lenN (gates c) + sumN (input_gates c))
    = Ok (extra, outs', tw') ->
  forall ins, ssa_eval (mkCircuit (input_gates c) (gates c ++ extra) outs') ins =
              option_map (skipn PANIC_BITS) (ssa_eval c ins).
Proof.
  intros (Hval & Hp & Hno & Hlim & Hfit) Hd ins.
  destruct (validate_unpack c Hval) as (Hig & Hvg & Hvo & _).
  unfold wires_len, num_inputs in *.
  unfold ssa_eval, ssa_wire_vals. cbn [input_gates gates output_gates].
  destruct (load_inputs (input_gates c) ins) as [v0|] eqn:El; [|reflexivity].
  pose proof (load_inputs_len _ _ _ El) as Hv0.
  rewrite <- Hv0 in Hvg.
  destruct (validate_gates_eval _ _ Hvg) as (vals & Hev & Hvl).
  rewrite eval_gates_app, Hev.
  assert (Hvl' : lenN vals = lenN (gates c) + sumN (input_gates c)) by lia.
  destruct (dealias_sem _ [] _ vals extra outs' tw' Hvl'
              ltac:(intros o Ho; apply In_skipn in Ho;
                    pose proof (validate_outputs_ok _ _ Hvo o Ho); lia) Hd) as (e & He & Hm).
  rewrite He, Hm.
  destruct (mapM_all (nthN vals) (output_gates c)) as [bits Hbits].
  { intros o Ho. apply nthN_Some.
    pose proof (validate_outputs_ok _ _ Hvo o Ho). lia. }
  rewrite Hbits. cbn [option_map]. now apply mapM_skipn.
Qed.

Theorem export_bristol_sem lim c ls :
  exportable lim c -> export lim c = Ok (inl ls) ->
  exists gl,
    ls = [TNum (lenN gl); TNum (sumN (input_gates c) + lenN gl)]
           :: (TNum (lenN (input_gates c)) :: map TNum (input_gates c))
           :: [TNum 1; TNum (lenN (output_gates c) - N.of_nat PANIC_BITS)]
           :: []
           :: map bgate_line gl /\
    forall ins,
      bristol_eval (input_gates c) (lenN (output_gates c) - N.of_nat PANIC_BITS) gl ins =
      option_map (skipn PANIC_BITS) (ssa_eval c ins).
Proof.
  intros Hexp Hls.
  destruct (export_shape lim c Hexp)
    as (extra & outs' & tw' & Hd & Houts & Hnd & HR & HTW & HvG & HGlen & Hlen' & Hexport).
  rewrite Hexport in Hls. injection Hls as <-.
  pose proof (export_circuit_sem lim c extra outs' tw' Hexp Hd) as Hsem.
  set (n_in := sumN (input_gates c)) in *.
  set (f := wmf n_in tw' outs') in *.
  set (G := gates c ++ extra) in *.
  assert (Hno : lenN outs' = lenN (output_gates c) - N.of_nat PANIC_BITS).
  { rewrite Hlen'. unfold lenN. rewrite skipn_length. lia. }
  assert (Hm : lenN outs' <= tw' - n_in) by (apply outs_le; assumption).
  exists (bgates f n_in G).
  rewrite bgates_len, bgates_lines, <- Hno, HGlen. split; [reflexivity|].
  intro ins. rewrite <- Hsem.
  unfold bristol_eval, ssa_eval, ssa_wire_vals. cbn [input_gates gates output_gates].
  destruct (load_inputs (input_gates c) ins) as [v0|] eqn:El; [|reflexivity].
  pose proof (load_inputs_len _ _ _ El) as Hv0. fold n_in in Hv0.
  destruct (beval_gates_spec n_in tw' f
              (wmf_in n_in tw' outs') (wmf_range n_in tw' outs' Hnd HR)
              (wmf_inj n_in tw' outs' Hnd HR)
              G v0 (combine (nseq (length v0) 0) v0))
    as (vals' & env' & Hev & Hbev & Hinv); try (rewrite Hv0; (lia || exact HvG)).
  { intros i b Hi. pose proof (nthN_lt _ _ _ Hi) as Hlt.
    unfold f. rewrite wmf_in by lia.
    rewrite <- (N.add_0_l i) at 1. now apply bfind_combine_nseq. }
  rewrite Hv0 in Hbev. rewrite Hbev, Hev.
  pose proof (eval_gates_len _ _ _ Hev) as Hvl.
  rewrite bgates_len.
  replace (N.to_nat (lenN outs')) with (length outs') by (unfold lenN; lia).
  apply mapM_nseq_outs.
  intros k o Hk. pose proof (HR o (nthN_In _ _ _ Hk)) as Ho.
  destruct (nthN_Some vals' o) as [b Hb]; [lia|].
  rewrite Hb, <- (Hinv o b Hb). unfold f.
  rewrite (wmf_out n_in tw' outs' Hnd HR k o Hk). f_equal. lia.
Qed.

(* ------------------------------------------------------------------------------------ *)
(* Non-vacuity: an exportable circuit with repeated outputs, an output feeding later gates
   and a Not gate; its export; the import of that export *)

Definition ex_circuit : circuit :=
  mkCircuit [1; 2] [GXor 0 1; GAnd 0 2; GXor 3 4; GNot 5] (repeat 0 161 ++ [5; 5; 6; 3; 5]).

Example ex_exportable : exportable 67108864 ex_circuit.
Proof.
  split; [vm_compute; reflexivity|].
  split; [vm_compute; repeat constructor|].
  split.
  - change (skipn PANIC_BITS (output_gates ex_circuit)) with [5; 5; 6; 3; 5].
    change (num_inputs ex_circuit) with 3.
    intros o [<-|[<-|[<-|[<-|[<-|[]]]]]]; lia.
  - split; vm_compute; discriminate.
Qed.

Example ex_roundtrip :
  export 67108864 ex_circuit =
    Ok (inl [[TNum 8; TNum 11]; [TNum 2; TNum 1; TNum 2]; [TNum 1; TNum 5]; [];
             [TNum 2; TNum 1; TNum 0; TNum 1; TNum 9; TWord WXor];
             [TNum 2; TNum 1; TNum 0; TNum 2; TNum 3; TWord WAnd];
             [TNum 2; TNum 1; TNum 9; TNum 3; TNum 6; TWord WXor];
             [TNum 1; TNum 1; TNum 6; TNum 8; TWord WInv];
             [TNum 2; TNum 1; TNum 6; TNum 6; TNum 4; TWord WXor];
             [TNum 2; TNum 1; TNum 6; TNum 4; TNum 7; TWord WXor];
             [TNum 2; TNum 1; TNum 6; TNum 6; TNum 5; TWord WXor];
             [TNum 2; TNum 1; TNum 6; TNum 5; TNum 10; TWord WXor]]) /\
  (forall ls, export 67108864 ex_circuit = Ok (inl ls) ->
     import ls = Ok (inl (mkCircuit [1; 2]
                            [GXor 0 1; GAnd 0 2; GXor 3 4; GNot 5;
                             GXor 5 5; GXor 5 7; GXor 5 5; GXor 5 9] [5; 8; 6; 3; 10]))) /\
  ssa_eval ex_circuit [[true]; [false; true]] =
    Some (repeat true 161 ++ [false; false; true; true; false]).
Proof.
  split; [vm_compute; reflexivity|].
  split; [|vm_compute; reflexivity].
  intros ls H.
  assert (E : export 67108864 ex_circuit = export 67108864 ex_circuit) by reflexivity.
  rewrite H in E at 1. vm_compute in E. injection E as ->. vm_compute. reflexivity.
Qed.

(* the malformed headers of DESIGN §6-20 (and the further overflow sites) are errors *)
Example ex_malformed_headers :
  import [[TNum 1; TNum 3]; [TNum 1; TNum 2]; [TNum 1; TNum 5]; [];
          [TNum 2; TNum 1; TNum 0; TNum 1; TNum 2; TWord WXor]]
    = Ok (inr (IMalformedLine [TNum 1; TNum 5])) /\
  import [[TNum 1; TNum USIZE_MAX]; [TNum 1; TNum 2]; [TNum 1; TNum 1]]
    = Ok (inr (IInvalidWireIndex (USIZE_MAX - 1))) /\
  import [[TNum 1; TNum 3]; [TNum 2; TNum USIZE_MAX; TNum 1]; [TNum 1; TNum 1]]
    = Ok (inr (IMalformedLine [TNum 2; TNum USIZE_MAX; TNum 1])) /\
  import [[TNum 1; TNum 3]; [TNum 1; TNum 2]; [TNum 1; TNum 1];
          [TNum USIZE_MAX; TNum 1; TNum 0; TNum 0; TWord WXor]]
    = Ok (inr (IMalformedLine [TNum USIZE_MAX; TNum 1; TNum 0; TNum 0; TWord WXor])) /\
  import [[TNum 1; TNum 1]; [TNum 1; TNum USIZE_MAX]; [TNum 1; TNum 1];
          [TNum 1; TNum 1; TNum 0; TNum 0; TWord WInv]]
    = Ok (inr (IInvalidWireIndex USIZE_MAX)).
Proof. repeat split; vm_compute; reflexivity. Qed.
