(* C16 for register circuits: validate accepts => strict evaluation (a register can only be
   read after it was written) succeeds, agrees with the Rust-style evaluation, and returns
   one bit per declared output; validate itself never panics. *)
From GV Require Import Base.Util Circuit.Ssa Circuit.Reg.

(* ---- set_nth ---- *)

Lemma set_nth_Some {A} (l : list A) i a : (i < length l)%nat -> exists l', set_nth l i a = Some l'.
Proof.
  revert i. induction l as [|x r IH]; intros i H; cbn [length] in H; [lia|].
  destruct i as [|i]; cbn [set_nth]; [eauto|].
  destruct (IH i) as [r' ->]; [lia|]. eauto.
Qed.

Lemma set_nth_length {A} (l : list A) i a l' : set_nth l i a = Some l' -> length l' = length l.
Proof.
  revert i l'. induction l as [|x r IH]; intros i l'; [destruct i; discriminate|].
  destruct i as [|i]; cbn [set_nth].
  - intros [= <-]. reflexivity.
  - destruct (set_nth r i a) eqn:E; [|discriminate]. intros [= <-].
    cbn [length]. f_equal. eauto.
Qed.

Lemma set_nth_lt {A} (l : list A) i a l' : set_nth l i a = Some l' -> (i < length l)%nat.
Proof.
  revert i l'. induction l as [|x r IH]; intros i l'; [destruct i; discriminate|].
  destruct i as [|i]; cbn [set_nth length]; [lia|].
  destruct (set_nth r i a) eqn:E; [|discriminate]. intros _. apply IH in E. lia.
Qed.

Lemma set_nth_same {A} (l : list A) i a l' : set_nth l i a = Some l' -> nth_error l' i = Some a.
Proof.
  revert i l'. induction l as [|x r IH]; intros i l'; [destruct i; discriminate|].
  destruct i as [|i]; cbn [set_nth].
  - intros [= <-]. reflexivity.
  - destruct (set_nth r i a) eqn:E; [|discriminate]. intros [= <-]. cbn [nth_error]. eauto.
Qed.

Lemma set_nth_other {A} (l : list A) i j a l' :
  set_nth l i a = Some l' -> i <> j -> nth_error l' j = nth_error l j.
Proof.
  revert i j l'. induction l as [|x r IH]; intros i j l'; [destruct i; discriminate|].
  destruct i as [|i]; cbn [set_nth].
  - intros [= <-] H. destruct j; [congruence|reflexivity].
  - destruct (set_nth r i a) eqn:E; [|discriminate]. intros [= <-] H.
    destruct j; [reflexivity|]. cbn [nth_error]. eapply IH; eauto.
Qed.

Lemma setN_spec {A} (l : list A) i a : setN l i a = set_nth l (N.to_nat i) a.
Proof.
  unfold setN, lenN. destruct (N.ltb_spec i (N.of_nat (length l))) as [H|H]; [reflexivity|].
  destruct (set_nth l (N.to_nat i) a) eqn:E; [|reflexivity].
  apply set_nth_lt in E. lia.
Qed.

Lemma setN_Some {A} (l : list A) i a : i < lenN l -> exists l', setN l i a = Some l'.
Proof. rewrite setN_spec. unfold lenN. intro. apply set_nth_Some. lia. Qed.

Lemma setN_len {A} (l : list A) i a l' : setN l i a = Some l' -> lenN l' = lenN l.
Proof. rewrite setN_spec. unfold lenN. intro H. apply set_nth_length in H. lia. Qed.

Lemma setN_same {A} (l : list A) i a l' : setN l i a = Some l' -> nthN l' i = Some a.
Proof. rewrite setN_spec, nthN_spec. apply set_nth_same. Qed.

Lemma setN_other {A} (l : list A) i j a l' :
  setN l i a = Some l' -> i <> j -> nthN l' j = nthN l j.
Proof. rewrite setN_spec, !nthN_spec. intros H Hne. eapply set_nth_other; eauto. lia. Qed.

Lemma lenN_repeat {A} (a : A) n : lenN (repeat a (N.to_nat n)) = n.
Proof. unfold lenN. rewrite repeat_length. lia. Qed.

Lemma nthN_repeat {A} (a : A) n i : i < n -> nthN (repeat a (N.to_nat n)) i = Some a.
Proof.
  intro H. rewrite nthN_spec. apply nth_error_repeat. lia.
Qed.

(* ---- shape ---- *)

Lemma shape_ok_check ig ins : shape_ok ig ins -> shape_check ig ins = true.
Proof.
  unfold shape_check. induction 1 as [|n bits ig' ins' Hn _ IH]; [reflexivity|].
  apply andb_true_iff in IH. destruct IH as [IH1 IH2].
  apply andb_true_iff. split.
  - rewrite !lenN_cons. apply N.eqb_eq in IH1. apply N.eqb_eq. lia.
  - cbn [combine forallb fst snd]. rewrite IH2, Hn, N.eqb_refl. reflexivity.
Qed.

Lemma shape_ok_input ig ins p sz k :
  shape_ok ig ins -> nthN ig p = Some sz -> k < sz -> exists b, get_input ins p k = Some b.
Proof.
  intros H Hp Hk.
  assert (Hb : exists bits, nthN ins p = Some bits /\ lenN bits = sz).
  { revert Hp. rewrite !nthN_spec. generalize (N.to_nat p) as j.
    induction H as [|n bits ig' ins' Hn _ IH]; intros j Hj; [destruct j; discriminate|].
    destruct j as [|j]; cbn [nth_error] in *.
    - injection Hj as ->. eauto.
    - eauto. }
  destruct Hb as (bits & Hb & Hl). unfold get_input. rewrite Hb.
  apply nthN_Some. lia.
Qed.

(* ---- the loop invariant ---- *)

Section Inv.
  Variable c : rcircuit.
  Variable ins : list (list bool).
  Hypothesis Hshape : shape_ok (input_regs c) ins.

  Definition rel (set : list bool) (regs : list (option bool)) (lregs : list bool) : Prop :=
    lenN set = max_reg_count c /\ lenN regs = max_reg_count c /\ lenN lregs = max_reg_count c /\
    forall r, nthN set r = Some true ->
      exists v, nthN regs r = Some (Some v) /\ nthN lregs r = Some v.

  Lemma rel_rd set regs lregs r :
    rel set regs lregs -> nthN set r = Some true ->
    exists v, rd regs r = Some v /\ nthN lregs r = Some v.
  Proof.
    intros (_ & _ & _ & H) Hr. destruct (H r Hr) as (v & H1 & H2).
    exists v. unfold rd. rewrite H1. auto.
  Qed.

  Lemma nthN_set_cases set x :
    lenN set = max_reg_count c -> x < max_reg_count c ->
    nthN set x = Some true \/ nthN set x = Some false.
  Proof.
    intros Hl Hx. destruct (nthN_Some set x) as [[|] ->]; [lia| |]; auto.
  Qed.

  Lemma validate_inst_step set regs lregs i ins0 set' :
    rel set regs lregs ->
    validate_inst c set i ins0 = Ok (inr set') ->
    exists b regs' lregs',
      op_val_strict ins regs (iop ins0) = Some b /\
      op_val ins lregs (iop ins0) = Some b /\
      setN regs (iout ins0) (Some b) = Some regs' /\
      setN lregs (iout ins0) b = Some lregs' /\
      rel set' regs' lregs'.
  Proof.
    intros Hrel Hv. pose proof Hrel as (Hl1 & Hl2 & Hl3 & Hall).
    unfold validate_inst in Hv.
    destruct (max_reg_count c <=? iout ins0) eqn:Hout; [discriminate|].
    apply N.leb_gt in Hout.
    assert (Hop : exists b, op_val_strict ins regs (iop ins0) = Some b /\
                            op_val ins lregs (iop ins0) = Some b /\
                            setN set (iout ins0) true = Some set').
    { destruct (iop ins0) as [x y|x y|x|p k]; cbn [op_val_strict op_val].
      - destruct ((max_reg_count c <=? x) || (max_reg_count c <=? y)) eqn:Hb; [discriminate|].
        apply orb_false_iff in Hb. destruct Hb as [Hx Hy]. apply N.leb_gt in Hx, Hy.
        destruct (nthN_set_cases set x Hl1 Hx) as [Ex|Ex]; rewrite Ex in Hv; [|discriminate].
        destruct (nthN_set_cases set y Hl1 Hy) as [Ey|Ey]; rewrite Ey in Hv; [|discriminate].
        destruct (rel_rd _ _ _ _ Hrel Ex) as (vx & -> & ->).
        destruct (rel_rd _ _ _ _ Hrel Ey) as (vy & -> & ->).
        destruct (setN set (iout ins0) true); [|discriminate]. injection Hv as <-. eauto.
      - destruct ((max_reg_count c <=? x) || (max_reg_count c <=? y)) eqn:Hb; [discriminate|].
        apply orb_false_iff in Hb. destruct Hb as [Hx Hy]. apply N.leb_gt in Hx, Hy.
        destruct (nthN_set_cases set x Hl1 Hx) as [Ex|Ex]; rewrite Ex in Hv; [|discriminate].
        destruct (nthN_set_cases set y Hl1 Hy) as [Ey|Ey]; rewrite Ey in Hv; [|discriminate].
        destruct (rel_rd _ _ _ _ Hrel Ex) as (vx & -> & ->).
        destruct (rel_rd _ _ _ _ Hrel Ey) as (vy & -> & ->).
        destruct (setN set (iout ins0) true); [|discriminate]. injection Hv as <-. eauto.
      - destruct (max_reg_count c <=? x) eqn:Hx; [discriminate|]. apply N.leb_gt in Hx.
        destruct (nthN_set_cases set x Hl1 Hx) as [Ex|Ex]; rewrite Ex in Hv; [|discriminate].
        destruct (rel_rd _ _ _ _ Hrel Ex) as (vx & -> & ->).
        destruct (setN set (iout ins0) true); [|discriminate]. injection Hv as <-. eauto.
      - destruct (negb (i =? iout ins0)); [discriminate|].
        destruct (nthN (input_regs c) p) as [sz|] eqn:Hp.
        + destruct (sz <=? k) eqn:Hk; [discriminate|]. apply N.leb_gt in Hk.
          destruct (shape_ok_input _ _ _ _ _ Hshape Hp Hk) as [b ->].
          destruct (setN set (iout ins0) true); [|discriminate]. injection Hv as <-. eauto.
        + destruct (0 <=? k) eqn:Hk; [discriminate|]. apply N.leb_gt in Hk. lia. }
    destruct Hop as (b & Hs & Hlx & Hset).
    destruct (setN_Some regs (iout ins0) (Some b)) as [regs' Hr']; [lia|].
    destruct (setN_Some lregs (iout ins0) b) as [lregs' Hlr']; [lia|].
    exists b, regs', lregs'. repeat split; auto.
    - rewrite (setN_len _ _ _ _ Hset). exact Hl1.
    - rewrite (setN_len _ _ _ _ Hr'). exact Hl2.
    - rewrite (setN_len _ _ _ _ Hlr'). exact Hl3.
    - intros r Hr. destruct (N.eq_dec (iout ins0) r) as [<-|Hne].
      + exists b. rewrite (setN_same _ _ _ _ Hr'), (setN_same _ _ _ _ Hlr'). auto.
      + rewrite (setN_other _ _ _ _ _ Hset Hne) in Hr.
        rewrite (setN_other _ _ _ _ _ Hr' Hne), (setN_other _ _ _ _ _ Hlr' Hne). auto.
  Qed.

  Lemma validate_insts_run l : forall set regs lregs i set',
    rel set regs lregs ->
    validate_insts c set i l = Ok (inr set') ->
    exists regs' lregs',
      run_insts_strict ins regs l = Some regs' /\
      run_insts ins lregs l = Some lregs' /\
      rel set' regs' lregs'.
  Proof.
    induction l as [|ins0 r IH]; intros set regs lregs i set' Hrel Hv;
      cbn [validate_insts run_insts_strict run_insts] in *.
    - injection Hv as <-. eauto.
    - destruct (validate_inst c set i ins0) as [[e|set1]| |] eqn:Hstep; try discriminate.
      destruct (validate_inst_step _ _ _ _ _ _ Hrel Hstep)
        as (b & regs1 & lregs1 & -> & -> & -> & -> & Hrel1).
      eapply IH; eauto.
  Qed.

  Lemma first_unset_output_ok set n os :
    first_unset_output set n os = Ok None -> forall o, In o os -> nthN set o = Some true.
  Proof.
    induction os as [|o r IH]; cbn [first_unset_output]; intros H x Hin; [destruct Hin|].
    destruct (nthN set o) as [[|]|] eqn:E; try discriminate.
    destruct Hin as [<-|Hin]; auto.
  Qed.
End Inv.

Theorem reg_validate_safe c ins :
  reg_validate c = Ok None -> shape_ok (input_regs c) ins ->
  exists out, reg_eval_strict c ins = Some out /\ reg_eval c ins = Some out /\
              length out = length (output_regs c).
Proof.
  unfold reg_validate, reg_eval_strict, reg_eval. intros Hv Hs.
  rewrite (shape_ok_check _ _ Hs). cbn [negb].
  destruct (forallb (N.eqb 0) (input_regs c)); [discriminate|].
  destruct (output_regs c) as [|o0 os0] eqn:Hos; [discriminate|]. rewrite <- Hos in *.
  destruct (first_bad_output (max_reg_count c) (output_regs c)); [discriminate|].
  destruct (MAX_GATES_R <? lenN (insts c)); [discriminate|].
  destruct (validate_insts c (repeat false (N.to_nat (max_reg_count c))) 0 (insts c))
    as [[e|set]| |] eqn:Hi; try discriminate.
  assert (Hrel0 : rel c (repeat false (N.to_nat (max_reg_count c)))
                        (repeat None (N.to_nat (max_reg_count c)))
                        (repeat false (N.to_nat (max_reg_count c)))).
  { unfold rel. rewrite !lenN_repeat. repeat split; auto.
    intros r Hr. assert (r < max_reg_count c).
    { apply nthN_lt in Hr. now rewrite lenN_repeat in Hr. }
    rewrite nthN_repeat in Hr by assumption. discriminate. }
  destruct (validate_insts_run c ins Hs _ _ _ _ _ _ Hrel0 Hi) as (regs & lregs & -> & -> & Hrel).
  pose proof (first_unset_output_ok _ _ _ Hv) as Hset.
  assert (Hboth : forall os, (forall o, In o os -> nthN set o = Some true) ->
            exists out, mapM (rd regs) os = Some out /\ mapM (nthN lregs) os = Some out).
  { induction os as [|o r IH]; intros Hall; cbn [mapM]; [eauto|].
    destruct (rel_rd c _ _ _ o Hrel (Hall o (or_introl eq_refl))) as (v & -> & ->).
    destruct IH as (out & -> & ->); [intros; apply Hall; now right|]. eauto. }
  destruct (Hboth _ Hset) as (out & H1 & H2).
  exists out. repeat split; auto. eapply mapM_length; eauto.
Qed.

(* validate never panics (it could before the repair: register_set[x] with max_reg_count = 0) *)
Lemma validate_inst_total c set i ins0 :
  lenN set = max_reg_count c -> validate_inst c set i ins0 <> Crash /\
  validate_inst c set i ins0 <> OutOfFuel /\
  forall set', validate_inst c set i ins0 = Ok (inr set') -> lenN set' = max_reg_count c.
Proof.
  intro Hl. unfold validate_inst.
  destruct (max_reg_count c <=? iout ins0) eqn:Hout; [repeat split; discriminate|].
  apply N.leb_gt in Hout.
  destruct (setN_Some set (iout ins0) true) as [s' Hs']; [lia|].
  pose proof (setN_len _ _ _ _ Hs') as Hl'.
  destruct (iop ins0) as [x y|x y|x|p k].
  - destruct ((max_reg_count c <=? x) || (max_reg_count c <=? y)) eqn:Hb;
      [repeat split; discriminate|].
    apply orb_false_iff in Hb. destruct Hb as [Hx Hy]. apply N.leb_gt in Hx, Hy.
    destruct (nthN_Some set x) as [[|] ->]; [lia| |repeat split; discriminate].
    destruct (nthN_Some set y) as [[|] ->]; [lia| |repeat split; discriminate].
    rewrite Hs'. repeat split; try discriminate. intros ? [= <-]. lia.
  - destruct ((max_reg_count c <=? x) || (max_reg_count c <=? y)) eqn:Hb;
      [repeat split; discriminate|].
    apply orb_false_iff in Hb. destruct Hb as [Hx Hy]. apply N.leb_gt in Hx, Hy.
    destruct (nthN_Some set x) as [[|] ->]; [lia| |repeat split; discriminate].
    destruct (nthN_Some set y) as [[|] ->]; [lia| |repeat split; discriminate].
    rewrite Hs'. repeat split; try discriminate. intros ? [= <-]. lia.
  - destruct (max_reg_count c <=? x) eqn:Hx; [repeat split; discriminate|].
    apply N.leb_gt in Hx.
    destruct (nthN_Some set x) as [[|] ->]; [lia| |repeat split; discriminate].
    rewrite Hs'. repeat split; try discriminate. intros ? [= <-]. lia.
  - destruct (negb (i =? iout ins0)); [repeat split; discriminate|].
    destruct (_ <=? k); [repeat split; discriminate|].
    rewrite Hs'. repeat split; try discriminate. intros ? [= <-]. lia.
Qed.

Lemma validate_insts_total c l : forall set i,
  lenN set = max_reg_count c -> validate_insts c set i l <> Crash /\
  validate_insts c set i l <> OutOfFuel /\
  forall set', validate_insts c set i l = Ok (inr set') -> lenN set' = max_reg_count c.
Proof.
  induction l as [|ins0 r IH]; intros set i Hl; cbn [validate_insts].
  - repeat split; try discriminate. intros ? [= <-]. exact Hl.
  - destruct (validate_inst_total c set i ins0 Hl) as (H1 & H2 & H3).
    destruct (validate_inst c set i ins0) as [[e|set1]| |]; try congruence.
    + repeat split; discriminate.
    + apply IH. now apply H3.
Qed.

Theorem reg_validate_total c : reg_validate c <> Crash /\ reg_validate c <> OutOfFuel.
Proof.
  unfold reg_validate.
  destruct (forallb (N.eqb 0) (input_regs c)); [split; discriminate|].
  destruct (output_regs c) as [|o0 os0] eqn:Hos; [split; discriminate|]. rewrite <- Hos.
  destruct (first_bad_output (max_reg_count c) (output_regs c)) eqn:Hb; [split; discriminate|].
  destruct (MAX_GATES_R <? lenN (insts c)); [split; discriminate|].
  destruct (validate_insts_total c (insts c) (repeat false (N.to_nat (max_reg_count c))) 0)
    as (H1 & H2 & H3); [apply lenN_repeat|].
  destruct (validate_insts c _ 0 (insts c)) as [[e|set]| |]; try congruence;
    [split; discriminate|].
  specialize (H3 set eq_refl).
  assert (Hall : forall o, In o (output_regs c) -> o < max_reg_count c).
  { clear -Hb. induction (output_regs c) as [|o r IH]; cbn [first_bad_output] in *;
      intros x Hin; [destruct Hin|].
    destruct (max_reg_count c <=? o) eqn:E; [discriminate|]. apply N.leb_gt in E.
    destruct Hin as [<-|Hin]; auto. }
  clear Hb Hos. induction (output_regs c) as [|o r IH]; cbn [first_unset_output];
    [split; discriminate|].
  destruct (nthN_Some set o) as [[|] ->]; [rewrite H3; apply Hall; now left| |split; discriminate].
  apply IH. intros; apply Hall; now right.
Qed.

Example reg_validate_safe_example :
  let c := mkRCircuit [1; 2]
    [mkInst 0 (OInput 0 0); mkInst 1 (OInput 1 0); mkInst 2 (OInput 1 1);
     mkInst 1 (OXor 0 1); mkInst 0 (OAnd 0 2); mkInst 1 (OXor 1 0); mkInst 0 (OAnd 0 1)]
    3 [1; 0] 2 in
  reg_validate c = Ok None /\ reg_eval_strict c [[true]; [false; true]] = Some [false; false].
Proof. split; reflexivity. Qed.
