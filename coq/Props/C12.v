(* C12 — const parameters act as literal substitution; missing/mistyped ones are errors.
   This file only states the property theorems; proofs live in Compile/ConstsProofs.v.
   All theorems are about [repaired] = the model of compile_with_constants with the proposed
   fixes 1-9 applied; the behaviour of the code as found is refuted by the Examples
   [*_refuted] of ConstsProofs.v. *)
From Coq Require Import Permutation.
From GV Require Import Base.Util Compile.Consts Compile.ConstsProofs Compile.ConstsCheck.

(* resolution = documented meaning, at the level of one const expression: for a well-typed
   expression of a number const of type t, whose external constants and earlier consts are
   registered with in-range values, resolve_const_expr_{unsigned,signed} at the 64-bit host
   width returns exactly the value of the expression in wrapping arithmetic of t. *)
Theorem C12_resolve_spec :
  forall (dp : deps) (decl : list (N * cty)) (t : cty) (sup : supplied) (cv : list (N * Z)) (m : kmap Z),
  cty_ok t = true -> is_num t = true ->
  (forall p n meta, dget dp (p, n) = Some (t, meta) ->
     exists l v, sup_get sup p n = Some l /\ lit_val l = Some v /\ in_range t v = true /\ kget m (KE p n) = Some v) ->
  (forall i, assocN decl i = Some t ->
     exists v, assocN cv i = Some v /\ in_range t v = true /\ kget m (KC i) = Some v) ->
  forall e, wt_cexpr dp decl t e = true ->
  exists v, resolve repaired (kind_of t) (cty_bits t) m e = Ok v /\ spec_expr t sup cv e = Some v /\
            in_range t v = true.
Proof. exact resolve_ok. Qed.
Print Assumptions C12_resolve_spec.

(* the whole of compile_with_constants up to the body of main: for well-typed definitions
   (every reference is to an earlier const: acyclic) and acceptable supplied constants, for ANY
   iteration orders of the three hash maps, every const is bound to the constant wires of its
   documented value (const_spec), const_sizes holds exactly the usize consts and constants
   with those values, and the parties are wired from those sizes (zero input bits = error). *)
Theorem C12_compile_spec :
  forall defs d params sup o1 o2 ob,
  wt_defs d defs = true -> sup_ok d sup = true -> is_order o1 d = true -> is_order o2 d = true ->
  exists vs sizes,
    const_spec sup defs = Some vs /\
    Forall2 (fun x nv => fst nv = cd_name x /\ in_range (cd_ty x) (snd nv) = true) defs vs /\
    sizes_spec d sup defs vs sizes /\
    compile_consts repaired o1 o2 ob defs d params sup =
      (let* ig := wire_params repaired sizes params in
       if (total_bits ig =? 0)%Z then Ok (inl [EZeroInputs])
       else Ok (inr (Build_cout (list_sizes d defs sizes) ig (vals_of defs vs)))).
Proof. exact compile_consts_spec. Qed.
Print Assumptions C12_compile_spec.

(* C06 for the const machinery: the result does not depend on the iteration orders *)
Theorem C12_order_irrelevant :
  forall defs d params sup o1 o2 ob o1' o2' ob',
  wt_defs d defs = true -> sup_ok d sup = true ->
  is_order o1 d = true -> is_order o2 d = true -> is_order o1' d = true -> is_order o2' d = true ->
  compile_consts repaired o1 o2 ob defs d params sup = compile_consts repaired o1' o2' ob' defs d params sup.
Proof. exact order_irrelevant. Qed.
Print Assumptions C12_order_irrelevant.

(* a declared constant that is missing or of the wrong type: an error list (never a panic, for
   any definitions, parameters and orders) that names every missing constant and carries one
   InvalidLiteralType(literal, declared type) per mistyped one; the list is a permutation of
   the per-constant errors (sorted by impl Ord for CompilerError) *)
Theorem C12_errors :
  forall defs d params sup o1 o2 ob,
  is_order o1 d = true ->
  (exists p n ty meta, dget d (p, n) = Some (ty, meta) /\
     match sup_get sup p n with None => True | Some l => is_of_type l ty = false end) ->
  exists es,
    compile_consts repaired o1 o2 ob defs d params sup = Ok (inl es) /\
    (forall p n ty meta, dget d (p, n) = Some (ty, meta) -> sup_get sup p n = None -> In (EMissing p n meta) es) /\
    (forall p n ty meta l, dget d (p, n) = Some (ty, meta) -> sup_get sup p n = Some l ->
                           is_of_type l ty = false -> In (EBadType l ty) es) /\
    Permutation es (flat_map (err1 d sup) o1).
Proof. exact errors_reported. Qed.
Print Assumptions C12_errors.

(* constants that no const definition refers to are ignored *)
Theorem C12_extra_ignored :
  forall defs d params sup sup' o1 o2 ob,
  is_order o1 d = true -> is_order o2 d = true ->
  (forall p n, dget d (p, n) <> None -> sup_get sup p n = sup_get sup' p n) ->
  compile_consts repaired o1 o2 ob defs d params sup = compile_consts repaired o1 o2 ob defs d params sup'.
Proof. exact extra_ignored. Qed.
Print Assumptions C12_extra_ignored.

(* no fuel anywhere in the resolution (consts are resolved in source order, the checker only
   admits references to earlier consts), and no panic unless the parameter types of main
   refer to something that is not a declared usize const *)
Theorem C12_resolve_no_fuel :
  forall c k bits m e, resolve c k bits m e <> OutOfFuel.
Proof. exact resolve_nofuel. Qed.
Print Assumptions C12_resolve_no_fuel.

Theorem C12_total :
  forall defs d params sup o1 o2 ob,
  wt_defs d defs = true -> sup_ok d sup = true -> is_order o1 d = true -> is_order o2 d = true ->
  compile_consts repaired o1 o2 ob defs d params sup <> OutOfFuel /\
  (compile_consts repaired o1 o2 ob defs d params sup = Crash ->
   exists sizes vs, const_spec sup defs = Some vs /\ sizes_spec d sup defs vs sizes /\
                    wire_params repaired sizes params = Crash).
Proof. exact consts_total. Qed.
Print Assumptions C12_total.

(* the link between the checker and the hypothesis [wt_defs] of the theorems above that concerns
   external constants: a program the checker accepts uses every external constant at the one
   type recorded in const_deps, i.e. the type the compiler tests the supplied literal against
   (false of the tree as found: ConstsCheck.checker_one_type_refuted_original; fix 9) *)
Theorem C12_checker_one_type :
  forall defs, fst (check_defs repaired defs) = [] ->
  forall x, In x defs -> ext_ok (snd (check_defs repaired defs)) (cd_ty x) (cd_val x) = true.
Proof. exact checker_one_type. Qed.
Print Assumptions C12_checker_one_type.
