(* C10 — the register-based circuit is equivalent to the SSA circuit and safe to execute.
   Statements only; proofs in Circuit/RegAllocProofs.v. *)
From GV Require Import Base.Util Circuit.Ssa Circuit.Reg Circuit.RegAlloc Circuit.RegAllocProofs.

(* For every SSA circuit value that Circuit::validate accepts (compiler output or any
   well-formed gate list: repeated operands, outputs that are inputs or repeated, unused
   inputs/gates, any fan-out), the conversion
   - does not panic and yields a register circuit that passes its own validation,
   - computes the same output bits for every input (of any shape: both evaluators panic on
     the same malformed inputs),
   - under the strict evaluator (reading a register that was never written fails) still
     yields those bits, i.e. never reads an unwritten register,
   - declares at most as many registers as there are wires, the same number of ANDs, the
     same party sizes, and starts with one Input instruction per input bit, party by party
     in order, each writing the register equal to its position. *)
Theorem C10 : forall c : circuit,
  ssa_validate c = None ->
  exists r, convert c = Ok r /\
    reg_validate r = Ok None /\
    (forall ins, reg_eval r ins = ssa_eval c ins) /\
    (forall ins, shape_ok (input_gates c) ins -> reg_eval_strict r ins = ssa_eval c ins) /\
    max_reg_count r <= wires_len c /\
    and_ops r = and_gates c /\
    input_regs r = input_gates c /\
    exists rest, insts r = number_insts 0 (input_ops 0 (input_gates c)) ++ rest /\
                 lenN rest = lenN (gates c).
Proof. exact convert_correct_full. Qed.
Print Assumptions C10.

(* non-vacuity: the unit test of register_circuit.rs, converted inside Coq *)
Theorem C10_example :
  ssa_validate (mkCircuit [1; 2] [GXor 0 1; GAnd 0 2; GXor 3 4; GAnd 4 5] [5; 6]) = None /\
  convert (mkCircuit [1; 2] [GXor 0 1; GAnd 0 2; GXor 3 4; GAnd 4 5] [5; 6]) =
  Ok (mkRCircuit [1; 2]
        [mkInst 0 (OInput 0 0); mkInst 1 (OInput 1 0); mkInst 2 (OInput 1 1);
         mkInst 1 (OXor 0 1); mkInst 0 (OAnd 0 2); mkInst 1 (OXor 1 0); mkInst 0 (OAnd 0 1)]
        3 [1; 0] 2).
Proof. split; reflexivity. Qed.
Print Assumptions C10_example.
