(* C15 — no useless gates; data movement is free.  (Theorems about [build] are added as
   Builder/BuildProofs.v lands; pinned here: the folding rules that make data movement free.) *)
From GV Require Import Base.Util Base.NMap Builder.Builder Builder.BuilderSem Builder.BuilderSpec Builder.BuilderProofs.
Open Scope N_scope.

(* a mux whose two data inputs are the same wire returns that wire: no gate *)
Theorem C15_mux_same_is_free : forall b s x, push_mux b s x x = Ok (x, b).
Proof. intros. unfold push_mux. now rewrite N.eqb_refl. Qed.
Print Assumptions C15_mux_same_is_free.

(* AND/XOR with a constant never emits a gate *)
Theorem C15_and_const_is_free : forall fuel b x,
  push_and (S fuel) b 0 x = Ok (0, b) /\ push_and (S fuel) b x 0 = Ok (0, b) /\ push_and (S fuel) b 1 x = Ok (x, b).
Proof.
  intros. cbn [push_and]. unfold optimize_and. rewrite N.eqb_refl. cbn [orb].
  repeat split; auto.
  - now rewrite orb_true_r.
  - destruct (x =? 0) eqn:E; cbn [orb]; [apply N.eqb_eq in E; now subst|reflexivity].
Qed.
Print Assumptions C15_and_const_is_free.

Theorem C15_xor_zero_is_free : forall fuel b x,
  push_xor (S fuel) b 0 x = Ok (x, b) /\ push_xor (S fuel) b x 0 = Ok (x, b).
Proof.
  intros. cbn [push_xor]. unfold optimize_xor. rewrite N.eqb_refl. split; [reflexivity|].
  destruct (x =? 0) eqn:E; [apply N.eqb_eq in E; now subst|reflexivity].
Qed.
Print Assumptions C15_xor_zero_is_free.
