(* C15 -- no useless gates; data movement is free.
   Builder / build layer: machine-checked for every builder reachable by any request sequence
   and every choice of panic wires / outputs (proofs: Builder/StructProofs.v over the models
   Builder/Builder.v and Builder/Build.v, which are tied gate for gate to src/circuit.rs on
   every run).  Program level (which programs are "data movement") stays differential. *)
From GV Require Import Base.Util Base.NMap Builder.Builder Builder.BuilderSem Builder.BuilderSpec Builder.BuilderProofs.
Open Scope N_scope.

(* a mux whose two data inputs are the same wire returns that wire: no gate *)
Theorem C15_mux_same_is_free : forall b s x, push_mux b s x x = Ok (x, b).
Proof. intros. unfold push_mux. now rewrite N.eqb_refl. Qed.
Print Assumptions C15_mux_same_is_free.

(* AND/XOR with a constant never emits a gate *)
Theorem C15_and_const_is_free : forall fuel b x,
  push_and (S fuel) b 0 x = Ok (0, b) /\ push_and (S fuel) b x 0 = Ok (0, b) /\ push_and (S fuel) b 1 x = Ok (x, b).
Proof.
  intros. cbn [push_and]. unfold optimize_and. rewrite N.eqb_refl. cbn [orb].
  repeat split; auto.
  - now rewrite orb_true_r.
  - destruct (x =? 0) eqn:E; cbn [orb]; [apply N.eqb_eq in E; now subst|reflexivity].
Qed.
Print Assumptions C15_and_const_is_free.

Theorem C15_xor_zero_is_free : forall fuel b x,
  push_xor (S fuel) b 0 x = Ok (x, b) /\ push_xor (S fuel) b x 0 = Ok (x, b).
Proof.
  intros. cbn [push_xor]. unfold optimize_xor. rewrite N.eqb_refl. split; [reflexivity|].
  destruct (x =? 0) eqn:E; [apply N.eqb_eq in E; now subst|reflexivity].
Qed.
Print Assumptions C15_xor_zero_is_free.

(* ====================================================================================
   Builder / build layer, for EVERY builder any request sequence can produce
   ([reachable]: new_builder, then any list of xor/and/or/eq/not/mux requests whose raw
   operands are constants or inputs and whose other operands are earlier results), with
   de-duplication on or off, and EVERY choice of panic wires [pw] and outputs [outs] among
   the valid wires.  Final numbering: wires 0..n-1 are the inputs (n = num_inputs c), gate
   k drives wire n+k; gate 0 = Xor(0,0) is the constant false (wire n), gate 1 = Not(n) the
   constant true (wire n+1).
   ==================================================================================== *)
From GV Require Import Circuit.Ssa Builder.Build Builder.BuildProofs Builder.Requests
  Builder.StructSpec Builder.StructProofs.

(* build never fails / never runs out of fuel on such a builder *)
Theorem C15_build_total : forall b hs pw outs,
  reachable b hs -> valids b pw -> valids b outs -> exists c, build b pw outs = Ok c.
Proof. exact build_total. Qed.
Print Assumptions C15_build_total.

(* the exceptions, exactly: the first two gates are the constant gates, emitted always *)
Theorem C15_const_gates : forall b hs pw outs c,
  reachable b hs -> valids b pw -> valids b outs -> build b pw outs = Ok c ->
  nthN (gates c) 0 = Some (GXor 0 0) /\ nthN (gates c) 1 = Some (GNot (num_inputs c)).
Proof. exact build_const_gates. Qed.
Print Assumptions C15_const_gates.

(* 1. every other gate contributes to an output (is an output, or an operand of a gate that
      contributes): no dead gate survives build *)
Theorem C15_all_used : forall b hs pw outs c,
  reachable b hs -> valids b pw -> valids b outs -> build b pw outs = Ok c ->
  forall k, 2 <= k < lenN (gates c) -> reaches c (num_inputs c + k).
Proof. exact build_all_used. Qed.
Print Assumptions C15_all_used.

(* 2. no XOR / AND / NOT gate other than those two has a constant wire as operand *)
Theorem C15_no_constant_operand : forall b hs pw outs c,
  reachable b hs -> valids b pw -> valids b outs -> build b pw outs = Ok c ->
  forall k g w, 2 <= k -> nthN (gates c) k = Some g -> In w (g_ops g) ->
    w <> num_inputs c /\ w <> num_inputs c + 1.
Proof. exact build_no_constant_operand. Qed.
Print Assumptions C15_no_constant_operand.

(* 4. no AND has the same wire twice (dedup on or off); with dedup no XOR either (gate 0,
      Xor(0,0), is the exception; without dedup Xor(q,q) can be stored, see
      C15_nodedup_xor_self_example) *)
Theorem C15_no_self_operand : forall b hs pw outs c,
  reachable b hs -> valids b pw -> valids b outs -> build b pw outs = Ok c ->
  (forall k x y, nthN (gates c) k = Some (GAnd x y) -> x <> y) /\
  (b_dedup b = true -> forall k x y, 2 <= k -> nthN (gates c) k = Some (GXor x y) -> x <> y).
Proof. exact build_no_self_operand. Qed.
Print Assumptions C15_no_self_operand.

(* 3. with dedup no two AND gates have the same unordered operand pair *)
Theorem C15_and_unique : forall b hs pw outs c,
  reachable b hs -> valids b pw -> valids b outs -> build b pw outs = Ok c ->
  b_dedup b = true ->
  forall k1 k2 x y x' y',
    nthN (gates c) k1 = Some (GAnd x y) -> nthN (gates c) k2 = Some (GAnd x' y') ->
    same_pair x y x' y' -> k1 = k2.
Proof. exact build_and_unique. Qed.
Print Assumptions C15_and_unique.

(* the same facts about the gate store itself (before pruning): what is never stored *)
Theorem C15_store_gate_shape : forall b hs,
  reachable b hs ->
  forall i g, nthN (rev (b_gates_rev b)) i = Some g ->
    match g with
    | BAnd x y => 2 <= x /\ 2 <= y /\ x <> y
    | BXor x y => x <> 0 /\ y <> 0 /\ (x = y -> b_dedup b = false /\ 2 <= x)
    end.
Proof. exact store_gate_shape. Qed.
Print Assumptions C15_store_gate_shape.

Theorem C15_store_and_unique : forall b hs,
  reachable b hs -> b_dedup b = true ->
  forall i j x y x' y',
    nthN (rev (b_gates_rev b)) i = Some (BAnd x y) -> nthN (rev (b_gates_rev b)) j = Some (BAnd x' y') ->
    same_pair x y x' y' -> i = j.
Proof. exact store_and_unique. Qed.
Print Assumptions C15_store_and_unique.

(* ---- counting AND gates ("data movement costs zero AND gates", builder level) ---- *)

(* 6a. pruning never adds an AND, and one request adds at most [req_cost] of them to the
   store: xor 1 (the (a&b)^(a&c) -> a&(b^c) rewrite pushes an AND; tight, see
   C15_xor_can_add_and_example), and 1, eq 1, not 0, or 3, mux 3 *)
Theorem C15_and_count_le : forall dedup inputs rs b hs pw outs c,
  Forall (req_ok (2 + sumN inputs)) rs ->
  run_reqs (new_builder dedup inputs) [] rs = Ok (b, hs) ->
  valids b pw -> valids b outs -> build b pw outs = Ok c ->
  and_gates c <= N.of_nat (reqs_cost rs).
Proof. exact build_and_count_le. Qed.
Print Assumptions C15_and_count_le.

(* 6b. a request sequence made only of XOR / NOT / EQ requests, ANDs and ORs with a
   constant operand, and MUXes with a constant selector or twice the same data wire
   ([and_free], evaluated on the operands as they resolve at run time) builds a circuit with
   ZERO AND gates, whatever the outputs *)
Theorem C15_and_free_requests_zero_and : forall dedup inputs rs b hs pw outs c,
  Forall (req_ok (2 + sumN inputs)) rs ->
  and_free (new_builder dedup inputs) [] rs ->
  run_reqs (new_builder dedup inputs) [] rs = Ok (b, hs) ->
  valids b pw -> valids b outs -> build b pw outs = Ok c ->
  and_gates c = 0.
Proof. exact and_free_requests_zero_and. Qed.
Print Assumptions C15_and_free_requests_zero_and.

(* ---- folding at request level ---- *)

(* 5a. requests whose raw operands are all constants (the others being earlier results of
   such requests) never create a gate and only ever return constants, from ANY builder *)
Theorem C15_const_requests_no_gate : forall rs b hs b' hs',
  Forall (fun v => v <= 1) hs -> Forall req_raw_const rs -> run_reqs b hs rs = Ok (b', hs') ->
  b' = b /\ Forall (fun v => v <= 1) hs'.
Proof. exact const_requests_no_gate. Qed.
Print Assumptions C15_const_requests_no_gate.

(* 5c. the folds, for every builder state and every wire *)
Theorem C15_folding_facts : forall b x s,
  push_xor_top b x x = Ok (0, b) /\ push_and_top b x x = Ok (x, b) /\
  push_xor_top b 0 x = Ok (x, b) /\ push_xor_top b x 0 = Ok (x, b) /\
  push_and_top b 0 x = Ok (0, b) /\ push_and_top b x 0 = Ok (0, b) /\
  push_and_top b 1 x = Ok (x, b) /\ push_and_top b x 1 = Ok (x, b) /\
  push_or b x x = Ok (x, b) /\ push_eq b x x = Ok (1, b) /\ push_mux b s x x = Ok (x, b).
Proof. exact folding_facts. Qed.
Print Assumptions C15_folding_facts.

(* ---- non-vacuity and sharpness: concrete request lists (each also run against the real
   CircuitBuilder by tools/c15.py, job ids d0..d6) ---- *)

(* hypotheses satisfiable; a dead gate (And(3,4)) is stored and pruned, the rest renumbered *)
Theorem C15_pruning_example :
  let rs := [RAnd (Raw 2) (Raw 3); RXor (Hnd 0) (Raw 4); RAnd (Raw 3) (Raw 4); RNot (Hnd 1)] in
  Forall (req_ok (2 + sumN [3])) rs /\
  c15_run true [3] rs [Hnd 3] =
    Some ([BAnd 2 3; BXor 5 4; BAnd 3 4; BXor 6 1],
          [GXor 0 0; GNot 3; GAnd 0 1; GXor 5 2; GNot 6], [7], 1).
Proof. split; [repeat constructor|vm_compute; reflexivity]. Qed.
Print Assumptions C15_pruning_example.

(* dedup off: two ANDs with the same operand pair survive (C15_and_unique needs dedup) *)
Theorem C15_nodedup_and_dup_example :
  c15_run false [2] [RAnd (Raw 2) (Raw 3); RAnd (Raw 3) (Raw 2)] [Hnd 0; Hnd 1] =
    Some ([BAnd 2 3; BAnd 3 2], [GXor 0 0; GNot 2; GAnd 0 1; GAnd 1 0], [4; 5], 2).
Proof. vm_compute. reflexivity. Qed.
Print Assumptions C15_nodedup_and_dup_example.

(* dedup off: the (a&b)^(a&c) rewrite applied to two copies of the same AND stores
   Xor(q,q) and an AND on it (the XOR clause of C15_no_self_operand needs dedup) *)
Theorem C15_nodedup_xor_self_example :
  c15_run false [2] [RAnd (Raw 2) (Raw 3); RAnd (Raw 2) (Raw 3); RXor (Hnd 0) (Hnd 1)] [Hnd 2] =
    Some ([BAnd 2 3; BAnd 2 3; BXor 3 3; BAnd 2 6], [GXor 0 0; GNot 2; GXor 1 1; GAnd 0 4], [5], 1).
Proof. vm_compute. reflexivity. Qed.
Print Assumptions C15_nodedup_xor_self_example.

(* dedup on: XOR gates are NOT unique -- the same rewrite pushes a second Xor(3,4) although
   one is cached (only ANDs are claimed unique) *)
Theorem C15_dedup_xor_dup_example :
  c15_run true [3] [RXor (Raw 3) (Raw 4); RAnd (Raw 2) (Raw 3); RAnd (Raw 2) (Raw 4); RXor (Hnd 1) (Hnd 2)]
    [Hnd 0; Hnd 3] =
    Some ([BXor 3 4; BAnd 2 3; BAnd 2 4; BXor 3 4; BAnd 2 8],
          [GXor 0 0; GNot 3; GXor 1 2; GXor 1 2; GAnd 0 6], [5; 7], 1).
Proof. vm_compute. reflexivity. Qed.
Print Assumptions C15_dedup_xor_dup_example.

(* the bound "xor <= 1 AND" is tight: an XOR request adds an AND gate that survives *)
Theorem C15_xor_can_add_and_example :
  let rs := [RAnd (Raw 2) (Raw 3); RAnd (Raw 2) (Raw 4); RXor (Hnd 0) (Hnd 1)] in
  reqs_cost rs = 3%nat /\
  c15_run true [3] rs [Hnd 0; Hnd 1; Hnd 2] =
    Some ([BAnd 2 3; BAnd 2 4; BXor 3 4; BAnd 2 7],
          [GXor 0 0; GNot 3; GAnd 0 1; GAnd 0 2; GXor 1 2; GAnd 0 7], [5; 6; 8], 3).
Proof. split; [reflexivity|vm_compute; reflexivity]. Qed.
Print Assumptions C15_xor_can_add_and_example.

(* an AND-free sequence with muxes, an AND and an OR on constants: zero AND gates *)
Theorem C15_and_free_example :
  let rs := [RXor (Raw 2) (Raw 3); RNot (Hnd 0); RMux (Raw 1) (Hnd 0) (Hnd 1); RAnd (Raw 1) (Hnd 2);
             ROr (Hnd 0) (Raw 0); RMux (Raw 0) (Raw 2) (Hnd 1)] in
  Forall (req_ok (2 + sumN [2])) rs /\ and_free (new_builder true [2]) [] rs /\
  c15_run true [2] rs [Hnd 1; Hnd 2; Hnd 3; Hnd 4; Hnd 5] =
    Some ([BXor 2 3; BXor 4 1; BXor 2 5], [GXor 0 0; GNot 2; GXor 0 1; GNot 4], [5; 4; 4; 4; 5], 0).
Proof.
  split; [repeat constructor|]. split; [vm_compute; tauto|vm_compute; reflexivity].
Qed.
Print Assumptions C15_and_free_example.

(* 5b. double negation: for every reachable builder and every valid wire x, negating the
   result of push_not(x) returns x itself and leaves the builder (gate store, caches,
   negated map) unchanged -- the [negated] map is symmetric and records every NOT gate *)
Theorem C15_double_negation_is_free : forall b hs x r b',
  reachable b hs -> valid b x -> push_not b x = Ok (r, b') -> push_not b' r = Ok (x, b').
Proof. exact push_not_involutive. Qed.
Print Assumptions C15_double_negation_is_free.

Theorem C15_double_negation_example :
  let rs := [RNot (Raw 2); RNot (Hnd 0); RNot (Hnd 1); RXor (Raw 2) (Raw 3); RNot (Hnd 3); RNot (Hnd 4)] in
  match run_reqs (new_builder true [2]) [] rs with
  | Ok (b, hs) => hs = [4; 2; 4; 5; 6; 5] /\ rev (b_gates_rev b) = [BXor 2 1; BXor 2 3; BXor 5 1]
  | _ => False
  end.
Proof. vm_compute. split; reflexivity. Qed.
Print Assumptions C15_double_negation_example.

(* headline, in the setting of C04_requests_then_build: ANY request sequence, dedup on or
   off, outputs chosen among constants, inputs and results, the panic record of
   PanicResult::ok(): build succeeds and its circuit has no dead gate, no constant operand,
   no AND on the same wire twice, (dedup) no duplicate AND, and at most reqs_cost ANDs *)
Theorem C15_requests_build_structure : forall dedup inputs rs outs b hs ows,
  Forall (req_ok (2 + sumN inputs)) rs -> Forall (opnd_ok (2 + sumN inputs)) outs ->
  run_reqs (new_builder dedup inputs) [] rs = Ok (b, hs) ->
  mapM (resolve hs) outs = Some ows ->
  exists c, build b panic_ok_wires ows = Ok c /\
    (forall k, 2 <= k < lenN (gates c) -> reaches c (num_inputs c + k)) /\
    (forall k g w, 2 <= k -> nthN (gates c) k = Some g -> In w (g_ops g) ->
       w <> num_inputs c /\ w <> num_inputs c + 1) /\
    (forall k x y, nthN (gates c) k = Some (GAnd x y) -> x <> y) /\
    (dedup = true -> forall k1 k2 x y x' y',
       nthN (gates c) k1 = Some (GAnd x y) -> nthN (gates c) k2 = Some (GAnd x' y') ->
       same_pair x y x' y' -> k1 = k2) /\
    and_gates c <= N.of_nat (reqs_cost rs).
Proof. exact requests_build_structure. Qed.
Print Assumptions C15_requests_build_structure.

(* ------------------------------------------------------------------ the last clause of C15, at the
   level of PROGRAMS: a third instance of the parametricity theorem of the lowering
   (Compile/ParamLower.lower_param) with an abstract "constness" operation set [kops] (a wire is a
   known constant or unknown; an operation crashes exactly when the real builder might emit an AND
   gate).  If that run of main succeeds — an executable definition of "data movement", evaluated by
   the extracted checker on every tied program — then the model of compile.rs (dedup on or off)
   emits a circuit without a single AND gate. *)
From GV Require Import Lang.Ast Compile.Lower Compile.FreeOps Compile.FreeLower.

Theorem C15_data_movement_zero_and : forall fuel dedup P kouts c,
  klower_main fuel P = Ok kouts ->
  lower_program_with fuel dedup P = Ok (LCircuit c) ->
  and_gates c = 0.
Proof. exact data_movement_circuit_zero_and. Qed.
Print Assumptions C15_data_movement_zero_and.

Theorem C15_data_movement_compiles : forall fuel dedup P kouts,
  klower_main fuel P = Ok kouts ->
  exists s outs c,
    lower_main_with fuel dedup P = Ok (PreOk s outs) /\
    StructSpec.band_count (cb s) = 0 /\
    lower_program_with fuel dedup P = Ok (LCircuit c) /\ and_gates c = 0.
Proof.
  intros fuel dedup P kouts H.
  destruct (data_movement_zero_and fuel dedup P kouts H) as (s & outs & c & H1 & H2 & _ & H3 & H4).
  exists s, outs, c. auto.
Qed.
Print Assumptions C15_data_movement_compiles.

(* non-vacuity: tuple destructuring + struct re-pack + constant-index read and write + an
   equal-width cast + loops with constant trip counts is in the class; `x & y` and a dynamic
   index are not; destructuring an enum whose tag is an INPUT is not either, and really costs
   AND gates (16 for a two-variant enum with a u8 payload): selecting a payload by a tag that is
   data is a multiplexer, not a move *)
Theorem C15_data_movement_examples :
  klower_main 50 FreeExamples.move_prog = Ok (repeat None 48) /\
  klower_main 50 FreeExamples.and_prog = Crash /\
  klower_main 50 FreeExamples.idx_prog = Crash.
Proof.
  split; [exact FreeExamples.move_prog_is_data_movement|].
  split; [exact FreeExamples.and_prog_rejected|exact FreeExamples.idx_prog_rejected].
Qed.
Print Assumptions C15_data_movement_examples.

(* ---- the structure theorems above for COMPILED circuits (Compile/LowerReach.v): the final
   builder of the model of compile.rs is [reachable], so the hypotheses [reachable b hs],
   [valids b pw], [valids b outs] of C15_const_gates ... C15_and_unique are THEOREMS about every
   circuit the compiler model returns, for every program, fuel and de-duplication flag. *)
From GV Require Import Panic.PanicRec Compile.LowerReach.

Theorem C15_compiled_builder_reachable : forall fuel dedup P s outs,
  lower_main_with fuel dedup P = Ok (PreOk s outs) ->
  exists hs,
    reachable (cb s) hs /\ b_dedup (cb s) = dedup /\
    Forall (nm (cb s) hs) (prec_wires (ps_rec (cp s)) ++ outs) /\
    valids (cb s) (prec_wires (ps_rec (cp s))) /\ valids (cb s) outs.
Proof. exact compiled_builder_reachable. Qed.
Print Assumptions C15_compiled_builder_reachable.

Theorem C15_compiled_build_total : forall fuel dedup P s outs,
  lower_main_with fuel dedup P = Ok (PreOk s outs) ->
  exists c, lower_program_with fuel dedup P = Ok (LCircuit c).
Proof. exact compiled_build_total. Qed.
Print Assumptions C15_compiled_build_total.

Theorem C15_compiled_const_gates : forall fuel dedup P c,
  lower_program_with fuel dedup P = Ok (LCircuit c) ->
  nthN (gates c) 0 = Some (GXor 0 0) /\ nthN (gates c) 1 = Some (GNot (num_inputs c)).
Proof. exact compiled_const_gates. Qed.
Print Assumptions C15_compiled_const_gates.

Theorem C15_compiled_all_used : forall fuel dedup P c,
  lower_program_with fuel dedup P = Ok (LCircuit c) ->
  forall k, 2 <= k < lenN (gates c) -> reaches c (num_inputs c + k).
Proof. exact compiled_all_used. Qed.
Print Assumptions C15_compiled_all_used.

Theorem C15_compiled_no_constant_operand : forall fuel dedup P c,
  lower_program_with fuel dedup P = Ok (LCircuit c) ->
  forall k g w, 2 <= k -> nthN (gates c) k = Some g -> In w (g_ops g) ->
    w <> num_inputs c /\ w <> num_inputs c + 1.
Proof. exact compiled_no_constant_operand. Qed.
Print Assumptions C15_compiled_no_constant_operand.

Theorem C15_compiled_no_self_operand : forall fuel dedup P c,
  lower_program_with fuel dedup P = Ok (LCircuit c) ->
  (forall k x y, nthN (gates c) k = Some (GAnd x y) -> x <> y) /\
  (dedup = true -> forall k x y, 2 <= k -> nthN (gates c) k = Some (GXor x y) -> x <> y).
Proof. exact compiled_no_self_operand. Qed.
Print Assumptions C15_compiled_no_self_operand.

Theorem C15_compiled_and_unique : forall fuel dedup P c,
  lower_program_with fuel dedup P = Ok (LCircuit c) ->
  dedup = true ->
  forall k1 k2 x y x' y',
    nthN (gates c) k1 = Some (GAnd x y) -> nthN (gates c) k2 = Some (GAnd x' y') ->
    same_pair x y x' y' -> k1 = k2.
Proof. exact compiled_and_unique. Qed.
Print Assumptions C15_compiled_and_unique.

(* non-vacuity: a program with comparator, adder, divider, bitwise AND, if-muxes and panics
   compiles (553 gates / 225 AND with de-duplication, 641 / 262 without) *)
Theorem C15_compiled_example :
  ReachExamples.summary (lower_program_with 50 true ReachExamples.arith_prog) <> None /\
  ReachExamples.summary (lower_program_with 50 false ReachExamples.arith_prog) <> None.
Proof. exact ReachExamples.arith_prog_compiles. Qed.
