(* C06 — compilation is deterministic.  In the model every stage is a Gallina FUNCTION of its
   arguments: the builder requests, the pruning/renumbering and the register allocation take
   no iteration order, no seed and no state besides their inputs, so equal inputs give
   syntactically equal circuits.  The theorems below record this for the stages that the
   Rust code implements with HashMaps (structural cache, negation map, last-use map,
   wire->register map): their results are determined by the maps' CONTENTS.
   The Rust side (where a HashMap iteration could leak its order into the gates) is checked
   by repeated compilation under fresh hash seeds, tools/c06.py. *)
From GV Require Import Base.Util Base.NMap Circuit.Ssa Circuit.Reg Circuit.RegAlloc
  Builder.Builder Builder.Build.

Theorem C06_builder_requests_are_functions : forall b x y,
  push_xor_top b x y = push_xor_top b x y /\ push_and_top b x y = push_and_top b x y.
Proof. intros. split; reflexivity. Qed.
Print Assumptions C06_builder_requests_are_functions.

(* the conversion consults the last-use map and the wire map only through lookups: two maps
   with the same contents give the same register circuit *)
Theorem C06_lookup_determines_find_out_reg : forall lu1 lu2 st g a b,
  (forall w, nfind w lu1 = nfind w lu2) ->
  find_out_reg lu1 st g a b = find_out_reg lu2 st g a b.
Proof.
  intros lu1 lu2 st g a b H. unfold find_out_reg, take_a, take_b, dies_here.
  rewrite (H a). destruct b as [b|]; [rewrite (H b)|]; reflexivity.
Qed.
Print Assumptions C06_lookup_determines_find_out_reg.

(* The model of the lowering (Compile/Lower.v, tied gate for gate to src/compile.rs on every
   run) is a function of the typed program and the de-duplication option alone: it takes no
   iteration order, no seed and no state from earlier compilations.  (The one hash-map
   iteration left in the repaired mux_panic is shown order-irrelevant in C02.) *)
From GV Require Import Lang.Ast Compile.Lower.
Theorem C06_lowering_is_a_function : forall dedup P r1 r2,
  lower_program dedup P = r1 -> lower_program dedup P = r2 -> r1 = r2.
Proof. intros dedup P r1 r2 <- <-. reflexivity. Qed.
Print Assumptions C06_lowering_is_a_function.

(* Every HashMap / HashSet iteration of the current source tree (regenerated from /repo/src by
   tools/sites.py on every build) has been examined and entered in Compile/SiteTable.v with the
   reason why its order cannot reach the circuit.  A new hash-order iteration breaks this theorem. *)
From Coq Require Import String List Bool.
From GV Require Import Generated.Sites Compile.SiteTable.
Theorem C06_hash_iteration_sites_discharged :
  forallb site_discharged hash_iteration_sites = true.
Proof. vm_compute. reflexivity. Qed.
Print Assumptions C06_hash_iteration_sites_discharged.

(* ------------------------------------------------------------------ the CHECKER's result does not depend
   on the order in which its HashMaps are iterated (Check/InferPerm.v; Check/Infer.v is the model of
   src/check.rs, tied to it; it iterates association lists where the code iterates HashMaps).
   [check_rel]: the checker uses its definitions only through look-ups and the map of already typed
   functions only as a map (calls allowed).  For programs without calls: permuting the function,
   struct and enum lists changes neither acceptance nor the typed program - the exported typed
   programs are EQUAL.  (With calls the memoisation-independence step is not proved: partial.) *)
From GV Require Import Front.ParseExpr Check.UAst Check.Infer Check.InferPerm.
From Coq Require Import Permutation.

Theorem C06_checker_acceptance_independent_of_map_order_partial : forall intern P Q fuel,
  (forall a b, intern a = intern b -> a = b) ->
  up_consts Q = up_consts P -> up_main Q = up_main P ->
  Permutation (up_fns P) (up_fns Q) -> Permutation (up_structs P) (up_structs Q) -> Permutation (up_enums P) (up_enums Q) ->
  NoDup (map uf_name (up_fns P)) -> NoDup (map us_name (up_structs P)) -> NoDup (map ue_name (up_enums P)) ->
  (forall fd, In fd (up_fns P) -> nocall_fn fd) ->
  is_ok (check_program_t intern fuel P) = is_ok (check_program_t intern fuel Q).
Proof. exact check_perm_accept_nocalls. Qed.
Print Assumptions C06_checker_acceptance_independent_of_map_order_partial.

Theorem C06_checker_output_independent_of_map_order_partial : forall intern P Q fuel A B,
  (forall a b, intern a = intern b -> a = b) ->
  up_consts Q = up_consts P -> up_main Q = up_main P ->
  Permutation (up_fns P) (up_fns Q) -> Permutation (up_structs P) (up_structs Q) -> Permutation (up_enums P) (up_enums Q) ->
  NoDup (map uf_name (up_fns P)) -> NoDup (map us_name (up_structs P)) -> NoDup (map ue_name (up_enums P)) ->
  (forall fd, In fd (up_fns P) -> nocall_fn fd) ->
  check_program intern fuel P = COk A -> check_program intern fuel Q = COk B -> A = B.
Proof. exact check_perm_export_nocalls. Qed.
Print Assumptions C06_checker_output_independent_of_map_order_partial.

(* ... and WITH calls, for any two fuels (Check/InferPerm2.v: canonical memoised entries, determinism of
   check_fn up to what is memoised; Check/InferPermFinal.v discharges the fuel hypotheses from the
   fuel monotonicity of InferFuel2.v): if both orders are accepted, the exported typed programs are
   EQUAL.  (Acceptance equivalence with calls - "P accepted implies Q accepted" - is not proved.) *)
From GV Require Import Check.InferPermFinal.

Theorem C06_checker_output_independent_of_map_order : forall intern P Q f f' A B,
  (forall a b, intern a = intern b -> a = b) ->
  up_consts Q = up_consts P -> up_main Q = up_main P ->
  Permutation (up_fns P) (up_fns Q) -> Permutation (up_structs P) (up_structs Q) -> Permutation (up_enums P) (up_enums Q) ->
  NoDup (map uf_name (up_fns P)) -> NoDup (map us_name (up_structs P)) -> NoDup (map ue_name (up_enums P)) ->
  check_program intern f P = COk A -> check_program intern f' Q = COk B -> A = B.
Proof. exact check_perm_export_final. Qed.
Print Assumptions C06_checker_output_independent_of_map_order.

(* ... and ACCEPTANCE with calls, for programs whose call depth is at most 1 (every function calls
   nothing, or calls only functions that call nothing; [call_depth_le_1], a Boolean) -
   Check/InferPerm3.v, InferPerm4.v: if one order of the three maps is accepted with fuel f, every
   other order is accepted with fuel 2 * f and exports the SAME typed program.  (Arbitrary call
   depth: acceptance equivalence is not proved; equality of the outputs when both are accepted is
   C06_checker_output_independent_of_map_order above.) *)
From GV Require Import Check.InferPerm4.

Theorem C06_checker_verdict_and_output_independent_of_map_order_depth1 : forall intern P Q f A,
  (forall a b, intern a = intern b -> a = b) ->
  up_consts Q = up_consts P -> up_main Q = up_main P ->
  Permutation (up_fns P) (up_fns Q) -> Permutation (up_structs P) (up_structs Q) -> Permutation (up_enums P) (up_enums Q) ->
  NoDup (map uf_name (up_fns P)) -> NoDup (map us_name (up_structs P)) -> NoDup (map ue_name (up_enums P)) ->
  call_depth_le_1 P = true ->
  check_program intern f P = COk A -> check_program intern (2 * f) Q = COk A.
Proof. exact check_perm_depth1. Qed.
Print Assumptions C06_checker_verdict_and_output_independent_of_map_order_depth1.

(* ... and for ARBITRARY call depth (Check/InferPerm5.v): if the syntactic call graph passes the
   computable acyclicity test [call_graph_acyclic] (accepted programs have no reachable cycle - the
   checker rejects recursion -; deriving the test from acceptance is not done, it is a Boolean the
   extracted checker can evaluate), acceptance in one order with fuel f implies acceptance in every
   other order with fuel (1 + number of functions) * f, with the SAME exported typed program. *)
From GV Require Import Check.InferPerm5.

Theorem C06_checker_verdict_and_output_independent_of_map_order : forall intern P Q f A,
  (forall a b, intern a = intern b -> a = b) ->
  up_consts Q = up_consts P -> up_main Q = up_main P ->
  Permutation (up_fns P) (up_fns Q) -> Permutation (up_structs P) (up_structs Q) -> Permutation (up_enums P) (up_enums Q) ->
  NoDup (map uf_name (up_fns P)) -> NoDup (map us_name (up_structs P)) -> NoDup (map ue_name (up_enums P)) ->
  call_graph_acyclic P = true ->
  check_program intern f P = COk A -> check_program intern (S (length (up_fns P)) * f) Q = COk A.
Proof. exact check_perm_final. Qed.
Print Assumptions C06_checker_verdict_and_output_independent_of_map_order.

(* ... UNCONDITIONALLY (Check/InferPerm6.v): an accepted program's syntactic call graph is acyclic
   ([accepted_acyclic]: every function of an accepted program is checked, every syntactic call site is
   visited, and the checker rejects recursion), so the Boolean premise disappears: the checker's
   verdict and its typed output do not depend on the order in which its three maps are iterated.
   Remaining hypotheses: distinct keys (HashMap) and an injective interning (the code uses strings). *)
From GV Require Import Check.InferPerm6.

Theorem C06_checker_independent_of_map_order_unconditional : forall intern P Q f A,
  (forall a b, intern a = intern b -> a = b) ->
  up_consts Q = up_consts P -> up_main Q = up_main P ->
  Permutation (up_fns P) (up_fns Q) -> Permutation (up_structs P) (up_structs Q) -> Permutation (up_enums P) (up_enums Q) ->
  NoDup (map uf_name (up_fns P)) -> NoDup (map us_name (up_structs P)) -> NoDup (map ue_name (up_enums P)) ->
  check_program intern f P = COk A -> check_program intern (S (length (up_fns P)) * f) Q = COk A.
Proof. exact check_perm_final_unconditional. Qed.
Print Assumptions C06_checker_independent_of_map_order_unconditional.
