(* C17 — ill-typed programs are rejected.  The documented static rules are the boolean
   re-checker Lang/Wt.v.  Pinned here: the re-checker rejects one tree per rule family
   (so the rules are really in it) and accepts a well-typed tree. *)
From GV Require Import Base.Util Lang.Ast Lang.Wt.
Open Scope N_scope.

Definition m0 := mkMeta 0 0 0 0.
Definition u8 := TInt false 8.
Definition u16 := TInt false 16.
Definition lit8 (n : N) := Ex (ENumU n 8) m0 u8.
Definition prog_of (body : list stmt) : program := mkProgram [] [] [mkFn 9 [(0, u8)] u8 body] [] 9.
Definition ret0 := St (SExpr (Ex (EId 0) m0 u8)) m0.

Theorem C17_wt_accepts_well_typed :
  wt_program (prog_of [St (SLet (Pat (PId 1) m0 u8) (Ex (EOp OAdd (lit8 1) (Ex (EId 0) m0 u8)) m0 u8)) m0; ret0]) = true.
Proof. vm_compute. reflexivity. Qed.
Print Assumptions C17_wt_accepts_well_typed.

Theorem C17_wt_rejects :
  (* operand types disagree *)
  wt_program (prog_of [St (SLet (Pat (PId 1) m0 u8) (Ex (EOp OAdd (lit8 1) (Ex (ENumU 1 8) m0 u16)) m0 u8)) m0; ret0]) = false /\
  (* non-Boolean condition *)
  wt_program (prog_of [St (SExpr (Ex (EIf (lit8 7) (lit8 1) (lit8 2)) m0 u8)) m0]) = false /\
  (* unknown identifier *)
  wt_program (prog_of [St (SExpr (Ex (EId 5) m0 u8)) m0]) = false /\
  (* assignment to an immutable binding *)
  wt_program (prog_of [St (SLet (Pat (PId 1) m0 u8) (lit8 1)) m0; St (SAssign 1 [] (lit8 2)) m0; ret0]) = false /\
  (* out-of-scope identifier *)
  wt_program (prog_of [St (SExpr (Ex (EBlock [St (SLet (Pat (PId 1) m0 u8) (lit8 1)) m0]) m0 (TTup []))) m0;
                       St (SExpr (Ex (EId 1) m0 u8)) m0]) = false /\
  (* wrong number of arguments *)
  wt_program (mkProgram [] [] [mkFn 9 [(0, u8)] u8 [St (SExpr (Ex (ECall 8 [lit8 1; lit8 2]) m0 u8)) m0];
                              mkFn 8 [(0, u8)] u8 [ret0]] [] 9) = false /\
  (* return type disagrees *)
  wt_program (prog_of [St (SExpr (Ex ETrue m0 TBool)) m0]) = false.
Proof. vm_compute. repeat split; reflexivity. Qed.
Print Assumptions C17_wt_rejects.

(* ------------------------------------------------------------------------------------
   General rejection lemmas (Lang/WtRules.v): a tree that violates a rule at its root is
   rejected for every program, context and fuel; and what acceptance guarantees
   (Lang/WtSound.v): an accepted program never reaches a typing inconsistency at run time. *)
From GV Require Import Lang.Sem Lang.ValTy Lang.WtSound Lang.WtRules.

Theorem C17_rejects_unbound : forall fw P g x m t,
  tlookup g x = None -> wt_expr fw P g (Ex (EId x) m t) = false.
Proof. exact wt_rejects_unbound. Qed.
Print Assumptions C17_rejects_unbound.

Theorem C17_rejects_operands : forall fw P g o x y m t,
  wtop o t (e_ty x) (e_ty y) = false -> wt_expr fw P g (Ex (EOp o x y) m t) = false.
Proof. exact wt_rejects_operands. Qed.
Print Assumptions C17_rejects_operands.

Theorem C17_rejects_arith_mismatch : forall fw P g o x y m t,
  In o [OAdd; OSub; OMul; ODiv; OMod] ->
  ty_eqb (e_ty x) t = false \/ ty_eqb (e_ty y) t = false \/ is_int t = false ->
  wt_expr fw P g (Ex (EOp o x y) m t) = false.
Proof. exact wt_rejects_arith_mismatch. Qed.
Print Assumptions C17_rejects_arith_mismatch.

Theorem C17_rejects_compare_mismatch : forall fw P g o x y m t,
  In o [OEq; ONe; OLt; OGt] -> ty_eqb (e_ty x) (e_ty y) = false ->
  wt_expr fw P g (Ex (EOp o x y) m t) = false.
Proof. exact wt_rejects_compare_mismatch. Qed.
Print Assumptions C17_rejects_compare_mismatch.

Theorem C17_rejects_nonbool_cond : forall fw P g c a b m t,
  is_bool (e_ty c) = false -> wt_expr fw P g (Ex (EIf c a b) m t) = false.
Proof. exact wt_rejects_nonbool_cond. Qed.
Print Assumptions C17_rejects_nonbool_cond.

Theorem C17_rejects_branch_mismatch : forall fw P g c a b m t,
  ty_eqb (e_ty a) t = false \/ ty_eqb (e_ty b) t = false ->
  wt_expr fw P g (Ex (EIf c a b) m t) = false.
Proof. exact wt_rejects_branch_mismatch. Qed.
Print Assumptions C17_rejects_branch_mismatch.

Theorem C17_rejects_arm_mismatch : forall fw P g s arms m t arm,
  In arm arms ->
  ty_eqb (e_ty (snd arm)) t = false \/ ty_eqb (p_ty (fst arm)) (e_ty s) = false ->
  wt_expr fw P g (Ex (EMatch s arms) m t) = false.
Proof. exact wt_rejects_arm_mismatch. Qed.
Print Assumptions C17_rejects_arm_mismatch.

Theorem C17_rejects_immutable_assign : forall fw P g x accs e m,
  (forall tx, tlookup g x <> Some (tx, true)) ->
  wt_stmt fw P g (St (SAssign x accs e) m) = None.
Proof. exact wt_rejects_immutable_assign. Qed.
Print Assumptions C17_rejects_immutable_assign.

Theorem C17_rejects_arity : forall fw P g fn args m t d,
  find_fn P fn = Some d -> length args <> length (fn_params d) ->
  wt_expr fw P g (Ex (ECall fn args) m t) = false.
Proof. exact wt_rejects_arity. Qed.
Print Assumptions C17_rejects_arity.

Theorem C17_rejects_unknown_fn : forall fw P g fn args m t,
  find_fn P fn = None -> wt_expr fw P g (Ex (ECall fn args) m t) = false.
Proof. exact wt_rejects_unknown_fn. Qed.
Print Assumptions C17_rejects_unknown_fn.

(* rejection propagates: statement -> enclosing block -> function -> program *)
Theorem C17_block_rejects : forall fw P s pre post,
  (forall f g, wt_stmt f P g s = None) -> forall g, wt_block fw P g (pre ++ s :: post) = None.
Proof. exact wt_block_rejects. Qed.
Print Assumptions C17_block_rejects.

Theorem C17_program_rejects_fn : forall P d,
  In d (p_fns P) -> wt_fn P (consts_tenv P) d = false -> wt_program P = false.
Proof. exact wt_program_rejects_fn. Qed.
Print Assumptions C17_program_rejects_fn.

(* what acceptance excludes: evaluation of an accepted expression in a typed environment
   never reaches "unbound identifier", "operand of the wrong shape", "wrong arity", ...
   (every Stuck code of Sem.v except the pattern-match / join codes [stuck_allowed]) *)
Theorem C17_accepted_never_inconsistent : forall P n fw g e en c,
  wt_program P = true -> wt_expr fw P g e = true -> genv P g -> env_ok P (scopes en) g ->
  eval n P en e = Stuck c -> In c stuck_allowed.
Proof.
  intros P n fw g e en c Hwt Hw Hg He Hs.
  pose proof (wt_sound_expr P false Hwt (fun H => False_ind _ (Bool.diff_false_true H)) n fw g e en Hw
                (fun H => False_ind _ (Bool.diff_false_true H)) Hg He) as H.
  rewrite Hs in H. exact (proj1 H).
Qed.
Print Assumptions C17_accepted_never_inconsistent.

(* the unsound acceptances of the previous re-checker are now rejected (witnesses found
   while proving soundness: duplicate parameter names, a constant initialised by a call,
   a join loop over non-arrays, duplicate constant names) *)
Theorem C17_wt_rejects_former_unsound :
  wt_program (mkProgram [] [] [mkFn 9 [(0, u8); (0, TBool)] u8 [ret0]] [] 9) = false /\
  wt_program (mkProgram [] [] [mkFn 9 [(0, u8)] u8 [ret0]; mkFn 8 [(0, u8)] u8 [St (SExpr (Ex (EId 5) m0 u8)) m0]]
                        [(4, Ex (ECall 8 [lit8 1]) m0 u8); (5, lit8 2)] 9) = false /\
  wt_program (prog_of [St (SJoinLoop (Pat (PId 1) m0 TBool) u8 (Ex (EId 0) m0 u8) (Ex (EId 0) m0 u8) []) m0; ret0]) = false /\
  wt_program (mkProgram [] [] [mkFn 9 [(0, u8)] u8 [St (SExpr (Ex (EId 5) m0 u8)) m0]]
                        [(5, lit8 2); (5, Ex ETrue m0 TBool)] 9) = false.
Proof. vm_compute. repeat split; reflexivity. Qed.
Print Assumptions C17_wt_rejects_former_unsound.

(* ------------------------------------------------------------------ the REAL checker (Check/Infer.v:
   a function-by-function model of src/check.rs, tied to garble_lang::check on every run: same
   typed program or both reject).  Unlike the reference rules Wt.v above, these theorems are about
   the algorithm the code runs (inference of unsuffixed literals, unify / constrain_type, Env). *)
From GV Require Import Front.Scan Front.ParseExpr Check.UAst Check.Infer Check.InferExamples Check.InferProofs.

(* SCOPING: checking an expression leaves the environment exactly as it was - whatever a block, a
   branch, a match arm, a loop body or a called function binds (or shadows, or declares mutable) is
   gone afterwards; statements only change the innermost scope; a function check restores the
   caller's environment. *)
Theorem C17_checker_scoping : forall intern f D,
  (forall st e r, check_expr intern f D st e = COk r -> st_env (snd r) = st_env st) /\
  (forall st b r, check_stmts intern f D st b = COk r -> tl (st_env (snd r)) = tl (st_env st)) /\
  (forall st b r, check_block intern f D st b = COk r -> tl (st_env (snd r)) = tl (st_env st)) /\
  (forall st s r, check_stmt intern f D st s = COk r -> tl (st_env (snd r)) = tl (st_env st)) /\
  (forall st fd r, check_fn intern f D st fd = COk r -> st_env (snd r) = st_env st).
Proof. exact check_env. Qed.
Print Assumptions C17_checker_scoping.

Theorem C17_checker_scope_does_not_leak : forall intern f D st e e' st' x,
  check_expr intern f D st e = COk (e', st') -> env_get (st_env st') x = env_get (st_env st) x.
Proof. exact scope_does_not_leak. Qed.
Print Assumptions C17_checker_scope_does_not_leak.

Theorem C17_checker_for_does_not_leak : forall intern f D st p e body s' st',
  check_stmt intern f D st (XSForEach p e body) = COk (s', st') -> st_env st' = st_env st.
Proof. exact for_does_not_leak. Qed.
Print Assumptions C17_checker_for_does_not_leak.

Theorem C17_checker_unbound_after_block : forall intern f f' D st b e' st' x,
  check_expr intern f D st (XBlock b) = COk (e', st') ->
  env_get (st_env st) x = None -> assocL x (d_consts D) = None ->
  check_expr intern (S f') D st' (XIdentifier x) = CErr E_UnknownIdentifier.
Proof. exact unbound_after_block. Qed.
Print Assumptions C17_checker_unbound_after_block.

(* the local rules (in every state in which the sub-expressions are accepted) *)
Theorem C17_checker_rejects_non_bool_condition : forall intern f D st c a b c1 st1,
  check_expr intern f D st c = COk (c1, st1) -> ty_of c1 <> CBool ->
  is_ok (check_expr intern (S f) D st (XIf c a b)) = false.
Proof. exact if_cond_not_bool_rejected. Qed.
Print Assumptions C17_checker_rejects_non_bool_condition.

Theorem C17_checker_rejects_operand_mismatch : forall intern f D st op x y x1 st1 y1 st2,
  uses_unify op = true ->
  check_expr intern f D st x = COk (x1, st1) -> check_expr intern f D st1 y = COk (y1, st2) ->
  unify_compat (ty_of x1) (ty_of y1) = false ->
  check_expr intern (S f) D st (XOp op x y) = CErr E_TypeMismatch.
Proof. exact operands_differ_rejected. Qed.
Print Assumptions C17_checker_rejects_operand_mismatch.

Theorem C17_checker_rejects_assignment_to_immutable : forall intern f D st x accs v t,
  env_get (st_env st) x = Some (t, false) ->
  check_stmt intern (S f) D st (XSVarAssign x accs v) = CErr E_IdentifierNotDeclaredAsMutable.
Proof. exact assign_immutable_rejected. Qed.
Print Assumptions C17_checker_rejects_assignment_to_immutable.

Theorem C17_checker_rejects_index_not_usize : forall intern f D st a i a1 st1 i1 st2,
  check_expr intern f D st a = COk (a1, st1) -> check_expr intern f D st1 i = COk (i1, st2) ->
  ty_of i1 <> CUnsigned Usize -> ty_of i1 <> CUnsigned UnspecifiedU ->
  is_ok (check_expr intern (S f) D st (XArrayAccess a i)) = false.
Proof. exact index_not_usize_rejected. Qed.
Print Assumptions C17_checker_rejects_index_not_usize.

(* the checker is NOT sound for the reference rules (the recorded re-typing defect of unsuffixed
   literals, known finding of C05): three accepted programs whose typed tree Wt.v rejects (a fourth, `let y = 1 + 2 + x; y`, was repaired by fix 64720dd: compound expressions are constrained deeply) *)
Theorem C17_checker_soundness_refuted :
  forall P, In P [P_retype; P_retype3; P_big] ->
  exists P', check_program ex_intern 50 P = COk P' /\ Wt.wt_program P' = false.
Proof. exact check_sound_refuted. Qed.
Print Assumptions C17_checker_soundness_refuted.

(* ---- lifting to EVERY syntactic context (Check/InferSub.v): an accepted program has accepted every
   expression and statement of every function (in some state of the checker); hence a node that can
   never be accepted makes the whole program rejected wherever it occurs - in nested blocks, branches,
   match arms, loop bodies, call arguments, accessor indices, callees. *)
From GV Require Import Check.InferSub.

Theorem C17_checker_accepted_means_every_node_accepted : forall intern fuel P T,
  NoDup (map uf_name (up_fns P)) ->
  check_program_t intern fuel P = COk T ->
  exists D, d_fns D = up_fns P /\ forall n, occurs n P -> acc intern D n.
Proof. exact accepted_all_nodes. Qed.
Print Assumptions C17_checker_accepted_means_every_node_accepted.

Theorem C17_checker_rejects_program_with_unacceptable_node : forall intern fuel P n,
  NoDup (map uf_name (up_fns P)) -> occurs n P ->
  (forall D, d_fns D = up_fns P -> never_ok intern D n) ->
  is_ok (check_program_t intern fuel P) = false /\ is_ok (check_program intern fuel P) = false.
Proof. exact node_never_ok_program_rejected. Qed.
Print Assumptions C17_checker_rejects_program_with_unacceptable_node.

Theorem C17_checker_rejects_non_bool_condition_anywhere : forall intern fuel P c a b,
  NoDup (map uf_name (up_fns P)) -> occurs (NE (XIf c a b)) P ->
  (forall D, d_fns D = up_fns P -> always_ty intern D c (fun t => t <> CBool)) ->
  is_ok (check_program intern fuel P) = false.
Proof. exact if_cond_never_bool_rejected. Qed.
Print Assumptions C17_checker_rejects_non_bool_condition_anywhere.

Theorem C17_checker_rejects_operand_mismatch_anywhere : forall intern fuel P op x y (bx by_ : cty -> Prop),
  NoDup (map uf_name (up_fns P)) -> occurs (NE (XOp op x y)) P -> uses_unify op = true ->
  (forall D, d_fns D = up_fns P -> always_ty intern D x bx /\ always_ty intern D y by_) ->
  (forall t1 t2, bx t1 -> by_ t2 -> unify_compat t1 t2 = false) ->
  is_ok (check_program intern fuel P) = false.
Proof. exact operands_never_unify_rejected. Qed.
Print Assumptions C17_checker_rejects_operand_mismatch_anywhere.

Theorem C17_checker_rejects_non_usize_index_anywhere : forall intern fuel P a i,
  NoDup (map uf_name (up_fns P)) -> occurs (NE (XArrayAccess a i)) P ->
  (forall D, d_fns D = up_fns P -> always_ty intern D i (fun t => t <> CUnsigned Usize /\ t <> CUnsigned UnspecifiedU)) ->
  is_ok (check_program intern fuel P) = false.
Proof. exact index_never_usize_rejected. Qed.
Print Assumptions C17_checker_rejects_non_usize_index_anywhere.

(* purely syntactic instances: `if <number> ..`, `-true`, `-<unsigned literal>`, `a[true]`, a unifying
   operator on a Boolean and a number literal, `x << true`, anywhere in the program *)
Theorem C17_checker_rejects_literal_type_errors_anywhere : forall intern fuel P n,
  NoDup (map uf_name (up_fns P)) -> occurs n P -> bad_node n = true ->
  is_ok (check_program_t intern fuel P) = false /\ is_ok (check_program intern fuel P) = false.
Proof. exact contains_bad_node_rejected. Qed.
Print Assumptions C17_checker_rejects_literal_type_errors_anywhere.

(* ---- soundness for the reference rules, partial (Check/InferSound.v): on typed trees without
   Unspecified types the inference machinery is the identity, and accepted expressions / blocks of a
   small fragment are well typed in the sense of Wt.v *)
From GV Require Import Check.InferSound.

Theorem C17_checker_check_type_is_identity_on_concrete_trees_partial : forall f e t e',
  check_type f e t = COk e' -> conc_e e = true -> e' = e /\ ty_of e = t.
Proof. exact check_type_conc. Qed.
Print Assumptions C17_checker_check_type_is_identity_on_concrete_trees_partial.

(* ---- SOUNDNESS for the reference rules, at program level, for a Boolean fragment of the untyped
   program (Check/InferSound.v, [in_sound_fragment], evaluated per program by the extracted checker in
   the tie): names of consts / structs / enums / functions pairwise distinct (HashMap keys); consts are
   literals of exactly their declared type; field, payload, parameter and return types concrete (no
   const-sized arrays); every number literal and range suffixed and in the range of its suffix;
   everything else of the language EXCEPT join / join_iter and `[e; N]` with a const size: all
   operators, casts, if, blocks, arrays, tuples, ranges, struct and enum literals, field access, calls
   (several functions, pub or not), match with every pattern form, let / let mut with annotations,
   assignment through all accessors, for.  For such a program: accepted by the (model of the) real
   checker => the typed program satisfies the reference rules Wt.v, hence (C17_accepted_never_
   inconsistent) never reaches a typing inconsistency in Sem.v.  Outside: programs with unsuffixed
   literals (where soundness is FALSE: C17_checker_soundness_refuted). *)
Theorem C17_checker_sound_on_the_suffixed_fragment_partial : forall intern : list N -> N,
  (forall a b, intern a = intern b -> a = b) ->
  forall fuel P P',
    in_sound_fragment P = true -> (fuel <= S Wt.wt_fuel)%nat ->
    check_program intern fuel P = COk P' -> Wt.wt_program P' = true.
Proof. exact check_sound_fragment. Qed.
Print Assumptions C17_checker_sound_on_the_suffixed_fragment_partial.
