(* C17 — ill-typed programs are rejected.  The documented static rules are the boolean
   re-checker Lang/Wt.v.  Pinned here: the re-checker rejects one tree per rule family
   (so the rules are really in it) and accepts a well-typed tree. *)
From GV Require Import Base.Util Lang.Ast Lang.Wt.
Open Scope N_scope.

Definition m0 := mkMeta 0 0 0 0.
Definition u8 := TInt false 8.
Definition u16 := TInt false 16.
Definition lit8 (n : N) := Ex (ENumU n 8) m0 u8.
Definition prog_of (body : list stmt) : program := mkProgram [] [] [mkFn 9 [(0, u8)] u8 body] [] 9.
Definition ret0 := St (SExpr (Ex (EId 0) m0 u8)) m0.

Theorem C17_wt_accepts_well_typed :
  wt_program (prog_of [St (SLet (Pat (PId 1) m0 u8) (Ex (EOp OAdd (lit8 1) (Ex (EId 0) m0 u8)) m0 u8)) m0; ret0]) = true.
Proof. vm_compute. reflexivity. Qed.
Print Assumptions C17_wt_accepts_well_typed.

Theorem C17_wt_rejects :
  (* operand types disagree *)
  wt_program (prog_of [St (SLet (Pat (PId 1) m0 u8) (Ex (EOp OAdd (lit8 1) (Ex (ENumU 1 8) m0 u16)) m0 u8)) m0; ret0]) = false /\
  (* non-Boolean condition *)
  wt_program (prog_of [St (SExpr (Ex (EIf (lit8 7) (lit8 1) (lit8 2)) m0 u8)) m0]) = false /\
  (* unknown identifier *)
  wt_program (prog_of [St (SExpr (Ex (EId 5) m0 u8)) m0]) = false /\
  (* assignment to an immutable binding *)
  wt_program (prog_of [St (SLet (Pat (PId 1) m0 u8) (lit8 1)) m0; St (SAssign 1 [] (lit8 2)) m0; ret0]) = false /\
  (* out-of-scope identifier *)
  wt_program (prog_of [St (SExpr (Ex (EBlock [St (SLet (Pat (PId 1) m0 u8) (lit8 1)) m0]) m0 (TTup []))) m0;
                       St (SExpr (Ex (EId 1) m0 u8)) m0]) = false /\
  (* wrong number of arguments *)
  wt_program (mkProgram [] [] [mkFn 9 [(0, u8)] u8 [St (SExpr (Ex (ECall 8 [lit8 1; lit8 2]) m0 u8)) m0];
                              mkFn 8 [(0, u8)] u8 [ret0]] [] 9) = false /\
  (* return type disagrees *)
  wt_program (prog_of [St (SExpr (Ex ETrue m0 TBool)) m0]) = false.
Proof. vm_compute. repeat split; reflexivity. Qed.
Print Assumptions C17_wt_rejects.

(* ------------------------------------------------------------------------------------
   General rejection lemmas (Lang/WtRules.v): a tree that violates a rule at its root is
   rejected for every program, context and fuel; and what acceptance guarantees
   (Lang/WtSound.v): an accepted program never reaches a typing inconsistency at run time. *)
From GV Require Import Lang.Sem Lang.ValTy Lang.WtSound Lang.WtRules.

Theorem C17_rejects_unbound : forall fw P g x m t,
  tlookup g x = None -> wt_expr fw P g (Ex (EId x) m t) = false.
Proof. exact wt_rejects_unbound. Qed.
Print Assumptions C17_rejects_unbound.

Theorem C17_rejects_operands : forall fw P g o x y m t,
  wtop o t (e_ty x) (e_ty y) = false -> wt_expr fw P g (Ex (EOp o x y) m t) = false.
Proof. exact wt_rejects_operands. Qed.
Print Assumptions C17_rejects_operands.

Theorem C17_rejects_arith_mismatch : forall fw P g o x y m t,
  In o [OAdd; OSub; OMul; ODiv; OMod] ->
  ty_eqb (e_ty x) t = false \/ ty_eqb (e_ty y) t = false \/ is_int t = false ->
  wt_expr fw P g (Ex (EOp o x y) m t) = false.
Proof. exact wt_rejects_arith_mismatch. Qed.
Print Assumptions C17_rejects_arith_mismatch.

Theorem C17_rejects_compare_mismatch : forall fw P g o x y m t,
  In o [OEq; ONe; OLt; OGt] -> ty_eqb (e_ty x) (e_ty y) = false ->
  wt_expr fw P g (Ex (EOp o x y) m t) = false.
Proof. exact wt_rejects_compare_mismatch. Qed.
Print Assumptions C17_rejects_compare_mismatch.

Theorem C17_rejects_nonbool_cond : forall fw P g c a b m t,
  is_bool (e_ty c) = false -> wt_expr fw P g (Ex (EIf c a b) m t) = false.
Proof. exact wt_rejects_nonbool_cond. Qed.
Print Assumptions C17_rejects_nonbool_cond.

Theorem C17_rejects_branch_mismatch : forall fw P g c a b m t,
  ty_eqb (e_ty a) t = false \/ ty_eqb (e_ty b) t = false ->
  wt_expr fw P g (Ex (EIf c a b) m t) = false.
Proof. exact wt_rejects_branch_mismatch. Qed.
Print Assumptions C17_rejects_branch_mismatch.

Theorem C17_rejects_arm_mismatch : forall fw P g s arms m t arm,
  In arm arms ->
  ty_eqb (e_ty (snd arm)) t = false \/ ty_eqb (p_ty (fst arm)) (e_ty s) = false ->
  wt_expr fw P g (Ex (EMatch s arms) m t) = false.
Proof. exact wt_rejects_arm_mismatch. Qed.
Print Assumptions C17_rejects_arm_mismatch.

Theorem C17_rejects_immutable_assign : forall fw P g x accs e m,
  (forall tx, tlookup g x <> Some (tx, true)) ->
  wt_stmt fw P g (St (SAssign x accs e) m) = None.
Proof. exact wt_rejects_immutable_assign. Qed.
Print Assumptions C17_rejects_immutable_assign.

Theorem C17_rejects_arity : forall fw P g fn args m t d,
  find_fn P fn = Some d -> length args <> length (fn_params d) ->
  wt_expr fw P g (Ex (ECall fn args) m t) = false.
Proof. exact wt_rejects_arity. Qed.
Print Assumptions C17_rejects_arity.

Theorem C17_rejects_unknown_fn : forall fw P g fn args m t,
  find_fn P fn = None -> wt_expr fw P g (Ex (ECall fn args) m t) = false.
Proof. exact wt_rejects_unknown_fn. Qed.
Print Assumptions C17_rejects_unknown_fn.

(* rejection propagates: statement -> enclosing block -> function -> program *)
Theorem C17_block_rejects : forall fw P s pre post,
  (forall f g, wt_stmt f P g s = None) -> forall g, wt_block fw P g (pre ++ s :: post) = None.
Proof. exact wt_block_rejects. Qed.
Print Assumptions C17_block_rejects.

Theorem C17_program_rejects_fn : forall P d,
  In d (p_fns P) -> wt_fn P (consts_tenv P) d = false -> wt_program P = false.
Proof. exact wt_program_rejects_fn. Qed.
Print Assumptions C17_program_rejects_fn.

(* what acceptance excludes: evaluation of an accepted expression in a typed environment
   never reaches "unbound identifier", "operand of the wrong shape", "wrong arity", ...
   (every Stuck code of Sem.v except the pattern-match / join codes [stuck_allowed]) *)
Theorem C17_accepted_never_inconsistent : forall P n fw g e en c,
  wt_program P = true -> wt_expr fw P g e = true -> genv P g -> env_ok P (scopes en) g ->
  eval n P en e = Stuck c -> In c stuck_allowed.
Proof.
  intros P n fw g e en c Hwt Hw Hg He Hs.
  pose proof (wt_sound_expr P false Hwt (fun H => False_ind _ (Bool.diff_false_true H)) n fw g e en Hw
                (fun H => False_ind _ (Bool.diff_false_true H)) Hg He) as H.
  rewrite Hs in H. exact (proj1 H).
Qed.
Print Assumptions C17_accepted_never_inconsistent.

(* the unsound acceptances of the previous re-checker are now rejected (witnesses found
   while proving soundness: duplicate parameter names, a constant initialised by a call,
   a join loop over non-arrays, duplicate constant names) *)
Theorem C17_wt_rejects_former_unsound :
  wt_program (mkProgram [] [] [mkFn 9 [(0, u8); (0, TBool)] u8 [ret0]] [] 9) = false /\
  wt_program (mkProgram [] [] [mkFn 9 [(0, u8)] u8 [ret0]; mkFn 8 [(0, u8)] u8 [St (SExpr (Ex (EId 5) m0 u8)) m0]]
                        [(4, Ex (ECall 8 [lit8 1]) m0 u8); (5, lit8 2)] 9) = false /\
  wt_program (prog_of [St (SJoinLoop (Pat (PId 1) m0 TBool) u8 (Ex (EId 0) m0 u8) (Ex (EId 0) m0 u8) []) m0; ret0]) = false /\
  wt_program (mkProgram [] [] [mkFn 9 [(0, u8)] u8 [St (SExpr (Ex (EId 5) m0 u8)) m0]]
                        [(5, lit8 2); (5, Ex ETrue m0 TBool)] 9) = false.
Proof. vm_compute. repeat split; reflexivity. Qed.
Print Assumptions C17_wt_rejects_former_unsound.
