(* C17 — ill-typed programs are rejected.  The documented static rules are the boolean
   re-checker Lang/Wt.v.  Pinned here: the re-checker rejects one tree per rule family
   (so the rules are really in it) and accepts a well-typed tree. *)
From GV Require Import Base.Util Lang.Ast Lang.Wt.
Open Scope N_scope.

Definition m0 := mkMeta 0 0 0 0.
Definition u8 := TInt false 8.
Definition u16 := TInt false 16.
Definition lit8 (n : N) := Ex (ENumU n) m0 u8.
Definition prog_of (body : list stmt) : program := mkProgram [] [] [mkFn 9 [(0, u8)] u8 body] [] 9.
Definition ret0 := St (SExpr (Ex (EId 0) m0 u8)) m0.

Theorem C17_wt_accepts_well_typed :
  wt_program (prog_of [St (SLet (Pat (PId 1) m0 u8) (Ex (EOp OAdd (lit8 1) (Ex (EId 0) m0 u8)) m0 u8)) m0; ret0]) = true.
Proof. vm_compute. reflexivity. Qed.
Print Assumptions C17_wt_accepts_well_typed.

Theorem C17_wt_rejects :
  (* operand types disagree *)
  wt_program (prog_of [St (SLet (Pat (PId 1) m0 u8) (Ex (EOp OAdd (lit8 1) (Ex (ENumU 1) m0 u16)) m0 u8)) m0; ret0]) = false /\
  (* non-Boolean condition *)
  wt_program (prog_of [St (SExpr (Ex (EIf (lit8 7) (lit8 1) (lit8 2)) m0 u8)) m0]) = false /\
  (* unknown identifier *)
  wt_program (prog_of [St (SExpr (Ex (EId 5) m0 u8)) m0]) = false /\
  (* assignment to an immutable binding *)
  wt_program (prog_of [St (SLet (Pat (PId 1) m0 u8) (lit8 1)) m0; St (SAssign 1 [] (lit8 2)) m0; ret0]) = false /\
  (* out-of-scope identifier *)
  wt_program (prog_of [St (SExpr (Ex (EBlock [St (SLet (Pat (PId 1) m0 u8) (lit8 1)) m0]) m0 (TTup []))) m0;
                       St (SExpr (Ex (EId 1) m0 u8)) m0]) = false /\
  (* wrong number of arguments *)
  wt_program (mkProgram [] [] [mkFn 9 [(0, u8)] u8 [St (SExpr (Ex (ECall 8 [lit8 1; lit8 2]) m0 u8)) m0];
                              mkFn 8 [(0, u8)] u8 [ret0]] [] 9) = false /\
  (* return type disagrees *)
  wt_program (prog_of [St (SExpr (Ex ETrue m0 TBool)) m0]) = false.
Proof. vm_compute. repeat split; reflexivity. Qed.
Print Assumptions C17_wt_rejects.
