(* C08 — match exhaustiveness verdicts are exact and the first matching arm decides.
   This file only states the property theorems; the model is Exhaust/Pat.v (types, values,
   patterns, [pat_matches] = the documented meaning of patterns, [select_arm]) and
   Exhaust/Covers.v (the region decision procedures); proofs live in Exhaust/CoversProofs.v.

   [covers], [uncovered] and [witness_ok] answer [None] ("undecided") when the recursion
   fuel or the cap on region products is exceeded or the type definitions are malformed;
   every theorem is about [Some] answers, which are exact.  The check compares each
   verdict, each reported missing case and each compiled circuit of the Rust code with
   these verified procedures. *)
From GV Require Import Base.Util Exhaust.Pat Exhaust.Covers Exhaust.CoversProofs.
Local Open Scope Z_scope.

(* A decided verdict is exact: [true] iff every value of the scrutinee's type is matched by
   some arm.  (No hypothesis on the patterns: ill-typed combinations simply do not match.) *)
Theorem C08_covers_iff : forall env cap fuel t ps b,
  covers env cap fuel t ps = Some b ->
  (b = true <->
   forall v, has_type env v t = true -> exists p, In p ps /\ pat_matches p v = true).
Proof. exact covers_iff. Qed.
Print Assumptions C08_covers_iff.

(* Values in one region (same shape, integers on the same side of every bound written in
   the arms) are matched by exactly the same arms. *)
Theorem region_constant : forall ps v r,
  simb (points ps) v r = true ->
  forall p, In p ps -> pat_matches p v = pat_matches p r.
Proof. exact region_constant_lemma. Qed.
Print Assumptions region_constant.

(* The representatives used for the evaluation of compiled circuits are values of the type,
   and every value of the type lies in the region of one of them. *)
Theorem region_reps_exhaust : forall env cap fuel t ps rs,
  region_reps env cap fuel t ps = Some rs ->
  (forall r, In r rs -> has_type env r t = true) /\
  (forall v, has_type env v t = true -> exists r, In r rs /\ simb (points ps) v r = true).
Proof. exact region_reps_spec. Qed.
Print Assumptions region_reps_exhaust.

(* The counterexample produced for a non-exhaustive match is a value of the type that no
   arm matches; and none is produced exactly when the arms cover the type. *)
Theorem C08_uncovered_sound : forall env cap fuel t ps v,
  uncovered env cap fuel t ps = Some (Some v) ->
  has_type env v t = true /\ forall p, In p ps -> pat_matches p v = false.
Proof. exact uncovered_sound. Qed.
Print Assumptions C08_uncovered_sound.

Theorem C08_uncovered_none : forall env cap fuel t ps,
  uncovered env cap fuel t ps = Some None <-> covers env cap fuel t ps = Some true.
Proof. exact uncovered_covers. Qed.
Print Assumptions C08_uncovered_none.

(* A reported missing case [w] passes [witness_ok] iff it denotes at least one value of the
   type and only values that no arm matches. *)
Theorem C08_witness_sound : forall env cap fuel t ps w b,
  witness_ok env cap fuel t ps w = Some b ->
  (b = true <->
   (exists v, has_type env v t = true /\ pat_matches w v = true) /\
   (forall v, has_type env v t = true -> pat_matches w v = true ->
              forall p, In p ps -> pat_matches p v = false)).
Proof. exact witness_iff. Qed.
Print Assumptions C08_witness_sound.

(* The selected arm is the first one in source order whose pattern matches, with that
   pattern's bindings; no arm is selected iff no pattern matches. *)
Theorem first_match_spec : forall ps v j bs,
  select_arm ps v = Some (j, bs) <->
  exists p, nth_error ps j = Some p /\ pat_matches p v = true /\ bs = pat_bind p v /\
            forall k q, (k < j)%nat -> nth_error ps k = Some q -> pat_matches q v = false.
Proof. exact select_arm_spec. Qed.
Print Assumptions first_match_spec.

Theorem first_match_none : forall ps v,
  select_arm ps v = None <-> forall p, In p ps -> pat_matches p v = false.
Proof. exact select_arm_none. Qed.
Print Assumptions first_match_none.

(* For a match decided exhaustive, every scrutinee value of the type selects an arm. *)
Theorem C08_covered_selects : forall env cap fuel t ps v,
  covers env cap fuel t ps = Some true ->
  has_type env v t = true -> select_arm ps v <> None.
Proof. exact covers_select_total. Qed.
Print Assumptions C08_covered_selects.

(* Bounds are honoured exactly: literal, inclusive range, exclusive range (stored by the
   parser as `a..=b-1`). *)
Theorem C08_num_exact : forall sl n z, pat_matches (PNum sl n) (VInt z) = true <-> z = n.
Proof. exact num_exact. Qed.
Print Assumptions C08_num_exact.

Theorem C08_range_exact : forall sl lo hi z,
  pat_matches (PRange sl lo hi) (VInt z) = true <-> lo <= z <= hi.
Proof. exact range_exact. Qed.
Print Assumptions C08_range_exact.

Theorem C08_excl_range_exact : forall sl lo hi z,
  pat_matches (PRange sl lo (hi - 1)) (VInt z) = true <-> lo <= z < hi.
Proof. exact excl_range_exact. Qed.
Print Assumptions C08_excl_range_exact.

(* "Undecided" only comes from too little fuel or too small a cap: a decided verdict is
   stable under more fuel. *)
Theorem C08_fuel_monotone : forall env cap fuel t ps b,
  covers env cap fuel t ps = Some b -> covers env cap (S fuel) t ps = Some b.
Proof. exact covers_fuel_mono. Qed.
Print Assumptions C08_fuel_monotone.

(* ---------------------------------------------------------------- non-vacuity *)

Definition env0 : tyenv :=
  {| structs := [(1%N, [(2%N, TBool); (3%N, TInt false 8)])];
     enums := [(4%N, [(5%N, None); (6%N, Some [TInt true 8; TStruct 1%N])])] |}.

(* §6-27: the two signed ranges cover i8 (the unrepaired Rust code rejected this match) *)
Example covers_i8_two_ranges :
  covers env0 1000%N 8 (TInt true 8) [PRange true (-128) (-1); PRange true 0 127] = Some true.
Proof. vm_compute. reflexivity. Qed.

Example not_covers_gap :
  uncovered env0 1000%N 8 (TInt false 8) [PRange false 0 9; PRange false 11 255]
  = Some (Some (VInt 10)).
Proof. vm_compute. reflexivity. Qed.

(* nested: enum with a tuple variant holding a struct *)
Example covers_nested :
  covers env0 1000%N 8 (TEnum 4%N)
         [PEnum 4%N 6%N (Some [PRange true (-128) 0; PStruct 1%N [(2%N, PBool true)] true]);
          PEnum 4%N 6%N (Some [PVar 7%N; PStruct 1%N [(3%N, PRange false 0 255)] true]);
          PEnum 4%N 5%N None] = Some true.
Proof. vm_compute. reflexivity. Qed.

(* the unsound acceptance found by the check: `S {b: 0..=9, ..}` and `S {a: false, ..}` do
   not cover S; the value S {a: true, b: 10} is matched by no arm *)
Example struct_rest_not_covered :
  uncovered env0 1000%N 8 (TStruct 1%N)
            [PStruct 1%N [(3%N, PRange false 0 9)] true; PStruct 1%N [(2%N, PBool false)] true]
  = Some (Some (VStruct 1%N [(2%N, VBool true); (3%N, VInt 10)])).
Proof. vm_compute. reflexivity. Qed.

(* §6-15/28: a literal outside the scrutinee's type is not a well-typed pattern *)
Example literal_out_of_range_rejected :
  pat_wt env0 (TInt false 8) (PNum false 300) = false /\
  pat_wt env0 (TInt true 8) (PNum false 200) = false /\
  pat_wt env0 (TInt true 8) (PRange false 200 255) = false /\
  pat_wt env0 (TInt false 8) (PNum false 255) = true.
Proof. vm_compute. repeat split. Qed.

Example witness_examples :
  witness_ok env0 1000%N 8 (TInt false 8) [PRange false 0 9; PRange false 11 255] (PRange false 10 10) = Some true /\
  witness_ok env0 1000%N 8 (TInt false 8) [PRange false 0 9; PRange false 11 255] (PRange false 9 10) = Some false /\
  witness_ok env0 1000%N 8 (TInt false 8) [PRange false 0 9; PRange false 11 255] (PRange false 256 256) = Some false.
Proof. vm_compute. repeat split. Qed.

Example select_first :
  select_arm [PRange false 0 9; PVar 7%N; PNum false 5] (VInt 5) = Some (0%nat, []) /\
  select_arm [PRange false 0 9; PVar 7%N; PNum false 5] (VInt 50) = Some (1%nat, [(7%N, VInt 50)]).
Proof. vm_compute. split; reflexivity. Qed.

(* ------------------------------------------------------------------------------------
   The LOWERING of match and of scalar / tuple patterns (Compile/Lower.v, the model of compile.rs
   tied gate for gate to the real compiler; Boolean instance, which every emitted circuit
   computes for all inputs): the first arm whose pattern matches decides value, variables and
   panic; the match bit of a literal / range pattern is exactly Sem.pmatch on the decoded
   scrutinee (statements in Compile/TSemControl.v). *)
From GV Require Import Compile.Lower Compile.TSem Compile.TSemControl.
Theorem C08_lowering_tsem_match_selects : ltac:(let T := type of tsem_match_selects in exact T).
Proof. exact tsem_match_selects. Qed.
Print Assumptions C08_lowering_tsem_match_selects.
Theorem C08_lowering_tsem_match_first : ltac:(let T := type of tsem_match_first in exact T).
Proof. exact tsem_match_first. Qed.
Print Assumptions C08_lowering_tsem_match_first.
Theorem C08_lowering_tsem_pat_numU_pmatch : ltac:(let T := type of tsem_pat_numU_pmatch in exact T).
Proof. exact tsem_pat_numU_pmatch. Qed.
Print Assumptions C08_lowering_tsem_pat_numU_pmatch.
Theorem C08_lowering_tsem_pat_numS_pmatch : ltac:(let T := type of tsem_pat_numS_pmatch in exact T).
Proof. exact tsem_pat_numS_pmatch. Qed.
Print Assumptions C08_lowering_tsem_pat_numS_pmatch.
Theorem C08_lowering_tsem_pat_urange_pmatch : ltac:(let T := type of tsem_pat_urange_pmatch in exact T).
Proof. exact tsem_pat_urange_pmatch. Qed.
Print Assumptions C08_lowering_tsem_pat_urange_pmatch.
Theorem C08_lowering_tsem_pat_srange_pmatch : ltac:(let T := type of tsem_pat_srange_pmatch in exact T).
Proof. exact tsem_pat_srange_pmatch. Qed.
Print Assumptions C08_lowering_tsem_pat_srange_pmatch.
Theorem C08_lowering_tsem_pat_true : ltac:(let T := type of tsem_pat_true in exact T).
Proof. exact tsem_pat_true. Qed.
Print Assumptions C08_lowering_tsem_pat_true.
Theorem C08_lowering_tsem_pat_false : ltac:(let T := type of tsem_pat_false in exact T).
Proof. exact tsem_pat_false. Qed.
Print Assumptions C08_lowering_tsem_pat_false.
Theorem C08_lowering_tsem_pat_id : ltac:(let T := type of tsem_pat_id in exact T).
Proof. exact tsem_pat_id. Qed.
Print Assumptions C08_lowering_tsem_pat_id.
Theorem C08_lowering_tsem_pat_tuple : ltac:(let T := type of tsem_pat_tuple in exact T).
Proof. exact tsem_pat_tuple. Qed.
Print Assumptions C08_lowering_tsem_pat_tuple.

(* ------------------------------------------------------------------ the REAL algorithm.  Exhaust/
   Useful.v is a Gallina model of check.rs's check_exhaustiveness / usefulness / specialize /
   split_ctor / range splitting (Maranget-style usefulness, including its two early exits and the
   witness reconstruction); on every run its sorted witness list must equal, textually, the
   missing cases the real checker reports (tools/c08.py, obligation "correspondence Exhaust/
   Useful.v = check.rs usefulness").  Proved about it, for well-formed type environments,
   closed non-recursive inhabited types and well-typed arms: every reported missing case is a
   well-typed pattern that denotes at least one value and only uncovered values; if any value
   is uncovered the report is non-empty; hence it accepts exactly the exhaustive matches, and
   it agrees with the reference procedure [covers] wherever both answer. *)
From GV Require Import Exhaust.Useful Exhaust.UsefulProofs.

Theorem C08_real_algorithm_reports_exactly_the_missing_cases :
  forall env d t ps, env_wf env = true -> tok env d t = true ->
  (forall p, In p ps -> pat_wt env t p = true) ->
  forall f ws, check_exhaustive f env t ps = Some ws ->
  (forall w, In w ws -> exists p, w = [p] /\ pat_wt env t p = true /\
      (exists v, has_type env v t = true /\ pat_matches p v = true) /\
      (forall v, has_type env v t = true -> pat_matches p v = true ->
                 forall a, In a ps -> pat_matches a v = false)) /\
  ((exists v, has_type env v t = true /\ forall a, In a ps -> pat_matches a v = false) -> ws <> []).
Proof. intros env d t ps W Ht Hps. exact (check_exhaustive_correct env d t ps W Ht Hps). Qed.
Print Assumptions C08_real_algorithm_reports_exactly_the_missing_cases.

Theorem C08_real_algorithm_accepts_iff_exhaustive :
  forall env d t ps, env_wf env = true -> tok env d t = true ->
  (forall p, In p ps -> pat_wt env t p = true) ->
  forall f, (fuel_bound env d [t] <= f)%nat ->
  (check_exhaustive f env t ps = Some [] <->
   forall v, has_type env v t = true -> exists p, In p ps /\ pat_matches p v = true).
Proof. intros env d t ps W Ht Hps. exact (useful_iff_covers env d t ps W Ht Hps). Qed.
Print Assumptions C08_real_algorithm_accepts_iff_exhaustive.

Theorem C08_real_algorithm_agrees_with_reference :
  forall env d t ps, env_wf env = true -> tok env d t = true ->
  (forall p, In p ps -> pat_wt env t p = true) ->
  forall f ws cap fuel b,
  check_exhaustive f env t ps = Some ws -> covers env cap fuel t ps = Some b ->
  (b = true <-> ws = []).
Proof. intros env d t ps W Ht Hps. exact (useful_agrees_with_covers env d t ps W Ht Hps). Qed.
Print Assumptions C08_real_algorithm_agrees_with_reference.

(* ---- the link to the SOURCE SEMANTICS (Exhaust/ExhSem.v, ExhSound.v): the pattern semantics of the
   exhaustiveness development (Pat.pat_matches on Pat.value) and the pattern matching of the
   interpreter Lang/Sem.v (Sem.pmatch on run-time values) agree on well-typed patterns and values;
   hence a match the REAL algorithm accepts ([exh_pats]: the typed patterns translated, side
   conditions computed, Useful.check_exhaustive = Some []) always has an arm that matches: Sem.v is
   never stuck on "no arm matches" (code 41), which is what the property promises the user. *)
From GV Require Import Lang.Ast Lang.ValTy Compile.ValEnc Compile.TSemSemAgg Exhaust.ExhSem.
From GV Require Lang.Sem.

Theorem C08_pattern_semantics_agree : forall P p t bs v w,
  gpat_ok P p t bs -> has_enc P t v w ->
  (Sem.pmatch P p v <> None <-> Pat.pat_matches (tr_pat P p) (tr_val P v t) = true).
Proof. exact match_agree. Qed.
Print Assumptions C08_pattern_semantics_agree.

Theorem C08_accepted_match_has_a_matching_arm : forall P t ps v w,
  exh_pats P t ps = true -> has_enc P t v w ->
  exists p, In p ps /\ Sem.pmatch P p v <> None.
Proof. exact exh_pats_sound. Qed.
Print Assumptions C08_accepted_match_has_a_matching_arm.

Theorem C08_accepted_match_runs_an_arm : forall P f v w en scrut_ty arms,
  exh_pats P scrut_ty (map fst arms) = true -> has_enc P scrut_ty v w ->
  exists p body bs, In (p, body) arms /\ Sem.pmatch P p v = Some bs /\
    sem_arms P f v en arms =
      Sem.obind (Sem.eval f P (Sem.bind_all (Sem.push_scope en) bs) body)
        (fun '(res, en1) => Sem.Done (res, Sem.pop_scope en1)).
Proof. exact exh_match_not_stuck. Qed.
Print Assumptions C08_accepted_match_runs_an_arm.
