(* C07 — the front end is total: any input text gives Ok or errors, never a crash or hang.
   This file only states the property theorems; models are Front/Scan.v (all of scan.rs, on
   the UTF-8 bytes of the text) and Front/Prettify.v (lib.rs::prettify_meta); proofs are in
   Front/ScanProofs.v and Front/PrettifyProofs.v; worked instances in Front/Examples.v.

   PARTIAL: the parser, the type checker and the compiler have no Gallina model
   (DESIGN.md §8).  Their crash/hang freedom is searched by tools/c07.py (`front` jobs), not
   proved.  What is proved here: the scanner terminates on every text with a well-formed
   result, and rendering any location it reports never fails.

   [nl text] is the number of '\n' in the text; lines are numbered from 0, so a line number
   <= nl text is a line of the text or the (empty) line just past its final newline. *)
From GV Require Import Base.Util Front.Scan Front.Prettify Front.ScanProofs Front.ScanUnfixed
  Front.PrettifyProofs.

(* With fuel length+1 the scanner never runs out of fuel (the Rust loops terminate) and
   never panics: it returns a value. *)
Theorem scan_total : forall bytes : list N,
  exists out, scan (S (length bytes)) bytes = Ok out.
Proof. exact scan_total_lemma. Qed.
Print Assumptions scan_total.

(* The value is a token list or a NON-EMPTY error list. *)
Theorem scan_result : forall (bytes : list N) (out : scan_out),
  scan (S (length bytes)) bytes = Ok out ->
  match out with STokens _ => True | SErrors es => es <> [] end.
Proof. exact scan_result_lemma. Qed.
Print Assumptions scan_result.

(* Every token location and every error location has start <= end (lexicographic on
   (line, column)) and ends on a line <= the number of newlines of the text. *)
Theorem scan_locs : forall (bytes : list N) (out : scan_out),
  scan (S (length bytes)) bytes = Ok out ->
  match out with
  | STokens ts => forall t m, In (Token t m) ts ->
      (fst (m_start m) < fst (m_end m) \/
       (fst (m_start m) = fst (m_end m) /\ snd (m_start m) <= snd (m_end m))) /\
      fst (m_end m) <= nl bytes
  | SErrors es => forall e m, In (ScanError e m) es ->
      (fst (m_start m) < fst (m_end m) \/
       (fst (m_start m) = fst (m_end m) /\ snd (m_start m) <= snd (m_end m))) /\
      fst (m_end m) <= nl bytes
  end.
Proof. exact scan_locs_lemma. Qed.
Print Assumptions scan_locs.

(* Rendering a location whose end line is at most the number of newlines of the text never
   panics (no out-of-bounds `lines[l]`) and the loop terminates.  (start <= end is not even
   needed.) *)
Theorem prettify_safe : forall (text : list N) (m : meta),
  fst (m_end m) <= nl text ->
  exists rendered, prettify_meta text m = Ok rendered.
Proof. exact prettify_meta_safe. Qed.
Print Assumptions prettify_safe.

(* End to end: every location the scanner reports for a text renders against that text. *)
Theorem scan_then_prettify_safe : forall (bytes : list N) (out : scan_out),
  scan (S (length bytes)) bytes = Ok out ->
  match out with
  | STokens ts => forall t m, In (Token t m) ts -> exists r, prettify_meta bytes m = Ok r
  | SErrors es => forall e m, In (ScanError e m) es -> exists r, prettify_meta bytes m = Ok r
  end.
Proof. exact scan_then_prettify_lemma. Qed.
Print Assumptions scan_then_prettify_safe.

(* DESIGN.md §6-12: for the block-comment loop of the UNREPAIRED scanner the fuel-adequacy
   statement is false - at the end of the input no fuel is enough (the Rust loop spins). *)
Theorem scan_total_refuted_before_fix : forall (fuel : nat) (level : N) (s : scanner),
  level <> 0 -> comment_loop_orig fuel level s [] = OutOfFuel.
Proof. exact comment_loop_orig_diverges. Qed.
Print Assumptions scan_total_refuted_before_fix.

(* ------------------------------------------------------------------ the PARSER terminates on every
   input (Front/ParseTotal.v; Front/ParseExpr.v is the function-by-function model of src/parse.rs,
   tied to it on expression texts, function bodies and whole programs on every run): a fuel LINEAR
   in the number of tokens (slope 1) is enough for every token list - every loop iteration and every
   nesting level consumes a token - and the result does not depend on the fuel once it suffices. *)
From GV Require Import Front.ParseExpr Front.ParseTotal.

Theorem C07_parser_terminates_on_every_program_text : forall fuel ts,
  (length ts + 4 <= fuel)%nat -> parse_program_text fuel ts <> PNoFuel.
Proof. exact parse_program_text_total. Qed.
Print Assumptions C07_parser_terminates_on_every_program_text.

Theorem C07_parser_terminates_on_every_block_text : forall fuel ts,
  (length ts + 5 <= fuel)%nat -> parse_block_text fuel ts <> PNoFuel.
Proof. exact parse_block_text_total. Qed.
Print Assumptions C07_parser_terminates_on_every_block_text.

Theorem C07_parser_terminates_on_every_literal_text : forall fuel ts,
  (length ts + 1 <= fuel)%nat -> parse_literal_text fuel ts <> PNoFuel.
Proof. exact parse_literal_text_total. Qed.
Print Assumptions C07_parser_terminates_on_every_literal_text.

Theorem C07_parser_result_independent_of_fuel : forall f f' ts r,
  parse_program_text f ts = r -> r <> PNoFuel -> (f <= f')%nat -> parse_program_text f' ts = r.
Proof. exact parse_program_text_fuel_independent. Qed.
Print Assumptions C07_parser_result_independent_of_fuel.

(* the fuel the extracted driver uses in the tie is enough *)
Theorem C07_parser_driver_fuel_suffices : forall ts,
  parse_program_text (80 + 40 * length ts) ts <> PNoFuel.
Proof. exact parse_program_text_driver. Qed.
Print Assumptions C07_parser_driver_fuel_suffices.

(* ------------------------------------------------------------------ the CHECKER never panics on what
   the parser produces (Check/InferTotal.v, Front/ParseWf.v; Check/Infer.v is the model of
   src/check.rs, tied to it): the model returns [CErr E_Panic] exactly where check.rs would panic
   (`.first().unwrap()` on an empty array literal, a match without arms); the parser never builds
   such trees, so no program TEXT can make the checker panic. *)
From GV Require Import Check.UAst Check.Infer Check.InferTotal Front.ParseWf.

Theorem C07_checker_never_panics_on_well_formed_trees : forall intern P,
  wf_program P -> forall fuel, check_program intern fuel P <> CErr E_Panic.
Proof. exact no_panic. Qed.
Print Assumptions C07_checker_never_panics_on_well_formed_trees.

Theorem C07_parser_output_is_well_formed : forall f ts up st main,
  parse_program_text f ts = POk up st -> wf_program (uprogram_of_parsed up main).
Proof. exact parser_output_wf. Qed.
Print Assumptions C07_parser_output_is_well_formed.

Theorem C07_front_end_never_panics : forall ts f up st main intern g,
  parse_program_text f ts = POk up st ->
  check_program intern g (uprogram_of_parsed up main) <> CErr E_Panic.
Proof. exact front_end_never_panics. Qed.
Print Assumptions C07_front_end_never_panics.

(* ------------------------------------------------------------------ the SCANNER reads printed tokens
   back (Front/ScanPrint.v): number lexing is exact - the decimal text of n with a suffix is read as
   the one number token n iff n is within the bound of the suffix (unsuffixed / u64: 2^64 - 1; usize,
   u32: 2^32 - 1; ...), a minus directly before digits gives ONE signed token - and every printable
   token list separated by single spaces is scanned back to itself. *)
From GV Require Import Front.ScanPrint.

Theorem C07_scanner_number_lexing_exact : forall n t, n <= ubound t ->
  exists m, scan_text (dec n ++ usuffix_text t) = Ok (STokens [Token (TUnsignedNum n t) m]).
Proof. exact scan_unsigned. Qed.
Print Assumptions C07_scanner_number_lexing_exact.

Theorem C07_scanner_number_beyond_bound_is_an_error : forall n t, ubound t < n ->
  exists es, scan_text (dec n ++ usuffix_text t) = Ok (SErrors es).
Proof. exact scan_unsigned_beyond. Qed.
Print Assumptions C07_scanner_number_beyond_bound_is_an_error.

Theorem C07_scanner_reads_printed_tokens_back : forall ts, Forall tok_printable ts ->
  exists ts', scan_text (print_tokens ts) = Ok (STokens ts') /\ map kind ts' = ts.
Proof. exact scan_print. Qed.
Print Assumptions C07_scanner_reads_printed_tokens_back.

(* ------------------------------------------------------------------ the CHECKER terminates
   (Check/InferFuel.v, InferFuel2.v): its result is monotone in the fuel (once it is not "out of
   fuel" more fuel changes nothing), and a fuel computable from the size of the program
   ([check_fuel_needed]: depths of expressions / statements, number of functions - recursion is
   rejected, so each definition is entered at most once -, depths of the type definitions) is enough
   for EVERY program, provided the exhaustiveness oracle (Exhaust/Useful.v, which has its own fuel
   bound [Useful.fuel_bound], adequate by UsefulProofs.useful_fuel for well-typed patterns) does not
   run out of its own fuel ([Hex], stated explicitly: partial). *)
From GV Require Import Check.InferFuel Check.InferFuel2.

Theorem C07_checker_result_monotone_in_fuel : forall intern f f' P r,
  check_program_t intern f P = r -> r <> CNoFuel -> (f <= f')%nat -> check_program_t intern f' P = r.
Proof. exact check_program_t_mono. Qed.
Print Assumptions C07_checker_result_monotone_in_fuel.

Theorem C07_checker_terminates_within_a_computable_fuel_partial : forall intern,
  (forall D ps ty, nf (check_exhaustiveness intern D ps ty)) ->
  forall P fuel, (check_fuel_needed P <= fuel)%nat -> check_program_t intern fuel P <> CNoFuel.
Proof. exact adequacy_program. Qed.
Print Assumptions C07_checker_terminates_within_a_computable_fuel_partial.

(* the parser ignores token locations (Front/ParseUnloc.v), and is a left inverse of printing for
   programs of function definitions: the printed TEXT of a well-formed program is scanned and parsed
   back to the program *)
From GV Require Import Front.ParseUnloc.

Theorem C07_parser_ignores_token_locations : forall fuel ts,
  parse_program_text fuel (unloc ts) = parse_program_text fuel ts.
Proof. exact parse_program_text_unloc. Qed.
Print Assumptions C07_parser_ignores_token_locations.

Theorem C07_printed_program_text_is_parsed_back_partial : forall P,
  wf_program P -> Forall tok_printable (map kind (show_program P)) ->
  exists ts' f0, scan_text (program_text P) = Ok (STokens ts') /\
                 forall fuel, (f0 <= fuel)%nat -> parse_program_text fuel ts' = POk P (PState [] true).
Proof. exact scan_parse_show_program. Qed.
Print Assumptions C07_printed_program_text_is_parsed_back_partial.

(* ... and UNCONDITIONALLY for programs that never consult the exhaustiveness oracle (Check/InferFuel4.v):
   no `match`, and every `let` / `for` pattern syntactically irrefutable ([no_oracle], a Boolean):
   the checker terminates within the computable fuel, for any interning function. *)
From GV Require Import Check.InferFuel4.

Theorem C07_checker_terminates_without_the_oracle : forall intern P fuel,
  no_oracle P = true -> (check_fuel_needed P <= fuel)%nat -> check_program_t intern fuel P <> CNoFuel.
Proof. exact check_terminates_no_oracle. Qed.
Print Assumptions C07_checker_terminates_without_the_oracle.

(* ------------------------------------------------------------------ THE HEADLINE, FROM THE TEXT
   (Check/FrontEndTotal.v): [front_end] = model scanner -> model parser (with the linear fuel) ->
   model checker (with its computable fuel) on the parsed program.  Its answer is a typed program,
   scan errors, a parse error, a type error or "outside the checker model" - never "out of fuel",
   never "crash", never "panic" ([FInternal]): for every text whose parsed program does not consult
   the exhaustiveness oracle ([no_oracle]), and for every text under the explicit oracle-fuel
   hypothesis. *)
From GV Require Import Check.FrontEndTotal.

Theorem C07_front_end_is_total : forall intern bytes main,
  match parsed_program bytes main with Some P => no_oracle P = true | None => True end ->
  front_end intern bytes main <> FInternal.
Proof. exact front_end_total. Qed.
Print Assumptions C07_front_end_is_total.

Theorem C07_front_end_is_total_under_oracle_fuel_partial : forall intern bytes main,
  (forall D ps ty, nf (check_exhaustiveness intern D ps ty)) -> front_end intern bytes main <> FInternal.
Proof. exact front_end_total_hex. Qed.
Print Assumptions C07_front_end_is_total_under_oracle_fuel_partial.

(* ... and with a COMPUTABLE premise for programs that do consult the oracle (Check/InferFuel5.v,
   InferFuel6.v, FrontEndTotalMatch.v): [ty_depth_bound P] bounds the nesting depth of every type the
   checker can infer in P (declared depths + aggregate-literal nodes per function; 65 if a reachable
   named type is empty or undefined); at most 64 is what the model's fixed oracle fuel supports. *)
From GV Require Import Check.InferFuel5 Check.InferFuel6 Check.FrontEndTotalMatch.

Theorem C07_checker_terminates_within_a_computable_fuel : forall intern,
  (forall a b, intern a = intern b -> a = b) -> forall P fuel,
  (ty_depth_bound P <= 64)%nat -> (check_fuel_needed P <= fuel)%nat -> check_program_t intern fuel P <> CNoFuel.
Proof. exact check_terminates_match. Qed.
Print Assumptions C07_checker_terminates_within_a_computable_fuel.

Theorem C07_front_end_is_total_computable : forall intern bytes main,
  (forall a b, intern a = intern b -> a = b) ->
  match parsed_program bytes main with
  | Some P => no_oracle P || Nat.leb (ty_depth_bound P) 64 = true
  | None => True
  end ->
  front_end intern bytes main <> FInternal.
Proof. exact front_end_total_computable. Qed.
Print Assumptions C07_front_end_is_total_computable.

(* the parser model never answers "outside the model" (Front/ParseNoOutside.v): the whole grammar of
   src/parse.rs is modelled; [front_end]'s folding of POutside into FParseError is vacuous *)
From GV Require Import Front.ParseNoOutside.

Theorem C07_parser_model_covers_the_whole_grammar : forall fuel ts o, parse_program_text fuel ts <> POutside o.
Proof. exact parse_program_text_no_outside. Qed.
Print Assumptions C07_parser_model_covers_the_whole_grammar.
