(* C09 — literal encoding round-trips, matches the circuit bit layout, is validated.
   This file only states the property theorems; the model is Lang/{Types,Literal}.v, the
   proofs are in Lang/LiteralProofs.v.

   E is the program's enum environment (name -> variants) that the type-free encoder
   `Literal::as_bits` consults; T is a resolved parameter type; [wf E T] says that T's enum
   types are E's and that struct fields are sorted by name without duplicates (what the
   parser produces; evaluated on every job of the tie).  [has_type v T]: v is a (canonical)
   value of T.  [denote l]: the value a spelling stands for (ArrayRepeat, typed Range,
   struct fields in any order), independent of any type.

   C09_print_parse and C09_identity are not theorems: the text parser is the full
   expression parser/checker (not modelled) and the identity program goes through the real
   compiler; both are checked as oracles on every generated type/value (tools/c09.py). *)
From GV Require Import Base.Util Lang.Types Lang.Literal Lang.LiteralProofs.

(* encoding a value of T yields exactly size(T) bits, never a panic *)
Theorem C09_encode_size : forall (E : list (N * rvariants)) (v : lit) (T : rty),
  wf E T = true -> has_type v T = true ->
  exists bits, as_bits E v = Ok bits /\ N.of_nat (length bits) = size T.
Proof. exact encode_size. Qed.
Print Assumptions C09_encode_size.

(* decoding the encoding of a value yields the value *)
Theorem C09_decode_encode : forall (E : list (N * rvariants)) (v : lit) (T : rty),
  wf E T = true -> has_type v T = true ->
  exists bits, as_bits E v = Ok bits /\ from_bits T bits = Ok (Some v).
Proof. exact decode_encode. Qed.
Print Assumptions C09_decode_encode.

(* the documented layout: big-endian two's-complement integers; elements and fields
   concatenated; enums = tag, payload, zero padding (the statement is spelled out in
   LiteralProofs.layout_statement) *)
Theorem C09_layout : layout_statement.
Proof. exact layout. Qed.
Print Assumptions C09_layout.

(* whatever the type test accepts denotes a value of the type, encodes without a panic to
   exactly the parameter's size, and to the same bits as that value *)
Theorem C09_accept_sound : forall (E : list (N * rvariants)) (l : lit) (T : rty),
  wf E T = true -> is_of_type l T = true ->
  exists v bits,
    denote l = Some v /\ has_type v T = true /\
    as_bits E l = Ok bits /\ as_bits E v = Ok bits /\ N.of_nat (length bits) = size T.
Proof. exact accept_sound. Qed.
Print Assumptions C09_accept_sound.

(* the type test is not vacuous: every value of the type is accepted and denotes itself *)
Theorem C09_values_accepted : forall (E : list (N * rvariants)) (v : lit) (T : rty),
  wf E T = true -> has_type v T = true -> is_of_type v T = true /\ denote v = Some v.
Proof. exact values_accepted_top. Qed.
Print Assumptions C09_values_accepted.

(* ------------------------------------------------------------------ the two encodings of the
   development are ONE (Lang/LitEnc.v): the model of the real Literal API (this file's theorems;
   tied to literal.rs on every run) and the encoding the program theorems speak about
   (Sem.encode / Compile/ValEnc.has_enc, on which "bit-level semantics = Sem.v" and through it
   the circuit theorems rest).  For a value v of a type t of a program: its canonical literal
   passes the real type test and the real encoder produces exactly has_enc's bits; the real
   decoder returns that literal.  And at the program level, for the full fragment: from argument
   LITERALS through the real encoder, the bit-level semantics, and the real decoder, one obtains
   the literal of the value Sem.v computes (lit_program_agree). *)
From GV Require Import Lang.Ast Lang.ValTy Compile.ValEnc Lang.LitEnc.

Theorem C09_real_encoder_is_the_semantic_encoding :
  forall P t v w rt, enums_small P = true ->
  has_enc P t v w -> ty_of_ast P t = Some rt ->
  exists l, lit_of_value P v t = Some l /\ has_type l rt = true /\ is_of_type l rt = true /\
            as_bits (enum_env P) l = Ok w.
Proof. exact lit_enc_agree. Qed.
Print Assumptions C09_real_encoder_is_the_semantic_encoding.

Theorem C09_real_decoder_inverts_the_semantic_encoding :
  forall P t v w rt l, enums_small P = true -> structs_sorted P = true ->
  has_enc P t v w -> ty_of_ast P t = Some rt -> lit_of_value P v t = Some l ->
  from_bits rt w = Ok (Some l) /\ lenN w = size rt.
Proof. exact lit_enc_decode. Qed.
Print Assumptions C09_real_decoder_inverts_the_semantic_encoding.

(* ------------------------------------------------------------------ the TEXT path of the API
   (Check/LitParse.v: a model of lib.rs parse_arg / literal.rs Literal::parse =
   scan -> parse_literal (literal mode of the parser model) -> type_check (the checker model) ->
   check_type -> into_literal, followed by parse_arg's is_of_type re-test). *)
From GV Require Import Front.Scan Front.ParseExpr Check.UAst Check.Infer Check.LitParse Check.LitParseProofs.

(* a parsed argument is of the parameter's type *)
Theorem C09_parsed_argument_is_of_the_parameter_type : forall intern fuel T i text l,
  parse_arg intern fuel T i text = COk l ->
  exists main mu name ty r,
    assocL (tp_main T) (tp_fns T) = Some main /\ nthN (tf_params main) i = Some (mu, name, ty) /\
    literal_parse intern (defs_of_tprogram T) ty text = COk l /\
    rty_of_cty intern (defs_of_tprogram T) fuel ty = Some r /\ Literal.is_of_type l r = true.
Proof. exact parse_arg_of_type. Qed.
Print Assumptions C09_parsed_argument_is_of_the_parameter_type.

(* Literal::parse alone (without parse_arg's re-test) is of the type for scalar types, any tokens *)
Theorem C09_literal_parse_scalar_is_of_type : forall intern D ty ts l r,
  scalar_rty ty = Some r -> ty <> CUnsigned UnspecifiedU -> ty <> CSigned UnspecifiedS ->
  literal_parse_tokens intern D ty ts = COk l -> Literal.is_of_type l r = true.
Proof. exact parse_scalar_of_type. Qed.
Print Assumptions C09_literal_parse_scalar_is_of_type.

(* ... but NOT for suffixed ranges that leave their element type: `0u8..257` at [u8; 257] is returned
   as a range beyond u8; parse_arg's re-test rejects it (the real code too).  The other divergence
   found through this model - an UNSUFFIXED range kept `Unspecified` numbers (`2..5` at [u8; 3]) and was
   accepted at signed element types - was a genuine defect of check.rs constrain_type, repaired
   (fix 7bf4e4f) and mirrored in the model: LitExamples.unsuffixed_range_after_fix. *)
Theorem C09_literal_parse_range_overflow_refuted :
  exists intern D ty text l r,
    literal_parse intern D ty text = COk l /\ rty_of_cty intern D 5 ty = Some r /\ Literal.is_of_type l r = false.
Proof. exact parse_range_overflow_refuted. Qed.
Print Assumptions C09_literal_parse_range_overflow_refuted.

(* numbers: an unsigned token without suffix or with the suffix of the expected type is accepted
   iff it is in the range of the type, and denotes that number *)
Theorem C09_number_tokens_exact : forall intern D n sfx u m,
  u <> UnspecifiedU -> sfx = UnspecifiedU \/ sfx = u ->
  literal_parse_tokens intern D (CUnsigned u) (one_tok (TUnsignedNum n sfx) m) =
  if Literal.u_in_range n (uty_of u) then COk (Literal.LUnsigned n (uty_of u)) else CErr E_UnexpectedType.
Proof. exact P2_unsigned. Qed.
Print Assumptions C09_number_tokens_exact.

(* ------------------------------------------------------------------ PRINTING A VALUE AND PARSING IT
   BACK YIELDS THE VALUE (Check/LitRoundTrip.v), over tokens ([lit_tokens] models `impl Display for
   Literal`; the scanner is a separate tied model): the literal mode of the parser reads every printed
   literal form back ([parse_back], structs and enums included), and the whole path
   parser -> checker -> check_type -> into_literal returns the literal for the class [rt_ok]:
   Booleans, numbers in range, tuples, arrays (non-empty; elements all numbers or all of one
   pre-type), repeat arrays, typed ranges, struct values (fields of the definition in name order)
   and enum values, arbitrarily nested.  Outside the class and recorded as
   known findings of the REAL code (found by this check's text jobs earlier, now proved about the
   model): `[]` for a zero-length array and arrays of aggregates with a number that is negative in
   one element and non-negative in another at the same position do not come back. *)
From GV Require Import Check.LitRoundTrip.

Theorem C09_printed_literal_is_read_back_by_the_parser : forall unintern l, pok unintern l = true ->
  parse_literal_text (fuel_for_tokens (lit_tokens unintern l)) (lit_tokens unintern l)
  = POk (ulit unintern l) (PState [] true).
Proof. exact parse_back. Qed.
Print Assumptions C09_printed_literal_is_read_back_by_the_parser.

Theorem C09_print_parse_round_trip : forall intern unintern D l T, rt_ok intern unintern D l T = true ->
  literal_parse_tokens intern D T (lit_tokens unintern l) = COk l.
Proof. exact roundtrip. Qed.
Print Assumptions C09_print_parse_round_trip.

(* ... stated for VALUES OF THE TYPE, and through the TEXT (Check/LitRoundTripText.v): a literal that
   the type test accepts at the resolved parameter type, in a printable form ([printable_value]: no
   empty array; arrays of aggregates do not mix signs at one position; ranges non-empty and at most
   2^32 - 1 long), with the names of the definitions surviving interning ([D_names_ok]), is printed
   and parsed back to itself - over tokens, and through the scanner for the printed text. *)
From GV Require Import Front.ScanPrint Check.LitRoundTripText.

Theorem C09_value_print_parse_round_trip : forall intern unintern D, D_names_ok intern unintern D ->
  forall l T r fuel,
  Literal.is_of_type l r = true -> rty_of_cty intern D fuel T = Some r -> printable_value unintern l = true ->
  literal_parse_tokens intern D T (lit_tokens unintern l) = COk l.
Proof. exact value_roundtrip. Qed.
Print Assumptions C09_value_print_parse_round_trip.

Theorem C09_value_print_parse_round_trip_text : forall intern unintern D, D_names_ok intern unintern D ->
  forall l T r fuel,
  Literal.is_of_type l r = true -> rty_of_cty intern D fuel T = Some r -> printable_value unintern l = true ->
  aux_ok unintern false l ->
  literal_parse intern D T (print_tokens (map kind (lit_tokens unintern l))) = COk l.
Proof. exact value_roundtrip_text. Qed.
Print Assumptions C09_value_print_parse_round_trip_text.

(* ... and for every OUTPUT the API can decode (Lang/LiteralDecode.v, Check/LitOutputRoundTrip.v): the
   decoder only produces canonical values of the type ([from_bits_has_type], under [dwf]: no
   Unspecified number types, variant names pairwise distinct), so for types that are
   [type_always_printable] (no zero-length array; no array whose element type is a tuple / array
   carrying a signed number - the two families that are recorded findings of the real code) EVERY
   decoded value, printed and parsed back as the type, is itself: no condition on the value. *)
From GV Require Import Lang.LiteralDecode Check.LitOutputRoundTrip.

Theorem C09_decoder_produces_canonical_values : forall t bits l,
  LiteralDecode.dwf t = true -> Literal.from_bits t bits = Ok (Some l) -> Literal.has_type l t = true.
Proof. exact LiteralDecode.from_bits_has_type. Qed.
Print Assumptions C09_decoder_produces_canonical_values.

Theorem C09_every_decoded_output_prints_and_parses_back : forall intern unintern D,
  D_names_ok intern unintern D -> forall E T r fuel bits v,
  Types.wf E r = true -> LiteralDecode.dwf r = true -> type_always_printable r = true ->
  rty_of_cty intern D fuel T = Some r -> Literal.from_bits r bits = Ok (Some v) ->
  literal_parse_tokens intern D T (lit_tokens unintern v) = COk v.
Proof. exact output_roundtrip_all. Qed.
Print Assumptions C09_every_decoded_output_prints_and_parses_back.
