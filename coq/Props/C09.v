(* C09 — literal encoding round-trips, matches the circuit bit layout, is validated.
   This file only states the property theorems; the model is Lang/{Types,Literal}.v, the
   proofs are in Lang/LiteralProofs.v.

   E is the program's enum environment (name -> variants) that the type-free encoder
   `Literal::as_bits` consults; T is a resolved parameter type; [wf E T] says that T's enum
   types are E's and that struct fields are sorted by name without duplicates (what the
   parser produces; evaluated on every job of the tie).  [has_type v T]: v is a (canonical)
   value of T.  [denote l]: the value a spelling stands for (ArrayRepeat, typed Range,
   struct fields in any order), independent of any type.

   C09_print_parse and C09_identity are not theorems: the text parser is the full
   expression parser/checker (not modelled) and the identity program goes through the real
   compiler; both are checked as oracles on every generated type/value (tools/c09.py). *)
From GV Require Import Base.Util Lang.Types Lang.Literal Lang.LiteralProofs.

(* encoding a value of T yields exactly size(T) bits, never a panic *)
Theorem C09_encode_size : forall (E : list (N * rvariants)) (v : lit) (T : rty),
  wf E T = true -> has_type v T = true ->
  exists bits, as_bits E v = Ok bits /\ N.of_nat (length bits) = size T.
Proof. exact encode_size. Qed.
Print Assumptions C09_encode_size.

(* decoding the encoding of a value yields the value *)
Theorem C09_decode_encode : forall (E : list (N * rvariants)) (v : lit) (T : rty),
  wf E T = true -> has_type v T = true ->
  exists bits, as_bits E v = Ok bits /\ from_bits T bits = Ok (Some v).
Proof. exact decode_encode. Qed.
Print Assumptions C09_decode_encode.

(* the documented layout: big-endian two's-complement integers; elements and fields
   concatenated; enums = tag, payload, zero padding (the statement is spelled out in
   LiteralProofs.layout_statement) *)
Theorem C09_layout : layout_statement.
Proof. exact layout. Qed.
Print Assumptions C09_layout.

(* whatever the type test accepts denotes a value of the type, encodes without a panic to
   exactly the parameter's size, and to the same bits as that value *)
Theorem C09_accept_sound : forall (E : list (N * rvariants)) (l : lit) (T : rty),
  wf E T = true -> is_of_type l T = true ->
  exists v bits,
    denote l = Some v /\ has_type v T = true /\
    as_bits E l = Ok bits /\ as_bits E v = Ok bits /\ N.of_nat (length bits) = size T.
Proof. exact accept_sound. Qed.
Print Assumptions C09_accept_sound.

(* the type test is not vacuous: every value of the type is accepted and denotes itself *)
Theorem C09_values_accepted : forall (E : list (N * rvariants)) (v : lit) (T : rty),
  wf E T = true -> has_type v T = true -> is_of_type v T = true /\ denote v = Some v.
Proof. exact values_accepted_top. Qed.
Print Assumptions C09_values_accepted.

(* ------------------------------------------------------------------ the two encodings of the
   development are ONE (Lang/LitEnc.v): the model of the real Literal API (this file's theorems;
   tied to literal.rs on every run) and the encoding the program theorems speak about
   (Sem.encode / Compile/ValEnc.has_enc, on which "bit-level semantics = Sem.v" and through it
   the circuit theorems rest).  For a value v of a type t of a program: its canonical literal
   passes the real type test and the real encoder produces exactly has_enc's bits; the real
   decoder returns that literal.  And at the program level, for the full fragment: from argument
   LITERALS through the real encoder, the bit-level semantics, and the real decoder, one obtains
   the literal of the value Sem.v computes (lit_program_agree). *)
From GV Require Import Lang.Ast Lang.ValTy Compile.ValEnc Lang.LitEnc.

Theorem C09_real_encoder_is_the_semantic_encoding :
  forall P t v w rt, enums_small P = true ->
  has_enc P t v w -> ty_of_ast P t = Some rt ->
  exists l, lit_of_value P v t = Some l /\ has_type l rt = true /\ is_of_type l rt = true /\
            as_bits (enum_env P) l = Ok w.
Proof. exact lit_enc_agree. Qed.
Print Assumptions C09_real_encoder_is_the_semantic_encoding.

Theorem C09_real_decoder_inverts_the_semantic_encoding :
  forall P t v w rt l, enums_small P = true -> structs_sorted P = true ->
  has_enc P t v w -> ty_of_ast P t = Some rt -> lit_of_value P v t = Some l ->
  from_bits rt w = Ok (Some l) /\ lenN w = size rt.
Proof. exact lit_enc_decode. Qed.
Print Assumptions C09_real_decoder_inverts_the_semantic_encoding.
