(* C16 — a circuit that passes validation can be evaluated safely.
   This file only states the property theorems; proofs live in Circuit/*Proofs.v. *)
From GV Require Import Base.Util Circuit.Ssa Circuit.Reg Circuit.SsaProofs Circuit.RegProofs.

(* SSA circuits: every circuit value that validate accepts evaluates without a panic on
   inputs of the declared shape and yields one bit per declared output. *)
Theorem C16_ssa : forall (c : circuit) (ins : list (list bool)),
  ssa_validate c = None -> shape_ok (input_gates c) ins ->
  exists out, ssa_eval c ins = Some out /\ length out = length (output_gates c).
Proof. exact ssa_validate_safe. Qed.
Print Assumptions C16_ssa.

(* Register circuits: the strict evaluator (a register holds a value only once written;
   reading an unwritten register fails) succeeds, hence every register read was defined;
   the Rust-style evaluator (registers start as false) returns the same bits. *)
Theorem C16_reg : forall (c : rcircuit) (ins : list (list bool)),
  reg_validate c = Ok None -> shape_ok (input_regs c) ins ->
  exists out, reg_eval_strict c ins = Some out /\ reg_eval c ins = Some out /\
              length out = length (output_regs c).
Proof. exact reg_validate_safe. Qed.
Print Assumptions C16_reg.

(* validate itself never panics on any register circuit value *)
Theorem C16_reg_validate_total : forall c : rcircuit,
  reg_validate c <> Crash /\ reg_validate c <> OutOfFuel.
Proof. exact reg_validate_total. Qed.
Print Assumptions C16_reg_validate_total.
