(* C05 — accepted programs compile to valid circuits whose I/O shape matches their types.
   Proved here: what validation buys (a validated circuit evaluates without a panic and
   yields one bit per output) and the size function of the specification used as the
   reference for "size of the parameter / return type".  The acceptance => shape claim itself
   is checked per program by tools/c05.py. *)
From GV Require Import Base.Util Circuit.Ssa Circuit.SsaProofs Lang.Ast Lang.Sem.
Open Scope N_scope.

Theorem C05_valid_circuit_evaluates : forall c ins,
  ssa_validate c = None -> shape_ok (input_gates c) ins ->
  exists out, ssa_eval c ins = Some out /\ length out = length (output_gates c).
Proof. exact ssa_validate_safe. Qed.
Print Assumptions C05_valid_circuit_evaluates.

(* the reference sizes *)
Theorem C05_sizes_example :
  let P := mkProgram [(1, [(0, TInt false 8); (2, TBool)])] [(3, [[]; [TInt false 8; TInt true 16]; [TBool]])] [] [] 0 in
  sizeof P TBool = 1 /\ sizeof P (TInt true 64) = 64 /\ sizeof P (TArr (TStruct 1) 3) = 27 /\
  sizeof P (TEnum 3) = 26 /\ sizeof P (TTup []) = 0.
Proof. vm_compute. repeat split; reflexivity. Qed.
Print Assumptions C05_sizes_example.
