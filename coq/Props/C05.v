(* C05 — accepted programs compile to valid circuits whose I/O shape matches their types.
   Proved here: what validation buys (a validated circuit evaluates without a panic and
   yields one bit per output) and the size function of the specification used as the
   reference for "size of the parameter / return type".  The acceptance => shape claim itself
   is checked per program by tools/c05.py. *)
From GV Require Import Base.Util Circuit.Ssa Circuit.SsaProofs Lang.Ast Lang.Sem.
Open Scope N_scope.

Theorem C05_valid_circuit_evaluates : forall c ins,
  ssa_validate c = None -> shape_ok (input_gates c) ins ->
  exists out, ssa_eval c ins = Some out /\ length out = length (output_gates c).
Proof. exact ssa_validate_safe. Qed.
Print Assumptions C05_valid_circuit_evaluates.

(* the reference sizes *)
Theorem C05_sizes_example :
  let P := mkProgram [(1, [(0, TInt false 8); (2, TBool)])] [(3, [[]; [TInt false 8; TInt true 16]; [TBool]])] [] [] 0 in
  sizeof P TBool = 1 /\ sizeof P (TInt true 64) = 64 /\ sizeof P (TArr (TStruct 1) 3) = 27 /\
  sizeof P (TEnum 3) = 26 /\ sizeof P (TTup []) = 0.
Proof. vm_compute. repeat split; reflexivity. Qed.
Print Assumptions C05_sizes_example.

(* ------------------------------------------------------------------------------------
   Type soundness of the re-checker Lang/Wt.v with respect to the specification
   interpreter Lang/Sem.v (Lang/ValTy.v, Lang/WtSound.v, Lang/WtShape.v).
   [wt_program] is the function the checks run on every typed AST the real checker
   returns; these theorems say what its verdict guarantees. *)
From GV Require Import Lang.Wt Lang.ValTy Lang.WtSound Lang.WtShape.

(* value typing agrees with the layout functions: a typed value encodes to exactly
   sizeof(t) bits; whatever decode returns is typed *)
Theorem C05_has_ty_encode_length : forall P t v,
  ty_ok (pred ty_fuel) P t = true -> has_ty P v t = true ->
  exists bits, encode ty_fuel P t v = Some bits /\ length bits = N.to_nat (sizeof P t).
Proof. exact encode_sizeof. Qed.
Print Assumptions C05_has_ty_encode_length.

Theorem C05_decode_has_ty : forall P f t bs v r,
  decode f P t bs = Some (v, r) -> has_ty P v t = true.
Proof. exact decode_has_ty. Qed.
Print Assumptions C05_decode_has_ty.

(* ... and a typed value whose integers are in range is recovered by decode: Theorem 1,
   second half.  (Ranges are a separate predicate because Wt.v identifies the two 32-bit
   integer types: c05-literal-width-divergence.) *)
Theorem C05_decode_encode : forall P, enums_small P = true -> forall t v,
  ty_ok (pred ty_fuel) P t = true -> has_ty P v t = true -> in_rng P v t = true ->
  forall bits, encode ty_fuel P t v = Some bits -> decode ty_fuel P t bits = Some (v, []).
Proof. exact decode_encode_top. Qed.
Print Assumptions C05_decode_encode.

Theorem C05_decode_encode_nonvacuous :
  let P := mkProgram [(1, [(0, TInt false 8); (2, TBool)])] [(3, [[]; [TInt false 8; TInt true 16]; [TBool]])] [] [] 0 in
  let t := TArr (TTup [TStruct 1; TEnum 3]) 2 in
  let v := VArr [VTup [VTup [VInt 200; VBool true]; VEnum 1 [VInt 7; VInt (-3)]];
                 VTup [VTup [VInt 0; VBool false]; VEnum 2 [VBool true]]] in
  enums_small P = true /\ ty_ok (pred ty_fuel) P t = true /\ has_ty P v t = true /\ in_rng P v t = true /\
  match encode ty_fuel P t v with
  | Some bits => length bits = 70%nat /\ decode ty_fuel P t bits = Some (v, [])
  | None => False
  end.
Proof. vm_compute. repeat split; reflexivity. Qed.
Print Assumptions C05_decode_encode_nonvacuous.

(* preservation + progress, every construct of the language (strict = false: the only
   Stuck codes are pattern-match failure / join; strict = true: inside the syntactic
   fragment frag_* there is no Stuck at all) *)
Theorem C05_wt_sound_expr : forall P (strict : bool),
  wt_program P = true -> (strict = true -> frag_program P = true) ->
  forall n fw g e en,
    wt_expr fw P g e = true -> (strict = true -> frag_expr fw e = true) ->
    genv P g -> env_ok P (scopes en) g ->
    match eval n P en e with
    | Done (v, en') => has_ty P v (e_ty e) = true /\ env_ok P (scopes en') g
    | Stuck c => In c stuck_allowed /\ strict = false
    | Panicked _ _ | NoFuel => True
    end.
Proof. exact wt_sound_expr. Qed.
Print Assumptions C05_wt_sound_expr.

Theorem C05_wt_sound_block : forall P (strict : bool),
  wt_program P = true -> (strict = true -> frag_program P = true) ->
  forall n fw g b en t,
    wt_block fw P g b = Some t -> (strict = true -> frag_block fw b = true) ->
    genv P g -> env_ok P (scopes en) g ->
    match exec_block n P en b with
    | Done (v, en') => has_ty P v t = true /\ env_ok P (tl (scopes en')) (tl g)
    | Stuck c => In c stuck_allowed /\ strict = false
    | Panicked _ _ | NoFuel => True
    end.
Proof. exact wt_sound_block. Qed.
Print Assumptions C05_wt_sound_block.

Theorem C05_wt_sound_stmt : forall P (strict : bool),
  wt_program P = true -> (strict = true -> frag_program P = true) ->
  forall n fw g s en g' t,
    wt_stmt fw P g s = Some (g', t) -> (strict = true -> frag_stmt fw s = true) ->
    genv P g -> env_ok P (scopes en) g ->
    match exec n P en s with
    | Done (v, en') => has_ty P v t = true /\ env_ok P (scopes en') g'
    | Stuck c => In c stuck_allowed /\ strict = false
    | Panicked _ _ | NoFuel => True
    end.
Proof. exact wt_sound_stmt. Qed.
Print Assumptions C05_wt_sound_stmt.

(* main on typed argument values *)
Theorem C05_wt_main_values : forall P d fuel args,
  wt_program P = true -> find_fn P (p_main P) = Some d -> binds_ok P args (fn_params d) ->
  match eval_consts fuel P with
  | Done en0 =>
      match exec_block fuel P (push_scope (bind_all (push_scope en0) args)) (fn_body d) with
      | Done (v, _) => has_ty P v (fn_ret d) = true
      | Stuck c => In c stuck_allowed /\ frag_program P = false
      | Panicked _ _ | NoFuel => True
      end
  | NoFuel => True
  | Stuck _ | Panicked _ _ => False
  end.
Proof. exact wt_main_values. Qed.
Print Assumptions C05_wt_main_values.

(* the shape of what run_main returns *)
Theorem C05_wt_main_shape : forall P fuel inputs, wt_program P = true ->
  match run_main fuel P inputs with
  | RunOk bits _ =>
      exists d, find_fn P (p_main P) = Some d /\
        (ty_ok (pred ty_fuel) P (fn_ret d) = true -> length bits = N.to_nat (sizeof P (fn_ret d)))
  | RunStuck c =>
      (In c stuck_allowed /\ frag_program P = false) \/
      (c = 90 /\ find_fn P (p_main P) = None) \/ c = 91 \/
      (c = 92 /\ exists d, find_fn P (p_main P) = Some d /\ ty_ok (pred ty_fuel) P (fn_ret d) = false)
  | RunPanic _ _ | RunNoFuel => True
  end.
Proof. exact wt_main_shape. Qed.
Print Assumptions C05_wt_main_shape.

Theorem C05_wt_main_shape_fragment : forall P fuel inputs d,
  wt_program P = true -> frag_program P = true ->
  find_fn P (p_main P) = Some d -> ty_ok (pred ty_fuel) P (fn_ret d) = true ->
  match run_main fuel P inputs with
  | RunOk bits _ => length bits = N.to_nat (sizeof P (fn_ret d))
  | RunStuck c => c = 91
  | RunPanic _ _ | RunNoFuel => True
  end.
Proof. exact wt_main_shape_fragment. Qed.
Print Assumptions C05_wt_main_shape_fragment.

(* non-vacuity: a program using a constant, a call, let mut, a for loop, assignment through
   a tuple and an index accessor, a struct, an enum, match with binding patterns, if, cast,
   array / tuple literals and accesses satisfies every hypothesis *)
Module C05Demo.
  Definition m0 := mkMeta 0 0 0 0.
  Definition u8 := TInt false 8.
  Definition i16 := TInt true 16.
  Definition usz := TInt false 32.
  Definition ex (e : expr_inner) (t : ty) := Ex e m0 t.
  Definition st (s : stmt_inner) := St s m0.
  Definition pid (x : N) (t : ty) := Pat (PId x) m0 t.
  Definition id (x : N) (t : ty) := ex (EId x) t.
  Definition n8 (k : N) := ex (ENumU k 8) u8.
  Definition tS := TStruct 1.
  Definition tE := TEnum 3.
  Definition tT := TTup [u8; TArr u8 2].
  Definition tR := TTup [u8; TBool].
  Definition demo : program :=
    mkProgram
      [(1, [(0, u8); (2, TBool)])]
      [(3, [[]; [u8; i16]; [TBool]])]
      [ mkFn 8 [(20, u8)] u8 [st (SExpr (ex (EOp OAdd (id 20 u8) (id 7 u8)) u8))];
        mkFn 9 [(21, u8); (22, TArr u8 2)] tR
          [ st (SLetMut 10 (id 21 u8));
            st (SFor (pid 11 u8) (id 22 (TArr u8 2))
                  [st (SAssign 10 [] (ex (EOp OAdd (id 10 u8) (ex (ECall 8 [id 11 u8]) u8)) u8))]);
            st (SLet (pid 12 tS) (ex (EStructLit 1 [(2, ex ETrue TBool); (0, id 10 u8)]) tS));
            st (SLetMut 13 (ex (ETupLit [ex (EFld (id 12 tS) 0) u8; ex (EArrLit [n8 1; n8 2]) (TArr u8 2)]) tT));
            st (SAssign 13 [ATup tT 1; AIdx (TArr u8 2) (ex (ENumU 0 8) usz)] (n8 3));
            st (SLet (pid 14 u8)
                  (ex (EMatch (ex (EEnumLit 3 1 [id 10 u8; ex (ENumS 4 16) i16]) tE)
                         [ (Pat (PEnumTup 3 1 [pid 15 u8; pid 16 i16]) m0 tE, id 15 u8);
                           (pid 17 tE, n8 0) ]) u8));
            st (SExpr (ex (EIf (ex (EFld (id 12 tS) 2) TBool)
                            (ex (ETupLit [id 14 u8; ex ETrue TBool]) tR)
                            (ex (ETupLit [ex (EIdx (ex (ETupAcc (id 13 tT) 1) (TArr u8 2)) (ex (ENumU 1 8) usz)) u8;
                                          ex (ECast TBool (id 14 u8)) TBool]) tR)) tR)) ] ]
      [(7, n8 5)]
      9.
  Definition b8 (k : Z) := bits_of_Z 8 k.
  (* non-exhaustive match: accepted by the re-checker, outside the fragment *)
  Definition demo41 : program :=
    mkProgram [] [] [mkFn 9 [(0, u8)] u8
       [st (SExpr (ex (EMatch (id 0 u8) [(Pat (PNumU 0) m0 u8, n8 1)]) u8))]] [] 9.
End C05Demo.

Theorem C05_wt_sound_nonvacuous :
  wt_program C05Demo.demo = true /\ frag_program C05Demo.demo = true /\
  ty_ok (pred ty_fuel) C05Demo.demo C05Demo.tR = true /\ sizeof C05Demo.demo C05Demo.tR = 9 /\
  run_main 50 C05Demo.demo [C05Demo.b8 3; C05Demo.b8 1 ++ C05Demo.b8 2] =
    RunOk [false; false; false; true; false; false; false; false; true] false.
Proof. vm_compute. repeat split; reflexivity. Qed.
Print Assumptions C05_wt_sound_nonvacuous.

(* the Stuck codes left open by the general theorem are really reachable outside the
   fragment: the re-checker does not re-check exhaustiveness (that is C08) *)
Theorem C05_stuck_allowed_reachable :
  wt_program C05Demo.demo41 = true /\ frag_program C05Demo.demo41 = false /\
  run_main 50 C05Demo.demo41 [C05Demo.b8 3] = RunStuck 41.
Proof. vm_compute. repeat split; reflexivity. Qed.
Print Assumptions C05_stuck_allowed_reachable.

(* ------------------------------------------------------------------------------------
   Program level: every circuit the model of compile.rs emits (whenever the bit-level
   semantics of the program is defined on some input of the right length) passes
   Circuit::validate, has exactly the party sizes computed by the parameter wiring and
   161 + |value bits| outputs. *)
From GV Require Import Builder.Builder Builder.Build Panic.PanicRec Panic.PanicSem Compile.Lower Compile.TSem Compile.LowerSound.

Theorem C05_lowered_circuit_valid_shape : forall fuel dedup P s1 outs,
  lower_main_with fuel dedup P = Ok (PreOk s1 outs) ->
  counter (cb s1) + (b_shift (cb s1) - 2) <= MAX_GATES ->
  exists fd igs bindings,
    find_fn P (p_main P) = Some fd /\ param_wiring P (fn_params fd) = (igs, bindings) /\
    forall ins inp o vouts,
      load_inputs igs ins = Some inp ->
      tsem_program fuel P (param_args bindings inp) = Ok (o, vouts) ->
      exists c,
        lower_program_with fuel dedup P = Ok (LCircuit c) /\
        ssa_validate c = None /\ input_gates c = igs /\
        length (output_gates c) = (161 + length vouts)%nat.
Proof.
  intros fuel dedup P s1 outs H M.
  destruct (lower_program_sound fuel dedup P s1 outs H M) as (fd & igs & bindings & Efd & Epw & S).
  exists fd, igs, bindings. split; [assumption|]. split; [assumption|]. intros ins inp o vouts Hl Ht.
  destruct (S ins inp o vouts Hl Ht) as (c & out & L & V & Ig & Len & _). eauto.
Qed.
Print Assumptions C05_lowered_circuit_valid_shape.

(* the parameter wiring: one party per parameter, of the size of its type; a single array
   parameter becomes one party per element *)
Theorem C05_param_wiring_sizes : forall P x el n p1 p2 ps,
  fst (param_wiring P [(x, TArr el n)]) = repeat (N.of_nat (szn P el)) (N.to_nat n) /\
  fst (param_wiring P (p1 :: p2 :: ps)) = map (fun p => N.of_nat (szn P (snd p))) (p1 :: p2 :: ps).
Proof.
  intros P x el n p1 p2 ps. split; [reflexivity|].
  assert (G : forall (params : list (N * ty)) (igs : list N) (bs : list (N * list N)) (w : N),
    fst (fst (fold_left (fun '(igs, bs, wire) '(x, t) =>
                 let s := szn P t in
                 (igs ++ [N.of_nat s], bs ++ [(x, wire_range wire s)], wire + N.of_nat s)) params (igs, bs, w)))
    = igs ++ map (fun p => N.of_nat (szn P (snd p))) params).
  { induction params as [|[y t] params IH]; intros igs bs w; cbn [fold_left map]; [now rewrite app_nil_r|].
    rewrite IH. cbn [snd]. now rewrite <- app_assoc. }
  unfold param_wiring. destruct p1 as [y1 t1]. specialize (G ((y1, t1) :: p2 :: ps) [] [] 2).
  destruct t1; destruct (fold_left _ _ _) as [[igs bs] w]; cbn [fst] in *; exact G.
Qed.
Print Assumptions C05_param_wiring_sizes.

(* ------------------------------------------------------------------ "compiling an accepted
   program completes without an internal panic and the outputs have the size of the return
   type", for the bit-level semantics (Compile/TSemSafe.v, 2.5 kLoC): for a program that passes
   the re-checker Wt.v and the boolean side conditions [fns_ok] (type definitions closed and not
   too deep, integer widths 8/16/32/64, array lengths <= 2^32, indices <= 32 bits, struct
   patterns with distinct fields and binders, no join built-ins) and [consts_ok], the lowering
   over Booleans NEVER crashes, on any arguments of the parameters' sizes and for any fuel, and
   returns exactly size(return type) bits.  With the parametricity / simulation theorems of C01
   the same then holds for the builder instance, i.e. for the model of compile.rs.
   [safe_program_ok] is a boolean function evaluated per program by the extracted checker. *)
From GV Require Import Compile.TSemSafe.

Theorem C05_bit_semantics_never_crashes_and_has_the_declared_shape :
  forall fuel P args, safe_program_ok P = true ->
  exists fd, find_fn P (p_main P) = Some fd /\
    (Forall2 (fun p a => length a = szn P (snd p)) (fn_params fd) args ->
     match tsem_program fuel P args with
     | Crash => False
     | OutOfFuel => True
     | Ok (_, outs) => length outs = szn P (fn_ret fd)
     end).
Proof. exact tsem_program_safe_ok. Qed.
Print Assumptions C05_bit_semantics_never_crashes_and_has_the_declared_shape.

(* ------------------------------------------------------------------ FROM THE UNTYPED PROGRAM: accepted
   programs do not crash the compiler (Check/InferSafe.v; Check/Infer.v is the model of src/check.rs,
   tied to it).  For an untyped program in the Boolean fragment [in_sound_fragment] (everything except
   join, const-sized arrays and unsuffixed literals) whose struct definitions and struct patterns have
   their fields sorted by name ([structs_sorted], [sp_program]: what the parser produces) and whose
   entry function is declared: if the (model of the) checker accepts it and the node types of its
   output pass [tys_program] (nesting depth and array-size caps of the TSemSafe model, a Boolean on
   the output), then the output satisfies TSemSafe.safe_program_ok - so the lowering over Booleans
   never crashes on arguments of the parameters' sizes, for any fuel, and returns size(ret) bits. *)
From GV Require Import Front.Scan Front.ParseExpr Check.UAst Check.Infer Check.InferSound Check.InferSafe Compile.TSemSafe.

Theorem C05_accepted_programs_satisfy_the_compilers_assumptions : forall intern : list N -> N,
  (forall a b, intern a = intern b -> a = b) -> forall fuel P P',
  in_sound_fragment P = true -> structs_sorted P = true -> sp_program P = true -> main_declared P = true ->
  (fuel <= S Wt.wt_fuel)%nat -> check_program intern fuel P = COk P' -> tys_program P' = true ->
  safe_program_ok P' = true.
Proof. exact check_safe_fragment. Qed.
Print Assumptions C05_accepted_programs_satisfy_the_compilers_assumptions.

Theorem C05_accepted_programs_do_not_crash_the_compiler : forall intern : list N -> N,
  (forall a b, intern a = intern b -> a = b) -> forall fuel P P',
  in_sound_fragment P = true -> structs_sorted P = true -> sp_program P = true -> main_declared P = true ->
  (fuel <= S Wt.wt_fuel)%nat -> check_program intern fuel P = COk P' -> tys_program P' = true ->
  forall tfuel args, exists fd, find_fn P' (p_main P') = Some fd /\
    (Forall2 (fun p a => length a = Lower.szn P' (snd p)) (fn_params fd) args ->
     match TSem.tsem_program tfuel P' args with
     | Crash => False
     | OutOfFuel => True
     | Ok (_, outs) => length outs = Lower.szn P' (fn_ret fd)
     end).
Proof. exact accepted_programs_do_not_crash_the_compiler. Qed.
Print Assumptions C05_accepted_programs_do_not_crash_the_compiler.

(* ... and they COMPILE TO VALID CIRCUITS OF THE DECLARED SHAPE (Check/InferCompile.v = InferSafe +
   TSemTotal.lower_program_total): the first sentence of the property, from the untyped program, with
   Boolean premises only (the fragment tests on the untyped program; tys_program, params_ok,
   fuel_enough, within_gate_bound on the checker's output). *)
From GV Require Import Circuit.Ssa Compile.Lower Compile.TSem Compile.TSemTotal Compile.EndToEnd Check.InferCompile Panic.PanicSem.

Theorem C05_accepted_programs_compile_to_valid_circuits : forall intern : list N -> N,
  (forall a b, intern a = intern b -> a = b) -> forall fuel P P' fuel' dedup,
  in_sound_fragment P = true -> structs_sorted P = true -> sp_program P = true -> main_declared P = true ->
  (fuel <= S Wt.wt_fuel)%nat -> check_program intern fuel P = COk P' -> tys_program P' = true ->
  params_ok P' = true -> fuel_enough fuel' P' = true -> within_gate_bound fuel' dedup P' = true ->
  exists c fd,
    lower_program_with fuel' dedup P' = Ok (LCircuit c) /\
    find_fn P' (p_main P') = Some fd /\
    ssa_validate c = None /\
    input_gates c = fst (main_wiring P') /\
    length (output_gates c) = (161 + szn P' (fn_ret fd))%nat /\
    forall ins inp,
      load_inputs (input_gates c) ins = Some inp ->
      exists o vouts out,
        tsem_program fuel' P' (main_args P' inp) = Ok (o, vouts) /\
        length vouts = szn P' (fn_ret fd) /\
        ssa_eval c ins = Some out /\
        parse_panic out = parse_spec o vouts /\
        (o = None -> skipn 161 out = vouts).
Proof. exact accepted_programs_compile_to_valid_circuits. Qed.
Print Assumptions C05_accepted_programs_compile_to_valid_circuits.
