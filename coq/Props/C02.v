(* C02 — panic iff the source semantics fail; first failure wins.  (The panic-record
   algebra is added by Panic/PanicProofs.v; this file pins the specification.) *)
From GV Require Import Base.Util Lang.Ast Lang.Sem.

Open Scope N_scope.

(* checked arithmetic of the specification: a result is produced iff it is representable *)
Theorem C02_checked_iff : forall sg bits m z,
  (exists v, checked sg bits m z = Done v) <-> in_range sg bits z = true.
Proof.
  intros sg bits m z. unfold checked. destruct (in_range sg bits z); split; intro H.
  - reflexivity.
  - eauto.
  - destruct H as [v H]. discriminate.
  - discriminate.
Qed.
Print Assumptions C02_checked_iff.

(* short-circuit operands are not evaluated: false && (1u8/0u8 == 0u8) is false, no panic *)
Definition m0 := mkMeta 0 0 0 0.
Definition u8 := TInt false 8.
Theorem C02_short_circuit_silent :
  eval 20 (mkProgram [] [] [] [] 0) (mkEnv [[]] false)
    (Ex (EOp OLAnd (Ex EFalse m0 TBool)
          (Ex (EOp OEq (Ex (EOp ODiv (Ex (ENumU 1) m0 u8) (Ex (ENumU 0) m0 u8)) m0 u8) (Ex (ENumU 0) m0 u8)) m0 TBool))
        m0 TBool)
  = Done (VBool false, mkEnv [[]] false).
Proof. vm_compute. reflexivity. Qed.
Print Assumptions C02_short_circuit_silent.
