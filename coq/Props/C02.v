(* C02 — panic iff the source semantics fail; first failure wins; untaken code is silent.
   This file: the panic-record layer (push_panic_if / peek_panic / replace_panic_with /
   mux_panic / EvalPanic::parse) of the REPAIRED code (/repo commit c5c1727), plus the
   witnesses that the code as found refutes the same statements.  [inv] is the concrete
   builder invariant of Builder/BuilderProofs.v (it holds of new_builder and is kept by every
   builder operation); the generic lemmas of Panic/PanicProofs.v (stated for any invariant
   with [builder_ops_sound]) are instantiated with [builder_sound]. *)
From GV Require Import Base.Util Base.NMap Builder.Builder Builder.Build Builder.BuilderSem
  Builder.BuilderSpec Builder.BuilderProofs Panic.PanicRec Panic.PanicSem Panic.PanicProofs.

(* the record the builder starts with is PanicResult::ok(), the 161 wires Build.v prunes from *)
Theorem C02_panic_ok_wires : prec_wires panic_ok = panic_ok_wires.
Proof. reflexivity. Qed.
Print Assumptions C02_panic_ok_wires.

(* push_panic_if: FIRST FAILURE WINS.  The observation after the push is the old one if the
   record had already panicked, else (reason, location) of this push iff its condition holds.
   In particular a raised panic is never dropped or overwritten, also when [cond] was pushed
   before (cache hit). *)
Theorem C02_push_obs : forall b P cond r m, inv b -> pstate_ok b P -> valid b cond ->
  exists P' b', push_panic_if b P cond r m = Ok (P', b') /\ inv b' /\ ext b b' /\ pstate_ok b' P' /\
    forall inp, ins_ok b inp ->
      obs inp b' (ps_rec P') =
        match obs inp b (ps_rec P) with
        | Some x => Some x
        | None => if den inp b cond then Some (preason_num r, ploc32 m) else None
        end.
Proof. exact (push_obs inv builder_sound). Qed.
Print Assumptions C02_push_obs.

(* mux_panic: the merged record is the then-state's where the condition holds, else the
   else-state's: whatever the branch not taken pushed is silent. *)
Theorem C02_mux_obs : forall b c T F, inv b -> valid b c -> pstate_ok b T -> pstate_ok b F ->
  exists P' b', mux_panic b c T F = Ok (P', b') /\ inv b' /\ ext b b' /\ pstate_ok b' P' /\
    forall inp, ins_ok b inp ->
      obs inp b' (ps_rec P') = if den inp b c then obs inp b (ps_rec T) else obs inp b (ps_rec F).
Proof. exact (mux_obs inv builder_sound). Qed.
Print Assumptions C02_mux_obs.

(* cache_inv is part of [pstate_ok]; it is what makes a cache hit a no-op *)
Theorem C02_cache_inv : forall b P cond r m, pstate_ok b P -> nmem cond (ps_cache P) = true ->
  push_panic_if b P cond r m = Ok (P, b) /\
  forall inp, ins_ok b inp ->
    (den inp b cond = true -> den inp b (pr_flag (ps_rec P)) = true) /\
    push_spec (obs inp b (ps_rec P)) (den inp b cond) r m = obs inp b (ps_rec P).
Proof. exact cache_hit_noop. Qed.
Print Assumptions C02_cache_inv.

(* The usage protocol of compile.rs (If / Match arm / && / || / JoinLoop: both branches start
   from the state saved before, then mux): the record computes the reference semantics
   [psem] = first failing push on the executed path. *)
Theorem C02_protocol : forall code b P, inv b -> pstate_ok b P -> Forall (valid b) (pcode_conds code) ->
  exists P' b', run_pcode b P code = Ok (P', b') /\ inv b' /\ ext b b' /\ pstate_ok b' P' /\
    forall inp, ins_ok b inp ->
      obs inp b' (ps_rec P') = psem (den inp b) code (obs inp b (ps_rec P)).
Proof. exact (run_pcode_obs inv builder_sound). Qed.
Print Assumptions C02_protocol.

(* a panic once raised is never dropped or overwritten by code that runs afterwards *)
Theorem C02_sticky : forall code b P, inv b -> pstate_ok b P -> Forall (valid b) (pcode_conds code) ->
  exists P' b', run_pcode b P code = Ok (P', b') /\
    forall inp x, ins_ok b inp -> obs inp b (ps_rec P) = Some x -> obs inp b' (ps_rec P') = Some x.
Proof. exact (sticky inv builder_sound). Qed.
Print Assumptions C02_sticky.

(* From a fresh builder: the observation is the reference semantics started without a panic;
   the panic_type field ALWAYS decodes to a valid reason number (flag set or not), hence
   EvalPanic::parse never reaches PanicReason::from_num's panic! and returns exactly the
   observation. *)
Theorem C02_reason_always_valid : forall dedup inputs code,
  let b0 := new_builder dedup inputs in
  Forall (valid b0) (pcode_conds code) ->
  exists P' b', run_pcode b0 pstate_new code = Ok (P', b') /\ pstate_ok b' P' /\
    forall inp, ins_ok b0 inp ->
      obs inp b' (ps_rec P') = psem (den inp b0) code None /\
      1 <= rec_type inp b' (ps_rec P') <= 3 /\
      forall rest, parse_panic (rec_bits inp b' (ps_rec P') ++ rest)
                   = parse_spec (psem (den inp b0) code None) rest
                   /\ parse_panic (rec_bits inp b' (ps_rec P') ++ rest) <> Crash.
Proof. exact (protocol_from_new inv builder_sound). Qed.
Print Assumptions C02_reason_always_valid.

(* the decoder on any well-formed record *)
Theorem C02_parse_record : forall b P inp rest, pstate_ok b P -> ins_ok b inp ->
  parse_panic (rec_bits inp b (ps_rec P) ++ rest) = parse_spec (obs inp b (ps_rec P)) rest /\
  parse_panic (rec_bits inp b (ps_rec P) ++ rest) <> Crash.
Proof. exact parse_record. Qed.
Print Assumptions C02_parse_record.

(* C06 at this layer: the repaired mux_panic emits no gate in hash order; the only iteration
   left (set intersection) yields the same builder, record and set members for every order. *)
Theorem C02_mux_panic_order_irrelevant : forall keys1 keys2 b c T F,
  (forall k, In k keys1 <-> nmem k (ps_cache T) = true) ->
  (forall k, In k keys2 <-> nmem k (ps_cache T) = true) ->
  match mux_panic_keys keys1 b c T F, mux_panic_keys keys2 b c T F with
  | Ok (P1, b1), Ok (P2, b2) =>
      b1 = b2 /\ ps_rec P1 = ps_rec P2 /\ forall k, nmem k (ps_cache P1) = nmem k (ps_cache P2)
  | Crash, Crash | OutOfFuel, OutOfFuel => True
  | _, _ => False
  end.
Proof. exact mux_panic_two_orders. Qed.
Print Assumptions C02_mux_panic_order_irrelevant.

(* non-vacuity / the code as found: concrete runs (vm_compute) *)
Theorem C02_push_cached_refuted :
  let b0 := new_builder true [2] in
  match push_panic_if_old b0 pstate_old_new 2 Overflow (ex_loc 1) with
  | Ok (P1, b1) =>
    match push_panic_if_old b1 P1 3 DivByZero (ex_loc 2) with
    | Ok (P2, b2) =>
      match push_panic_if_old b2 P2 2 OutOfBounds (ex_loc 3) with
      | Ok (P3, b3) =>
          let inp := [false; true] in
          obs inp b2 (po_rec P2) = Some (2, ex_loc 2) /\ obs inp b3 (po_rec P3) = None
      | _ => False
      end
    | _ => False
    end
  | _ => False
  end.
Proof. exact push_cached_refuted. Qed.
Print Assumptions C02_push_cached_refuted.

Theorem C02_push_cached_repaired :
  let b0 := new_builder true [2] in
  match run_pcode b0 pstate_new
          (PSeq (PPush 2 Overflow (ex_loc 1)) (PSeq (PPush 3 DivByZero (ex_loc 2)) (PPush 2 OutOfBounds (ex_loc 3)))) with
  | Ok (P3, b3) =>
      obs [false; true] b3 (ps_rec P3) = Some (2, ex_loc 2) /\
      obs [true; true] b3 (ps_rec P3) = Some (1, ex_loc 1) /\
      obs [false; false] b3 (ps_rec P3) = None
  | _ => False
  end.
Proof. exact push_cached_repaired. Qed.
Print Assumptions C02_push_cached_repaired.

(* code as found: a condition cached in one branch only survives the mux; the later hit
   reports the location inside the branch that was NOT taken (X = false, A = true) *)
Theorem C02_one_sided_key_refuted :
  let b0 := new_builder true [2] in
  let P0 := pstate_old_new in
  match push_panic_if_old b0 P0 2 Overflow (ex_loc 1) with
  | Ok (PT, b1) =>
    match mux_panic_old [2] b1 3 PT P0 with
    | Ok (PM, b2) =>
      match push_panic_if_old b2 PM 2 DivByZero (ex_loc 2) with
      | Ok (P3, b3) => obs [true; false] b3 (po_rec P3) = Some (1, ex_loc 1)
      | _ => False
      end
    | _ => False
    end
  | _ => False
  end.
Proof. exact one_sided_key_refuted. Qed.
Print Assumptions C02_one_sided_key_refuted.

(* code as found, C06: two iteration orders of the cache keys, two different gate lists *)
Theorem C02_mux_panic_old_order_refuted :
  let b0 := new_builder false [3] in
  let P0 := pstate_old_new in
  match push_panic_if_old b0 P0 2 Overflow (ex_loc 1) with
  | Ok (T1, b1) =>
    match push_panic_if_old b1 T1 3 DivByZero (ex_loc 2) with
    | Ok (T2, b2) =>
      match push_panic_if_old b2 P0 3 DivByZero (ex_loc 3) with
      | Ok (F1, b3) =>
        match push_panic_if_old b3 F1 2 Overflow (ex_loc 4) with
        | Ok (F2, b4) =>
          match mux_panic_old [2; 3; 2; 3] b4 4 T2 F2, mux_panic_old [3; 2; 3; 2] b4 4 T2 F2 with
          | Ok (_, bA), Ok (_, bB) => gates_eqb (b_gates_rev bA) (b_gates_rev bB) = false
          | _, _ => False
          end
        | _ => False
        end
      | _ => False
      end
    | _ => False
    end
  | _ => False
  end.
Proof. exact mux_panic_old_order_refuted. Qed.
Print Assumptions C02_mux_panic_old_order_refuted.

(* ---------------------------------------------------------------- the specification side *)
From GV Require Import Lang.Ast Lang.Sem.
Open Scope N_scope.

(* checked arithmetic of the specification: a result is produced iff it is representable *)
Theorem C02_checked_iff : forall sg bits m z,
  (exists v, checked sg bits m z = Done v) <-> in_range sg bits z = true.
Proof.
  intros sg bits m z. unfold checked. destruct (in_range sg bits z); split; intro H.
  - reflexivity.
  - eauto.
  - destruct H as [v H]. discriminate.
  - discriminate.
Qed.
Print Assumptions C02_checked_iff.

(* short-circuit operands are not evaluated: false && (1u8/0u8 == 0u8) is false, no panic *)
Definition m0 := mkMeta 0 0 0 0.
Definition u8 := TInt false 8.
Theorem C02_short_circuit_silent :
  eval 20 (mkProgram [] [] [] [] 0) (mkEnv [[]] false)
    (Ex (EOp OLAnd (Ex EFalse m0 TBool)
          (Ex (EOp OEq (Ex (EOp ODiv (Ex (ENumU 1 8) m0 u8) (Ex (ENumU 0 8) m0 u8)) m0 u8) (Ex (ENumU 0 8) m0 u8)) m0 TBool))
        m0 TBool)
  = Done (VBool false, mkEnv [[]] false).
Proof. vm_compute. reflexivity. Qed.
Print Assumptions C02_short_circuit_silent.

(* ------------------------------------------------------------------------------------
   Program level (Compile/Lower.v = model of compile.rs, Compile/TSem.v = its bit-level
   semantics).  The panic the circuit reports is exactly the panic observation of the
   bit-level semantics: same presence, same reason, same location; this is the decoding half
   of lower_program_sound. *)
From GV Require Import Circuit.Ssa Builder.Build Lang.Ast Compile.Lower Compile.TSem Compile.LowerSound Compile.TSemFacts.

Theorem C02_circuit_panic_is_semantics_panic : forall fuel dedup P s1 outs,
  lower_main_with fuel dedup P = Ok (PreOk s1 outs) ->
  counter (cb s1) + (b_shift (cb s1) - 2) <= MAX_GATES ->
  exists fd igs bindings,
    find_fn P (p_main P) = Some fd /\ param_wiring P (fn_params fd) = (igs, bindings) /\
    forall ins inp o vouts,
      load_inputs igs ins = Some inp ->
      tsem_program fuel P (param_args bindings inp) = Ok (o, vouts) ->
      exists c out,
        lower_program_with fuel dedup P = Ok (LCircuit c) /\ ssa_eval c ins = Some out /\
        parse_panic out = parse_spec o vouts.
Proof.
  intros fuel dedup P s1 outs H M.
  destruct (lower_program_sound fuel dedup P s1 outs H M) as (fd & igs & bindings & Efd & Epw & S).
  exists fd, igs, bindings. split; [assumption|]. split; [assumption|]. intros ins inp o vouts Hl Ht.
  destruct (S ins inp o vouts Hl Ht) as (c & out & L & _ & _ & _ & E & Pp & _). eauto.
Qed.
Print Assumptions C02_circuit_panic_is_semantics_panic.

(* In the bit-level semantics both branches of a conditional are evaluated from the state
   after the condition, and value, variables and PANIC OBSERVATION of the whole conditional are
   those of the branch the condition bit selects: a failing operation in the branch not taken
   is silent, and a panic raised before (sticky through push_spec) or in the taken branch is
   kept. *)
Theorem C02_untaken_branch_is_silent : forall P eB pB bB c t f m ty E o b E0 o0 tw ET oT fw EF oF,
  eB c E o = Ok (([b], E0), o0) ->
  eB t E0 o0 = Ok ((tw, ET), oT) ->
  eB f E0 o0 = Ok ((fw, EF), oF) ->
  length tw = length fw -> same_env_shape ET EF -> Forall keys_distinct EF ->
  lower_expr_body tops P eB pB bB (Ex (EIf c t f) m ty) E o =
    Ok ((if b then tw else fw, if b then ET else EF), if b then oT else oF).
Proof. exact tsem_if_selects. Qed.
Print Assumptions C02_untaken_branch_is_silent.

(* short-circuited operands are silent in the bit-level semantics: neither their panics nor their
   assignments are visible (statements in Compile/TSemControl.v) *)
From GV Require Import Compile.TSemControl.
Theorem C02_bitsem_tsem_land_short_circuit : ltac:(let T := type of tsem_land_short_circuit in exact T).
Proof. exact tsem_land_short_circuit. Qed.
Print Assumptions C02_bitsem_tsem_land_short_circuit.
Theorem C02_bitsem_tsem_lor_short_circuit : ltac:(let T := type of tsem_lor_short_circuit in exact T).
Proof. exact tsem_lor_short_circuit. Qed.
Print Assumptions C02_bitsem_tsem_lor_short_circuit.
Theorem C02_bitsem_tsem_match_first : ltac:(let T := type of tsem_match_first in exact T).
Proof. exact tsem_match_first. Qed.
Print Assumptions C02_bitsem_tsem_match_first.

(* an index panics OutOfBounds exactly when it is not below the array length (reads and writes) *)
From GV Require Import Compile.TSemArray.
Theorem C02_bitsem_tsem_bounds_check : ltac:(let T := type of tsem_bounds_check in exact T).
Proof. exact tsem_bounds_check. Qed.
Print Assumptions C02_bitsem_tsem_bounds_check.
Theorem C02_bitsem_tsem_array_read : ltac:(let T := type of tsem_array_read in exact T).
Proof. exact tsem_array_read. Qed.
Print Assumptions C02_bitsem_tsem_array_read.
Theorem C02_bitsem_tsem_array_write_out_of_bounds : ltac:(let T := type of tsem_array_write_out_of_bounds in exact T).
Proof. exact tsem_array_write_out_of_bounds. Qed.
Print Assumptions C02_bitsem_tsem_array_write_out_of_bounds.

(* ------------------------------------------------------------------ "a panic once raised is never
   dropped or overwritten by code that runs afterwards", for the WHOLE language at the level of the
   bit-level semantics: any run of an expression / block / statement / pattern that starts with a
   recorded panic ends with exactly that panic (no typing or fragment hypothesis: match arms,
   join loops, calls, assignments through accessors included).  With
   C01_circuit_computes_bit_semantics this holds for the emitted circuits on all inputs. *)
From GV Require Import Compile.TSemSticky.

Theorem C02_recorded_panic_is_never_lost : forall P fuel x,
  (forall e E w E' o', lower_expr tops fuel P e E (Some x) = Ok ((w, E'), o') -> o' = Some x) /\
  (forall b E w E' o', lower_block tops fuel P b E (Some x) = Ok ((w, E'), o') -> o' = Some x) /\
  (forall s E w E' o', lower_stmt tops fuel P s E (Some x) = Ok ((w, E'), o') -> o' = Some x) /\
  (forall p mw E c E' o', lower_pattern tops fuel P p mw E (Some x) = Ok ((c, E'), o') -> o' = Some x).
Proof. exact tsem_sticky_all. Qed.
Print Assumptions C02_recorded_panic_is_never_lost.

(* ------------------------------------------------------------------ the property itself, at the
   SOURCE level, for every program in the proved fragments (Compile/Fragment.v covered_program:
   about 80% of the generated test programs, reported per run): the bit-level semantics records a
   panic IF AND ONLY IF Sem.run_main panics, and then exactly Sem.v's reason and location - the
   first failing operation in evaluation order, by the definition of Sem.v (strict, left to right,
   branches not taken / arms not selected / short-circuited operands not evaluated).  With the
   circuit theorems of C01 the decoded output of the emitted circuit is that panic, on every
   input that is a canonical encoding. *)
From GV Require Import Compile.Fragment Compile.TSemSemFull.

Theorem C02_covered_programs_panic_iff_the_source_semantics_panics :
  forall P fuel fw fT args o outs,
  covered_program fw P = true -> canonical_main_args P args = true ->
  tsem_program fT P args = Ok (o, outs) ->
  match Sem.run_main fuel P args with
  | Sem.RunOk bits _ => o = None /\ outs = bits
  | Sem.RunPanic r m => o = Some (PanicRec.preason_num (TSemSemExpr.pr r), PanicSem.ploc32 (ploc_of m))
  | Sem.RunStuck _ | Sem.RunNoFuel => True
  end.
Proof. exact covered_program_sound. Qed.
Print Assumptions C02_covered_programs_panic_iff_the_source_semantics_panics.
