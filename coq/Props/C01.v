(* C01 — the compiled circuit returns the value the source program denotes.
   The specification is Lang/Sem.v ([run_main]).  The program-level claim is checked per
   program by tools/c01.py (differential); this file states what is PROVED about the
   components the claim is composed of, and pins the specification on concrete programs. *)
From GV Require Import Base.Util Base.NMap Circuit.Ssa Circuit.Reg Circuit.RegAlloc Circuit.RegAllocProofs
  Builder.Builder Builder.BuilderSem Builder.BuilderSpec Builder.BuilderProofs Lang.Ast Lang.Sem.

Open Scope N_scope.

(* "SSA circuit and register circuit": for every valid SSA circuit (in particular every
   compiled one) the register form computes the same bits on every input *)
Theorem C01_register_form_equivalent : forall c, ssa_validate c = None ->
  exists r, convert c = Ok r /\ forall ins, reg_eval r ins = ssa_eval c ins.
Proof.
  intros c H. destruct (convert_correct c H) as (r & Hc & _ & He & _). exists r. auto.
Qed.
Print Assumptions C01_register_form_equivalent.

(* "gate de-duplication on or off": the soundness of every builder request holds for any
   value of the cache_gates option *)
Theorem C01_requests_sound_any_dedup : builder_ops_sound inv.
Proof. exact builder_sound. Qed.
Print Assumptions C01_requests_sound_any_dedup.

(* the specification on a concrete program:
   pub fn main(x: u8, y: u8) -> u8 { let z = x + y; if z > 10u8 { z - 10u8 } else { z * 2u8 } } *)
Definition m0 := mkMeta 0 0 0 0.
Definition u8 := TInt false 8.
Definition ex_prog : program :=
  mkProgram [] []
    [mkFn 3 [(0, u8); (1, u8)] u8
       [St (SLet (Pat (PId 2) m0 u8) (Ex (EOp OAdd (Ex (EId 0) m0 u8) (Ex (EId 1) m0 u8)) (mkMeta 0 41 0 46) u8)) m0;
        St (SExpr (Ex (EIf (Ex (EOp OGt (Ex (EId 2) m0 u8) (Ex (ENumU 10 8) m0 u8)) m0 TBool)
                          (Ex (EOp OSub (Ex (EId 2) m0 u8) (Ex (ENumU 10 8) m0 u8)) m0 u8)
                          (Ex (EOp OMul (Ex (EId 2) m0 u8) (Ex (ENumU 2 8) m0 u8)) m0 u8)) m0 u8)) m0]]
    [] 3.

Theorem C01_spec_example :
  run_main 50 ex_prog [bits_of_Z 8 7%Z; bits_of_Z 8 92%Z] = RunOk (bits_of_Z 8 89%Z) false /\
  run_main 50 ex_prog [bits_of_Z 8 255%Z; bits_of_Z 8 5%Z] = RunPanic ROverflow (mkMeta 0 41 0 46).
Proof. split; vm_compute; reflexivity. Qed.
Print Assumptions C01_spec_example.
