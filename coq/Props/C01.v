(* C01 — the compiled circuit returns the value the source program denotes.
   The specification is Lang/Sem.v ([run_main]).  The program-level claim is checked per
   program by tools/c01.py (differential); this file states what is PROVED about the
   components the claim is composed of, and pins the specification on concrete programs. *)
From GV Require Import Base.Util Base.NMap Circuit.Ssa Circuit.Reg Circuit.RegAlloc Circuit.RegAllocProofs
  Builder.Builder Builder.BuilderSem Builder.BuilderSpec Builder.BuilderProofs Lang.Ast Lang.Sem.

Open Scope N_scope.

(* "SSA circuit and register circuit": for every valid SSA circuit (in particular every
   compiled one) the register form computes the same bits on every input *)
Theorem C01_register_form_equivalent : forall c, ssa_validate c = None ->
  exists r, convert c = Ok r /\ forall ins, reg_eval r ins = ssa_eval c ins.
Proof.
  intros c H. destruct (convert_correct c H) as (r & Hc & _ & He & _). exists r. auto.
Qed.
Print Assumptions C01_register_form_equivalent.

(* "gate de-duplication on or off": the soundness of every builder request holds for any
   value of the cache_gates option *)
Theorem C01_requests_sound_any_dedup : builder_ops_sound inv.
Proof. exact builder_sound. Qed.
Print Assumptions C01_requests_sound_any_dedup.

(* the specification on a concrete program:
   pub fn main(x: u8, y: u8) -> u8 { let z = x + y; if z > 10u8 { z - 10u8 } else { z * 2u8 } } *)
Definition m0 := mkMeta 0 0 0 0.
Definition u8 := TInt false 8.
Definition ex_prog : program :=
  mkProgram [] []
    [mkFn 3 [(0, u8); (1, u8)] u8
       [St (SLet (Pat (PId 2) m0 u8) (Ex (EOp OAdd (Ex (EId 0) m0 u8) (Ex (EId 1) m0 u8)) (mkMeta 0 41 0 46) u8)) m0;
        St (SExpr (Ex (EIf (Ex (EOp OGt (Ex (EId 2) m0 u8) (Ex (ENumU 10 8) m0 u8)) m0 TBool)
                          (Ex (EOp OSub (Ex (EId 2) m0 u8) (Ex (ENumU 10 8) m0 u8)) m0 u8)
                          (Ex (EOp OMul (Ex (EId 2) m0 u8) (Ex (ENumU 2 8) m0 u8)) m0 u8)) m0 u8)) m0]]
    [] 3.

Theorem C01_spec_example :
  run_main 50 ex_prog [bits_of_Z 8 7%Z; bits_of_Z 8 92%Z] = RunOk (bits_of_Z 8 89%Z) false /\
  run_main 50 ex_prog [bits_of_Z 8 255%Z; bits_of_Z 8 5%Z] = RunPanic ROverflow (mkMeta 0 41 0 46).
Proof. split; vm_compute; reflexivity. Qed.
Print Assumptions C01_spec_example.

(* ------------------------------------------------------------------------------------
   Program level.  Compile/Lower.v is the model of src/compile.rs (tied to the real compiler
   gate for gate on every run); Compile/TSem.v is the SAME lowering run over Booleans (no
   gate store, no cache, no rewriting, no pruning): the bit-level semantics of a program.
   For every program, every fuel and every input on which the bit-level semantics is defined:
   the model emits a circuit that validates, has the parameters' party sizes and 161 + |value|
   outputs, and whose output decodes (EvalPanic::parse = parse_panic) to exactly the panic /
   the value bits of the bit-level semantics.  [MAX_GATES] is the size limit of
   Circuit::validate. *)
From GV Require Import Builder.Build Panic.PanicRec Panic.PanicSem Compile.Lower Compile.TSem Compile.LowerSound.

Theorem C01_circuit_computes_bit_semantics : forall fuel dedup P s1 outs,
  lower_main_with fuel dedup P = Ok (PreOk s1 outs) ->
  counter (cb s1) + (b_shift (cb s1) - 2) <= MAX_GATES ->
  exists fd igs bindings,
    find_fn P (p_main P) = Some fd /\ param_wiring P (fn_params fd) = (igs, bindings) /\
    forall ins inp o vouts,
      load_inputs igs ins = Some inp ->
      tsem_program fuel P (param_args bindings inp) = Ok (o, vouts) ->
      exists c out,
        lower_program_with fuel dedup P = Ok (LCircuit c) /\
        ssa_validate c = None /\ input_gates c = igs /\
        length (output_gates c) = (161 + length vouts)%nat /\
        ssa_eval c ins = Some out /\
        parse_panic out = parse_spec o vouts /\
        (o = None -> skipn 161 out = vouts).
Proof. exact lower_program_sound. Qed.
Print Assumptions C01_circuit_computes_bit_semantics.

(* all four configurations: SSA and register circuit, gate de-duplication on and off *)
Theorem C01_all_configurations : forall fuel P s1 outs1 s2 outs2,
  lower_main_with fuel true P = Ok (PreOk s1 outs1) -> lower_main_with fuel false P = Ok (PreOk s2 outs2) ->
  counter (cb s1) + (b_shift (cb s1) - 2) <= MAX_GATES ->
  counter (cb s2) + (b_shift (cb s2) - 2) <= MAX_GATES ->
  exists fd igs bindings,
    find_fn P (p_main P) = Some fd /\ param_wiring P (fn_params fd) = (igs, bindings) /\
    forall ins inp o vouts,
      load_inputs igs ins = Some inp ->
      tsem_program fuel P (param_args bindings inp) = Ok (o, vouts) ->
      exists c1 c2 r1 r2 out1 out2,
        lower_program_with fuel true P = Ok (LCircuit c1) /\ lower_program_with fuel false P = Ok (LCircuit c2) /\
        convert c1 = Ok r1 /\ convert c2 = Ok r2 /\
        ssa_eval c1 ins = Some out1 /\ reg_eval r1 ins = Some out1 /\
        ssa_eval c2 ins = Some out2 /\ reg_eval r2 ins = Some out2 /\
        parse_panic out1 = parse_spec o vouts /\ parse_panic out2 = parse_spec o vouts /\
        (o = None -> skipn 161 out1 = vouts /\ skipn 161 out2 = vouts).
Proof.
  intros fuel P s1 outs1 s2 outs2 H1 H2 M1 M2.
  destruct (lower_program_sound fuel true P s1 outs1 H1 M1) as (fd & igs & bindings & Efd & Epw & S1).
  destruct (lower_program_sound fuel false P s2 outs2 H2 M2) as (fd' & igs' & bindings' & Efd' & Epw' & S2).
  rewrite Efd in Efd'. injection Efd' as <-. rewrite Epw in Epw'. injection Epw' as <- <-.
  exists fd, igs, bindings. split; [assumption|]. split; [assumption|].
  intros ins inp o vouts Hl Ht.
  destruct (S1 ins inp o vouts Hl Ht) as (c1 & out1 & L1 & V1 & _ & _ & E1 & P1 & W1).
  destruct (S2 ins inp o vouts Hl Ht) as (c2 & out2 & L2 & V2 & _ & _ & E2 & P2 & W2).
  destruct (C01_register_form_equivalent c1 V1) as (r1 & C1 & R1).
  destruct (C01_register_form_equivalent c2 V2) as (r2 & C2 & R2).
  exists c1, c2, r1, r2, out1, out2. rewrite R1, R2. repeat split; auto.
Qed.
Print Assumptions C01_all_configurations.

(* non-vacuity: for the example program above the model compiles (both settings) and the
   bit-level semantics is defined and agrees with the specification interpreter *)
Definition pre_ok (r : res lowered_pre) : bool :=
  match r with
  | Ok (PreOk s outs) => counter (cb s) + (b_shift (cb s) - 2) <=? MAX_GATES
  | _ => false
  end.

Lemma pre_ok_spec r : pre_ok r = true ->
  exists s outs, r = Ok (PreOk s outs) /\ counter (cb s) + (b_shift (cb s) - 2) <= MAX_GATES.
Proof.
  destruct r as [[s outs| |]| |]; cbn [pre_ok]; try discriminate. intro H. apply N.leb_le in H. eauto.
Qed.

Theorem C01_bit_semantics_example :
  (exists s outs, lower_main_with 50 true ex_prog = Ok (PreOk s outs) /\ counter (cb s) + (b_shift (cb s) - 2) <= MAX_GATES) /\
  (exists s outs, lower_main_with 50 false ex_prog = Ok (PreOk s outs) /\ counter (cb s) + (b_shift (cb s) - 2) <= MAX_GATES) /\
  tsem_program 50 ex_prog [bits_of_Z 8 7%Z; bits_of_Z 8 92%Z] = Ok (None, bits_of_Z 8 89%Z) /\
  (exists garbage, tsem_program 50 ex_prog [bits_of_Z 8 255%Z; bits_of_Z 8 5%Z] = Ok (Some (1, mkPLoc 0 41 0 46), garbage)).
Proof.
  split; [|split; [|split]].
  - apply pre_ok_spec. vm_compute. reflexivity.
  - apply pre_ok_spec. vm_compute. reflexivity.
  - vm_compute. reflexivity.
  - eexists. vm_compute. reflexivity.
Qed.
Print Assumptions C01_bit_semantics_example.

(* ------------------------------------------------------------------ the last step, proved for a
   fragment: the bit-level semantics IS the source semantics (Lang/Sem.v) on pure scalar
   expressions (literals, variables, casts, unary minus, !, the sixteen binary operators,
   if/else; all integer widths), for every environment and all operand values.  With
   C01_circuit_computes_bit_semantics this is an end-to-end statement "emitted circuit = Sem.v"
   for that fragment that no longer depends on sampled inputs.  [exact_tys] excludes trees
   whose annotations conflate i32 and u32 (Wt.ty_eqb admits them; counterexample proved in
   TSemSemExpr.Conflation, the known finding c05-literal-width-divergence). *)
From GV Require Lang.Wt.
From GV Require Import Compile.TSemFacts Compile.TSemSemExpr.

Theorem C01_scalar_expressions_bit_semantics_is_source_semantics :
  forall fuel P e en E g fw,
  pure_scalar e = true -> Wt.wt_expr fw P g e = true -> exact_tys g e = true ->
  env_rel en E g -> Forall keys_distinct E ->
  match Sem.eval fuel P en e with
  | Sem.Done (v, en') =>
      Sem.scopes en' = Sem.scopes en /\ val_ok (e_ty e) v /\
      forall fuel', (depth e < fuel')%nat ->
        lower_expr tops fuel' P e E None = Ok ((enc_val (e_ty e) v, E), None)
  | Sem.Panicked r m =>
      forall fuel', (depth e < fuel')%nat ->
        exists w, lower_expr tops fuel' P e E None =
                  Ok ((w, E), Some (preason_num (pr r), ploc32 (ploc_of m)))
  | Sem.Stuck _ => False
  | Sem.NoFuel => True
  end.
Proof. exact tsem_sem_expr. Qed.
Print Assumptions C01_scalar_expressions_bit_semantics_is_source_semantics.

(* the bit-level semantics of the fragment never crashes, and a recorded panic is never lost *)
Theorem C01_scalar_expressions_bit_semantics_total :
  forall P g E e fw fuel o,
  pure_scalar e = true -> Wt.wt_expr fw P g e = true -> exact_tys g e = true ->
  env_shape E g -> Forall keys_distinct E -> (depth e < fuel)%nat ->
  exists w o', lower_expr tops fuel P e E o = Ok ((w, E), o') /\
               length w = tw (e_ty e) /\ sticky o o'.
Proof. exact tsem_total. Qed.
Print Assumptions C01_scalar_expressions_bit_semantics_total.

(* ------------------------------------------------------------------ the precondition "the
   bit-level semantics is defined on this input" of C01_circuit_computes_bit_semantics does not
   depend on the input: the lowering is PARAMETRIC in its operation set (Compile/Param*.v:
   lower_param, an abstract logical-relations theorem of which the circuit/semantics simulation
   is one instance), and instantiated with "any two Booleans are related" it says that whether
   TSem is defined depends on the lengths of the arguments only.  Hence ONE successful run of
   the extracted TSem on any input of the parameters' sizes (which every check performs)
   establishes the circuit theorem for ALL inputs of the program. *)
From GV Require Import Compile.TSemShape.

Theorem C01_bit_semantics_defined_by_shape :
  forall fuel P args args',
  Forall2 (fun a a' => length a = length a') args args' ->
  forall r, tsem_program fuel P args = Ok r ->
  exists r', tsem_program fuel P args' = Ok r' /\ length (snd r') = length (snd r).
Proof. exact tsem_defined_shape_only. Qed.
Print Assumptions C01_bit_semantics_defined_by_shape.

Theorem C01_circuit_computes_bit_semantics_one_witness :
  forall fuel dedup P s1 outs,
  lower_main_with fuel dedup P = Ok (PreOk s1 outs) ->
  counter (cb s1) + (b_shift (cb s1) - 2) <= MAX_GATES ->
  exists fd igs bindings,
    find_fn P (p_main P) = Some fd /\ param_wiring P (fn_params fd) = (igs, bindings) /\
    forall args0 r0,
      Forall2 (fun b a => length a = length (snd b)) bindings args0 ->
      tsem_program fuel P args0 = Ok r0 ->
      forall ins inp, load_inputs igs ins = Some inp ->
        exists o vouts c out,
          tsem_program fuel P (param_args bindings inp) = Ok (o, vouts) /\
          length vouts = length (snd r0) /\
          lower_program_with fuel dedup P = Ok (LCircuit c) /\
          ssa_validate c = None /\ input_gates c = igs /\
          length (output_gates c) = (161 + length vouts)%nat /\
          ssa_eval c ins = Some out /\
          parse_panic out = parse_spec o vouts /\
          (o = None -> skipn 161 out = vouts).
Proof. exact lower_program_sound_one_witness. Qed.
Print Assumptions C01_circuit_computes_bit_semantics_one_witness.

(* ------------------------------------------------------------------ the same step for whole
   PROGRAMS of the imperative scalar fragment (blocks, let / let mut, assignment, if/else and
   && / || whose branches and operands have effects, all operators and casts; scalar
   parameters; no calls, loops, aggregates or global constants yet): whenever the bit-level
   semantics is defined, it returns exactly the bits Sem.run_main returns, or records exactly
   the panic Sem.run_main raises.  [in_imp_fragment] is a boolean function; the extracted
   checker evaluates it on every tied program and the evidence reports how many programs of a
   run are covered by this theorem (coverage.theorem_fragments). *)
From GV Require Import Compile.TSemSemStmt Compile.Fragment.

Theorem C01_imperative_scalar_programs_bit_semantics_is_source_semantics :
  forall P fuel fw fT args o outs,
  in_imp_fragment fw P = true ->
  tsem_program fT P args = Ok (o, outs) ->
  match Sem.run_main fuel P args with
  | Sem.RunOk bits _ => o = None /\ outs = bits
  | Sem.RunPanic r m => o = Some (preason_num (pr r), PanicSem.ploc32 (ploc_of m))
  | Sem.RunStuck _ | Sem.RunNoFuel => True
  end.
Proof. exact in_imp_fragment_sound. Qed.
Print Assumptions C01_imperative_scalar_programs_bit_semantics_is_source_semantics.

(* ... extended by function calls (arguments with effects, callee bodies in the fragment) and `for`
   loops over ranges (Compile/TSemSemCall.v); [in_proved_fragment] is the union of the two
   membership tests and is what the extracted checker evaluates per program *)
Theorem C01_imperative_scalar_programs_with_calls_and_loops :
  forall P fuel fw fT args o outs,
  in_proved_fragment fw P = true ->
  tsem_program fT P args = Ok (o, outs) ->
  match Sem.run_main fuel P args with
  | Sem.RunOk bits _ => o = None /\ outs = bits
  | Sem.RunPanic r m => o = Some (preason_num (pr r), PanicSem.ploc32 (ploc_of m))
  | Sem.RunStuck _ | Sem.RunNoFuel => True
  end.
Proof. exact in_proved_fragment_sound. Qed.
Print Assumptions C01_imperative_scalar_programs_with_calls_and_loops.

(* ------------------------------------------------------------------ THE FULL FRAGMENT
   (Compile/ValEnc.v, TSemSemAgg.v, TSemSemMatch.v, TSemSemFull.v): values of EVERY type (the
   relation [has_enc]: canonical encodings, = Sem.encode on in-range values), tuple / struct /
   array / enum literals and accessors, dynamic indexing with its OutOfBounds panic, assignment
   through any chain of index / tuple / field accessors, `for` over arrays and ranges, `let` with
   irrefutable patterns, `match` with every pattern form, blocks, if/else, && / ||, all scalar
   operators and casts.  Not yet in it: function calls (proved separately for the scalar
   fragment above), the join built-ins, `*` with a literal operand, global constants.
   [covered_program] is the boolean union of all fragments; [canonical_main_args] says the
   argument bits are canonical encodings (decode-then-encode is the identity: enum padding is
   zero); both are evaluated by the extracted checker (per program / per input). *)
Theorem C01_covered_programs_bit_semantics_is_source_semantics :
  forall P fuel fw fT args o outs,
  covered_program fw P = true -> TSemSemFull.canonical_main_args P args = true ->
  tsem_program fT P args = Ok (o, outs) ->
  match Sem.run_main fuel P args with
  | Sem.RunOk bits _ => o = None /\ outs = bits
  | Sem.RunPanic r m => o = Some (preason_num (pr r), PanicSem.ploc32 (ploc_of m))
  | Sem.RunStuck _ | Sem.RunNoFuel => True
  end.
Proof. exact covered_program_sound. Qed.
Print Assumptions C01_covered_programs_bit_semantics_is_source_semantics.

(* ------------------------------------------------------------------ no run-time witness at all:
   for programs that pass the boolean tests [safe_program_ok] (re-checker Wt.v + side conditions,
   Compile/TSemSafe.v), [params_ok] and [fuel_enough] (Compile/TSemTotal.v: a computable bound on
   the fuel the lowering needs; recursion makes it exceed the cap), the bit-level semantics is
   defined on EVERY input, so the circuit theorem holds unconditionally: whenever the model of
   compile.rs returns a circuit within the gate bound, that circuit validates and, for all inputs,
   decodes to the panic / value bits of TSem, which has size(return type) bits. *)
From GV Require Import Compile.TSemSafe Compile.TSemTotal.

Theorem C01_circuit_computes_bit_semantics_unconditionally :
  forall fuel dedup P s1 outs,
  safe_program_ok P = true -> params_ok P = true ->
  (fuel_needed P <= fuel_cap)%nat -> (fuel_needed P <= fuel)%nat ->
  lower_main_with fuel dedup P = Ok (PreOk s1 outs) ->
  counter (cb s1) + (b_shift (cb s1) - 2) <= MAX_GATES ->
  exists fd igs bindings,
    find_fn P (p_main P) = Some fd /\ param_wiring P (fn_params fd) = (igs, bindings) /\
    forall ins inp,
      load_inputs igs ins = Some inp ->
      exists o vouts c out,
        tsem_program fuel P (param_args bindings inp) = Ok (o, vouts) /\
        length vouts = szn P (fn_ret fd) /\
        lower_program_with fuel dedup P = Ok (LCircuit c) /\
        ssa_validate c = None /\ input_gates c = igs /\
        length (output_gates c) = (161 + length vouts)%nat /\
        ssa_eval c ins = Some out /\
        parse_panic out = parse_spec o vouts /\
        (o = None -> skipn 161 out = vouts).
Proof. intros fuel dedup P. exact (lower_program_total fuel dedup P). Qed.
Print Assumptions C01_circuit_computes_bit_semantics_unconditionally.

Theorem C01_bit_semantics_terminates :
  forall P fuel args fd,
  safe_program_ok P = true -> (fuel_needed P <= fuel_cap)%nat -> (fuel_needed P <= fuel)%nat ->
  find_fn P (p_main P) = Some fd ->
  Forall2 (fun p a => length a = szn P (snd p)) (fn_params fd) args ->
  exists o outs, tsem_program fuel P args = Ok (o, outs) /\ length outs = szn P (fn_ret fd).
Proof. exact tsem_program_terminates. Qed.
Print Assumptions C01_bit_semantics_terminates.

(* ------------------------------------------------------------------ from the real API's encoder
   to the real API's decoder (Lang/LitEnc.v): for a program of the full fragment, argument values
   with their canonical literals, and `args` the bits the model of Literal::as_bits produces for
   them (a model tied to literal.rs on every run): the bits are canonical, Sem.v runs main on
   exactly those values, and if it returns, decoding the bit-level result with the model of the
   real decoder at the return type yields the literal of the value Sem.v computed, no panic. *)
From GV Require Import Lang.LitEnc.
Theorem C01_from_argument_literals_to_the_result_literal : ltac:(let T := type of lit_program_agree in exact T).
Proof. exact lit_program_agree. Qed.
Print Assumptions C01_from_argument_literals_to_the_result_literal.

(* ------------------------------------------------------------------ WITHOUT the "Stuck => True"
   escape (Compile/TSemSemFullWt.v): the strict checker of the covered fragment plus three extra
   boolean tests (wtx: struct literal field count, unit patterns on unit variants, ranges lo <= hi)
   implies the re-checker Wt.v accepts the program (in_full_fragment3_wt), hence (Lang/WtSound.v)
   the source semantics is never stuck for a typing reason; so for covered, well-typed programs
   and canonical arguments, whenever the bit-level semantics is defined, Sem.run_main RETURNS the
   same bits, or PANICS with the same reason and location, or runs out of its own fuel - or, for
   programs containing a match without an irrefutable arm (frag_program = false), is stuck on "no
   arm matches" (excluded by the exhaustiveness check of C08, whose verified decision procedures
   are not yet connected to Sem.pmatch inside Coq). *)
From GV Require Import Compile.TSemSemFullWt.

Theorem C01_covered_well_typed_programs_agree :
  forall P fuel fw fT args o outs, (fw <= Wt.wt_fuel)%nat ->
  wt_covered fw P = true -> TSemSemFull.canonical_main_args P args = true ->
  tsem_program fT P args = Ok (o, outs) ->
  Wt.wt_program P = true /\
  ((exists bits l, Sem.run_main fuel P args = Sem.RunOk bits l /\ o = None /\ outs = bits) \/
   (exists r m, Sem.run_main fuel P args = Sem.RunPanic r m /\
                o = Some (preason_num (pr r), PanicSem.ploc32 (ploc_of m))) \/
   Sem.run_main fuel P args = Sem.RunNoFuel \/
   (ValTy.frag_program P = false /\ exists c, Sem.run_main fuel P args = Sem.RunStuck c /\ In c ValTy.stuck_allowed)).
Proof. exact wt_covered_agrees. Qed.
Print Assumptions C01_covered_well_typed_programs_agree.

(* ------------------------------------------------------------------ and WITHOUT the RunNoFuel
   escape (Compile/SemFuel.v): [sem_fuel_needed P] mirrors the fuel consumption of Sem.eval /
   exec_block / exec (one unit per node, nothing per loop iteration, callee bodies at calls;
   recursion exceeds the cap), [sem_fuel_enough fuel P] is the boolean the extracted checker
   evaluates.  For covered, well-typed programs with enough fuel and canonical arguments,
   whenever the bit-level semantics is defined: Sem.run_main RETURNS the same bits or PANICS with
   the same reason and location - or (only for programs with a match lacking an irrefutable arm)
   is stuck on "no arm matches", the case the exhaustiveness check excludes. *)
From GV Require Import Compile.SemFuel.

Theorem C01_covered_well_typed_programs_with_enough_fuel_agree :
  forall P fuel fw fT args o outs, (fw <= Wt.wt_fuel)%nat ->
  wt_covered fw P = true -> sem_fuel_enough fuel P = true ->
  TSemSemFull.canonical_main_args P args = true -> tsem_program fT P args = Ok (o, outs) ->
  (exists bits l, Sem.run_main fuel P args = Sem.RunOk bits l /\ o = None /\ outs = bits) \/
  (exists r m, Sem.run_main fuel P args = Sem.RunPanic r m /\
               o = Some (preason_num (pr r), PanicSem.ploc32 (ploc_of m))) \/
  (ValTy.frag_program P = false /\ exists c, Sem.run_main fuel P args = Sem.RunStuck c /\ In c ValTy.stuck_allowed).
Proof. exact wt_covered_fuel_agrees. Qed.
Print Assumptions C01_covered_well_typed_programs_with_enough_fuel_agree.

Theorem C01_source_semantics_terminates_within_the_bound :
  forall P fuel args, sem_fuel_enough fuel P = true -> Sem.run_main fuel P args <> Sem.RunNoFuel.
Proof. exact run_main_no_nofuel. Qed.
Print Assumptions C01_source_semantics_terminates_within_the_bound.

(* ------------------------------------------------------------------ the PARSER (src/parse.rs)
   is part of "compile": Front/ParseExpr.v is a function-by-function model of the expression /
   statement / pattern / type / match parser (tied to the real parser in C07 on expression texts
   and function bodies).  [show_min] prints an expression tree with the MINIMAL parentheses that
   Rust's precedence and associativity require; the model parser reads it back as the same tree,
   in any context that ends the expression: the parser groups operators the way Rust does, for
   trees of every size.  The compound assignments `x.acc op= v` are desugared to
   `x.acc = (x.acc) op v` with the parsed target itself as left operand. *)
From GV Require Import Front.Scan Front.ParseExpr Front.ParseExprProofs.

Theorem C01_parser_reads_minimal_parentheses_as_the_tree : forall e, wf_expr e -> forall rest, stops true rest ->
  exists fuel, parse_expr fuel (show_min e ++ rest) = Some (e, rest).
Proof. exact parse_show_min. Qed.
Print Assumptions C01_parser_reads_minimal_parentheses_as_the_tree.

Theorem C01_parser_operator_after_if_chain : forall c t e' o y, wf_expr (UIf c t e') -> wf_expr y ->
  forall b rest, stops b rest ->
  exists fuel,
    parse_expr_st fuel
      (PState (show_min (UIf c t e') ++ tk (op_token o)
                 :: show_at (if is_cmp o then 5 else S (op_level o))%nat true y ++ rest) b)
    = POk (UOp o (UIf c t e') y) (PState rest b).
Proof. exact operator_after_if_chain. Qed.
Print Assumptions C01_parser_operator_after_if_chain.

Theorem C01_parser_compound_assignment_target : forall e x accs,
  accessors e = Some (x, accs) -> target_expr x accs = e.
Proof. exact target_expr_accessors. Qed.
Print Assumptions C01_parser_compound_assignment_target.

(* ------------------------------------------------------------------ END TO END (Compile/EndToEnd.v)
   One statement from the typed program to the evaluated circuit, with only BOOLEAN premises that
   the extracted checker evaluates per program ([certified] = wt_covered && sem_fuel_enough &&
   safe_program_ok && params_ok && fuel_enough; [within_gate_bound] = the MAX_GATES test of
   validation on the pre-build state): the circuit the model of compile.rs returns validates, has
   one input party per parameter (per element for a single array parameter) of the parameter's size,
   evaluates on EVERY input of those sizes, and for canonical argument encodings its output reads
   (EvalPanic::parse) as exactly the value bits or exactly the panic of the source semantics
   Sem.run_main - or, only for programs with a match lacking an irrefutable arm, Sem.v is stuck on
   "no arm matches".  Also for the register circuit, and de-duplication is irrelevant. *)
From GV Require Import Compile.EndToEnd.

Theorem C01_end_to_end : forall fuel dedup P c,
  certified fuel P = true -> within_gate_bound fuel dedup P = true ->
  lower_program_with fuel dedup P = Ok (LCircuit c) ->
  ssa_validate c = None /\ input_gates c = fst (main_wiring P) /\
  forall ins inp,
    load_inputs (input_gates c) ins = Some inp ->
    TSemSemFull.canonical_main_args P (main_args P inp) = true ->
    exists out, ssa_eval c ins = Some out /\ output_spec fuel P (main_args P inp) out.
Proof. exact end_to_end. Qed.
Print Assumptions C01_end_to_end.

Theorem C01_end_to_end_register : forall fuel dedup P c,
  certified fuel P = true -> within_gate_bound fuel dedup P = true ->
  lower_program_with fuel dedup P = Ok (LCircuit c) ->
  exists rc, RegAlloc.convert c = Ok rc /\ Reg.reg_validate rc = Ok None /\ Reg.input_regs rc = fst (main_wiring P) /\
  forall ins inp,
    load_inputs (Reg.input_regs rc) ins = Some inp ->
    TSemSemFull.canonical_main_args P (main_args P inp) = true ->
    exists out, Reg.reg_eval rc ins = Some out /\ output_spec fuel P (main_args P inp) out.
Proof. exact end_to_end_register. Qed.
Print Assumptions C01_end_to_end_register.

Theorem C01_end_to_end_dedup_irrelevant : forall fuel P c1 c2,
  certified fuel P = true -> within_gate_bound fuel true P = true -> within_gate_bound fuel false P = true ->
  lower_program_with fuel true P = Ok (LCircuit c1) -> lower_program_with fuel false P = Ok (LCircuit c2) ->
  input_gates c1 = input_gates c2 /\
  forall ins inp, load_inputs (input_gates c1) ins = Some inp ->
    exists out1 out2, ssa_eval c1 ins = Some out1 /\ ssa_eval c2 ins = Some out2 /\
      parse_panic out1 = parse_panic out2 /\
      (TSemSemFull.canonical_main_args P (main_args P inp) = true ->
       output_spec fuel P (main_args P inp) out1 /\ output_spec fuel P (main_args P inp) out2).
Proof. exact end_to_end_dedup_irrelevant. Qed.
Print Assumptions C01_end_to_end_dedup_irrelevant.

(* ------------------------------------------------------------------ and WITHOUT the "stuck on no arm
   matches" escape (Exhaust/ExhSound.v, Compile/Final.v): with the exhaustiveness check of the real
   algorithm among the Boolean premises ([exh_fns]: every match / let / for pattern list of the
   program passes Useful.check_exhaustive on the translated patterns), Sem.v is never stuck, and the
   end-to-end statement becomes EXACT: the evaluated circuit returns the value or the panic of the
   source semantics, nothing else.  (At the level of Wt.v alone this is false - [wt_covered]'s strict
   type equalities are needed: ExhSound.ExhExamples.wt_level_strengthening_false.) *)
From GV Require Import Exhaust.ExhSem Exhaust.ExhSound Compile.Final.

Theorem C01_covered_exhaustive_programs_agree : forall P fuel fw fT args o outs, (fw <= Wt.wt_fuel)%nat ->
  wt_covered fw P = true -> exh_fns P = true ->
  TSemSemFull.canonical_main_args P args = true -> tsem_program fT P args = Ok (o, outs) ->
  (exists bits l, Sem.run_main fuel P args = Sem.RunOk bits l /\ o = None /\ outs = bits) \/
  (exists r m, Sem.run_main fuel P args = Sem.RunPanic r m /\ o = Some (preason_num (pr r), PanicSem.ploc32 (ploc_of m))) \/
  Sem.run_main fuel P args = Sem.RunNoFuel.
Proof. exact wt_covered_exh_agrees. Qed.
Print Assumptions C01_covered_exhaustive_programs_agree.

Theorem C01_end_to_end_exact : forall fuel dedup P c,
  certified_exh fuel P = true -> within_gate_bound fuel dedup P = true ->
  lower_program_with fuel dedup P = Ok (LCircuit c) ->
  ssa_validate c = None /\ input_gates c = fst (main_wiring P) /\
  forall ins inp,
    load_inputs (input_gates c) ins = Some inp ->
    TSemSemFull.canonical_main_args P (main_args P inp) = true ->
    exists out, ssa_eval c ins = Some out /\ output_exact fuel P (main_args P inp) out.
Proof. exact end_to_end_exact. Qed.
Print Assumptions C01_end_to_end_exact.

Theorem C01_end_to_end_register_exact : forall fuel dedup P c,
  certified_exh fuel P = true -> within_gate_bound fuel dedup P = true ->
  lower_program_with fuel dedup P = Ok (LCircuit c) ->
  exists rc, RegAlloc.convert c = Ok rc /\ Reg.reg_validate rc = Ok None /\ Reg.input_regs rc = fst (main_wiring P) /\
  forall ins inp,
    load_inputs (Reg.input_regs rc) ins = Some inp ->
    TSemSemFull.canonical_main_args P (main_args P inp) = true ->
    exists out, Reg.reg_eval rc ins = Some out /\ output_exact fuel P (main_args P inp) out.
Proof. exact end_to_end_register_exact. Qed.
Print Assumptions C01_end_to_end_register_exact.

(* the precedence theorem at TEXT level (Front/ScanPrint.v): the text of a well-formed expression
   tree printed with minimal parentheses is scanned and parsed back to the tree (token locations
   erased: the parser model ignores them) *)
From GV Require Import Front.ScanPrint.

Theorem C01_parser_reads_minimal_parentheses_text_as_the_tree : forall e,
  wf_expr e -> Forall tok_printable (map kind (show_min e)) ->
  exists ts' fuel, scan_text (show_text e) = Ok (STokens ts') /\
                   map kind ts' = map kind (show_min e) /\
                   parse_expr fuel (unloc ts') = Some (e, []).
Proof. exact scan_parse_show_min. Qed.
Print Assumptions C01_parser_reads_minimal_parentheses_text_as_the_tree.
