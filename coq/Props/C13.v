(* C13 — join / join_iter compute exactly the sorted-merge join and hide match positions.
   Network level (circuit.rs:1202-1327): the comparison circuit, the compare-exchange
   networks (permutation, zero-one principle, bounded sortedness), and the lift of the
   builder-form gadgets to the pure specification Sort.v.  The program level (JoinLoop /
   join lowering, compile.rs) is covered by search only (tools/c13.py, `joinprog` jobs).
   Theorems that depend on the builder operations are stated for every invariant [inv]
   with [builder_ops_sound inv] (BuilderSpec.v). *)
From Coq Require Import Permutation.
From GV Require Import Base.Util Base.NMap Builder.Builder Builder.BuilderSem Builder.BuilderSpec
  Builder.BuilderProofs Gadgets.Gadgets Sort.Sort Sort.SortProofs Sort.SortBounded Sort.ZeroOne Sort.SortHoare.

(* the carry chain of push_gt_circuit decides "key x > key y" (unsigned, MSB first), any width *)
Theorem C13_gt_correct : forall bits x y,
  (bits <= length x)%nat -> (bits <= length y)%nat ->
  gt bits x y = (key bits y <? key bits x).
Proof. exact gt_correct. Qed.
Print Assumptions C13_gt_correct.

(* push_sorter on values moves whole elements: (min, max) by key, ties not swapped *)
Theorem C13_sorter_bits_spec : forall bits x y,
  length x = length y -> (bits <= length x)%nat ->
  sorter_bits bits x y = if key bits y <? key bits x then (y, x) else (x, y).
Proof. exact sorter_bits_spec. Qed.
Print Assumptions C13_sorter_bits_spec.

(* the recursions of push_bitonic_merger / push_bitonic_sorter are compare-exchange networks *)
Theorem C13_merger_is_network : forall (A : Type) (gtb : A -> A -> bool) asc v,
  run_net gtb (bitonic_merger_net (length v) asc) v = bitonic_merger gtb asc v.
Proof. exact @bitonic_merger_net_correct. Qed.
Print Assumptions C13_merger_is_network.

Theorem C13_sorter_is_network : forall (A : Type) (gtb : A -> A -> bool) v,
  run_net gtb (bitonic_sorter_net (length v)) v = bitonic_sorter gtb v.
Proof. exact @bitonic_sorter_net_correct. Qed.
Print Assumptions C13_sorter_is_network.

(* every compare-exchange network only permutes its input (payloads intact) *)
Theorem C13_cmpx_perm : forall (A : Type) (gtb : A -> A -> bool) (net : list cxop) (v : list A),
  Permutation (run_net gtb net v) v.
Proof. exact @cmpx_perm. Qed.
Print Assumptions C13_cmpx_perm.

(* zero-one principle, per input: sorting all thresholded images implies sorting the input *)
Theorem C13_zero_one_principle : forall (net : list cxop) (v : list N),
  (forall t, sortedB (run_net gtB net (map (thr t) v)) = true) ->
  sortedN (run_net gtN net v) = true.
Proof. exact zero_one_principle. Qed.
Print Assumptions C13_zero_one_principle.

Theorem C13_zero_one_principle_all : forall (net : list cxop) (n : nat),
  (forall w : list bool, length w = n -> sortedB (run_net gtB net w) = true) ->
  forall v : list N, length v = n -> sortedN (run_net gtN net v) = true.
Proof. exact zero_one_principle_all. Qed.
Print Assumptions C13_zero_one_principle_all.

(* bounded sortedness (bounds are part of the statements) *)
Theorem C13_merger_sorts_up_down_bounded : forall bits (v : list elem) k,
  (k <= 8)%nat -> length v = (2 ^ k)%nat -> up_then_down (map (key bits) v) ->
  sortedN (map (key bits) (bitonic_merger (gt_key bits) true v)) = true /\
  Permutation (bitonic_merger (gt_key bits) true v) v.
Proof. exact merger_elems_up_down_bounded. Qed.
Print Assumptions C13_merger_sorts_up_down_bounded.

Theorem C13_merger_sorts_down_up_bounded : forall bits (v : list elem),
  (length v <= 64)%nat -> down_then_up (map (key bits) v) ->
  sortedN (map (key bits) (bitonic_merger (gt_key bits) true v)) = true /\
  Permutation (bitonic_merger (gt_key bits) true v) v.
Proof. exact merger_elems_down_up_bounded. Qed.
Print Assumptions C13_merger_sorts_down_up_bounded.

Theorem C13_sorter_sorts_bounded : forall bits (v : list elem),
  (length v <= 16)%nat ->
  sortedN (map (key bits) (bitonic_sorter (gt_key bits) v)) = true /\
  Permutation (bitonic_sorter (gt_key bits) v) v.
Proof. exact sorter_elems_bounded. Qed.
Print Assumptions C13_sorter_sorts_bounded.

(* the power-of-two restriction is necessary for up-then-down inputs *)
Theorem C13_merger_up_down_needs_pow2 :
  up_then_down [0; 1; 0] /\ sortedN (bitonic_merger gtN true [0; 1; 0]) = false.
Proof. exact merger_up_down_counterexample. Qed.
Print Assumptions C13_merger_up_down_needs_pow2.

(* ---- builder-form gadgets denote the pure specification ---- *)

Theorem C13_push_gt_circuit_sound : forall inv, builder_ops_sound inv -> forall b bits x y,
  inv b -> valids b x -> valids b y -> (bits <= length x)%nat -> (bits <= length y)%nat ->
  exists g b', push_gt_circuit b bits x y = Ok (g, b') /\ inv b' /\ ext b b' /\ valid b' g /\
    forall inp, ins_ok b inp -> den inp b' g = gt bits (dens inp b x) (dens inp b y).
Proof. exact push_gt_circuit_sound. Qed.
Print Assumptions C13_push_gt_circuit_sound.

Theorem C13_push_sorter_sound : forall inv, builder_ops_sound inv -> forall b bits x y,
  inv b -> valids b x -> valids b y -> (bits <= length x)%nat -> (bits <= length y)%nat ->
  exists mn mx b', push_sorter b bits x y = Ok ((mn, mx), b') /\ inv b' /\ ext b b' /\
    valids b' mn /\ valids b' mx /\
    length mn = Nat.min (length x) (length y) /\ length mx = Nat.min (length x) (length y) /\
    forall inp, ins_ok b inp ->
      (dens inp b' mn, dens inp b' mx) = sorter_bits bits (dens inp b x) (dens inp b y).
Proof. exact push_sorter_sound. Qed.
Print Assumptions C13_push_sorter_sound.

Theorem C13_push_bitonic_merger_sound : forall inv, builder_ops_sound inv -> forall bits L asc b v,
  inv b -> elems_ok b L v -> (bits <= L)%nat ->
  exists v' b', push_bitonic_merger (S (length v)) b bits asc v = Ok (v', b') /\ inv b' /\ ext b b' /\
    elems_ok b' L v' /\ length v' = length v /\
    forall inp, ins_ok b inp ->
      densl inp b' v' = bitonic_merger (gt_key bits) asc (densl inp b v).
Proof. exact push_bitonic_merger_top_sound. Qed.
Print Assumptions C13_push_bitonic_merger_sound.

Theorem C13_push_bitonic_sorter_sound : forall inv, builder_ops_sound inv -> forall bits L b v,
  inv b -> elems_ok b L v -> (bits <= L)%nat ->
  exists v' b', push_bitonic_sorter b bits v = Ok (v', b') /\ inv b' /\ ext b b' /\
    elems_ok b' L v' /\ length v' = length v /\
    forall inp, ins_ok b inp ->
      densl inp b' v' = bitonic_sorter (gt_key bits) (densl inp b v).
Proof. exact push_bitonic_sorter_sound. Qed.
Print Assumptions C13_push_bitonic_sorter_sound.

(* ---- end to end on wires ---- *)

(* the merger circuit as compile_bitonic_merge uses it (power-of-two length, up-then-down keys) *)
Theorem C13_push_bitonic_merger_sorts : forall inv, builder_ops_sound inv -> forall bits L b v k,
  inv b -> elems_ok b L v -> (bits <= L)%nat -> (k <= 8)%nat -> length v = (2 ^ k)%nat ->
  exists v' b', push_bitonic_merger (S (length v)) b bits true v = Ok (v', b') /\ inv b' /\ ext b b' /\
    elems_ok b' L v' /\ length v' = length v /\
    forall inp, ins_ok b inp -> up_then_down (map (key bits) (densl inp b v)) ->
      sortedN (map (key bits) (densl inp b' v')) = true /\
      Permutation (densl inp b' v') (densl inp b v).
Proof. exact push_bitonic_merger_sorts_up_down. Qed.
Print Assumptions C13_push_bitonic_merger_sorts.

(* the sorter circuit as `join` uses it on the flag bit (any length <= 16, any width) *)
Theorem C13_push_bitonic_sorter_sorts : forall inv, builder_ops_sound inv -> forall bits L b v,
  inv b -> elems_ok b L v -> (bits <= L)%nat -> (length v <= 16)%nat ->
  exists v' b', push_bitonic_sorter b bits v = Ok (v', b') /\ inv b' /\ ext b b' /\
    elems_ok b' L v' /\ length v' = length v /\
    forall inp, ins_ok b inp ->
      sortedN (map (key bits) (densl inp b' v')) = true /\
      Permutation (densl inp b' v') (densl inp b v).
Proof. exact push_bitonic_sorter_sorts. Qed.
Print Assumptions C13_push_bitonic_sorter_sorts.

(* ---- the same for the concrete builder invariant (BuilderProofs.builder_sound) ---- *)

Theorem C13_gt_circuit : forall b bits x y,
  inv b -> valids b x -> valids b y -> (bits <= length x)%nat -> (bits <= length y)%nat ->
  exists g b', push_gt_circuit b bits x y = Ok (g, b') /\ inv b' /\ ext b b' /\ valid b' g /\
    forall inp, ins_ok b inp ->
      den inp b' g = (key bits (dens inp b y) <? key bits (dens inp b x)).
Proof. exact (push_gt_circuit_key_sound inv builder_sound). Qed.
Print Assumptions C13_gt_circuit.

Theorem C13_merger_circuit_sorts : forall bits L b v k,
  inv b -> elems_ok b L v -> (bits <= L)%nat -> (k <= 8)%nat -> length v = (2 ^ k)%nat ->
  exists v' b', push_bitonic_merger (S (length v)) b bits true v = Ok (v', b') /\ inv b' /\ ext b b' /\
    elems_ok b' L v' /\ length v' = length v /\
    forall inp, ins_ok b inp -> up_then_down (map (key bits) (densl inp b v)) ->
      sortedN (map (key bits) (densl inp b' v')) = true /\
      Permutation (densl inp b' v') (densl inp b v).
Proof. exact (push_bitonic_merger_sorts_up_down inv builder_sound). Qed.
Print Assumptions C13_merger_circuit_sorts.

Theorem C13_sorter_circuit_sorts : forall bits L b v,
  inv b -> elems_ok b L v -> (bits <= L)%nat -> (length v <= 16)%nat ->
  exists v' b', push_bitonic_sorter b bits v = Ok (v', b') /\ inv b' /\ ext b b' /\
    elems_ok b' L v' /\ length v' = length v /\
    forall inp, ins_ok b inp ->
      sortedN (map (key bits) (densl inp b' v')) = true /\
      Permutation (densl inp b' v') (densl inp b v).
Proof. exact (push_bitonic_sorter_sorts inv builder_sound). Qed.
Print Assumptions C13_sorter_circuit_sorts.

(* ---- non-vacuity ---- *)

(* keys (3,1,2): down-then-up, and the merger sorts it *)
Example C13_down_up_instance :
  down_then_up [3; 1; 2] /\ bitonic_merger gtN true [3; 1; 2] = [1; 2; 3].
Proof. split; [exists [3; 1], [2]; repeat split|reflexivity]. Qed.

(* padding 0, a = (1,3) ascending, b = (2) reversed: the shape compile_bitonic_merge builds *)
Example C13_up_down_instance :
  up_then_down [0; 1; 3; 2] /\ bitonic_merger gtN true [0; 1; 3; 2] = [0; 1; 2; 3].
Proof. split; [exists [0; 1; 3], [2]; repeat split|reflexivity]. Qed.

(* elements with payloads: key = first 2 bits; the payload bit travels with its key *)
Example C13_sorter_instance :
  bitonic_sorter (gt_key 2) [[true; false; true]; [false; true; false]; [true; true; true]; [false; false; false]]
  = [[false; false; false]; [false; true; false]; [true; false; true]; [true; true; true]].
Proof. reflexivity. Qed.

(* the hypotheses of the wire-level theorems hold on a concrete builder: two 2-bit elements
   over four input wires *)
Example C13_elems_ok_instance :
  elems_ok (new_builder true [4]) 2 [[2; 3]; [4; 5]] /\
  exists r, push_bitonic_sorter (new_builder true [4]) 2 [[2; 3]; [4; 5]] = Ok r.
Proof.
  split.
  - repeat constructor.
  - vm_compute. eexists. reflexivity.
Qed.

(* ... and the invariant holds for every fresh builder, so the circuit theorems apply to it *)
Example C13_inv_instance : inv (new_builder true [4]).
Proof. exact (bs_new inv builder_sound true [4]). Qed.

(* GOAL (program level; not proved — searched by `joinprog` jobs, see tools/c13.py):
   C13_join_loop : strictly_ascending a -> strictly_ascending b -> |a| + |b| <= 256 ->
     the lowering of `for p in join_iter(a, b) { body }` runs body exactly for join_spec a b, in
     ascending key order, with the body's effects and panics applied only for those pairs.
   C13_join_fn : ascending a -> ascending b (repeats allowed) -> n + m - 1 <= 16 ->
     length (join a b) = n + m - 1 /\ flagged entries = the common keys, each once, each built
     from one element of a and one of b /\ unflagged entries all zero /\ flags sorted.
   They need a Gallina model of compile.rs (compile_bitonic_merge, pattern/statement lowering,
   the panic record), which this development does not have yet; the network theorems above
   (C13_merger_circuit_sorts for the padded up-then-down vector, C13_sorter_circuit_sorts for
   the flag sort) are the lemmas those proofs would use.
   GOAL (unbounded network theorems): see the end of Sort/ZeroOne.v. *)

(* ------------------------------------------------------------------ WITHOUT LENGTH BOUNDS
   (Sort/SortUnbounded.v, SortUnboundedHoare.v): the 0/1 lemmas "the bitonic merger sorts every
   1^a 0^b 1^c of any length and every 0^a 1^b 0^c of a power-of-two length" and "the bitonic
   sorter sorts every 0/1 sequence" are proved by induction over the recursions of Sort.v (the
   arbitrary-length variant: the split point is the largest power of two below n, the lower part
   may have either shape, the upper part is down-then-up again), instead of by enumeration; the
   zero-one principle and the permutation lemmas lift them to keys, elements and wires.  The
   bounded statements above are kept for comparison; these supersede them ("this holds for all
   array lengths (1, non powers of two) and element widths"). *)
From GV Require Sort.SortUnbounded Sort.SortUnboundedHoare.

Theorem C13_unbounded_merger_sorts_up_down : forall bits (v : list elem) k,
  length v = (2 ^ k)%nat -> up_then_down (map (key bits) v) ->
  sortedN (map (key bits) (bitonic_merger (gt_key bits) true v)) = true /\
  Permutation (bitonic_merger (gt_key bits) true v) v.
Proof. exact SortUnbounded.merger_elems_up_down. Qed.
Print Assumptions C13_unbounded_merger_sorts_up_down.

Theorem C13_unbounded_merger_sorts_down_up : forall bits (v : list elem),
  down_then_up (map (key bits) v) ->
  sortedN (map (key bits) (bitonic_merger (gt_key bits) true v)) = true /\
  Permutation (bitonic_merger (gt_key bits) true v) v.
Proof. exact SortUnbounded.merger_elems_down_up. Qed.
Print Assumptions C13_unbounded_merger_sorts_down_up.

Theorem C13_unbounded_sorter_sorts : forall bits (v : list elem),
  sortedN (map (key bits) (bitonic_sorter (gt_key bits) v)) = true /\
  Permutation (bitonic_sorter (gt_key bits) v) v.
Proof. exact SortUnbounded.sorter_elems. Qed.
Print Assumptions C13_unbounded_sorter_sorts.

Theorem C13_unbounded_merger_circuit_sorts : forall bits L b v k,
  inv b -> elems_ok b L v -> (bits <= L)%nat -> length v = (2 ^ k)%nat ->
  exists v' b', push_bitonic_merger (S (length v)) b bits true v = Ok (v', b') /\ inv b' /\ ext b b' /\
    elems_ok b' L v' /\ length v' = length v /\
    forall inp, ins_ok b inp -> up_then_down (map (key bits) (densl inp b v)) ->
      sortedN (map (key bits) (densl inp b' v')) = true /\
      Permutation (densl inp b' v') (densl inp b v).
Proof. exact SortUnboundedHoare.C13_merger_circuit_sorts_all. Qed.
Print Assumptions C13_unbounded_merger_circuit_sorts.

Theorem C13_unbounded_sorter_circuit_sorts : forall bits L b v,
  inv b -> elems_ok b L v -> (bits <= L)%nat ->
  exists v' b', push_bitonic_sorter b bits v = Ok (v', b') /\ inv b' /\ ext b b' /\
    elems_ok b' L v' /\ length v' = length v /\
    forall inp, ins_ok b inp ->
      sortedN (map (key bits) (densl inp b' v')) = true /\
      Permutation (densl inp b' v') (densl inp b v).
Proof. exact SortUnboundedHoare.C13_sorter_circuit_sorts_all. Qed.
Print Assumptions C13_unbounded_sorter_circuit_sorts.

(* ------------------------------------------------------------------ THE PROGRAM LEVEL, first half
   of the property (Compile/JoinMerge.v, Compile/TSemSemJoin.v): the lowering of
   `for p in join_iter(a, b) { body }` (tags, zero padding to a power of two, reversed b, bitonic
   merge, windows over adjacent entries, effects and panics guarded by "joined") agrees with the
   source semantics Sem.v of the loop — for every element of a in order, the element of b with
   the same key, body run once for that pair, nothing for the others — as a NODE of the theorem
   "bit-level semantics = Sem.v" (same interface as the nodes of TSemSemAgg.v, any element types
   whose first szn(join_ty) bits are the key, any pattern), under the property's precondition:
   both arrays strictly ascending by the unsigned key.  With the circuit theorems of C01 this is
   the behaviour of the emitted circuits on all such inputs.  The precondition is necessary
   (JoinExamples.join_unsorted_differs, join_duplicate_key_differs).  Noted by the proof: the
   key-0 element next to the zero padding keeps its payload only because the merger never moves
   a minimal prefix (merger_prefix_fixed) and the padding is placed BEFORE a. *)
From GV Require Compile.JoinMerge Compile.TSemSemJoin.

Theorem C13_for_join_loop_agrees_with_the_source_semantics :
  ltac:(let T := type of TSemSemJoin.join_loop_node_gpat in exact T).
Proof. exact TSemSemJoin.join_loop_node_gpat. Qed.
Print Assumptions C13_for_join_loop_agrees_with_the_source_semantics.

Theorem C13_merger_never_moves_a_minimal_prefix :
  ltac:(let T := type of @JoinMerge.merger_prefix_fixed in exact T).
Proof. exact @JoinMerge.merger_prefix_fixed. Qed.
Print Assumptions C13_merger_never_moves_a_minimal_prefix.

Theorem C13_sortedness_precondition_is_necessary :
  ltac:(let T := type of TSemSemJoin.JoinExamples.join_unsorted_differs in exact T).
Proof. exact TSemSemJoin.JoinExamples.join_unsorted_differs. Qed.

(* ------------------------------------------------------------------ THE PROGRAM LEVEL, second half:
   the `join` built-in (Compile/TSemJoinFn.v).  Sem.v does not specify `join`, so the theorem is
   about the bit-level semantics of the EJoin node directly (and, through C01, about the emitted
   circuits): for element vectors whose keys are ASCENDING (repeats allowed), any lengths and
   widths, the result has n + m - 1 entries of equal width; the flags are sorted, unflagged first,
   so the flag vector depends only on the number of matches; every unflagged entry is all zeros;
   the flagged entries are exactly one per common key, each built from an element of a and an
   element of b with that key (never two elements of one array); the panic observation is
   unchanged.  WHICH copy of a repeated key is reported is not determined
   (JoinFnExamples.repeated_key_choice shows both choices occur). *)
From GV Require Compile.TSemJoinFn.

Theorem C13_join_builtin_spec : ltac:(let T := type of TSemJoinFn.join_fn_spec in exact T).
Proof. exact TSemJoinFn.join_fn_spec. Qed.
Print Assumptions C13_join_builtin_spec.

Theorem C13_join_expression_spec : ltac:(let T := type of TSemJoinFn.join_expr_spec in exact T).
Proof. exact TSemJoinFn.join_expr_spec. Qed.
Print Assumptions C13_join_expression_spec.

(* ------------------------------------------------------------------ for-join PROGRAMS
   (Compile/TSemSemFullJoin.v, JoinProgram.v): for programs of the corpus shape - main's parameters
   are the two tables, literal `let mut`s, ONE `for p in join(a, b) { body }` at top level, then the
   result; [join_covered], a boolean evaluated per program - the bit-level semantics the circuit
   provably computes agrees with the source semantics Sem.v, under the run-time precondition that the
   keys of both tables are strictly ascending ([join_inputs_sorted]; shown necessary at program level:
   JoinProgramExample.unsorted_differs). *)
From GV Require Import Panic.PanicRec Panic.PanicSem Compile.TSem Compile.TSemSemExpr Compile.TSemSemFull Compile.SemFuel Compile.TSemSemFullJoin Compile.JoinProgram Lang.ValTy.
From GV Require Lang.Sem.

Theorem C13_for_join_programs_agree_with_the_source_semantics : forall P fuel fw fT args o outs,
  join_covered fw P = true -> sem_fuel_enough fuel P = true ->
  join_inputs_sorted P args -> canonical_main_args P args = true ->
  tsem_program fT P args = Ok (o, outs) ->
  (exists bits l, Sem.run_main fuel P args = Sem.RunOk bits l /\ o = None /\ outs = bits) \/
  (exists r m, Sem.run_main fuel P args = Sem.RunPanic r m /\ o = Some (preason_num (pr r), ploc32 (ploc_of m))) \/
  (frag_program P = false /\ exists c, Sem.run_main fuel P args = Sem.RunStuck c /\ In c stuck_allowed).
Proof. exact join_covered_agrees. Qed.
Print Assumptions C13_for_join_programs_agree_with_the_source_semantics.

(* ... down to the evaluated CIRCUIT (Compile/EndToEndJoin.v): [certified_join] = join_covered &&
   sem_fuel_enough && one successful run of the bit-level semantics on the all-zero arguments (by
   the one-witness theorem that is enough for definedness on every input); all Booleans evaluated
   per program.  For such a program the circuit the model of compile.rs returns validates, has the
   parameters' party sizes, evaluates on every input, and for canonical arguments with strictly
   ascending keys its output reads as the value / panic of Sem.v. *)
From GV Require Import Circuit.Ssa Compile.Lower Compile.EndToEnd Compile.EndToEndJoin.

Theorem C13_for_join_programs_end_to_end : forall fuel dedup P c,
  certified_join fuel P = true -> within_gate_bound fuel dedup P = true ->
  lower_program_with fuel dedup P = Ok (LCircuit c) ->
  ssa_validate c = None /\ input_gates c = fst (main_wiring P) /\
  forall ins inp,
    load_inputs (input_gates c) ins = Some inp ->
    canonical_main_args P (main_args P inp) = true ->
    join_inputs_sorted P (main_args P inp) ->
    exists out, ssa_eval c ins = Some out /\ output_spec fuel P (main_args P inp) out.
Proof. exact end_to_end_join. Qed.
Print Assumptions C13_for_join_programs_end_to_end.
